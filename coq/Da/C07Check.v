(* Correspondence + monitors for C07 (DA challenge state machine, windows, deadlines).
   A monitor is the property text evaluated on what the implementation did (the dumped
   pre/post projections, the operation and its result); it never looks at the model. *)
From Coq Require Import ZArith List Bool.
Import ListNotations.
From Sunrise Require Export Base.Outcome Base.Dec Base.Bank Base.Check Da.Da.
Local Open Scope Z_scope.

Definition terminal (st : Z) : bool := (st =? ST_VER) || (st =? ST_REJ).
Definition retention (p : params) (st : Z) : Z := if st =? ST_VER then pr_ver p else pr_rej p.

(* the only moves the property allows for one block end *)
Definition trans_ok (a b : Z) : bool :=
  if a =? ST_CP then (b =? ST_CP) || (b =? ST_CH) || (b =? ST_VER)
  else if a =? ST_CH then (b =? ST_CH) || (b =? ST_VER) || (b =? ST_REJ)
  else a =? b.

Definition same_identity (x y : item) : bool :=
  (i_uri x =? i_uri y) && (i_n x =? i_n y) && (i_parity x =? i_parity y) && (i_pub x =? i_pub y) &&
  zl_eqb (i_pc x) (i_pc y) && zl_eqb (i_ic x) (i_ic y).

(* 1. state machine: every item either keeps its status (and timestamp), or makes an allowed
   move stamped with the block time (only at a block end), or - terminal and past its retention
   period - disappears (only at a block end).  New items appear only through an accepted publish
   message, in the challenge period, stamped with the block time. *)
Definition mon_transitions (c : da_case) : bool :=
  let '(Case pre _ o now r post _) := c in
  forallb (fun x =>
    match find_item (i_uri x) (s_items post) with
    | Some y =>
        same_identity x y &&
        (if i_status x =? i_status y then i_ts x =? i_ts y
         else negb (is_msg o) && trans_ok (i_status x) (i_status y) && (i_ts y =? now))
    | None =>
        negb (is_msg o) && terminal (i_status x) &&
        (i_ts x + retention (s_prm pre) (i_status x) <=? now)
    end) (s_items pre)
  &&
  forallb (fun y =>
    match find_item (i_uri y) (s_items pre) with
    | Some _ => true
    | None => match o with
              | OPublish sender uri n parity =>
                  (r =? 0) && (i_uri y =? uri) && (i_status y =? ST_CP) && (i_ts y =? now) &&
                  (i_pub y =? sender) && (i_n y =? n) && (i_parity y =? parity)
              | _ => false
              end
    end) (s_items post).

(* 2. a challenge / a proof is accepted only in the matching status and window, a proof only for
   a bonded validator and from the validator or its registered deputy *)
Definition mon_acceptance (c : da_case) : bool :=
  let '(Case pre _ o now r post _) := c in
  if negb (r =? 0) then true else
  match o with
  | OInval sender uri idx =>
      match find_item uri (s_items pre) with
      | Some it => (i_status it =? ST_CP) && (now <=? i_ts it + pr_cp (s_prm pre))
      | None => false
      end
  | OProof sender val uri idx orc known bonded =>
      match find_item uri (s_items pre) with
      | Some it => (i_status it =? ST_CH) && (now <=? i_ts it + pr_pp (s_prm pre)) && known && bonded &&
                   ((sender =? val) || match lookup val (s_deps pre) with Some d => d =? sender | None => false end)
      | None => false
      end
  | _ => true
  end.

(* distinct disputed shards: indices that name a shard of the item *)
Definition disputed_shards (it : item) (invs : list inval) : list Z :=
  filter (idx_in_range (i_n it)) (disputed (i_uri it) invs).
(* threshold * shards <= #distinct disputed shards, exactly (both sides scaled by 10^18) *)
Definition threshold_reached (p : params) (it : item) (invs : list inval) : bool :=
  pr_thr p * i_n it <=? Z.of_nat (length (disputed_shards it invs)) * P.

(* 3. at a block end every transition happens exactly when its condition holds *)
Definition mon_on_time (c : da_case) : bool :=
  let '(Case pre _ o now r post _) := c in
  if is_msg o || negb (r =? 0) then true else
  let p := s_prm pre in
  forallb (fun x =>
    match find_item (i_uri x) (s_items post) with
    | None => true                        (* removal is judged by monitor 1 *)
    | Some y =>
        if i_status x =? ST_CP then
          let reach := threshold_reached p x (s_invs pre) in
          let over := i_ts x + pr_cp p <=? now in
          (* a reached threshold wins over an expired period (end-blocker phase order: to-challenging
             before to-verified): a challenge accepted inside the window is never skipped *)
          match reach, over with
          | true, _ => i_status y =? ST_CH
          | false, true => i_status y =? ST_VER
          | false, false => i_status y =? ST_CP
          end
        else if i_status x =? ST_CH then
          if i_ts x + pr_pp p <=? now then terminal (i_status y) else i_status y =? ST_CH
        else true
    end) (s_items pre).

(* 4. after a block end nothing is left unresolved past its deadline *)
Definition mon_no_overdue (c : da_case) : bool :=
  let '(Case pre _ o now r post _) := c in
  if is_msg o || negb (r =? 0) then true else
  let p := s_prm pre in
  forallb (fun y =>
    if i_status y =? ST_CP then now <? i_ts y + pr_cp p
    else if i_status y =? ST_CH then now <? i_ts y + pr_pp p
    else true) (s_items post).

(* 5. a failed message changes nothing; deputies change only by (un)registration *)
Definition mon_failed_msg (c : da_case) : bool :=
  let '(Case pre preb o now r post postb) := c in
  if is_msg o && negb (r =? 0) then dstate_eqb pre post && list_eqb zl_eqb preb postb else true.

(* 6. what an accepted challenge disputes are shards of the item *)
Definition mon_real_shards (c : da_case) : bool :=
  let '(Case pre _ o now r post _) := c in
  if negb (r =? 0) then true else
  match o with
  | OInval sender uri idx =>
      match find_item uri (s_items pre) with
      | Some it => forallb (idx_in_range (i_n it)) idx
      | None => true
      end
  | _ => true
  end.

(* Trigger of known finding C07-F1 (SubmitInvalidity has no range check): an accepted challenge
   carries an index outside [0, shards) (fails monitor 6); or, at a block end, such indices are what
   lifts an item in the challenge period over the threshold (fails monitor 3). *)
Definition has_phantom (it : item) (invs : list inval) : bool :=
  existsb (fun v => negb (forallb (idx_in_range (i_n it)) (v_idx v))) (invs_of (i_uri it) invs).
Definition trig_phantom_shards (c : da_case) : bool :=
  let '(Case pre _ o now r post _) := c in
  match o with
  | OInval sender uri idx =>
      (r =? 0) && match find_item uri (s_items pre) with
                  | Some it => negb (forallb (idx_in_range (i_n it)) idx)
                  | None => false
                  end
  | OEndBlock =>
      existsb (fun it =>
        (i_status it =? ST_CP) && has_phantom it (s_invs pre) &&
        match reaches (pr_thr (s_prm pre)) it (s_invs pre) with Some true => true | _ => false end &&
        negb (threshold_reached (s_prm pre) it (s_invs pre))) (s_items pre)
  | _ => false
  end.

(* ---------- the state machine over the history ----------
   A C07 case carries a ghost: (uri, status, timestamp) of every item as it stood after the previous
   block end of the same application (empty before the first one).
   7. between two block ends nothing moves (the pre-state of every operation shows the ghost's status
   and timestamp for every item the ghost knows); at a block end every move and every removal starts
   from the status and timestamp the item had after an EARLIER block end, its own deadline counted
   from that timestamp has passed (expiry, tally, pruning), and an item published in this very block
   can only go to challenging (so no item makes two moves in one block, and no deadline is evaluated
   against a status set in the same block). *)
Inductive c07_case := HCase (ghost : list (Z * Z * Z)) (c : da_case).

Fixpoint ghost_of (u : Z) (g : list (Z * Z * Z)) : option (Z * Z) :=
  match g with
  | [] => None
  | (u', st, ts) :: g' => if u' =? u then Some (st, ts) else ghost_of u g'
  end.

Definition mon_history (h : c07_case) : bool :=
  let '(HCase g (Case pre _ o now r post _)) := h in
  let p := s_prm pre in
  forallb (fun x =>
    match ghost_of (i_uri x) g with
    | Some (sg, tg) => (i_status x =? sg) && (i_ts x =? tg)
    | None => true
    end) (s_items pre)
  &&
  (if is_msg o || negb (r =? 0) then true else
   forallb (fun x =>
     let moved := match find_item (i_uri x) (s_items post) with
                  | Some y => if i_status y =? i_status x then None else Some (Some (i_status y))
                  | None => Some None
                  end in
     match moved with
     | None => true
     | Some dest =>
         match ghost_of (i_uri x) g, dest with
         | None, Some st' => (i_status x =? ST_CP) && (st' =? ST_CH)       (* published in this block *)
         | None, None => false
         | Some (sg, tg), None => terminal sg && (tg + retention p sg <=? now)
         | Some (sg, tg), Some st' =>
             if sg =? ST_CP then (st' =? ST_CH) || ((st' =? ST_VER) && (tg + pr_cp p <=? now))
             else if sg =? ST_CH then terminal st' && (tg + pr_pp p <=? now)
             else false
         end
     end) (s_items pre)).

Definition c07_check (c : da_case) : list Z :=
  flag 0 (corr_state c) ++ flag 1 (mon_transitions c) ++ flag 2 (mon_acceptance c) ++
  flag 3 (mon_on_time c) ++ flag 4 (mon_no_overdue c) ++ flag 5 (mon_failed_msg c) ++
  flag 6 (mon_real_shards c) ++ flag 101 (negb (trig_phantom_shards c)).

Definition c07_hcheck (h : c07_case) : list Z :=
  let '(HCase g c) := h in c07_check c ++ flag 7 (mon_history h).

Definition run := run_cases c07_hcheck.
