// Package c18: fees — the real fee ante decorator (directly and through CheckTx / FinalizeBlock
// with signed transactions) and the real Keeper.Burn, observed as Coq terms for Econ/C18Check.v.
package c18

import (
	"fmt"
	"math/big"
	"sort"
	"strings"

	errorsmod "cosmossdk.io/errors"
	sdkmath "cosmossdk.io/math"
		sdk "github.com/cosmos/cosmos-sdk/types"
	authtypes "github.com/cosmos/cosmos-sdk/x/auth/types"

	feetypes "github.com/sunriselayer/sunrise/x/fee/types"
	tctypes "github.com/sunriselayer/sunrise/x/tokenconverter/types"

	"verifharness/apph"
	"verifharness/emit"
)

// Denom universe, byte-sorted; the Coq model identifies a denom with its 1-based position so
// that integer order = string order.  Positions 1 and 8 fail sdk.ValidateDenom.
var universe = []string{"1abc", "uatom", "uosmo", "urise", "uusdc", "uvrise", "uzzz", "zz"}
var badIDs = []int64{1, 8}
var validDenoms = universe[1:7]

func did(d string) int64 {
	for i, u := range universe {
		if u == d {
			return int64(i + 1)
		}
	}
	panic("denom outside the universe: " + d)
}

func init() {
	if !sort.StringsAreSorted(universe) {
		panic("universe must be sorted")
	}
	for i, u := range universe {
		bad := sdk.ValidateDenom(u) != nil
		want := i == 0 || i == len(universe)-1
		if bad != want {
			panic("universe validity assumption broken for " + u)
		}
	}
}

type coin struct {
	Denom string
	Amt   *big.Int
}

func coqCoins(cs []coin) string {
	xs := make([]string, len(cs))
	for i, c := range cs {
		xs[i] = emit.Tuple(emit.ZI(did(c.Denom)), emit.Z(c.Amt))
	}
	return emit.List(xs)
}
func strCoins(cs []coin) string {
	xs := make([]string, len(cs))
	for i, c := range cs {
		xs[i] = c.Amt.String() + c.Denom
	}
	return strings.Join(xs, ",")
}
func sdkCoins(cs []coin) sdk.Coins {
	out := make(sdk.Coins, len(cs))
	for i, c := range cs {
		out[i] = sdk.Coin{Denom: c.Denom, Amount: sdkmath.NewIntFromBigInt(c.Amt)}
	}
	return out
}
func fromSdk(cs sdk.Coins) []coin {
	out := make([]coin, len(cs))
	for i, c := range cs {
		out[i] = coin{c.Denom, c.Amount.BigInt()}
	}
	return out
}

// view: balances of the given accounts in the six valid denoms, then the six supplies.
func view(h *apph.H, ctx sdk.Context, accts []sdk.AccAddress) []string {
	var out []string
	for _, a := range accts {
		for _, d := range validDenoms {
			out = append(out, hexZ(h.Bal(ctx, a, d).BigInt()))
		}
	}
	for _, d := range validDenoms {
		out = append(out, hexZ(h.Supply(ctx, d).BigInt()))
	}
	return out
}

// hexZ writes a non-negative integer as a Coq hexadecimal literal (coqc elaborates those
// several times faster than decimal ones).
func hexZ(x *big.Int) string {
	if x.Sign() < 0 {
		return "(-0x" + new(big.Int).Neg(x).Text(16) + ")"
	}
	return "0x" + x.Text(16)
}

// diffView renders post as the (position, value) pairs that differ from pre.
func diffView(pre, post []string) string {
	var xs []string
	for i := range pre {
		if pre[i] != post[i] {
			xs = append(xs, emit.Tuple(emit.ZI(int64(i)), post[i]))
		}
	}
	return emit.List(xs)
}

func sameView(a, b []string) bool {
	if len(a) != len(b) {
		return false
	}
	for i := range a {
		if a[i] != b[i] {
			return false
		}
	}
	return true
}

// setBal makes addr hold exactly target of denom on ctx (mint to raise, burn to lower; both
// through the tokenconverter module account, which holds minter+burner permissions).
func setBal(h *apph.H, ctx sdk.Context, addr sdk.AccAddress, denom string, target *big.Int) error {
	h.App.AuthKeeper.GetModuleAccount(ctx, tctypes.ModuleName) // creates the account when absent
	cur := h.Bal(ctx, addr, denom).BigInt()
	d := new(big.Int).Sub(target, cur)
	if d.Sign() == 0 {
		return nil
	}
	if d.Sign() > 0 {
		cs := sdk.NewCoins(sdk.NewCoin(denom, sdkmath.NewIntFromBigInt(d)))
		if err := h.App.BankKeeper.MintCoins(ctx, tctypes.ModuleName, cs); err != nil {
			return err
		}
		return h.App.BankKeeper.SendCoins(ctx, authtypes.NewModuleAddress(tctypes.ModuleName), addr, cs)
	}
	d.Neg(d)
	cs := sdk.NewCoins(sdk.NewCoin(denom, sdkmath.NewIntFromBigInt(d)))
	if err := h.App.BankKeeper.SendCoins(ctx, addr, authtypes.NewModuleAddress(tctypes.ModuleName), cs); err != nil {
		return err
	}
	return h.App.BankKeeper.BurnCoins(ctx, authtypes.NewModuleAddress(tctypes.ModuleName), cs)
}

// errClass maps an error to the model's class: sdk codespace -> code, feegrant -> 1000+code,
// unregistered -> 1, other codespaces -> 2000+code; "Panic" for a recovered panic.
func errClass(err error) string {
	if err == nil {
		return ""
	}
	if strings.HasPrefix(err.Error(), "panic:") {
		return "Panic"
	}
	space, code, _ := errorsmod.ABCIInfo(err, false)
	return classOf(space, code)
}
func classOf(space string, code uint32) string {
	switch {
	case space == "undefined" && code == 111222:
		return "Panic"
	case space == "sdk":
		return fmt.Sprintf("(Err %d)", code)
	case space == "feegrant":
		return fmt.Sprintf("(Err %d)", 1000+code)
	case space == "undefined":
		return "(Err 1)"
	default:
		return fmt.Sprintf("(Err %d)", 2000+code)
	}
}

// allowTerm renders the feegrant oracle's verdict as the model's [ai_allow].
func allowTerm(err error) string {
	if err == nil {
		return "(Ok tt)"
	}
	return errClass(err)
}

type feeParams struct {
	FeeDenom string
	Bypass   []string
}

func paramsTerm(p *feeParams) string {
	if p == nil {
		return "None"
	}
	xs := make([]string, len(p.Bypass))
	for i, b := range p.Bypass {
		xs[i] = emit.ZI(did(b))
	}
	return "(Some " + emit.Tuple(emit.ZI(did(p.FeeDenom)), emit.List(xs)) + ")"
}

var modeNames = []string{"MCheck", "MReCheck", "MSimulate", "MPrepare", "MProcess", "MVoteExt", "MVerifyVoteExt", "MFinalize"}

type anteIn struct {
	Mode     int
	Height   int64
	Gas      uint64
	Fee      []coin
	Mgp      []coin // denom, raw LegacyDec
	Params   *feeParams
	Granter  int // 0 none, 1 = payer itself, 2 = distinct account
	AllowErr string
}

func (a anteIn) coq() string {
	gr := "None"
	switch a.Granter {
	case 1:
		gr = "(Some 1)"
	case 2:
		gr = "(Some 2)"
	}
	bad := make([]string, len(badIDs))
	for i, b := range badIDs {
		bad[i] = emit.ZI(b)
	}
	return fmt.Sprintf("{| ai_mode := %s; ai_height := %s; ai_gas := %s; ai_fee := %s; ai_mgp := %s; ai_params := %s; ai_bad := %s; ai_payer := 1; ai_granter := %s; ai_allow := %s; ai_collector := 3 |}",
		modeNames[a.Mode], emit.ZI(a.Height), emit.Z(new(big.Int).SetUint64(a.Gas)), coqCoins(a.Fee), coqCoins(a.Mgp),
		paramsTerm(a.Params), emit.List(bad), gr, a.AllowErr)
}

// feeShape classifies a fee set for the non-triviality rule and the histogram.
func feeShape(fee []coin, p *feeParams) string {
	if len(fee) == 0 {
		return "none"
	}
	cls := func(c coin) string {
		k := "other"
		if sdk.ValidateDenom(c.Denom) != nil {
			k = "baddenom"
		} else if p != nil && c.Denom == p.FeeDenom {
			k = "fee"
		} else if p != nil {
			for _, b := range p.Bypass {
				if b == c.Denom {
					k = "bypass"
				}
			}
		}
		switch c.Amt.Sign() {
		case 0:
			k += "=0"
		case -1:
			k += "<0"
		}
		return k
	}
	xs := make([]string, len(fee))
	for i, c := range fee {
		xs[i] = cls(c)
	}
	return strings.Join(xs, "+")
}

var collector = authtypes.NewModuleAddress(authtypes.FeeCollectorName)
var feeMod = authtypes.NewModuleAddress(feetypes.ModuleName)

// Run generates n cases (plus the fixed corpus) and writes cases + stats into outDir.
func Run(seed int64, n int, outDir string) error {
	r := emit.NewRand(seed)
	// modest genesis balances keep the emitted numbers short
	var gb sdk.Coins
	for _, d := range []string{"uatom", "uosmo", "urise", "uusdc", "uvrise"} {
		gb = gb.Add(sdk.NewCoin(d, sdkmath.NewInt(1_000_000_000_000)))
	}
	h := apph.New(apph.Options{NumAccounts: 8, Balances: gb})
	defer h.Close()
	st := emit.NewStats("C18", seed,
		"ante: one run of the real DeductFeeDecorator (direct call with a generated FeeTx in every exec mode, or a signed tx through CheckTx/ReCheck/FinalizeBlock) compared with Econ/FeeAnte.ante_tx; non-trivial = check mode after genesis with a fee set different from 'one fee-denom coin', distinct by (fee shape, min-gas-price config, params config, granter kind, outcome). burn: one real Keeper.Burn call on generated collector balances, ratios and fee lists; non-trivial = a positive amount was burned or the burn failed for lack of funds")
	cf := &emit.CasesFile{Import: "Econ.C18Check", Runner: "run", Type: "c18_case"}
	e := &env{h: h, r: r, st: st, cf: cf}
	if err := e.stabilityCheck(); err != nil {
		return err
	}
	for _, c := range corpusDirect() {
		if err := e.directCase(c, "corpus"); err != nil {
			return err
		}
	}
	for _, c := range corpusBurn() {
		if err := e.burnCase(c, "corpus"); err != nil {
			return err
		}
	}
	nApp := n / 4
	nBurn := n / 4
	nDirect := n - nApp - nBurn
	for i := 0; i < nDirect; i++ {
		if err := e.directCase(e.genDirect(), "gen"); err != nil {
			return err
		}
	}
	for i := 0; i < nBurn; i++ {
		if err := e.burnCase(e.genBurn(), "gen"); err != nil {
			return err
		}
	}
	for i := 0; i < nApp; i++ {
		if err := e.appCase(); err != nil {
			return err
		}
	}
	// nodes built with the minimum gas price configured in each of the four ways (corpus: one
	// of each; then random), a handful of CheckTx each
	nNodes := 8 + n/200
	for k := 0; k < nNodes; k++ {
		if err := e.nodeConfigCases(k); err != nil {
			return err
		}
	}
	if _, err := cf.Write(outDir, "cases", 400); err != nil {
		return err
	}
	return st.Write(outDir)
}

type env struct {
	h  *apph.H
	r  *emit.Rand
	st *emit.Stats
	cf *emit.CasesFile
	// app-level configuration currently installed
	curMgp string
}

// stabilityCheck: an empty block must leave the watched balances and supplies unchanged (the
// FinalizeBlock cases attribute the whole difference across one block to the transaction).
func (e *env) stabilityCheck() error {
	h := e.h
	accts := []sdk.AccAddress{h.Accts[0].Addr, h.Accts[1].Addr, collector, h.Accts[7].Addr}
	if _, err := h.NextBlock(blockStep); err != nil {
		return err
	}
	a := view(h, h.Ctx(), accts)
	if _, err := h.NextBlock(blockStep); err != nil {
		return err
	}
	b := view(h, h.Ctx(), accts)
	if !sameView(a, b) {
		return fmt.Errorf("an empty block changes the watched ledger: %v -> %v", a, b)
	}
	return nil
}
