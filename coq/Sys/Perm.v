(* C14: order-independence lemmas.  A Go `for k, v := range m` visits every entry of m exactly
   once in an unspecified order, i.e. it runs the loop body over SOME permutation of the entry
   list.  The lemmas below say when the result does not depend on which permutation was taken. *)
From Coq Require Import ZArith List Bool Lia Permutation.
From Sunrise Require Import Base.Outcome Sys.Coll.
Import ListNotations.
Local Open Scope Z_scope.

(* ------------------------------------------------------------------ plain folds *)
Section FoldPerm.
  Variables (S A : Type) (f : S -> A -> S).
  Variable I : S -> Prop.          (* loop invariant on the accumulator *)
  Variable P : A -> Prop.          (* what is known about every element *)
  Hypothesis I_pres : forall s a, I s -> P a -> I (f s a).
  Hypothesis comm : forall s a b, I s -> P a -> P b -> f (f s a) b = f (f s b) a.

  Theorem fold_left_perm : forall l l', Permutation l l' -> Forall P l ->
    forall s, I s -> fold_left f l s = fold_left f l' s.
  Proof.
    intros l l' Hp. induction Hp as [|x l l' Hp IH|x y l|l l' l'' Hp1 IH1 Hp2 IH2]; intros HF s Hs.
    - reflexivity.
    - inversion HF as [|? ? Hx Hl]; subst. cbn. apply IH; [exact Hl|apply I_pres; assumption].
    - inversion HF as [|? ? Hy Hl]; subst. inversion Hl as [|? ? Hx Hl']; subst.
      cbn. rewrite comm by assumption. reflexivity.
    - rewrite IH1 by assumption. apply IH2; [|exact Hs].
      eapply Permutation_Forall; [exact Hp1|exact HF].
  Qed.
End FoldPerm.

(* ------------------------------------------------------------------ folds that can fail *)
Section FoldMPerm.
  Variables (S A : Type) (f : S -> A -> res S).
  Variable I : S -> Prop.
  Variable P : A -> Prop.
  Hypothesis I_pres : forall s a s', I s -> P a -> f s a = Ok s' -> I s'.
  (* the two bodies commute, failures included: Kleisli commutation *)
  Hypothesis comm : forall s a b, I s -> P a -> P b ->
    rbind (f s a) (fun s' => f s' b) = rbind (f s b) (fun s' => f s' a).

  Theorem foldM_perm : forall l l', Permutation l l' -> Forall P l ->
    forall s, I s -> foldM f l s = foldM f l' s.
  Proof.
    intros l l' Hp. induction Hp as [|x l l' Hp IH|x y l|l l' l'' Hp1 IH1 Hp2 IH2]; intros HF s Hs.
    - reflexivity.
    - inversion HF as [|? ? Hx Hl]; subst. cbn.
      destruct (f s x) as [s'| |] eqn:E; cbn; [|reflexivity|reflexivity].
      apply IH; [exact Hl|]. eapply I_pres; eassumption.
    - inversion HF as [|? ? Hy Hl]; subst. inversion Hl as [|? ? Hx Hl']; subst.
      cbn. pose proof (comm s y x Hs Hy Hx) as C.
      destruct (f s y) as [s1| |] eqn:E1; destruct (f s x) as [s2| |] eqn:E2; cbn in *;
        try (rewrite C; reflexivity); try (rewrite <- C; reflexivity); try congruence;
        try (destruct (f s1 x); cbn in *; congruence); try (destruct (f s2 y); cbn in *; congruence).
    - rewrite IH1 by assumption. apply IH2; [|exact Hs].
      eapply Permutation_Forall; [exact Hp1|exact HF].
  Qed.
End FoldMPerm.

Lemma foldM_app {S A} (f : S -> A -> res S) l1 l2 s :
  foldM f (l1 ++ l2) s = rbind (foldM f l1 s) (foldM f l2).
Proof.
  revert s. induction l1 as [|a l1 IH]; intros s; cbn; [reflexivity|].
  destruct (f s a); cbn; [apply IH|reflexivity|reflexivity].
Qed.

(* a loop whose body is itself a sequence of atomic steps is the loop over all atomic steps *)
Lemma foldM_flat_map {S A B} (g : A -> list B) (f : S -> B -> res S) l s :
  foldM (fun s a => foldM f (g a) s) l s = foldM f (flat_map g l) s.
Proof.
  revert s. induction l as [|a l IH]; intros s; cbn; [reflexivity|].
  rewrite foldM_app. destruct (foldM f (g a) s); cbn; [apply IH|reflexivity|reflexivity].
Qed.

Lemma foldM_ext {S A} (f g : S -> A -> res S) l s :
  (forall s a, In a l -> f s a = g s a) -> foldM f l s = foldM g l s.
Proof.
  revert s. induction l as [|a l IH]; intros s H; cbn; [reflexivity|].
  rewrite H by (left; reflexivity). destruct (g s a); cbn; try reflexivity.
  apply IH. intros. apply H. right. assumption.
Qed.

(* ------------------------------------------------------------------ canonical maps *)
Section SMap.
  Context {V : Type}.
  Implicit Types m : smap V.

  Lemma sget_supd k k' v m : sget k (supd k' v m) = if k =? k' then Some v else sget k m.
  Proof.
    induction m as [|[k0 v0] t IH]; cbn.
    - destruct (k =? k'); reflexivity.
    - destruct (Z.ltb_spec k' k0) as [Hlt|Hge]; cbn.
      + destruct (Z.eqb_spec k k'); reflexivity.
      + destruct (Z.eqb_spec k' k0) as [->|Hne]; cbn.
        * destruct (Z.eqb_spec k k0); reflexivity.
        * destruct (Z.eqb_spec k k0) as [->|Hne2].
          -- destruct (Z.eqb_spec k0 k'); [congruence|reflexivity].
          -- exact IH.
  Qed.

  Lemma sget_none_notin k m : ~ In k (skeys m) -> sget k m = None.
  Proof.
    induction m as [|[k0 v0] t IH]; cbn; intros H; [reflexivity|].
    destruct (Z.eqb_spec k k0) as [->|Hne]; [exfalso; apply H; left; reflexivity|].
    apply IH. intros Hin. apply H. right. exact Hin.
  Qed.

  Lemma sget_in k m v : sget k m = Some v -> In k (skeys m).
  Proof.
    induction m as [|[k0 v0] t IH]; cbn; [discriminate|].
    destruct (Z.eqb_spec k k0) as [->|Hne]; intros H; [left; reflexivity|right; apply IH; exact H].
  Qed.

  Lemma skeys_supd k v m k' : In k' (skeys (supd k v m)) -> k' = k \/ In k' (skeys m).
  Proof.
    induction m as [|[k0 v0] t IH]; cbn.
    - intros [H|[]]. left. symmetry. exact H.
    - destruct (k <? k0); cbn.
      + intros [H|H]; [left; symmetry; exact H|right; exact H].
      + destruct (Z.eqb_spec k k0) as [->|Hne]; cbn.
        * intros [H|H]; [left; symmetry; exact H|right; right; exact H].
        * intros [H|H]; [right; left; exact H|]. destruct (IH H) as [E|E]; [left; exact E|right; right; exact E].
  Qed.

  Lemma supd_ok k v m : sm_ok m -> sm_ok (supd k v m).
  Proof.
    induction m as [|[k0 v0] t IH]; cbn.
    - intros _. split; [intros k' []|exact I].
    - intros [Hmin Hok]. destruct (Z.ltb_spec k k0) as [Hlt|Hge]; cbn.
      + split; [|split; assumption]. intros k' [<-|Hin]; [exact Hlt|]. specialize (Hmin k' Hin). lia.
      + destruct (Z.eqb_spec k k0) as [->|Hne]; cbn.
        * split; assumption.
        * split; [|apply IH; exact Hok]. intros k' Hin. apply skeys_supd in Hin.
          destruct Hin as [->|Hin]; [lia|apply Hmin; exact Hin].
  Qed.

  (* canonical maps with the same contents are equal *)
  Lemma sm_ext m m' : sm_ok m -> sm_ok m' -> (forall k, sget k m = sget k m') -> m = m'.
  Proof.
    revert m'. induction m as [|[k1 v1] t1 IH]; intros [|[k2 v2] t2] H1 H2 E.
    - reflexivity.
    - specialize (E k2). cbn in E. rewrite Z.eqb_refl in E. discriminate.
    - specialize (E k1). cbn in E. rewrite Z.eqb_refl in E. discriminate.
    - cbn in H1, H2. destruct H1 as [M1 O1], H2 as [M2 O2].
      assert (k1 = k2) as ->.
      { destruct (Z.lt_trichotomy k1 k2) as [L|[Eq|L]]; [|exact Eq|].
        - pose proof (E k1) as E1. cbn in E1. rewrite Z.eqb_refl in E1.
          destruct (Z.eqb_spec k1 k2); [lia|].
          rewrite sget_none_notin in E1; [discriminate|]. intros Hin. specialize (M2 _ Hin). lia.
        - pose proof (E k2) as E2. cbn in E2. rewrite Z.eqb_refl in E2.
          destruct (Z.eqb_spec k2 k1); [lia|].
          rewrite sget_none_notin in E2; [discriminate|]. intros Hin. specialize (M1 _ Hin). lia. }
      pose proof (E k2) as E0. cbn in E0. rewrite Z.eqb_refl in E0. injection E0 as ->.
      f_equal. apply IH; [exact O1|exact O2|]. intros k.
      destruct (Z.eqb_spec k k2) as [->|Hne].
      + rewrite !sget_none_notin; [reflexivity| |].
        * intros Hin. specialize (M2 _ Hin). lia.
        * intros Hin. specialize (M1 _ Hin). lia.
      + specialize (E k). cbn in E. destruct (Z.eqb_spec k k2); [contradiction|exact E].
  Qed.

  Lemma supd_comm k1 v1 k2 v2 m : sm_ok m -> k1 <> k2 ->
    supd k1 v1 (supd k2 v2 m) = supd k2 v2 (supd k1 v1 m).
  Proof.
    intros Hok Hne. apply sm_ext; [repeat apply supd_ok; exact Hok..|].
    intros k. rewrite !sget_supd.
    destruct (Z.eqb_spec k k1), (Z.eqb_spec k k2); try reflexivity. congruence.
  Qed.

  Lemma supd_supd k v1 v2 m : sm_ok m -> supd k v1 (supd k v2 m) = supd k v1 m.
  Proof.
    intros Hok. apply sm_ext; [repeat apply supd_ok; exact Hok|apply supd_ok; exact Hok|].
    intros k'. rewrite !sget_supd. destruct (k' =? k); reflexivity.
  Qed.

  Lemma sm_okb_ok m : sm_okb m = true -> sm_ok m.
  Proof.
    induction m as [|[k v] t IH]; cbn; [intros; exact I|].
    intros H. apply andb_prop in H. destruct H as [H1 H2]. split; [|apply IH; exact H2].
    intros k' Hin. rewrite forallb_forall in H1. specialize (H1 _ Hin). lia.
  Qed.
End SMap.

(* ------------------------------------------------------------------ append then sort *)
Section Sort.
  Context {A : Type} (key : A -> Z).

  Lemma insert_by_comm x y l : key x <> key y ->
    insert_by key x (insert_by key y l) = insert_by key y (insert_by key x l).
  Proof.
    intros Hne. induction l as [|z t IH]; cbn.
    - destruct (Z.leb_spec (key x) (key y)), (Z.leb_spec (key y) (key x)); try reflexivity; lia.
    - destruct (Z.leb_spec (key y) (key z)) as [Hy|Hy], (Z.leb_spec (key x) (key z)) as [Hx|Hx]; cbn.
      + destruct (Z.leb_spec (key x) (key y)), (Z.leb_spec (key y) (key x)); cbn; try lia.
        * destruct (Z.leb_spec (key y) (key z)); [reflexivity|lia].
        * destruct (Z.leb_spec (key x) (key z)); [reflexivity|lia].
      + destruct (Z.leb_spec (key x) (key y)); [lia|]. cbn.
        destruct (Z.leb_spec (key x) (key z)); [lia|].
        destruct (Z.leb_spec (key y) (key z)); [reflexivity|lia].
      + destruct (Z.leb_spec (key y) (key x)); [lia|]. cbn.
        destruct (Z.leb_spec (key y) (key z)); [lia|].
        destruct (Z.leb_spec (key x) (key z)); [reflexivity|lia].
      + destruct (Z.leb_spec (key x) (key z)); [lia|].
        destruct (Z.leb_spec (key y) (key z)); [lia|]. rewrite IH. reflexivity.
  Qed.

  (* a map range that only appends, followed by a stable sort on a key that is unique among the
     appended elements, yields the same slice whatever the iteration order was *)
  Theorem isort_by_perm : forall l l', Permutation l l' -> NoDup (map key l) ->
    isort_by key l = isort_by key l'.
  Proof.
    intros l l' Hp. induction Hp as [|x l l' Hp IH|x y l|l l' l'' Hp1 IH1 Hp2 IH2]; intros Hnd.
    - reflexivity.
    - cbn in *. inversion Hnd; subst. rewrite IH by assumption. reflexivity.
    - cbn in *. inversion Hnd as [|? ? Hnin Hnd']; subst. apply insert_by_comm.
      intros E. apply Hnin. left. symmetry. exact E.
    - rewrite IH1 by assumption. apply IH2.
      eapply Permutation_NoDup; [apply Permutation_map; exact Hp1|exact Hnd].
  Qed.
End Sort.

(* ------------------------------------------------------------------ selections *)
Lemma Permutation_filter {A} (p : A -> bool) l l' :
  Permutation l l' -> Permutation (filter p l) (filter p l').
Proof.
  intros Hp. induction Hp as [|x l l' Hp IH|x y l|l l' l'' Hp1 IH1 Hp2 IH2]; cbn.
  - constructor.
  - destruct (p x); [constructor|]; exact IH.
  - destruct (p x), (p y); try apply Permutation_refl. constructor.
  - eapply Permutation_trans; eassumption.
Qed.

Lemma zmem_in x l : zmem x l = true <-> In x l.
Proof.
  induction l as [|y t IH]; cbn; [split; [discriminate|intros []]|].
  rewrite orb_true_iff, IH. split.
  - intros [H|H]; [left; apply Z.eqb_eq in H; symmetry; exact H|right; exact H].
  - intros [H|H]; [left; apply Z.eqb_eq; symmetry; exact H|right; exact H].
Qed.

Lemma zmem_perm x l l' : Permutation l l' -> zmem x l = zmem x l'.
Proof.
  intros Hp. destruct (zmem x l) eqn:E1, (zmem x l') eqn:E2; try reflexivity.
  - apply zmem_in in E1. eapply Permutation_in in E1; [|exact Hp]. apply zmem_in in E1. congruence.
  - apply zmem_in in E2. eapply Permutation_in in E2; [|apply Permutation_sym; exact Hp].
    apply zmem_in in E2. congruence.
Qed.
