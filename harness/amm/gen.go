package amm

import (
	"fmt"
	"math/big"

	sdk "github.com/cosmos/cosmos-sdk/types"

	lptypes "github.com/sunriselayer/sunrise/x/liquiditypool/types"

	"verifharness/emit"
)

type poolParams struct{ fee, ratio, offset string }

var paramSets = []poolParams{
	{"0.003", "1.0001", "0.5"},
	{"0.01", "1.001", "0"},
	{"0", "1.01", "-0.5"},
	{"0.0001", "1.0001", "0"},
	{"0.05", "1.1", "0.25"},
	{"0.3", "1.002", "-0.25"},
}

var denomPairs = [][2]string{{"urise", "uusdc"}, {"uatom", "uosmo"}, {"uusdc", "uatom"}, {"uosmo", "urise"}, {"urise", "uatom"}, {"uusdc", "uosmo"}}

// SetupPools creates n pools with varied parameters.
func (w *World) SetupPools(n int) error {
	for i := 0; i < n; i++ {
		ps := paramSets[(i+w.R.Intn(len(paramSets)))%len(paramSets)]
		dp := denomPairs[i%len(denomPairs)]
		if _, err := w.CreatePool(dp[0], dp[1], ps.fee, ps.ratio, ps.offset); err != nil {
			return err
		}
	}
	return nil
}

// restingTick reports the tick (cur or cur+1) whose sqrt price is exactly the pool's current sqrt price.
func (w *World) restingTick(p PoolInfo, cur int64, sqrtPrice string) (int64, bool) {
	if sqrtPrice == "" {
		return 0, false
	}
	tp := lptypes.TickParams{PriceRatio: p.Ratio, BaseOffset: p.Offset}
	for _, t := range []int64{cur + 1, cur} {
		sp, err := lptypes.TickToSqrtPrice(t, tp)
		if err == nil && sp.String() == sqrtPrice {
			return t, true
		}
	}
	return 0, false
}

// ratioPow returns ratio^k exactly.
func ratioPow(ratio string, k int64) *big.Rat {
	b, ok := new(big.Rat).SetString(ratio)
	if !ok {
		panic("bad ratio " + ratio)
	}
	n := k
	if n < 0 {
		n = -n
	}
	e := big.NewInt(n)
	v := new(big.Rat).SetFrac(new(big.Int).Exp(b.Num(), e, nil), new(big.Int).Exp(b.Denom(), e, nil))
	if k < 0 {
		v.Inv(v)
	}
	return v
}

func pow10(n int) *big.Int { return new(big.Int).Exp(big.NewInt(10), big.NewInt(int64(n)), nil) }

// tick span appropriate for the pool's ratio (keeps prices within a few e-folds)
func (p PoolInfo) span() int64 {
	switch p.Ratio {
	// the model's price->tick search is linear in |tick| (as the code's), and slow under vm_compute:
	// keep generated ticks within a few hundred
	case "1.0001":
		return 400
	case "1.001", "1.002":
		return 300
	case "1.01":
		return 150
	default:
		return 40
	}
}

func (w *World) positions(ctx sdk.Context, p PoolInfo) []lptypes.Position {
	poss, err := w.K.GetPositionsByPool(ctx, p.ID)
	if err != nil {
		panic(err)
	}
	return poss
}

// GenOp generates one operation for pool p from the current state.
func (w *World) GenOp(ctx sdk.Context, p PoolInfo) Op {
	r := w.R
	pool, _, _ := w.K.GetPool(ctx, p.ID)
	poss := w.positions(ctx, p)
	cur := pool.CurrentTick
	sp := p.span()
	sender := r.Intn(3)
	if len(poss) == 0 {
		// first position (or a re-creation after emptying): both amounts needed
		if r.Chance(9, 10) {
			base := r.LogUniform(20)
			// quote/base close to 1 so the initial tick stays small: within +-3% for fine grids,
			// within [1/2, 2] for coarse ones
			num := big.NewInt(int64(9700 + r.Intn(601)))
			if p.Ratio != "1.0001" && p.Ratio != "1.001" && p.Ratio != "1.002" {
				num = big.NewInt(int64(5000 + r.Intn(15001)))
			}
			if r.Chance(1, 4) {
				// a deep pool: liquidity above 10^18 per unit, so that a remainder of one or two
				// units (the dust left after a step that ended on a tick) does not move the price
				base = new(big.Int).Mul(r.LogUniform(6), pow10(20))
			}
			quote := new(big.Int).Div(new(big.Int).Mul(base, num), big.NewInt(10000))
			if quote.Sign() == 0 {
				quote.SetInt64(1)
			}
			lo := -int64(1 + r.Intn(int(sp)))
			up := int64(1 + r.Intn(int(sp)))
			if p.Centre != 0 {
				// price = ratio^centre: a base amount large enough for the quote amount to be several units
				base = new(big.Int).Mul(r.LogUniform(8), pow10(14))
				pr := ratioPow(p.Ratio, p.Centre)
				quote = new(big.Int).Div(new(big.Int).Mul(new(big.Int).Mul(base, num), pr.Num()), new(big.Int).Mul(big.NewInt(10000), pr.Denom()))
				if quote.Sign() == 0 {
					quote.SetInt64(1)
				}
				lo, up = p.Centre+lo, p.Centre+up
			}
			// centre the range roughly on the tick the price will get: ln(q/b)/ln(ratio) is within +-span
			return Op{Kind: "create", Sender: sender, Lower: lo, Upper: up, Base: base, Quote: quote, MinBase: big.NewInt(0), MinQuote: big.NewInt(0), Tag: "first"}
		}
		if r.Bool() {
			return Op{Kind: "swap", Sender: sender, ExactIn: true, DenomIn: r.Intn(2), Amount: r.LogUniform(12), Tag: "swap-empty-pool"}
		}
		return Op{Kind: "create", Sender: sender, Lower: -10, Upper: 10, Base: r.LogUniform(10), Quote: big.NewInt(0), MinBase: big.NewInt(0), MinQuote: big.NewInt(0), Tag: "first-one-sided"}
	}
	// the pool has positions but none in range (the price sits in a gap): a new position must not
	// re-initialise the price; and make such gaps: withdraw the only in-range position while others remain
	if len(poss) > 0 {
		var inRange []lptypes.Position
		for _, q := range poss {
			if q.LowerTick <= cur && cur < q.UpperTick {
				inRange = append(inRange, q)
			}
		}
		if len(inRange) == 0 && r.Chance(1, 2) {
			a := int64(1 + r.Intn(int(sp)))
			b := int64(1 + r.Intn(int(sp)))
			return Op{Kind: "create", Sender: sender, Lower: cur - a, Upper: cur + b, Base: r.LogUniform(22), Quote: r.LogUniform(22), MinBase: big.NewInt(0), MinQuote: big.NewInt(0), Tag: "create-in-gap"}
		}
		if len(inRange) == 1 && len(poss) >= 2 && r.Chance(1, 10) {
			q := inRange[0]
			return Op{Kind: "decrease", Sender: w.userIndex(q.Address), Pid: q.Id, Liq: raw(q.Liquidity), Tag: "decrease-all/leaves-gap"}
		}
	}
	// the price rests exactly on a tick t (a swap ended there): cursor and price then disagree about
	// which side of t the pool is on when the swap came from above (cursor t-1, price = price(t)).
	// Change liquidity bounded by t in that state, half of the time.
	if t, ok := w.restingTick(p, pool.CurrentTick, pool.CurrentSqrtPrice); ok && r.Chance(1, 2) {
		a := int64(1 + r.Intn(int(sp)))
		var bounded []lptypes.Position
		for _, q := range poss {
			if q.LowerTick == t || q.UpperTick == t {
				bounded = append(bounded, q)
			}
		}
		if len(bounded) > 0 && r.Chance(1, 2) {
			q := bounded[r.Intn(len(bounded))]
			owner := w.userIndex(q.Address)
			l := raw(q.Liquidity)
			tag := "decrease-all/on-resting-tick"
			if r.Bool() {
				l = new(big.Int).Div(l, big.NewInt(int64(2+r.Intn(3))))
				tag = "decrease-part/on-resting-tick"
			}
			return Op{Kind: "decrease", Sender: owner, Pid: q.Id, Liq: l, Tag: tag}
		}
		lo, up, tag := t, t+a, "lower-on-resting-tick"
		if r.Bool() {
			lo, up, tag = t-a, t, "upper-on-resting-tick"
		}
		return Op{Kind: "create", Sender: sender, Lower: lo, Upper: up, Base: r.LogUniform(22), Quote: r.LogUniform(22), MinBase: big.NewInt(0), MinQuote: big.NewInt(0), Tag: tag}
	}
	k := r.Intn(100)
	switch {
	case k < 24: // create
		var lo, up int64
		a := int64(1 + r.Intn(int(sp)))
		b := int64(1 + r.Intn(int(sp)))
		tag := ""
		// initialised ticks strictly above / at-or-below the cursor (bounds of open positions)
		var above, below []int64
		for _, q := range poss {
			for _, t := range []int64{q.LowerTick, q.UpperTick} {
				if t > cur {
					above = append(above, t)
				} else if t < cur {
					below = append(below, t)
				}
			}
		}
		switch r.Intn(11) {
		case 8, 9:
			// a range one of whose ticks is OLD (initialised, possibly crossed since: its fee growth
			// outside is set) and the other new: growth inside can then be negative in a denom
			if len(above) > 0 && (len(below) == 0 || r.Bool()) {
				lo, up, tag = cur-a, above[r.Intn(len(above))], "upper-on-initialised-tick-above"
			} else if len(below) > 0 {
				lo, up, tag = below[r.Intn(len(below))], cur+b, "lower-on-initialised-tick-below"
			} else {
				lo, up, tag = cur-a, cur+b, "around"
			}
		case 0:
			lo, up, tag = cur+a, cur+a+b, "above"
		case 1:
			lo, up, tag = cur-a-b, cur-a, "below"
		case 2: // share a boundary with an existing position
			q := poss[r.Intn(len(poss))]
			if r.Bool() {
				lo, up, tag = q.UpperTick, q.UpperTick+b, "adjacent-above"
			} else {
				lo, up, tag = q.LowerTick-b, q.LowerTick, "adjacent-below"
			}
		case 3: // same range as an existing one
			q := poss[r.Intn(len(poss))]
			lo, up, tag = q.LowerTick, q.UpperTick, "same-range"
		case 4: // boundary exactly on the current tick
			if r.Bool() {
				lo, up, tag = cur, cur+b, "lower-on-current"
			} else {
				lo, up, tag = cur-a, cur, "upper-on-current"
			}
		case 5: // nested in an existing one
			q := poss[r.Intn(len(poss))]
			w2 := (q.UpperTick - q.LowerTick) / 3
			lo, up, tag = q.LowerTick+w2, q.UpperTick-w2, "nested"
			if lo >= up {
				lo, up = q.LowerTick, q.UpperTick
			}
		default:
			lo, up, tag = cur-a, cur+b, "around"
		}
		base, quote := r.LogUniform(24), r.LogUniform(24)
		if r.Chance(1, 10) {
			base = r.LogUniform(30)
			quote = r.LogUniform(30)
		}
		if r.Chance(1, 12) {
			base = big.NewInt(int64(r.Intn(3)))
		}
		if r.Chance(1, 12) {
			quote = big.NewInt(int64(r.Intn(3)))
		}
		minB, minQ := big.NewInt(0), big.NewInt(0)
		if r.Chance(1, 15) {
			minB = new(big.Int).Set(base)
		}
		return Op{Kind: "create", Sender: sender, Lower: lo, Upper: up, Base: base, Quote: quote, MinBase: minB, MinQuote: minQ, Tag: tag}
	case k < 66: // swap
		amt := r.LogUniform(22)
		tag := "swap"
		switch r.Intn(12) {
		case 0:
			amt, tag = big.NewInt(1), "swap-1"
		case 1:
			amt, tag = r.LogUniform(32), "swap-huge"
		case 2:
			amt, tag = big.NewInt(int64(2+r.Intn(1000))), "swap-small"
		}
		din := r.Intn(2)
		// land exactly on the next initialised tick: the amount the keeper itself computes for
		// crossing one (or two) ticks, and its neighbours (swaps ending exactly on a tick)
		if r.Chance(1, 6) {
			func() {
				defer func() { recover() }()
				maxIn, out, err := w.K.ComputeMaxInAmtGivenMaxTicksCrossed(ctx, p.ID, p.Denoms[din], uint64(1+r.Intn(2)))
				if err != nil || !maxIn.Amount.IsPositive() {
					return
				}
				exactIn := r.Chance(2, 3)
				a := maxIn.Amount.BigInt()
				if !exactIn {
					a = out.Amount.BigInt()
				}
				a = new(big.Int).Add(a, big.NewInt(int64(r.Intn(5)-1))) // -1, exact, +1, +2, +3 units of dust
				if a.Sign() > 0 {
					amt, tag = a, "swap-to-tick"
					if !exactIn {
						tag = "swap-to-tick/exact-out"
					}
				}
				_ = exactIn
			}()
			if tag == "swap-to-tick" {
				return Op{Kind: "swap", Sender: sender, ExactIn: true, DenomIn: din, Amount: amt, Tag: tag}
			}
			if tag == "swap-to-tick/exact-out" {
				return Op{Kind: "swap", Sender: sender, ExactIn: false, DenomIn: din, Amount: amt, Tag: tag}
			}
		}
		return Op{Kind: "swap", Sender: sender, ExactIn: r.Chance(3, 5), DenomIn: din, Amount: amt, Tag: tag}
	case k < 78: // decrease
		q := poss[r.Intn(len(poss))]
		owner := w.userIndex(q.Address)
		liq := raw(q.Liquidity)
		l := new(big.Int).Set(liq)
		tag := "decrease-all"
		switch r.Intn(8) {
		case 0, 1, 2:
			l.Div(l, big.NewInt(int64(2+r.Intn(5))))
			tag = "decrease-part"
		case 3:
			l.SetInt64(1)
			tag = "decrease-1ulp"
		case 4:
			l.Add(l, big.NewInt(1))
			tag = "decrease-too-much"
		case 5:
			l.SetInt64(0)
			tag = "decrease-zero"
		}
		s := owner
		if r.Chance(1, 8) {
			s = (owner + 1) % 3
			tag += "/not-owner"
		}
		return Op{Kind: "decrease", Sender: s, Pid: q.Id, Liq: l, Tag: tag}
	case k < 84 && len(poss) > 1: // increase (not on a pool's only position: the implicit full
		// withdrawal would reset the pool and re-initialise it at the ratio of the withdrawn
		// amounts, thousands of ticks away, where the model's linear search is too slow)
		q := poss[r.Intn(len(poss))]
		owner := w.userIndex(q.Address)
		s := owner
		tag := "increase"
		if r.Chance(1, 8) {
			s = (owner + 1) % 3
			tag += "/not-owner"
		}
		return Op{Kind: "increase", Sender: s, Pid: q.Id, Base: r.LogUniform(20), Quote: r.LogUniform(20), MinBase: big.NewInt(0), MinQuote: big.NewInt(0), Tag: tag}
	case k < 94: // claim
		q := poss[r.Intn(len(poss))]
		owner := w.userIndex(q.Address)
		ids := []uint64{q.Id}
		for _, o := range poss {
			if o.Id != q.Id && w.userIndex(o.Address) == owner && r.Bool() && len(ids) < 3 {
				ids = append(ids, o.Id)
			}
		}
		s := owner
		tag := "claim"
		if r.Chance(1, 8) {
			s = (owner + 1) % 3
			tag += "/not-owner"
		}
		if r.Chance(1, 20) {
			ids = append(ids, 999999)
			tag += "/unknown-id"
		}
		return Op{Kind: "claim", Sender: s, Pids: ids, Tag: tag}
	default: // allocate incentive
		cs := make([]*big.Int, 4)
		for i := range cs {
			cs[i] = big.NewInt(0)
			if r.Bool() {
				cs[i] = r.LogUniform(15)
			}
		}
		return Op{Kind: "allocate", Sender: 3, Coins: cs, Tag: "allocate"}
	}
}

// History runs `steps` generated operations over the world's pools, emitting one case per step,
// then drains every pool in two exit orders inside discarded cache contexts.
func (w *World) History(cf *emit.CasesFile, st *emit.Stats, steps int) error {
	ctx := w.H.Ctx()
	emitCase := func(p PoolInfo, o Op, c sdk.Context, mustOK bool) {
		term, err := w.Step(c, p, o, mustOK)
		cf.Add(term)
		info := o.Info()
		info["pool"] = p.ID
		info["pool_params"] = fmt.Sprintf("fee=%s ratio=%s offset=%s", p.Fee, p.Ratio, p.Offset)
		if err != nil {
			info["err"] = err.Error()
			st.Count(o.Kind + ":err")
		} else {
			st.Count(o.Kind + ":ok")
			st.Sample(info)
		}
		st.Info(info)
		st.Evaluations++
	}
	for i := 0; i < steps; i++ {
		p := w.Pools[w.R.Intn(len(w.Pools))]
		pre, _, _ := w.K.GetPool(ctx, p.ID)
		nposBefore := len(w.positions(ctx, p))
		o := w.GenOp(ctx, p)
		emitCase(p, o, ctx, false)
		post, _, _ := w.K.GetPool(ctx, p.ID)
		nposAfter := len(w.positions(ctx, p))
		// non-trivial: crossed an initialised tick, removed the last position, or created on an emptied pool
		if o.Kind == "swap" && pre.CurrentTickLiquidity != post.CurrentTickLiquidity {
			st.Count("nontrivial:crossed-tick")
			st.Nontriv(fmt.Sprintf("cross/%d/%d/%d", p.ID, pre.CurrentTick, post.CurrentTick))
		}
		if nposBefore > 0 && nposAfter == 0 {
			st.Count("nontrivial:emptied-pool")
			st.Nontriv(fmt.Sprintf("emptied/%d/%d", p.ID, i))
		}
		if nposBefore == 0 && nposAfter > 0 && i > 0 && pre.CurrentSqrtPrice != "" {
			st.Count("nontrivial:first-or-refill")
			st.Nontriv(fmt.Sprintf("refill/%d/%d", p.ID, i))
		}
		if o.Kind == "swap" && pre.CurrentSqrtPrice != post.CurrentSqrtPrice {
			st.Nontriv(fmt.Sprintf("swap/%d/%s", p.ID, post.CurrentSqrtPrice))
		}
		if w.R.Chance(1, 25) {
			if _, err := w.H.NextBlock(1e9); err != nil {
				return fmt.Errorf("block failed: %w", err)
			}
			ctx = w.H.Ctx()
		}
	}
	// final drain: every position fully decreased (fees are collected inside), two orders
	for _, p := range w.Pools {
		poss := w.positions(ctx, p)
		if len(poss) == 0 {
			continue
		}
		for order := 0; order < 2; order++ {
			c, _ := ctx.CacheContext()
			ids := make([]lptypes.Position, len(poss))
			copy(ids, poss)
			if order == 1 {
				for i, j := 0, len(ids)-1; i < j; i, j = i+1, j-1 {
					ids[i], ids[j] = ids[j], ids[i]
				}
			} else {
				for i := len(ids) - 1; i > 0; i-- {
					j := w.R.Intn(i + 1)
					ids[i], ids[j] = ids[j], ids[i]
				}
			}
			for _, q := range ids {
				o := Op{Kind: "decrease", Sender: w.userIndex(q.Address), Pid: q.Id, Liq: raw(q.Liquidity), Tag: fmt.Sprintf("drain/order%d", order)}
				emitCase(p, o, c, true)
			}
			st.Count("drain")
			st.Nontriv(fmt.Sprintf("drain/%d/%d/%d", p.ID, order, len(ids)))
		}
	}
	return nil
}
