(* C06 proofs, part 1: what a claim computes and pays (truncation, claim-once), new positions
   start with nothing claimable, the fee account's flows per operation. *)
From Coq Require Import ZArith Bool List Lia ZifyBool.
Import ListNotations.
From Sunrise Require Import Base.Outcome Base.Dec Base.DecLemmas Amm.Math Amm.Pool Amm.LiqDefs Amm.LiqLists Amm.LiqInv Amm.Fees Amm.FeesVec.
Local Open Scope Z_scope.
Ltac Zify.zify_post_hook ::= Z.div_mod_to_equations.

(* ---------- the fee state = everything but the bank balances ---------- *)
Definition same_fee_state (s s' : amm) : Prop :=
  a_pool s' = a_pool s /\ a_positions s' = a_positions s /\ a_ticks s' = a_ticks s /\
  a_acc_value s' = a_acc_value s /\ a_acc_shares s' = a_acc_shares s /\ a_acc_pos s' = a_acc_pos s /\
  a_next_id s' = a_next_id s.
Lemma same_fee_state_refl s : same_fee_state s s.
Proof. repeat split. Qed.
Lemma same_fee_state_trans a b c : same_fee_state a b -> same_fee_state b c -> same_fee_state a c.
Proof. unfold same_fee_state. intros (A1&A2&A3&A4&A5&A6&A7) (B1&B2&B3&B4&B5&B6&B7). repeat split; congruence. Qed.

Lemma get_tick_same s s' i : a_ticks s' = a_ticks s -> a_pool s' = a_pool s -> a_acc_value s' = a_acc_value s ->
  get_tick s' i = get_tick s i.
Proof. intros T Q V. unfold get_tick. rewrite T, Q, V. reflexivity. Qed.
Lemma fee_growth_outside_same s s' lo up : a_ticks s' = a_ticks s -> a_pool s' = a_pool s -> a_acc_value s' = a_acc_value s ->
  fee_growth_outside s' lo up = fee_growth_outside s lo up.
Proof. intros T Q V. unfold fee_growth_outside. rewrite !(get_tick_same s s') by assumption. rewrite Q, V. reflexivity. Qed.
Lemma entitlement_same s s' pid : same_fee_state s s' -> entitlement s' pid = entitlement s pid.
Proof.
  intros (Q&Ps&T&V&Sh&Ap&N). unfold entitlement. rewrite Ps, Ap, V.
  destruct (find_pos (a_positions s) pid); [|reflexivity]. destruct (find_ap (a_acc_pos s) pid); [|reflexivity].
  rewrite (fee_growth_outside_same s s') by assumption. reflexivity.
Qed.

(* ---------- bank sends ---------- *)
Definition fee_after (from to : acct) (bal amts : vec) : vec :=
  match from, to with
  | AFee, AFee => vplus (vminus bal amts) amts
  | AFee, _ => vminus bal amts
  | _, AFee => vplus bal amts
  | _, _ => bal
  end.
Lemma send_spec s from to amts s' : send s from to amts = Ok s' ->
  same_fee_state s s' /\ a_bal_fee s' = fee_after from to (a_bal_fee s) amts /\
  vnonneg amts.
Proof.
  unfold send. intros H. repeat step_res H. injection H as <-.
  split; [destruct from; destruct to; repeat split|].
  split; [destruct from; destruct to; reflexivity|].
  unfold vnonneg. apply Forall_forall. intros x Hx.
  destruct (Z.ltb_spec x 0); [|assumption].
  assert (existsb (fun x => x <? 0) amts = true) by (apply existsb_exists; exists x; split; [assumption|lia]). congruence.
Qed.
Lemma vplus_len4 a b : len4 a -> len4 b -> len4 (vplus a b).
Proof. unfold len4. intros A B. rewrite vplus_length; congruence. Qed.
Lemma vminus_len4 a b : len4 a -> len4 b -> len4 (vminus a b).
Proof. unfold len4. intros A B. rewrite vminus_length; congruence. Qed.
Lemma send_lens s from to amts s' : send s from to amts = Ok s' -> len4 amts ->
  len4 (a_bal_fee s) -> len4 (a_bal_pool s) -> len4 (a_bal_user s) ->
  len4 (a_bal_fee s') /\ len4 (a_bal_pool s') /\ len4 (a_bal_user s').
Proof.
  unfold send. intros H La Lf Lp Lu. repeat step_res H. injection H as <-.
  destruct from; destruct to; cbn; repeat split; repeat first [assumption | apply vplus_len4 | apply vminus_len4].
Qed.
Lemma send_one_raw_spec s from to d a s' : send_one_raw s from to d a = Ok s' ->
  same_fee_state s s' /\ a_bal_fee s' = fee_after from to (a_bal_fee s) (vsingle d a) /\ 0 < a.
Proof.
  unfold send_one_raw. intros H. step_res H. destruct (send_spec _ _ _ _ _ H) as (A & B & _).
  split; [exact A|]. split; [exact B|lia].
Qed.

(* ---------- prepare_claim, inverted ---------- *)
Definition claim_ap (pid : Z) (ap0 : accum_pos) (v1 : vec) : accum_pos :=
  {| ap_id := pid; ap_shares := ap_shares ap0; ap_value := v1; ap_unclaimed := ap_unclaimed ap0 |}.
Definition after_claim_pos (s : amm) (pid : Z) (ap0 : accum_pos) (inside : vec) : amm :=
  if ap_shares ap0 =? 0 then set_acc_pos s (del_ap (a_acc_pos s) pid)
  else set_acc_pos s (put_ap (a_acc_pos s)
         {| ap_id := pid; ap_shares := ap_shares ap0; ap_value := inside; ap_unclaimed := vzero |}).

Lemma prepare_claim_inv s pid s1 c :
  prepare_claim s pid = Ok (s1, c) ->
  exists pos ap0 outside v1 tot inside,
    find_pos (a_positions s) pid = Some pos /\ find_ap (a_acc_pos s) pid = Some ap0 /\
    fee_growth_outside s (pos_lower pos) (pos_upper pos) = Some outside /\
    vadd (ap_value ap0) outside = Some v1 /\
    total_rewards (a_acc_value s) (claim_ap pid ap0 v1) = Some tot /\
    c = fst (vtrunc tot) /\
    vsafe_sub (a_acc_value s) outside = Some inside /\
    (s1 = after_claim_pos s pid ap0 inside \/
     exists per v, vis_zero (snd (vtrunc tot)) = false /\ a_acc_shares s <> 0 /\
       vquo_dec_trunc (snd (vtrunc tot)) (a_acc_shares s) = Some per /\
       vadd (a_acc_value s) per = Some v /\
       s1 = set_acc (after_claim_pos s pid ap0 inside) v (a_acc_shares s)).
Proof.
  unfold prepare_claim. intros H.
  destruct (find_pos (a_positions s) pid) as [pos|] eqn:Ep; [|discriminate].
  destruct (find_ap (a_acc_pos s) pid) as [ap0|] eqn:Ea; [|discriminate].
  destruct (of_opt (fee_growth_outside s (pos_lower pos) (pos_upper pos))) as [outside| |] eqn:Eo; cbn [rbind] in H; try discriminate.
  apply of_opt_ok in Eo.
  destruct (of_opt (vadd (ap_value ap0) outside)) as [v1| |] eqn:Ev; cbn [rbind] in H; try discriminate.
  apply of_opt_ok in Ev. cbn [ap_shares] in H.
  destruct (of_opt (total_rewards (a_acc_value s)
              {| ap_id := pid; ap_shares := ap_shares ap0; ap_value := v1; ap_unclaimed := ap_unclaimed ap0 |})) as [tot| |] eqn:Et;
    cbn [rbind] in H; try discriminate.
  apply of_opt_ok in Et.
  destruct (vtrunc tot) as [claimed dust] eqn:Etr.
  destruct (of_opt (vsafe_sub (a_acc_value s) outside)) as [inside| |] eqn:Ei; cbn [rbind] in H; try discriminate.
  apply of_opt_ok in Ei.
  exists pos, ap0, outside, v1, tot, inside.
  do 5 (split; [first [reflexivity|assumption]|]).
  rewrite Etr. fold (after_claim_pos s pid ap0 inside) in H.
  assert (Hsh : a_acc_shares (after_claim_pos s pid ap0 inside) = a_acc_shares s)
    by (unfold after_claim_pos; destruct (ap_shares ap0 =? 0); reflexivity).
  assert (Hav : a_acc_value (after_claim_pos s pid ap0 inside) = a_acc_value s)
    by (unfold after_claim_pos; destruct (ap_shares ap0 =? 0); reflexivity).
  rewrite Hsh, Hav in H. cbn [fst snd].
  destruct (vis_zero dust) eqn:Ez.
  { injection H as <- <-. split; [reflexivity|]. split; [assumption|]. left; reflexivity. }
  destruct (Z.eqb_spec (a_acc_shares s) 0) as [Ez2|Ez2].
  { injection H as <- <-. split; [reflexivity|]. split; [assumption|]. left; reflexivity. }
  destruct (of_opt (vquo_dec_trunc dust (a_acc_shares s))) as [per| |] eqn:Eper; cbn [rbind] in H; try discriminate.
  apply of_opt_ok in Eper.
  destruct (of_opt (vadd (a_acc_value s) per)) as [v| |] eqn:Evv; cbn [rbind] in H; try discriminate.
  apply of_opt_ok in Evv. injection H as <- <-.
  split; [reflexivity|]. split; [assumption|]. right. exists per, v. repeat split; assumption.
Qed.

Lemma claimable_entitlement s pid c : claimable_fees s pid = Ok c ->
  exists tot, entitlement s pid = Ok tot /\ c = fst (vtrunc tot).
Proof.
  unfold claimable_fees. intros H. destruct (prepare_claim s pid) as [[s1 c1]| |] eqn:E; cbn [rbind] in H; try discriminate.
  injection H as <-.
  destruct (prepare_claim_inv _ _ _ _ E) as (pos & ap0 & outside & v1 & tot & inside & Ep & Ea & Eo & Ev & Et & Ec & _).
  exists tot. split; [|exact Ec]. unfold entitlement. rewrite Ep, Ea, Eo. cbn [of_opt rbind]. rewrite Ev. cbn [of_opt rbind].
  unfold claim_ap in Et. rewrite Et. reflexivity.
Qed.

(* ---------- total_rewards, pointwise ---------- *)
Lemma total_rewards_nth acc ap tot :
  total_rewards acc ap = Some tot -> len4 acc -> len4 (ap_value ap) -> len4 (ap_unclaimed ap) ->
  tot = vzero \/
  (0 < ap_shares ap /\ len4 tot /\
   forall i, (i < 4)%nat -> exists r, 0 <= vn acc i - vn (ap_value ap) i /\
      dmul (vn acc i - vn (ap_value ap) i) (ap_shares ap) = Some r /\ vn tot i = vn (ap_unclaimed ap) i + r).
Proof.
  unfold total_rewards, len4. intros H La Lv Lu.
  destruct (Z.leb_spec (ap_shares ap) 0) as [Hs|Hs]; [injection H as <-; left; reflexivity|].
  destruct (existsb _ _); [injection H as <-; left; reflexivity|].
  destruct (vsub acc (ap_value ap)) as [d|] eqn:Ed; cbn [obind] in H; [|discriminate].
  destruct (vmul_dec d (ap_shares ap)) as [r|] eqn:Er; cbn [obind] in H; [|discriminate].
  right. destruct (vsub_nth _ _ _ Ed ltac:(congruence)) as [Ld Nd].
  destruct (vmul_dec_nth _ _ _ Er) as [Lr Nr].
  destruct (vadd_nth _ _ _ H ltac:(congruence)) as [Lt Nt].
  split; [assumption|]. split; [congruence|]. intros i Hi.
  destruct (Nd i ltac:(lia)) as [Nd1 Nd2]. specialize (Nr i ltac:(lia)). specialize (Nt i ltac:(lia)).
  exists (vn r i). rewrite <- Nd1. split; [assumption|]. split; assumption.
Qed.

(* a claim pays the truncation of the entitlement: never more than the entitlement, and less than
   one coin short of it *)
Theorem claim_truncates s pid s1 c :
  prepare_claim s pid = Ok (s1, c) ->
  exists tot, entitlement s pid = Ok tot /\ c = fst (vtrunc tot) /\
    forall i, (i < length tot)%nat -> 0 <= vn tot i -> vn c i * P <= vn tot i < vn c i * P + P.
Proof.
  intros H. destruct (prepare_claim_inv _ _ _ _ H) as (pos & ap0 & outside & v1 & tot & inside & Ep & Ea & Eo & Ev & Et & Ec & _).
  exists tot. split.
  { unfold entitlement. rewrite Ep, Ea, Eo. cbn [of_opt rbind]. rewrite Ev. cbn [of_opt rbind]. unfold claim_ap in Et. rewrite Et. reflexivity. }
  split; [exact Ec|]. intros i Hi Hn. subst c. pose proof (vtrunc_nth tot) as Ht. destruct (vtrunc tot) as [cc dd].
  destruct Ht as (_ & _ & Ht). cbn [fst]. destruct (Ht i Hi) as [-> _].
  rewrite Z.quot_div_nonneg by (unfold P; lia). unfold P in *. lia.
Qed.

(* ---------- growth outside, pointwise; its shift when the global growth rises ---------- *)
Definition tgrowth (s : amm) (i : Z) : vec := t_growth (get_tick s i).

Lemma find_tick_in l i t : find_tick l i = Some t -> In t l /\ t_index t = i.
Proof.
  induction l as [|x l IH]; cbn [find_tick]; [discriminate|].
  destruct (Z.eqb_spec (t_index x) i); [intros H; injection H as <-; split; [left; reflexivity|assumption]|].
  intros H. destruct (IH H). split; [right; assumption|assumption].
Qed.
Lemma tgrowth_len4 s i : len4 (a_acc_value s) -> Forall tick_wf (a_ticks s) -> len4 (tgrowth s i).
Proof.
  intros La Ht. unfold tgrowth, get_tick. destruct (find_tick (a_ticks s) i) as [t|] eqn:E.
  - rewrite Forall_forall in Ht. apply Ht. apply (find_tick_in _ _ _ E).
  - cbn [t_growth]. destruct (i <=? p_tick (a_pool s)); [assumption|reflexivity].
Qed.

Lemma fgo_nth s lo up o :
  fee_growth_outside s lo up = Some o -> len4 (a_acc_value s) -> len4 (tgrowth s lo) -> len4 (tgrowth s up) ->
  len4 o /\ forall i, (i < 4)%nat ->
    vn o i = (if up <=? p_tick (a_pool s) then vn (a_acc_value s) i - vn (tgrowth s up) i else vn (tgrowth s up) i)
           + (if p_tick (a_pool s) <? lo then vn (a_acc_value s) i - vn (tgrowth s lo) i else vn (tgrowth s lo) i).
Proof.
  unfold fee_growth_outside, calc_fee_growth, len4. fold (tgrowth s lo) (tgrowth s up). cbn [andb negb orb].
  intros H La Ll Lu. rewrite orb_false_r in H.
  destruct (up <=? p_tick (a_pool s)) eqn:Eu; destruct (p_tick (a_pool s) <? lo) eqn:El; cbn [obind] in H.
  - destruct (vsub (a_acc_value s) (tgrowth s up)) as [a|] eqn:Ea; cbn [obind] in H; [|discriminate].
    destruct (vsub (a_acc_value s) (tgrowth s lo)) as [b|] eqn:Eb; cbn [obind] in H; [|discriminate].
    destruct (vsub_nth _ _ _ Ea ltac:(congruence)) as [L1 N1]. destruct (vsub_nth _ _ _ Eb ltac:(congruence)) as [L2 N2].
    destruct (vadd_nth _ _ _ H ltac:(congruence)) as [L3 N3]. split; [congruence|]. intros i Hi.
    rewrite N3 by lia. destruct (N1 i ltac:(lia)) as [-> _]. destruct (N2 i ltac:(lia)) as [-> _]. reflexivity.
  - destruct (vsub (a_acc_value s) (tgrowth s up)) as [a|] eqn:Ea; cbn [obind] in H; [|discriminate].
    destruct (vsub_nth _ _ _ Ea ltac:(congruence)) as [L1 N1].
    destruct (vadd_nth _ _ _ H ltac:(congruence)) as [L3 N3]. split; [congruence|]. intros i Hi.
    rewrite N3 by lia. destruct (N1 i ltac:(lia)) as [-> _]. reflexivity.
  - destruct (vsub (a_acc_value s) (tgrowth s lo)) as [b|] eqn:Eb; cbn [obind] in H; [|discriminate].
    destruct (vsub_nth _ _ _ Eb ltac:(congruence)) as [L2 N2].
    destruct (vadd_nth _ _ _ H ltac:(congruence)) as [L3 N3]. split; [congruence|]. intros i Hi.
    rewrite N3 by lia. destruct (N2 i ltac:(lia)) as [-> _]. reflexivity.
  - destruct (vadd_nth _ _ _ H ltac:(congruence)) as [L3 N3]. split; [congruence|]. intros i Hi.
    rewrite N3 by lia. reflexivity.
Qed.

(* number of times the global growth enters the "outside" of [lo, up) *)
Definition k_upper (s : amm) (up : Z) : Z :=
  match find_tick (a_ticks s) up with Some _ => if up <=? p_tick (a_pool s) then 1 else 0 | None => 0 end.
Definition k_lower (s : amm) (lo : Z) : Z :=
  match find_tick (a_ticks s) lo with Some _ => if p_tick (a_pool s) <? lo then 1 else 0 | None => 1 end.

Lemma outside_shift s s' lo up o o' (dl : vec) :
  a_ticks s' = a_ticks s -> a_pool s' = a_pool s ->
  len4 (a_acc_value s) -> len4 (a_acc_value s') -> Forall tick_wf (a_ticks s) ->
  (forall i, (i < 4)%nat -> vn (a_acc_value s') i = vn (a_acc_value s) i + vn dl i) ->
  fee_growth_outside s lo up = Some o -> fee_growth_outside s' lo up = Some o' ->
  len4 o /\ len4 o' /\
  forall i, (i < 4)%nat -> vn o' i = vn o i + (k_upper s up + k_lower s lo) * vn dl i.
Proof.
  intros T Q La La' Ht Hd Ho Ho'.
  assert (Ht' : Forall tick_wf (a_ticks s')) by (rewrite T; exact Ht).
  destruct (fgo_nth _ _ _ _ Ho La (tgrowth_len4 _ _ La Ht) (tgrowth_len4 _ _ La Ht)) as [Lo No].
  destruct (fgo_nth _ _ _ _ Ho' La' (tgrowth_len4 _ _ La' Ht') (tgrowth_len4 _ _ La' Ht')) as [Lo' No'].
  split; [exact Lo|]. split; [exact Lo'|]. intros i Hi.
  rewrite No, No' by exact Hi. rewrite Q. specialize (Hd i Hi).
  unfold k_upper, k_lower, tgrowth, get_tick. rewrite T, Q.
  destruct (find_tick (a_ticks s) up) as [tu|]; destruct (find_tick (a_ticks s) lo) as [tl|]; cbn [t_growth];
    destruct (up <=? p_tick (a_pool s)) eqn:Eu; destruct (p_tick (a_pool s) <? lo) eqn:El;
    try (destruct (lo <=? p_tick (a_pool s)) eqn:El2); rewrite ?vzero_nth; lia.
Qed.

(* ---------- claim once ---------- *)
Lemma find_put_ap l p i : find_ap (put_ap l p) i = if i =? ap_id p then Some p else find_ap l i.
Proof.
  induction l as [|x l IH]; cbn [put_ap find_ap].
  - rewrite (Z.eqb_sym i). reflexivity.
  - destruct (Z.eqb_spec (ap_id x) (ap_id p)) as [E|E]; cbn [find_ap].
    + rewrite (Z.eqb_sym i). destruct (Z.eqb_spec (ap_id p) i) as [E2|E2]; [reflexivity|].
      destruct (Z.eqb_spec (ap_id x) i); [lia|reflexivity].
    + destruct (Z.ltb_spec (ap_id p) (ap_id x)); cbn [find_ap].
      * rewrite (Z.eqb_sym i). destruct (Z.eqb_spec (ap_id p) i); reflexivity.
      * rewrite IH. destruct (Z.eqb_spec (ap_id x) i) as [E2|E2]; [|reflexivity].
        destruct (Z.eqb_spec i (ap_id p)); [lia|reflexivity].
Qed.
Lemma find_ap_in l i a : find_ap l i = Some a -> In a l /\ ap_id a = i.
Proof.
  induction l as [|x l IH]; cbn [find_ap]; [discriminate|].
  destruct (Z.eqb_spec (ap_id x) i); [intros H; injection H as <-; split; [left; reflexivity|assumption]|].
  intros H. destruct (IH H). split; [right; assumption|assumption].
Qed.

(* a claim on a position whose checkpoint is the current growth inside and whose unclaimed amount
   is zero, after the global growth rose by at most the re-injected dust, pays nothing *)
Lemma reclaim_zero s s1 pid pos inside outside (dl : vec) sh s2 c2 :
  len4 (a_acc_value s) -> Forall tick_wf (a_ticks s) ->
  fee_growth_outside s (pos_lower pos) (pos_upper pos) = Some outside ->
  vsafe_sub (a_acc_value s) outside = Some inside ->
  a_ticks s1 = a_ticks s -> a_pool s1 = a_pool s ->
  find_pos (a_positions s1) pid = Some pos ->
  len4 (a_acc_value s1) ->
  (forall i, (i < 4)%nat -> vn (a_acc_value s1) i = vn (a_acc_value s) i + vn dl i) ->
  find_ap (a_acc_pos s1) pid = Some {| ap_id := pid; ap_shares := sh; ap_value := inside; ap_unclaimed := vzero |} ->
  0 < sh ->
  (forall i, (i < 4)%nat -> 0 <= vn dl i /\ vn dl i * sh <= (P - 1) * P) ->
  prepare_claim s1 pid = Ok (s2, c2) -> c2 = vzero.
Proof.
  intros La Ht Ho Hin T Q Hp La1 Hd Hap Hsh Hdl H.
  destruct (prepare_claim_inv _ _ _ _ H) as (pos' & ap' & outside' & v1 & tot & inside' & Ep & Ea & Eo & Ev & Et & Ec & _).
  rewrite Hp in Ep. injection Ep as <-. rewrite Hap in Ea. injection Ea as <-.
  destruct (outside_shift s s1 _ _ _ _ dl T Q La La1 Ht Hd Ho Eo) as (Lo & Lo' & No).
  destruct (vsafe_sub_nth _ _ _ Hin ltac:(unfold len4 in *; congruence)) as [Li Ni].
  cbn [ap_value] in Ev. destruct (vadd_nth _ _ _ Ev ltac:(unfold len4 in *; congruence)) as [Lv Nv].
  assert (Lv4 : len4 v1) by (unfold len4 in *; congruence).
  destruct (total_rewards_nth _ _ _ Et La1 Lv4 eq_refl) as [->|(_ & Lt & Nt)]; [subst c2; reflexivity|].
  subst c2. pose proof (vtrunc_nth tot) as Htr. destruct (vtrunc tot) as [cc dd]. destruct Htr as (Lc & _ & Ntr). cbn [fst].
  apply vec_ext; [unfold len4 in *; rewrite vzero_len; congruence|]. intros i Hi.
  rewrite vzero_nth. assert (Hi4 : (i < 4)%nat) by (unfold len4 in *; lia).
  destruct (Ntr i ltac:(unfold len4 in *; lia)) as [-> _].
  destruct (Nt i Hi4) as (r & Hd0 & Hr & ->). cbn [claim_ap ap_value ap_shares ap_unclaimed] in Hd0, Hr |- *.
  rewrite vzero_nth. destruct (Hdl i Hi4) as [Hdl0 Hdl1].
  assert (Hv1 : vn v1 i = vn (a_acc_value s) i + (k_upper s (pos_upper pos) + k_lower s (pos_lower pos)) * vn dl i).
  { rewrite Nv by (unfold len4 in *; lia). rewrite Ni by (unfold len4 in *; lia). rewrite No by exact Hi4. lia. }
  assert (Hk : 0 <= k_upper s (pos_upper pos) + k_lower s (pos_lower pos)).
  { unfold k_upper, k_lower. destruct (find_tick _ _); destruct (find_tick _ _);
      repeat match goal with |- context [if ?c then _ else _] => destruct c end; lia. }
  set (d := vn (a_acc_value s1) i - vn v1 i) in *.
  assert (Hdle : d <= vn dl i) by (unfold d; rewrite Hd, Hv1 by exact Hi4; nia).
  assert (Hr0 : 0 <= r) by (eapply dmul_nonneg; [exact Hd0| |exact Hr]; lia).
  assert (Hr1 : r <= P - 1) by (eapply dmul_le_int; [exact Hr|]; nia).
  rewrite Z.add_0_l. apply Z.quot_small. unfold P in *. lia.
Qed.

(* prepare_claim leaves ticks, pool and positions alone *)
Lemma after_claim_pos_fields s pid ap0 inside :
  a_ticks (after_claim_pos s pid ap0 inside) = a_ticks s /\ a_pool (after_claim_pos s pid ap0 inside) = a_pool s /\
  a_positions (after_claim_pos s pid ap0 inside) = a_positions s /\
  a_acc_value (after_claim_pos s pid ap0 inside) = a_acc_value s /\
  a_acc_shares (after_claim_pos s pid ap0 inside) = a_acc_shares s /\
  a_bal_fee (after_claim_pos s pid ap0 inside) = a_bal_fee s /\ a_bal_pool (after_claim_pos s pid ap0 inside) = a_bal_pool s /\
  a_bal_user (after_claim_pos s pid ap0 inside) = a_bal_user s /\ a_next_id (after_claim_pos s pid ap0 inside) = a_next_id s.
Proof. unfold after_claim_pos. destruct (ap_shares ap0 =? 0); repeat split. Qed.

Theorem second_claim_zero s pid s1 c s2 c2 :
  len4 (a_acc_value s) -> Forall tick_wf (a_ticks s) -> Forall ap_wf (a_acc_pos s) ->
  (forall ap, find_ap (a_acc_pos s) pid = Some ap -> 0 < ap_shares ap <= a_acc_shares s) ->
  prepare_claim s pid = Ok (s1, c) -> prepare_claim s1 pid = Ok (s2, c2) -> c2 = vzero.
Proof.
  intros La Ht Haps Hsh H1 H2.
  destruct (prepare_claim_inv _ _ _ _ H1) as (pos & ap0 & outside & v1 & tot & inside & Ep & Ea & Eo & Ev & Et & Ec & Ei & Hs1).
  destruct (Hsh _ Ea) as [Hs0 HsT]. assert (HT : 0 < a_acc_shares s) by lia.
  assert (Hwf : ap_wf ap0) by (rewrite Forall_forall in Haps; apply Haps; apply (find_ap_in _ _ _ Ea)).
  destruct Hwf as (Lval & Lun & Nun & _).
  destruct (after_claim_pos_fields s pid ap0 inside) as (F1 & F2 & F3 & F4 & F5 & _).
  assert (Hap1 : find_ap (a_acc_pos (after_claim_pos s pid ap0 inside)) pid =
                 Some {| ap_id := pid; ap_shares := ap_shares ap0; ap_value := inside; ap_unclaimed := vzero |}).
  { unfold after_claim_pos. destruct (Z.eqb_spec (ap_shares ap0) 0); [lia|]. cbn [a_acc_pos set_acc_pos].
    rewrite find_put_ap. cbn [ap_id]. rewrite Z.eqb_refl. reflexivity. }
  destruct Hs1 as [->|(per & v & Hz & Hne & Hper & Hv & ->)].
  - refine (reclaim_zero s _ pid pos inside outside vzero (ap_shares ap0) s2 c2 La Ht Eo Ei F1 F2 _ _ _ Hap1 Hs0 _ H2).
    + rewrite F3. exact Ep.
    + rewrite F4. exact La.
    + intros i Hi. rewrite F4, vzero_nth. lia.
    + intros i Hi. rewrite vzero_nth. unfold P. lia.
  - (* the dust was re-injected *)
    destruct (vquo_dec_trunc_nth _ _ _ Hper) as (_ & Lper & Nper).
    pose proof (vtrunc_nth tot) as Htr. destruct (vtrunc tot) as [cc dd]. destruct Htr as (_ & Ldd & Ntr). cbn [snd] in *.
    (* the entitlement of the first claim is non-negative *)
    assert (Lo4 : len4 outside /\ True).
    { split; [|exact I]. eapply fgo_nth; [exact Eo|exact La|apply tgrowth_len4; assumption|apply tgrowth_len4; assumption]. }
    destruct Lo4 as [Lo4 _].
    destruct (vadd_nth _ _ _ Ev ltac:(unfold len4 in *; congruence)) as [Lv1 _].
    assert (Ltot : tot = vzero \/ (len4 tot /\ forall i, (i < 4)%nat -> 0 <= vn tot i)).
    { destruct (total_rewards_nth _ _ _ Et La ltac:(unfold len4 in *; cbn; congruence) Lun) as [->|(_ & Lt & Nt)]; [left; reflexivity|].
      right. split; [exact Lt|]. intros i Hi. destruct (Nt i Hi) as (r & Hd0 & Hr & ->). cbn [claim_ap ap_unclaimed ap_shares] in *.
      assert (0 <= r) by (eapply dmul_nonneg; [exact Hd0| |exact Hr]; lia).
      rewrite vnonneg_nth in Nun. specialize (Nun i ltac:(unfold len4 in *; lia)). lia. }
    assert (Ltot4 : len4 tot /\ forall i, (i < 4)%nat -> 0 <= vn tot i).
    { destruct Ltot as [->|X]; [|exact X]. split; [reflexivity|]. intros i Hi. rewrite vzero_nth. lia. }
    destruct Ltot4 as [Lt4 Ntot].
    destruct (vadd_nth _ _ _ Hv ltac:(unfold len4 in *; congruence)) as [Lv Nv].
    refine (reclaim_zero s _ pid pos inside outside per (ap_shares ap0) s2 c2 La Ht Eo Ei _ _ _ _ _ _ Hs0 _ H2).
    + cbn [a_ticks set_acc]. exact F1.
    + cbn [a_pool set_acc]. exact F2.
    + cbn [a_positions set_acc]. rewrite F3. exact Ep.
    + cbn [a_acc_value set_acc]. unfold len4 in *. congruence.
    + intros i Hi. cbn [a_acc_value set_acc]. apply Nv. unfold len4 in *. lia.
    + cbn [a_acc_pos set_acc]. exact Hap1.
    + intros i Hi. specialize (Nper i ltac:(unfold len4 in *; lia)).
      destruct (Ntr i ltac:(unfold len4 in *; lia)) as [_ Hdd]. specialize (Ntot i Hi).
      assert (Hdust : 0 <= vn dd i < P).
      { rewrite Hdd. rewrite Z.quot_div_nonneg by (unfold P; lia). unfold P in *. lia. }
      pose proof (dquoT_bracket _ _ _ (proj1 Hdust) HT Nper) as Hb.
      pose proof (dquoT_nonneg _ _ _ (proj1 Hdust) HT Nper) as Hp0.
      split; [exact Hp0|]. assert (vn per i * ap_shares ap0 <= vn per i * a_acc_shares s) by nia.
      assert (vn dd i * P <= (P - 1) * P) by (unfold P in *; nia). lia.
Qed.

(* ---------- update_position, inverted: where the accumulator position is written ---------- *)
Lemma upsert_tick_fields s i delta upper s' e : upsert_tick s i delta upper = Some (s', e) ->
  a_pool s' = a_pool s /\ a_positions s' = a_positions s /\ a_acc_value s' = a_acc_value s /\
  a_acc_shares s' = a_acc_shares s /\ a_acc_pos s' = a_acc_pos s /\ a_next_id s' = a_next_id s /\
  a_bal_fee s' = a_bal_fee s /\ a_bal_pool s' = a_bal_pool s /\ a_bal_user s' = a_bal_user s /\
  exists t', a_ticks s' = put_tick (a_ticks s) t' /\ t_index t' = i /\ t_growth t' = tgrowth s i.
Proof.
  unfold upsert_tick. intros H.
  destruct (dadd (t_gross (get_tick s i)) delta) as [g|]; cbn [obind] in H; [|discriminate].
  destruct (if upper then dsub (t_net (get_tick s i)) delta else dadd (t_net (get_tick s i)) delta) as [n|];
    cbn [obind] in H; [|discriminate].
  injection H as <- _. cbn. repeat split. eexists. split; [reflexivity|]. split; reflexivity.
Qed.

Lemma update_position_inv s0 lo up delta pid s5 ab aq le ue :
  update_position s0 lo up delta pid = Ok (s5, ab, aq, le, ue) ->
  exists s2 pos s4,
    find_pos (a_positions s0) pid = Some pos /\ 0 <= pos_liq pos + delta /\ delta <> 0 /\
    a_positions s4 = (if pos_liq pos + delta =? 0 then del_pos (a_positions s0) pid
                      else put_pos (a_positions s0)
                             {| pos_id := pid; pos_owner := pos_owner pos; pos_lower := pos_lower pos;
                                pos_upper := pos_upper pos; pos_liq := pos_liq pos + delta |}) /\
    (exists e1 s1 e2, upsert_tick s0 lo delta false = Some (s1, e1) /\ upsert_tick s1 up delta true = Some (s2, e2)) /\
    a_ticks s4 = a_ticks s2 /\ a_acc_value s4 = a_acc_value s0 /\ a_acc_shares s4 = a_acc_shares s0 /\
    a_acc_pos s4 = a_acc_pos s0 /\ a_next_id s4 = a_next_id s0 /\
    a_bal_fee s4 = a_bal_fee s0 /\ a_bal_pool s4 = a_bal_pool s0 /\ a_bal_user s4 = a_bal_user s0 /\
    (a_positions s4 <> [] -> p_tick (a_pool s4) = p_tick (a_pool s0)) /\
    set_accum_position s4 lo up pid delta = Ok s5.
Proof.
  unfold update_position. intros H.
  destruct (of_opt (upsert_tick s0 lo delta false)) as [[s1 e1]| |] eqn:E1; cbn [rbind] in H; try discriminate.
  apply of_opt_ok in E1.
  destruct (of_opt (upsert_tick s1 up delta true)) as [[s2 e2]| |] eqn:E2; cbn [rbind] in H; try discriminate.
  apply of_opt_ok in E2.
  destruct (upsert_tick_fields _ _ _ _ _ _ E1) as (Q1 & P1 & V1 & S1 & A1 & N1 & BF1 & BP1 & BU1 & _).
  destruct (upsert_tick_fields _ _ _ _ _ _ E2) as (Q2 & P2 & V2 & S2 & A2 & N2 & BF2 & BP2 & BU2 & _).
  rewrite P2, P1 in H.
  destruct (find_pos (a_positions s0) pid) as [pos|] eqn:Ef; [|discriminate].
  destruct (of_opt (dadd (pos_liq pos) delta)) as [liq| |] eqn:El; cbn [rbind] in H; try discriminate.
  apply of_opt_ok in El. apply dadd_some in El. subst liq.
  destruct (pos_liq pos + delta <? 0) eqn:En; [discriminate|].
  destruct (calc_actual_amounts (a_pool s2) lo up delta) as [[ab0 aq0]| |] eqn:Ec; cbn [rbind] in H; try discriminate.
  assert (Hd : delta <> 0).
  { unfold calc_actual_amounts in Ec. destruct (Z.eqb_spec delta 0); [discriminate|assumption]. }
  match type of H with rbind ?c _ = _ => destruct c as [s4| |] eqn:E4; cbn [rbind] in H; try discriminate end.
  destruct (set_accum_position s4 lo up pid delta) as [s5'| |] eqn:E5; cbn [rbind] in H; try discriminate.
  injection H as <- _ _ _ _.
  exists s2, pos, s4. split; [reflexivity|]. split; [lia|]. split; [exact Hd|].
  assert (Hs4 : a_positions s4 = (if pos_liq pos + delta =? 0 then del_pos (a_positions s0) pid
                      else put_pos (a_positions s0)
                             {| pos_id := pid; pos_owner := pos_owner pos; pos_lower := pos_lower pos;
                                pos_upper := pos_upper pos; pos_liq := pos_liq pos + delta |}) /\
    a_ticks s4 = a_ticks s2 /\ a_acc_value s4 = a_acc_value s2 /\ a_acc_shares s4 = a_acc_shares s2 /\
    a_acc_pos s4 = a_acc_pos s2 /\ a_next_id s4 = a_next_id s2 /\
    a_bal_fee s4 = a_bal_fee s2 /\ a_bal_pool s4 = a_bal_pool s2 /\ a_bal_user s4 = a_bal_user s2 /\
    (a_positions s4 <> [] -> p_tick (a_pool s4) = p_tick (a_pool s2))).
  { destruct (pos_liq pos + delta =? 0);
    match type of E4 with (match ?l with [] => _ | _ => _ end) = _ => destruct l eqn:El end;
    cbn [a_positions set_positions] in El;
    repeat match type of E4 with
    | (if ?c then _ else _) = Ok _ => destruct c
    | rbind ?c _ = Ok _ => let v := fresh "v" in destruct c as [v| |]; cbn [rbind] in E4; try discriminate E4
    end; injection E4 as <-; cbn; rewrite ?El; repeat split; try reflexivity; try congruence. }
  destruct Hs4 as (H1 & H2 & H3 & H4 & H5 & H6 & H7 & H8 & H9 & H10).
  split; [exact H1|]. split; [exists e1, s1, e2; split; assumption|].
  repeat split; try congruence. intros Hne. rewrite (H10 Hne). congruence.
Qed.

(* ---------- a new position has nothing claimable ---------- *)
Lemma set_accum_position_new s lo up pid delta s' :
  find_ap (a_acc_pos s) pid = None -> set_accum_position s lo up pid delta = Ok s' ->
  exists outside inside,
    fee_growth_outside s lo up = Some outside /\ vsafe_sub (a_acc_value s) outside = Some inside /\ 0 < delta /\
    a_acc_pos s' = put_ap (a_acc_pos s) {| ap_id := pid; ap_shares := delta; ap_value := inside; ap_unclaimed := vzero |} /\
    a_positions s' = a_positions s /\ a_pool s' = a_pool s /\ a_ticks s' = a_ticks s /\ a_acc_value s' = a_acc_value s.
Proof.
  unfold set_accum_position. intros Hn H.
  destruct (of_opt (fee_growth_outside s lo up)) as [outside| |] eqn:Eo; cbn [rbind] in H; try discriminate.
  apply of_opt_ok in Eo.
  destruct (of_opt (vsafe_sub (a_acc_value s) outside)) as [inside| |] eqn:Ei; cbn [rbind] in H; try discriminate.
  apply of_opt_ok in Ei. rewrite Hn in H.
  destruct (Z.leb_spec delta 0); [discriminate|].
  destruct (of_opt (dadd (a_acc_shares s) delta)) as [sh| |]; cbn [rbind] in H; try discriminate.
  injection H as <-. exists outside, inside. cbn. repeat split; try assumption.
Qed.

Lemma zero_entitlement acc (pid delta : Z) (v1 : vec) tot :
  len4 acc -> len4 v1 -> (forall i, (i < 4)%nat -> vn v1 i = vn acc i) ->
  total_rewards acc {| ap_id := pid; ap_shares := delta; ap_value := v1; ap_unclaimed := vzero |} = Some tot ->
  tot = vzero.
Proof.
  intros La Lv Hv Ht. destruct (total_rewards_nth _ _ _ Ht La Lv eq_refl) as [->|(_ & Lt & Nt)]; [reflexivity|].
  apply vec_ext; [exact Lt|]. intros i Hi. rewrite vzero_nth.
  destruct (Nt i ltac:(unfold len4 in *; lia)) as (r & _ & Hr & ->). cbn [ap_value ap_unclaimed ap_shares] in *.
  rewrite vzero_nth. rewrite Hv in Hr by (unfold len4 in *; lia). rewrite Z.sub_diag in Hr.
  apply dmul_some in Hr. subst r. reflexivity.
Qed.

Definition new_pos (pid sender lo up : Z) : position :=
  {| pos_id := pid; pos_owner := sender; pos_lower := lo; pos_upper := up; pos_liq := 0 |}.

Lemma create_position_inv' s sender lo up base quote mb mq s' pid ab aq l :
  create_position s sender lo up base quote mb mq = Ok (s', (pid, ab, aq, l)) ->
  exists s1 delta s3 le ue,
    pid = a_next_id s /\ lo < up /\
    a_acc_value s1 = a_acc_value s /\ a_ticks s1 = a_ticks s /\ a_acc_pos s1 = a_acc_pos s /\
    a_next_id s1 = a_next_id s /\ a_positions s1 = a_positions s /\ a_acc_shares s1 = a_acc_shares s /\
    a_bal_fee s1 = a_bal_fee s /\ a_bal_pool s1 = a_bal_pool s /\ a_bal_user s1 = a_bal_user s /\
    (has_position (a_pool s) = true -> a_pool s1 = a_pool s) /\
    update_position (set_next_id (set_positions s1 (put_pos (a_positions s1) (new_pos pid sender lo up))) (pid + 1))
      lo up delta pid = Ok (s3, ab, aq, le, ue) /\
    send s3 AUser APool [ab; aq; 0; 0] = Ok s'.
Proof.
  unfold create_position. intros H.
  destruct ((up <=? lo) || (lo <? TICK_MIN) || (TICK_MAX <? up)) eqn:Eb1; [discriminate|].
  destruct ((base =? 0) && (quote =? 0)); [discriminate|].
  destruct ((base <? 0) || (quote <? 0)); [discriminate|].
  destruct (ticks_to_sqrt lo up (p_tp (a_pool s))) as [[sl su]| |]; cbn [rbind] in H; try discriminate.
  match type of H with rbind ?c _ = _ => destruct c as [s1| |] eqn:E1; cbn [rbind] in H; try discriminate end.
  assert (Hs1 : a_acc_value s1 = a_acc_value s /\ a_ticks s1 = a_ticks s /\ a_acc_pos s1 = a_acc_pos s /\
                a_next_id s1 = a_next_id s /\ a_positions s1 = a_positions s /\ a_acc_shares s1 = a_acc_shares s /\
                a_bal_fee s1 = a_bal_fee s /\ a_bal_pool s1 = a_bal_pool s /\ a_bal_user s1 = a_bal_user s /\
                (has_position (a_pool s) = true -> a_pool s1 = a_pool s)).
  { destruct (has_position (a_pool s)); [injection E1 as <-; repeat split|].
    repeat step_res E1. injection E1 as <-. repeat split. discriminate. }
  destruct (of_opt (liquidity_from_amounts (p_sqrt (a_pool s1)) sl su base quote)) as [delta| |]; cbn [rbind] in H; try discriminate.
  destruct (delta =? 0); [discriminate|].
  fold (new_pos (a_next_id s1) sender lo up) in H.
  destruct (update_position _ lo up delta (a_next_id s1)) as [[[[[s3 ab'] aq'] le] ue]| |] eqn:Eu; cbn [rbind] in H; try discriminate.
  destruct (ab' <? mb); [discriminate|]. destruct (aq' <? mq); [discriminate|].
  destruct ((ab' <? 0) || (aq' <? 0)); [discriminate|].
  destruct (send s3 AUser APool [ab'; aq'; 0; 0]) as [s4| |] eqn:Es; cbn [rbind] in H; try discriminate.
  injection H as <- <- <- <- _.
  destruct Hs1 as (A1&A2&A3&A4&A5&A6&A7&A8&A9&A10).
  exists s1, delta, s3, le, ue.
  split; [exact A4|]. split; [lia|]. repeat (split; [assumption|]). exact Es.
Qed.

Lemma put_tick_wf l t : Forall tick_wf l -> tick_wf t -> Forall tick_wf (put_tick l t).
Proof.
  intros Hl Ht. induction Hl as [|x l Hx Hl IH]; cbn [put_tick]; [constructor; [assumption|constructor]|].
  destruct (t_index x =? t_index t); [constructor; assumption|].
  destruct (t_index t <? t_index x); constructor; try assumption. constructor; assumption.
Qed.

Theorem no_retroactive_fees s sender lo up base quote mb mq s' pid ab aq l c :
  len4 (a_acc_value s) -> Forall tick_wf (a_ticks s) ->
  find_ap (a_acc_pos s) (a_next_id s) = None ->
  create_position s sender lo up base quote mb mq = Ok (s', (pid, ab, aq, l)) ->
  claimable_fees s' pid = Ok c -> c = vzero.
Proof.
  intros La Ht Hfresh H Hc.
  destruct (create_position_inv' _ _ _ _ _ _ _ _ _ _ _ _ _ H)
    as (s1 & delta & s3 & le & ue & -> & Hlt & V1 & T1 & A1 & N1 & P1 & _ & _ & _ & _ & _ & Hu & Hs).
  destruct (update_position_inv _ _ _ _ _ _ _ _ _ _ Hu)
    as (st2 & pos & s4 & Ef & Hliq & Hd & Hps & (e1 & st1 & e2 & U1 & U2) & T4 & V4 & Sh4 & A4 & N4 & _ & _ & _ & _ & Hacc).
  cbn [a_positions set_next_id set_positions a_acc_value a_acc_pos a_ticks a_next_id] in *.
  rewrite find_put_pos in Ef. unfold new_pos in Ef at 1. cbn [pos_id] in Ef. rewrite Z.eqb_refl in Ef. injection Ef as <-.
  unfold new_pos in Hps, Hliq. cbn [pos_liq pos_lower pos_upper pos_owner pos_id] in *.
  destruct (send_spec _ _ _ _ _ Hs) as (Hsame & _ & _).
  destruct (claimable_entitlement _ _ _ Hc) as (tot & Hent & ->).
  rewrite (entitlement_same _ _ _ Hsame) in Hent.
  rewrite A1 in A4. rewrite <- A4 in Hfresh.
  destruct (set_accum_position_new _ _ _ _ _ _ Hfresh Hacc) as (outside & inside & Eo & Ei & Hpos & Hap & Hp5 & Hq5 & Ht5 & Hv5).
  unfold entitlement in Hent. rewrite Hp5, Hps in Hent.
  destruct (Z.eqb_spec (0 + delta) 0) as [Ez|Ez]; [lia|].
  rewrite find_put_pos in Hent. cbn [pos_id] in Hent. rewrite Z.eqb_refl in Hent. cbn [pos_lower pos_upper] in Hent.
  rewrite Hap, find_put_ap in Hent. cbn [ap_id] in Hent. rewrite Z.eqb_refl in Hent.
  rewrite (fee_growth_outside_same s4 s3) in Hent by assumption. rewrite Eo in Hent.
  cbn [of_opt rbind ap_value ap_shares ap_unclaimed] in Hent.
  destruct (vadd inside outside) as [v1|] eqn:Ev; cbn [of_opt rbind] in Hent; try discriminate.
  apply of_opt_ok in Hent. rewrite Hv5 in Hent.
  assert (La4 : len4 (a_acc_value s4)) by (rewrite V4, V1; exact La).
  assert (Ht4 : Forall tick_wf (a_ticks s4)).
  { destruct (upsert_tick_fields _ _ _ _ _ _ U1) as (_ & _ & Va & _ & _ & _ & _ & _ & _ & ta & Tta & _ & Gta).
    destruct (upsert_tick_fields _ _ _ _ _ _ U2) as (_ & _ & Vb & _ & _ & _ & _ & _ & _ & tb & Ttb & _ & Gtb).
    rewrite T4, Ttb, Tta. cbn [a_ticks set_next_id set_positions]. rewrite T1.
    assert (Hta : tick_wf ta).
    { unfold tick_wf. rewrite Gta. apply tgrowth_len4; cbn [a_acc_value a_ticks set_next_id set_positions]; [rewrite V1; exact La|rewrite T1; exact Ht]. }
    apply put_tick_wf; [apply put_tick_wf; assumption|].
    unfold tick_wf. rewrite Gtb. apply tgrowth_len4; [rewrite Va; cbn [a_acc_value set_next_id set_positions]; rewrite V1; exact La|].
    rewrite Tta. cbn [a_ticks set_next_id set_positions]. rewrite T1. apply put_tick_wf; assumption. }
  destruct (fgo_nth _ _ _ _ Eo La4 (tgrowth_len4 _ _ La4 Ht4) (tgrowth_len4 _ _ La4 Ht4)) as [Lo _].
  destruct (vsafe_sub_nth _ _ _ Ei ltac:(unfold len4 in *; congruence)) as [Li Ni].
  destruct (vadd_nth _ _ _ Ev ltac:(unfold len4 in *; congruence)) as [Lv Nv].
  assert (Lv4 : len4 v1) by (unfold len4 in *; congruence).
  assert (Hv1 : forall i, (i < 4)%nat -> vn v1 i = vn (a_acc_value s4) i).
  { intros i Hi. rewrite Nv, Ni by (unfold len4 in *; lia). lia. }
  rewrite (zero_entitlement _ _ _ _ _ La4 Lv4 Hv1 Hent). reflexivity.
Qed.
