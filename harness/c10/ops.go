package c10

import (
	"errors"
	"fmt"
	"math/big"
	"strings"
	"time"

	errorsmod "cosmossdk.io/errors"
	sdkmath "cosmossdk.io/math"
	bankkeeper "cosmossdk.io/x/bank/keeper"
	banktypes "cosmossdk.io/x/bank/types"
	stakingtypes "cosmossdk.io/x/staking/types"
	abci "github.com/cometbft/cometbft/abci/types"
	sdk "github.com/cosmos/cosmos-sdk/types"
	sdkerrors "github.com/cosmos/cosmos-sdk/types/errors"
	authtypes "github.com/cosmos/cosmos-sdk/x/auth/types"
	"google.golang.org/grpc/codes"
	"google.golang.org/grpc/status"

	sckeeper "github.com/sunriselayer/sunrise/x/shareclass/keeper"
	sctypes "github.com/sunriselayer/sunrise/x/shareclass/types"

	"verifharness/apph"
	"verifharness/emit"
)

const (
	kClaim = iota
	kDelegate
	kUndelegate
	kSend
	kBlock
)

// op is one operation of a history.
type op struct {
	Kind  int
	U, U2 int      // users
	V     int      // validator index, -1 = a well-formed address that is no validator
	Amt   *big.Int // amount
	Dn    int      // denom index of the amount
	Rcp   int      // recipient: user index, -1 = malformed string, -3 = empty (= sender)
	Dt    time.Duration
	Fees  sdk.Coins // sent to the fee collector before the block
	Up    int       // address strings written in upper case (still valid bech32): 1 validator, 2 sender, 4 recipient
}

func (o op) upStr() string {
	if o.Up == 0 {
		return ""
	}
	return fmt.Sprintf(" upper-case=%d", o.Up)
}

func (o op) String() string {
	switch o.Kind {
	case kClaim:
		return fmt.Sprintf("claim u%d v%d%s", o.U, o.V, o.upStr())
	case kDelegate:
		return fmt.Sprintf("delegate u%d v%d %s%s%s", o.U, o.V, o.Amt, denomNames[o.Dn], o.upStr())
	case kUndelegate:
		return fmt.Sprintf("undelegate u%d v%d %s%s rcp=%d%s", o.U, o.V, o.Amt, denomNames[o.Dn], o.Rcp, o.upStr())
	case kSend:
		return fmt.Sprintf("send-share u%d->u%d v%d %s", o.U, o.U2, o.V, o.Amt)
	default:
		return fmt.Sprintf("block +%v fees=%s", o.Dt, o.Fees)
	}
}

// classify maps a Go error to the model's error classes.
func classify(err error) int {
	if err == nil {
		return 0
	}
	msg := err.Error()
	if strings.HasPrefix(msg, "panic:") {
		return 99
	}
	switch {
	case errors.Is(err, stakingtypes.ErrMaxUnbondingDelegationEntries):
		return 7
	case errors.Is(err, sdkerrors.ErrInsufficientFunds):
		return 2
	case errors.Is(err, banktypes.ErrSendDisabled):
		return 9
	case errors.Is(err, sdkerrors.ErrInvalidCoins):
		return 1
	}
	if st, ok := status.FromError(err); ok && st.Code() == codes.NotFound {
		return 3
	}
	if strings.Contains(msg, "bech32") || strings.Contains(msg, "invalid recipient address") {
		return 8
	}
	if cs, _, _ := errorsmod.ABCIInfo(err, false); cs == stakingtypes.ModuleName {
		return 4
	}
	if errors.Is(err, sdkerrors.ErrInvalidRequest) {
		return 4
	}
	return 6
}

// unknownValidator is a well-formed operator address that is not a validator.
func (w *world) unknownValidator() string {
	s, err := w.h.App.StakingKeeper.ValidatorAddressCodec().BytesToString(authtypes.NewModuleAddress("c10-no-such-validator"))
	if err != nil {
		panic(err)
	}
	return s
}

func (o op) spell(s string, bit int) string {
	if o.Up&bit != 0 {
		return strings.ToUpper(s)
	}
	return s
}

func (w *world) valAddr(v int) string {
	if v < 0 {
		return w.unknownValidator()
	}
	return w.vals[v]
}

// result of running one op on the application.
type outcome struct {
	Class    int
	Err      string
	Ct       int64    // completion time (ns) of a successful undelegation
	Ret      *big.Int // MsgNonVotingUndelegateResponse.Amount = what staking reports it unbonds
	Rw       [][]*big.Int
	Released *big.Int
}

func coinsToRow(cs sdk.Coins) []*big.Int {
	row := make([]*big.Int, len(denomNames))
	for i, dn := range denomNames {
		row[i] = cs.AmountOf(dn).BigInt()
	}
	return row
}

func attr(ev abci.Event, key string) string {
	for _, a := range ev.Attributes {
		if a.Key == key {
			return a.Value
		}
	}
	return ""
}

// apply executes the op on the real application.
func (w *world) apply(o op) outcome {
	h := w.h
	srv := sckeeper.NewMsgServerImpl(h.App.ShareclassKeeper)
	var out outcome
	out.Released = big.NewInt(0)
	out.Ret = big.NewInt(0)
	for range w.vals {
		out.Rw = append(out.Rw, coinsToRow(nil))
	}
	var err error
	switch o.Kind {
	case kClaim:
		err = apph.Tx(w.msgCtx(), func(ctx sdk.Context) error {
			_, e := srv.ClaimRewards(ctx, &sctypes.MsgClaimRewards{Sender: o.spell(h.Accts[o.U].Addr.String(), 2), ValidatorAddress: o.spell(w.valAddr(o.V), 1)})
			return e
		})
	case kDelegate:
		err = apph.Tx(w.msgCtx(), func(ctx sdk.Context) error {
			_, e := srv.NonVotingDelegate(ctx, &sctypes.MsgNonVotingDelegate{Sender: o.spell(h.Accts[o.U].Addr.String(), 2), ValidatorAddress: o.spell(w.valAddr(o.V), 1),
				Amount: sdk.Coin{Denom: denomNames[o.Dn], Amount: sdkmath.NewIntFromBigInt(o.Amt)}})
			return e
		})
	case kUndelegate:
		rcp := ""
		switch {
		case o.Rcp >= 0:
			rcp = h.Accts[o.Rcp].Addr.String()
		case o.Rcp == -1:
			rcp = "sunrise1notanaddress"
		}
		err = apph.Tx(w.msgCtx(), func(ctx sdk.Context) error {
			r, e := srv.NonVotingUndelegate(ctx, &sctypes.MsgNonVotingUndelegate{Sender: o.spell(h.Accts[o.U].Addr.String(), 2), ValidatorAddress: o.spell(w.valAddr(o.V), 1),
				Amount: sdk.Coin{Denom: denomNames[o.Dn], Amount: sdkmath.NewIntFromBigInt(o.Amt)}, Recipient: o.spell(rcp, 4)})
			if e == nil {
				out.Ct = r.CompletionTime.UnixNano()
				if !r.Amount.Amount.IsNil() {
					out.Ret = r.Amount.Amount.BigInt()
				}
			}
			return e
		})
	case kSend:
		bsrv := bankkeeper.NewMsgServerImpl(h.App.BankKeeper)
		err = apph.Tx(w.msgCtx(), func(ctx sdk.Context) error {
			_, e := bsrv.Send(ctx, &banktypes.MsgSend{FromAddress: h.Accts[o.U].Addr.String(), ToAddress: h.Accts[o.U2].Addr.String(),
				Amount: sdk.Coins{sdk.Coin{Denom: w.shares[o.V], Amount: sdkmath.NewIntFromBigInt(o.Amt)}}})
			return e
		})
	case kBlock:
		var resp *abci.FinalizeBlockResponse
		resp, err = w.blockResp(o.Dt)
		if err == nil {
			for _, ev := range resp.Events {
				switch ev.Type {
				case "withdraw_rewards":
					if attr(ev, "delegator") != w.mod.String() {
						continue
					}
					cs, perr := sdk.ParseCoinsNormalized(attr(ev, "amount"))
					if perr != nil {
						panic(perr)
					}
					for v, va := range w.vals {
						if va == attr(ev, "validator") {
							row := coinsToRow(cs)
							for i := range row {
								out.Rw[v][i].Add(out.Rw[v][i], row[i])
							}
						}
					}
				case "complete_unbonding":
					if attr(ev, "delegator") != w.mod.String() {
						continue
					}
					cs, perr := sdk.ParseCoinsNormalized(attr(ev, "amount"))
					if perr != nil {
						panic(perr)
					}
					out.Released.Add(out.Released, cs.AmountOf("uvrise").BigInt())
				}
			}
		}
	}
	out.Class = classify(err)
	if o.Kind == kBlock && err != nil && out.Class != 99 {
		out.Class = 10
	}
	if err != nil {
		out.Err = err.Error()
	}
	return out
}

func (o op) coq() string {
	amt := "0"
	if o.Amt != nil {
		amt = emit.Z(o.Amt)
	}
	switch o.Kind {
	case kClaim:
		return fmt.Sprintf("(OClaim %d %s)", o.U, emit.ZI(int64(o.V)))
	case kDelegate:
		return fmt.Sprintf("(ODelegate %d %s %s %d)", o.U, emit.ZI(int64(o.V)), amt, o.Dn)
	case kUndelegate:
		r := o.Rcp
		if r == -3 {
			r = o.U
		}
		return fmt.Sprintf("(OUndelegate %d %s %s %d %s)", o.U, emit.ZI(int64(o.V)), amt, o.Dn, emit.ZI(int64(r)))
	case kSend:
		return fmt.Sprintf("(OSend %d %d %d %s)", o.U, o.U2, o.V, amt)
	}
	return ""
}
