(* Correspondence + monitors for C16 (governance tally with non-voting stake).
   One case = one call of the function app.go installs in the gov keeper, on real staking state. *)
From Coq Require Import ZArith List Bool.
Import ListNotations.
From Sunrise Require Export Base.Outcome Base.Dec Base.Check Stake.TallyCore Stake.GovTally.
Local Open Scope Z_scope.

Record gov_case := {
  gc_sc : Z;                      (* the share-class module account *)
  gc_vals : list val;             (* the bonded validators handed to the function *)
  gc_scdels : list (Z * Z);       (* IterateDelegations(shareclass): (validator, shares) *)
  gc_scall : list (Z * Z * Z);    (* the same delegations as (shares, validator tokens, validator shares),
                                     validators of any status: what staking's GetDelegatorBonded reads *)
  gc_ballots : list ballot;       (* the stored votes in store order with each voter's delegations *)
  gc_bonded : Z;                  (* TotalBondedTokens *)
  gc_scbonded : Z;                (* GetDelegatorBonded(shareclass) *)
  gc_obs : res (Z * list Z);      (* returned (total voting power, [yes; abstain; no; veto; spam]) *)
  gc_left : Z;                    (* votes of the proposal still stored afterwards *)
  gc_keeper : option (list Z)     (* counts of Keeper.Tally on the same votes (wiring check) *)
}.

Definition same_out (m : option (Z * list Z)) (o : res (Z * list Z)) : bool :=
  match m, o with
  | Some (t, r), Ok (t', r') => (t =? t') && zlist_eqb r r'
  | None, Panic => true
  | _, _ => false
  end.

Definition model (c : gov_case) := tally (gc_sc c) (gc_vals c) (gc_scdels c) (gc_ballots c) (gc_bonded c).
Definition model_orig (c : gov_case) :=
  tally_orig (gc_sc c) (gc_vals c) (gc_scdels c) (gc_ballots c) (gc_bonded c) (gc_scbonded c).

Definition corr (c : gov_case) : bool :=
  same_out (model c) (gc_obs c) &&
  match delegator_bonded (gc_scall c) with Some n => n =? gc_scbonded c | None => false end.

(* ---- the reference: the SDK's own tally on the graph without the share-class delegations ---- *)
Definition scded (scdels : list (Z * Z)) (id : Z) : Z := dels_to id scdels.

(* remove the share-class shares from a validator at its current exchange rate.
   exact = true: only if the remaining tokens are an integer (always so when tokens = shares) *)
Definition reduce_val (exact : bool) (scdels : list (Z * Z)) (v : val) : option (list val) :=
  let s' := v_sh v - scded scdels (v_id v) in
  if s' <=? 0 then Some []     (* nothing but non-voting stake: the validator disappears *)
  else if v_sh v <=? 0 then None
  else if (v_tok v * s') mod (v_sh v) =? 0
       then Some [{| v_id := v_id v; v_tok := v_tok v * s' / v_sh v; v_sh := s' |}]
       else if exact then None
       else (* what staking's Unbond would leave: tokens - floor(token value of the shares) *)
         Some [{| v_id := v_id v; v_tok := v_tok v - (scded scdels (v_id v) * v_tok v) / v_sh v; v_sh := s' |}].
Fixpoint reduce_vals (exact : bool) (scdels : list (Z * Z)) (vs : list val) : option (list val) :=
  match vs with
  | [] => Some []
  | v :: tl =>
      match reduce_val exact scdels v, reduce_vals exact scdels tl with
      | Some a, Some b => Some (a ++ b)
      | _, _ => None
      end
  end.
Definition reference (exact : bool) (c : gov_case) : option (Z * list Z) :=
  match reduce_vals exact (gc_scdels c) (gc_vals c) with
  | Some vs => std_tally vs (ref_ballots (gc_sc c) (gc_ballots c))
  | None => None
  end.

Fixpoint zlist_close (tol : Z) (a b : list Z) : bool :=
  match a, b with
  | [], [] => true
  | x :: a', y :: b' => (Z.abs (x - y) <=? tol) && zlist_close tol a' b'
  | _, _ => false
  end.

Definition n_apps (c : gov_case) : Z :=
  fold_right (fun b a => (Z.of_nat (length (b_w b)) + 1) * (Z.of_nat (length (b_dels b)) + 1) + a) 0 (gc_ballots c).

(* 1: option totals equal the reference tally exactly whenever the share-class stake can be
      removed at each validator's exchange rate (in particular when tokens = shares) *)
Definition mon_ref_exact (c : gov_case) : bool :=
  match gc_obs c, reference true c with
  | Ok (_, r), Some (_, r') => zlist_eqb r r'
  | _, _ => true
  end.
(* 2: otherwise they agree with the tally on the graph staking's Unbond would leave, up to the
      exchange-rate change that removal itself causes (< 1 token per validator) and rounding *)
Definition mon_ref_close (c : gov_case) : bool :=
  match gc_obs c, reference true c, reference false c with
  | Ok (_, r), None, Some (_, r') =>
      zlist_close (Z.of_nat (length (gc_vals c)) * P + 2 * n_apps c + 2 * Z.of_nat (length (gc_vals c))) r r'
  | _, _, _ => true
  end.
(* 3: every vote of the proposal, the share-class account's included, is consumed *)
Definition mon_consumed (c : gov_case) : bool :=
  match gc_obs c with Ok _ => gc_left c =? 0 | _ => true end.
(* 4: reported turnout = voted power * bonded / (bonded - non-voting bonded), as LegacyDec.Quo
      rounds it; voted power and non-voting bonded tokens recomputed from the observed graph *)
Definition mon_turnout (c : gov_case) : bool :=
  match gc_obs c, tally_core (gc_sc c) (gc_vals c) (gc_scdels c) (gc_ballots c) with
  | Ok (t, _), Some (voted, _, nb) =>
      let vb := gc_bonded c * P - nb in
      if 0 <? vb
      then Z.abs (t * vb * P - voted * gc_bonded c * P * P) <=? (HALF + 1) * vb
      else true
  | Panic, _ => false          (* the tally must not halt the EndBlocker *)
  | _, _ => true
  end.
(* 5: Keeper.Tally (what EndBlocker calls) reports the truncated totals of the same function *)
Definition mon_keeper (c : gov_case) : bool :=
  match gc_obs c, gc_keeper c with
  | Ok (_, r), Some k => zlist_eqb (map dtrunc_int r) k
  | Ok _, None => false
  | _, _ => true
  end.
(* trigger 1: the implementation answered exactly like the unrepaired function and unlike the
   repaired one (turnout defects of the pinned commit) *)
Definition trig_orig (c : gov_case) : bool :=
  same_out (model_orig c) (gc_obs c) && negb (same_out (model c) (gc_obs c)).

(* trigger 2: Keeper.Tally reported the counts of the SDK's default function on the full graph,
   i.e. the custom function is not the one installed in the gov keeper *)
Definition trig_unwired (c : gov_case) : bool :=
  match gc_keeper c, std_tally (gc_vals c) (gc_ballots c) with
  | Some k, Some (_, r) => zlist_eqb (map dtrunc_int r) k && negb (mon_keeper c)
  | _, _ => false
  end.

Definition c16_check (c : gov_case) : list Z :=
  flag 0 (corr c) ++ flag 1 (mon_ref_exact c) ++ flag 2 (mon_ref_close c) ++ flag 3 (mon_consumed c) ++
  flag 4 (mon_turnout c) ++ flag 5 (mon_keeper c) ++
  flag 101 (negb (trig_orig c)) ++ flag 102 (negb (trig_unwired c)).

Definition run := run_cases c16_check.
