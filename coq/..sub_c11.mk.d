Props/C11.vo Props/C11.glob Props/C11.v.beautified Props/C11.required_vo: Props/C11.v Base/Outcome.vo Base/Dec.vo Swap/IbcSwap.vo Swap/IbcSwapProofs.vo
Props/C11.vio: Props/C11.v Base/Outcome.vio Base/Dec.vio Swap/IbcSwap.vio Swap/IbcSwapProofs.vio
Props/C11.vos Props/C11.vok Props/C11.required_vos: Props/C11.v Base/Outcome.vos Base/Dec.vos Swap/IbcSwap.vos Swap/IbcSwapProofs.vos
