(* C13 — RISE/vRISE supply: 1:1 conversion, capped emission.
   Only statements, each closed by [exact]; proofs live in Econ/*Proofs.v. *)
From Coq Require Import ZArith.
From Sunrise Require Import Base.Outcome Base.Dec Base.Bank Econ.Mint Econ.Convert Econ.Ban Econ.MintProofs Econ.ConvertProofs.
Local Open Scope Z_scope.

(* Conversion bond -> fee through Msg/Convert: exactly 1:1, atomic, nothing else changes. *)
Theorem C13_convert_exact : forall bond fee modacc amount addr b,
  bond <> fee -> addr <> modacc ->
  match msg_convert bond fee modacc amount addr b with
  | (b', Ok _) => 0 < amount <= bal b addr bond /\ converted bond fee b b' addr amount
  | (b', _) => b' = b
  end.
Proof. exact convert_exact. Qed.
Print Assumptions C13_convert_exact.

(* Conversion fee -> bond (keeper ConvertReverse, used by delegation paths). *)
Theorem C13_convert_reverse_exact : forall bond fee modacc amount addr b,
  bond <> fee -> addr <> modacc ->
  match do_convert_reverse bond fee modacc amount addr b with
  | (b', Ok _) => 0 <= amount <= bal b addr fee /\ converted fee bond b b' addr amount
  | (b', _) => b' = b
  end.
Proof. exact convert_reverse_exact. Qed.
Print Assumptions C13_convert_reverse_exact.

Theorem C13_convert_succeeds : forall bond fee modacc amount addr b,
  bond <> fee -> addr <> modacc -> 0 < amount <= bal b addr bond ->
  0 <= bal b modacc bond -> 0 <= bal b modacc fee ->
  exists b', msg_convert bond fee modacc amount addr b = (b', Ok tt).
Proof. exact convert_succeeds. Qed.
Print Assumptions C13_convert_succeeds.

Theorem C13_mint_nonneg : forall i o,
  mint_fn i = Some o -> 0 <= mo_fee_minted o /\ 0 <= mo_bond_minted o.
Proof. exact mint_nonneg. Qed.
Print Assumptions C13_mint_nonneg.

Theorem C13_mint_respects_cap : forall i o,
  0 <= mi_fee_supply i -> 0 <= mi_bond_supply i -> 0 <= mi_ratio i <= P ->
  0 <= secs_of i -> total_in i <= SUPPLY_CAP ->
  mint_fn i = Some o -> total_in i + minted o <= SUPPLY_CAP.
Proof. exact mint_respects_cap. Qed.
Print Assumptions C13_mint_respects_cap.

Theorem C13_mint_nothing_above_cap : forall i o,
  0 <= mi_fee_supply i -> 0 <= mi_bond_supply i -> 0 <= mi_ratio i <= P ->
  0 <= secs_of i -> SUPPLY_CAP < total_in i ->
  mint_fn i = Some o -> minted o = 0.
Proof. exact mint_nothing_above_cap. Qed.
Print Assumptions C13_mint_nothing_above_cap.

Theorem C13_mint_le_prorated_inflation : forall i o,
  0 <= mi_fee_supply i -> 0 <= mi_bond_supply i -> 0 <= mi_ratio i <= P -> 0 <= secs_of i ->
  mint_fn i = Some o ->
  exists rate, inflation_rate_cap (years_since_genesis GENESIS_NS (mi_now_ns i)) = Some rate /\
    minted o * SECONDS_PER_YEAR * P <= rate * total_in i * secs_of i.
Proof. exact mint_le_prorated_inflation. Qed.
Print Assumptions C13_mint_le_prorated_inflation.

Theorem C13_mint_split_exact : forall i o,
  0 <= mi_fee_supply i -> 0 <= mi_bond_supply i -> 0 <= mi_ratio i <= P -> 0 <= secs_of i ->
  mint_fn i = Some o ->
  mo_fee_minted o * P <= mi_ratio i * minted o < mo_fee_minted o * P + P /\
  mo_bond_minted o = minted o - mo_fee_minted o.
Proof. exact mint_split_exact. Qed.
Print Assumptions C13_mint_split_exact.

(* nothing lost: what is minted in the two tokens together is exactly the provision due *)
Theorem C13_mint_total_is_provision : forall i o,
  0 <= mi_fee_supply i -> 0 <= mi_bond_supply i -> 0 <= mi_ratio i <= P -> 0 <= secs_of i ->
  mint_fn i = Some o -> provision_of i = Some (minted o).
Proof. exact mint_total_is_provision. Qed.
Print Assumptions C13_mint_total_is_provision.

(* transfer ban, bank level: a plain send of a send-disabled denom is rejected with no change.
   The clause "whichever message requests it" (pool deposits, swaps, proxy/lockup sends, IBC) is
   NOT a theorem: those handlers are exercised by the ban scenarios of the harness and monitored
   (no user account gains the token). PARTIAL. *)
Theorem C13_send_disabled_rejected : forall enabled b from to d amt,
  enabled d = false -> msg_send enabled b from to d amt = (b, Err E_SEND_DISABLED).
Proof. exact msg_send_disabled. Qed.
Print Assumptions C13_send_disabled_rejected.

(* non-vacuity: a concrete invocation meeting every hypothesis above and minting > 0 *)
Example C13_nonvacuous :
  let i := {| mi_fee_supply := 400000000000000; mi_bond_supply := 100000000000000;
              mi_last := Some 1800000000; mi_now_ns := 1800000060 * 1000000000;
              mi_ratio := 333333333333333333 |} in
  exists o, mint_fn i = Some o /\ 0 < mo_fee_minted o /\ 0 < mo_bond_minted o /\
            total_in i <= SUPPLY_CAP /\ 0 <= secs_of i.
Proof. eexists. split; [vm_compute; reflexivity|]. vm_compute. repeat split; congruence. Qed.
