package c15

import (
	"context"
	"fmt"
	"reflect"
	"sort"

	dakeeper "github.com/sunriselayer/sunrise/x/da/keeper"
	datypes "github.com/sunriselayer/sunrise/x/da/types"
	feekeeper "github.com/sunriselayer/sunrise/x/fee/keeper"
	feetypes "github.com/sunriselayer/sunrise/x/fee/types"
	likeeper "github.com/sunriselayer/sunrise/x/liquidityincentive/keeper"
	litypes "github.com/sunriselayer/sunrise/x/liquidityincentive/types"
	lpkeeper "github.com/sunriselayer/sunrise/x/liquiditypool/keeper"
	lptypes "github.com/sunriselayer/sunrise/x/liquiditypool/types"
	sdkeeper "github.com/sunriselayer/sunrise/x/selfdelegation/keeper"
	sdtypes "github.com/sunriselayer/sunrise/x/selfdelegation/types"
	sckeeper "github.com/sunriselayer/sunrise/x/shareclass/keeper"
	sctypes "github.com/sunriselayer/sunrise/x/shareclass/types"
	swapkeeper "github.com/sunriselayer/sunrise/x/swap/keeper"
	swaptypes "github.com/sunriselayer/sunrise/x/swap/types"
	tckeeper "github.com/sunriselayer/sunrise/x/tokenconverter/keeper"
	tctypes "github.com/sunriselayer/sunrise/x/tokenconverter/types"

	"verifharness/apph"
)

// method is one Msg or Query service method of a custom module, bound to the real
// server implementation of the running application.
type method struct {
	Module string // da, fee, ...
	Kind   string // "Msg" or "Query"
	Name   string // Go method name, e.g. CreatePool
	In     reflect.Type
	fn     reflect.Value
}

func (m method) Key() string { return m.Module + "." + m.Kind + "." + m.Name }

// Call invokes the real handler; the request must be a pointer of type m.In.
func (m method) Call(ctx context.Context, req any) (resp any, err error) {
	out := m.fn.Call([]reflect.Value{reflect.ValueOf(ctx), reflect.ValueOf(req)})
	if !out[1].IsNil() {
		err = out[1].Interface().(error)
	}
	return out[0].Interface(), err
}

func methodsOf(module, kind string, iface reflect.Type, impl any) []method {
	var ms []method
	v := reflect.ValueOf(impl)
	for i := 0; i < iface.NumMethod(); i++ {
		im := iface.Method(i)
		fn := v.MethodByName(im.Name)
		if !fn.IsValid() {
			panic(fmt.Sprintf("server of %s lacks %s", module, im.Name))
		}
		ms = append(ms, method{Module: module, Kind: kind, Name: im.Name, In: im.Type.In(1), fn: fn})
	}
	return ms
}

func ifaceOf[T any]() reflect.Type { return reflect.TypeOf((*T)(nil)).Elem() }

// allMethods lists every Msg and Query service method of the eight custom modules, bound to
// the keepers of the running application.
func allMethods(h *apph.H) []method {
	a := h.App
	var ms []method
	ms = append(ms, methodsOf("da", "Msg", ifaceOf[datypes.MsgServer](), dakeeper.NewMsgServerImpl(a.DaKeeper))...)
	ms = append(ms, methodsOf("da", "Query", ifaceOf[datypes.QueryServer](), dakeeper.NewQueryServerImpl(a.DaKeeper))...)
	ms = append(ms, methodsOf("fee", "Msg", ifaceOf[feetypes.MsgServer](), feekeeper.NewMsgServerImpl(a.FeeKeeper))...)
	ms = append(ms, methodsOf("fee", "Query", ifaceOf[feetypes.QueryServer](), feekeeper.NewQueryServerImpl(a.FeeKeeper))...)
	ms = append(ms, methodsOf("liquidityincentive", "Msg", ifaceOf[litypes.MsgServer](), likeeper.NewMsgServerImpl(a.LiquidityincentiveKeeper))...)
	ms = append(ms, methodsOf("liquidityincentive", "Query", ifaceOf[litypes.QueryServer](), likeeper.NewQueryServerImpl(a.LiquidityincentiveKeeper))...)
	ms = append(ms, methodsOf("liquiditypool", "Msg", ifaceOf[lptypes.MsgServer](), lpkeeper.NewMsgServerImpl(a.LiquiditypoolKeeper))...)
	ms = append(ms, methodsOf("liquiditypool", "Query", ifaceOf[lptypes.QueryServer](), lpkeeper.NewQueryServerImpl(a.LiquiditypoolKeeper))...)
	ms = append(ms, methodsOf("selfdelegation", "Msg", ifaceOf[sdtypes.MsgServer](), sdkeeper.NewMsgServerImpl(a.SelfdelegationKeeper))...)
	ms = append(ms, methodsOf("selfdelegation", "Query", ifaceOf[sdtypes.QueryServer](), sdkeeper.NewQueryServerImpl(a.SelfdelegationKeeper))...)
	ms = append(ms, methodsOf("shareclass", "Msg", ifaceOf[sctypes.MsgServer](), sckeeper.NewMsgServerImpl(a.ShareclassKeeper))...)
	ms = append(ms, methodsOf("shareclass", "Query", ifaceOf[sctypes.QueryServer](), sckeeper.NewQueryServerImpl(a.ShareclassKeeper))...)
	ms = append(ms, methodsOf("swap", "Msg", ifaceOf[swaptypes.MsgServer](), swapkeeper.NewMsgServerImpl(a.SwapKeeper))...)
	ms = append(ms, methodsOf("swap", "Query", ifaceOf[swaptypes.QueryServer](), swapkeeper.NewQueryServerImpl(a.SwapKeeper))...)
	ms = append(ms, methodsOf("tokenconverter", "Msg", ifaceOf[tctypes.MsgServer](), tckeeper.NewMsgServerImpl(a.TokenconverterKeeper))...)
	ms = append(ms, methodsOf("tokenconverter", "Query", ifaceOf[tctypes.QueryServer](), tckeeper.NewQueryServerImpl(a.TokenconverterKeeper))...)
	sort.Slice(ms, func(i, j int) bool { return ms[i].Key() < ms[j].Key() })
	return ms
}
