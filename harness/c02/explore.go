package c02

import (
	"fmt"
	"math/big"
	"os"

	sdk "github.com/cosmos/cosmos-sdk/types"

	"verifharness/amm"
)

// explore (C02_EXPLORE=1): Go-only search for the smallest history whose complete drain fails.
// Prints one line per failing configuration; emits nothing for Coq.
func explore(w *amm.World) {
	ctx := w.H.Ctx()
	try := func(name string, f func(c sdk.Context, p amm.PoolInfo) error) {
		p, err := w.CreatePool("uosmo", "urise", "0.003", "1.1", "0")
		if err != nil {
			panic(err)
		}
		c, _ := ctx.CacheContext()
		if err := f(c, p); err != nil {
			fmt.Println("EXPLORE", name, "->", err)
		}
	}
	for _, be := range []int{19, 20, 21, 22, 24, 27} {
		for _, q := range []int64{1, 10, 1000, 100000} {
			for _, k := range []int64{2, 3, 5, 7, 11, 13} {
				be, q, k := be, q, k
				try(fmt.Sprintf("base=1e%d quote=%d sell=base/%d", be, q, k), func(c sdk.Context, p amm.PoolInfo) error {
					b := new(big.Int).Exp(big.NewInt(10), big.NewInt(int64(be)), nil)
					t := tickOf(p, b, big.NewInt(q))
					if _, err := w.Exec(c, p, create(0, t-40, t-5, b, big.NewInt(q), "")); err != nil {
						return fmt.Errorf("(create failed: %v)", err)
					}
					if _, err := w.Exec(c, p, swapOp(3, true, 0, new(big.Int).Div(b, big.NewInt(k)), "")); err != nil {
						return fmt.Errorf("(swap failed: %v)", err)
					}
					if _, err := w.Exec(c, p, swapOp(3, true, 0, new(big.Int).Div(b, big.NewInt(k+1)), "")); err != nil {
						return fmt.Errorf("(swap 2 failed: %v)", err)
					}
					for _, pos := range w.C02Positions(c, p) {
						if _, err := w.Exec(c, p, amm.Op{Kind: "decrease", Sender: w.C02UserIndex(pos.Address), Pid: pos.Id, Liq: amm.C02Raw(pos.Liquidity)}); err != nil {
							pl, _, _ := w.K.GetPool(c, p.ID)
							return fmt.Errorf("exit fails at sqrt price %s tick %d: %v", pl.CurrentSqrtPrice, pl.CurrentTick, err)
						}
					}
					return nil
				})
			}
		}
	}
	os.Exit(0)
}
