(* Correspondence + monitors for C18 (fee ante decorator, burn). Evaluated by generated cases files. *)
From Coq Require Import ZArith List Bool.
Import ListNotations.
From Sunrise Require Export Base.Outcome Base.Dec Base.Bank Base.Check Econ.FeeAnte.
Local Open Scope Z_scope.

(* A ledger view: [na] accounts (ids 1..na) x the six valid denoms (ids 2..7), then six supplies. *)
Definition ND : Z := 6.
Definition nthz (l : list Z) (n : Z) : Z := nth (Z.to_nat n) l 0.
Definition dn_ok (d : Z) : bool := (2 <=? d) && (d <=? 7).
Definition bank_of (na : Z) (l : list Z) : bank :=
  {| bal := fun a d => if (1 <=? a) && (a <=? na) && dn_ok d then nthz l ((a - 1) * ND + (d - 2)) else 0;
     sup := fun d => if dn_ok d then nthz l (na * ND + (d - 2)) else 0 |}.
Definition denom_ids : list Z := [2; 3; 4; 5; 6; 7].
Fixpoint acct_ids (n : nat) : list Z :=
  match n with O => [] | S k => acct_ids k ++ [Z.of_nat n] end.
Definition view (na : nat) (b : bank) : list Z :=
  flat_map (fun a => map (fun d => bal b a d) denom_ids) (acct_ids na) ++ map (fun d => sup b d) denom_ids.

(* ---------------------------------------------------------------- ante *)
Definition PAYER := 1. Definition GRANTER := 2. Definition COLLECTOR := 3. Definition BYST := 4.
Definition E_OUT_OF_GAS : Z := 11.

Record ante_obs := {
  ao_app : bool;            (* true: through CheckTx / FinalizeBlock (priority not observable) *)
  ao_in : ante_in;
  ao_pre : list Z;
  ao_res : res Z;           (* Ok priority | Err class | Panic *)
  ao_post : list Z }.

Definition res_eqb (app : bool) (m o : res Z) : bool :=
  match m, o with
  | Ok p, Ok q => app || (p =? q)
  | Err e, Err f => e =? f
  | Panic, Panic => true
  | _, _ => false
  end.

(* Through the whole ante chain a transaction can run out of gas before or after the fee
   decorator (tx-size and signature gas); that verdict belongs to other decorators: the
   model then only predicts "no charge". *)
Definition ante_corr (c : ante_obs) : bool :=
  let b := bank_of 4 (ao_pre c) in
  let '(b', r) := ante_tx (ao_in c) b in
  match ao_app c, ao_res c with
  | true, Err 11 => zlist_eqb (ao_pre c) (ao_post c)
  | _, _ => res_eqb (ao_app c) r (ao_res c) && zlist_eqb (view 4 b') (ao_post c)
  end.

Definition admitted (c : ante_obs) : bool := is_ok (ao_res c).
Definition after_genesis_check (c : ante_obs) : bool :=
  is_check (ai_mode (ao_in c)) && (0 <? ai_height (ao_in c)).

(* 1: admitted in check mode after genesis => exactly one coin, fee denom or bypass denom *)
Definition mon_shape (c : ante_obs) : bool :=
  if after_genesis_check c && admitted c then
    match ai_fee (ao_in c), ai_params (ao_in c) with
    | [(d, _)], Some (fd, byp) => (d =? fd) || existsb (Z.eqb d) byp
    | _, _ => false
    end
  else true.

(* 2: admitted in check mode with a non-zero minimum gas price => some fee coin covers
      price * gas for its denom (amount * 10^18 >= raw price * gas, price > 0) *)
Definition meets_price (gas : Z) (mgp : coins) (c : coin) : bool :=
  existsb (fun gp => (fst gp =? fst c) && (0 <? snd gp) && (snd gp * gas <=? snd c * P)) mgp.
Definition mon_min_price (c : ante_obs) : bool :=
  let i := ao_in c in
  if is_check (ai_mode i) && admitted c && negb (all_zero (ai_mgp i)) && (ai_gas i <? 2 ^ 63) then
    existsb (meets_price (ai_gas i) (ai_mgp i)) (ai_fee i)
  else true.

(* 3: admitted => the declared fee moved in full from the payer (or a consenting granter) to
      the collector and nothing else changed; not admitted => nothing changed *)
Definition moved (pre post : list Z) (src : Z) (fee : coins) : bool :=
  let b := bank_of 4 pre in let b' := bank_of 4 post in
  forallb (fun d =>
    let f := amount_of fee d in
    forallb (fun a =>
      bal b' a d =? bal b a d - (if a =? src then f else 0) + (if a =? COLLECTOR then f else 0))
      [PAYER; GRANTER; COLLECTOR; BYST]
    && (sup b' d =? sup b d)) denom_ids
  && forallb (fun c => dn_ok (fst c) || (snd c =? 0)) fee.
(* who may have been charged according to the property text: the payer, or a granter that consents
   (the model and the theorem are sharper: a named granter is the one charged) *)
Definition consenting (i : ante_in) : list Z :=
  ai_payer i ::
  match ai_granter i with
  | None => []
  | Some g => if g =? ai_payer i then []
              else match ai_allow i with Ok _ => [g] | _ => [] end
  end.
Definition mon_collected (c : ante_obs) : bool :=
  if admitted c then
    existsb (fun src => moved (ao_pre c) (ao_post c) src (ai_fee (ao_in c))) (consenting (ao_in c))
  else zlist_eqb (ao_pre c) (ao_post c).

(* ---------------------------------------------------------------- burn *)
Definition B_COLLECTOR := 1. Definition B_FEEMOD := 2. Definition B_BYST := 3.
Record burn_obs := {
  bo_fee_denom : Z; bo_ratio : Z; bo_fees : coins;
  bo_pre : list Z; bo_res : res unit; bo_post : list Z }.

Definition ures_eqb (m o : res unit) : bool :=
  match m, o with
  | Ok _, Ok _ => true
  | Err e, Err f => e =? f
  | Panic, Panic => true
  | _, _ => false
  end.
Definition burn_corr (c : burn_obs) : bool :=
  let '(b', r) := burn_loop (bo_fee_denom c) (bo_ratio c) B_COLLECTOR B_FEEMOD (bo_fees c) (bank_of 3 (bo_pre c)) in
  ures_eqb r (bo_res c) && zlist_eqb (view 3 b') (bo_post c).

Fixpoint denoms_nodup (cs : coins) : bool :=
  match cs with
  | [] => true
  | (d, _) :: tl => negb (existsb (fun c => fst c =? d) tl) && denoms_nodup tl
  end.
(* 4: on a coin set (distinct denoms, non-negative amounts): success destroys exactly
      floor(ratio * amount) of the fee denom from the collector, supply drops by the same,
      nothing else moves; failure changes nothing *)
Definition mon_burn (c : burn_obs) : bool :=
  if denoms_nodup (bo_fees c) && forallb (fun x => 0 <=? snd x) (bo_fees c) then
    let b := bank_of 3 (bo_pre c) in let b' := bank_of 3 (bo_post c) in
    let fd := bo_fee_denom c in
    let n := (bo_ratio c * find_amt (bo_fees c) fd) / P in
    match bo_res c with
    | Ok _ =>
      forallb (fun d =>
        let k := if d =? fd then n else 0 in
        (bal b' B_COLLECTOR d =? bal b B_COLLECTOR d - k) && (sup b' d =? sup b d - k) &&
        (bal b' B_FEEMOD d =? bal b B_FEEMOD d) && (bal b' B_BYST d =? bal b B_BYST d)) denom_ids
    | _ => zlist_eqb (bo_pre c) (bo_post c)
    end
  else true.

(* the post view is written as the list of (position, new value) that differ from the pre view *)
Fixpoint patch_from (k : Z) (pre : list Z) (diff : list (Z * Z)) : list Z :=
  match pre with
  | [] => []
  | x :: tl =>
    (match find (fun p => fst p =? k) diff with Some p => snd p | None => x end) :: patch_from (k + 1) tl diff
  end.
Definition patch := patch_from 0.

Inductive c18_case :=
| CAnte (app : bool) (i : ante_in) (pre : list Z) (r : res Z) (diff : list (Z * Z))
| CBurn (fd ratio : Z) (fees : coins) (pre : list Z) (r : res unit) (diff : list (Z * Z)).

Definition c18_check (c : c18_case) : list Z :=
  match c with
  | CAnte app i pre r diff =>
      let post := patch pre diff in
      let o := {| ao_app := app; ao_in := i; ao_pre := pre; ao_res := r; ao_post := post |} in
      flag 0 (ante_corr o) ++ flag 1 (mon_shape o) ++ flag 2 (mon_min_price o) ++ flag 3 (mon_collected o)
  | CBurn fd ratio fees pre r diff =>
      let post := patch pre diff in
      let o := {| bo_fee_denom := fd; bo_ratio := ratio; bo_fees := fees; bo_pre := pre; bo_res := r; bo_post := post |} in
      flag 0 (burn_corr o) ++ flag 4 (mon_burn o)
  end.

Definition run := run_cases c18_check.
