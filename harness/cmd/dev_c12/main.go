// dev_c12: a harness binary containing only package c12 (fast, isolated iteration).
package main

import (
	"flag"
	"fmt"
	"os"

	"verifharness/c12"
)

func main() {
	fs := flag.NewFlagSet("c12", flag.ExitOnError)
	seed := fs.Int64("seed", 1, "PRNG seed")
	n := fs.Int("n", 100, "number of generated cases")
	out := fs.String("out", ".", "output directory")
	if len(os.Args) > 1 && os.Args[1] == "c12" {
		fs.Parse(os.Args[2:])
	} else {
		fs.Parse(os.Args[1:])
	}
	if err := os.MkdirAll(*out, 0o755); err != nil {
		panic(err)
	}
	if err := c12.Run(*seed, *n, *out); err != nil {
		fmt.Println("HARNESS-ERROR", err)
		os.Exit(3)
	}
}
