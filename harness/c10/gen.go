package c10

import (
	"fmt"
	"math/big"
	"time"

	sdkmath "cosmossdk.io/math"
	sdk "github.com/cosmos/cosmos-sdk/types"

	sctypes "github.com/sunriselayer/sunrise/x/shareclass/types"

	"verifharness/emit"
)

func (rn *runner) amount() *big.Int {
	r := rn.r
	switch r.Intn(10) {
	case 0:
		return bi(int64(1 + r.Intn(9)))
	case 1:
		return bi(1)
	case 7:
		return r.LogUniform(24)
	case 8:
		return bi(1_000_000)
	case 9:
		return r.LogUniform(21)
	default:
		return r.LogUniform(12)
	}
}

func (rn *runner) fees() sdk.Coins {
	r := rn.r
	cs := sdk.NewCoins()
	add := func(dn string, max int) {
		cs = cs.Add(sdk.NewCoin(dn, sdkmath.NewIntFromBigInt(r.LogUniform(max))))
	}
	if r.Chance(5, 6) {
		add("urise", 13)
	}
	if r.Chance(1, 3) {
		add("uusdc", 10)
	}
	if r.Chance(1, 5) {
		add("uatom", 20)
	}
	return cs
}

// value of u's shares at validator v: floor(B * s / T)
func value(c dcell, u int) *big.Int {
	if c.B == nil || c.T.Sign() == 0 {
		return big.NewInt(0)
	}
	x := new(big.Int).Mul(c.B, c.Sh[u])
	return x.Quo(x, c.T)
}

// genStep chooses and runs the next operation of the history.
func (rn *runner) genStep() {
	r, w, h := rn.r, rn.w, rn.w.h
	d := w.dump(h.Ctx())
	// time travel towards the first completion when it is far away
	if len(d.Queue) > 0 {
		first := d.Queue[0].Time
		gap := first - h.Time.UnixNano()
		full := false
		for _, c := range d.Cells {
			full = full || c.Ent >= rn.maxE-1
		}
		if gap > 3600*secondN && (r.Chance(1, 12) || (full && r.Chance(1, 3)) || len(d.Queue) > 12) {
			frac := first % secondN
			var t int64
			switch r.Intn(6) {
			case 0: // in the second of the completion, before it
				if frac > 1 {
					t = first - frac + r.Int63n(frac)
				} else {
					t = first - 1
				}
			case 1:
				t = first
			case 2:
				t = first + 1
			case 3:
				t = first - 1
			case 4:
				t = first - frac
			default:
				t = first + r.Int63n(3*secondN)
			}
			rn.do(op{Kind: kBlock, Dt: time.Duration(t - h.Time.UnixNano()), Fees: rn.fees()}, "gen:travel")
			return
		}
	}
	u := r.Intn(4)
	v := r.Intn(nVals)
	// in a real block the BeginBlocker has allocated the previous block's fees before the
	// transactions run: sometimes give the validator pending rewards before a message, so that
	// x/distribution's delegation hooks pay them to the module account inside the message
	if d.Cells[v].B != nil && r.Chance(1, 5) {
		rn.allocate(v, rn.fees())
	}
	// bias towards "somebody joins while the saver holds nothing of a denom that already has a
	// multiplier": a sole holder claims (with 10^k shares that drains the saver exactly), and a
	// non-holder delegates to a validator in that state
	// bias towards generations: a validator with rewards history is wound down (every holder
	// undelegates the value of all their shares; the last one takes the whole delegation, which
	// brings the supply to exactly 0), and the next generation is opened by another account
	for vv := range d.Cells {
		c := d.Cells[vv]
		hasM := false
		for dn := range denomNames {
			hasM = hasM || c.M[dn].C.Sign() > 0
		}
		if !hasM || c.Ent >= rn.maxE-1 {
			continue
		}
		if c.T.Sign() == 0 {
			if r.Chance(1, 2) {
				j := r.Intn(4)
				if j == rn.left[vv] {
					j = (j + 1 + r.Intn(3)) % 4
				}
				rn.do(op{Kind: kDelegate, U: j, V: vv, Amt: rn.amount()}, "gen:open-generation")
				return
			}
			continue
		}
		var hs []int
		for i := 0; i < nUsers; i++ {
			if c.Sh[i].Sign() > 0 {
				hs = append(hs, i)
			}
		}
		if len(hs) > 0 && len(hs) <= 2 && c.B != nil && r.Chance(1, 6) {
			u0 := hs[r.Intn(len(hs))]
			amt := value(c, u0)
			if len(hs) == 1 {
				amt = new(big.Int).Set(c.B) // the last holder takes everything
			}
			if amt.Sign() > 0 {
				rn.do(op{Kind: kUndelegate, U: u0, V: vv, Amt: amt, Rcp: -3}, "gen:wind-down")
				return
			}
		}
	}
	for vv := range d.Cells {
		c := d.Cells[vv]
		holders, last := 0, -1
		for i := 0; i < 4; i++ {
			if c.Sh[i].Sign() > 0 {
				holders++
				last = i
			}
		}
		drained := false
		for dn := range denomNames {
			if c.M[dn].C.Sign() > 0 && c.S[dn].Sign() == 0 {
				drained = true
			}
		}
		if drained && r.Chance(1, 3) {
			j := r.Intn(4)
			if c.Sh[j].Sign() == 0 {
				rn.st.Count("join-at-drained-saver")
				rn.do(op{Kind: kDelegate, U: j, V: vv, Amt: bi(1_000_000)}, "gen:join-drained")
				return
			}
		}
		if holders == 1 && !drained && c.S[0].Sign() > 0 && r.Chance(1, 4) {
			rn.do(op{Kind: kClaim, U: last, V: vv}, "gen:sole-claim")
			return
		}
	}
	switch x := r.Intn(100); {
	case x < 28: // delegate
		rn.do(op{Kind: kDelegate, U: u, V: v, Amt: rn.amount()}, "gen")
	case x < 50: // undelegate by a holder
		holders := []int{}
		for i := 0; i < 4; i++ {
			if d.Cells[v].Sh[i].Sign() > 0 {
				holders = append(holders, i)
			}
		}
		if len(holders) == 0 {
			rn.do(op{Kind: kDelegate, U: u, V: v, Amt: rn.amount()}, "gen")
			return
		}
		u = holders[r.Intn(len(holders))]
		val := value(d.Cells[v], u)
		var amt *big.Int
		// the module's delegation can be absent although shares exist if the implementation is
		// broken: never assume it
		pool := big.NewInt(0)
		if d.Cells[v].B != nil {
			pool = d.Cells[v].B
		}
		switch r.Intn(11) {
		case 0:
			amt = new(big.Int).Set(val)
		case 1:
			amt = new(big.Int).Add(val, bi(1))
		case 2:
			amt = bi(1)
		case 3: // the whole pooled delegation, or just above it
			amt = new(big.Int).Add(pool, bi(int64(r.Intn(3))))
		case 4:
			amt = new(big.Int).Quo(val, bi(2))
		case 8: // twice the sender's value
			amt = new(big.Int).Mul(val, bi(2))
		case 9: // the value plus a little dust
			amt = new(big.Int).Add(val, bi(int64(2+r.Intn(4))))
		case 10: // more than the value, less than the pool
			amt = new(big.Int).Add(val, r.Big(new(big.Int).Add(new(big.Int).Sub(pool, val), bi(1))))
		default:
			amt = r.Big(new(big.Int).Add(val, bi(1)))
		}
		if amt.Sign() == 0 {
			amt = bi(1)
		}
		rcp := -3
		if r.Chance(1, 3) {
			rcp = r.Intn(nUsers)
		}
		rn.do(op{Kind: kUndelegate, U: u, V: v, Amt: amt, Rcp: rcp}, "gen")
	case x < 68:
		rn.do(op{Kind: kClaim, U: u, V: v}, "gen")
	case x < 90: // block, mostly with fees; sub-second offsets
		dt := time.Duration(300_000_000 + r.Int63n(5*secondN))
		var f sdk.Coins
		if r.Chance(3, 4) {
			f = rn.fees()
		}
		// when a completion is near, land around it
		if len(d.Queue) > 0 {
			first := d.Queue[0].Time
			gap := first - h.Time.UnixNano()
			if gap > 0 && gap < 20*secondN && r.Chance(1, 2) {
				frac := first % secondN
				switch r.Intn(4) {
				case 0:
					if frac > 1 && first-frac+1 > h.Time.UnixNano() {
						dt = time.Duration(first - frac + r.Int63n(frac) - h.Time.UnixNano())
					}
				case 1:
					dt = time.Duration(gap)
				case 2:
					dt = time.Duration(gap + 1)
				default:
					if gap > 1 {
						dt = time.Duration(gap - 1)
					}
				}
				if dt <= 0 {
					dt = time.Duration(gap)
				}
			}
		}
		rn.do(op{Kind: kBlock, Dt: dt, Fees: f}, "gen")
	case x < 93:
		amt := bi(int64(1 + r.Intn(5)))
		if r.Chance(1, 2) {
			amt = rn.amount()
		}
		rn.do(op{Kind: kSend, U: u, U2: (u + 1 + r.Intn(3)) % nUsers, V: v, Amt: amt}, "gen:send")
	default: // malformed
		switch r.Intn(8) {
		case 0:
			rn.do(op{Kind: kDelegate, U: u, V: v, Amt: rn.amount(), Dn: 2}, "gen:malformed")
		case 1:
			rn.do(op{Kind: kUndelegate, U: u, V: v, Amt: rn.amount(), Dn: 2, Rcp: -3}, "gen:malformed")
		case 2:
			rn.do(op{Kind: kDelegate, U: u, V: v, Amt: bi(0)}, "gen:malformed")
		case 3:
			rn.do(op{Kind: kDelegate, U: u, V: v, Amt: bi(-1 - int64(r.Intn(5)))}, "gen:malformed")
		case 4:
			rn.do(op{Kind: kUndelegate, U: u, V: v, Amt: bi(int64(-r.Intn(3))), Rcp: -3}, "gen:malformed")
		case 5:
			k := []int{kClaim, kDelegate, kUndelegate}[r.Intn(3)]
			rn.do(op{Kind: k, U: u, V: -1, Amt: rn.amount(), Rcp: -3}, "gen:malformed")
		case 6:
			rn.do(op{Kind: kUndelegate, U: u, V: v, Amt: bi(1 + int64(r.Intn(3))), Rcp: -1}, "gen:malformed")
		default: // a non-holder undelegating a tiny amount, or a share of the pooled delegation
			amt := bi(1 + int64(r.Intn(2)))
			if d.Cells[v].B != nil && r.Chance(1, 2) {
				amt = r.Big(new(big.Int).Add(d.Cells[v].B, bi(1)))
				if amt.Sign() == 0 {
					amt = bi(1)
				}
			}
			rn.do(op{Kind: kUndelegate, U: funder, V: v, Amt: amt, Rcp: -3}, "gen:nonholder")
		}
	}
}

func (rn *runner) bigNum() *big.Int {
	r := rn.r
	switch r.Intn(8) {
	case 0:
		return bi(int64(r.Intn(4)))
	case 1:
		return r.LogUniform(40)
	case 2:
		return r.LogUniform(70)
	default:
		return r.LogUniform(20)
	}
}

func optInt(x sdkmath.Int, err error) string {
	if err != nil {
		return emit.None()
	}
	return emit.Some(emit.Z(x.BigInt()))
}

// genPure: the exported arithmetic of x/shareclass/types on generated integers.
func (rn *runner) genPure() {
	r := rn.r
	a, b, c := rn.bigNum(), rn.bigNum(), rn.bigNum()
	if r.Chance(1, 4) {
		b = new(big.Int).Set(a) // equal totals: the exact-ratio corner
	}
	ia, ib, ic := sdkmath.NewIntFromBigInt(a), sdkmath.NewIntFromBigInt(b), sdkmath.NewIntFromBigInt(c)
	var term, kind string
	switch r.Intn(4) {
	case 0:
		kind = "share"
		term = fmt.Sprintf("PShare %s %s %s %s", emit.Z(a), emit.Z(b), emit.Z(c), optInt(sctypes.CalculateShareByAmount(ia, ib, ic)))
	case 1:
		kind = "amount"
		term = fmt.Sprintf("PAmount %s %s %s %s", emit.Z(a), emit.Z(b), emit.Z(c), optInt(sctypes.CalculateAmountByShare(ia, ib, ic)))
	case 2:
		kind = "reward"
		// multiplier = last + quotient of two integers, as the module builds it
		last, _ := sdkmath.NewDecFromString(r.LogUniform(12).String())
		q, err := sdkmath.NewDecFromString(a.String())
		if err != nil {
			panic(err)
		}
		den := b
		if den.Sign() == 0 {
			den = bi(7)
		}
		dd, _ := sdkmath.NewDecFromString(den.String())
		q, err = q.Quo(dd)
		if err != nil {
			panic(err)
		}
		m, err := last.Add(q)
		if err != nil {
			panic(err)
		}
		term = fmt.Sprintf("PReward %s %s %s %s", parseDec(m.String()).coq(), parseDec(last.String()).coq(), emit.Z(c),
			optInt(sctypes.CalculateReward(m, last, ic)))
	default:
		kind = "mult"
		old, _ := sdkmath.NewDecFromString(r.LogUniform(9).String())
		od, _ := sdkmath.NewDecFromString(r.LogUniform(30).String())
		old, _ = old.Quo(od)
		res, err := sctypes.CalculateRewardMultiplierNew(old, ia, ib)
		out := emit.None()
		if err == nil {
			out = emit.Some(parseDec(res.String()).coq())
		}
		term = fmt.Sprintf("PMult %s %s %s %s", parseDec(old.String()).coq(), emit.Z(a), emit.Z(b), out)
	}
	rn.cf.Add("CPure (" + term + ")")
	rn.st.Count("pure:" + kind)
	rn.st.Evaluations++
	rn.st.Info(map[string]any{"pure": term})
}

// allocate gives validator v pending distribution rewards, funded by the funder account.
func (rn *runner) allocate(v int, cs sdk.Coins) {
	if cs.IsZero() {
		return
	}
	h := rn.w.h
	ctx := h.Ctx()
	if err := h.App.BankKeeper.SendCoinsFromAccountToModule(ctx, h.Accts[funder].Addr, "distribution", cs); err != nil {
		panic(err)
	}
	val, err := h.App.StakingKeeper.GetValidator(ctx, rn.w.valb[v])
	if err != nil {
		panic(err)
	}
	if err := h.App.DistrKeeper.AllocateTokensToValidator(ctx, val, sdk.NewDecCoinsFromCoins(cs...)); err != nil {
		panic(err)
	}
	rn.st.Count("pending-rewards-before-message")
}
