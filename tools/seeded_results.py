#!/usr/bin/env python3
"""Write seeded/<id>/meta.json and seeded/RESULTS.md from the table below (filled in by the main
session after confirming each change and running the property's check against it)."""
import json, os
ROOT = os.path.dirname(os.path.dirname(os.path.abspath(__file__)))
CONFIRM = "confirmed in the scratch worktree /tmp/mut/<id> (tools/confirm_mutant.sh): `go build ./...` ok; existing tests of the touched packages pass with the change (demo skipped; the authoring sub-agent also ran `go test ./x/... ./app/...`); the demonstration fails with the change and passes after `git checkout` of the changed source file"
RUN = "tools/try_mutant.sh <id>: rebase the worktree onto /repo HEAD, then `VERIF_REPO=/tmp/mut/<id> VERIF_HARNESS_CMD=dev_<id> ./check <id> --tier quick` (same effect as `git -C /repo apply patch.diff`; a worktree was used so that builders running against /repo were not disturbed)"
R = {
 "C01": ("caught", "quick seed 1: monitor_fail=2 (FinalizeBlock panics 'division by zero' in the liquidity-incentive BeginBlocker once an epoch's gauges all count zero) -> VIOLATION impl-violation", ""),
 "C02": ("caught", "quick seed 1: corr_mismatch=2 monitor_fail=27 -> VIOLATION impl-violation", ""),
 "C03": ("caught", "quick seed 1: corr_mismatch=13 monitor_fail=13 -> VIOLATION impl-violation", ""),
 "C04": ("caught after strengthening", "first run: 232 cases, exit 0 (no generated swap ended exactly on an initialised tick with nothing remaining); after adding 'swap-to-tick' operations (amounts from the keeper's own ComputeMaxInAmtGivenMaxTicksCrossed, +-1) to harness/amm/gen.go: corr_mismatch=6 monitor_fail=41 (bookkeeping invariant false on the implementation's post-state) -> VIOLATION impl-violation", "harness/amm/gen.go swap-to-tick"),
 "C05": ("caught", "quick seed 1: corr_mismatch=27 monitor_fail=6 (output above the exact curve) -> VIOLATION impl-violation", ""),
 "C06": ("caught", "quick seed 1: corr_mismatch=28 monitor_fail=85 -> VIOLATION impl-violation", ""),
 "C07": ("caught", "quick seed 1: corr_mismatch=1 monitor_fail=1 -> VIOLATION impl-violation", ""),
 "C08": ("caught after strengthening", "first run: 702 cases, exit 0 (no rejected item with >= 6 challengers); after the RejectShares corpus (k = 1..9 challengers, collateral remainders 0,1,k/2,k/2+1,k-1) in harness/dacommon/gen.go: corr_mismatch=7 monitor_fail=15 -> VIOLATION impl-violation", "harness/dacommon/gen.go RejectShares + pile-on"),
 "C09": ("caught", "quick seed 1: corr_mismatch=17 monitor_fail=20 -> VIOLATION impl-violation", ""),
 "C10": ("caught after strengthening", "first run: 420 cases, exit 0 (the reward saver never held exactly zero of a denom while the multiplier was positive); after the corpusZeroSaver histories and the gen:sole-claim / gen:join-drained bias in harness/c10: corr_mismatch=2 monitor_fail=265 (saver no longer covers pending claims, paid above entitlement, a claim fails) -> VIOLATION impl-violation", "harness/c10 corpusZeroSaver + generator bias"),
 "C11": ("caught after strengthening", "first run: 363 histories, exit 0 (one channel pair only, so two legs never had equal sequences on different channels); after a second loop-back channel pair with aligned send sequences in harness/c11: corr_mismatch=33 monitor_fail=99 -> VIOLATION impl-violation", "harness/c11 second channel pair, aligned sequences"),
 "C12": ("caught", "quick seed 1: corr_mismatch=5, no monitor failure; the violation search (seed 102) found a monitor failure -> VIOLATION impl-violation", ""),
 "C13": ("caught after strengthening", "first run: exit 0 (the transfer-ban clause was not exercised at all); after the ban scenarios of harness/c13/ban.go (plain/multi sends, share token, pool deposits, swaps in/out, fee claims, withdrawals) and monitor 7: monitor_fail=2 (a liquidity provider gains uvrise through fee claims) -> VIOLATION impl-violation", "harness/c13/ban.go + Econ/C13Check.v mon_ban"),
 "C14": ("caught", "quick seed 1: the coverage theorem over the regenerated site list no longer holds (proof obligations broken, theorems=0) and 149 monitor failures (processes diverge on balances/fault counters) -> VIOLATION impl-violation", ""),
 "C15": ("caught", "quick seed 1: corr_mismatch=6 monitor_fail=1 (observed panic) -> VIOLATION impl-violation", ""),
 "C16": ("caught", "quick seed 1: corr_mismatch=240 monitor_fail=720 -> VIOLATION impl-violation", ""),
  "C17": ("caught", "quick seed 1: the real BeginBlock panics ('negative coin amount') inside the harness's own FinalizeBlock; first reported as VIOLATION ... no-failing-input-found (harness abort = broken correspondence); the orchestrator now reports an implementation panic/failed block during the generated history as impl-violation with the seed as replay", "check: harness abort by an implementation panic is an impl-violation"),
 "C18": ("caught", "quick seed 1: corr_mismatch=21, no monitor failure; the violation search (seed 101) found a monitor failure (admitted below the minimum gas price) -> VIOLATION impl-violation", ""),
 "C19": ("caught", "quick seed 1: corr_mismatch=3 monitor_fail=6 -> VIOLATION impl-violation", ""),
 "C20": ("caught after strengthening", "first run: 344 cases, exit 0 (configurations with colliding digit strings never followed each other in one process); after the call-sequence families of harness/c20/seq.go: corr_mismatch=49 monitor_fail=48 -> VIOLATION impl-violation", "harness/c20/seq.go"),
}
rows = []
for pid, r in sorted(R.items()):
    d = os.path.join(ROOT, "seeded", pid)
    if not os.path.isdir(d):
        continue
    agent = json.load(open(os.path.join(d, "meta.agent.json")))
    meta = {"property": pid, "summary": agent.get("summary"), "breaks": agent.get("breaks"), "needs": agent.get("needs"),
            "authoring_agent_ran": agent.get("ran"), "confirmed_by_main_session": CONFIRM.replace("<id>", pid),
            "check_run": RUN.replace("<id>", pid).replace("dev_" + pid, "dev_" + pid.lower())}
    if r:
        meta["detection"], meta["detail"], meta["strengthened"] = r
    else:
        meta["detection"], meta["detail"], meta["strengthened"] = "pending", "", ""
    json.dump(meta, open(os.path.join(d, "meta.json"), "w"), indent=1)
    rows.append((pid, meta["detection"], (agent.get("summary") or "")[:160].replace("\n", " "), meta["detail"]))
with open(os.path.join(ROOT, "seeded", "RESULTS.md"), "w") as f:
    f.write("# Seeded changes and what the checks did with them\n\nEach change was written by a fresh sub-agent that saw only the property text and a scratch worktree of /repo.\n\n| Property | Result | Change | Check outcome |\n|---|---|---|---|\n")
    for pid, det, summ, detail in rows:
        f.write(f"| {pid} | {det} | {summ} | {detail} |\n")
print(len(rows), "written")
