(* C05: whole bucket steps (keeper_swap_helper.go ComputeSwapWithinBucketOutGivenIn / InGivenOut) on
   the quote side, composed from the arithmetic lemmas of StepBounds.v: what one step of the swap
   loop pays out / asks for, compared with exact concentrated-liquidity arithmetic at the same
   liquidity and start price. Raw decimals throughout (value x 10^18, P = 10^18, HALF = P/2).

   Exact curve, real numbers l = liq/P, s = sp/P, x = amount/P:
     base in  x : price falls to  s' = l s / (l + x s),  quote paid out   l (s - s') = l x s^2 / (l + x s)
     base out x : price rises to  s' = l s / (l - x s),  quote to pay in  l (s' - s) = l x s^2 / (l - x s)
   In raw integers (multiply through by P^3):  out * P * (liq P + x sp) <= liq x sp^2   etc. *)
From Coq Require Import ZArith Bool Lia ZifyBool.
From Sunrise Require Import Base.Outcome Base.Dec Base.DecLemmas Amm.Math Amm.StepBounds.
Local Open Scope Z_scope.
Ltac Zify.zify_post_hook ::= Z.div_mod_to_equations.

(* what a step computes as "remaining after the fee": half-even, within half an ulp *)
Lemma after_fee_bracket rem om af : dmul rem om = Some af -> 2 * Z.abs (af * P - rem * om) <= P.
Proof.
  intros H. apply dmul_some in H. subst af.
  pose proof (chop_round_bracket (rem * om)). unfold P, HALF in *. lia.
Qed.

(* algebra shared by the two base-amount directions *)
Lemma exact_out_alg liq sp af n out :
  0 <= liq -> 0 <= sp -> 0 <= af -> n <= sp ->
  liq * sp * P <= n * (liq * P + af * sp) ->
  out * P <= (sp - n) * liq + HALF ->
  (out * P - HALF) * (liq * P + af * sp) <= liq * (af * sp * sp).
Proof.
  intros Hl Hs Ha Hn Hp Ho.
  set (D := liq * P + af * sp) in *.
  assert (HD : 0 <= D) by (unfold D, P; nia).
  assert (H1 : (sp - n) * D <= af * sp * sp) by (unfold D in *; nia).
  assert (H2 : (out * P - HALF) * D <= (sp - n) * liq * D) by nia.
  assert (H3 : (sp - n) * liq * D <= liq * (af * sp * sp)).
  { replace ((sp - n) * liq * D) with (liq * ((sp - n) * D)) by ring.
    apply Z.mul_le_mono_nonneg_l; lia. }
  lia.
Qed.

Lemma exact_in_alg liq sp amt n r :
  0 <= liq -> 0 <= sp -> 0 <= amt -> amt * sp < liq * P ->
  liq * sp * P <= n * (liq * P - amt * sp) ->
  Z.abs (n - sp) * liq - HALF <= r * P ->
  liq * (amt * sp * sp) <= (r * P + HALF) * (liq * P - amt * sp).
Proof.
  intros Hl Hs Ha Hdef Hp Hr.
  set (D := liq * P - amt * sp) in *.
  assert (HD : 0 < D) by (unfold D; lia).
  assert (H1 : amt * sp * sp <= (n - sp) * D) by (unfold D in *; nia).
  assert (Hn : sp <= n) by nia.
  rewrite Z.abs_eq in Hr by lia.
  assert (H2 : liq * (amt * sp * sp) <= liq * ((n - sp) * D)) by (apply Z.mul_le_mono_nonneg_l; lia).
  assert (H3 : (n - sp) * liq * D <= (r * P + HALF) * D) by (apply Z.mul_le_mono_nonneg_r; lia).
  replace (liq * ((n - sp) * D)) with ((n - sp) * liq * D) in H2 by ring. lia.
Qed.

(* ---- base in, quote out (baseForQuote), exact input ---- *)

(* the step never moves the price up, and what it pays out is the half-even rounding of
   liquidity x price move: at most half an ulp (5e-19 of one unit) above it *)
Theorem b4q_out_given_in_direction fee sp target liq rem next ain aout fc :
  0 < sp -> 0 < liq -> 0 <= rem -> 0 <= fee < P -> target <= sp ->
  b4q_out_given_in fee sp target liq rem = Some (next, ain, aout, fc) ->
  next <= sp /\ aout * P <= (sp - next) * liq + HALF.
Proof.
  intros Hs Hl Hr Hf Ht H. unfold b4q_out_given_in in H.
  destruct (calc_amount_base_delta liq target sp true) as [a0|] eqn:E0; cbn [obind] in H; [|discriminate].
  destruct (dsub P fee) as [om|] eqn:Eo; cbn [obind] in H; [|discriminate].
  destruct (dmul rem om) as [af|] eqn:Ea; cbn [obind] in H; [|discriminate].
  apply dsub_some in Eo. subst om.
  assert (Haf : 0 <= af) by (apply (dmul_nonneg rem (P - fee)); [lia|lia|exact Ea]).
  destruct (if a0 <=? af then Some target else next_sqrt_from_base_in_up sp liq af) as [nx|] eqn:En;
    cbn [obind] in H; [|discriminate].
  assert (Hnx : nx <= sp).
  { destruct (a0 <=? af); [injection En as <-; lia|].
    destruct (next_base_in_up_ge _ _ _ _ Haf Hs Hl En) as [_ Hle]. exact Hle. }
  match type of H with obind ?x _ = _ => destruct x as [ai|] end;
    cbn [obind] in H; [|discriminate].
  destruct (calc_amount_quote_delta liq nx sp false) as [ao|] eqn:Eq; cbn [obind] in H; [|discriminate].
  destruct (fee_charge_out_given_in (target =? nx) ai rem fee) as [f|]; cbn [obind] in H; [|discriminate].
  injection H as <- <- <- <-. split; [exact Hnx|].
  pose proof (quote_delta_half_ulp _ _ _ _ Eq) as Hq.
  rewrite (Z.abs_eq (sp - nx)) in Hq by lia. unfold P, HALF in *. lia.
Qed.

(* a step that stops inside the bucket (target not reached) spends [af] = remaining x (1 - fee)
   (half-even) on the curve and pays out at most the exact curve's output for [af] plus half an ulp *)
Theorem b4q_out_given_in_le_exact fee sp target liq rem next ain aout fc :
  0 < sp -> 0 < liq -> 0 <= rem -> 0 <= fee < P -> target <= sp ->
  b4q_out_given_in fee sp target liq rem = Some (next, ain, aout, fc) ->
  next <> target ->
  exists af, dmul rem (P - fee) = Some af /\ 0 <= af /\ 2 * Z.abs (af * P - rem * (P - fee)) <= P /\
    (aout * P - HALF) * (liq * P + af * sp) <= liq * (af * sp * sp).
Proof.
  intros Hs Hl Hr Hf Ht H Hne.
  destruct (b4q_out_given_in_direction _ _ _ _ _ _ _ _ _ Hs Hl Hr Hf Ht H) as [Hle Hout].
  unfold b4q_out_given_in in H.
  destruct (calc_amount_base_delta liq target sp true) as [a0|] eqn:E0; cbn [obind] in H; [|discriminate].
  destruct (dsub P fee) as [om|] eqn:Eo; cbn [obind] in H; [|discriminate].
  destruct (dmul rem om) as [af|] eqn:Ea; cbn [obind] in H; [|discriminate].
  apply dsub_some in Eo. subst om.
  assert (Haf : 0 <= af) by (apply (dmul_nonneg rem (P - fee)); [lia|lia|exact Ea]).
  destruct (if a0 <=? af then Some target else next_sqrt_from_base_in_up sp liq af) as [nx|] eqn:En;
    cbn [obind] in H; [|discriminate].
  match type of H with obind ?x _ = _ => destruct x as [ai|] end;
    cbn [obind] in H; [|discriminate].
  destruct (calc_amount_quote_delta liq nx sp false) as [ao|]; cbn [obind] in H; [|discriminate].
  destruct (fee_charge_out_given_in (target =? nx) ai rem fee) as [f|]; cbn [obind] in H; [|discriminate].
  injection H as <- <- <- <-.
  exists af. split; [exact Ea|]. split; [exact Haf|]. split; [exact (after_fee_bracket _ _ _ Ea)|].
  destruct (a0 <=? af); [injection En as En; congruence|].
  destruct (next_base_in_up_ge _ _ _ _ Haf Hs Hl En) as [Hp _].
  apply (exact_out_alg liq sp af nx ao); lia.
Qed.

(* ---- quote in, base out (quoteForBase), exact input: price direction and bound of the move ---- *)
Theorem q4b_out_given_in_direction fee sp target liq rem next ain aout fc :
  0 < liq -> 0 <= rem -> 0 <= fee < P -> sp <= target ->
  q4b_out_given_in fee sp target liq rem = Some (next, ain, aout, fc) ->
  sp <= next /\
  (next <> target -> exists af, dmul rem (P - fee) = Some af /\ 2 * Z.abs (af * P - rem * (P - fee)) <= P /\
                                (next - sp) * liq <= af * P).
Proof.
  intros Hl Hr Hf Ht H. unfold q4b_out_given_in in H.
  destruct (calc_amount_quote_delta liq target sp true) as [a0|] eqn:E0; cbn [obind] in H; [|discriminate].
  destruct (dsub P fee) as [om|] eqn:Eo; cbn [obind] in H; [|discriminate].
  destruct (dmul rem om) as [af|] eqn:Ea; cbn [obind] in H; [|discriminate].
  apply dsub_some in Eo. subst om.
  assert (Haf : 0 <= af) by (apply (dmul_nonneg rem (P - fee)); [lia|lia|exact Ea]).
  destruct (if a0 <=? af then Some target else next_sqrt_from_quote_in_down sp liq af) as [nx|] eqn:En;
    cbn [obind] in H; [|discriminate].
  match type of H with obind ?x _ = _ => destruct x as [ai|] end;
    cbn [obind] in H; [|discriminate].
  destruct (calc_amount_base_delta liq nx sp false) as [ao|]; cbn [obind] in H; [|discriminate].
  destruct (fee_charge_out_given_in (target =? nx) ai rem fee) as [f|]; cbn [obind] in H; [|discriminate].
  injection H as <- <- <- <-.
  destruct (a0 <=? af).
  - injection En as <-. split; [lia|]. intros Hne. congruence.
  - destruct (next_quote_in_down_le _ _ _ _ Haf Hl En) as [H1 H2]. split; [exact H1|].
    intros _. exists af. split; [exact Ea|]. split; [exact (after_fee_bracket _ _ _ Ea)|exact H2].
Qed.

(* ---- quote in, base out, exact OUTPUT: the quote asked for is at least the exact curve's input
   for the base that is left to deliver, minus half an ulp, and is a whole number of units ---- *)
Theorem q4b_in_given_out_ge_exact fee sp target liq rem next out ain fc :
  0 < sp -> 0 < liq -> 0 <= rem -> rem * sp < liq * P ->
  q4b_in_given_out fee sp target liq rem = Some (next, out, ain, fc) ->
  next <> target ->
  out <= rem /\ ain mod P = 0 /\
  liq * (rem * sp * sp) <= (ain * P + HALF) * (liq * P - rem * sp).
Proof.
  intros Hs Hl Hr Hdef H Hne. unfold q4b_in_given_out in H.
  destruct (calc_amount_base_delta liq target sp false) as [o0|] eqn:E0; cbn [obind] in H; [|discriminate].
  destruct (if o0 <=? rem then Some target else next_sqrt_from_base_out_up sp liq rem) as [nx|] eqn:En;
    cbn [obind] in H; [|discriminate].
  destruct (if target =? nx then Some o0 else calc_amount_base_delta liq nx sp false) as [o1|];
    cbn [obind] in H; [|discriminate].
  destruct (calc_amount_quote_delta liq nx sp true) as [ai|] eqn:Eq; cbn [obind] in H; [|discriminate].
  destruct (fee_over_one_minus_fee fee) as [f|]; cbn [obind] in H; [|discriminate].
  destruct (fee_charge_from_in ai f) as [c|]; cbn [obind] in H; [|discriminate].
  injection H as <- <- <- <-.
  split; [destruct (rem <? o1) eqn:E; lia|].
  destruct (o0 <=? rem); [injection En as En; congruence|].
  pose proof (next_base_out_up_ge _ _ _ _ Hr Hs Hl Hdef En) as Hp.
  destruct (quote_delta_roundup _ _ _ _ (Z.lt_le_incl _ _ Hl) Eq) as [B1 [B2 _]].
  split; [exact B2|].
  apply (exact_in_alg liq sp rem nx ai); lia.
Qed.

(* ---- base in, quote out, exact OUTPUT: the price falls at least as far as the exact curve needs
   to deliver the quote that is left, and what is delivered is never more than what is left ---- *)
Theorem b4q_in_given_out_direction fee sp target liq rem next out ain fc :
  0 < liq -> 0 <= rem -> target <= sp ->
  b4q_in_given_out fee sp target liq rem = Some (next, out, ain, fc) ->
  next <= sp /\ out <= rem /\ (next <> target -> rem * P <= (sp - next) * liq < rem * P + liq).
Proof.
  intros Hl Hr Ht H. unfold b4q_in_given_out in H.
  destruct (calc_amount_quote_delta liq target sp false) as [o0|] eqn:E0; cbn [obind] in H; [|discriminate].
  destruct (if o0 <=? rem then Some target else next_sqrt_from_quote_out_down sp liq rem) as [nx|] eqn:En;
    cbn [obind] in H; [|discriminate].
  destruct (if target =? nx then Some o0 else calc_amount_quote_delta liq nx sp false) as [o1|];
    cbn [obind] in H; [|discriminate].
  destruct (calc_amount_base_delta liq nx sp true) as [ai|]; cbn [obind] in H; [|discriminate].
  destruct (fee_over_one_minus_fee fee) as [f|]; cbn [obind] in H; [|discriminate].
  destruct (fee_charge_from_in ai f) as [c|]; cbn [obind] in H; [|discriminate].
  injection H as <- <- <- <-.
  assert (Ho : (if rem <? o1 then rem else o1) <= rem) by (destruct (rem <? o1) eqn:E; lia).
  destruct (o0 <=? rem).
  - injection En as <-. split; [lia|]. split; [exact Ho|]. intros Hne. congruence.
  - destruct (next_quote_out_down_ge _ _ _ _ Hr Hl En) as [H1 H2].
    split; [exact H1|]. split; [exact Ho|]. intros _. exact H2.
Qed.

(* non-vacuity: concrete steps of each kind that stop inside the bucket *)
Example step_whole_nonvacuous :
  (exists n a o f, b4q_out_given_in 3000000000000000 P (P / 2) (12345678 * P) (1001 * P) = Some (n, a, o, f) /\ n <> P / 2 /\ 0 < o) /\
  (exists n a o f, q4b_out_given_in 3000000000000000 P (2 * P) (12345678 * P) (1001 * P) = Some (n, a, o, f) /\ n <> 2 * P /\ 0 < o) /\
  (exists n a o f, q4b_in_given_out 3000000000000000 P (2 * P) (12345678 * P) (1001 * P) = Some (n, a, o, f) /\ n <> 2 * P /\ 0 < o) /\
  (exists n a o f, b4q_in_given_out 3000000000000000 P (P / 2) (12345678 * P) (1001 * P) = Some (n, a, o, f) /\ n <> P / 2 /\ 0 < o).
Proof.
  split; [|split; [|split]];
    (do 4 eexists; split; [vm_compute; reflexivity|]; split; [vm_compute; discriminate|vm_compute; reflexivity]).
Qed.
