(* Correspondence and monitors for the AMM properties C02, C04, C05, C06. *)
From Coq Require Import ZArith List Bool.
Import ListNotations.
From Sunrise Require Export Base.Outcome Base.Dec Base.Check Amm.Math Amm.Pool.
Local Open Scope Z_scope.

Record amm_case := { c_pre : amm; c_op : op; c_res : res (list Z); c_post : amm; c_must_ok : bool }.

Definition tp_eqb (a b : tick_params) := (price_ratio a =? price_ratio b) && (base_offset a =? base_offset b).
Definition pool_eqb (a b : pool) :=
  (p_fee a =? p_fee b) && tp_eqb (p_tp a) (p_tp b) && (p_tick a =? p_tick b) &&
  (p_liq a =? p_liq b) && (p_sqrt a =? p_sqrt b).
Definition pos_eqb (a b : position) :=
  (pos_id a =? pos_id b) && (pos_owner a =? pos_owner b) && (pos_lower a =? pos_lower b) &&
  (pos_upper a =? pos_upper b) && (pos_liq a =? pos_liq b).
Definition tick_eqb (a b : tick) :=
  (t_index a =? t_index b) && (t_gross a =? t_gross b) && (t_net a =? t_net b) && zlist_eqb (t_growth a) (t_growth b).
Definition ap_eqb (a b : accum_pos) :=
  (ap_id a =? ap_id b) && (ap_shares a =? ap_shares b) && zlist_eqb (ap_value a) (ap_value b) &&
  zlist_eqb (ap_unclaimed a) (ap_unclaimed b).
Fixpoint list_eqb {A} (f : A -> A -> bool) (a b : list A) : bool :=
  match a, b with
  | [], [] => true
  | x :: a', y :: b' => f x y && list_eqb f a' b'
  | _, _ => false
  end.
Definition amm_eqb (a b : amm) : bool :=
  pool_eqb (a_pool a) (a_pool b) && list_eqb pos_eqb (a_positions a) (a_positions b) &&
  list_eqb tick_eqb (a_ticks a) (a_ticks b) && zlist_eqb (a_acc_value a) (a_acc_value b) &&
  (a_acc_shares a =? a_acc_shares b) && list_eqb ap_eqb (a_acc_pos a) (a_acc_pos b) &&
  (a_next_id a =? a_next_id b) && zlist_eqb (a_bal_pool a) (a_bal_pool b) &&
  zlist_eqb (a_bal_fee a) (a_bal_fee b) && zlist_eqb (a_bal_user a) (a_bal_user b).

(* which component differs (debug aid, printed in replays): 1 pool 2 positions 3 ticks 4 accvalue
   5 shares 6 accpos 7 nextid 8 balpool 9 balfee 10 baluser *)
Definition amm_diff (a b : amm) : list Z :=
  flag 1 (pool_eqb (a_pool a) (a_pool b)) ++ flag 2 (list_eqb pos_eqb (a_positions a) (a_positions b)) ++
  flag 3 (list_eqb tick_eqb (a_ticks a) (a_ticks b)) ++ flag 4 (zlist_eqb (a_acc_value a) (a_acc_value b)) ++
  flag 5 (a_acc_shares a =? a_acc_shares b) ++ flag 6 (list_eqb ap_eqb (a_acc_pos a) (a_acc_pos b)) ++
  flag 7 (a_next_id a =? a_next_id b) ++ flag 8 (zlist_eqb (a_bal_pool a) (a_bal_pool b)) ++
  flag 9 (zlist_eqb (a_bal_fee a) (a_bal_fee b)) ++ flag 10 (zlist_eqb (a_bal_user a) (a_bal_user b)).

(* outcomes are compared by class: values for Ok, any error class for Err *)
Definition res_eqb (a b : res (list Z)) : bool :=
  match a, b with
  | Ok x, Ok y => zlist_eqb x y
  | Err _, Err _ => true
  | Panic, Panic => true
  | _, _ => false
  end.

(* the model ran out of fuel (a price->tick search longer than SEARCH_FUEL, PowApprox longer than
   POW_FUEL): it cannot decide the case; such cases are skipped and counted (code 150), never
   reported as a disagreement *)
Definition undecided (c : amm_case) : bool :=
  match snd (step (c_pre c) (c_op c)) with Err e => e =? E_FUEL | _ => false end.
Definition corr (c : amm_case) : bool :=
  let '(s', r) := step (c_pre c) (c_op c) in
  match r with
  | Err e => if e =? E_FUEL then true else res_eqb r (c_res c) && amm_eqb s' (c_post c)
  | _ => res_eqb r (c_res c) && amm_eqb s' (c_post c)
  end.

(* debug view of a mismatch *)
Definition corr_debug (c : amm_case) :=
  let '(s', r) := step (c_pre c) (c_op c) in (r, amm_diff s' (c_post c)).

(* correspondence only (used while the per-property monitors are defined in their own files) *)
Definition run_corr := run_cases (fun c => flag 0 (corr c)).
