package c03

import (
	"context"
	"fmt"
	"reflect"
	"unsafe"

	errorsmod "cosmossdk.io/errors"
	sdkmath "cosmossdk.io/math"
	sdk "github.com/cosmos/cosmos-sdk/types"

	lpkeeper "github.com/sunriselayer/sunrise/x/liquiditypool/keeper"
	lptypes "github.com/sunriselayer/sunrise/x/liquiditypool/types"
	swapkeeper "github.com/sunriselayer/sunrise/x/swap/keeper"
	swaptypes "github.com/sunriselayer/sunrise/x/swap/types"

	"verifharness/apph"
)

// denoms used by the pools; the Coq side sees them as small integers
var denoms = []string{"urise", "uusdc", "uatom", "uosmo"}

func denomCode(d string) int64 {
	for i, x := range denoms {
		if x == d {
			return int64(i + 1)
		}
	}
	return 99
}

// errClass maps an error to the integer class compared with the model:
// sdk codespace -> code, swap -> code (1100..), liquiditypool -> 20000+code,
// any other registered error -> 40000+code, unregistered -> 99999, panic -> -1.
func errClass(err error) int64 {
	if err == nil {
		return 0
	}
	if len(err.Error()) >= 6 && err.Error()[:6] == "panic:" {
		return -1
	}
	cs, code, _ := errorsmod.ABCIInfo(err, false)
	switch cs {
	case "sdk":
		return int64(code)
	case swaptypes.ModuleName:
		return int64(code)
	case lptypes.ModuleName:
		return 20000 + int64(code)
	case "undefined":
		return 99999
	}
	return 40000 + int64(code)
}

type poolSpec struct {
	base, quote string
	fee         string
	ratio       string
	offset      string
}

type world struct {
	h     *apph.H
	lpSrv lptypes.MsgServer
	pools []lptypes.Pool // as created (id, denoms)
}

func (w *world) createPool(ps poolSpec) (uint64, error) {
	var id uint64
	err := apph.Tx(w.h.Ctx(), func(ctx sdk.Context) error {
		r, e := w.lpSrv.CreatePool(ctx, &lptypes.MsgCreatePool{
			Authority: w.h.Accts[0].Addr.String(), DenomBase: ps.base, DenomQuote: ps.quote,
			FeeRate: ps.fee, PriceRatio: ps.ratio, BaseOffset: ps.offset,
		})
		if e == nil {
			id = r.Id
		}
		return e
	})
	return id, err
}

func (w *world) createPosition(owner sdk.AccAddress, pool uint64, lower, upper int64, base, quote sdk.Coin) (*lptypes.MsgCreatePositionResponse, error) {
	var resp *lptypes.MsgCreatePositionResponse
	err := apph.Tx(w.h.Ctx(), func(ctx sdk.Context) error {
		r, e := w.lpSrv.CreatePosition(ctx, &lptypes.MsgCreatePosition{
			Sender: owner.String(), PoolId: pool, LowerTick: lower, UpperTick: upper,
			TokenBase: base, TokenQuote: quote, MinAmountBase: sdkmath.ZeroInt(), MinAmountQuote: sdkmath.ZeroInt(),
		})
		resp = r
		return e
	})
	return resp, err
}

func newWorld(h *apph.H) *world {
	return &world{h: h, lpSrv: lpkeeper.NewMsgServerImpl(h.App.LiquiditypoolKeeper)}
}

// ---------------------------------------------------------------- recorder

// hopRec is one call of the swap keeper into the liquidity-pool keeper, as observed.
type hopRec struct {
	Kind     string // "QI" "QO" (Calculate*) or "XI" "XO" (Swap*)
	Pool     uint64
	DenomIn  string
	DenomOut string
	Amount   sdkmath.Int // the exact amount handed to the pool
	Result   sdkmath.Int // value returned (valid when Err == 0)
	Err      int64
	// for executions: what the sender's balances did around the call
	Debit, Credit sdkmath.Int
}

// recorder wraps the real liquidity-pool keeper; every call goes through unchanged.
type recorder struct {
	real   swaptypes.LiquidityPoolKeeper
	h      *apph.H
	calls  []hopRec
	gets   map[uint64]bool // GetPool results (found?)
	sender sdk.AccAddress
}

func (r *recorder) GetPool(ctx context.Context, id uint64) (lptypes.Pool, bool, error) {
	p, f, e := r.real.GetPool(ctx, id)
	if e == nil {
		r.gets[id] = f
	}
	return p, f, e
}

func (r *recorder) CalculateResultExactAmountIn(ctx sdk.Context, pool lptypes.Pool, tokenIn sdk.Coin, denomOut string, feeEnabled bool) (sdkmath.Int, error) {
	out, err := r.real.CalculateResultExactAmountIn(ctx, pool, tokenIn, denomOut, feeEnabled)
	r.calls = append(r.calls, hopRec{Kind: "QI", Pool: pool.Id, DenomIn: tokenIn.Denom, DenomOut: denomOut, Amount: tokenIn.Amount, Result: out, Err: errClass(err)})
	return out, err
}

func (r *recorder) CalculateResultExactAmountOut(ctx sdk.Context, pool lptypes.Pool, tokenOut sdk.Coin, denomIn string, feeEnabled bool) (sdkmath.Int, error) {
	in, err := r.real.CalculateResultExactAmountOut(ctx, pool, tokenOut, denomIn, feeEnabled)
	r.calls = append(r.calls, hopRec{Kind: "QO", Pool: pool.Id, DenomIn: denomIn, DenomOut: tokenOut.Denom, Amount: tokenOut.Amount, Result: in, Err: errClass(err)})
	return in, err
}

func (r *recorder) SwapExactAmountIn(ctx sdk.Context, sender sdk.AccAddress, pool lptypes.Pool, tokenIn sdk.Coin, denomOut string, feeEnabled bool) (sdkmath.Int, error) {
	bi, bo := r.h.Bal(ctx, sender, tokenIn.Denom), r.h.Bal(ctx, sender, denomOut)
	out, err := r.real.SwapExactAmountIn(ctx, sender, pool, tokenIn, denomOut, feeEnabled)
	ai, ao := r.h.Bal(ctx, sender, tokenIn.Denom), r.h.Bal(ctx, sender, denomOut)
	r.calls = append(r.calls, hopRec{Kind: "XI", Pool: pool.Id, DenomIn: tokenIn.Denom, DenomOut: denomOut, Amount: tokenIn.Amount, Result: out, Err: errClass(err),
		Debit: bi.Sub(ai), Credit: ao.Sub(bo)})
	return out, err
}

func (r *recorder) SwapExactAmountOut(ctx sdk.Context, sender sdk.AccAddress, pool lptypes.Pool, tokenOut sdk.Coin, denomIn string, feeEnabled bool) (sdkmath.Int, error) {
	bi, bo := r.h.Bal(ctx, sender, denomIn), r.h.Bal(ctx, sender, tokenOut.Denom)
	in, err := r.real.SwapExactAmountOut(ctx, sender, pool, tokenOut, denomIn, feeEnabled)
	ai, ao := r.h.Bal(ctx, sender, denomIn), r.h.Bal(ctx, sender, tokenOut.Denom)
	r.calls = append(r.calls, hopRec{Kind: "XO", Pool: pool.Id, DenomIn: denomIn, DenomOut: tokenOut.Denom, Amount: tokenOut.Amount, Result: in, Err: errClass(err),
		Debit: bi.Sub(ai), Credit: ao.Sub(bo)})
	return in, err
}

// recordingKeeper returns a copy of the application's swap keeper whose private
// liquidityPoolKeeper field is replaced by a recorder around the real one. No other
// behaviour changes: the recorder forwards every call. (reflect+unsafe instead of a hook in
// /repo; if the field is renamed this fails loudly and the correspondence is reported broken.)
func recordingKeeper(h *apph.H) (swapkeeper.Keeper, *recorder) {
	k := h.App.SwapKeeper // copy
	v := reflect.ValueOf(&k).Elem().FieldByName("liquidityPoolKeeper")
	if !v.IsValid() {
		panic("x/swap keeper: field liquidityPoolKeeper not found")
	}
	fv := reflect.NewAt(v.Type(), unsafe.Pointer(v.UnsafeAddr())).Elem()
	real, ok := fv.Interface().(swaptypes.LiquidityPoolKeeper)
	if !ok || real == nil {
		panic(fmt.Sprintf("x/swap keeper: liquidityPoolKeeper has unexpected type %v", v.Type()))
	}
	rec := &recorder{real: real, h: h, gets: map[uint64]bool{}}
	fv.Set(reflect.ValueOf(swaptypes.LiquidityPoolKeeper(rec)))
	return k, rec
}

func (r *recorder) reset() {
	r.calls = nil
	r.gets = map[uint64]bool{}
}
