(* Ledger model of the SDK bank keeper as used by the custom modules: balances per
   (address, denom), supply per denom. Addresses and denoms are integers chosen by the
   harness. SendCoins fails with no change on insufficient funds; Mint/Burn adjust supply.
   This is the oracle contract for x/bank stated in DESIGN.md section 6. *)
From Coq Require Import ZArith Bool.
From Sunrise Require Import Base.Outcome.
Local Open Scope Z_scope.

Record bank := { bal : Z -> Z -> Z; sup : Z -> Z }.

Definition E_INSUFFICIENT : Z := 5.   (* sdkerrors.ErrInsufficientFunds *)
Definition E_INVALID_COINS : Z := 10.

Definition upd2 (f : Z -> Z -> Z) (a d v : Z) : Z -> Z -> Z :=
  fun a' d' => if (a' =? a) && (d' =? d) then v else f a' d'.
Definition upd1 (f : Z -> Z) (d v : Z) : Z -> Z :=
  fun d' => if d' =? d then v else f d'.

Definition bank_sub (b : bank) (a d amt : Z) : res bank :=
  if amt <? 0 then Err E_INVALID_COINS
  else if bal b a d <? amt then Err E_INSUFFICIENT
  else Ok {| bal := upd2 (bal b) a d (bal b a d - amt); sup := sup b |}.
Definition bank_add (b : bank) (a d amt : Z) : bank :=
  {| bal := upd2 (bal b) a d (bal b a d + amt); sup := sup b |}.

Definition bank_send (b : bank) (from to d amt : Z) : res bank :=
  rbind (bank_sub b from d amt) (fun b1 => Ok (bank_add b1 to d amt)).

Definition bank_mint (b : bank) (modacc d amt : Z) : bank :=
  {| bal := upd2 (bal b) modacc d (bal b modacc d + amt); sup := upd1 (sup b) d (sup b d + amt) |}.

Definition bank_burn (b : bank) (modacc d amt : Z) : res bank :=
  rbind (bank_sub b modacc d amt)
        (fun b1 => Ok {| bal := bal b1; sup := upd1 (sup b1) d (sup b1 d - amt) |}).

(* A message is a transaction: an error or a panic discards every write. *)
Definition tx {S R} (f : S -> res (S * R)) (s : S) : S * res R :=
  match f s with
  | Ok (s', r) => (s', Ok r)
  | Err e => (s, Err e)
  | Panic => (s, Panic)
  end.
