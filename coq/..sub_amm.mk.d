Amm/Pool.vo Amm/Pool.glob Amm/Pool.v.beautified Amm/Pool.required_vo: Amm/Pool.v Base/Outcome.vo Base/Dec.vo Amm/Math.vo
Amm/Pool.vio: Amm/Pool.v Base/Outcome.vio Base/Dec.vio Amm/Math.vio
Amm/Pool.vos Amm/Pool.vok Amm/Pool.required_vos: Amm/Pool.v Base/Outcome.vos Base/Dec.vos Amm/Math.vos
Amm/AmmCheck.vo Amm/AmmCheck.glob Amm/AmmCheck.v.beautified Amm/AmmCheck.required_vo: Amm/AmmCheck.v Base/Outcome.vo Base/Dec.vo Base/Check.vo Amm/Math.vo Amm/Pool.vo
Amm/AmmCheck.vio: Amm/AmmCheck.v Base/Outcome.vio Base/Dec.vio Base/Check.vio Amm/Math.vio Amm/Pool.vio
Amm/AmmCheck.vos Amm/AmmCheck.vok Amm/AmmCheck.required_vos: Amm/AmmCheck.v Base/Outcome.vos Base/Dec.vos Base/Check.vos Amm/Math.vos Amm/Pool.vos
Amm/LiqDefs.vo Amm/LiqDefs.glob Amm/LiqDefs.v.beautified Amm/LiqDefs.required_vo: Amm/LiqDefs.v Base/Outcome.vo Base/Dec.vo Amm/Math.vo Amm/Pool.vo
Amm/LiqDefs.vio: Amm/LiqDefs.v Base/Outcome.vio Base/Dec.vio Amm/Math.vio Amm/Pool.vio
Amm/LiqDefs.vos Amm/LiqDefs.vok Amm/LiqDefs.required_vos: Amm/LiqDefs.v Base/Outcome.vos Base/Dec.vos Amm/Math.vos Amm/Pool.vos
Amm/LiqLists.vo Amm/LiqLists.glob Amm/LiqLists.v.beautified Amm/LiqLists.required_vo: Amm/LiqLists.v Base/Outcome.vo Base/Dec.vo Amm/Math.vo Amm/Pool.vo Amm/LiqDefs.vo
Amm/LiqLists.vio: Amm/LiqLists.v Base/Outcome.vio Base/Dec.vio Amm/Math.vio Amm/Pool.vio Amm/LiqDefs.vio
Amm/LiqLists.vos Amm/LiqLists.vok Amm/LiqLists.required_vos: Amm/LiqLists.v Base/Outcome.vos Base/Dec.vos Amm/Math.vos Amm/Pool.vos Amm/LiqDefs.vos
Amm/LiqInv.vo Amm/LiqInv.glob Amm/LiqInv.v.beautified Amm/LiqInv.required_vo: Amm/LiqInv.v Base/Outcome.vo Base/Dec.vo Base/DecLemmas.vo Amm/Math.vo Amm/Pool.vo Amm/LiqDefs.vo Amm/LiqLists.vo
Amm/LiqInv.vio: Amm/LiqInv.v Base/Outcome.vio Base/Dec.vio Base/DecLemmas.vio Amm/Math.vio Amm/Pool.vio Amm/LiqDefs.vio Amm/LiqLists.vio
Amm/LiqInv.vos Amm/LiqInv.vok Amm/LiqInv.required_vos: Amm/LiqInv.v Base/Outcome.vos Base/Dec.vos Base/DecLemmas.vos Amm/Math.vos Amm/Pool.vos Amm/LiqDefs.vos Amm/LiqLists.vos
Amm/LiqSwap.vo Amm/LiqSwap.glob Amm/LiqSwap.v.beautified Amm/LiqSwap.required_vo: Amm/LiqSwap.v Base/Outcome.vo Base/Dec.vo Base/DecLemmas.vo Amm/Math.vo Amm/Pool.vo Amm/LiqDefs.vo Amm/LiqLists.vo Amm/LiqInv.vo
Amm/LiqSwap.vio: Amm/LiqSwap.v Base/Outcome.vio Base/Dec.vio Base/DecLemmas.vio Amm/Math.vio Amm/Pool.vio Amm/LiqDefs.vio Amm/LiqLists.vio Amm/LiqInv.vio
Amm/LiqSwap.vos Amm/LiqSwap.vok Amm/LiqSwap.required_vos: Amm/LiqSwap.v Base/Outcome.vos Base/Dec.vos Base/DecLemmas.vos Amm/Math.vos Amm/Pool.vos Amm/LiqDefs.vos Amm/LiqLists.vos Amm/LiqInv.vos
Amm/LiqMonitor.vo Amm/LiqMonitor.glob Amm/LiqMonitor.v.beautified Amm/LiqMonitor.required_vo: Amm/LiqMonitor.v Base/Outcome.vo Base/Dec.vo Amm/Math.vo Amm/Pool.vo Amm/LiqDefs.vo Amm/LiqLists.vo Amm/LiqInv.vo Amm/LiqSwap.vo
Amm/LiqMonitor.vio: Amm/LiqMonitor.v Base/Outcome.vio Base/Dec.vio Amm/Math.vio Amm/Pool.vio Amm/LiqDefs.vio Amm/LiqLists.vio Amm/LiqInv.vio Amm/LiqSwap.vio
Amm/LiqMonitor.vos Amm/LiqMonitor.vok Amm/LiqMonitor.required_vos: Amm/LiqMonitor.v Base/Outcome.vos Base/Dec.vos Amm/Math.vos Amm/Pool.vos Amm/LiqDefs.vos Amm/LiqLists.vos Amm/LiqInv.vos Amm/LiqSwap.vos
Amm/C04Check.vo Amm/C04Check.glob Amm/C04Check.v.beautified Amm/C04Check.required_vo: Amm/C04Check.v Amm/AmmCheck.vo Amm/LiqDefs.vo
Amm/C04Check.vio: Amm/C04Check.v Amm/AmmCheck.vio Amm/LiqDefs.vio
Amm/C04Check.vos Amm/C04Check.vok Amm/C04Check.required_vos: Amm/C04Check.v Amm/AmmCheck.vos Amm/LiqDefs.vos
Amm/Exact.vo Amm/Exact.glob Amm/Exact.v.beautified Amm/Exact.required_vo: Amm/Exact.v Base/Outcome.vo Base/Dec.vo Amm/Math.vo Amm/Pool.vo
Amm/Exact.vio: Amm/Exact.v Base/Outcome.vio Base/Dec.vio Amm/Math.vio Amm/Pool.vio
Amm/Exact.vos Amm/Exact.vok Amm/Exact.required_vos: Amm/Exact.v Base/Outcome.vos Base/Dec.vos Amm/Math.vos Amm/Pool.vos
Amm/StepBounds.vo Amm/StepBounds.glob Amm/StepBounds.v.beautified Amm/StepBounds.required_vo: Amm/StepBounds.v Base/Outcome.vo Base/Dec.vo Base/DecLemmas.vo Amm/Math.vo
Amm/StepBounds.vio: Amm/StepBounds.v Base/Outcome.vio Base/Dec.vio Base/DecLemmas.vio Amm/Math.vio
Amm/StepBounds.vos Amm/StepBounds.vok Amm/StepBounds.required_vos: Amm/StepBounds.v Base/Outcome.vos Base/Dec.vos Base/DecLemmas.vos Amm/Math.vos
Amm/C05Check.vo Amm/C05Check.glob Amm/C05Check.v.beautified Amm/C05Check.required_vo: Amm/C05Check.v Amm/AmmCheck.vo Amm/Exact.vo
Amm/C05Check.vio: Amm/C05Check.v Amm/AmmCheck.vio Amm/Exact.vio
Amm/C05Check.vos Amm/C05Check.vok Amm/C05Check.required_vos: Amm/C05Check.v Amm/AmmCheck.vos Amm/Exact.vos
Props/C04.vo Props/C04.glob Props/C04.v.beautified Props/C04.required_vo: Props/C04.v Base/Outcome.vo Base/Dec.vo Amm/Math.vo Amm/Pool.vo Amm/LiqDefs.vo Amm/LiqInv.vo Amm/LiqSwap.vo Amm/LiqMonitor.vo
Props/C04.vio: Props/C04.v Base/Outcome.vio Base/Dec.vio Amm/Math.vio Amm/Pool.vio Amm/LiqDefs.vio Amm/LiqInv.vio Amm/LiqSwap.vio Amm/LiqMonitor.vio
Props/C04.vos Props/C04.vok Props/C04.required_vos: Props/C04.v Base/Outcome.vos Base/Dec.vos Amm/Math.vos Amm/Pool.vos Amm/LiqDefs.vos Amm/LiqInv.vos Amm/LiqSwap.vos Amm/LiqMonitor.vos
Props/C05.vo Props/C05.glob Props/C05.v.beautified Props/C05.required_vo: Props/C05.v Base/Outcome.vo Base/Dec.vo Base/DecLemmas.vo Amm/Math.vo Amm/StepBounds.vo
Props/C05.vio: Props/C05.v Base/Outcome.vio Base/Dec.vio Base/DecLemmas.vio Amm/Math.vio Amm/StepBounds.vio
Props/C05.vos Props/C05.vok Props/C05.required_vos: Props/C05.v Base/Outcome.vos Base/Dec.vos Base/DecLemmas.vos Amm/Math.vos Amm/StepBounds.vos
