(* C01, unmetered loops of message handlers: iteration-counting / guarded variants of the loops
   modelled in Amm/Math.v, Amm/Pool.v and Base/Dec.v (those files are not edited).

     x/liquiditypool/types/tick.go   CalculateMultipliedPriceToTick  -> search_up_g / search_down_g
         [guard = true]: /repo HEAD (commit 2177391 "stop the price->tick search when a step makes no
         progress": a step that does not move the price ends the search with ErrPriceOutOfBound)
         = Math.search_up / Math.search_down (LoopsProofs.search_up_g_true);
         [guard = false]: the loop as found at the pinned commit.
     x/liquiditypool/keeper/msg_server_create_pool.go + types/pool_params.go -> pool_params_ok
         (notes/patches/C01-create-pool-validation.patch)
     keeper_position.go initFirstPositionForPool  -> first_position_search (the search the first
         MsgCreatePosition of a pool runs)
     keeper_swap.go swap loop                      -> swap_iters (classification of the iterations of
         Pool.swap_loop: crossing / zero-progress / other)
     math LegacyDec.Power, ApproxRoot, types.PowApprox -> power_iters, root_iters, pow_approx_iters

   No proofs here. *)
From Coq Require Import ZArith Bool List.
Import ListNotations.
From Sunrise Require Import Base.Outcome Base.Dec Amm.Math Amm.Pool.
Local Open Scope Z_scope.
Local Open Scope res_scope.

(* ------------------------------------------------------------------ the price -> tick search *)

Fixpoint search_up_g (guard : bool) (fuel : nat) (mp offset ratio tick : Z) : res Z :=
  if mp <=? offset then Ok tick else
  match fuel with
  | O => Err E_FUEL
  | S f =>
      let! mp' := of_opt (dquo mp ratio) in
      if guard && negb (mp' <? mp) then Err E_PRICE_OUT_OF_BOUND
      else search_up_g guard f mp' offset ratio (tick + 1)
  end.

Fixpoint search_down_g (guard : bool) (fuel : nat) (mp offset ratio tick : Z) : res Z :=
  if offset <=? mp then Ok tick else
  match fuel with
  | O => Err E_FUEL
  | S f =>
      let! mp' := of_opt (dmul mp ratio) in
      if guard && negb (mp <? mp') then Err E_PRICE_OUT_OF_BOUND
      else search_down_g guard f mp' offset ratio (tick - 1)
  end.

(* CalculateMultipliedPriceToTick with explicit fuel *)
Definition multiplied_price_to_tick_g (guard : bool) (fuel : nat) (mp : Z) (tp : tick_params) : res Z :=
  if mp <? 0 then Err E_NEG_PRICE else
  if (MAX_MULT_SPOT <? mp) || (mp <? MIN_MULT_SPOT) then Err E_PRICE_OUT_OF_BOUND else
  let! pw := lift_pow (pow (price_ratio tp) (base_offset tp)) in
  let! offset := of_opt (dmul MULT pw) in
  if mp =? offset then Ok 0
  else if offset <? mp then search_up_g guard fuel mp offset (price_ratio tp) 0
  else search_down_g guard fuel mp offset (price_ratio tp) 0.

(* ---- closed-form iteration bounds (proved in LoopsProofs.v) ----
   d = ratio - 10^18 > 0.  steps_to_double = ceil(10^18 / d): after that many steps the distance
   to the fixed point of the rounded map has halved (up) / doubled (down). *)
Definition steps_to_double (d : Z) : Z := (P + d - 1) / d.
(* searching upwards from mp0 (> offset): potential 2*d*mp - ratio *)
Definition search_up_bound (ratio mp0 : Z) : Z :=
  let d := ratio - P in steps_to_double d * Z.log2 (2 * d * mp0 - ratio).
(* searching downwards towards offset: potential 2*d*mp - 10^18 *)
Definition search_down_bound (ratio offset : Z) : Z :=
  let d := ratio - P in steps_to_double d * Z.log2_up (2 * d * offset - P).
(* a lower bound on the number of iterations of the upward search (the price falls by at most
   mp0*d/ratio + 1 per step) *)
Definition search_up_lower (ratio mp0 offset : Z) : Z :=
  let d := ratio - P in ((mp0 - offset) * ratio) / (mp0 * d + ratio) - 1.

(* ---- MsgCreatePool parameter validation (types/pool_params.go, after the repair) ---- *)
Definition MIN_PRICE_RATIO : Z := 1000100000000000000.     (* 1.0001 *)
Definition MAX_PRICE_RATIO : Z := 1500000000000000000.     (* 1.5: |ratio - 1| <= 1/2, PowApprox converges *)
(* [pool_params_ok_lower]: the validation of commit 117698b (no upper bound on the ratio) *)
Definition pool_params_ok_lower (fee ratio offs : Z) : bool :=
  (0 <=? fee) && (fee <? P) && (MIN_PRICE_RATIO <=? ratio) && (Z.abs offs <? P).
Definition pool_params_ok (fee ratio offs : Z) : bool :=
  pool_params_ok_lower fee ratio offs && (ratio <=? MAX_PRICE_RATIO).

(* ---- what the check evaluates for one search: does it return, and after how many steps? ---- *)
Inductive verdict := Returns (n : Z) | Hangs | Unknown.
Definition LIMIT : Z := 10000000.     (* 10^7 iterations: DESIGN.md section 3 *)

(* run at most [cap] iterations; inl n = ended (tick / error / panic) after n iterations,
   inr (mp, stalled) = still running with price mp; stalled = the step is a fixed point *)
Fixpoint run_up (guard : bool) (cap : nat) (n mp offset ratio : Z) : Z + (Z * bool) :=
  if mp <=? offset then inl n else
  match cap with
  | O => inr (mp, false)
  | S c =>
      match dquo mp ratio with
      | None => inl (n + 1)
      | Some mp' =>
          if guard && negb (mp' <? mp) then inl (n + 1)
          else if mp' =? mp then inr (mp, true)
          else run_up guard c (n + 1) mp' offset ratio
      end
  end.
Fixpoint run_down (guard : bool) (cap : nat) (n mp offset ratio : Z) : Z + (Z * bool) :=
  if offset <=? mp then inl n else
  match cap with
  | O => inr (mp, false)
  | S c =>
      match dmul mp ratio with
      | None => inl (n + 1)
      | Some mp' =>
          if guard && negb (mp <? mp') then inl (n + 1)
          else if mp' =? mp then inr (mp, true)
          else run_down guard c (n + 1) mp' offset ratio
      end
  end.

Definition up_verdict (guard : bool) (cap : nat) (mp offset ratio : Z) : verdict :=
  let d := ratio - P in
  match run_up guard cap 0 mp offset ratio with
  | inl n => Returns n
  | inr (mp', stalled) =>
      if stalled then Hangs
      else if (1 <=? d) && (0 <=? offset) && (ratio <=? 2 * d * offset) && (search_up_bound ratio mp <? LIMIT)
      then Returns (search_up_bound ratio mp)
      else if (1 <=? d) && (0 <=? offset) && (2 * ratio <=? offset * d) && (0 <=? mp') && (mp' <=? DEC_LIM)
              && (LIMIT <=? search_up_lower ratio mp' offset)
      then Hangs
      else Unknown
  end.
Definition down_verdict (guard : bool) (cap : nat) (mp offset ratio : Z) : verdict :=
  let d := ratio - P in
  match run_down guard cap 0 mp offset ratio with
  | inl n => Returns n
  | inr (mp', stalled) =>
      if stalled then Hangs
      else if (negb guard) && (0 <? ratio) && (ratio <=? P) && (0 <=? mp') && (mp' <=? DEC_LIM) then Hangs
      else if (1 <=? d) && (P <? 2 * d * mp) && (0 <=? mp) && (search_down_bound ratio offset <? LIMIT)
      then Returns (search_down_bound ratio offset)
      else Unknown
  end.

(* the search run by the first MsgCreatePosition of a pool: initial sqrt price from the two
   amounts, multiplied price, then CalculateMultipliedPriceToTick. [None] = the handler fails (or
   panics inside the transaction) before the search starts. *)
Definition first_position_search (quote base : Z) (tp : tick_params) : option (bool * Z * Z) :=
  match sqrt_price_from_quote_base quote base with
  | Ok sp =>
      match dmul MULT sp with
      | Some m1 =>
          match dmul m1 sp with
          | Some mp =>
              if (mp <? 0) || (MAX_MULT_SPOT <? mp) || (mp <? MIN_MULT_SPOT) then None else
              match pow (price_ratio tp) (base_offset tp) with
              | Some (Some pw) =>
                  match dmul MULT pw with
                  | Some offset => if mp =? offset then None else Some (offset <? mp, mp, offset)
                  | None => None
                  end
              | _ => None
              end
          | None => None
          end
      | None => None
      end
  | _ => None
  end.

(* Pow(ratio, offset) is evaluated by every price <-> tick conversion; [None] = the model's
   PowApprox ran out of its 4000 units of fuel (the series does not converge in reasonable time) *)
Definition pow_converges (tp : tick_params) : bool :=
  match pow (price_ratio tp) (base_offset tp) with None => false | Some _ => true end.

Definition first_position_verdict (guard : bool) (cap : nat) (quote base : Z) (tp : tick_params) : verdict :=
  if negb (pow_converges tp) then Unknown else
  match first_position_search quote base tp with
  | None => Returns 0
  | Some (true, mp, offset) => up_verdict guard cap mp offset (price_ratio tp)
  | Some (false, mp, offset) => down_verdict guard cap mp offset (price_ratio tp)
  end.

Definition hangs (v : verdict) : bool :=
  match v with Hangs => true | Returns n => LIMIT <=? n | Unknown => false end.

(* ------------------------------------------------------------------ swap loop (keeper_swap.go) *)
(* Pool.swap_loop with its passes counted and classified: c = passes that cross an initialised
   tick (consume an element of the iterator), z = zero-progress passes (swapNoProgressLimit
   counts them), o = the others.  Same text as Pool.swap_loop plus the three counters;
   LoopsProofs.swap_loop_c_erase proves the first component equal to Pool.swap_loop. *)
Record counts := { n_cross : Z; n_zero : Z; n_other : Z }.
Definition passes (k : counts) : Z := n_cross k + n_zero k + n_other k.

Fixpoint swap_loop_c (fuel : nat) (exact_in b4q update_acc : bool) (fee limit : Z) (tp : tick_params)
         (acc_value : vec) (denom_in : Z) (iter : list tick) (st : swap_state) (k : counts)
  : res swap_state * counts :=
  if negb ((0 <? ss_remaining st) && negb (ss_sqrt st =? limit)) then (Ok st, k) else
  match fuel with
  | O => (Err E_FUEL, k)
  | S f =>
    match iter with
    | [] => (Err E_RAN_OUT_OF_TICKS, k)
    | nt :: iter' =>
      let next_tick := t_index nt in
      match (match tick_to_sqrt_price next_tick tp with
             | Ok v => Ok v | Panic => Panic
             | Err e => if e =? E_FUEL then Err E_FUEL else Err E_GENERIC end) with
      | Err e => (Err e, k) | Panic => (Panic, k)
      | Ok next_sp =>
      let target := sqrt_target b4q limit next_sp in
      let start := ss_sqrt st in
      match of_opt ((if exact_in then step_out_given_in b4q else step_in_given_out b4q)
                  fee (ss_sqrt st) target (ss_liq st) (ss_remaining st)) with
      | Err e => (Err e, k) | Panic => (Panic, k)
      | Ok (computed, spec_used, other, fee_charge) =>
      let amt_in := if exact_in then spec_used else other in
      let amt_out := if exact_in then other else spec_used in
      let zero_progress := if exact_in then amt_in =? 0 else amt_out =? 0 in
      let crossing := next_sp =? computed in
      let k1 := {| n_cross := if crossing then n_cross k + 1 else n_cross k;
                   n_zero := if negb crossing && zero_progress then n_zero k + 1 else n_zero k;
                   n_other := if crossing || zero_progress then n_other k else n_other k + 1 |} in
      if (computed =? start) && negb ((amt_in =? 0) && (amt_out =? 0)) then (Err E_NO_SQRT_AFTER_SWAP, k1) else
      match (if update_acc then
           let! fees' := of_opt (dadd (ss_fees st) fee_charge) in
           if ss_liq st =? 0 then Ok (ss_growth st, fees') else
           let! per := of_opt (dquoT fee_charge (ss_liq st)) in
           let! g := of_opt (dadd (ss_growth st) per) in Ok (g, fees')
         else Ok (ss_growth st, ss_fees st)) with
      | Err e => (Err e, k1) | Panic => (Panic, k1)
      | Ok (growth, fees) =>
      match of_opt (dadd amt_in fee_charge) with
      | Err e => (Err e, k1) | Panic => (Panic, k1)
      | Ok in_fee =>
      match of_opt (if exact_in then dsub (ss_remaining st) in_fee else dsub (ss_remaining st) amt_out) with
      | Err e => (Err e, k1) | Panic => (Panic, k1)
      | Ok remaining =>
      match of_opt (if exact_in then dadd (ss_calculated st) amt_out else dadd (ss_calculated st) in_fee) with
      | Err e => (Err e, k1) | Panic => (Panic, k1)
      | Ok calculated =>
      match (if next_sp =? computed then
           let cur := match find_tick (ss_ticks st) next_tick with Some t => t | None => nt end in
           let! ticks2 :=
             (if update_acc then
                let! g1 := of_opt (vadd acc_value (vsingle denom_in growth)) in
                let! g2 := of_opt (vsub g1 (t_growth cur)) in
                Ok (put_tick (ss_ticks st) {| t_index := next_tick; t_gross := t_gross cur; t_net := t_net cur; t_growth := g2 |})
              else Ok (ss_ticks st)) in
           let net := if b4q then - t_net cur else t_net cur in
           let! l := of_opt (dadd (ss_liq st) net) in
           Ok ((if b4q then next_tick - 1 else next_tick), l, ticks2, iter')
         else if (if b4q then computed <? next_sp else next_sp <? computed) then Err E_INVALID_COMPUTED
         else if negb (start =? computed) then
           let! nt' := sqrt_price_to_tick computed tp in Ok (nt', ss_liq st, ss_ticks st, iter)
         else Ok (ss_tick st, ss_liq st, ss_ticks st, iter)) with
      | Err e => (Err e, k1) | Panic => (Panic, k1)
      | Ok (tick', liq', ticks', iter2) =>
      if zero_progress && (100 <=? ss_noprog st) then (Err E_RAN_OUT_OF_ITER, k1) else
      swap_loop_c f exact_in b4q update_acc fee limit tp acc_value denom_in iter2
        {| ss_remaining := remaining; ss_calculated := calculated; ss_sqrt := computed; ss_tick := tick';
           ss_liq := liq'; ss_growth := growth; ss_fees := fees; ss_ticks := ticks';
           ss_noprog := if zero_progress then ss_noprog st + 1 else ss_noprog st |} k1
      end end end end end end end
    end
  end.

(* ------------------------------------------------------------------ Power / ApproxRoot / PowApprox *)
(* number of passes of the square-and-multiply loop of LegacyDec.Power *)
Fixpoint power_iters (fuel : nat) (i : Z) : Z :=
  if i <=? 1 then 0 else
  match fuel with
  | O => 0
  | S f => 1 + power_iters f (i / 2)
  end.

(* PowApprox: the loop with its iteration count; outer None = out of fuel, inner None = panic *)
Fixpoint pow_approx_iters (fuel : nat) (i : Z) (exponent x : Z) (term : Z) : option Z :=
  if term <? POW_PRECISION then Some 0 else
  match fuel with
  | O => None
  | S f =>
    match abs_diff_sign exponent ((i - 1) * P) with
    | None => Some 1
    | Some (c, _) =>
      match (let? t1 := dmul term c in let? t2 := dmul t1 x in dquo t2 (i * P)) with
      | None => Some 1
      | Some term' =>
        if term' =? 0 then Some 1 else
        match pow_approx_iters f (i + 1) exponent x term' with
        | Some n => Some (1 + n)
        | None => None
        end
      end
    end
  end.
