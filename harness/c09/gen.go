package c09

import (
	"fmt"
	"time"

	sdkmath "cosmossdk.io/math"
	sdk "github.com/cosmos/cosmos-sdk/types"

	datypes "github.com/sunriselayer/sunrise/x/da/types"

	"verifharness/emit"
)

// ---------------------------------------------------------------- specs of direct-write cases

type proofSpec struct {
	Val     int // index into world.vals
	Indices []int64
}

type itemSpec struct {
	N      int
	Parity uint64
	Due    bool
	Proofs []proofSpec
	Invs   [][]int64 // one invalidity record per account index
	Coll   bool      // carries the default collateral (module is funded accordingly)
}

type setupSpec struct {
	RF, SFT, Fraction string
	Jail              []int // indices into world.vals
	ApplyValUpdates   bool  // run the staking EndBlocker after jailing (bonded -> unbonding)
	MaxVals           uint32
	FC                map[int]uint64 // id -> count
	CC                uint64
	Epoch             bool
	QueryRF           string // replication factor in force when the node served queries before the block ("" = same)
}

func (w *world) setRF(ctx sdk.Context, rf string) {
	params, err := w.h.App.DaKeeper.Params.Get(ctx)
	if err != nil {
		panic(err)
	}
	params.ReplicationFactor = rf
	if err := w.h.App.DaKeeper.Params.Set(ctx, params); err != nil {
		panic(err)
	}
}

func (s setupSpec) info() map[string]any {
	return map[string]any{"replication_factor": s.RF, "slash_fault_threshold": s.SFT, "slash_fraction": s.Fraction,
		"jail": s.Jail, "apply_validator_updates": s.ApplyValUpdates, "max_validators": s.MaxVals, "fault_counters": fmt.Sprint(s.FC),
		"challenge_counter": s.CC, "epoch_block": s.Epoch, "replication_factor_at_query_time": s.QueryRF}
}

// applySetup prepares params, validator set and counters on ctx (a cache context).
func (w *world) applySetup(ctx sdk.Context, s setupSpec) {
	k := w.h.App.DaKeeper
	params, err := k.Params.Get(ctx)
	if err != nil {
		panic(err)
	}
	params.ReplicationFactor = s.RF
	params.SlashFaultThreshold = s.SFT
	params.SlashFraction = s.Fraction
	if s.Epoch {
		params.SlashEpoch = uint64(ctx.BlockHeight())
	} else {
		params.SlashEpoch = uint64(ctx.BlockHeight()) + 1
	}
	if err := k.Params.Set(ctx, params); err != nil {
		panic(err)
	}
	for _, j := range s.Jail {
		if err := w.h.App.StakingKeeper.Jail(ctx, w.vals[j].cons); err != nil {
			panic(fmt.Sprintf("jail v%d: %v", w.vals[j].id, err))
		}
	}
	if s.MaxVals > 0 {
		sp, err := w.h.App.StakingKeeper.Params.Get(ctx)
		if err != nil {
			panic(err)
		}
		sp.MaxValidators = s.MaxVals
		if err := w.h.App.StakingKeeper.Params.Set(ctx, sp); err != nil {
			panic(err)
		}
	}
	if s.ApplyValUpdates || s.MaxVals > 0 {
		if _, err := w.h.App.StakingKeeper.EndBlocker(ctx); err != nil {
			panic(err)
		}
	}
	byID := map[int]vrec{}
	for _, v := range w.all() {
		byID[v.id] = v
	}
	for _, v := range w.all() { // deterministic order
		if c, ok := s.FC[v.id]; ok {
			if err := k.SetFaultCounter(ctx, byID[v.id].op, c); err != nil {
				panic(err)
			}
		}
	}
	if err := k.SetChallengeCounter(ctx, s.CC); err != nil {
		panic(err)
	}
}

func hashes(n int) [][]byte {
	out := make([][]byte, n)
	for i := range out {
		out[i] = []byte("c09-double-hash-0123456789abcdef")
	}
	return out
}

// writeItem stores an item in Challenging status with its proofs and invalidity records
// through the keeper's exported setters.
func (w *world) writeItem(ctx sdk.Context, uri string, it itemSpec, ts time.Time) {
	k := w.h.App.DaKeeper
	params, err := k.Params.Get(ctx)
	if err != nil {
		panic(err)
	}
	d := datypes.PublishedData{MetadataUri: uri, ParityShardCount: it.Parity, ShardDoubleHashes: hashes(it.N), Timestamp: ts,
		Status: datypes.Status_STATUS_CHALLENGING, Publisher: w.h.Accts[0].Addr.String(), PublishedTimestamp: ts,
		PublishDataCollateral: sdk.Coins{}, SubmitInvalidityCollateral: sdk.Coins{}}
	if it.Coll {
		d.PublishDataCollateral = params.PublishDataCollateral
		d.SubmitInvalidityCollateral = params.SubmitInvalidityCollateral
		fund := sdk.NewCoins(params.PublishDataCollateral...)
		for range it.Invs {
			fund = fund.Add(params.SubmitInvalidityCollateral...)
		}
		if err := w.h.App.BankKeeper.SendCoinsFromAccountToModule(ctx, w.h.Accts[0].Addr, datypes.ModuleName, fund); err != nil {
			panic(err)
		}
	}
	if err := k.SetPublishedData(ctx, d); err != nil {
		panic(err)
	}
	for _, p := range it.Proofs {
		if err := k.SetProof(ctx, datypes.Proof{MetadataUri: uri, Sender: sdk.AccAddress(w.vals[p.Val].op).String(), Indices: p.Indices}); err != nil {
			panic(err)
		}
	}
	for a, idx := range it.Invs {
		if err := k.SetInvalidity(ctx, datypes.Invalidity{MetadataUri: uri, Sender: w.h.Accts[a%len(w.h.Accts)].Addr.String(), Indices: idx}); err != nil {
			panic(err)
		}
	}
}

// ---------------------------------------------------------------- generators

var rfChoices = []string{"5", "5", "3", "1.5", "1", "2", "4.5", "0.5", "7.25", "4.500000000000000001", "12", "0.000000000000000001", "2.999999999999999999"}
var sftChoices = []string{"0.5", "0.5", "0", "1", "0.33", "0.25", "0.1", "0.75", "0.000000000000000001"}
var fracChoices = []string{"0.001", "0.01", "0.5", "0"}

func genSetup(r *emit.Rand, w *world) setupSpec {
	s := setupSpec{RF: emit.Pick(r, rfChoices...), SFT: emit.Pick(r, sftChoices...), Fraction: emit.Pick(r, fracChoices...), FC: map[int]uint64{}}
	nv := len(w.vals)
	if nv > 1 && r.Chance(1, 3) {
		nj := 1 + r.Intn(nv-1)
		if r.Chance(1, 30) {
			nj = nv // nobody left: the threshold computation divides by zero
		}
		perm := permOf(r, nv)
		s.Jail = append(s.Jail, perm[:nj]...)
		s.ApplyValUpdates = r.Bool()
	}
	if nv > 2 && r.Chance(1, 4) {
		s.MaxVals = uint32(1 + r.Intn(nv-1))
	}
	for _, v := range w.all() {
		if v.id >= 90 {
			if r.Chance(1, 6) {
				s.FC[v.id] = uint64(1 + r.Intn(5))
			}
			continue
		}
		if r.Chance(1, 2) {
			s.FC[v.id] = uint64(1 + r.Intn(6))
		}
	}
	s.CC = uint64(r.Intn(9))
	s.Epoch = r.Chance(2, 5)
	if r.Chance(2, 3) {
		s.QueryRF = emit.Pick(r, rfChoices...)
	}
	return s
}

func permOf(r *emit.Rand, n int) []int {
	p := make([]int, n)
	for i := range p {
		p[i] = i
	}
	for i := n - 1; i > 0; i-- {
		j := r.Intn(i + 1)
		p[i], p[j] = p[j], p[i]
	}
	return p
}

func genN(r *emit.Rand) int {
	switch r.Intn(10) {
	case 0:
		return 1
	case 1:
		return 2
	case 2:
		return 20 + r.Intn(30)
	case 3:
		if r.Chance(1, 4) {
			return 255
		}
		return 10 + r.Intn(10)
	default:
		return 2 + r.Intn(9)
	}
}

// genProofs draws proof records for one item on ctx (needs the real threshold and assignment).
// flags: "dup" when some record repeats an index, "oor" when some record has an index outside [0,n).
func genProofs(r *emit.Rand, w *world, ctx sdk.Context, n int, allowOOR bool) (ps []proofSpec, dup, oor bool) {
	thr := w.ghostThr(ctx, n) // honest validators follow the protocol rule
	mode := r.Intn(6)         // item-wide tendency
	for vi, v := range w.vals {
		var assigned []int64
		if thr != nil {
			assigned = pureAssign(v.op, int64(*thr), int64(n))
		}
		all := make([]int64, n)
		for i := range all {
			all[i] = int64(i)
		}
		b := r.Intn(8)
		switch mode {
		case 0: // everybody proves everything, a few do not
			if b > 1 {
				b = 2
			}
		case 1: // mostly honest
			if b > 2 {
				b = 1
			}
		case 2: // sparse
			if b > 3 {
				b = 0
			}
		}
		var idx []int64
		switch b {
		case 0:
			continue
		case 1:
			idx = append(idx, assigned...)
		case 2:
			idx = all
		case 3:
			if len(assigned) > 0 {
				skip := r.Intn(len(assigned))
				for i, x := range assigned {
					if i != skip {
						idx = append(idx, x)
					}
				}
			}
		case 4:
			for _, x := range all {
				if r.Bool() {
					idx = append(idx, x)
				}
			}
		case 5:
			base := assigned
			if r.Bool() {
				base = all
			}
			for _, x := range base {
				idx = append(idx, x)
				for r.Chance(1, 3) {
					idx = append(idx, x)
					dup = true
				}
			}
		case 6:
			x := int64(r.Intn(n))
			for i := 0; i < 2+r.Intn(5); i++ {
				idx = append(idx, x)
			}
			dup = true
		case 7:
			idx = append(idx, assigned...)
			if allowOOR && r.Chance(1, 3) {
				idx = append(idx, emit.Pick(r, int64(n), int64(n+3), -1, int64(n)))
				oor = true
			} else if len(idx) > 0 {
				idx = append(idx, idx[0])
				dup = true
			}
		}
		ps = append(ps, proofSpec{Val: vi, Indices: idx})
	}
	return
}

func genItem(r *emit.Rand, w *world, ctx sdk.Context, allowOOR bool) (it itemSpec, dup, oor bool) {
	it.N = genN(r)
	switch r.Intn(6) {
	case 0:
		it.Parity = 0
	case 1:
		it.Parity = uint64(it.N - 1)
	case 2:
		if allowOOR && r.Chance(1, 4) {
			it.Parity = uint64(it.N + r.Intn(3)) // not accepted by MsgPublishData; model faithfulness only
		} else {
			it.Parity = uint64(it.N / 2)
		}
	default:
		it.Parity = uint64(r.Intn(it.N))
	}
	it.Due = !r.Chance(1, 8)
	it.Proofs, dup, oor = genProofs(r, w, ctx, it.N, allowOOR)
	ni := r.Intn(4)
	if r.Chance(1, 6) {
		ni = 0
	}
	for a := 0; a < ni; a++ {
		var idx []int64
		for i := 0; i < 1+r.Intn(3); i++ {
			idx = append(idx, int64(r.Intn(it.N)))
		}
		it.Invs = append(it.Invs, idx)
	}
	it.Coll = !r.Chance(1, 5)
	return
}

func (it itemSpec) info() map[string]any {
	var ps []string
	for _, p := range it.Proofs {
		ps = append(ps, fmt.Sprintf("val#%d:%v", p.Val+1, p.Indices))
	}
	return map[string]any{"shards": it.N, "parity": it.Parity, "due": it.Due, "proofs": ps, "invalidities": it.Invs, "collateral": it.Coll}
}

// blockResult is one executed EndBlocker with its projections.
type blockResult struct {
	Pre   blockPre
	Obs   blockObs
	Term  string
	Info  map[string]any
	Query []queryResult // query cases taken on the same state
}

type queryResult struct {
	Term string
	Info map[string]any
}

// runBlock reads the pre-state, runs the real DA EndBlocker on ctx and reads the post-state.
func (w *world) runBlock(ctx sdk.Context) blockResult {
	pre := w.readPre(ctx)
	panicked, msg, err := w.endBlock(ctx)
	obs := w.readPost(ctx, pre, evtsOfSDK(ctx.EventManager().Events()))
	obs.Panic, obs.PanicMsg = panicked, msg
	if err != nil {
		obs.Err = err.Error()
		obs.Panic = true // EndBlocker errors abort the block like a panic does
		obs.PanicMsg = "error: " + err.Error()
	}
	return blockResult{Pre: pre, Obs: obs, Term: fmt.Sprintf("CBlock %s %s", pre.coq(), obs.coq(pre.IDs)),
		Info: map[string]any{"pre": pre.info(), "observed": obs.info(pre.IDs)}}
}

// directCase: setup + items written through the setters, one EndBlocker, all on a discarded cache context.
func (w *world) directCase(s setupSpec, items []itemSpec) blockResult {
	base := w.h.Ctx()
	cc, _ := base.CacheContext()
	ctx := ctxAt(cc, w.h.Height, w.h.Time)
	w.applySetup(ctx, s)
	w.writeItems(ctx, items, "c09/item")
	// the node serves queries before the block ends: for the shard counts about to be tallied, at
	// the threshold of the moment — which differs from the tally's when the replication factor
	// (QueryRF) or the bonded set changes in between
	var qs []queryResult
	seen := map[int]bool{}
	ns := []int{5}
	for _, it := range items {
		ns = append(ns, it.N)
	}
	for _, n := range ns {
		if seen[n] || n > 255 {
			continue
		}
		seen[n] = true
		if s.QueryRF != "" {
			w.setRF(ctx, s.QueryRF)
			qt, qi := w.queryCase(ctx, n)
			qs = append(qs, queryResult{qt, qi})
			w.setRF(ctx, s.RF)
		}
		qt, qi := w.queryCase(ctx, n)
		qs = append(qs, queryResult{qt, qi})
	}
	res := w.runBlock(ctx)
	res.Query = qs
	var ii []map[string]any
	for _, it := range items {
		ii = append(ii, it.info())
	}
	res.Info["setup"] = s.info()
	res.Info["written_items"] = ii
	res.Info["validators_in_genesis"] = len(w.vals)
	return res
}

func (w *world) writeItems(ctx sdk.Context, items []itemSpec, prefix string) {
	params, err := w.h.App.DaKeeper.Params.Get(ctx)
	if err != nil {
		panic(err)
	}
	for i, it := range items {
		ts := ctx.BlockTime().Add(-params.ProofPeriod).Add(-time.Duration(i%3) * time.Second)
		if !it.Due {
			ts = ctx.BlockTime().Add(-params.ProofPeriod).Add(7 * time.Second)
		}
		w.writeItem(ctx, fmt.Sprintf("%s/%03d", prefix, i), it, ts)
	}
}

// genDirect draws and runs one direct-write case.
func genDirect(r *emit.Rand, w *world) (res blockResult, dup, oor bool, nitems, nproofs int) {
	s := genSetup(r, w)
	// items are drawn against the validator set the setup produces
	base := w.h.Ctx()
	cc, _ := base.CacheContext()
	ctx := ctxAt(cc, w.h.Height, w.h.Time)
	w.applySetup(ctx, s)
	m := emit.Pick(r, 0, 1, 2, 2, 2, 3, 3, 3, 4, 5)
	allowOOR := r.Chance(1, 10)
	var items []itemSpec
	for i := 0; i < m; i++ {
		it, d, o := genItem(r, w, ctx, allowOOR)
		dup, oor = dup || d, oor || o
		items = append(items, it)
		if it.Due {
			nitems++
			nproofs += len(it.Proofs)
		}
	}
	res = w.directCase(s, items)
	return
}

// ---------------------------------------------------------------- order / grouping experiment

type orderResult struct {
	Blocks []blockResult
	Term   string
	Info   map[string]any
	Dup    bool
}

// genOrder tallies the same logical items under several schedules (one block in different
// orders, split over blocks, each alone) starting from the same state, and records the final
// counters and the verdict of every logical item under each schedule.
func genOrder(r *emit.Rand, w *world) orderResult {
	s := genSetup(r, w)
	s.Epoch = false
	if len(s.Jail) == len(w.vals) {
		s.Jail = s.Jail[:len(s.Jail)-1]
	}
	base := w.h.Ctx()
	cc0, _ := base.CacheContext()
	ctx0 := ctxAt(cc0, w.h.Height, w.h.Time)
	w.applySetup(ctx0, s)
	m := 2 + r.Intn(4)
	var items []itemSpec
	var out orderResult
	for i := 0; i < m; i++ {
		it, d, _ := genItem(r, w, ctx0, false)
		it.Due = true
		out.Dup = out.Dup || d
		items = append(items, it)
	}
	// schedules: list of blocks, each a list of logical item numbers
	ident := make([]int, m)
	for i := range ident {
		ident[i] = i
	}
	rev := make([]int, m)
	for i := range rev {
		rev[i] = m - 1 - i
	}
	p1 := permOf(r, m)
	p2 := permOf(r, m)
	cut := 1 + r.Intn(m-1)
	var alone [][]int
	for _, x := range p1 {
		alone = append(alone, []int{x})
	}
	schedules := [][][]int{{ident}, {rev}, {p1}, {p2[:cut], p2[cut:]}, alone}
	params, err := w.h.App.DaKeeper.Params.Get(ctx0)
	if err != nil {
		panic(err)
	}
	var finals []string
	var finfo []map[string]any
	for si, sched := range schedules {
		sc, _ := ctx0.CacheContext()
		verd := make([]int, m)
		pos := 0
		uris := make([]string, m)
		// write every item with the timestamp of the block it belongs to
		for b, blk := range sched {
			tb := w.h.Time.Add(time.Duration(b) * 10 * time.Second)
			for _, li := range blk {
				uris[li] = fmt.Sprintf("c09/ord/%03d", pos)
				pos++
				w.writeItem(ctxAt(sc, w.h.Height, tb), uris[li], items[li], tb.Add(-params.ProofPeriod).Add(-time.Second))
			}
		}
		var last blockResult
		for b := range sched {
			tb := w.h.Time.Add(time.Duration(b) * 10 * time.Second)
			bctx := ctxAt(sc, w.h.Height, tb)
			last = w.runBlock(bctx)
			last.Info["schedule"] = fmt.Sprint(sched)
			last.Info["schedule_no"] = si
			last.Info["block_in_schedule"] = b
			last.Info["setup"] = s.info()
			out.Blocks = append(out.Blocks, last)
		}
		fctx := ctxAt(sc, w.h.Height, w.h.Time)
		for li := 0; li < m; li++ {
			d, found, err := w.h.App.DaKeeper.GetPublishedData(fctx, uris[li])
			if err != nil || !found {
				verd[li] = stOther
			} else {
				verd[li] = statusCode(d.Status)
			}
		}
		var vec []int64
		for _, v := range w.all() {
			c, err := w.h.App.DaKeeper.GetFaultCounter(fctx, v.op)
			if err != nil {
				panic(err)
			}
			vec = append(vec, int64(c))
		}
		vec = append(vec, int64(w.h.App.DaKeeper.GetChallengeCounter(fctx)))
		for _, x := range verd {
			vec = append(vec, int64(x))
		}
		finals = append(finals, zs(vec))
		finfo = append(finfo, map[string]any{"schedule": fmt.Sprint(sched), "final_fault_counters_then_challenge_counter_then_verdicts": vec})
	}
	out.Term = "COrder " + emit.List(finals)
	var ii []map[string]any
	for _, it := range items {
		ii = append(ii, it.info())
	}
	out.Info = map[string]any{"kind": "order", "setup": s.info(), "logical_items": ii, "finals": finfo, "validators_in_genesis": len(w.vals)}
	return out
}

var _ = sdkmath.ZeroInt
