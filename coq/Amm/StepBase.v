(* C05: the base-side amount of a bucket step (types/math.go CalcAmountBaseDelta, not rounded up):
   liquidity x (1/s_a - 1/s_b) computed as ((diff * liq) / s_b) / s_a with a half-even rounding after
   each of the three operations. Upper bound of what can be paid out, with the error of the three
   roundings explicit: in value terms
        out <= liq * (s_b - s_a) / (s_a * s_b)  +  1/2 ulp * (1 + 1/s_a + 1/(s_a * s_b)),
   i.e. at sqrt prices >= 1 at most 1.5 ulp above the exact amount, and growing like 1/price below
   (the regime of finding C02-F1).  Raw decimals (value x 10^18). *)
From Coq Require Import ZArith Bool Lia ZifyBool.
From Sunrise Require Import Base.Outcome Base.Dec Base.DecLemmas Amm.Math Amm.StepBounds Amm.StepWhole.
Local Open Scope Z_scope.
Ltac Zify.zify_post_hook ::= Z.div_mod_to_equations.

Lemma order_min_max a b : order a b = (Z.min a b, Z.max a b).
Proof. unfold order. destruct (b <? a) eqn:E; f_equal; lia. Qed.

(* Quo: truncate at 36 decimals, then half-even to 18: never more than half an ulp above a/b *)
Lemma dquo_upper a b q : 0 <= a -> 0 < b -> dquo a b = Some q ->
  0 <= q /\ q * P * b <= a * (P * P) + HALF * b.
Proof.
  intros Ha Hb H. unfold dquo in H. destruct (Z.eqb_spec b 0); [lia|].
  apply chk_some in H. destruct H as [-> _].
  assert (Hn : 0 <= a * (P * P)) by (unfold P; nia).
  rewrite Z.quot_div_nonneg by lia.
  set (t := a * (P * P) / b).
  assert (Ht : 0 <= t) by (apply Z.div_pos; lia).
  assert (Htb : t * b <= a * (P * P)) by (unfold t; nia).
  pose proof (chop_round_bracket t) as B. pose proof (chop_round_nonneg t Ht) as N.
  split; [exact N|].
  assert (chop_round t * P * b <= (t + HALF) * b) by (apply Z.mul_le_mono_nonneg_r; lia).
  lia.
Qed.

Theorem base_delta_upper liq sa0 sb0 r :
  0 <= liq -> 0 < sa0 -> 0 < sb0 ->
  calc_amount_base_delta liq sa0 sb0 false = Some r ->
  let sa := Z.min sa0 sb0 in let sb := Z.max sa0 sb0 in
  0 <= r /\
  r * P * sa * sb <= (sb - sa) * liq * (P * P) + HALF * (P * P) + HALF * sb * P + HALF * sa * sb.
Proof.
  intros Hl Ha Hb H. unfold calc_amount_base_delta in H. rewrite order_min_max in H.
  set (sa := Z.min sa0 sb0) in *. set (sb := Z.max sa0 sb0) in *. cbv zeta.
  assert (Hsa : 0 < sa) by (unfold sa; lia). assert (Hsb : 0 < sb) by (unfold sb; lia).
  assert (Hab : sa <= sb) by (unfold sa, sb; lia).
  destruct (dsub sb sa) as [d|] eqn:Ed; cbn [obind] in H; [|discriminate].
  apply dsub_some in Ed. subst d.
  destruct (dmul (sb - sa) liq) as [m|] eqn:Em; cbn [obind] in H; [|discriminate].
  destruct (dquo m sb) as [q1|] eqn:E1; cbn [obind] in H; [|discriminate].
  destruct (dquo q1 sa) as [q2|] eqn:E2; cbn [obind] in H; [|discriminate].
  injection H as <-.
  assert (Hm : 0 <= m) by (apply (dmul_nonneg (sb - sa) liq); [lia|lia|exact Em]).
  apply dmul_some in Em.
  pose proof (chop_round_bracket ((sb - sa) * liq)) as B0. rewrite <- Em in B0.
  destruct (dquo_upper _ _ _ Hm Hsb E1) as [Hq1 B1].
  destruct (dquo_upper _ _ _ Hq1 Hsa E2) as [Hq2 B2].
  split; [exact Hq2|].
  (* chain:  q2 P sa sb <= q1 P^2 sb + H sa sb ;  q1 P^2 sb <= m P^3 + H sb P ;  m P^3 <= D liq P^2 + H P^2 *)
  assert (C2 : q2 * P * sa * sb <= (q1 * (P * P) + HALF * sa) * sb)
    by (replace (q2 * P * sa * sb) with (q2 * P * sa * sb) by ring; apply Z.mul_le_mono_nonneg_r; lia).
  assert (C1 : q1 * P * sb * P <= (m * (P * P) + HALF * sb) * P)
    by (apply Z.mul_le_mono_nonneg_r; [unfold P; lia|lia]).
  assert (C0 : m * P * (P * P) <= ((sb - sa) * liq + HALF) * (P * P))
    by (apply Z.mul_le_mono_nonneg_r; [unfold P; lia|lia]).
  lia.
Qed.

(* ---- quote in, base out: the base a step pays out, against the price it started from ----
   A step that ends inside its bucket has moved the price by at most (remaining after fee)/liquidity
   (C05_step_quote_in_direction), so liquidity x move <= af; the base it pays out then satisfies
        out * s * n <= af + rounding,     n >= s the new price,
   in particular out <= af / s^2 + rounding: never a better rate than the spot price before the step. *)
Theorem q4b_out_given_in_base_out_le fee sp target liq rem next ain aout fc :
  0 < sp -> 0 < liq -> 0 <= rem -> 0 <= fee < P -> sp <= target ->
  q4b_out_given_in fee sp target liq rem = Some (next, ain, aout, fc) ->
  next <> target ->
  exists af, dmul rem (P - fee) = Some af /\ 2 * Z.abs (af * P - rem * (P - fee)) <= P /\
    sp <= next /\ 0 <= aout /\
    aout * P * sp * next <= af * P * (P * P) + HALF * (P * P) + HALF * next * P + HALF * sp * next.
Proof.
  intros Hs Hl Hr Hf Ht H Hne.
  destruct (q4b_out_given_in_direction _ _ _ _ _ _ _ _ _ Hl Hr Hf Ht H) as [Hle Hmv].
  destruct (Hmv Hne) as [af [Ea [Baf Hmove]]].
  exists af. split; [exact Ea|]. split; [exact Baf|]. split; [exact Hle|].
  unfold q4b_out_given_in in H.
  destruct (calc_amount_quote_delta liq target sp true) as [a0|]; cbn [obind] in H; [|discriminate].
  destruct (dsub P fee) as [om|] eqn:Eo; cbn [obind] in H; [|discriminate].
  apply dsub_some in Eo. subst om. rewrite Ea in H. cbn [obind] in H.
  destruct (if a0 <=? af then Some target else next_sqrt_from_quote_in_down sp liq af) as [nx|];
    cbn [obind] in H; [|discriminate].
  match type of H with obind ?x _ = _ => destruct x as [ai|] end; cbn [obind] in H; [|discriminate].
  destruct (calc_amount_base_delta liq nx sp false) as [ao|] eqn:Eb; cbn [obind] in H; [|discriminate].
  destruct (fee_charge_out_given_in (target =? nx) ai rem fee) as [f|]; cbn [obind] in H; [|discriminate].
  injection H as <- <- <- <-.
  assert (Hnx : 0 < nx) by lia.
  pose proof (base_delta_upper liq nx sp ao (Z.lt_le_incl _ _ Hl) Hnx Hs Eb) as B. cbv zeta in B.
  rewrite (Z.min_r nx sp), (Z.max_l nx sp) in B by lia.
  destruct B as [B0 B1]. split; [exact B0|].
  assert (Hmv2 : (nx - sp) * liq * (P * P) <= af * P * (P * P))
    by (apply Z.mul_le_mono_nonneg_r; [unfold P; lia|lia]).
  lia.
Qed.

Example step_base_nonvacuous :
  exists n a o f, q4b_out_given_in 3000000000000000 P (2 * P) (12345678 * P) (1001 * P) = Some (n, a, o, f) /\ n <> 2 * P /\ 0 < o.
Proof. do 4 eexists; split; [vm_compute; reflexivity|]; split; [vm_compute; discriminate|vm_compute; reflexivity]. Qed.
