package c01

import (
	"context"
	"crypto/sha256"
	"fmt"
	"math/big"
	"sort"
	"time"

	sdkmath "cosmossdk.io/math"
	stakingkeeper "cosmossdk.io/x/staking/keeper"
	stakingtypes "cosmossdk.io/x/staking/types"
	txsigning "cosmossdk.io/x/tx/signing"
	abci "github.com/cometbft/cometbft/abci/types"
	cmtproto "github.com/cometbft/cometbft/api/cometbft/types/v1"
	codectypes "github.com/cosmos/cosmos-sdk/codec/types"
	"github.com/cosmos/cosmos-sdk/crypto/keys/ed25519"
	sdk "github.com/cosmos/cosmos-sdk/types"
	"github.com/cosmos/cosmos-sdk/types/tx/signing"
	authsign "github.com/cosmos/cosmos-sdk/x/auth/signing"
	"google.golang.org/protobuf/types/known/anypb"

	datypes "github.com/sunriselayer/sunrise/x/da/types"
	litypes "github.com/sunriselayer/sunrise/x/liquidityincentive/types"
	lptypes "github.com/sunriselayer/sunrise/x/liquiditypool/types"
	sctypes "github.com/sunriselayer/sunrise/x/shareclass/types"

	"verifharness/apph"
	"verifharness/emit"
)

const (
	bond = "uvrise"
	fee  = "urise"
)

// valInfo is one validator of the world (genesis validators never vote: the test genesis
// gives them no signing info; validators created by MsgCreateValidator do).
type valInfo struct {
	Oper    string
	Bytes   []byte
	Acc     sdk.AccAddress
	Created bool // created by a transaction: takes part in the commit votes
	Owner   int  // account index of the operator (created validators)
	Absent  bool // the generator keeps this validator from signing (downtime)
}

type world struct {
	h    *apph.H
	r    *emit.Rand
	vals []valInfo

	txs      [][]byte
	txKinds  []string
	txSeq    map[string]uint64
	pools    []poolInfo
	nextPool uint64
	nextPos  uint64
	daSeq    int
	daItems  []string
	mod      sdk.AccAddress // shareclass module account
	feeColl  sdk.AccAddress
	daMod    sdk.AccAddress

	genValAccs []sdk.AccAddress // account addresses of the genesis validators
	uriIDs     map[string]int64
	gids       map[string]int64
}

type poolInfo struct {
	id           uint64
	base, quote  string
	ratio, offs  string
	feeRate      string
	hasPositions bool
}

func newWorld(seed int64, nAcct, nGenVals int) *world {
	big36, _ := sdkmath.NewIntFromString("1000000000000000000000000000000000000")
	bal := sdk.NewCoins(
		sdk.NewCoin("urise", sdkmath.NewInt(40_000_000_000_000)), sdk.NewCoin("uvrise", sdkmath.NewInt(40_000_000_000_000)),
		sdk.NewCoin("uusdc", big36), sdk.NewCoin("uatom", big36), sdk.NewCoin("uosmo", big36),
	)
	h := apph.New(apph.Options{NumAccounts: nAcct, NumValidators: nGenVals, Balances: bal})
	w := &world{h: h, r: emit.NewRand(seed), txSeq: map[string]uint64{}, uriIDs: map[string]int64{}, gids: map[string]int64{}}
	w.mod = h.App.AuthKeeper.GetModuleAddress(sctypes.ModuleName)
	w.feeColl = h.App.AuthKeeper.GetModuleAddress("fee_collector")
	w.daMod = h.App.AuthKeeper.GetModuleAddress(datypes.ModuleName)
	w.refreshVals()
	for _, v := range w.vals {
		w.genValAccs = append(w.genValAccs, v.Acc)
	}
	return w
}

func (w *world) refreshVals() {
	h := w.h
	vs, err := h.App.StakingKeeper.GetAllValidators(h.Ctx())
	if err != nil {
		panic(err)
	}
	sort.Slice(vs, func(i, j int) bool { return vs[i].OperatorAddress < vs[j].OperatorAddress })
	old := map[string]valInfo{}
	for _, v := range w.vals {
		old[v.Oper] = v
	}
	w.vals = nil
	for _, v := range vs {
		bz, err := h.App.StakingKeeper.ValidatorAddressCodec().StringToBytes(v.OperatorAddress)
		if err != nil {
			panic(err)
		}
		vi := valInfo{Oper: v.OperatorAddress, Bytes: bz, Acc: sdk.AccAddress(bz), Owner: -1}
		if o, ok := old[v.OperatorAddress]; ok {
			vi.Created, vi.Owner, vi.Absent = o.Created, o.Owner, o.Absent
		}
		for i, a := range h.Accts {
			if a.Addr.Equals(vi.Acc) {
				vi.Created, vi.Owner = true, i
			}
		}
		w.vals = append(w.vals, vi)
	}
}

// signTx builds and signs a transaction with the application's TxConfig; sequence numbers of
// transactions already queued for the current block are counted.
func (w *world) signTx(signer apph.Acct, msgs []sdk.Msg, gas uint64) ([]byte, error) {
	h := w.h
	txc := h.App.TxConfig()
	acc := h.App.AuthKeeper.GetAccount(h.Ctx(), signer.Addr)
	if acc == nil {
		return nil, fmt.Errorf("signer has no account")
	}
	seq := acc.GetSequence() + w.txSeq[signer.Addr.String()]
	b := txc.NewTxBuilder()
	if err := b.SetMsgs(msgs...); err != nil {
		return nil, err
	}
	b.SetFeeAmount(sdk.NewCoins(sdk.NewInt64Coin(fee, 50000)))
	b.SetGasLimit(gas)
	mode := txc.SignModeHandler().DefaultMode()
	sig := signing.SignatureV2{PubKey: signer.Priv.PubKey(), Data: &signing.SingleSignatureData{SignMode: mode}, Sequence: seq}
	if err := b.SetSignatures(sig); err != nil {
		return nil, err
	}
	anyPk, err := codectypes.NewAnyWithValue(signer.Priv.PubKey())
	if err != nil {
		return nil, err
	}
	sd := txsigning.SignerData{Address: signer.Addr.String(), ChainID: apph.ChainID, AccountNumber: acc.GetAccountNumber(),
		Sequence: seq, PubKey: &anypb.Any{TypeUrl: anyPk.TypeUrl, Value: anyPk.Value}}
	sb, err := authsign.GetSignBytesAdapter(context.Background(), txc.SignModeHandler(), mode, sd, b.GetTx())
	if err != nil {
		return nil, err
	}
	s, err := signer.Priv.Sign(sb)
	if err != nil {
		return nil, err
	}
	sig.Data.(*signing.SingleSignatureData).Signature = s
	if err := b.SetSignatures(sig); err != nil {
		return nil, err
	}
	bz, err := txc.TxEncoder()(b.GetTx())
	if err == nil {
		w.txSeq[signer.Addr.String()]++
	}
	return bz, err
}

// queue signs msg by account a and appends the transaction to the block being assembled.
func (w *world) queue(kind string, a int, gas uint64, msgs ...sdk.Msg) {
	bz, err := w.signTx(w.h.Accts[a], msgs, gas)
	if err != nil {
		panic(fmt.Sprintf("sign %s: %v", kind, err))
	}
	w.txs = append(w.txs, bz)
	w.txKinds = append(w.txKinds, kind)
}

type txRes struct {
	Kind      string `json:"kind"`
	Code      uint32 `json:"code"`
	Codespace string `json:"codespace,omitempty"`
	Log       string `json:"log,omitempty"`
	GasUsed   int64  `json:"gas_used"`
}

type blockRes struct {
	Err    string        `json:"err,omitempty"` // "" = ok, "panic: ..." or the returned error
	Wall   time.Duration `json:"wall_ns"`
	Txs    []txRes       `json:"txs"`
	Events []abci.Event  `json:"-"`
}

// votes of the bonded validators that have signing info (created by transactions)
func (w *world) votes() []abci.VoteInfo {
	h := w.h
	ctx := h.Ctx()
	vs, err := h.App.StakingKeeper.GetBondedValidatorsByPower(ctx)
	if err != nil {
		panic(err)
	}
	pr := h.App.StakingKeeper.PowerReduction(ctx)
	var votes []abci.VoteInfo
	for _, v := range vs {
		var info *valInfo
		for i := range w.vals {
			if w.vals[i].Oper == v.OperatorAddress {
				info = &w.vals[i]
			}
		}
		if info == nil || !info.Created {
			continue
		}
		ca, err := v.GetConsAddr()
		if err != nil {
			panic(err)
		}
		flag := cmtproto.BlockIDFlagCommit
		if info.Absent {
			flag = cmtproto.BlockIDFlagAbsent
		}
		votes = append(votes, abci.VoteInfo{Validator: abci.Validator{Address: ca, Power: v.GetConsensusPower(pr)}, BlockIdFlag: flag})
	}
	return votes
}

// block runs the real FinalizeBlock (+ Commit when it succeeded) at time h.Time+dt with the
// queued transactions followed by extra raw entries (PreBlocker metadata section).
func (w *world) block(dt time.Duration, extra [][]byte) blockRes {
	h := w.h
	txs := append(append([][]byte{}, w.txs...), extra...)
	kinds := w.txKinds
	w.txs, w.txKinds, w.txSeq = nil, nil, map[string]uint64{}
	votes := w.votes()
	h.Height++
	h.Time = h.Time.Add(dt)
	var res blockRes
	t0 := time.Now()
	func() {
		defer func() {
			if r := recover(); r != nil {
				res.Err = fmt.Sprintf("panic: %v", r)
			}
		}()
		resp, err := h.App.FinalizeBlock(&abci.FinalizeBlockRequest{Height: h.Height, Time: h.Time, Txs: txs,
			DecidedLastCommit: abci.CommitInfo{Votes: votes}})
		if err != nil {
			res.Err = err.Error()
			return
		}
		for i, tr := range resp.TxResults {
			k := "raw"
			if i < len(kinds) {
				k = kinds[i]
			}
			res.Txs = append(res.Txs, txRes{Kind: k, Code: tr.Code, Codespace: tr.Codespace, Log: cut(tr.Log, 160), GasUsed: tr.GasUsed})
		}
		res.Events = resp.Events
		if _, err := h.App.Commit(); err != nil {
			res.Err = "commit: " + err.Error()
		}
	}()
	res.Wall = time.Since(t0)
	if res.Err != "" {
		// the block was not committed: the application's finalize state is discarded by the
		// next FinalizeBlock; the harness height/time go back so that the history can go on
		h.Height--
		h.Time = h.Time.Add(-dt)
	}
	return res
}

func cut(s string, n int) string {
	if len(s) > n {
		return s[:n]
	}
	return s
}

// ---------------------------------------------------------------- messages

func (w *world) createValidator(acct int, amount int64) {
	h := w.h
	pk := ed25519.GenPrivKeyFromSecret([]byte(fmt.Sprintf("c01-val-%d", acct))).PubKey()
	pkAny, err := codectypes.NewAnyWithValue(pk)
	if err != nil {
		panic(err)
	}
	msg := &stakingtypes.MsgCreateValidator{
		Description:       stakingtypes.Description{Moniker: fmt.Sprintf("c01-%d", acct)},
		Commission:        stakingtypes.CommissionRates{Rate: sdkmath.LegacyNewDecWithPrec(1, 1), MaxRate: sdkmath.LegacyNewDecWithPrec(2, 1), MaxChangeRate: sdkmath.LegacyNewDecWithPrec(1, 2)},
		MinSelfDelegation: sdkmath.NewInt(1),
		ValidatorAddress:  sdk.ValAddress(h.Accts[acct].Addr).String(),
		Pubkey:            pkAny,
		Value:             sdk.NewCoin(bond, sdkmath.NewInt(amount)),
	}
	w.queue("create-validator", acct, 2_000_000, msg)
}

func (w *world) msgCreatePool(a int, base, quote, feeRate, ratio, offs string) sdk.Msg {
	return &lptypes.MsgCreatePool{Authority: w.h.Accts[a].Addr.String(), DenomBase: base, DenomQuote: quote, FeeRate: feeRate, PriceRatio: ratio, BaseOffset: offs}
}

func (w *world) msgCreatePosition(a int, p poolInfo, lo, up int64, amtBase, amtQuote *big.Int) sdk.Msg {
	return &lptypes.MsgCreatePosition{Sender: w.h.Accts[a].Addr.String(), PoolId: p.id, LowerTick: lo, UpperTick: up,
		TokenBase: sdk.NewCoin(p.base, sdkmath.NewIntFromBigInt(amtBase)), TokenQuote: sdk.NewCoin(p.quote, sdkmath.NewIntFromBigInt(amtQuote)),
		MinAmountBase: sdkmath.ZeroInt(), MinAmountQuote: sdkmath.ZeroInt()}
}

func (w *world) msgVoteGauge(a int, weights map[uint64]string) sdk.Msg {
	var ids []uint64
	for id := range weights {
		ids = append(ids, id)
	}
	sort.Slice(ids, func(i, j int) bool { return ids[i] < ids[j] })
	var pw []litypes.PoolWeight
	for _, id := range ids {
		pw = append(pw, litypes.PoolWeight{PoolId: id, Weight: weights[id]})
	}
	return &litypes.MsgVoteGauge{Sender: w.h.Accts[a].Addr.String(), PoolWeights: pw}
}

func (w *world) msgPublish(a int, n, parity int) (sdk.Msg, string) {
	w.daSeq++
	uri := fmt.Sprintf("ipfs://verif-c01/%06d", w.daSeq)
	w.uriIDs[uri] = int64(w.daSeq)
	hashes := make([][]byte, n)
	for i := range hashes {
		s := sha256.Sum256([]byte(fmt.Sprintf("%s/%d", uri, i)))
		hashes[i] = s[:]
	}
	return &datypes.MsgPublishData{Sender: w.h.Accts[a].Addr.String(), MetadataUri: uri, ParityShardCount: uint64(parity),
		ShardDoubleHashes: hashes, DataSourceInfo: "verif"}, uri
}

func (w *world) msgNvDelegate(a, v int, amt int64) sdk.Msg {
	return &sctypes.MsgNonVotingDelegate{Sender: w.h.Accts[a].Addr.String(), ValidatorAddress: w.vals[v].Oper, Amount: sdk.NewInt64Coin(fee, amt)}
}

func (w *world) msgNvUndelegate(a, v int, amt int64) sdk.Msg {
	return &sctypes.MsgNonVotingUndelegate{Sender: w.h.Accts[a].Addr.String(), ValidatorAddress: w.vals[v].Oper, Amount: sdk.NewInt64Coin(fee, amt),
		Recipient: w.h.Accts[a].Addr.String()}
}

// msgNvUndelegateTo names an explicit recipient of the unbonded coins
func (w *world) msgNvUndelegateTo(a, v int, amt int64, recipient string) sdk.Msg {
	return &sctypes.MsgNonVotingUndelegate{Sender: w.h.Accts[a].Addr.String(), ValidatorAddress: w.vals[v].Oper, Amount: sdk.NewInt64Coin(fee, amt),
		Recipient: recipient}
}

func (w *world) msgDelegate(a, v int, amt int64) sdk.Msg {
	return &stakingtypes.MsgDelegate{DelegatorAddress: w.h.Accts[a].Addr.String(), ValidatorAddress: w.vals[v].Oper, Amount: sdk.NewInt64Coin(bond, amt)}
}

var _ = stakingkeeper.NewMsgServerImpl
