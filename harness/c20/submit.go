package c20

import (
	"bytes"
	"errors"
	"fmt"
	"math/big"
	"strings"

	"github.com/consensys/gnark-crypto/ecc"
	"github.com/consensys/gnark-crypto/ecc/bn254/fr"
	native_mimc "github.com/consensys/gnark-crypto/ecc/bn254/fr/mimc"
	"github.com/consensys/gnark/backend/groth16"
	groth16bn254 "github.com/consensys/gnark/backend/groth16/bn254"
	"github.com/consensys/gnark/frontend"
	"github.com/consensys/gnark/frontend/cs/r1cs"
	gnarklogger "github.com/consensys/gnark/logger"
	sdk "github.com/cosmos/cosmos-sdk/types"

	dakeeper "github.com/sunriselayer/sunrise/x/da/keeper"
	datypes "github.com/sunriselayer/sunrise/x/da/types"
	"github.com/sunriselayer/sunrise/x/da/zkp"

	"verifharness/apph"
	"verifharness/emit"
)

// a proof in the pool
type poolProof struct {
	id    int
	bytes []byte
	// honest: made by the real prover for shard hash number src (>= 0); forged otherwise
	src      int
	key      string // "A" = the genesis (default) key pair, "B" = the harness's second key pair
	kind     string
	parses   bool
	parseErr string
}

// a double hash in the pool (byte string as stored in PublishedData.ShardDoubleHashes)
type poolHash struct {
	id    int
	bytes []byte
	kind  string
}

type zk struct {
	vk         groth16.VerifyingKey
	shardHash  []*big.Int // S_a
	doubleHash []*big.Int // MiMC(S_a) as integer
	proofs     []poolProof
	hashes     []poolHash
	// cache of direct verification calls: (key in force, proof id, hash id) -> ok
	verified map[[3]int]bool
	// the two key pairs: 0 = "A" (default params), 1 = "B" (groth16.Setup by the harness)
	vkBytes  [2][]byte
	pkBytes  [2][]byte
	vks      [2]groth16.VerifyingKey
	stateKey int   // key in force on the state the current message runs on
	idsB     []int // pool ids of the honest proofs made with key B, by shard number
}

func parseVK(bz []byte) (groth16.VerifyingKey, error) { // gnark directly, not through x/da/zkp
	vk := groth16.NewVerifyingKey(ecc.BN254)
	_, err := vk.ReadFrom(bytes.NewReader(bz))
	return vk, err
}

// useKeyOf selects, for the oracle tables, the verifying key stored in the params of the state
// behind ctx (the params IN FORCE for a message that runs on ctx)
func (z *zk) useKeyOf(ctx sdk.Context, k dakeeper.Keeper) error {
	p, err := k.Params.Get(ctx)
	if err != nil {
		return err
	}
	for i := range z.vkBytes {
		if bytes.Equal(p.ZkpVerifyingKey, z.vkBytes[i]) {
			z.stateKey, z.vk = i, z.vks[i]
			return nil
		}
	}
	return fmt.Errorf("c20: params hold an unknown verifying key")
}

func mimcOf(x *big.Int) *big.Int {
	var e fr.Element
	e.SetBigInt(x)
	b := e.Bytes()
	m := native_mimc.NewMiMC()
	if _, err := m.Write(b[:]); err != nil {
		panic(err)
	}
	return new(big.Int).SetBytes(m.Sum(nil))
}

func be32(x *big.Int) []byte {
	b := make([]byte, 32)
	x.FillBytes(b)
	return b
}

func marshalProof(p groth16.Proof) []byte {
	var b bytes.Buffer
	if _, err := p.WriteTo(&b); err != nil {
		panic(err)
	}
	return b.Bytes()
}

// the handler's own parsing step
func tryParse(bz []byte) (ok bool, msg string) {
	defer func() {
		if r := recover(); r != nil {
			ok, msg = false, fmt.Sprint("panic: ", r)
		}
	}()
	proof := &groth16bn254.Proof{}
	if _, err := proof.ReadFrom(bytes.NewReader(bz)); err != nil {
		return false, err.Error()
	}
	return true, ""
}

// the handler's own verification step, called directly
func (z *zk) verify(p poolProof, h poolHash) bool {
	key := [3]int{z.stateKey, p.id, h.id}
	if v, ok := z.verified[key]; ok {
		return v
	}
	proof := &groth16bn254.Proof{}
	if _, err := proof.ReadFrom(bytes.NewReader(p.bytes)); err != nil {
		panic("verify called on an unparseable proof")
	}
	assignment := zkp.ValidityProofCircuit{ShardHash: big.NewInt(1), ShardDoubleHash: h.bytes}
	witness, err := frontend.NewWitness(&assignment, ecc.BN254.ScalarField())
	if err != nil {
		panic(err)
	}
	pub, err := witness.Public()
	if err != nil {
		panic(err)
	}
	ok := groth16.Verify(proof, z.vk, pub) == nil
	z.verified[key] = ok
	return ok
}

func newZK(r *emit.Rand, params datypes.Params) (*zk, error) {
	z := &zk{verified: map[[3]int]bool{}}
	vk, err := parseVK(params.ZkpVerifyingKey)
	if err != nil {
		return nil, err
	}
	z.vk = vk
	z.vks[0], z.vkBytes[0], z.pkBytes[0] = vk, params.ZkpVerifyingKey, params.ZkpProvingKey
	pk, err := zkp.UnmarshalProvingKey(params.ZkpProvingKey)
	if err != nil {
		return nil, err
	}
	ccs, err := frontend.Compile(ecc.BN254.ScalarField(), r1cs.NewBuilder, &zkp.ValidityProofCircuit{})
	if err != nil {
		return nil, err
	}
	q := fr.Modulus()
	const nShard = 6
	for a := 0; a < nShard; a++ {
		var s *big.Int
		switch a {
		case 0:
			s = big.NewInt(111) // the repository test's preimage
		case 1:
			s = big.NewInt(0)
		case 2:
			s = new(big.Int).Sub(q, big.NewInt(1))
		default:
			s = r.Big(q)
		}
		d := mimcOf(s)
		z.shardHash = append(z.shardHash, s)
		z.doubleHash = append(z.doubleHash, d)
		assignment := zkp.ValidityProofCircuit{ShardHash: s, ShardDoubleHash: d}
		w, err := frontend.NewWitness(&assignment, ecc.BN254.ScalarField())
		if err != nil {
			return nil, err
		}
		proof, err := groth16.Prove(ccs, pk, w)
		if err != nil {
			return nil, err
		}
		z.addProof(marshalProof(proof), a, "honest")
		z.addHash(be32(d), fmt.Sprintf("H2(s%d)", a))
	}
	// a second, independently randomised proof of the same statement
	{
		assignment := zkp.ValidityProofCircuit{ShardHash: z.shardHash[0], ShardDoubleHash: z.doubleHash[0]}
		w, _ := frontend.NewWitness(&assignment, ecc.BN254.ScalarField())
		proof, err := groth16.Prove(ccs, pk, w)
		if err != nil {
			return nil, err
		}
		z.addProof(marshalProof(proof), 0, "honest-second")
	}
	// honest proof followed by trailing bytes (ReadFrom stops after the proof)
	z.addProof(append(append([]byte{}, z.proofs[3].bytes...), 1, 2, 3), 3, "honest-trailing-bytes")
	// forged but well-formed: the two G1 points of an honest proof exchanged / one negated
	{
		p := &groth16bn254.Proof{}
		if _, err := p.ReadFrom(bytes.NewReader(z.proofs[1].bytes)); err != nil {
			return nil, err
		}
		p.Ar, p.Krs = p.Krs, p.Ar
		z.addProof(marshalProof(p), -1, "forged-swapped-points")
		p2 := &groth16bn254.Proof{}
		if _, err := p2.ReadFrom(bytes.NewReader(z.proofs[2].bytes)); err != nil {
			return nil, err
		}
		p2.Ar.Neg(&p2.Ar)
		z.addProof(marshalProof(p2), -1, "forged-negated-point")
	}
	// malformed byte strings
	z.addProof([]byte{}, -1, "empty")
	z.addProof(z.proofs[0].bytes[:40], -1, "truncated")
	junk := make([]byte, len(z.proofs[0].bytes))
	for i := range junk {
		junk[i] = byte(r.U64())
	}
	z.addProof(junk, -1, "random-bytes")
	// double hashes that are not the canonical 32-byte encoding of some H2(s_a)
	z.addHash(append([]byte{0}, be32(z.doubleHash[0])...), "0x00||H2(s0)")
	if dq := new(big.Int).Add(z.doubleHash[3], q); dq.BitLen() <= 256 {
		z.addHash(be32(dq), "H2(s3)+q")
	}
	z.addHash(be32(new(big.Int).Add(z.doubleHash[1], big.NewInt(1))), "H2(s1)+1")
	z.addHash(be32(z.shardHash[4]), "s4 itself")
	z.addHash([]byte{}, "empty")
	z.addHash(be32(r.Big(q)), "random")
	// a second key pair for the same circuit (what a governance key rotation installs) and
	// honest proofs made with it
	pkB, vkB, err := groth16.Setup(ccs)
	if err != nil {
		return nil, err
	}
	if z.pkBytes[1], err = zkp.MarshalProvingKey(pkB); err != nil {
		return nil, err
	}
	if z.vkBytes[1], err = zkp.MarshalVerifyingKey(vkB); err != nil {
		return nil, err
	}
	if z.vks[1], err = parseVK(z.vkBytes[1]); err != nil {
		return nil, err
	}
	for a := 0; a < 3; a++ {
		assignment := zkp.ValidityProofCircuit{ShardHash: z.shardHash[a], ShardDoubleHash: z.doubleHash[a]}
		w, _ := frontend.NewWitness(&assignment, ecc.BN254.ScalarField())
		proof, err := groth16.Prove(ccs, pkB, w)
		if err != nil {
			return nil, err
		}
		z.idsB = append(z.idsB, len(z.proofs))
		z.addProof(marshalProof(proof), a, "honest-keyB")
		z.proofs[len(z.proofs)-1].key = "B"
	}
	return z, nil
}

func (z *zk) addProof(bz []byte, src int, kind string) {
	ok, msg := tryParse(bz)
	z.proofs = append(z.proofs, poolProof{id: len(z.proofs), bytes: bz, src: src, key: "A", kind: kind, parses: ok, parseErr: msg})
}

func (z *zk) addHash(bz []byte, kind string) {
	z.hashes = append(z.hashes, poolHash{id: len(z.hashes), bytes: bz, kind: kind})
}

// oracle contract: an honest proof for s_a verifies against the byte string h iff
// int(h) mod q == MiMC(s_a); a forged proof never verifies.
func (z *zk) expected(p poolProof, h poolHash) string {
	if strings.HasPrefix(p.kind, "forged") {
		return "(Some false)"
	}
	if p.src < 0 {
		return "None"
	}
	if (p.key == "B") != (z.stateKey == 1) { // made with the other key pair than the one in force
		return "(Some false)"
	}
	v := new(big.Int).SetBytes(h.bytes)
	v.Mod(v, fr.Modulus())
	return emit.Some(emit.Bool(v.Cmp(z.doubleHash[p.src]) == 0))
}

func submitErrClass(err error) (int64, error) {
	switch {
	case errors.Is(err, datypes.ErrIndicesAndProofsMismatch):
		return 11, nil
	case errors.Is(err, datypes.ErrProofIndicesOverflow):
		return 13, nil
	}
	// the checks before the modelled part must pass: the harness set the state up for that
	for _, e := range []error{datypes.ErrValidatorNotBonded, datypes.ErrDeputyNotFound, datypes.ErrInvalidDeputy,
		datypes.ErrDataNotFound, datypes.ErrDataNotInChallenge, datypes.ErrProofPeriodIsOver} {
		if errors.Is(err, e) {
			return 0, fmt.Errorf("c20: precondition of SubmitValidityProof not met: %w", err)
		}
	}
	if s := err.Error(); strings.Contains(s, "invalid sender address") || strings.Contains(s, "invalid validator address") ||
		strings.Contains(s, "validator not exists") {
		return 0, fmt.Errorf("c20: precondition of SubmitValidityProof not met: %w", err)
	}
	return 12, nil // unmarshalling or verification error
}

func (c *ctxRun) submitCases(n int) error {
	if n <= 0 {
		return nil
	}
	r := c.r
	gnarklogger.Disable()
	h := apph.New(apph.Options{NumAccounts: 2, NumValidators: 1})
	defer h.Close()
	ctx := h.Ctx()
	params, err := h.App.DaKeeper.Params.Get(ctx)
	if err != nil {
		return err
	}
	z, err := newZK(r, params)
	if err != nil {
		return err
	}
	vals, err := h.App.StakingKeeper.GetAllValidators(ctx)
	if err != nil || len(vals) == 0 {
		return fmt.Errorf("c20: no validator: %v", err)
	}
	valBz, err := h.App.StakingKeeper.ValidatorAddressCodec().StringToBytes(vals[0].GetOperator())
	if err != nil {
		return err
	}
	sender := sdk.AccAddress(valBz).String()
	srv := dakeeper.NewMsgServerImpl(h.App.DaKeeper)

	type sub struct {
		hashes  []int // pool hash ids, ShardDoubleHashes order
		indices []int64
		proofs  []int // pool proof ids
		tag     string
	}
	honestFor := func(hid int) int { // an honest proof whose statement is pool hash hid (canonical ones only)
		if hid < len(z.shardHash) {
			return hid
		}
		return r.Intn(len(z.shardHash))
	}
	gen := func() sub {
		var s sub
		nh := 1 + r.Intn(6)
		for i := 0; i < nh; i++ {
			if r.Chance(1, 4) {
				s.hashes = append(s.hashes, r.Intn(len(z.hashes)))
			} else {
				s.hashes = append(s.hashes, r.Intn(len(z.shardHash)))
			}
		}
		np := r.Intn(5)
		if r.Chance(1, 12) {
			np = 0
		}
		s.tag = "valid"
		for i := 0; i < np; i++ {
			j := r.Intn(nh)
			s.indices = append(s.indices, int64(j))
			s.proofs = append(s.proofs, honestFor(s.hashes[j]))
		}
		// perturb
		if np > 0 {
			i := r.Intn(np)
			switch r.Intn(14) {
			case 0: // proof of another shard at this index
				s.tag = "mismatching-pair"
				s.proofs[i] = (s.proofs[i] + 1 + r.Intn(len(z.shardHash)-1)) % len(z.shardHash)
			case 1:
				s.tag = "index=len"
				s.indices[i] = int64(nh)
			case 2:
				s.tag = "index>len"
				s.indices[i] = int64(nh + 1 + r.Intn(1000))
			case 3:
				s.tag = "index=-1"
				s.indices[i] = -1
			case 4:
				s.tag = "index-very-negative"
				s.indices[i] = -int64(r.U64()>>1) - 1
			case 5:
				s.tag = "index-huge"
				s.indices[i] = int64(r.U64() >> 1)
			case 6:
				s.tag = "any-proof"
				s.proofs[i] = r.Intn(len(z.proofs))
			case 7:
				s.tag = "forged-proof"
				for _, p := range z.proofs {
					if strings.HasPrefix(p.kind, "forged") && r.Bool() {
						s.proofs[i] = p.id
					}
				}
			case 8:
				s.tag = "unparseable-proof"
				for _, p := range z.proofs {
					if !p.parses && r.Bool() {
						s.proofs[i] = p.id
					}
				}
			case 9:
				s.tag = "more-proofs-than-indices"
				s.proofs = append(s.proofs, r.Intn(len(z.proofs)))
			case 10:
				s.tag = "more-indices-than-proofs"
				s.indices = append(s.indices, int64(r.Intn(nh)))
			case 11:
				s.tag = "duplicate-index"
				s.indices = append(s.indices, s.indices[i])
				s.proofs = append(s.proofs, s.proofs[i])
			case 12:
				s.tag = "negative-after-failing-proof"
				s.proofs[0] = (s.proofs[0] + 1) % len(z.shardHash)
				s.indices = append(s.indices, -1)
				s.proofs = append(s.proofs, 0)
			}
		} else if r.Chance(1, 3) {
			s.tag = "indices-without-proofs"
			s.indices = append(s.indices, int64(r.Intn(nh)))
		}
		return s
	}
	// messages with several (index, proof) pairs over one data item whose shards are all
	// different: which proof stands at which index is what is varied
	genMulti := func() sub {
		var s sub
		nS := len(z.shardHash)
		perm := make([]int, nS)
		for i := range perm {
			perm[i] = i
		}
		for i := nS - 1; i > 0; i-- {
			j := r.Intn(i + 1)
			perm[i], perm[j] = perm[j], perm[i]
		}
		nh := 2 + r.Intn(nS-2) // 2 .. nS-1 distinct shards, at least one pool shard stays outside
		s.hashes = append(s.hashes, perm[:nh]...)
		outside := perm[nh:]
		np := 2 + r.Intn(3)
		if np > nh {
			np = nh
		}
		idx := make([]int, nh)
		for i := range idx {
			idx[i] = i
		}
		for i := nh - 1; i > 0; i-- {
			j := r.Intn(i + 1)
			idx[i], idx[j] = idx[j], idx[i]
		}
		for i := 0; i < np; i++ { // np different indices, each with the honest proof of its shard
			s.indices = append(s.indices, int64(idx[i]))
			s.proofs = append(s.proofs, s.hashes[idx[i]])
		}
		a, b := 0, 1+r.Intn(np-1) // two positions in the message
		switch r.Intn(11) {
		case 0:
			s.tag = "multi:valid"
		case 1: // the proof of an earlier, valid pair repeated under another index
			s.tag = "multi:repeated-proof-under-later-index"
			s.proofs[b] = s.proofs[a]
		case 2: // ... and the other way round: the wrong use comes first
			s.tag = "multi:repeated-proof-under-earlier-index"
			s.proofs[a] = s.proofs[b]
		case 3: // one more pair at the end: an unused index with the bytes of a proof already listed
			s.tag = "multi:appended-pair-reusing-a-proof"
			if np < nh {
				s.indices = append(s.indices, int64(idx[np]))
			} else {
				s.indices = append(s.indices, s.indices[b])
			}
			s.proofs = append(s.proofs, s.proofs[a])
		case 4:
			s.tag = "multi:swapped-proofs"
			s.proofs[a], s.proofs[b] = s.proofs[b], s.proofs[a]
		case 5: // a proof made for a shard of another data item / another validator's shard
			s.tag = "multi:proof-of-a-shard-outside-this-item"
			s.proofs[r.Intn(np)] = outside[r.Intn(len(outside))]
		case 6: // the same index twice, same proof bytes
			s.tag = "multi:same-index-twice"
			s.indices = append(s.indices, s.indices[a])
			s.proofs = append(s.proofs, s.proofs[a])
		case 7: // the same index twice, the second time with the proof of another shard
			s.tag = "multi:same-index-twice-second-proof-wrong"
			s.indices = append(s.indices, s.indices[a])
			s.proofs = append(s.proofs, s.proofs[b])
		case 8: // every proof equal to the first one
			s.tag = "multi:one-proof-for-all-indices"
			for i := range s.proofs {
				s.proofs[i] = s.proofs[0]
			}
		case 9: // valid pairs, then a forged proof
			s.tag = "multi:last-proof-forged"
			for _, p := range z.proofs {
				if strings.HasPrefix(p.kind, "forged") {
					s.proofs[np-1] = p.id
					break
				}
			}
		default: // a different, independently randomised proof of the same statement is fine
			s.tag = "multi:valid-with-second-proof-of-shard-0"
			pos := -1
			for i, id := range s.hashes {
				if id == 0 {
					pos = i
				}
			}
			if pos < 0 { // shard 0 was outside: put it in
				pos = idx[0]
				s.hashes[pos] = 0
			}
			s.indices, s.proofs = nil, nil
			for i := 0; i < np; i++ {
				s.indices = append(s.indices, int64(idx[i]))
				s.proofs = append(s.proofs, s.hashes[idx[i]])
			}
			s.indices = append(s.indices, int64(pos))
			s.proofs = append(s.proofs, 6) // pool proof 6 = "honest-second" for shard 0
		}
		return s
	}
	corpus := []sub{
		{hashes: []int{0, 1}, indices: []int64{0, 1}, proofs: []int{0, 0}, tag: "corpus:multi:repeated-proof-under-later-index"},
		{hashes: []int{0, 1}, indices: []int64{1, 0}, proofs: []int{0, 0}, tag: "corpus:multi:repeated-proof-under-earlier-index"},
		{hashes: []int{0, 1}, indices: []int64{0, 1}, proofs: []int{1, 0}, tag: "corpus:multi:swapped-proofs"},
		{hashes: []int{0, 1, 2}, indices: []int64{0, 1, 2}, proofs: []int{0, 1, 2}, tag: "corpus:multi:valid"},
		{hashes: []int{0}, indices: []int64{0}, proofs: []int{0}, tag: "corpus:valid"},
		{hashes: []int{0}, indices: []int64{}, proofs: []int{}, tag: "corpus:empty"},
		{hashes: []int{0, 1}, indices: []int64{1}, proofs: []int{0}, tag: "corpus:proof-of-shard-0-at-index-1"},
		{hashes: []int{0, 1}, indices: []int64{-1}, proofs: []int{0}, tag: "corpus:index=-1"},
		{hashes: []int{0, 1}, indices: []int64{2}, proofs: []int{0}, tag: "corpus:index=len"},
		{hashes: []int{6}, indices: []int64{0}, proofs: []int{0}, tag: "corpus:non-canonical-double-hash"},
	}
	all := append([]sub{}, corpus...)
	for len(all) < n {
		if r.Bool() {
			all = append(all, genMulti())
		} else {
			all = append(all, gen())
		}
	}
	runOne := func(ctx sdk.Context, ci string, s sub) error {
		if err := z.useKeyOf(ctx, h.App.DaKeeper); err != nil {
			return err
		}
		uri := "ipfs://c20/" + ci
		dh := make([][]byte, len(s.hashes))
		for i, id := range s.hashes {
			dh[i] = z.hashes[id].bytes
		}
		if err := h.App.DaKeeper.SetPublishedData(ctx, datypes.PublishedData{
			MetadataUri: uri, ParityShardCount: 0, ShardDoubleHashes: dh, Timestamp: h.Time,
			Status: datypes.Status_STATUS_CHALLENGING, Publisher: sender,
			PublishDataCollateral: sdk.Coins{}, SubmitInvalidityCollateral: sdk.Coins{}, PublishedTimestamp: h.Time,
		}); err != nil {
			return err
		}
		pb := make([][]byte, len(s.proofs))
		for i, id := range s.proofs {
			pb[i] = z.proofs[id].bytes
		}
		msg := &datypes.MsgSubmitValidityProof{Sender: sender, ValidatorAddress: vals[0].GetOperator(), MetadataUri: uri,
			Indices: s.indices, Proofs: pb}
		err := apph.Tx(ctx, func(ctx sdk.Context) error {
			_, e := srv.SubmitValidityProof(ctx, msg)
			return e
		})
		obs, class := "(Ok tt)", "accepted"
		info := map[string]any{"kind": "submit", "tag": s.tag, "indices": s.indices, "proof_ids": s.proofs, "hash_ids": s.hashes}
		if err != nil {
			info["err"] = err.Error()
			if strings.HasPrefix(err.Error(), "panic:") {
				obs, class = "Panic", "panic"
			} else {
				cl, perr := submitErrClass(err)
				if perr != nil {
					return perr
				}
				obs, class = fmt.Sprintf("(Err %d)", cl), fmt.Sprintf("err%d", cl)
			}
		}
		// oracle tables: the harness's own calls of the same library functions
		var parseT, verT []string
		seenP := map[int]bool{}
		seenV := map[[2]int]bool{}
		reached := false
		for i, pid := range s.proofs {
			p := z.proofs[pid]
			if !seenP[pid] {
				seenP[pid] = true
				parseT = append(parseT, emit.Tuple(emit.ZI(int64(pid)), emit.Bool(p.parses)))
			}
			if i >= len(s.indices) || !p.parses {
				continue
			}
			j := s.indices[i]
			if j < 0 || j >= int64(len(s.hashes)) {
				continue
			}
			hh := z.hashes[s.hashes[j]]
			key := [2]int{pid, hh.id}
			if seenV[key] {
				continue
			}
			seenV[key] = true
			reached = true
			verT = append(verT, emit.Tuple(emit.ZI(int64(pid)), emit.ZI(int64(hh.id)), emit.Bool(z.verify(p, hh)), z.expected(p, hh)))
		}
		hs := make([]int64, len(s.hashes))
		for i, id := range s.hashes {
			hs[i] = int64(id)
		}
		ps := make([]int64, len(s.proofs))
		for i, id := range s.proofs {
			ps[i] = int64(id)
		}
		// the stored result: the Proof record of (this item, this validator) after the call
		stored := "None"
		rec, found, gerr := h.App.DaKeeper.GetProof(ctx, uri, valBz)
		if gerr != nil {
			return gerr
		}
		if found {
			sp := make([]int64, len(rec.Proofs))
			for i, bz := range rec.Proofs {
				sp[i] = -1
				for _, p := range z.proofs {
					if bytes.Equal(p.bytes, bz) {
						sp[i] = int64(p.id)
						break
					}
				}
			}
			stored = fmt.Sprintf("(Some (%s, %s))", coqZs(rec.Indices), coqZs(sp))
			info["stored_indices"], info["stored_proof_ids"] = rec.Indices, sp
			c.st.Count("submit:record-stored")
		} else {
			c.st.Count("submit:nothing-stored")
		}
		term := fmt.Sprintf("CSubmit {| su_indices := %s; su_proofs := %s; su_hashes := %s; su_parse := %s; su_verify := %s; su_obs := %s; su_stored := %s |}",
			coqZs(s.indices), coqZs(ps), coqZs(hs), emit.List(parseT), emit.List(verT), obs, stored)
		c.cf.Add(term)
		kinds := make([]string, len(s.proofs))
		for i, id := range s.proofs {
			kinds[i] = z.proofs[id].kind
		}
		info["proof_kinds"] = kinds
		hk := make([]string, len(s.hashes))
		for i, id := range s.hashes {
			hk[i] = z.hashes[id].kind
		}
		info["hash_kinds"] = hk
		info["result"] = class
		c.st.Info(info)
		c.st.Evaluations++
		c.st.Count("submit:" + class)
		c.st.Count("submit-tag:" + strings.TrimPrefix(s.tag, "corpus:"))
		if reached {
			c.st.Nontriv(fmt.Sprintf("submit/%v/%v/%v", s.indices, s.proofs, s.hashes))
			c.st.Sample(info)
		}
		return nil
	}
	for ci, s := range all {
		if err := runOne(ctx, fmt.Sprint(ci), s); err != nil {
			return err
		}
	}
	if err := c.rotationCases(h, z, sender, srv, func(ctx sdk.Context, ci string, tag string, indices []int64, proofs []int) error {
		return runOne(ctx, ci, sub{hashes: []int{0, 1, 2}, indices: indices, proofs: proofs, tag: tag})
	}); err != nil {
		return err
	}
	if err := z.useKeyOf(ctx, h.App.DaKeeper); err != nil {
		return err
	}
	// the verification oracle on every honest proof against every pool hash (matching and mismatching)
	var verT, parseT []string
	for _, p := range z.proofs {
		parseT = append(parseT, emit.Tuple(emit.ZI(int64(p.id)), emit.Bool(p.parses)))
		if !p.parses {
			continue
		}
		for _, hh := range z.hashes {
			verT = append(verT, emit.Tuple(emit.ZI(int64(p.id)), emit.ZI(int64(hh.id)), emit.Bool(z.verify(p, hh)), z.expected(p, hh)))
			if z.verify(p, hh) {
				c.st.Count("oracle:verifies")
			} else {
				c.st.Count("oracle:rejects")
			}
		}
	}
	// carried by one more real (empty) submission
	uri := "ipfs://c20/oracle-matrix"
	if err := h.App.DaKeeper.SetPublishedData(ctx, datypes.PublishedData{
		MetadataUri: uri, ShardDoubleHashes: [][]byte{z.hashes[0].bytes}, Timestamp: h.Time,
		Status: datypes.Status_STATUS_CHALLENGING, Publisher: sender,
		PublishDataCollateral: sdk.Coins{}, SubmitInvalidityCollateral: sdk.Coins{}, PublishedTimestamp: h.Time,
	}); err != nil {
		return err
	}
	if err := apph.Tx(ctx, func(ctx sdk.Context) error {
		_, e := srv.SubmitValidityProof(ctx, &datypes.MsgSubmitValidityProof{Sender: sender, ValidatorAddress: vals[0].GetOperator(), MetadataUri: uri})
		return e
	}); err != nil {
		return fmt.Errorf("c20: empty submission rejected: %w", err)
	}
	storedM := "None"
	if rec, found, gerr := h.App.DaKeeper.GetProof(ctx, uri, valBz); gerr != nil {
		return gerr
	} else if found {
		storedM = fmt.Sprintf("(Some (%s, %s))", coqZs(rec.Indices), coqZs(make([]int64, len(rec.Proofs))))
	}
	term := fmt.Sprintf("CSubmit {| su_indices := []; su_proofs := []; su_hashes := [0]; su_parse := %s; su_verify := %s; su_obs := (Ok tt); su_stored := %s |}",
		emit.List(parseT), emit.List(verT), storedM)
	c.cf.Add(term)
	pk := map[string]string{}
	for _, p := range z.proofs {
		pk[fmt.Sprint(p.id)] = p.kind
	}
	hk := map[string]string{}
	for _, hh := range z.hashes {
		hk[fmt.Sprint(hh.id)] = hh.kind
	}
	c.st.Info(map[string]any{"kind": "oracle-matrix", "proofs": pk, "hashes": hk,
		"note": "every parseable pool proof verified directly against every pool double hash; expectation = oracle contract"})
	c.st.Evaluations++
	c.st.Extra["proof_pool"] = pk
	c.st.Extra["hash_pool"] = hk
	return nil
}

// Key rotation through Msg/UpdateParams executed on a branch of state (as in FinalizeBlock before
// the commit), with submissions on the committed state below it (what CheckTx / simulation run
// on, old params), on the branch (new params) and after the commit: every message must be judged
// under the verifying key of the params of ITS state.
func (c *ctxRun) rotationCases(h *apph.H, z *zk, sender string, srv datypes.MsgServer,
	run func(ctx sdk.Context, ci, tag string, indices []int64, proofs []int) error) error {
	ctx := h.Ctx()
	authority := sdk.AccAddress(h.App.DaKeeper.GetAuthority()).String()
	rotate := func(ctx sdk.Context, to int) error {
		p, err := h.App.DaKeeper.Params.Get(ctx)
		if err != nil {
			return err
		}
		p.ZkpVerifyingKey, p.ZkpProvingKey = z.vkBytes[to], z.pkBytes[to]
		c.st.Count("rotation:UpdateParams")
		return apph.Tx(ctx, func(ctx sdk.Context) error {
			_, e := srv.UpdateParams(ctx, &datypes.MsgUpdateParams{Authority: authority, Params: p})
			return e
		})
	}
	proofsOf := func(key int) []int { // honest proofs for shards 0,1,2 made with that key
		if key == 1 {
			return z.idsB
		}
		return []int{0, 1, 2}
	}
	n := 0
	step := func(ctx sdk.Context, tag string, indices []int64, proofs []int) error {
		n++
		return run(ctx, fmt.Sprintf("rot-%d", n), "rotation:"+tag, indices, proofs)
	}
	all3 := []int64{0, 1, 2}
	cur := 0
	for round := 0; round < 2; round++ {
		for leg := 0; leg < 2; leg++ {
			next := 1 - cur
			// before the rotation, committed state
			if err := step(ctx, "before:current-key-proofs", all3, proofsOf(cur)); err != nil {
				return err
			}
			if err := step(ctx, "before:other-key-proof", []int64{1}, proofsOf(next)[1:2]); err != nil {
				return err
			}
			// the rotation executes on a branch of state (the block being finalized); the
			// committed state below it (what CheckTx / simulation run on) keeps the old params
			fin, commit := ctx.CacheContext()
			if err := rotate(fin, next); err != nil {
				return fmt.Errorf("c20: UpdateParams failed: %w", err)
			}
			if err := step(ctx, "check-state:old-key-proofs", all3, proofsOf(cur)); err != nil {
				return err
			}
			if err := step(ctx, "check-state:new-key-proof", []int64{2}, proofsOf(next)[2:3]); err != nil {
				return err
			}
			// on the branch the new key is in force
			if err := step(fin, "finalize-state:new-key-proofs", all3, proofsOf(next)); err != nil {
				return err
			}
			if err := step(fin, "finalize-state:old-key-proof", []int64{0}, proofsOf(cur)[0:1]); err != nil {
				return err
			}
			if err := step(ctx, "check-state-again:old-key-proof", []int64{1}, proofsOf(cur)[1:2]); err != nil {
				return err
			}
			commit()
			// after the commit, committed state
			if err := step(ctx, "after:new-key-proofs", all3, proofsOf(next)); err != nil {
				return err
			}
			if err := step(ctx, "after:old-key-proof", []int64{0}, proofsOf(cur)[0:1]); err != nil {
				return err
			}
			if err := step(ctx, "after:mixed-keys", []int64{0, 1}, []int{proofsOf(next)[0], proofsOf(cur)[1]}); err != nil {
				return err
			}
			cur = next
		}
	}
	return nil
}
