package c20

import (
	"fmt"
	"strconv"

	"verifharness/emit"
)

// Call SEQUENCES inside one process.  The model is a pure function of each call's arguments,
// so any state kept between calls by the implementation (an encoder cache, a reused buffer,
// a shared matrix) shows up as a correspondence mismatch as soon as two calls that share the
// leaked state follow each other.  A family is a set of configurations that such state could
// plausibly confuse: all splits of one decimal string str(k)+str(m), the exchanged pair (m,k),
// other splits of the same total, the same k with another m, the same m with another k.
// Every family is run forwards and backwards (so every configuration is also repeated after
// the others have been used), once call by call and once interleaved:
// encode A, encode B, ..., JoinShards A, ..., reconstruct A, reconstruct B, ...

type cfg struct{ k, m int }

func validCfg(k, m int) bool { return k >= 1 && m >= 0 && k+m <= 256 }

// all (k', m') with str(k')+str(m') == s, no leading zeros, valid
func splitsOf(s string) []cfg {
	var out []cfg
	for i := 1; i < len(s); i++ {
		a, b := s[:i], s[i:]
		if a[0] == '0' || (len(b) > 1 && b[0] == '0') {
			continue
		}
		k, _ := strconv.Atoi(a)
		m, _ := strconv.Atoi(b)
		if validCfg(k, m) {
			out = append(out, cfg{k, m})
		}
	}
	return out
}

func (c *ctxRun) family(k, m int) []cfg {
	r := c.r
	seen := map[cfg]bool{}
	var fam []cfg
	add := func(x cfg) {
		if validCfg(x.k, x.m) && !seen[x] {
			seen[x] = true
			fam = append(fam, x)
		}
	}
	add(cfg{k, m})
	for _, x := range splitsOf(strconv.Itoa(k) + strconv.Itoa(m)) {
		add(x)
	}
	add(cfg{m, k}) // exchanged
	n := k + m
	for i := 0; i < 2; i++ { // same total
		k2 := 1 + r.Intn(n)
		add(cfg{k2, n - k2})
	}
	add(cfg{k, r.Intn(257 - k)})                                    // same k
	add(cfg{1 + r.Intn(256-m), m})                                  // same m
	for _, x := range splitsOf(strconv.Itoa(m) + strconv.Itoa(k)) { // digits of the exchanged pair
		if len(fam) < 10 {
			add(x)
		}
	}
	return fam
}

func (c *ctxRun) seqRound(x cfg) roundCase {
	r := c.r
	size := 1 + r.Intn(3)
	if x.k > 40 {
		size = 1
	}
	ln := x.k*size - r.Intn(x.k)
	if ln < 1 {
		ln = 1
	}
	n := x.k + x.m
	var e int
	switch r.Intn(5) {
	case 0:
		e = 0
	case 1, 2:
		e = x.m
	case 3:
		e = x.m + 1
	default:
		e = r.Intn(x.m + 1)
	}
	if e > n {
		e = n
	}
	perm := make([]int, n)
	for i := range perm {
		perm[i] = i
	}
	for i := n - 1; i > 0; i-- {
		j := r.Intn(i + 1)
		perm[i], perm[j] = perm[j], perm[i]
	}
	erased := append([]int{}, perm[:e]...)
	return roundCase{Blob: c.genBlob(ln), K: x.k, M: x.m, Erased: erased, Empty: c.lossEncoding(erased), Pattern: "sequence"}
}

// JoinShards on the freshly encoded shards of p (no reconstruction involved)
func (c *ctxRun) seqJoin(p *pendingRound) {
	if p.enc.panicked || p.enc.err != nil {
		return
	}
	in := cloneShards(p.enc.shards)
	before := cloneShards(in)
	out := len(p.rc.Blob)
	rec := realReconstruct(in, p.rc.K, out, true)
	term := fmt.Sprintf("CRec {| rj_in := %s; rj_k := %s; rj_out := %s; rj_join_only := true; rj_res := %s; rj_post := %s; rj_ghost := None |}",
		coqShards(before), emit.ZI(int64(p.rc.K)), emit.ZI(int64(out)), rec.coq(), coqShards(in))
	c.cf.Add(term)
	info := map[string]any{"kind": "sequence:join", "k": p.rc.K, "m": p.rc.M, "blob_len": out, "result": rec.class()}
	if rec.err != nil {
		info["err"] = rec.err.Error()
	}
	c.st.Info(info)
	c.st.Count("sequence:join:" + rec.class())
	c.st.Evaluations++
}

func (c *ctxRun) runFamily(fam []cfg, tag string) {
	order := append([]cfg{}, fam...)
	for i := len(fam) - 1; i >= 0; i-- { // and back again
		order = append(order, fam[i])
	}
	c.st.Count("sequence:families")
	// (1) call by call
	for _, x := range order {
		c.rsRound(c.seqRound(x), tag)
		c.st.Count("sequence:rounds")
	}
	// (2) interleaved: all encodes, then the joins, then the reconstructions in another order
	var pend []*pendingRound
	for _, x := range order {
		pend = append(pend, c.roundEncode(c.seqRound(x), tag+":interleaved"))
	}
	for i, p := range pend {
		if i%3 == 0 {
			c.seqJoin(p)
		}
	}
	for i := len(pend) - 1; i >= 0; i-- {
		c.roundFinish(pend[i])
		c.st.Count("sequence:rounds")
	}
}

// fixed families first (regression corpus), then generated ones
func (c *ctxRun) rsSequences(nGen int) {
	for _, s := range []string{"333", "222", "111", "1212"} {
		c.runFamily(splitsOf(s), "sequence:corpus:"+s)
	}
	c.runFamily([]cfg{{4, 2}, {2, 4}, {4, 2}, {3, 3}, {4, 4}}, "sequence:corpus:small")
	r := c.r
	for i := 0; i < nGen; i++ {
		var k, m int
		switch r.Intn(4) {
		case 0: // strings with several valid splits: k, m from small digit alphabets
			k = 1 + r.Intn(25)
			m = 1 + r.Intn(25)
		case 1:
			k = 1 + r.Intn(9)
			m = 10 + r.Intn(90)
		case 2:
			k = 10 + r.Intn(60)
			m = r.Intn(10)
		default:
			k = 1 + r.Intn(12)
			m = r.Intn(12)
		}
		c.runFamily(c.family(k, m), "sequence:gen")
	}
}
