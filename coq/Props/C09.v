(* C09 — DA verdicts and validator fault counts are per item, by distinct validators.
   Only statements, each closed by [exact]; proofs live in Da/TallyProofs.v, Da/TallyPerm.v.

   The model (Da/Tally.v) is the tally body of x/da/keeper/abci.go, GetZkpThreshold and
   HandleSlashEpoch after the four repairs notes/patches/C09-*.patch; [tally_item1],
   [tally_block], [slash_epoch true] are the repaired code, the same functions with the
   repair flags off are the code as found ([C09_found_*] below are its witnesses).
   [verdict_spec], [faulted_spec], [slashed_spec] are written from the property text on sets
   of distinct validators.  [item_wf] is what the message handlers guarantee about stored
   records: every stored index is a shard number, parity <= shard count. *)
From Coq Require Import ZArith List Bool Permutation.
Import ListNotations.
From Sunrise Require Import Base.Outcome Base.Dec Da.Tally Da.TallyProofs Da.TallyPerm Da.C09Check Da.C09Sound.
Local Open Scope Z_scope.

(* "A challenged item is rejected exactly when the number of shards proven by enough distinct
    bonded validators, plus the parity shard count, is smaller than the shard count" *)
Theorem C09_verdict_eq_spec : forall rf active it r,
  item_wf it = true -> tally_item1 rf active it = Some r ->
  ir_verdict r = verdict_spec rf it.
Proof. exact verdict_eq_spec. Qed.
Print Assumptions C09_verdict_eq_spec.

(* "repeating an index or proving twice does not count twice": two sets of stored records
   with the same set of provers for every shard get the same verdict *)
Theorem C09_duplicates_do_not_count : forall rf active it it' r r',
  item_wf it = true -> item_wf it' = true ->
  it_n it = it_n it' -> it_parity it = it_parity it' ->
  (forall i v, In v (provers (it_proofs it) i) <-> In v (provers (it_proofs it') i)) ->
  tally_item1 rf active it = Some r -> tally_item1 rf active it' = Some r' ->
  ir_verdict r = ir_verdict r'.
Proof. exact verdict_depends_on_prover_sets. Qed.
Print Assumptions C09_duplicates_do_not_count.

(* "A validator's fault counter rises by one for an item exactly when it was assigned a shard
    that was proven safe and did not prove it": the set of validators charged for an item *)
Theorem C09_faults_eq_spec : forall rf active it r,
  item_wf it = true -> tally_item1 rf active it = Some r ->
  NoDup (ir_faults r) /\ forall v, In v (ir_faults r) <-> faulted_spec rf active it v = true.
Proof. exact faults_eq_spec. Qed.
Print Assumptions C09_faults_eq_spec.

(* ... "independently of which other items are tallied in the same block": after a block that
   tallies [its], every counter has risen by the number of items on which its validator is at
   fault by the reference, the challenge counter by the number of items, every verdict is the
   reference verdict *)
Theorem C09_counter_rises_by_one_per_faulted_item : forall rf active its st st' vs,
  active <> [] ->
  Forall (fun it => item_wf it = true) its ->
  tally_block rf active its st = Some (st', vs) ->
  (forall x, ts_fc st' x = ts_fc st x +
             Z.of_nat (length (filter (fun it => faulted_spec rf active it x) its))) /\
  ts_cc st' = ts_cc st + Z.of_nat (length its) /\
  vs = map (fun it => Some (verdict_spec rf it)) its.
Proof. exact counter_rises_by_one_per_faulted_item. Qed.
Print Assumptions C09_counter_rises_by_one_per_faulted_item.

(* ... "and in what order": any permutation of the items of a block gives the same counters,
   and every item the verdict it gets alone (no well-formedness hypothesis needed) *)
Theorem C09_tally_order_independent : forall rf active its its' st st1 vs1,
  active <> [] ->
  Permutation its its' ->
  tally_block rf active its st = Some (st1, vs1) ->
  exists st2 vs2,
    tally_block rf active its' st = Some (st2, vs2) /\
    (forall x, ts_fc st1 x = ts_fc st2 x) /\ ts_cc st1 = ts_cc st2 /\
    Forall2 (item_verdict rf active) its vs1 /\ Forall2 (item_verdict rf active) its' vs2.
Proof. exact tally_order_independent. Qed.
Print Assumptions C09_tally_order_independent.

(* without a bonded validator GetZkpThreshold fails for every item and the tally skips it:
   nothing changes (the verdict list carries None = still Challenging), in any order *)
Theorem C09_tally_no_bonded_validator : forall rf its st,
  tally_block rf [] its st = Some (st, map (fun _ => None) its).
Proof. intros. exact (tally_items_noactive true true true rf its [] st). Qed.
Print Assumptions C09_tally_no_bonded_validator.

(* grouping: one block tallying a ++ b = a block tallying a followed by a block tallying b *)
Theorem C09_tally_split_blocks : forall rf active a b st,
  tally_block rf active (a ++ b) st =
  match tally_block rf active a st with
  | Some (s, va) =>
      match tally_block rf active b s with
      | Some (s', vb) => Some (s', va ++ vb)
      | None => None
      end
  | None => None
  end.
Proof. exact tally_split_blocks. Qed.
Print Assumptions C09_tally_split_blocks.

(* "at epoch end exactly the bonded validators whose faults exceed the threshold share of
    challenges are slashed and jailed, and counters are reset" *)
Theorem C09_slash_exactly : forall sft info dom st sl st',
  NoDup dom ->
  slash_epoch true sft info dom st = Some (sl, st') ->
  (forall v, In v sl <-> In v dom /\ slashed_spec sft info st v = true) /\
  (forall v, In v dom -> ts_fc st' v = 0) /\
  (forall v, ~ In v dom -> ts_fc st' v = ts_fc st v) /\
  ts_cc st' = 0.
Proof. exact slash_exactly. Qed.
Print Assumptions C09_slash_exactly.

(* the threshold share used by [slashed_spec] is the ceiling of threshold * challenges *)
Theorem C09_slash_threshold_is_ceiling : forall sft cc thr,
  0 <= sft -> 0 <= cc -> slash_threshold sft cc = Some thr ->
  (thr - 1) * P < sft * cc <= thr * P.
Proof. exact slash_threshold_ceil. Qed.
Print Assumptions C09_slash_threshold_is_ceiling.

(* operators without a counter are never slashed (the walk over stored counters may be
   modelled over any duplicate-free superset of them) *)
Theorem C09_slash_needs_positive_counter : forall sft info st v,
  slashed_spec sft info st v = true -> 0 < ts_fc st v.
Proof. exact slash_needs_positive_counter. Qed.
Print Assumptions C09_slash_needs_positive_counter.

(* "enough": the decimal threshold of the code against the exact 2/3 * rf * data / total *)
Theorem C09_safe_threshold_bracket : forall rf n parity t,
  0 <= rf -> 0 < n -> 0 <= parity <= n -> safe_thr rf n parity = Some t ->
  3 * n * t <= 2 * rf * (n - parity) < 3 * n * t + 5 * n.
Proof. exact safe_thr_bracket. Qed.
Print Assumptions C09_safe_threshold_bracket.

(* GetZkpThreshold as rewritten by commit 9a90e6f (decimal clamp, no int64 detour) returns what
   the former min(max(ceil(..).TruncateInt64(),1),n) returned wherever that did not panic, and
   lies in 1..n *)
Theorem C09_zkp_threshold_same_as_old : forall rf n nact t,
  1 <= n -> zkp_threshold_old rf n nact = Some t -> zkp_threshold rf n nact = Some t.
Proof. exact zkp_threshold_same_as_old. Qed.
Print Assumptions C09_zkp_threshold_same_as_old.

Theorem C09_zkp_threshold_range : forall rf n nact thr,
  1 <= n -> zkp_threshold rf n nact = Some thr -> 1 <= thr <= n.
Proof. exact zkp_threshold_range. Qed.
Print Assumptions C09_zkp_threshold_range.

(* Go's map iteration order is not observable in the tally *)
Theorem C09_map_order_irrelevant : forall g rf active fs0 it cnt cnt' sub r,
  Permutation cnt cnt' ->
  tally_item_ord g rf active fs0 it cnt sub = Some r ->
  exists r', tally_item_ord g rf active fs0 it cnt' sub = Some r' /\
    ir_verdict r' = ir_verdict r /\ Permutation (ir_safe r) (ir_safe r') /\
    (forall v, In v (ir_faults r) <-> In v (ir_faults r')) /\
    (NoDup fs0 -> NoDup (ir_faults r) /\ NoDup (ir_faults r')).
Proof. exact map_order_irrelevant. Qed.
Print Assumptions C09_map_order_irrelevant.

Theorem C09_counter_update_order_irrelevant : forall l l' f,
  NoDup l -> NoDup l' -> (forall v, In v l <-> In v l') ->
  forall x, fold_left bump l f x = fold_left bump l' f x.
Proof. exact counter_update_order_irrelevant. Qed.
Print Assumptions C09_counter_update_order_irrelevant.

(* ---- the code as found (before the repairs): witnesses, each replayed on the implementation *)

Theorem C09_found_duplicate_index_counts_twice :
  item_wf w_dup = true /\ NoDup (map pf_sender (it_proofs w_dup)) /\
  option_map ir_verdict (tally_item false true rf5 [1; 2; 3; 4] [] w_dup) = Some Verified /\
  verdict_spec rf5 w_dup = Rejected /\
  option_map ir_verdict (tally_item1 rf5 [1; 2; 3; 4] w_dup) = Some Rejected.
Proof. exact found_duplicate_index_counts_twice. Qed.
Print Assumptions C09_found_duplicate_index_counts_twice.

Theorem C09_found_faults_leak_between_items :
  fc_after (tally_items true false true rf3 [1; 2; 3; 4] [] [w_A; w_B] st0) 4 = Some 2 /\
  fc_after (tally_items true false true rf3 [1; 2; 3; 4] [] [w_B; w_A] st0) 4 = Some 1 /\
  faulted_spec rf3 [1; 2; 3; 4] w_A 4 = true /\ faulted_spec rf3 [1; 2; 3; 4] w_B 4 = false /\
  fc_after (tally_block rf3 [1; 2; 3; 4] [w_A; w_B] st0) 4 = Some 1 /\
  fc_after (tally_block rf3 [1; 2; 3; 4] [w_B; w_A] st0) 4 = Some 1.
Proof. exact found_faults_leak_between_items. Qed.
Print Assumptions C09_found_faults_leak_between_items.

Theorem C09_found_zero_challengers_panics :
  item_wf w_zero = true /\
  tally_item true false rf5 [1] [] w_zero = None /\
  option_map ir_verdict (tally_item1 rf5 [1] w_zero) = Some Rejected.
Proof. exact found_zero_challengers_panics. Qed.
Print Assumptions C09_found_zero_challengers_panics.

Theorem C09_found_removed_validator_counter_survives :
  option_map (fun x => ts_fc (snd x) 91) (slash_epoch false (P / 2) w_info [1; 2; 91] w_st) = Some 3 /\
  option_map (fun x => ts_fc (snd x) 91) (slash_epoch true (P / 2) w_info [1; 2; 91] w_st) = Some 0.
Proof. exact found_removed_validator_counter_survives. Qed.
Print Assumptions C09_found_removed_validator_counter_survives.

(* why [item_wf] is needed: without the handler's range check an index outside 0..n-1 counts as a shard *)
Theorem C09_out_of_range_index_would_count :
  item_wf w_oor = false /\
  option_map ir_verdict (tally_item1 (3 * P / 2) [1; 2] w_oor) = Some Verified /\
  verdict_spec (3 * P / 2) w_oor = Rejected.
Proof. exact out_of_range_index_would_count. Qed.
Print Assumptions C09_out_of_range_index_would_count.

(* ---- non-vacuity: a block with two well-formed items (one with a repeated index, one
   leaving validator 4 at fault) that the repaired tally processes without panic, followed
   by an epoch end that slashes exactly validator 4 *)
Example C09_nonvacuous :
  let its := [w_A; w_dup; w_B] in
  let active := [1; 2; 3; 4] in
  let st := {| ts_fc := fun v => if v =? 4 then 2 else 0; ts_cc := 1 |} in
  Forall (fun it => item_wf it = true) its /\
  exists st' vs, tally_block rf3 active its st = Some (st', vs) /\
    vs = [Some Verified; Some Verified; Some Verified] /\ ts_fc st' 4 = 4 /\ ts_fc st' 1 = 0 /\ ts_cc st' = 4 /\
    exists sl st'', slash_epoch true (P / 2) w_info [1; 2; 3; 4] st' = Some (sl, st'') /\
      sl = [4] /\ NoDup [1; 2; 3; 4] /\ 0 <= P / 2 /\ 0 <= ts_cc st'.
Proof.
  cbv zeta. split; [repeat constructor|].
  eexists. eexists. split; [vm_compute; reflexivity|]. simpl.
  repeat split; try reflexivity.
  eexists. eexists. split; [vm_compute; reflexivity|].
  repeat split; try reflexivity; try (repeat constructor; simpl; intuition congruence); vm_compute; congruence.
Qed.

(* the whole DA end blocker (tally of the due items, then the epoch end when the height is a
   multiple of the epoch) against the reference; [mid_of] = counters as the property says they
   stand after the tally.  Monitors 1-3 of Da/C09Check.v evaluate exactly these clauses on
   the implementation's observations. *)
Theorem C09_end_block_spec : forall rf sft epoch active info dom its st st' vs sl,
  Forall (fun it => item_wf it = true) its -> NoDup dom ->
  end_block all_fixed rf sft epoch active info dom its st = Some (st', vs, sl) ->
  vs = expected_verdicts rf active its /\
  if epoch then
    (forall v, In v sl <-> In v dom /\ slashed_spec sft info (mid_of rf active its st) v = true) /\
    (forall v, In v dom -> ts_fc st' v = 0) /\ ts_cc st' = 0
  else
    sl = [] /\ (forall x, ts_fc st' x = ts_fc (mid_of rf active its st) x) /\
    ts_cc st' = ts_cc (mid_of rf active its st).
Proof. exact end_block_spec. Qed.
Print Assumptions C09_end_block_spec.

(* the monitors demand no more than the proved model delivers: whenever the observation of an
   end blocker agrees with the model's prediction, monitors 1-3 are true on it *)
Theorem C09_monitors_sound : forall p o,
  block_corr p o = true ->
  mon_verdict p o = true /\ mon_faults p o = true /\ mon_slash p o = true.
Proof. exact monitors_sound. Qed.
Print Assumptions C09_monitors_sound.
