// dev_c19: a harness binary containing only package c19 (fast, isolated iteration).
package main

import (
	"flag"
	"fmt"
	"os"

	"verifharness/c19"
)

func main() {
	fs := flag.NewFlagSet("c19", flag.ExitOnError)
	seed := fs.Int64("seed", 1, "PRNG seed")
	n := fs.Int("n", 100, "number of generated cases")
	out := fs.String("out", ".", "output directory")
	if len(os.Args) > 1 && os.Args[1] == "c19" {
		fs.Parse(os.Args[2:])
	} else {
		fs.Parse(os.Args[1:])
	}
	if err := os.MkdirAll(*out, 0o755); err != nil {
		panic(err)
	}
	if err := c19.Run(*seed, *n, *out); err != nil {
		fmt.Println("HARNESS-ERROR", err)
		os.Exit(3)
	}
}
