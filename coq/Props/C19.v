(* C19 — Genesis export/import preserves every custom module's state.
   Only statements, each closed by [exact]; proofs live in Sys/GenesisProofs.v and
   Sys/GenesisCoverage.v.  Model: Sys/Genesis.v (the eight x/<m>/keeper/genesis.go files). *)
From Coq Require Import ZArith List Bool String Sorted.
Import ListNotations.
From Sunrise Require Import Sys.Genesis Sys.GenesisProofs Gen.Prefixes_gen Sys.GenesisCoverage.
Local Open Scope Z_scope.

(* For every module table, every setter oracle and every well-formed state that exports:
   InitGenesis (ExportGenesis s) = s  iff  the fields genesis.go never exports are empty. *)
Theorem C19_roundtrip_iff : forall m img cdef s g,
  indexes_ok m = true -> List.length s = nfields m -> wf m img s -> export m cdef s = Some g ->
  (init m img g = s <-> forall f, In f (lost_fields m) -> field s f = []).
Proof. exact roundtrip_iff. Qed.
Print Assumptions C19_roundtrip_iff.

(* without the well-formedness assumption: field by field what has to hold *)
Theorem C19_roundtrip_generic : forall m img cdef s g,
  indexes_ok m = true -> List.length s = nfields m -> export m cdef s = Some g ->
  (init m img g = s <-> forall f, (f < nfields m)%nat -> field_ok m img s f).
Proof. exact roundtrip_generic. Qed.
Print Assumptions C19_roundtrip_generic.

(* the collection part of [wf] follows from the stores' own invariant: ascending keys and a
   setter that files every value under its own key *)
Theorem C19_collection_rebuilt : forall img c s,
  StronglySorted (fun a e => fst a < fst e) s ->
  (forall k v, In (k, v) s -> forall acc, put_image c (img c k) acc = insert k v acc) ->
  rebuild img c c s = s.
Proof. exact rebuild_own. Qed.
Print Assumptions C19_collection_rebuilt.

(* modules whose genesis is complete *)
Theorem C19_fee_roundtrip : roundtrips fee_spec. Proof. exact fee_roundtrip. Qed.
Print Assumptions C19_fee_roundtrip.
Theorem C19_tokenconverter_roundtrip : roundtrips tokenconverter_spec. Proof. exact tokenconverter_roundtrip. Qed.
Print Assumptions C19_tokenconverter_roundtrip.
Theorem C19_swap_roundtrip : roundtrips swap_spec. Proof. exact swap_roundtrip. Qed.
Print Assumptions C19_swap_roundtrip.
Theorem C19_liquidityincentive_roundtrip : roundtrips liquidityincentive_spec. Proof. exact liquidityincentive_roundtrip. Qed.
Print Assumptions C19_liquidityincentive_roundtrip.

(* modules that lose state: one witness per (module, prefix) — a well-formed state that
   exports, holds an entry under the prefix, and comes back without it *)
Theorem C19_liquiditypool_tick_infos_refuted : refuted liquiditypool_spec 7. Proof. exact liquiditypool_tick_infos_refuted. Qed.
Print Assumptions C19_liquiditypool_tick_infos_refuted.
Theorem C19_da_challenge_counts_refuted : refuted da_spec 3. Proof. exact da_challenge_counts_refuted. Qed.
Print Assumptions C19_da_challenge_counts_refuted.
Theorem C19_da_fault_counts_refuted : refuted da_spec 4. Proof. exact da_fault_counts_refuted. Qed.
Print Assumptions C19_da_fault_counts_refuted.
Theorem C19_da_invalidities_refuted : refuted da_spec 6. Proof. exact da_invalidities_refuted. Qed.
Print Assumptions C19_da_invalidities_refuted.
Theorem C19_da_proof_deputies_refuted : refuted da_spec 7. Proof. exact da_proof_deputies_refuted. Qed.
Print Assumptions C19_da_proof_deputies_refuted.
Theorem C19_shareclass_unbondings_refuted : refuted shareclass_spec 1. Proof. exact shareclass_unbondings_refuted. Qed.
Print Assumptions C19_shareclass_unbondings_refuted.
Theorem C19_shareclass_unbondings_by_address_refuted : refuted shareclass_spec 2. Proof. exact shareclass_unbondings_by_address_refuted. Qed.
Print Assumptions C19_shareclass_unbondings_by_address_refuted.
Theorem C19_shareclass_unbondings_by_time_refuted : refuted shareclass_spec 3. Proof. exact shareclass_unbondings_by_time_refuted. Qed.
Print Assumptions C19_shareclass_unbondings_by_time_refuted.
Theorem C19_shareclass_unbonding_id_refuted : refuted shareclass_spec 4. Proof. exact shareclass_unbonding_id_refuted. Qed.
Print Assumptions C19_shareclass_unbonding_id_refuted.
Theorem C19_shareclass_reward_multiplier_refuted : refuted shareclass_spec 5. Proof. exact shareclass_reward_multiplier_refuted. Qed.
Print Assumptions C19_shareclass_reward_multiplier_refuted.
Theorem C19_shareclass_users_last_reward_multiplier_refuted : refuted shareclass_spec 6. Proof. exact shareclass_users_last_reward_multiplier_refuted. Qed.
Print Assumptions C19_shareclass_users_last_reward_multiplier_refuted.
Theorem C19_shareclass_last_reward_handling_time_refuted : refuted shareclass_spec 7. Proof. exact shareclass_last_reward_handling_time_refuted. Qed.
Print Assumptions C19_shareclass_last_reward_handling_time_refuted.
Theorem C19_selfdelegation_lockup_accounts_refuted : refuted selfdelegation_spec 1. Proof. exact selfdelegation_lockup_accounts_refuted. Qed.
Print Assumptions C19_selfdelegation_lockup_accounts_refuted.
Theorem C19_selfdelegation_proxies_refuted : refuted selfdelegation_spec 2. Proof. exact selfdelegation_proxies_refuted. Qed.
Print Assumptions C19_selfdelegation_proxies_refuted.

(* every field of every module is decided: reproduced whenever the lost fields are empty, and
   each lost field has its witness *)
Theorem C19_every_field_decided : forall m, In m all_specs -> forall f, (f < nfields m)%nat ->
  (forall img cdef s g, List.length s = nfields m -> wf m img s -> export m cdef s = Some g ->
     (forall f', In f' (lost_fields m) -> field s f' = []) -> field (init m img g) f = field s f) /\
  (In f (lost_fields m) -> refuted m f).
Proof. exact every_field_decided. Qed.
Print Assumptions C19_every_field_decided.

(* the property as stated (every module round-trips on every well-formed state) is false for
   the code as it is *)
Definition C19_full : Prop := forall m, In m all_specs -> roundtrips m.
Theorem C19_full_refuted : ~ C19_full.
Proof. exact full_refuted. Qed.
Print Assumptions C19_full_refuted.

(* coverage, re-proved against the regenerated Gen/Prefixes_gen.v on every run: every store
   prefix present in x/<m>/types and x/<m>/keeper is a field of the model (or a listed key
   component), and every field of the model exists in the source *)
Theorem C19_prefixes_modelled : forall g, In g gen_prefixes -> entry_modelled g = true.
Proof. exact prefixes_modelled. Qed.
Print Assumptions C19_prefixes_modelled.
Theorem C19_model_fields_in_source : forall m, In m all_specs -> forall fs, In fs (m_fields m) ->
  field_in_source gen_prefixes m fs = true.
Proof. exact model_fields_in_source. Qed.
Print Assumptions C19_model_fields_in_source.
(* static backstop for size-dependent export/import bugs: no paging helper, limit, slice or bounded
   iteration in the call graph of any ExportGenesis / InitGenesis (regenerated every run) *)
Theorem C19_genesis_sites_reviewed : forall g, In g gen_genesis_sites -> site_reviewed g = true.
Proof. exact (proj1 (forallb_forall _ _) genesis_sites_reviewed). Qed.
Print Assumptions C19_genesis_sites_reviewed.
Theorem C19_translator_understood_everything : gen_unknown = [].
Proof. exact translator_understood_everything. Qed.
Print Assumptions C19_translator_understood_everything.

(* non-vacuity: a liquidity-pool state with a pool, a position with its two index entries, an
   accumulator and its position record, both counters and the params — well formed, exports,
   and round-trips; the same state with one tick info does not *)
Definition nv_img : img_fn := fun c k =>
  if Nat.eqb c 1 then [(1%nat, (k, 100 + k))]
  else if Nat.eqb c 3 then [(3%nat, (k, 100 + k)); (5%nat, (40 + k, 0)); (6%nat, (50 + k, 0))]
  else if Nat.eqb c 8 then [(8%nat, (k, 100 + k))]
  else if Nat.eqb c 9 then [(9%nat, (k, 100 + k))]
  else [].
Definition nv_cdef : cdef_fn := fun f => (Z.of_nat f, 0).
Definition nv_state (ticks : store) : mstate :=
  [ [(1, 7)]; [(10, 110)]; [(2, 1)]; [(20, 120); (21, 121)]; [(4, 2)];
    [(60, 0); (61, 0)]; [(70, 0); (71, 0)]; ticks; [(30, 130)]; [(31, 131)] ].
Example C19_nonvacuous :
  indexes_ok liquiditypool_spec = true /\
  (forall ticks, List.length (nv_state ticks) = nfields liquiditypool_spec) /\
  wf_holds liquiditypool_spec nv_img (nv_state []) = true /\
  (exists g, export liquiditypool_spec nv_cdef (nv_state []) = Some g /\
             init liquiditypool_spec nv_img g = nv_state []) /\
  (exists g, export liquiditypool_spec nv_cdef (nv_state [(80, 9)]) = Some g /\
             init liquiditypool_spec nv_img g <> nv_state [(80, 9)] /\
             init liquiditypool_spec nv_img g = nv_state []).
Proof.
  split; [vm_compute; reflexivity|]. split; [intros; reflexivity|]. split; [vm_compute; reflexivity|].
  split; eexists; (split; [vm_compute; reflexivity|]).
  - vm_compute. reflexivity.
  - split; [vm_compute; discriminate|vm_compute; reflexivity].
Qed.
