(* The untrusted-input heads of every Msg / Query service method of the custom modules
   (x/{da,fee,liquidityincentive,liquiditypool,selfdelegation,shareclass,swap,tokenconverter}
   /keeper/msg_server*.go, msg_update_params.go, query*.go and the Params.Validate functions).

   A request message is flattened into field shapes [fval] (what a handler can observe of an
   untrusted field: is the math.Int absent, does the string parse as an address / integer /
   decimal / denom, ...).  The head of a handler is a list of [check]s in source order.
   Every check is one Go statement that either validates a field (returns an error), or
   *uses* it in a way that panics on a bad shape (method call on a nil math.Int, Must*
   constructors, sdk.NewCoin, indexing, unchecked int64 conversion).  State-dependent
   branches the model does not follow are [KMayStop] (the handler may return an error there
   or continue: the theorems quantify over both), the end of the modelled head is [KDeep].

   [specs hf] is the table of heads under the set of repairs [hf]: [all_off] is the tree at
   the pinned commit, [all_on] the tree after notes/patches/C15-*.patch.  A check written
   [g hf F c] exists only after repair F, [u hf F c] only before it. *)
From Coq Require Import ZArith List Bool String.
Import ListNotations.
From Sunrise Require Import Base.Outcome Base.Check Base.Dec Swap.Memo.
Local Open Scope Z_scope.
Local Open Scope res_scope.

(* ------------------------------------------------------------------ shapes *)
Record strinfo := {
  si_empty : bool;            (* s == "" *)
  si_acc : bool;              (* the account address codec accepts s *)
  si_val : bool;              (* the validator address codec accepts s *)
  si_auth : bool;             (* s decodes to the module authority *)
  si_int : option Z;          (* math.NewIntFromString *)
  si_dec : option Z;          (* math.LegacyNewDecFromStr, raw 10^18-scaled *)
  si_denom : bool;            (* sdk.ValidateDenom(s) == nil *)
  si_suffix : bool }.         (* sdk.ValidateDenom("shareclass/non-voting-share/" + s) == nil *)

Inductive fval :=
| VStr (s : strinfo)
| VInt (v : option Z)                       (* math.Int; None: the *big.Int inside is nil (field absent) *)
| VDec (v : option Z)                       (* math.LegacyDec *)
| VNum (v : Z)                              (* bool / (u)int32 / (u)int64 / duration / time *)
| VBytes (len : Z)
| VList (l : list fval)
| VMsg (present : bool) (fs : list fval)    (* sub-message; present=false: nil pointer *)
| VRoute (r : option route)                 (* swap Route; None: nil *Route *)
| VUnknown.

(* field kinds of a request type, generated from the Go types (Gen/Msgs_gen.v) *)
Inductive sig :=
| SStr | SInt | SDec | SNum | SBytes
| SList (s : sig)
| SMsg (ptr : bool) (fs : list sig)
| SRoute (ptr : bool)
| SUnknown.

Definition path := list nat.

Fixpoint get (p : path) (v : fval) : option fval :=
  match p with
  | [] => Some v
  | i :: p' =>
      match v with
      | VMsg true fs => match nth_error fs i with Some x => get p' x | None => None end
      | _ => None
      end
  end.

Fixpoint sig_get (p : path) (s : sig) : option sig :=
  match p with
  | [] => Some s
  | i :: p' =>
      match s with
      | SMsg _ fs => match nth_error fs i with Some x => sig_get p' x | None => None end
      | _ => None
      end
  end.

(* does an observed value have the generated signature? (run-time tie of the harness's
   flattening to Gen/Msgs_gen.v) *)
Fixpoint conforms (v : fval) (s : sig) : bool :=
  match v, s with
  | VStr _, SStr | VInt _, SInt | VDec _, SDec | VNum _, SNum | VBytes _, SBytes => true
  | VRoute None, SRoute true | VRoute (Some _), SRoute _ => true
  | VList l, SList s' => (fix all (l : list fval) := match l with [] => true | x :: tl => conforms x s' && all tl end) l
  | VMsg false _, SMsg true _ => true
  | VMsg true fs, SMsg _ ss =>
      (fix all2 (l : list fval) (ss : list sig) :=
         match l, ss with
         | [], [] => true
         | x :: tl, s' :: stl => conforms x s' && all2 tl stl
         | _, _ => false
         end) fs ss
  | _, _ => false
  end.

(* a valid validator address is made of bech32 characters, so the share denom built from it
   is a valid denom: consistency of two oracles, checked on every observed string *)
Definition wf_str (s : strinfo) : bool := implb (si_val s) (si_suffix s).
Fixpoint wf_val (v : fval) : bool :=
  match v with
  | VStr s => wf_str s
  | VList l | VMsg _ l => (fix all (l : list fval) := match l with [] => true | x :: tl => wf_val x && all tl end) l
  | _ => true
  end.

(* ------------------------------------------------------------------ repairs *)
Inductive fam :=
| FamNilInt      (* C15-nil-int-fields *)
| FamQuery       (* C15-swap-queries-validate *)
| FamFeeRate     (* C15-interface-fee-rate *)
| FamDa          (* C15-da-shard-count; the negative proof index is C07-shard-index-range / C20-negative-proof-index *)
| FamAddr        (* C15-query-address *)
| FamTick        (* C15-tick-int64 *)
| FamWeight      (* C15-vote-weight *)
| FamPool.       (* C15-create-pool-denoms *)
Record hfixes := { hf_on : fam -> bool; hf_memo : fixes }.
Definition all_on : hfixes := {| hf_on := fun _ => true; hf_memo := patched |}.
Definition all_off : hfixes := {| hf_on := fun _ => false; hf_memo := pristine |}.

(* ------------------------------------------------------------------ checks *)
Definition E_HEAD : Z := 10.      (* rejected by the modelled head *)
Definition E_STATE : Z := 11.     (* rejected at a state-dependent branch *)
Definition E_BADSHAPE : Z := 99.  (* the observation does not have the shape the head expects (harness bug) *)

Inductive check :=
| KReqNotNil                                      (* if req == nil { return InvalidArgument } *)
| KAddr (p : path)                                (* addressCodec.StringToBytes / AccAddressFromBech32 *)
| KValAddr (p : path)                             (* validatorAddressCodec.StringToBytes *)
| KAddrIfNonEmpty (p : path)                      (* if s != "" { AccAddressFromBech32(s) } *)
| KMustAddr (p : path)                            (* sdk.MustAccAddressFromBech32: panics *)
| KAuth (p : path)                                (* bytes.Equal(authority, ...) *)
| KPred (p : path) (pred : fval -> bool)          (* any pure validation: error when false *)
| KPred2 (p q : path) (pred : fval -> fval -> bool)
| KIntNotNil (p : path)                           (* x.IsNil() -> error *)
| KIntPositive (p : path)                         (* !x.IsPositive() -> error; nil: panic *)
| KIntNonNeg (p : path)                           (* x.IsNegative() -> error; nil: panic *)
| KIntUse (p : path)                              (* any other method on the Int; nil: panic *)
| KNewCoinAmt (p : path)                          (* sdk.NewCoin(trusted denom, x): panics on nil / negative *)
| KCoinValidate (p : path)                        (* coin.Validate() != nil -> error; never panics *)
| KCoinIsPositive (p : path)                      (* !coin.IsPositive() -> error; nil amount: panic *)
| KDecNotNil (p : path)
| KDecUse (p : path)                              (* method on a LegacyDec; nil: panic *)
| KStrIntOk (p : path)                            (* NewIntFromString: !ok -> error *)
| KStrIntPositive (p : path)
| KStrIntNonNeg (p : path)
| KStrIsInt64 (p : path)                          (* !x.IsInt64() -> error *)
| KStrInt64Use (p : path)                         (* x.Int64(): panics when out of range *)
| KStrIntNewCoin (p : path)                       (* sdk.NewCoin(denom, x): panics on negative *)
| KLenEq (p q : path)                             (* len(a) != len(b) -> error *)
| KIndexPair (p q : path)                         (* b[i] for i := range a: panics when len(a) > len(b) *)
| KIndexGuard (p : path)                          (* j < 0 || len(stored) <= j -> error, for every j (on the unbounded index) *)
| KIndexUpper (p : path)                          (* len(stored) <= j -> error only: the check before repair *)
| KIndexUse (p : path)                            (* stored[j]: panics unless 0 <= j < len(stored) *)
| KCoinsAmtNotNil (p : path)
| KCoinsValid (p : path)                          (* Coins.IsValid(): panics on a nil amount *)
| KWeights (fixed : bool) (p : path)              (* the VoteGauge weight loop *)
| KRouteValidate (mf : fixes) (p : path)          (* Route.Validate (Swap/Memo.v) *)
| KRouteDeref (p : path)                          (* *req.Route *)
| KRouteInspect (p : path)                        (* Route.InspectRoute (shape, Swap/Memo.v) *)
| KShareDenomUse (p : path)                       (* bank lookup of "shareclass/non-voting-share/"+s: panics on an invalid denom *)
| KNumInt64Use (p : path)                         (* int64(x) then a use that panics on negative values *)
| KAlwaysErr
| KMayStop
| KDeep
| KDone.                                          (* nothing after this point can fail: the handler returns success *)

(* read field p of the request; a nil request is a nil-pointer dereference *)
Definition rd (req : fval) (p : path) (k : fval -> res unit) : res unit :=
  match req with
  | VMsg false _ => Panic
  | _ => match get p req with Some v => k v | None => Err E_BADSHAPE end
  end.
Definition rd2 (req : fval) (p q : path) (k : fval -> fval -> res unit) : res unit :=
  rd req p (fun a => rd req q (fun b => k a b)).

Definition okif (b : bool) : res unit := if b then Ok tt else Err E_HEAD.
Definition bad : res unit := Err E_BADSHAPE.

Definition INT64_MIN : Z := - 2 ^ 63.
Definition INT64_MAX : Z := 2 ^ 63 - 1.
Definition is_int64 (z : Z) : bool := (INT64_MIN <=? z) && (z <=? INT64_MAX).

(* the VoteGauge loop over (pool_id, weight): parse, sign, (after repair) weight <= 1, add to
   the total (LegacyDec.Add panics outside the decimal range), (after repair) total <= 1 in
   the loop; before repair total <= 1 after the loop *)
Fixpoint weights_go (fixed : bool) (l : list fval) (total : Z) : res unit :=
  match l with
  | [] => if fixed then Ok tt else okif (total <=? P)
  | VMsg true [_; VStr s] :: tl =>
      match si_dec s with
      | None => Err E_HEAD
      | Some w =>
          if w <? 0 then Err E_HEAD else
          if fixed && (P <? w) then Err E_HEAD else
          match dadd total w with
          | None => Panic
          | Some t => if fixed && (P <? t) then Err E_HEAD else weights_go fixed tl t
          end
      end
  | _ :: _ => bad
  end.

Definition coin_amounts_not_nil (l : list fval) : bool :=
  forallb (fun c => match c with VMsg true [_; VInt (Some _)] => true | _ => false end) l.
(* Coins.Validate without the ordering tests (a KMayStop follows it in the heads) *)
Definition coins_valid_go (l : list fval) : res unit :=
  if negb (coin_amounts_not_nil l) then Panic else
  okif (forallb (fun c => match c with
                          | VMsg true [VStr d; VInt (Some a)] => si_denom d && (0 <? a)
                          | _ => false end) l).

(* indices into a stored slice of length n (the shard hashes of the addressed DA item; n is
   read from the state by the harness and universally quantified in the theorems).  The bound
   is stated on the index as an unbounded integer: no conversion to a narrower type. *)
Definition idx_ok (n j : Z) : bool := (0 <=? j) && (j <? n).
Definition all_in_range (n : Z) (l : list fval) : bool :=
  forallb (fun x => match x with VNum j => idx_ok n j | _ => false end) l.
Definition all_below (n : Z) (l : list fval) : bool :=
  forallb (fun x => match x with VNum j => j <? n | _ => false end) l.
(* what a comparison of the indices truncated to 32 unsigned bits would accept *)
Definition idx_ok_u32 (n j : Z) : bool := (j mod 2 ^ 32) <? (n mod 2 ^ 32).

Definition exec (n : Z) (c : check) (req : fval) : res unit :=
  match c with
  | KReqNotNil => match req with VMsg false _ => Err E_HEAD | _ => Ok tt end
  | KAddr p => rd req p (fun v => match v with VStr s => okif (si_acc s) | _ => bad end)
  | KValAddr p => rd req p (fun v => match v with VStr s => okif (si_val s) | _ => bad end)
  | KAddrIfNonEmpty p =>
      rd req p (fun v => match v with VStr s => okif (si_empty s || si_acc s) | _ => bad end)
  | KMustAddr p =>
      rd req p (fun v => match v with VStr s => if si_acc s then Ok tt else Panic | _ => bad end)
  | KAuth p => rd req p (fun v => match v with VStr s => okif (si_auth s) | _ => bad end)
  | KPred p pred => rd req p (fun v => okif (pred v))
  | KPred2 p q pred => rd2 req p q (fun a b => okif (pred a b))
  | KIntNotNil p =>
      rd req p (fun v => match v with VInt None => Err E_HEAD | VInt (Some _) => Ok tt | _ => bad end)
  | KIntPositive p =>
      rd req p (fun v => match v with VInt None => Panic | VInt (Some z) => okif (0 <? z) | _ => bad end)
  | KIntNonNeg p =>
      rd req p (fun v => match v with VInt None => Panic | VInt (Some z) => okif (0 <=? z) | _ => bad end)
  | KIntUse p =>
      rd req p (fun v => match v with VInt None => Panic | VInt (Some _) => Ok tt | _ => bad end)
  | KNewCoinAmt p =>
      rd req p (fun v => match v with
                         | VInt None => Panic
                         | VInt (Some z) => if z <? 0 then Panic else Ok tt
                         | _ => bad end)
  | KCoinValidate p =>
      rd req p (fun v => match v with
                         | VMsg true [VStr d; VInt a] =>
                             if negb (si_denom d) then Err E_HEAD else
                             match a with None => Err E_HEAD | Some z => okif (0 <=? z) end
                         | _ => bad end)
  | KCoinIsPositive p =>
      rd req p (fun v => match v with
                         | VMsg true [VStr _; VInt None] => Panic
                         | VMsg true [VStr _; VInt (Some z)] => okif (0 <? z)
                         | _ => bad end)
  | KDecNotNil p =>
      rd req p (fun v => match v with VDec None => Err E_HEAD | VDec (Some _) => Ok tt | _ => bad end)
  | KDecUse p =>
      rd req p (fun v => match v with VDec None => Panic | VDec (Some _) => Ok tt | _ => bad end)
  | KStrIntOk p =>
      rd req p (fun v => match v with VStr s => okif (match si_int s with Some _ => true | None => false end) | _ => bad end)
  | KStrIntPositive p =>
      rd req p (fun v => match v with VStr s => okif (match si_int s with Some z => 0 <? z | None => false end) | _ => bad end)
  | KStrIntNonNeg p =>
      rd req p (fun v => match v with VStr s => okif (match si_int s with Some z => 0 <=? z | None => false end) | _ => bad end)
  | KStrIsInt64 p =>
      rd req p (fun v => match v with VStr s => okif (match si_int s with Some z => is_int64 z | None => false end) | _ => bad end)
  | KStrInt64Use p =>
      rd req p (fun v => match v with
                         | VStr s => match si_int s with Some z => if is_int64 z then Ok tt else Panic | None => Ok tt end
                         | _ => bad end)
  | KStrIntNewCoin p =>
      rd req p (fun v => match v with
                         | VStr s => match si_int s with Some z => if z <? 0 then Panic else Ok tt | None => Ok tt end
                         | _ => bad end)
  | KLenEq p q =>
      rd2 req p q (fun a b => match a, b with VList la, VList lb => okif (Nat.eqb (List.length la) (List.length lb)) | _, _ => bad end)
  | KIndexPair p q =>
      rd2 req p q (fun a b => match a, b with
                              | VList la, VList lb => if (List.length lb <? List.length la)%nat then Panic else Ok tt
                              | _, _ => bad end)
  | KIndexGuard p => rd req p (fun v => match v with VList l => okif (all_in_range n l) | _ => bad end)
  | KIndexUpper p => rd req p (fun v => match v with VList l => okif (all_below n l) | _ => bad end)
  | KIndexUse p =>
      rd req p (fun v => match v with VList l => if all_in_range n l then Ok tt else Panic | _ => bad end)
  | KCoinsAmtNotNil p =>
      rd req p (fun v => match v with VList l => okif (coin_amounts_not_nil l) | _ => bad end)
  | KCoinsValid p => rd req p (fun v => match v with VList l => coins_valid_go l | _ => bad end)
  | KWeights fixed p => rd req p (fun v => match v with VList l => weights_go fixed l 0 | _ => bad end)
  | KRouteValidate mf p =>
      rd req p (fun v => match v with
                         | VRoute r => match route_validate mf r with Ok _ => Ok tt | Err _ => Err E_HEAD | Panic => Panic end
                         | _ => bad end)
  | KRouteDeref p =>
      rd req p (fun v => match v with VRoute None => Panic | VRoute (Some _) => Ok tt | _ => bad end)
  | KRouteInspect p =>
      rd req p (fun v => match v with
                         | VRoute None => Panic
                         | VRoute (Some r) => match inspect r with Panic => Panic | _ => Ok tt end
                         | _ => bad end)
  | KShareDenomUse p =>
      rd req p (fun v => match v with VStr s => if si_suffix s then Ok tt else Panic | _ => bad end)
  | KNumInt64Use p =>
      rd req p (fun v => match v with VNum z => if z <=? INT64_MAX then Ok tt else Panic | _ => bad end)
  | KAlwaysErr => Err E_HEAD
  | KMayStop | KDeep | KDone => Ok tt
  end.

(* run a head; [o] says, for each KMayStop reached, whether the handler continues *)
Fixpoint run (n : Z) (o : list bool) (cs : list check) (req : fval) : res unit :=
  match cs with
  | [] => Ok tt
  | KDeep :: _ | KDone :: _ => Ok tt
  | KMayStop :: tl =>
      match o with
      | true :: o' => run n o' tl req
      | _ => Err E_STATE
      end
  | c :: tl => match exec n c req with Ok _ => run n o tl req | Err e => Err e | Panic => Panic end
  end.

(* the part of a head whose outcome is determined by the request alone: up to the first
   KMayStop / KDeep.  Ok tt = "not rejected by the static part". *)
Fixpoint run_static (n : Z) (cs : list check) (req : fval) : res unit :=
  match cs with
  | [] | KDeep :: _ | KMayStop :: _ | KDone :: _ => Ok tt
  | c :: tl => match exec n c req with Ok _ => run_static n tl req | Err e => Err e | Panic => Panic end
  end.

(* the request passes every check of a head that ends in KDone without a state-dependent branch
   before it: the handler accepts (acceptance itself is then compared with the implementation) *)
Fixpoint static_done (n : Z) (cs : list check) (req : fval) : bool :=
  match cs with
  | KDone :: _ => true
  | [] | KDeep :: _ | KMayStop :: _ => false
  | c :: tl => match exec n c req with Ok _ => static_done n tl req | _ => false end
  end.

(* ------------------------------------------------------------------ pure predicates used by KPred *)
Definition str_dec (f : Z -> bool) (v : fval) : bool :=
  match v with VStr s => match si_dec s with Some d => f d | None => false end | _ => false end.
Definition dec_ok := str_dec (fun _ => true).
Definition dec_nonneg := str_dec (fun d => 0 <=? d).
Definition dec_positive := str_dec (fun d => 0 <? d).
Definition dec_le_one := str_dec (fun d => d <=? P).        (* !d.GT(1) *)
Definition dec_lt_one := str_dec (fun d => d <? P).         (* !d.GTE(1) *)
Definition dec_unit := str_dec (fun d => (0 <=? d) && (d <=? P)).      (* parse, not negative, not > 1 *)
Definition dec_unit_strict := str_dec (fun d => (0 <=? d) && (d <? P)).
(* x/liquiditypool/types/pool_params.go ValidatePoolParams (raw decimals):
   0 <= fee rate < 1, 1.0001 <= price ratio <= 1.5, -1 < base offset < 1 (both ends excluded) *)
Definition MIN_PRICE_RATIO : Z := 1000100000000000000.
Definition MAX_PRICE_RATIO : Z := 1500000000000000000.
Definition pool_fee_ok (d : Z) : bool := (0 <=? d) && (d <? P).
Definition pool_ratio_ok (d : Z) : bool := (MIN_PRICE_RATIO <=? d) && (d <=? MAX_PRICE_RATIO).
Definition pool_offset_ok (d : Z) : bool := Z.abs d <? P.           (* !offset.Abs().GTE(1) *)
Definition pool_offset_ok_closed (d : Z) : bool := (- P <=? d) && (d <=? P).   (* what a closed interval would accept *)
Definition dec_pool_fee := str_dec pool_fee_ok.
Definition dec_pool_ratio := str_dec pool_ratio_ok.
Definition dec_pool_offset := str_dec pool_offset_ok.
(* Pow(base, exponent): integer part of the exponent, converted to uint64 for LegacyDec.Power *)
Definition pow_integer_part (exponent : Z) : Z := Z.quot exponent P.

Definition num_positive (v : fval) : bool := match v with VNum z => 0 <? z | _ => false end.
Definition num_nonzero (v : fval) : bool := match v with VNum z => negb (z =? 0) | _ => false end.
Definition str_denom_ok (v : fval) : bool := match v with VStr s => si_denom s | _ => false end.
Definition all_denoms_ok (v : fval) : bool :=
  match v with VList l => forallb str_denom_ok l | _ => false end.
Definition len_nonzero (v : fval) : bool := match v with VList (_ :: _) => true | _ => false end.
Definition parity_lt_len (a b : fval) : bool :=
  match a, b with VNum n, VList l => n <? Z.of_nat (List.length l) | _, _ => false end.
Definition num_le (a b : fval) : bool := match a, b with VNum x, VNum y => x <=? y | _, _ => false end.
Definition bytes_nonempty (v : fval) : bool := match v with VBytes n => 0 <? n | _ => false end.
Definition int_cap_ok (v : fval) : bool := match v with VInt (Some z) => 0 <? z | _ => false end.
Definition str_int_nonzero (v : fval) : bool :=
  match v with VStr s => match si_int s with Some z => negb (z =? 0) | None => false end | _ => false end.

(* ------------------------------------------------------------------ the heads *)
Definition g (hf : hfixes) (f : fam) (c : check) : list check := if hf_on hf f then [c] else [].
Definition u (hf : hfixes) (f : fam) (c : check) : list check := if hf_on hf f then [] else [c].

Local Open Scope string_scope.
Local Open Scope list_scope.

(* MsgUpdateParams of every module: authority parses, is the module authority, Params.Validate *)
Definition upd (params : list check) : list check := [KAddr [0%nat]; KAuth [0%nat]] ++ params ++ [KDone].
Definition q0 : list check := [KReqNotNil; KDeep].         (* queries that only test req == nil *)

Definition n0 := 0%nat. Definition n1 := 1%nat. Definition n2 := 2%nat. Definition n3 := 3%nat.
Definition n4 := 4%nat. Definition n5 := 5%nat. Definition n6 := 6%nat. Definition n7 := 7%nat.
Definition n8 := 8%nat. Definition n9 := 9%nat. Definition n10 := 10%nat. Definition n11 := 11%nat.
Definition n12 := 12%nat. Definition n13 := 13%nat. Definition n14 := 14%nat. Definition n15 := 15%nat.

(* (name, is a query, head) *)
Definition specs (hf : hfixes) : list (string * bool * list check) := [
  (* ---- x/da ---- *)
  ("da.Msg.PublishData", false,
     [KAddr [n0]; KPred2 [n2] [n3] parity_lt_len; KMayStop; KMustAddr [n0]; KDeep]);
  ("da.Msg.RegisterProofDeputy", false, [KAddr [n0]; KAddr [n1]; KDeep]);
  ("da.Msg.SubmitInvalidity", false,
     [KAddr [n0]; KPred [n2] len_nonzero; KMayStop; KMustAddr [n0]; KDeep]);
  ("da.Msg.SubmitValidityProof", false,
     (* signer (validator bonded, sender is the validator or its deputy); lengths; item found,
        challenged, within the proof period; per index: Proofs[i] parses, index check, hashes[j] *)
     [KAddr [n0]; KValAddr [n1]; KMayStop; KLenEq [n3] [n4]; KMayStop; KIndexPair [n3] [n4]; KMayStop]
     ++ g hf FamDa (KIndexGuard [n3]) ++ u hf FamDa (KIndexUpper [n3]) ++ [KIndexUse [n3]; KDeep]);
  ("da.Msg.UnregisterProofDeputy", false, [KAddr [n0]; KDeep]);
  ("da.Msg.UpdateParams", false,
     upd ([KPred [n1; n0] dec_unit; KPred [n1; n1] dec_positive; KPred [n1; n2] num_nonzero;
           KPred [n1; n3] dec_unit; KPred [n1; n4] dec_unit;
           KPred [n1; n5] num_positive; KPred [n1; n6] num_positive; KPred [n1; n7] num_positive;
           KPred [n1; n8] num_positive]
          ++ g hf FamNilInt (KCoinsAmtNotNil [n1; n9]) ++ g hf FamNilInt (KCoinsAmtNotNil [n1; n10])
          ++ [KCoinsValid [n1; n9]; KMayStop; KCoinsValid [n1; n10]; KMayStop;
              KPred [n1; n11] bytes_nonempty; KPred [n1; n12] bytes_nonempty;
              KPred [n1; n13] num_nonzero; KPred [n1; n14] num_nonzero;
              KPred2 [n1; n13] [n1; n14] num_le; KPred [n1; n15] num_nonzero]));
  ("da.Query.AllInvalidity", true, q0);
  ("da.Query.AllPublishedData", true, q0);
  ("da.Query.AllValidityProofs", true, q0);
  ("da.Query.Invalidity", true, [KReqNotNil; KAddr [n1]; KDeep]);
  ("da.Query.Params", true, q0);
  ("da.Query.ProofDeputy", true, [KReqNotNil; KValAddr [n0]; KDeep]);
  ("da.Query.PublishedData", true, q0);
  ("da.Query.ValidatorShardIndices", true,
     [KReqNotNil; KValAddr [n0]] ++ g hf FamDa KMayStop ++ u hf FamDa (KNumInt64Use [n1]) ++ [KDeep]);
  ("da.Query.ValidityProof", true, [KReqNotNil; KValAddr [n1]; KDeep]);
  ("da.Query.ZkpProofThreshold", true,
     [KReqNotNil] ++ g hf FamDa KMayStop ++ u hf FamDa (KNumInt64Use [n0]) ++ [KDeep]);
  (* ---- x/fee ---- *)
  ("fee.Msg.UpdateParams", false,
     upd [KPred [n1; n0] str_denom_ok; KPred [n1; n1] dec_unit; KPred [n1; n2] all_denoms_ok]);
  ("fee.Query.Params", true, q0);
  (* ---- x/liquidityincentive ---- *)
  ("liquidityincentive.Msg.CollectVoteRewards", false, [KAddr [n0]; KAlwaysErr]);
  ("liquidityincentive.Msg.UpdateParams", false,
     upd [KPred [n1; n0] num_positive; KPred [n1; n1] dec_unit]);
  ("liquidityincentive.Msg.VoteGauge", false,
     [KAddr [n0]; KWeights (hf_on hf FamWeight) [n1]; KMayStop; KMustAddr [n0]; KDeep]);
  ("liquidityincentive.Query.Epoch", true, q0);
  ("liquidityincentive.Query.Epochs", true, q0);
  ("liquidityincentive.Query.Gauge", true, q0);
  ("liquidityincentive.Query.Gauges", true, q0);
  ("liquidityincentive.Query.Params", true, q0);
  ("liquidityincentive.Query.Vote", true,
     [KReqNotNil] ++ g hf FamAddr (KAddr [n0]) ++ [KMustAddr [n0]; KDeep]);
  ("liquidityincentive.Query.Votes", true, q0);
  (* ---- x/liquiditypool ---- *)
  ("liquiditypool.Msg.ClaimRewards", false, [KAddr [n0]; KPred [n1] len_nonzero; KDeep]);
  ("liquiditypool.Msg.CreatePool", false,
     [KAddr [n0]] ++ g hf FamPool (KPred [n1] str_denom_ok) ++ g hf FamPool (KPred [n2] str_denom_ok)
     ++ [KPred [n3] dec_ok; KPred [n4] dec_ok; KPred [n5] dec_ok;
         KPred [n3] dec_pool_fee; KPred [n4] dec_pool_ratio; KPred [n5] dec_pool_offset; KDone]);
  ("liquiditypool.Msg.CreatePosition", false,
     [KAddr [n0]]
     ++ g hf FamNilInt (KIntNotNil [n4; n1]) ++ g hf FamNilInt (KIntNotNil [n5; n1])
     ++ g hf FamNilInt (KIntNotNil [n6]) ++ g hf FamNilInt (KIntNotNil [n7])
     ++ [KMayStop; KIntUse [n4; n1]; KIntUse [n5; n1]; KMayStop; KIntUse [n6]; KIntUse [n7]; KDeep]);
  ("liquiditypool.Msg.DecreaseLiquidity", false, [KAddr [n0]; KPred [n2] dec_ok; KDeep]);
  ("liquiditypool.Msg.IncreaseLiquidity", false,
     [KAddr [n0]]
     ++ g hf FamNilInt (KIntNotNil [n2]) ++ g hf FamNilInt (KIntNotNil [n3])
     ++ g hf FamNilInt (KIntNotNil [n4]) ++ g hf FamNilInt (KIntNotNil [n5])
     ++ [KMayStop; KIntUse [n2]; KIntUse [n3]; KMayStop; KIntUse [n4]; KIntUse [n5]; KDeep]);
  ("liquiditypool.Msg.UpdateParams", false, upd [KPred [n1; n0] dec_unit; KPred [n1; n1] dec_unit]);
  ("liquiditypool.Query.AddressPositions", true, [KReqNotNil; KAddr [n0]; KDeep]);
  ("liquiditypool.Query.CalculationCreatePosition", true,
     [KReqNotNil; KMayStop; KStrIntOk [n1]] ++ g hf FamTick (KStrIsInt64 [n1])
     ++ [KStrIntOk [n2]] ++ g hf FamTick (KStrIsInt64 [n2])
     ++ [KStrInt64Use [n1]; KStrInt64Use [n2]; KMayStop; KStrIntOk [n3]]
     ++ g hf FamTick (KStrIntNonNeg [n3]) ++ [KMayStop; KStrIntNewCoin [n3]; KDeep]);
  ("liquiditypool.Query.CalculationIncreaseLiquidity", true,
     [KReqNotNil; KStrIntOk [n1]; KStrIntNonNeg [n1]; KPred [n1] str_int_nonzero; KDeep]);
  ("liquiditypool.Query.Params", true, q0);
  ("liquiditypool.Query.Pool", true, q0);
  ("liquiditypool.Query.PoolPositions", true, q0);
  ("liquiditypool.Query.Pools", true, q0);
  ("liquiditypool.Query.Position", true, q0);
  ("liquiditypool.Query.PositionFees", true, q0);
  ("liquiditypool.Query.Positions", true, q0);
  (* ---- x/selfdelegation ---- *)
  ("selfdelegation.Msg.RegisterLockupAccount", false, [KAddr [n0]; KAddr [n1]; KDeep]);
  ("selfdelegation.Msg.SelfDelegate", false,
     [KAddr [n0]] ++ g hf FamNilInt (KIntNotNil [n1]) ++ g hf FamNilInt (KIntPositive [n1])
     ++ [KMayStop; KNewCoinAmt [n1]; KDeep]);
  ("selfdelegation.Msg.UpdateParams", false, upd [KPred [n1; n0] int_cap_ok]);
  ("selfdelegation.Msg.WithdrawSelfDelegationUnbonded", false,
     [KAddr [n0]] ++ g hf FamNilInt (KIntNotNil [n1]) ++ g hf FamNilInt (KIntPositive [n1])
     ++ [KMayStop; KNewCoinAmt [n1]; KDeep]);
  ("selfdelegation.Query.LockupAccountsByOwner", true, [KReqNotNil; KAddr [n0]; KDeep]);
  ("selfdelegation.Query.Params", true, q0);
  ("selfdelegation.Query.SelfDelegationProxyAccountByOwner", true, [KReqNotNil; KAddr [n0]; KDeep]);
  (* ---- x/shareclass ---- *)
  ("shareclass.Msg.ClaimRewards", false, [KAddr [n0]; KValAddr [n1]; KDeep]);
  ("shareclass.Msg.CreateValidator", false,
     [KValAddr [n3]]
     ++ g hf FamNilInt (KCoinValidate [n5]) ++ g hf FamNilInt (KCoinValidate [n6])
     ++ g hf FamNilInt (KIntNotNil [n2])
     ++ g hf FamNilInt (KDecNotNil [n1; n0]) ++ g hf FamNilInt (KDecNotNil [n1; n1]) ++ g hf FamNilInt (KDecNotNil [n1; n2])
     ++ [KIntUse [n5; n1]; KMayStop; KIntUse [n6; n1]; KMayStop;
         KIntUse [n2]; KDecUse [n1; n0]; KDecUse [n1; n1]; KDecUse [n1; n2]; KNewCoinAmt [n5; n1]; KDeep]);
  ("shareclass.Msg.NonVotingDelegate", false,
     [KAddr [n0]] ++ g hf FamNilInt (KCoinValidate [n2])
     ++ [KMayStop; KValAddr [n1]; KMayStop; KNewCoinAmt [n2; n1]; KDeep]);
  ("shareclass.Msg.NonVotingUndelegate", false,
     [KAddr [n0]] ++ g hf FamNilInt (KCoinValidate [n2])
     ++ [KMayStop; KCoinIsPositive [n2]; KValAddr [n1]; KMayStop; KNewCoinAmt [n2; n1]; KDeep]);
  ("shareclass.Msg.UpdateParams", false, upd [KPred [n1; n0] num_positive; KCoinValidate [n1; n1]]);
  ("shareclass.Query.AddressBonded", true, [KReqNotNil; KAddr [n0]; KDeep]);
  ("shareclass.Query.AddressUnbonding", true, [KReqNotNil; KAddr [n0]; KDeep]);
  ("shareclass.Query.CalculateBondingAmount", true,
     [KReqNotNil] ++ g hf FamAddr (KValAddr [n0]) ++ g hf FamAddr (KIntNotNil [n1]) ++ g hf FamAddr (KIntNonNeg [n1])
     ++ [KShareDenomUse [n0]; KMayStop; KIntUse [n1]; KDeep]);
  ("shareclass.Query.CalculateShare", true,
     [KReqNotNil] ++ g hf FamAddr (KValAddr [n0]) ++ g hf FamAddr (KIntNotNil [n1]) ++ g hf FamAddr (KIntNonNeg [n1])
     ++ [KShareDenomUse [n0]; KMayStop; KIntUse [n1]; KDeep]);
  ("shareclass.Query.ClaimableRewards", true, [KReqNotNil; KAddr [n0]; KValAddr [n1]; KDeep]);
  ("shareclass.Query.Params", true, q0);
  (* ---- x/swap ---- *)
  ("swap.Msg.SwapExactAmountIn", false,
     [KAddr [n0]; KAddrIfNonEmpty [n1]; KRouteValidate (hf_memo hf) [n2]]
     ++ g hf FamNilInt (KIntNotNil [n3]) ++ g hf FamNilInt (KIntNotNil [n4])
     ++ [KIntPositive [n3]; KIntPositive [n4]; KRouteInspect [n2]; KNewCoinAmt [n3]; KDeep]);
  ("swap.Msg.SwapExactAmountOut", false,
     [KAddr [n0]; KAddrIfNonEmpty [n1]; KRouteValidate (hf_memo hf) [n2]]
     ++ g hf FamNilInt (KIntNotNil [n3]) ++ g hf FamNilInt (KIntNotNil [n4])
     ++ [KIntPositive [n3]; KIntPositive [n4]; KRouteInspect [n2]; KNewCoinAmt [n4]; KDeep]);
  ("swap.Msg.UpdateParams", false,
     upd (u hf FamFeeRate (KPred [n1; n0] dec_unit) ++ g hf FamFeeRate (KPred [n1; n0] dec_unit_strict)));
  ("swap.Query.CalculationSwapExactAmountIn", true,
     [KReqNotNil; KStrIntOk [n2]] ++ g hf FamQuery (KStrIntPositive [n2])
     ++ g hf FamQuery (KRouteValidate (hf_memo hf) [n1])
     ++ [KRouteDeref [n1]; KRouteInspect [n1]; KMayStop; KStrIntNewCoin [n2]; KDeep]);
  ("swap.Query.CalculationSwapExactAmountOut", true,
     [KReqNotNil; KStrIntOk [n2]] ++ g hf FamQuery (KStrIntPositive [n2])
     ++ g hf FamQuery (KRouteValidate (hf_memo hf) [n1])
     ++ [KRouteDeref [n1]; KRouteInspect [n1]; KMayStop; KStrIntNewCoin [n2]; KDeep]);
  ("swap.Query.IncomingInFlightPacket", true, q0);
  ("swap.Query.IncomingInFlightPackets", true, q0);
  ("swap.Query.OutgoingInFlightPacket", true, q0);
  ("swap.Query.OutgoingInFlightPackets", true, q0);
  ("swap.Query.Params", true, q0);
  (* ---- x/tokenconverter ---- *)
  ("tokenconverter.Msg.Convert", false,
     [KAddr [n0]] ++ g hf FamNilInt (KIntNotNil [n1]) ++ [KIntPositive [n1]; KNewCoinAmt [n1]; KDeep]);
  ("tokenconverter.Msg.UpdateParams", false, upd []);
  ("tokenconverter.Query.Params", true, q0)
].

Fixpoint find_spec (name : string) (l : list (string * bool * list check)) : option (bool * list check) :=
  match l with
  | [] => None
  | (n, q, cs) :: tl => if String.eqb name n then Some (q, cs) else find_spec name tl
  end.

Local Close Scope string_scope.

(* ------------------------------------------------------------------ typing of heads against signatures *)
Definition sig_is (sg : sig) (p : path) (f : sig -> bool) : bool :=
  match sig_get p sg with Some s => f s | None => false end.
Definition is_str (s : sig) := match s with SStr => true | _ => false end.
Definition is_int (s : sig) := match s with SInt => true | _ => false end.
Definition is_dec (s : sig) := match s with SDec => true | _ => false end.
Definition is_num (s : sig) := match s with SNum => true | _ => false end.
Definition is_coin (s : sig) := match s with SMsg false [SStr; SInt] => true | _ => false end.
Definition is_list (s : sig) := match s with SList _ => true | _ => false end.
Definition is_numlist (s : sig) := match s with SList SNum => true | _ => false end.
Definition is_coins (s : sig) := match s with SList (SMsg false [SStr; SInt]) => true | _ => false end.
Definition is_weights (s : sig) := match s with SList (SMsg false [SNum; SStr]) => true | _ => false end.
Definition is_route (s : sig) := match s with SRoute _ => true | _ => false end.
Definition is_known (s : sig) := match s with SUnknown => false | _ => true end.

(* the field a check reads exists in the request type and has the kind the check expects *)
Definition check_typed (sg : sig) (c : check) : bool :=
  match c with
  | KReqNotNil | KAlwaysErr | KMayStop | KDeep | KDone => true
  | KAddr p | KValAddr p | KAddrIfNonEmpty p | KMustAddr p | KAuth p | KShareDenomUse p
  | KStrIntOk p | KStrIntPositive p | KStrIntNonNeg p | KStrIsInt64 p | KStrInt64Use p | KStrIntNewCoin p => sig_is sg p is_str
  | KPred p _ => sig_is sg p is_known
  | KPred2 p q _ => sig_is sg p is_known && sig_is sg q is_known
  | KIntNotNil p | KIntPositive p | KIntNonNeg p | KIntUse p | KNewCoinAmt p => sig_is sg p is_int
  | KCoinValidate p | KCoinIsPositive p => sig_is sg p is_coin
  | KDecNotNil p | KDecUse p => sig_is sg p is_dec
  | KLenEq p q | KIndexPair p q => sig_is sg p is_list && sig_is sg q is_list
  | KIndexGuard p | KIndexUpper p | KIndexUse p => sig_is sg p is_numlist
  | KCoinsAmtNotNil p | KCoinsValid p => sig_is sg p is_coins
  | KWeights _ p => sig_is sg p is_weights
  | KRouteValidate _ p | KRouteDeref p | KRouteInspect p => sig_is sg p is_route
  | KNumInt64Use p => sig_is sg p is_num
  end.

(* ------------------------------------------------------------------ swap interface fee *)
(* Params.Validate of x/swap and the division of calculateInterfaceFeeExactAmountOut *)
Definition swap_rate_ok (fixed : bool) (rate : Z) : bool :=
  (0 <=? rate) && (if fixed then rate <? P else rate <=? P).
(* amountOutGross = NewDecFromInt(amountOutNet).Quo(1 - rate).TruncateInt() *)
Definition fee_gross (rate amount : Z) : option Z :=
  let? om := dsub P rate in
  let? q := dquo (dec_of_int amount) om in
  chk_int (dtrunc_int q).

(* ------------------------------------------------------------------ liquidity from one amount *)
(* x/liquiditypool/types/math.go LiquidityBase / LiquidityQuote, bit-exact over Base/Dec.v, with
   the two kinds of run-time panic kept apart: LegacyDec.Quo by a zero decimal ("division by
   zero") and a result outside the decimal range ("Int overflow").  Query/CalculationCreatePosition
   calls them with the pool's *current* sqrt price and the sqrt price of a requested tick: the two
   are equal whenever the price sits exactly on that tick, so the zero-width input is reachable
   from a request.  [guard] = the source has the [if diff.IsZero() { return 0 }] early return. *)
Inductive dres := DOk (z : Z) | DDivZero | DOverflow.

Definition order2 (a b : Z) : Z * Z := if b <? a then (b, a) else (a, b).   (* if A.GT(B) { swap } *)

Definition liq_base (guard : bool) (amount sa0 sb0 : Z) : dres :=
  let '(sa, sb) := order2 sa0 sb0 in
  match dmul sa sb with
  | None => DOverflow
  | Some product =>
    match dsub sb sa with
    | None => DOverflow
    | Some diff =>
      if guard && (diff =? 0) then DOk 0 else
      match dmul (dec_of_int amount) product with
      | None => DOverflow
      | Some m =>
          if diff =? 0 then DDivZero else
          match dquo m diff with Some q => DOk q | None => DOverflow end
      end
    end
  end.

Definition liq_quote (guard : bool) (amount sa0 sb0 : Z) : dres :=
  let '(sa, sb) := order2 sa0 sb0 in
  match dsub sb sa with
  | None => DOverflow
  | Some diff =>
    if guard && (diff =? 0) then DOk 0 else
    if diff =? 0 then DDivZero else
    match dquo (dec_of_int amount) diff with Some q => DOk q | None => DOverflow end
  end.
