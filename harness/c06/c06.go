// Package c06: LP fee and incentive accrual on the real x/liquiditypool.
//
// Every case is one real operation with, in addition to the per-step refinement data of
// package amm (pre-state, operation, result, post-state):
//   - the answer of Keeper.GetClaimableFees for every open position of the pool before and after,
//   - the fee-account balance movement of the step split into receipts and payouts, and the two
//     ghost totals (everything the pool's fee account ever received / ever paid out), which the
//     harness threads from observed bank balances only,
//   - for a successful Msg/ClaimRewards, the result of the same message executed again at once
//     (in a discarded cache context).
package c06

import (
	"fmt"
	"math/big"
	"strings"

	sdkmath "cosmossdk.io/math"
	sdk "github.com/cosmos/cosmos-sdk/types"

	lptypes "github.com/sunriselayer/sunrise/x/liquiditypool/types"

	"verifharness/amm"
	"verifharness/emit"
)

type ghost struct {
	recv, claimed, last []*big.Int
}

func newGhost() *ghost {
	g := &ghost{}
	for i := 0; i < 4; i++ {
		g.recv = append(g.recv, big.NewInt(0))
		g.claimed = append(g.claimed, big.NewInt(0))
		g.last = append(g.last, big.NewInt(0))
	}
	return g
}

func (g *ghost) clone() *ghost {
	c := &ghost{}
	for i := 0; i < 4; i++ {
		c.recv = append(c.recv, new(big.Int).Set(g.recv[i]))
		c.claimed = append(c.claimed, new(big.Int).Set(g.claimed[i]))
		c.last = append(c.last, new(big.Int).Set(g.last[i]))
	}
	return c
}

// observe folds the movement of the fee-account balance since the last observation into the
// ghost totals and returns (received, paid) of that movement.
func (g *ghost) observe(now []*big.Int) (dr, dc []*big.Int) {
	dr, dc = make([]*big.Int, 4), make([]*big.Int, 4)
	for i := 0; i < 4; i++ {
		d := new(big.Int).Sub(now[i], g.last[i])
		dr[i], dc[i] = big.NewInt(0), big.NewInt(0)
		if d.Sign() > 0 {
			dr[i] = d
			g.recv[i].Add(g.recv[i], d)
		} else if d.Sign() < 0 {
			dc[i] = new(big.Int).Neg(d)
			g.claimed[i].Add(g.claimed[i], dc[i])
		}
		g.last[i] = new(big.Int).Set(now[i])
	}
	return
}

func zvec(v []*big.Int) string {
	s := make([]string, len(v))
	for i, x := range v {
		s[i] = emit.Z(x)
	}
	return emit.List(s)
}

type run struct {
	w     *amm.World
	cf    *emit.CasesFile
	st    *emit.Stats
	gh    map[uint64]*ghost
	cross map[uint64]int // position id -> initialised-tick crossings since its last update
	drift map[uint64]int // pool id -> preferred swap direction (denom in)
	plan  map[uint64]string // pool id -> follow-up planned for the next step on that pool
	step  int
}

// claimables asks the real keeper for the claimable fees of every open position of p.
func (r *run) claimables(ctx sdk.Context, p amm.PoolInfo) string {
	var out []string
	for _, q := range r.w.PositionsSorted(ctx, p) {
		res := func() (s string) {
			defer func() {
				if e := recover(); e != nil {
					s = "Panic"
				}
			}()
			coins, err := r.w.K.GetClaimableFees(ctx, q.Id)
			if err != nil {
				return "(Err 1)"
			}
			return "(Ok " + emit.List(p.CoinVec(coins)) + ")"
		}()
		out = append(out, fmt.Sprintf("(%d, %s)", q.Id, res))
	}
	return emit.List(out)
}

// doCase executes o on p in ctx with all C06 observations and emits the case.
func (r *run) doCase(ctx sdk.Context, p amm.PoolInfo, o amm.Op, gh *ghost, mustOK bool) error {
	feeAddr := lptypes.NewPoolFeesAddress(p.ID)
	// anything that moved the fee account between two cases of this pool (block hooks) is history too
	gh.observe(r.w.BalInts(ctx, p, feeAddr))
	pre, _, _ := r.w.K.GetPool(ctx, p.ID)
	clPre := r.claimables(ctx, p)
	var term string
	var err error
	if strings.HasPrefix(o.Tag, "direct/") {
		term, err = r.stepDirect(ctx, p, o)
	} else {
		term, err = r.w.Step(ctx, p, o, mustOK)
	}
	dr, dc := gh.observe(r.w.BalInts(ctx, p, feeAddr))
	clPost := r.claimables(ctx, p)
	post, _, _ := r.w.K.GetPool(ctx, p.ID)
	again := "None"
	if o.Kind == "claim" && err == nil {
		c, _ := ctx.CacheContext()
		res2, _ := r.w.Exec(c, p, o)
		again = "(Some " + res2 + ")"
	}
	r.cf.Add(fmt.Sprintf("{| k_amm := %s; k_cl_pre := %s; k_cl_post := %s; k_drecv := %s; k_dclaimed := %s; k_recv := %s; k_claimed := %s; k_again := %s |}",
		term, clPre, clPost, zvec(dr), zvec(dc), zvec(gh.recv), zvec(gh.claimed), again))

	info := o.Info()
	info["pool"] = p.ID
	info["pool_params"] = fmt.Sprintf("fee=%s ratio=%s offset=%s", p.Fee, p.Ratio, p.Offset)
	info["tick_before"], info["tick_after"] = pre.CurrentTick, post.CurrentTick
	info["fee_account_received"], info["fee_account_paid"] = zvec(dr), zvec(dc)
	if err != nil {
		info["err"] = err.Error()
		r.st.Count(o.Kind + ":err")
	} else {
		r.st.Count(o.Kind + ":ok")
		r.st.Sample(info)
	}
	r.st.Info(info)
	r.st.Evaluations++

	// bookkeeping for the non-trivial rule
	if err == nil {
		switch o.Kind {
		case "swap":
			if strings.Contains(o.Tag, "cross") {
				r.st.Count("swap:cross-one-tick-and-stop-just-beyond")
				if pre.CurrentTickLiquidity != post.CurrentTickLiquidity {
					r.st.Count("swap:cross-one-tick-with-liquidity-change")
				}
			}
			if pre.CurrentTickLiquidity != post.CurrentTickLiquidity || crossedStored(r, ctx, p, pre.CurrentTick, post.CurrentTick) {
				r.st.Count("swap:crossed-initialised-tick")
				for _, q := range r.w.PositionsSorted(ctx, p) {
					r.cross[q.Id]++
				}
			}
			nz := false
			for _, x := range dr {
				nz = nz || x.Sign() > 0
			}
			if nz {
				r.st.Count("swap:fee>0")
			}
		case "claim":
			paid := false
			for _, x := range dc {
				paid = paid || x.Sign() > 0
			}
			for _, id := range o.Pids {
				if paid && r.cross[id] > 0 {
					r.st.Count("nontrivial:claim>0-after-crossing")
					r.st.Nontriv(fmt.Sprintf("claim/%d/%d/%d/%s", p.ID, id, r.cross[id], zvec(dc)))
				}
				if ctxIsMain(o) {
					r.cross[id] = 0
				}
			}
			if paid {
				r.st.Count("claim:paid>0")
			}
		case "decrease", "increase":
			paid := false
			for _, x := range dc {
				paid = paid || x.Sign() > 0
			}
			if paid && r.cross[o.Pid] > 0 && ctxIsMain(o) {
				r.st.Count("nontrivial:collect>0-after-crossing")
				r.st.Nontriv(fmt.Sprintf("collect/%d/%d/%d/%s", p.ID, o.Pid, r.cross[o.Pid], zvec(dc)))
			}
			if ctxIsMain(o) {
				r.cross[o.Pid] = 0
			}
		case "allocate":
			if len(r.w.PositionsSorted(ctx, p)) > 1 {
				r.st.Count("allocate:>=2-positions")
			}
		}
	}
	return err
}

// stepDirect executes an incentive allocation the way x/liquidityincentive's BeginBlocker does:
// Keeper.AllocateIncentive called directly on the block context, not inside a transaction, the
// error only looked at.  Whatever the call wrote before failing stays in the state.  The model's
// operation is transactional, so a failing call must leave the state untouched to match it.
func (r *run) stepDirect(ctx sdk.Context, p amm.PoolInfo, o amm.Op) (term string, err error) {
	user := r.w.H.Accts[o.Sender%len(r.w.H.Accts)].Addr
	pre := r.w.Dump(ctx, p, user)
	var cs sdk.Coins
	for i, x := range o.Coins {
		if x.Sign() > 0 {
			cs = cs.Add(sdk.NewCoin(p.Denoms[i], sdkmath.NewIntFromBigInt(x)))
		}
	}
	res := "(Ok [])"
	func() {
		defer func() {
			if e := recover(); e != nil {
				err = fmt.Errorf("panic: %v", e)
				res = "Panic"
			}
		}()
		if err = r.w.K.AllocateIncentive(ctx, p.ID, user, cs); err != nil {
			res = "(Err 1)"
		}
	}()
	post := r.w.Dump(ctx, p, user)
	return fmt.Sprintf("{| c_pre := %s; c_op := %s; c_res := %s; c_post := %s; c_must_ok := false |}", pre, o.Coq(), res, post), err
}

// operations of the final claim-order branches run in discarded contexts: they must not reset the
// main history's counters
func ctxIsMain(o amm.Op) bool { return !strings.HasPrefix(o.Tag, "final/") }

func crossedStored(r *run, ctx sdk.Context, p amm.PoolInfo, t0, t1 int64) bool {
	if t0 == t1 {
		return false
	}
	lo, hi := t0, t1
	if lo > hi {
		lo, hi = hi, lo
	}
	for _, t := range r.w.K.GetAllInitializedTicksForPool(ctx, p.ID) {
		if lo < t.TickIndex && t.TickIndex <= hi {
			return true
		}
	}
	return false
}

func Run(seed int64, n int, outDir string) error {
	w := amm.NewWorld(seed)
	defer w.H.Close()
	// three pools with a non-zero fee and different tick grids (denoms 2,3 of each pool are the
	// incentive-only denoms)
	for _, ps := range [][5]string{
		{"urise", "uusdc", "0.003", "1.0001", "0.5"},
		{"uatom", "uosmo", "0.01", "1.001", "0"},
		{"uusdc", "uatom", "0.05", "1.1", "0.25"},
		{"uosmo", "urise", "0", "1.01", "0"}, // no swap fee: only incentives accrue
		{"urise", "uatom", "0.003", "1.0001", "0"}, // deep: positions of 18-decimals-token size
	} {
		if _, err := w.CreatePool(ps[0], ps[1], ps[2], ps[3], ps[4]); err != nil {
			return err
		}
	}
	st := emit.NewStats("C06", seed, "a case is non-trivial when a claim (Msg/ClaimRewards, or the collect inside decrease/increase) paid out > 0 after at least one swap crossed an initialised tick since that position's last update; distinct by pool, position, number of crossings and coins paid")
	cf := &emit.CasesFile{Import: "Amm.C06Check", Runner: "run", Type: "c06_case"}
	r := &run{w: w, cf: cf, st: st, gh: map[uint64]*ghost{}, cross: map[uint64]int{}, drift: map[uint64]int{}, plan: map[uint64]string{}}
	for _, p := range w.Pools {
		r.gh[p.ID] = newGhost()
	}
	ctx := w.H.Ctx()

	// corpus: fixed regression histories first
	if err := r.corpus(ctx); err != nil {
		return err
	}
	ctx = w.H.Ctx()

	for r.step = 0; r.step < n; r.step++ {
		p := w.Pools[w.R.Intn(len(w.Pools))]
		o := r.genOp(ctx, p)
		r.doCase(ctx, p, o, r.gh[p.ID], false)
		if w.R.Chance(1, 30) {
			if _, err := w.H.NextBlock(1e9); err != nil {
				return fmt.Errorf("block failed: %w", err)
			}
			ctx = w.H.Ctx()
		}
	}

	// end of history: every position claims, in two different orders (separate discarded branches),
	// then everything is withdrawn in the second branch
	for _, p := range w.Pools {
		poss := w.PositionsSorted(ctx, p)
		if len(poss) == 0 {
			continue
		}
		if len(poss) > 3 { // keep the quick tier small: the three oldest positions
			poss = poss[:3]
		}
		for order := 0; order < 2; order++ {
			c, _ := ctx.CacheContext()
			gh := r.gh[p.ID].clone()
			ids := make([]lptypes.Position, len(poss))
			copy(ids, poss)
			if order == 1 {
				for i, j := 0, len(ids)-1; i < j; i, j = i+1, j-1 {
					ids[i], ids[j] = ids[j], ids[i]
				}
			} else {
				for i := len(ids) - 1; i > 0; i-- {
					j := w.R.Intn(i + 1)
					ids[i], ids[j] = ids[j], ids[i]
				}
			}
			for _, q := range ids {
				o := amm.Op{Kind: "claim", Sender: w.UserIndex(q.Address), Pids: []uint64{q.Id}, Tag: fmt.Sprintf("final/claim-order%d", order)}
				r.doCase(c, p, o, gh, true)
			}
			if order == 1 {
				for _, q := range ids {
					o := amm.Op{Kind: "decrease", Sender: w.UserIndex(q.Address), Pid: q.Id, Liq: amm.Raw(q.Liquidity), Tag: "final/drain"}
					r.doCase(c, p, o, gh, true)
				}
			}
			st.Count("final-claim-order")
		}
	}
	if _, err := cf.Write(outDir, "cases", 12); err != nil {
		return err
	}
	return st.Write(outDir)
}
