(* Shared shapes of the correspondence check: every property's cases.v evaluates
   [run_cases check base cases] and prints a list of (case index, failure code).
   Code 0 = the implementation's observation differs from the model's prediction
   (correspondence); codes >= 1 = a monitor (the property statement evaluated on the
   implementation's own observed values) is false. *)
From Coq Require Import ZArith List.
Import ListNotations.
Local Open Scope Z_scope.

Fixpoint run_cases {C} (check : C -> list Z) (idx : Z) (cs : list C) : list (Z * Z) :=
  match cs with
  | [] => []
  | c :: tl => map (fun code => (idx, code)) (check c) ++ run_cases check (idx + 1) tl
  end.

Definition flag (code : Z) (ok : bool) : list Z := if ok then [] else [code].

Fixpoint zlist_eqb (a b : list Z) : bool :=
  match a, b with
  | [], [] => true
  | x :: a', y :: b' => (x =? y) && zlist_eqb a' b'
  | _, _ => false
  end.
