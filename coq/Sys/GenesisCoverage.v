(* C19: the model's field tables cover exactly the store prefixes present in the source
   (Gen/Prefixes_gen.v is regenerated from /repo by harness/trans/prefixes on every run). *)
From Coq Require Import ZArith List Bool String.
Import ListNotations.
From Sunrise Require Import Sys.Genesis Gen.Prefixes_gen.

(* every NewPrefix / keys.go constant of the eight modules is a field of the model (or a listed
   key component), every field exists in the source, raw-store modules are the known ones, no
   field prefix extends another, the translator understood everything *)
Lemma coverage_holds : coverage gen_prefixes gen_raw_store_modules gen_unknown = true.
Proof. vm_compute. reflexivity. Qed.

Lemma coverage_parts :
  forallb entry_modelled gen_prefixes = true /\
  forallb (fun m => forallb (field_in_source gen_prefixes m) (m_fields m)) all_specs = true.
Proof.
  pose proof coverage_holds as H. unfold coverage in H.
  apply andb_true_iff in H. destruct H as [H _].
  apply andb_true_iff in H. destruct H as [H _].
  apply andb_true_iff in H. destruct H as [H _].
  apply andb_true_iff in H. destruct H as [H _].
  apply andb_true_iff in H. exact H.
Qed.

Theorem prefixes_modelled : forall g, In g gen_prefixes -> entry_modelled g = true.
Proof. destruct coverage_parts as [H _]. rewrite forallb_forall in H. exact H. Qed.

Theorem model_fields_in_source : forall m, In m all_specs -> forall fs, In fs (m_fields m) ->
  field_in_source gen_prefixes m fs = true.
Proof.
  destruct coverage_parts as [_ H]. intros m Hm fs Hfs.
  rewrite forallb_forall in H. specialize (H m Hm). rewrite forallb_forall in H. exact (H fs Hfs).
Qed.

(* nothing in the call graphs of the eight ExportGenesis / InitGenesis pages, limits, slices or
   bounds an iteration (or it has been reviewed) *)
Theorem genesis_sites_reviewed : forallb site_reviewed gen_genesis_sites = true.
Proof. vm_compute. reflexivity. Qed.

Theorem translator_understood_everything : gen_unknown = [].
Proof. reflexivity. Qed.
