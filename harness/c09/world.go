package c09

import (
	"bufio"
	"bytes"
	"encoding/binary"
	"fmt"
	"math/big"
	mrand "math/rand/v2"
	"sort"
	"strings"
	"time"

	"cosmossdk.io/core/header"
	sdkmath "cosmossdk.io/math"
	stakingtypes "cosmossdk.io/x/staking/types"
	abci "github.com/cometbft/cometbft/abci/types"
	"github.com/consensys/gnark-crypto/ecc"
	native_mimc "github.com/consensys/gnark-crypto/ecc/bn254/fr/mimc"
	"github.com/consensys/gnark/backend/groth16"
	"github.com/consensys/gnark/frontend"
	"github.com/consensys/gnark/frontend/cs/r1cs"
	gnarklogger "github.com/consensys/gnark/logger"
	sdk "github.com/cosmos/cosmos-sdk/types"

	dakeeper "github.com/sunriselayer/sunrise/x/da/keeper"
	datypes "github.com/sunriselayer/sunrise/x/da/types"
	"github.com/sunriselayer/sunrise/x/da/zkp"

	"verifharness/apph"
	"verifharness/emit"
)

// status codes used in observations
const (
	stOther       = 0
	stChallenging = 1
	stVerified    = 2
	stRejected    = 3
)

// vrec is an operator address known to the harness. Validators get ids 1..V,
// operator addresses that are not validators get ids 91...
type vrec struct {
	id   int
	op   sdk.ValAddress
	cons sdk.ConsAddress
}

type world struct {
	h       *apph.H
	vals    []vrec
	extra   []vrec
	byAddr  map[string]int // string(address bytes) -> id
	byCons  map[string]int // bech32 consensus address -> id
	nextAdr int
}

func newWorld(nv int) *world { return newWorldAccts(nv, 4) }

func newWorldAccts(nv, nacc int) *world {
	h := apph.New(apph.Options{NumValidators: nv, NumAccounts: nacc})
	w := &world{h: h, byAddr: map[string]int{}, byCons: map[string]int{}, nextAdr: 200}
	for i, v := range h.Vals {
		op := sdk.ValAddress(v.Address)
		cons := sdk.ConsAddress(v.Address)
		w.vals = append(w.vals, vrec{id: i + 1, op: op, cons: cons})
		w.byAddr[string(op)] = i + 1
	}
	for j := 0; j < 2; j++ {
		op := sdk.ValAddress([]byte(fmt.Sprintf("%d-c09-not-a-validator", j))[:20])
		w.extra = append(w.extra, vrec{id: 91 + j, op: op})
		w.byAddr[string(op)] = 91 + j
	}
	ctx := h.Ctx()
	for _, v := range w.vals {
		val, err := h.App.StakingKeeper.GetValidator(ctx, v.op)
		if err != nil {
			panic(fmt.Sprintf("genesis validator %d not found: %v", v.id, err))
		}
		cb, err := val.GetConsAddr()
		if err != nil {
			panic(err)
		}
		s, err := h.App.StakingKeeper.ConsensusAddressCodec().BytesToString(cb)
		if err != nil {
			panic(err)
		}
		w.byCons[s] = v.id
	}
	// more stake per validator (different amounts), so that a slash does not take the
	// consensus power to zero and the power index has a non-trivial order
	for i, v := range w.vals {
		val, err := h.App.StakingKeeper.GetValidator(ctx, v.op)
		if err != nil {
			panic(err)
		}
		amt := sdkmath.NewInt(int64(3+(i*7)%5) * 1_000_000)
		if _, err := h.App.StakingKeeper.Delegate(ctx, h.Accts[0].Addr, amt, stakingtypes.Unbonded, val, true); err != nil {
			panic(fmt.Sprintf("delegate to v%d: %v", v.id, err))
		}
	}
	// a few blocks so that height - ValidatorUpdateDelay - 1 is positive
	for i := 0; i < 4; i++ {
		if _, err := h.NextBlock(time.Second); err != nil {
			panic(err)
		}
	}
	return w
}

func (w *world) all() []vrec { return append(append([]vrec{}, w.vals...), w.extra...) }

func (w *world) idOf(addr []byte) int {
	if id, ok := w.byAddr[string(addr)]; ok {
		return id
	}
	w.nextAdr++
	w.byAddr[string(addr)] = w.nextAdr
	return w.nextAdr
}

// ctxAt gives a context on `base` with the given height and time (both header and header info).
func ctxAt(base sdk.Context, height int64, t time.Time) sdk.Context {
	hdr := base.BlockHeader()
	hdr.Height = height
	hdr.Time = t
	return base.WithBlockHeader(hdr).
		WithHeaderInfo(header.Info{Height: height, Time: t, ChainID: apph.ChainID}).
		WithEventManager(sdk.NewEventManager())
}

// ---------------------------------------------------------------- projection

type proofRec struct {
	Sender  int
	Indices []int64
}

type itemPre struct {
	URI    string
	N      int
	Parity uint64
	Proofs []proofRec // the proofs in force: (validator the proof is FOR, indices)
	Stored []proofRec // the records as stored: (id of the stored Sender address, indices)
	Asg    [][]int64  // aligned with blockPre.Active
	Thr    *uint64    // the keeper's GetZkpThreshold, nil when it failed or panicked
	GThr   *uint64    // ghost: the protocol rule over x/staking's bonded set, computed by the harness
	NInv   int
	NCoins int
}

type vinfo struct {
	Exists, Jailed, Bonded bool
	Tokens                 sdkmath.Int
}

type blockPre struct {
	RF, SFT *big.Int
	Epoch   bool
	Active  []int
	IDs     []int
	Items   []itemPre
	FC      map[int]uint64
	CC      uint64
	VInfo   map[int]vinfo
	Others  []string // challenging items that are not due
}

type blockObs struct {
	Panic    bool
	PanicMsg string
	Err      string
	Status   []int
	Left     []int
	FC       map[int]uint64
	CC       uint64
	SlashEv  []int
	JailEv   []int
	Jailed   []int
	TokDec   []int
	OthersOK bool
}

func (w *world) vinfoOf(ctx sdk.Context, v vrec) vinfo {
	val, err := w.h.App.StakingKeeper.GetValidator(ctx, v.op)
	if err != nil {
		return vinfo{Tokens: sdkmath.ZeroInt()}
	}
	return vinfo{Exists: true, Jailed: val.IsJailed(), Bonded: val.IsBonded(), Tokens: val.GetTokens()}
}

// activeVals repeats the iteration of TallyValidityProofs over the staking power index.
func (w *world) activeVals(ctx sdk.Context) ([]int, []sdk.ValAddress) {
	it, err := w.h.App.StakingKeeper.ValidatorsPowerStoreIterator(ctx)
	if err != nil {
		panic(err)
	}
	defer it.Close()
	var ids []int
	var ops []sdk.ValAddress
	for ; it.Valid(); it.Next() {
		v, err := w.h.App.StakingKeeper.Validator(ctx, it.Value())
		if err != nil {
			continue
		}
		if v.IsBonded() {
			op := sdk.ValAddress(append([]byte{}, it.Value()...))
			ids = append(ids, w.idOf(op))
			ops = append(ops, op)
		}
	}
	return ids, ops
}

func decRaw(s string) *big.Int {
	d := sdkmath.LegacyMustNewDecFromStr(s)
	return d.BigInt()
}

func (w *world) threshold(ctx sdk.Context, n int) (thr *uint64) {
	defer func() {
		if r := recover(); r != nil {
			thr = nil
		}
	}()
	t, err := w.h.App.DaKeeper.GetZkpThreshold(ctx, uint64(n))
	if err != nil {
		return nil
	}
	return &t
}

func optU64(x *uint64) string {
	if x == nil {
		return emit.None()
	}
	return emit.Some(u64(*x))
}

// ghostThreshold is the protocol rule for the number of shards every bonded validator is
// assigned, min(max(ceil(replication_factor * shards / #bonded), 1), shards), in the module's
// 18-decimal arithmetic (the quotient is truncated to 18 decimals before the ceiling). It is
// computed here from the replication factor parameter and the bonded set read from x/staking,
// never from the keeper's GetZkpThreshold; the Coq model recomputes it on every case.
func ghostThreshold(rfRaw *big.Int, n int, bonded int) *uint64 {
	if bonded == 0 {
		return nil
	}
	one := new(big.Int).Exp(big.NewInt(10), big.NewInt(18), nil)
	a := new(big.Int).Mul(rfRaw, big.NewInt(int64(n)))
	b := new(big.Int).Quo(a, big.NewInt(int64(bonded)))
	q, rem := new(big.Int).QuoRem(b, one, new(big.Int))
	if rem.Sign() > 0 {
		q.Add(q, big.NewInt(1))
	}
	t := uint64(n)
	if q.Cmp(big.NewInt(int64(n))) < 0 {
		t = 1
		if q.Cmp(big.NewInt(1)) > 0 {
			t = q.Uint64()
		}
	}
	return &t
}

// pureAssign is the protocol's shard assignment, re-implemented here without any state: the
// first `threshold` elements of the Fisher-Yates shuffle of 0..n-1 driven by PCG(seed, 1024),
// seed = first 8 bytes (big endian) of MiMC(validator address, left-padded to whole blocks when
// longer than one). Every call shuffles a fresh array, so nothing the application caches,
// sorts or hands out can leak into the ghost assignment.
func pureAssign(op sdk.ValAddress, threshold, n int64) []int64 {
	m := native_mimc.NewMiMC()
	bz := append([]byte{}, op...)
	if rem := len(bz) % m.BlockSize(); len(bz) > m.BlockSize() && rem != 0 {
		padded := make([]byte, len(bz)+m.BlockSize()-rem)
		copy(padded[m.BlockSize()-rem:], bz)
		bz = padded
	}
	m.Write(bz)
	seed := binary.BigEndian.Uint64(m.Sum(nil)[:8])
	if threshold > n {
		threshold = n
	}
	arr := make([]int64, n)
	for i := range arr {
		arr[i] = int64(i)
	}
	rnd := mrand.New(mrand.NewPCG(seed, 1024))
	rnd.Shuffle(int(n), func(i, j int) { arr[i], arr[j] = arr[j], arr[i] })
	return append([]int64{}, arr[:threshold]...)
}

// ghostThr computes the ghost threshold for n shards on ctx.
func (w *world) ghostThr(ctx sdk.Context, n int) *uint64 {
	params, err := w.h.App.DaKeeper.Params.Get(ctx)
	if err != nil {
		panic(err)
	}
	ids, _ := w.activeVals(ctx)
	return ghostThreshold(decRaw(params.ReplicationFactor), n, len(ids))
}

// queryCase asks Query/ZkpProofThreshold and Query/ValidatorShardIndices (for every bonded
// validator) about an item of n shards and pairs the answers with the ghost values.
func (w *world) queryCase(ctx sdk.Context, n int) (string, map[string]any) {
	q := dakeeper.NewQueryServerImpl(w.h.App.DaKeeper)
	g := w.ghostThr(ctx, n)
	var qthr *uint64
	func() {
		defer func() { recover() }()
		if r, err := q.ZkpProofThreshold(ctx, &datypes.QueryZkpProofThresholdRequest{ShardCount: uint64(n)}); err == nil {
			t := r.Threshold
			qthr = &t
		}
	}()
	_, ops := w.activeVals(ctx)
	var pairs []string
	var shown []string
	for _, op := range ops {
		var got []int64
		func() {
			defer func() { recover() }()
			if r, err := q.ValidatorShardIndices(ctx, &datypes.QueryValidatorShardIndicesRequest{ValidatorAddress: op.String(), ShardCount: uint64(n)}); err == nil {
				for _, x := range r.ShardIndices {
					got = append(got, int64(x))
				}
			}
		}()
		var want []int64
		if g != nil {
			want = pureAssign(op, int64(*g), int64(n))
		}
		pairs = append(pairs, emit.Tuple(zs(got), zs(want)))
		shown = append(shown, fmt.Sprintf("v%d: query %v, protocol %v", w.idOf(op), got, want))
	}
	info := map[string]any{"kind": "queries", "shards": n, "bonded": len(ops), "indices": shown}
	if qthr != nil {
		info["query_threshold"] = *qthr
	}
	if g != nil {
		info["protocol_threshold"] = *g
	}
	return fmt.Sprintf("CQuery %s %s %s", optU64(qthr), optU64(g), emit.List(pairs)), info
}

// readPre reads everything the model of one EndBlocker needs from the real keepers, on a
// context that already carries the height and time of the block about to end.
func (w *world) readPre(ctx sdk.Context) blockPre {
	k := w.h.App.DaKeeper
	params, err := k.Params.Get(ctx)
	if err != nil {
		panic(err)
	}
	p := blockPre{RF: decRaw(params.ReplicationFactor), SFT: decRaw(params.SlashFaultThreshold),
		Epoch: ctx.BlockHeight()%int64(params.SlashEpoch) == 0, FC: map[int]uint64{}, VInfo: map[int]vinfo{}}
	var ops []sdk.ValAddress
	p.Active, ops = w.activeVals(ctx)
	due, err := k.GetSpecificStatusDataBeforeTime(ctx, datypes.Status_STATUS_CHALLENGING, ctx.BlockTime().Add(-params.ProofPeriod).Unix())
	if err != nil {
		panic(err)
	}
	isDue := map[string]bool{}
	for _, d := range due {
		if d.Status != datypes.Status_STATUS_CHALLENGING {
			continue
		}
		isDue[d.MetadataUri] = true
		n := len(d.ShardDoubleHashes)
		it := itemPre{URI: d.MetadataUri, N: n, Parity: d.ParityShardCount, NCoins: len(d.PublishDataCollateral)}
		proofs, err := k.GetProofs(ctx, d.MetadataUri)
		if err != nil {
			panic(err)
		}
		for _, pr := range proofs {
			a, err := sdk.AccAddressFromBech32(pr.Sender)
			if err != nil {
				panic(err)
			}
			it.Proofs = append(it.Proofs, proofRec{Sender: w.idOf(a), Indices: append([]int64{}, pr.Indices...)})
			it.Stored = append(it.Stored, proofRec{Sender: w.idOf(a), Indices: append([]int64{}, pr.Indices...)})
		}
		invs, err := k.GetInvalidities(ctx, d.MetadataUri)
		if err != nil {
			panic(err)
		}
		it.NInv = len(invs)
		it.Thr = w.threshold(ctx, n)
		// the assignment a validator is held to is the protocol's: the real shuffle at the ghost threshold
		it.GThr = ghostThreshold(p.RF, n, len(ops))
		if it.GThr != nil {
			for _, op := range ops {
				it.Asg = append(it.Asg, pureAssign(op, int64(*it.GThr), int64(n)))
			}
		} else {
			for range ops {
				it.Asg = append(it.Asg, nil)
			}
		}
		p.Items = append(p.Items, it)
	}
	all, err := k.GetSpecificStatusData(ctx, datypes.Status_STATUS_CHALLENGING)
	if err != nil {
		panic(err)
	}
	for _, d := range all {
		if !isDue[d.MetadataUri] {
			p.Others = append(p.Others, d.MetadataUri)
		}
	}
	for _, v := range w.all() {
		p.IDs = append(p.IDs, v.id)
		c, err := k.GetFaultCounter(ctx, v.op)
		if err != nil {
			panic(err)
		}
		p.FC[v.id] = c
		p.VInfo[v.id] = w.vinfoOf(ctx, v)
	}
	p.CC = k.GetChallengeCounter(ctx)
	return p
}

type evt struct {
	Type  string
	Attrs [][2]string
}

func evtsOfSDK(es sdk.Events) []evt {
	var out []evt
	for _, e := range es {
		x := evt{Type: e.Type}
		for _, a := range e.Attributes {
			x.Attrs = append(x.Attrs, [2]string{a.Key, a.Value})
		}
		out = append(out, x)
	}
	return out
}

func evtsOfABCI(es []abci.Event) []evt {
	var out []evt
	for _, e := range es {
		x := evt{Type: e.Type}
		for _, a := range e.Attributes {
			x.Attrs = append(x.Attrs, [2]string{a.Key, a.Value})
		}
		out = append(out, x)
	}
	return out
}

func statusCode(s datypes.Status) int {
	switch s {
	case datypes.Status_STATUS_CHALLENGING:
		return stChallenging
	case datypes.Status_STATUS_VERIFIED:
		return stVerified
	case datypes.Status_STATUS_REJECTED:
		return stRejected
	}
	return stOther
}

func (w *world) readPost(ctx sdk.Context, pre blockPre, events []evt) blockObs {
	k := w.h.App.DaKeeper
	o := blockObs{FC: map[int]uint64{}, OthersOK: true}
	for _, it := range pre.Items {
		d, found, err := k.GetPublishedData(ctx, it.URI)
		if err != nil {
			panic(err)
		}
		if !found {
			o.Status = append(o.Status, stOther)
		} else {
			o.Status = append(o.Status, statusCode(d.Status))
		}
		proofs, _ := k.GetProofs(ctx, it.URI)
		invs, _ := k.GetInvalidities(ctx, it.URI)
		o.Left = append(o.Left, len(proofs)+len(invs))
	}
	for _, uri := range pre.Others {
		d, found, err := k.GetPublishedData(ctx, uri)
		if err != nil || !found || d.Status != datypes.Status_STATUS_CHALLENGING {
			o.OthersOK = false
		}
	}
	for _, v := range w.all() {
		c, err := k.GetFaultCounter(ctx, v.op)
		if err != nil {
			panic(err)
		}
		o.FC[v.id] = c
		vi := w.vinfoOf(ctx, v)
		if vi.Jailed {
			o.Jailed = append(o.Jailed, v.id)
		}
		if vi.Exists && pre.VInfo[v.id].Exists && vi.Tokens.LT(pre.VInfo[v.id].Tokens) {
			o.TokDec = append(o.TokDec, v.id)
		}
	}
	o.CC = k.GetChallengeCounter(ctx)
	for _, e := range events {
		if e.Type != "slash" {
			continue
		}
		for _, a := range e.Attrs {
			if a[0] == "address" {
				if id, ok := w.byCons[a[1]]; ok {
					o.SlashEv = append(o.SlashEv, id)
				} else {
					o.SlashEv = append(o.SlashEv, -1)
				}
			}
			if a[0] == "jailed" {
				if id, ok := w.byCons[a[1]]; ok {
					o.JailEv = append(o.JailEv, id)
				} else {
					o.JailEv = append(o.JailEv, -1)
				}
			}
		}
	}
	return o
}

// endBlock runs the real DA EndBlocker on ctx; a panic is reported, not propagated.
func (w *world) endBlock(ctx sdk.Context) (panicked bool, msg string, err error) {
	defer func() {
		if r := recover(); r != nil {
			panicked = true
			msg = fmt.Sprint(r)
		}
	}()
	err = w.h.App.DaKeeper.EndBlocker(ctx)
	return
}

// ---------------------------------------------------------------- Coq terms

func zs(xs []int64) string {
	out := make([]string, len(xs))
	for i, x := range xs {
		out[i] = emit.ZI(x)
	}
	return emit.List(out)
}

func ints(xs []int) string {
	out := make([]string, len(xs))
	for i, x := range xs {
		out[i] = emit.ZI(int64(x))
	}
	return emit.List(out)
}

func u64(x uint64) string { return new(big.Int).SetUint64(x).String() }

func fcList(ids []int, fc map[int]uint64) string {
	var out []string
	for _, id := range ids {
		out = append(out, emit.Tuple(emit.ZI(int64(id)), u64(fc[id])))
	}
	return emit.List(out)
}

func (p blockPre) coq() string {
	var items, thrs, gthrs, stored []string
	for _, it := range p.Items {
		var proofs, asg, st []string
		for _, pr := range it.Stored {
			st = append(st, fmt.Sprintf("{| pf_sender := %d; pf_indices := %s |}", pr.Sender, zs(pr.Indices)))
		}
		stored = append(stored, emit.List(st))
		for _, pr := range it.Proofs {
			proofs = append(proofs, fmt.Sprintf("{| pf_sender := %d; pf_indices := %s |}", pr.Sender, zs(pr.Indices)))
		}
		for i, a := range it.Asg {
			asg = append(asg, emit.Tuple(emit.ZI(int64(p.Active[i])), zs(a)))
		}
		items = append(items, fmt.Sprintf("{| it_n := %d; it_parity := %s; it_proofs := %s; it_asg := %s; it_ninv := %d; it_ncoins := %d |}",
			it.N, u64(it.Parity), emit.List(proofs), emit.List(asg), it.NInv, it.NCoins))
		thrs = append(thrs, optU64(it.Thr))
		gthrs = append(gthrs, optU64(it.GThr))
	}
	var vi []string
	for _, id := range p.IDs {
		v := p.VInfo[id]
		vi = append(vi, emit.Tuple(emit.ZI(int64(id)),
			fmt.Sprintf("{| vi_exists := %s; vi_jailed := %s; vi_bonded := %s |}", emit.Bool(v.Exists), emit.Bool(v.Jailed), emit.Bool(v.Bonded))))
	}
	return fmt.Sprintf("{| bp_rf := %s; bp_sft := %s; bp_epoch := %s; bp_active := %s; bp_ids := %s; bp_items := %s; bp_thr := %s; bp_gthr := %s; bp_stored := %s; bp_fc := %s; bp_cc := %s; bp_vinfo := %s |}",
		emit.Z(p.RF), emit.Z(p.SFT), emit.Bool(p.Epoch), ints(p.Active), ints(p.IDs), emit.List(items), emit.List(thrs), emit.List(gthrs), emit.List(stored),
		fcList(p.IDs, p.FC), u64(p.CC), emit.List(vi))
}

func (o blockObs) coq(ids []int) string {
	return fmt.Sprintf("{| bo_panic := %s; bo_status := %s; bo_left := %s; bo_fc := %s; bo_cc := %s; bo_slash_ev := %s; bo_jail_ev := %s; bo_jailed := %s; bo_tokdec := %s; bo_others_ok := %s |}",
		emit.Bool(o.Panic), ints(o.Status), ints(o.Left), fcList(ids, o.FC), u64(o.CC), ints(o.SlashEv), ints(o.JailEv), ints(o.Jailed), ints(o.TokDec), emit.Bool(o.OthersOK))
}

// ---------------------------------------------------------------- replay info

func (p blockPre) info() map[string]any {
	var items []map[string]any
	for _, it := range p.Items {
		var proofs []string
		for _, pr := range it.Proofs {
			proofs = append(proofs, fmt.Sprintf("v%d:%v", pr.Sender, pr.Indices))
		}
		var asg []string
		for i, a := range it.Asg {
			asg = append(asg, fmt.Sprintf("v%d:%v", p.Active[i], a))
		}
		var stored []string
		for _, pr := range it.Stored {
			stored = append(stored, fmt.Sprintf("addr%d:%v", pr.Sender, pr.Indices))
		}
		m := map[string]any{"uri": it.URI, "shards": it.N, "parity": it.Parity, "proofs_for_validator": proofs, "stored_records": stored, "assigned": asg,
			"invalidities": it.NInv, "collateral_coins": it.NCoins}
		if it.GThr != nil {
			m["protocol_threshold(ghost)"] = *it.GThr
		} else {
			m["protocol_threshold(ghost)"] = "undefined (nobody bonded)"
		}
		if it.Thr != nil {
			m["zkp_threshold"] = *it.Thr
		} else {
			m["zkp_threshold"] = "panic"
		}
		items = append(items, m)
	}
	fc := map[string]uint64{}
	var vals []string
	for _, id := range p.IDs {
		if p.FC[id] != 0 {
			fc[fmt.Sprintf("v%d", id)] = p.FC[id]
		}
		v := p.VInfo[id]
		vals = append(vals, fmt.Sprintf("v%d exists=%v jailed=%v bonded=%v", id, v.Exists, v.Jailed, v.Bonded))
	}
	return map[string]any{"replication_factor_raw": p.RF.String(), "slash_fault_threshold_raw": p.SFT.String(), "slash_epoch_block": p.Epoch,
		"active": p.Active, "items": items, "fault_counters": fc, "challenge_counter": p.CC, "validators": vals}
}

func (o blockObs) info(ids []int) map[string]any {
	fc := map[string]uint64{}
	for _, id := range ids {
		if o.FC[id] != 0 {
			fc[fmt.Sprintf("v%d", id)] = o.FC[id]
		}
	}
	m := map[string]any{"panic": o.Panic, "status(1=challenging,2=verified,3=rejected)": o.Status, "records_left": o.Left,
		"fault_counters": fc, "challenge_counter": o.CC, "slash_events": o.SlashEv, "jail_events": o.JailEv, "jailed_after": o.Jailed, "tokens_decreased": o.TokDec}
	if o.Panic {
		m["panic_msg"] = o.PanicMsg
	}
	if o.Err != "" {
		m["err"] = o.Err
	}
	return m
}

// ---------------------------------------------------------------- groth16 proof for the message path

// makeProof builds one real Groth16 validity proof with the proving key of the given params.
// All shards of the items published through the message path carry the same double hash,
// so the single proof is valid for every index.
func makeProof(params datypes.Params) (proofBz, hash []byte, err error) {
	gnarklogger.Disable()
	pre := big.NewInt(111)
	m := native_mimc.NewMiMC()
	m.Write(pre.Bytes())
	hash = m.Sum(nil)
	assignment := zkp.ValidityProofCircuit{ShardHash: pre, ShardDoubleHash: hash}
	ccs, err := frontend.Compile(ecc.BN254.ScalarField(), r1cs.NewBuilder, &zkp.ValidityProofCircuit{})
	if err != nil {
		return nil, nil, err
	}
	pk, err := zkp.UnmarshalProvingKey(params.ZkpProvingKey)
	if err != nil {
		return nil, nil, err
	}
	wit, err := frontend.NewWitness(&assignment, ecc.BN254.ScalarField())
	if err != nil {
		return nil, nil, err
	}
	proof, err := groth16.Prove(ccs, pk, wit)
	if err != nil {
		return nil, nil, err
	}
	var b bytes.Buffer
	bw := bufio.NewWriter(&b)
	if _, err = proof.WriteTo(bw); err != nil {
		return nil, nil, err
	}
	if err = bw.Flush(); err != nil {
		return nil, nil, err
	}
	return b.Bytes(), hash, nil
}

// shapeKey summarises a block for the distinct-non-trivial count.
func shapeKey(p blockPre) string {
	var parts []string
	for _, it := range p.Items {
		var ps []string
		for _, pr := range it.Proofs {
			ps = append(ps, fmt.Sprintf("%d:%v", pr.Sender, pr.Indices))
		}
		parts = append(parts, fmt.Sprintf("%d/%d/%s", it.N, it.Parity, strings.Join(ps, ",")))
	}
	sort.Strings(parts)
	return fmt.Sprintf("%s|%v|%s", p.RF, p.Active, strings.Join(parts, ";"))
}
