(* C11 — proofs about the model Swap/IbcSwap.v (configuration [fixed] = the code with the repairs of
   notes/patches/C11-*.patch; [as_found] and partial configurations for the refutations). *)
From Coq Require Import ZArith List Bool Lia.
Import ListNotations.
From Sunrise Require Import Base.Outcome Base.Dec Base.DecLemmas Swap.IbcSwap.
Local Open Scope Z_scope.

(* ---------- basics ---------- *)
Lemma idx_eqb_eq : forall a b : idx, idx_eqb a b = true <-> a = b.
Proof.
  intros [a1 a2] [b1 b2]; unfold idx_eqb; simpl. rewrite andb_true_iff, !Z.eqb_eq.
  split; [intros [-> ->]; reflexivity | intros H; inversion H; auto].
Qed.
Lemma idx_eqb_refl : forall a, idx_eqb a a = true.
Proof. intros; apply idx_eqb_eq; reflexivity. Qed.
Lemma idx_eqb_neq : forall a b : idx, idx_eqb a b = false <-> a <> b.
Proof.
  intros a b; split; intros H.
  - intros E; apply idx_eqb_eq in E; congruence.
  - destruct (idx_eqb a b) eqn:E; auto. apply idx_eqb_eq in E; contradiction.
Qed.
Lemma idx_eqb_sym : forall a b, idx_eqb a b = idx_eqb b a.
Proof. intros [a1 a2] [b1 b2]; unfold idx_eqb; simpl. rewrite (Z.eqb_sym a1), (Z.eqb_sym a2); reflexivity. Qed.

Lemma upd_same : forall A (f : idx -> A) i v, upd f i v i = v.
Proof. intros; unfold upd; rewrite idx_eqb_refl; reflexivity. Qed.
Lemma upd_other : forall A (f : idx -> A) i v j, j <> i -> upd f i v j = f j.
Proof. intros; unfold upd. apply idx_eqb_neq in H. rewrite H; reflexivity. Qed.

Ltac bal_simpl := unfold bmove, badd in *.
Ltac zb := repeat match goal with
  | |- context[?a =? ?b] => destruct (Z.eqb_spec a b)
  | H : context[?a =? ?b] |- _ => destruct (Z.eqb_spec a b)
  end; simpl in *.

Lemma bsend_spec : forall b f t d v b', bsend b f t d v = Some b' -> b' = bmove b f t d v /\ 0 <= v <= b f d.
Proof.
  unfold bsend; intros. destruct (v <? 0) eqn:E1; simpl in H; [discriminate|].
  destruct (b f d <? v) eqn:E2; [discriminate|]. inversion H; subst. split; auto. lia.
Qed.

Lemma bmove_other : forall b f t d v a d', a <> f -> a <> t -> bmove b f t d v a d' = b a d'.
Proof. intros; bal_simpl. zb; try lia; reflexivity. Qed.
Lemma bmove_denom : forall b f t d v a d', d' <> d -> bmove b f t d v a d' = b a d'.
Proof. intros; bal_simpl. zb; try lia; reflexivity. Qed.
Lemma bmove_from : forall b f t d v, f <> t -> bmove b f t d v f d = b f d - v.
Proof. intros; bal_simpl. zb; try lia. Qed.
Lemma bmove_to : forall b f t d v, f <> t -> bmove b f t d v t d = b t d + v.
Proof. intros; bal_simpl. zb; try lia. Qed.

(* ---------- well-formed events, structural invariant ---------- *)
Definition user_acct (a : Z) : Prop := a <> MOD /\ a <> ESC /\ a <> POOL /\ a <> PROV.

(* what the environment guarantees about an incoming packet: the receiver is an ordinary account; the
   fee rate parameter passed Params.Validate; coin amounts are not negative; for exact-in the route
   consumes no more than it was given (it consumes exactly that) *)
Definition wf_recv (r : recv) : Prop :=
  user_acct (r_rcv r) /\ 0 <= r_rate r <= P /\
  match r_class r, r_quote r with
  | MSwap m, Ok (tin, tout) =>
      0 <= tout /\ match m_strat m with ExIn _ => tin <= r_amt r | ExOut aout _ => 0 <= aout end
  | _, _ => True
  end.
Definition wf_event (e : event) : Prop := match e with ERecv r => wf_recv r | _ => True end.

Definition slot_of (b : bool) (r : inc) : slot := if b then i_forward r else i_change r.
Definition leg_val (o : option Z) : Z := match o with Some a => a | None => ACK_NONE end.

(* While OnRecvPacket runs for packet k0 the slots of its record-to-be are provisional: [op] =
   Some (k0, change slot, forward slot). Between messages [op] = None. *)
Definition open := option (idx * slot * slot).
Definition the_slot (op : open) (s : st) (k : idx) (b : bool) : option slot :=
  match op with
  | Some (k0, cs, fs) => if idx_eqb k k0 then Some (if b then fs else cs) else option_map (slot_of b) (incs s k)
  | None => option_map (slot_of b) (incs s k)
  end.
Definition fresh_slot (x : slot) : Prop := x = SAck ACK_NONE \/ exists i, x = SIdx i.

Record InvO (op : open) (s : st) : Prop := {
  (* every outgoing record belongs to a live, owned commitment *)
  I_oc : forall i o, outs s i = Some o -> exists p b, coms s i = Some p /\ p_owner p = Some (o_wait o, b);
  (* every owned live commitment has its outgoing record and is awaited by its packet's slot *)
  I_co : forall i p k b, coms s i = Some p -> p_owner p = Some (k, b) ->
           (exists o, outs s i = Some o /\ o_wait o = k) /\ the_slot op s k b = Some (SIdx i);
  (* a pending slot points at a live commitment of that leg *)
  I_ic : forall k b i, the_slot op s k b = Some (SIdx i) -> exists p, coms s i = Some p /\ p_owner p = Some (k, b);
  (* an incoming record exists only while something is pending, and then no acknowledgement is written *)
  I_ip : forall k r, incs s k = Some r -> exists b i, slot_of b r = SIdx i;
  I_ia : forall k r, incs s k = Some r -> acks s k = None /\ rcpt s k = true;
  I_ar : forall k a, acks s k = Some a -> rcpt s k = true;
  (* sequences handed out so far are below the channel's next sequence *)
  I_fr : forall i, (coms s i <> None \/ outs s i <> None) -> snd i < nseq s (fst i);
  (* senders of legs are ordinary accounts *)
  I_sn : forall i p, coms s i = Some p -> user_acct (p_sender p);
  (* ghost outcomes agree with the slots and with the written acknowledgement *)
  I_gs : forall k r b, incs s k = Some r ->
           match slot_of b r with SIdx _ => g_out s k b = None | SAck a => a = leg_val (g_out s k b) end;
  I_ga : forall k tin tout a0 ca fa, acks s k = Some (ASwap tin tout a0 ca fa) ->
           ca = leg_val (g_out s k false) /\ fa = leg_val (g_out s k true);
  I_gn : forall k b, rcpt s k = false -> g_out s k b = None;
  (* the packet being received *)
  I_op : forall k0 cs fs, op = Some (k0, cs, fs) ->
           incs s k0 = None /\ acks s k0 = None /\ rcpt s k0 = true /\ (forall b, g_out s k0 b = None) /\
           fresh_slot cs /\ fresh_slot fs;
  (* a received packet has its acknowledgement or its pending record (or is being received) *)
  I_ra : forall k, rcpt s k = true -> acks s k <> None \/ incs s k <> None \/ exists cs fs, op = Some (k, cs, fs)
}.
Definition Inv := InvO None.

Lemma Inv_clean : forall b n, Inv (clean b n).
Proof.
  intros; constructor; simpl; intros; try discriminate; try (destruct H; congruence); auto.
Qed.

(* no commitment is owned by a packet that has not been received *)
Lemma unreceived_no_legs : forall s k, Inv s -> rcpt s k = false ->
  incs s k = None /\ acks s k = None /\ forall i p b, coms s i = Some p -> p_owner p <> Some (k, b).
Proof.
  intros s k HI Hr. assert (Hi : incs s k = None).
  { destruct (incs s k) eqn:E; auto. apply (I_ia _ s HI) in E. destruct E; congruence. }
  split; auto. split.
  - destruct (acks s k) eqn:E; auto. apply (I_ar _ s HI) in E. congruence.
  - intros i p b Hc Ho. destruct (I_co _ s HI _ _ _ _ Hc Ho) as [_ Hs]. simpl in Hs. rewrite Hi in Hs. discriminate.
Qed.

(* fields the invariant does not mention *)
Lemma InvO_set_bal : forall op s b, InvO op s -> InvO op (set_bal s b).
Proof. intros op s b []; constructor; auto. Qed.
Lemma InvO_set_grecv : forall op s x, InvO op s -> InvO op (set_grecv s x).
Proof. intros op s b []; constructor; auto. Qed.
Lemma InvO_set_gsent : forall op s x, InvO op s -> InvO op (set_gsent s x).
Proof. intros op s b []; constructor; auto. Qed.
Lemma InvO_set_glock : forall op s x, InvO op s -> InvO op (set_glock s x).
Proof. intros op s b []; constructor; auto. Qed.

Ltac ieq a b :=
  let E := fresh "E" in
  destruct (idx_eqb a b) eqn:E; [apply idx_eqb_eq in E; try subst | try (apply idx_eqb_neq in E)].

Ltac upd_in H := unfold upd in H; simpl in H.

(* ---------- OnRecvPacket, piecewise ---------- *)
(* MsgRecvPacket starts: the receipt is written, the record-to-be has two empty slots *)
Lemma inv_open : forall s k, Inv s -> rcpt s k = false ->
  InvO (Some (k, SAck ACK_NONE, SAck ACK_NONE)) (set_rcpt s (upd (rcpt s) k true)).
Proof.
  intros s k HI Hr. destruct (unreceived_no_legs s k HI Hr) as [Hi [Ha Hl]].
  constructor; simpl.
  - apply (I_oc _ s HI).
  - intros i p k' b Hc Ho. destruct (I_co _ s HI _ _ _ _ Hc Ho) as [H1 H2]. split; auto.
    ieq k' k. { exfalso; eapply Hl; eauto. } simpl in H2. exact H2.
  - intros k' b i. ieq k' k. { intros H; destruct b; discriminate. } apply (I_ic _ s HI).
  - apply (I_ip _ s HI).
  - intros k' r Hk. destruct (I_ia _ s HI _ _ Hk) as [H1 H2]. split; auto. unfold upd. rewrite H2. destruct (idx_eqb k' k); auto.
  - intros k' a Hk. unfold upd. rewrite (I_ar _ s HI _ _ Hk). destruct (idx_eqb k' k); auto.
  - apply (I_fr _ s HI).
  - apply (I_sn _ s HI).
  - apply (I_gs _ s HI).
  - apply (I_ga _ s HI).
  - intros k' b. unfold upd. ieq k' k. { discriminate. } apply (I_gn _ s HI).
  - intros k0 cs fs Hop. inversion Hop; subst. rewrite upd_same. repeat split; auto.
    + intros b. apply (I_gn _ s HI); auto.
    + left; reflexivity.
    + left; reflexivity.
  - intros k'. unfold upd. ieq k' k. { intros _. right; right; eauto. }
    intros Hk. destruct (I_ra _ s HI _ Hk) as [H|[H|[? [? H]]]]; auto; discriminate.
Qed.

Definition put_slot (b : bool) (x : slot) (cs fs : slot) : slot * slot := if b then (cs, x) else (x, fs).

(* a successful Transfer + outgoing record for leg b of the packet being received *)
Lemma inv_transfer : forall s k (cs fs : slot) (b : bool) R d amt f s' i,
  InvO (Some (k, cs, fs)) s -> user_acct R ->
  (if b then fs else cs) = SAck ACK_NONE ->
  transfer s k b R d amt f = Ok (s', i) ->
  InvO (Some (k, fst (put_slot b (SIdx i) cs fs), snd (put_slot b (SIdx i) cs fs))) s' /\ rcpt s' = rcpt s /\ incs s' = incs s /\ acks s' = acks s.
Proof.
  intros s k cs fs b R d amt f s' i HI HR Hb Ht. unfold transfer in Ht.
  destruct (negb (f_ok f) || (amt <=? 0)); [discriminate|].
  destruct (bsend (bal s) R ESC d amt) as [bk|]; [|discriminate].
  inversion Ht; subst s' i; clear Ht. split; [|auto].
  set (i := (f_chan f, nseq s (f_chan f))).
  assert (Hfc : coms s i = None).
  { destruct (coms s i) eqn:E; auto. assert (X : snd i < nseq s (fst i)) by (apply (I_fr _ s HI); left; congruence). simpl in X; lia. }
  assert (Hfo : outs s i = None).
  { destruct (outs s i) eqn:E; auto. assert (X : snd i < nseq s (fst i)) by (apply (I_fr _ s HI); right; congruence). simpl in X; lia. }
  destruct (I_op _ s HI _ _ _ eq_refl) as [Oi [Oa [Or [Og [Oc Of]]]]].
  constructor; simpl.
  - intros j o. unfold upd. ieq j i.
    + intros Ho; inversion Ho; subst; simpl. eexists; exists b; split; reflexivity.
    + intros Ho. destruct (I_oc _ s HI _ _ Ho) as [p [b' [H1 H2]]]. exists p, b'; auto.
  - intros j p k' b'. unfold upd. ieq j i.
    + intros Hp Ho; inversion Hp; subst; simpl in Ho; inversion Ho; subst k' b'. split.
      * eexists; split; reflexivity.
      * rewrite idx_eqb_refl. destruct b; reflexivity.
    + intros Hp Ho. destruct (I_co _ s HI _ _ _ _ Hp Ho) as [H1 H2]. split; auto.
      simpl in H2. destruct (idx_eqb k' k); auto.
      destruct b, b'; simpl; auto; rewrite Hb in H2; discriminate.
  - intros k' b' j. ieq k' k.
    + intros Hs. unfold upd. destruct (Bool.eqb b' b) eqn:Eb.
      * apply eqb_prop in Eb; subst b'. assert (j = i) by (destruct b; simpl in Hs; congruence). subst j.
        rewrite idx_eqb_refl. eexists; split; reflexivity.
      * assert (Hold : the_slot (Some (k, cs, fs)) s k b' = Some (SIdx j)).
        { simpl. rewrite idx_eqb_refl. destruct b, b'; simpl in *; try discriminate; auto. }
        destruct (I_ic _ s HI _ _ _ Hold) as [p [H1 H2]]. ieq j i; [congruence|]. exists p; auto.
    + intros Hs. assert (Hold : the_slot (Some (k, cs, fs)) s k' b' = Some (SIdx j)).
      { simpl. apply idx_eqb_neq in E. rewrite E. exact Hs. }
      destruct (I_ic _ s HI _ _ _ Hold) as [p [H1 H2]]. unfold upd. ieq j i; [congruence|]. exists p; auto.
  - apply (I_ip _ s HI).
  - apply (I_ia _ s HI).
  - apply (I_ar _ s HI).
  - intros j Hj. unfold updz. unfold upd in Hj. ieq j i.
    + simpl. rewrite Z.eqb_refl. lia.
    + assert (X : snd j < nseq s (fst j)) by (apply (I_fr _ s HI); exact Hj).
      destruct (fst j =? f_chan f) eqn:Ec; auto. apply Z.eqb_eq in Ec. rewrite Ec in X. lia.
  - intros j p. unfold upd. ieq j i.
    + intros Hp; inversion Hp; subst; simpl; auto.
    + apply (I_sn _ s HI).
  - apply (I_gs _ s HI).
  - apply (I_ga _ s HI).
  - apply (I_gn _ s HI).
  - intros k0 cs0 fs0 Hop. inversion Hop; subst. repeat split; auto.
    + destruct b; simpl; auto. right; eexists; reflexivity.
    + destruct b; simpl; auto. right; eexists; reflexivity.
  - intros k' Hk. destruct (I_ra _ s HI _ Hk) as [H|[H|[? [? H]]]]; auto. inversion H; subst. right; right; eauto.
Qed.

(* the record is stored: the provisional slots become the record's slots *)
Lemma inv_close_record : forall s k cs fs a0 tin tout fee,
  InvO (Some (k, cs, fs)) s ->
  (exists i, cs = SIdx i) \/ (exists i, fs = SIdx i) ->
  Inv (set_incs s (upd (incs s) k (Some {| i_ack0 := a0; i_tin := tin; i_tout := tout; i_fee := fee; i_change := cs; i_forward := fs |}))).
Proof.
  intros s k cs fs a0 tin tout fee HI Hp.
  destruct (I_op _ s HI _ _ _ eq_refl) as [Oi [Oa [Or [Og [Oc Of]]]]].
  constructor; simpl.
  - apply (I_oc _ s HI).
  - intros i p k' b Hc Ho. destruct (I_co _ s HI _ _ _ _ Hc Ho) as [H1 H2]. split; auto.
    simpl in H2. unfold upd. destruct (idx_eqb k' k); auto.
  - intros k' b i Hs. apply (I_ic _ s HI). simpl. unfold upd in Hs. destruct (idx_eqb k' k); auto.
  - intros k' r. unfold upd. ieq k' k.
    + intros Hr; inversion Hr; subst. destruct Hp as [[i ->]|[i ->]]; [exists false, i | exists true, i]; reflexivity.
    + apply (I_ip _ s HI).
  - intros k' r. unfold upd. ieq k' k.
    + intros _. auto.
    + apply (I_ia _ s HI).
  - apply (I_ar _ s HI).
  - apply (I_fr _ s HI).
  - apply (I_sn _ s HI).
  - intros k' r b. unfold upd. ieq k' k.
    + intros Hr; inversion Hr; subst; clear Hr. rewrite Og.
      destruct b; simpl; [destruct Of as [->|[i ->]] | destruct Oc as [->|[i ->]]]; reflexivity.
    + apply (I_gs _ s HI).
  - apply (I_ga _ s HI).
  - apply (I_gn _ s HI).
  - intros; discriminate.
  - intros k' Hk. unfold upd. ieq k' k. { right; left; discriminate. }
    destruct (I_ra _ s HI _ Hk) as [H|[H|[? [? H]]]]; auto. inversion H; congruence.
Qed.

Definition plain_ack (a : ack) : Prop :=
  match a with ASwap _ _ _ ca fa => ca = ACK_NONE /\ fa = ACK_NONE | _ => True end.

(* no leg was sent: the acknowledgement is written at once *)
Lemma inv_close_ack : forall s k a,
  InvO (Some (k, SAck ACK_NONE, SAck ACK_NONE)) s -> plain_ack a ->
  Inv (set_acks s (upd (acks s) k (Some a))).
Proof.
  intros s k a HI Ha.
  destruct (I_op _ s HI _ _ _ eq_refl) as [Oi [Oa [Or [Og _]]]].
  constructor; simpl.
  - apply (I_oc _ s HI).
  - intros i p k' b Hc Ho. destruct (I_co _ s HI _ _ _ _ Hc Ho) as [H1 H2]. split; auto.
    simpl in H2. ieq k' k; auto. destruct b; discriminate.
  - intros k' b i Hs. apply (I_ic _ s HI). simpl. ieq k' k; auto. rewrite Oi in Hs; discriminate.
  - apply (I_ip _ s HI).
  - intros k' r Hr. unfold upd. ieq k' k; [congruence|]. apply (I_ia _ s HI _ _ Hr).
  - intros k' a'. unfold upd. ieq k' k; auto. apply (I_ar _ s HI).
  - apply (I_fr _ s HI).
  - apply (I_sn _ s HI).
  - apply (I_gs _ s HI).
  - intros k' tin tout a0 ca fa. unfold upd. ieq k' k.
    + intros H; inversion H; subst a. simpl in Ha. rewrite !Og. destruct Ha; subst; auto.
    + apply (I_ga _ s HI).
  - apply (I_gn _ s HI).
  - intros; discriminate.
  - intros k' Hk. unfold upd. ieq k' k. { left; discriminate. }
    destruct (I_ra _ s HI _ Hk) as [H|[H|[? [? H]]]]; auto. inversion H; congruence.
Qed.

Lemma send_change_inv : forall s k R din rem m s' chg,
  InvO (Some (k, SAck ACK_NONE, SAck ACK_NONE)) s -> user_acct R ->
  send_change s k R din rem m = Ok (s', chg) ->
  InvO (Some (k, chg, SAck ACK_NONE)) s' /\ fresh_slot chg /\ rcpt s' = rcpt s /\ incs s' = incs s /\ acks s' = acks s.
Proof.
  intros s k R din rem m s' chg HI HR H. unfold send_change in H.
  assert (Hid : forall s0 c0, Ok (s, SAck ACK_NONE) = Ok (s0, c0) ->
                InvO (Some (k, c0, SAck ACK_NONE)) s0 /\ fresh_slot c0 /\ rcpt s0 = rcpt s /\ incs s0 = incs s /\ acks s0 = acks s).
  { intros s0 c0 E; inversion E; subst. split; [exact HI|]. split; [left; reflexivity|]. auto. }
  destruct (m_strat m) as [mo|ao [ch|]]; auto.
  destruct (0 <? rem); auto.
  destruct (transfer s k false R din rem ch) as [[s2 i]| |] eqn:Et; simpl in H; try discriminate.
  inversion H; subst; clear H.
  destruct (inv_transfer s k _ _ false R din rem ch s' i HI HR eq_refl Et) as [H1 H2]. simpl in H1.
  split; auto. split; auto. right; eexists; reflexivity.
Qed.

Lemma send_forward_inv : forall s k R dout net m s' chg fw,
  InvO (Some (k, chg, SAck ACK_NONE)) s -> user_acct R ->
  send_forward s k R dout net m = Ok (s', fw) ->
  InvO (Some (k, chg, fw)) s' /\ fresh_slot fw /\ rcpt s' = rcpt s /\ incs s' = incs s /\ acks s' = acks s.
Proof.
  intros s k R dout net m s' chg fw HI HR H. unfold send_forward in H.
  destruct (m_fwd m) as [f|].
  - destruct (transfer s k true R dout net f) as [[s2 i]| |] eqn:Et; simpl in H; try discriminate.
    inversion H; subst; clear H.
    destruct (inv_transfer s k _ _ true R dout net f s' i HI HR eq_refl Et) as [H1 H2]. simpl in H1.
    split; auto. split; auto. right; eexists; reflexivity.
  - inversion H; subst. split; [exact HI|]. split; [left; reflexivity|]. auto.
Qed.

Lemma finish_inv : forall s k tin tout fee chg fw,
  InvO (Some (k, chg, fw)) s -> Inv (finish s k tin tout fee chg fw).
Proof.
  intros s k tin tout fee chg fw HI.
  destruct (I_op _ s HI _ _ _ eq_refl) as [_ [_ [_ [_ [Oc Of]]]]].
  unfold finish. destruct chg as [i|a].
  - apply inv_close_record; auto. left; eexists; reflexivity.
  - destruct fw as [j|a'].
    + apply inv_close_record; auto. right; eexists; reflexivity.
    + destruct Oc as [Ec|[? Ec]]; [|discriminate]. destruct Of as [Ef|[? Ef]]; [|discriminate].
      inversion Ec; inversion Ef; subst. apply inv_close_ack; auto. simpl; auto.
Qed.

Lemma recv_swap_inv : forall s r m s',
  InvO (Some (r_key r, SAck ACK_NONE, SAck ACK_NONE)) s -> user_acct (r_rcv r) ->
  recv_swap fixed s r m = Ok s' -> Inv s'.
Proof.
  intros s r m s' HI HR H. unfold recv_swap in H.
  destruct (recv_funds fixed s r m) as [[b5 [[tin tout] fee]]| |]; simpl in H; try discriminate.
  match type of H with context[send_change ?x _ _ _ _ _] => set (s1 := x) in * end.
  assert (H1 : InvO (Some (r_key r, SAck ACK_NONE, SAck ACK_NONE)) s1).
  { apply InvO_set_grecv, InvO_set_bal; exact HI. }
  destruct (send_change s1 (r_key r) (r_rcv r) (r_in r) (r_amt r - tin) m) as [[s2 chg]| |] eqn:Ec; simpl in H; try discriminate.
  destruct (send_change_inv _ _ _ _ _ _ _ _ H1 HR Ec) as [H2 _].
  destruct (send_forward s2 (r_key r) (r_rcv r) (r_out r) (tout - fee) m) as [[s3 fw]| |] eqn:Ef; simpl in H; try discriminate.
  destruct (send_forward_inv _ _ _ _ _ _ _ _ _ H2 HR Ef) as [H3 _].
  inversion H; subst. apply finish_inv; exact H3.
Qed.

Theorem step_recv_inv : forall s r s', Inv s -> wf_recv r -> step_recv fixed s r = Ok s' -> Inv s'.
Proof.
  intros s r s' HI [HR _] H. unfold step_recv in H.
  destruct (rcpt s (r_key r)) eqn:Hr. { inversion H; subst; exact HI. }
  pose proof (inv_open s (r_key r) HI Hr) as HO.
  set (s0 := set_rcpt s (upd (rcpt s) (r_key r) true)) in *.
  assert (Href : Inv (set_acks s0 (upd (acks s0) (r_key r) (Some AErr)))).
  { apply inv_close_ack; simpl; auto. }
  destruct (r_class r) as [| | |m].
  - destruct (negb (r_rcv_ok r) || (r_amt r <=? 0)); inversion H; subst; auto.
    apply (inv_close_ack (set_grecv (set_bal s0 _) _) (r_key r) APlain); simpl; auto. apply InvO_set_grecv, InvO_set_bal; exact HO.
  - inversion H; subst; auto.
  - discriminate.
  - destruct (recv_swap fixed s0 r m) as [s2| |] eqn:E; inversion H; subst; auto.
    eapply recv_swap_inv; eauto.
Qed.

(* ---------- acknowledgements and timeouts of legs ---------- *)
Lemma owned_leg : forall s i p o, Inv s -> coms s i = Some p -> outs s i = Some o ->
  exists b r, p_owner p = Some (o_wait o, b) /\ incs s (o_wait o) = Some r /\ slot_of b r = SIdx i /\
              slot_of (negb b) r <> SIdx i.
Proof.
  intros s i p o HI Hc Ho.
  destruct (I_oc _ s HI _ _ Ho) as [p' [b [Hc' Hw]]]. rewrite Hc in Hc'; inversion Hc'; subst p'.
  destruct (I_co _ s HI _ _ _ _ Hc Hw) as [_ Hs]. simpl in Hs.
  destruct (incs s (o_wait o)) as [r|] eqn:Hr; [|discriminate]. simpl in Hs. inversion Hs.
  exists b, r. repeat split; auto.
  intros Hn. assert (Hs' : the_slot None s (o_wait o) (negb b) = Some (SIdx i)) by (simpl; rewrite Hr; simpl; congruence).
  destruct (I_ic _ s HI _ _ _ Hs') as [p2 [Hc2 Ho2]]. rewrite Hc in Hc2; inversion Hc2; subst p2.
  rewrite Hw in Ho2. inversion Ho2. destruct b; discriminate.
Qed.

(* a commitment without an outgoing record is not owned by any incoming packet *)
Lemma untracked_unowned : forall s i p, Inv s -> coms s i = Some p -> outs s i = None -> p_owner p = None.
Proof.
  intros s i p HI Hc Ho. destruct (p_owner p) as [[k b]|] eqn:E; auto.
  destruct (I_co _ s HI _ _ _ _ Hc E) as [[o [Ho' _]] _]. congruence.
Qed.

Lemma inv_drop_untracked : forall s i p, Inv s -> coms s i = Some p -> outs s i = None ->
  Inv (set_coms s (upd (coms s) i None)).
Proof.
  intros s i p HI Hc Ho. pose proof (untracked_unowned s i p HI Hc Ho) as Hu.
  constructor; simpl.
  - intros j o Hj. destruct (I_oc _ s HI _ _ Hj) as [p' [b [H1 H2]]]. exists p', b. split; auto.
    unfold upd. ieq j i; auto; congruence.
  - intros j p' k b. unfold upd. ieq j i; [discriminate|]. apply (I_co _ s HI).
  - intros k b j Hs. destruct (I_ic _ s HI _ _ _ Hs) as [p' [H1 H2]]. exists p'. split; auto.
    unfold upd. ieq j i; auto; congruence.
  - apply (I_ip _ s HI).
  - apply (I_ia _ s HI).
  - apply (I_ar _ s HI).
  - intros j Hj. apply (I_fr _ s HI). destruct Hj as [Hj|Hj]; auto. left. unfold upd in Hj. ieq j i; auto; congruence.
  - intros j p'. unfold upd. ieq j i; [discriminate|]. apply (I_sn _ s HI).
  - apply (I_gs _ s HI).
  - apply (I_ga _ s HI).
  - apply (I_gn _ s HI).
  - intros; discriminate.
  - intros k' Hk. destruct (I_ra _ s HI _ Hk) as [H|[H|[? [? H]]]]; auto; discriminate.
Qed.

Definition fill_both (i : idx) (a : Z) (r : inc) : inc :=
  {| i_ack0 := i_ack0 r; i_tin := i_tin r; i_tout := i_tout r; i_fee := i_fee r;
     i_change := fill_slot true i a (i_change r); i_forward := fill_slot true i a (i_forward r) |}.

Lemma fill_own : forall b i a r, slot_of b r = SIdx i -> slot_of b (fill_both i a r) = SAck a.
Proof. intros [] i a r H; simpl in *; rewrite H; simpl; rewrite idx_eqb_refl; reflexivity. Qed.
Lemma fill_other : forall b i a r, slot_of b r <> SIdx i -> slot_of b (fill_both i a r) = slot_of b r.
Proof.
  intros [] i a r H; simpl in *.
  - destruct (i_forward r) as [j|]; simpl; auto. ieq j i; auto; congruence.
  - destruct (i_change r) as [j|]; simpl; auto. ieq j i; auto; congruence.
Qed.

(* the ghost [g_out] records exactly the final outcomes delivered by the environment *)
Definition gout_after (p : pkt) (a : Z) (g : idx -> bool -> option Z) : idx -> bool -> option Z :=
  match p_owner p with Some (k, b) => updl g k b (Some a) | None => g end.

(* the state in which [complete] runs after leg i got its final outcome a *)
Definition resolved (s : st) (i : idx) (p : pkt) (gl : Z -> Z) (a : Z) : st :=
  note_outcome (set_outs (set_glock (set_coms s (upd (coms s) i None)) gl) (upd (outs s) i None)) p a.

Lemma resolve_inv : forall s i p o r gl a,
  Inv s -> coms s i = Some p -> outs s i = Some o -> incs s (o_wait o) = Some r ->
  exists s2, complete fixed (resolved s i p gl a) (o_wait o) (fill_both i a r) = Ok s2 /\ Inv s2 /\
             bal s2 = bal s /\ g_recv s2 = g_recv s /\ g_sent s2 = g_sent s /\ g_lock s2 = gl /\ nseq s2 = nseq s /\
             g_out s2 = gout_after p a (g_out s).
Proof.
  intros s i p o r gl a HI Hc Ho Hr.
  destruct (owned_leg s i p o HI Hc Ho) as [b [r0 [Hw [Hr0 [Hsb Hsn]]]]].
  rewrite Hr in Hr0; inversion Hr0; subst r0; clear Hr0.
  set (k := o_wait o) in *.
  destruct (I_ia _ s HI _ _ Hr) as [Hak Hrk].
  unfold resolved, note_outcome. rewrite Hw.
  pose proof (fill_own b i a r Hsb) as Fo. pose proof (fill_other (negb b) i a r Hsn) as Fn.
  remember (fill_both i a r) as r' eqn:Er'. clear Er'.
  (* facts shared by both outcomes of [complete] *)
  assert (Hcoms : forall j p2 k2 b2, upd (coms s) i None j = Some p2 -> p_owner p2 = Some (k2, b2) ->
                  j <> i /\ coms s j = Some p2 /\ (exists o2, outs s j = Some o2 /\ o_wait o2 = k2) /\
                  the_slot None s k2 b2 = Some (SIdx j) /\ (k2 = k -> b2 = negb b /\ slot_of (negb b) r = SIdx j)).
  { intros j p2 k2 b2. unfold upd. ieq j i; [discriminate|]. intros H1 H2.
    destruct (I_co _ s HI _ _ _ _ H1 H2) as [H3 H4]. repeat split; auto.
    - subst k2. simpl in H4. rewrite Hr in H4. simpl in H4. inversion H4.
      destruct (Bool.eqb b2 b) eqn:Eb. { apply eqb_prop in Eb; subst; congruence. }
      destruct b2, b; simpl in *; try discriminate; auto.
    - subst k2. simpl in H4. rewrite Hr in H4. simpl in H4. inversion H4.
      destruct (Bool.eqb b2 b) eqn:Eb. { apply eqb_prop in Eb; subst; congruence. }
      destruct b2, b; simpl in *; try discriminate; auto. }
  unfold complete.
  destruct (slot_of (negb b) r) as [j|a2] eqn:Eother.
  - (* the other leg is still pending: the record is stored again *)
    assert (Hnc : match i_change r', i_forward r' with SAck _, SAck _ => False | _, _ => True end).
    { destruct b; simpl in Fo, Fn; rewrite Fo, Fn; exact I. }
    eexists. split.
    { destruct (i_change r'), (i_forward r'); try contradiction; reflexivity. }
    split; [|simpl; unfold gout_after; rewrite Hw; repeat split; reflexivity].
    assert (HS : Inv (set_incs (set_gout (set_outs (set_glock (set_coms s (upd (coms s) i None)) gl) (upd (outs s) i None))
                                         (updl (g_out s) k b (Some a))) (upd (incs s) k (Some r')))).
    { constructor; simpl.
      - intros j0 o0. unfold upd at 1. ieq j0 i; [discriminate|]. intros Hj0.
        destruct (I_oc _ s HI _ _ Hj0) as [p2 [b2 [H1 H2]]]. exists p2, b2. split; auto. rewrite upd_other; auto.
      - intros j0 p2 k2 b2 H1 H2. destruct (Hcoms _ _ _ _ H1 H2) as [Hne [Hc2 [Ho2 [Hs2 Hk2]]]]. split.
        + rewrite upd_other; auto.
        + unfold upd. ieq k2 k.
          * destruct (Hk2 eq_refl) as [-> Hsl]. simpl. rewrite Fn. congruence.
          * simpl in Hs2. exact Hs2.
      - intros k2 b2 j0. unfold upd at 1. ieq k2 k.
        + simpl. intros Hs. inversion Hs as [Hs']. destruct (Bool.eqb b2 b) eqn:Eb.
          { apply eqb_prop in Eb; subst b2. rewrite Fo in Hs'. discriminate. }
          assert (b2 = negb b) by (destruct b2, b; simpl in *; congruence). subst b2.
          rewrite Fn in Hs'. assert (Hold : the_slot None s k (negb b) = Some (SIdx j0)) by (simpl; rewrite Hr; simpl; congruence).
          destruct (I_ic _ s HI _ _ _ Hold) as [p2 [H1 H2]]. exists p2. split; auto. rewrite upd_other; auto.
          intros ->. rewrite Hc in H1. inversion H1; subst. rewrite Hw in H2. inversion H2. destruct b; discriminate.
        + intros Hs. assert (Hold : the_slot None s k2 b2 = Some (SIdx j0)) by exact Hs.
          destruct (I_ic _ s HI _ _ _ Hold) as [p2 [H1 H2]]. exists p2. split; auto. rewrite upd_other; auto.
          intros ->. rewrite Hc in H1. inversion H1; subst. rewrite Hw in H2. inversion H2. congruence.
      - intros k2 r2. unfold upd. ieq k2 k.
        + intros Hx; inversion Hx; subst. exists (negb b), j. rewrite Fn. reflexivity.
        + apply (I_ip _ s HI).
      - intros k2 r2. unfold upd. ieq k2 k; [intros _; auto|]. apply (I_ia _ s HI).
      - apply (I_ar _ s HI).
      - intros j0 Hj0. apply (I_fr _ s HI). unfold upd in Hj0. destruct Hj0 as [Hj0|Hj0]; ieq j0 i; auto; congruence.
      - intros j0 p2. unfold upd. ieq j0 i; [discriminate|]. apply (I_sn _ s HI).
      - intros k2 r2 b2. unfold upd, updl. ieq k2 k.
        + intros Hx; inversion Hx; subst r2; clear Hx. simpl. destruct (Bool.eqb b2 b) eqn:Eb.
          * apply eqb_prop in Eb; subst b2. rewrite Fo. reflexivity.
          * assert (b2 = negb b) by (destruct b2, b; simpl in *; congruence). subst b2. rewrite Fn.
            pose proof (I_gs _ s HI _ _ (negb b) Hr) as G. rewrite Eother in G. exact G.
        + simpl. apply (I_gs _ s HI).
      - intros k2 tin tout a0 ca fa Hk2. unfold updl. ieq k2 k; [congruence|]. simpl. apply (I_ga _ s HI _ _ _ _ _ _ Hk2).
      - intros k2 b2 Hk2. unfold updl. ieq k2 k; [congruence|]. simpl. apply (I_gn _ s HI); auto.
      - intros; discriminate.
      - intros k2 Hk2. unfold upd. ieq k2 k. { right; left; discriminate. }
        destruct (I_ra _ s HI _ Hk2) as [H|[H|[? [? H]]]]; auto; discriminate. }
    exact HS.
  - (* the other leg is done (or absent): the acknowledgement is written and the record removed *)
    assert (Hcc : exists ca fa, i_change r' = SAck ca /\ i_forward r' = SAck fa /\
                  slot_of b r' = SAck a /\ slot_of (negb b) r' = SAck a2).
    { destruct b; simpl in Fo, Fn; rewrite Fo, Fn; simpl; eauto 6. }
    destruct Hcc as [ca [fa [Ec [Ef [Fo' Fn']]]]]. rewrite Ec, Ef. simpl. rewrite Hak.
    eexists. split; [reflexivity|]. split; [|simpl; unfold gout_after; rewrite Hw; repeat split; reflexivity].
    constructor; simpl.
    + intros j0 o0. unfold upd at 1. ieq j0 i; [discriminate|]. intros Hj0.
      destruct (I_oc _ s HI _ _ Hj0) as [p2 [b2 [H1 H2]]]. exists p2, b2. split; auto. rewrite upd_other; auto.
    + intros j0 p2 k2 b2 H1 H2. destruct (Hcoms _ _ _ _ H1 H2) as [Hne [Hc2 [Ho2 [Hs2 Hk2]]]]. split.
      * rewrite upd_other; auto.
      * unfold upd. ieq k2 k. { destruct (Hk2 eq_refl) as [_ Hsl]. congruence. } exact Hs2.
    + intros k2 b2 j0. unfold upd at 1. ieq k2 k; [discriminate|].
      intros Hs. assert (Hold : the_slot None s k2 b2 = Some (SIdx j0)) by exact Hs.
      destruct (I_ic _ s HI _ _ _ Hold) as [p2 [H1 H2]]. exists p2. split; auto. rewrite upd_other; auto.
      intros ->. rewrite Hc in H1. inversion H1; subst. rewrite Hw in H2. inversion H2. congruence.
    + intros k2 r2. unfold upd. ieq k2 k; [discriminate|]. apply (I_ip _ s HI).
    + intros k2 r2. unfold upd. ieq k2 k; [discriminate|]. apply (I_ia _ s HI).
    + intros k2 a3. unfold upd. ieq k2 k; auto. apply (I_ar _ s HI).
    + intros j0 Hj0. apply (I_fr _ s HI). unfold upd in Hj0. destruct Hj0 as [Hj0|Hj0]; ieq j0 i; auto; congruence.
    + intros j0 p2. unfold upd. ieq j0 i; [discriminate|]. apply (I_sn _ s HI).
    + intros k2 r2 b2. unfold upd, updl. ieq k2 k; [discriminate|]. simpl. apply (I_gs _ s HI).
    + intros k2 tin tout a0 ca' fa'. unfold upd, updl. ieq k2 k.
      * intros Hx; inversion Hx; subst ca' fa'; clear Hx.
        pose proof (I_gs _ s HI _ _ (negb b) Hr) as G. rewrite Eother in G.
        destruct b; simpl in *; rewrite Ec in *; rewrite Ef in *; inversion Fo'; inversion Fn'; subst; auto.
      * simpl. apply (I_ga _ s HI).
    + intros k2 b2 Hk2. unfold updl. ieq k2 k; [congruence|]. simpl. apply (I_gn _ s HI); auto.
    + intros; discriminate.
    + intros k2 Hk2. unfold upd. ieq k2 k. { left; discriminate. }
      destruct (I_ra _ s HI _ Hk2) as [H|[H|[? [? H]]]]; auto; discriminate.
Qed.

Theorem step_ack_inv : forall s i a s', Inv s -> step_ack fixed s i a = Ok s' -> Inv s'.
Proof.
  intros s i a s' HI H. unfold step_ack in H.
  destruct (coms s i) as [p|] eqn:Hc; [|inversion H; subst; exact HI].
  simpl in H.
  destruct (outs s i) as [o|] eqn:Ho.
  - destruct (owned_leg s i p o HI Hc Ho) as [b [r [Hw [Hr _]]]]. rewrite Hr in H.
    match type of H with context[complete fixed ?x ?k ?r'] =>
      change x with (resolved s i p (updz (g_lock s) (p_denom p) (g_lock s (p_denom p) - p_amt p)) a) in H;
      change r' with (fill_both i a r) in H end.
    destruct (resolve_inv s i p o r (updz (g_lock s) (p_denom p) (g_lock s (p_denom p) - p_amt p)) a HI Hc Ho Hr) as [s2 [E [HI2 _]]].
    rewrite E in H. simpl in H.
    destruct (is_err_ack a); inversion H; subst.
    + apply InvO_set_bal; exact HI2.
    + apply InvO_set_gsent; exact HI2.
  - simpl in H. assert (HI0 : Inv (set_glock (set_coms s (upd (coms s) i None)) (updz (g_lock s) (p_denom p) (g_lock s (p_denom p) - p_amt p)))).
    { apply InvO_set_glock. eapply inv_drop_untracked; eauto. }
    destruct (is_err_ack a); inversion H; subst.
    + apply InvO_set_bal; exact HI0.
    + apply InvO_set_gsent; exact HI0.
Qed.

Lemma move_own : forall b i j r, slot_of b r = SIdx i ->
  slot_of b {| i_ack0 := i_ack0 r; i_tin := i_tin r; i_tout := i_tout r; i_fee := i_fee r;
               i_change := move_slot i j (i_change r); i_forward := move_slot i j (i_forward r) |} = SIdx j.
Proof. intros [] i j r H; simpl in *; rewrite H; simpl; rewrite idx_eqb_refl; reflexivity. Qed.
Lemma move_other : forall b i j r, slot_of b r <> SIdx i ->
  slot_of b {| i_ack0 := i_ack0 r; i_tin := i_tin r; i_tout := i_tout r; i_fee := i_fee r;
               i_change := move_slot i j (i_change r); i_forward := move_slot i j (i_forward r) |} = slot_of b r.
Proof.
  intros [] i j r H; simpl in *.
  - destruct (i_forward r) as [x|]; simpl; auto. ieq x i; auto. congruence.
  - destruct (i_change r) as [x|]; simpl; auto. ieq x i; auto. congruence.
Qed.

(* a timed-out leg is sent again under the next sequence: record, commitment and slot move along *)
Lemma resend_inv : forall s i p o r gl gl2 left,
  Inv s -> coms s i = Some p -> outs s i = Some o -> incs s (o_wait o) = Some r ->
  let j := (fst i, nseq s (fst i)) in
  Inv (set_incs (set_outs (set_glock (set_coms (set_nseq (set_outs (set_glock (set_coms s (upd (coms s) i None)) gl) (upd (outs s) i None))
                                                          (updz (nseq s) (fst i) (nseq s (fst i) + 1)))
                                               (upd (upd (coms s) i None) j (Some p))) gl2)
                          (upd (upd (outs s) i None) j (Some {| o_wait := o_wait o; o_retries := left |})))
                (upd (incs s) (o_wait o)
                   (Some {| i_ack0 := i_ack0 r; i_tin := i_tin r; i_tout := i_tout r; i_fee := i_fee r;
                            i_change := move_slot i j (i_change r); i_forward := move_slot i j (i_forward r) |}))).
Proof.
  intros s i p o r gl gl2 left HI Hc Ho Hr j.
  destruct (owned_leg s i p o HI Hc Ho) as [b [r0 [Hw [Hr0 [Hsb Hsn]]]]].
  rewrite Hr in Hr0; inversion Hr0; subst r0; clear Hr0.
  set (k := o_wait o) in *.
  assert (Hlt : snd i < nseq s (fst i)) by (apply (I_fr _ s HI); left; congruence).
  assert (Hji : j <> i) by (intros E; rewrite <- E in Hlt; simpl in Hlt; lia).
  assert (Hfc : coms s j = None).
  { destruct (coms s j) eqn:E; auto. assert (X : snd j < nseq s (fst j)) by (apply (I_fr _ s HI); left; congruence). simpl in X; lia. }
  assert (Hfo : outs s j = None).
  { destruct (outs s j) eqn:E; auto. assert (X : snd j < nseq s (fst j)) by (apply (I_fr _ s HI); right; congruence). simpl in X; lia. }
  pose proof (move_own b i j r Hsb) as Mo. pose proof (move_other (negb b) i j r Hsn) as Mn.
  remember {| i_ack0 := i_ack0 r; i_tin := i_tin r; i_tout := i_tout r; i_fee := i_fee r;
              i_change := move_slot i j (i_change r); i_forward := move_slot i j (i_forward r) |} as r' eqn:Er'. clear Er'.
  assert (Hslot : forall b2, slot_of b2 r' = if Bool.eqb b2 b then SIdx j else slot_of b2 r).
  { intros b2. destruct (Bool.eqb b2 b) eqn:Eb.
    - apply eqb_prop in Eb; subst; auto.
    - assert (b2 = negb b) by (destruct b2, b; simpl in *; congruence). subst; auto. }
  constructor; simpl.
  - intros j0 o0. unfold upd at 1. ieq j0 j.
    + intros Hx; inversion Hx; subst o0; simpl. exists p, b. rewrite upd_same. auto.
    + unfold upd at 1. ieq j0 i; [discriminate|]. intros Hj0.
      destruct (I_oc _ s HI _ _ Hj0) as [p2 [b2 [H1 H2]]]. exists p2, b2. split; auto. rewrite !upd_other; auto.
  - intros j0 p2 k2 b2. unfold upd at 1. ieq j0 j.
    + intros Hx Hy; inversion Hx; subst p2. rewrite Hw in Hy; inversion Hy; subst k2 b2. split.
      * rewrite upd_same. eexists; split; reflexivity.
      * rewrite upd_same. simpl. rewrite Hslot, eqb_reflx. reflexivity.
    + unfold upd at 1. ieq j0 i; [discriminate|]. intros H1 H2.
      destruct (I_co _ s HI _ _ _ _ H1 H2) as [H3 H4]. split. { rewrite !upd_other; auto. }
      unfold upd. ieq k2 k; [|exact H4]. simpl. simpl in H4. rewrite Hr in H4. simpl in H4. rewrite Hslot.
      destruct (Bool.eqb b2 b) eqn:Eb; auto. apply eqb_prop in Eb; subst b2. congruence.
  - intros k2 b2 j0. unfold upd at 1. ieq k2 k.
    + simpl. rewrite Hslot. destruct (Bool.eqb b2 b) eqn:Eb.
      * apply eqb_prop in Eb; subst b2. intros Hx; inversion Hx; subst j0. exists p. rewrite upd_same; auto.
      * intros Hx. assert (Hold : the_slot None s k b2 = Some (SIdx j0)) by (simpl; rewrite Hr; exact Hx).
        destruct (I_ic _ s HI _ _ _ Hold) as [p2 [H1 H2]]. exists p2. split; auto.
        rewrite !upd_other; auto; intros ->;
          first [congruence | rewrite Hc in H1; inversion H1; subst; rewrite Hw in H2; inversion H2; subst; rewrite eqb_reflx in Eb; discriminate].
    + intros Hx. assert (Hold : the_slot None s k2 b2 = Some (SIdx j0)) by exact Hx.
      destruct (I_ic _ s HI _ _ _ Hold) as [p2 [H1 H2]]. exists p2. split; auto.
      rewrite !upd_other; auto; intros ->;
        first [congruence | rewrite Hc in H1; inversion H1; subst; rewrite Hw in H2; inversion H2; congruence].
  - intros k2 r2. unfold upd. ieq k2 k.
    + intros Hx; inversion Hx; subst r2. exists b, j. rewrite Hslot, eqb_reflx; reflexivity.
    + apply (I_ip _ s HI).
  - intros k2 r2. unfold upd. ieq k2 k; [intros _; apply (I_ia _ s HI _ _ Hr)|]. apply (I_ia _ s HI).
  - apply (I_ar _ s HI).
  - intros j0 Hj0. unfold updz. unfold upd in Hj0. ieq j0 j.
    + simpl. rewrite Z.eqb_refl. lia.
    + assert (X : snd j0 < nseq s (fst j0)).
      { apply (I_fr _ s HI). destruct Hj0 as [Hj0|Hj0]; ieq j0 i; auto; congruence. }
      destruct (fst j0 =? fst i) eqn:Ec; auto. apply Z.eqb_eq in Ec. rewrite Ec in X. lia.
  - intros j0 p2. unfold upd at 1. ieq j0 j.
    + intros Hx; inversion Hx; subst. apply (I_sn _ s HI _ _ Hc).
    + unfold upd. ieq j0 i; [discriminate|]. apply (I_sn _ s HI).
  - intros k2 r2 b2. unfold upd. ieq k2 k.
    + intros Hx; inversion Hx; subst r2; clear Hx. rewrite Hslot.
      pose proof (I_gs _ s HI _ _ b2 Hr) as G. destruct (Bool.eqb b2 b) eqn:Eb; auto.
      apply eqb_prop in Eb; subst b2. rewrite Hsb in G. exact G.
    + apply (I_gs _ s HI).
  - apply (I_ga _ s HI).
  - apply (I_gn _ s HI).
  - intros; discriminate.
  - intros k2 Hk2. unfold upd. ieq k2 k. { right; left; discriminate. }
    destruct (I_ra _ s HI _ Hk2) as [H|[H|[? [? H]]]]; auto; discriminate.
Qed.

Theorem step_timeout_inv : forall s i s', Inv s -> step_timeout fixed s i = Ok s' -> Inv s'.
Proof.
  intros s i s' HI H. unfold step_timeout in H.
  destruct (coms s i) as [p|] eqn:Hc; [|inversion H; subst; exact HI].
  simpl in H.
  destruct (outs s i) as [o|] eqn:Ho.
  - destruct (owned_leg s i p o HI Hc Ho) as [b [r [Hw [Hr _]]]].
    destruct (0 <? o_retries o - 1).
    + rewrite Hr in H. inversion H; subst; clear H.
      apply (resend_inv s i p o r _ _ (o_retries o - 1) HI Hc Ho Hr).
    + rewrite Hr in H.
      match type of H with context[complete fixed ?x ?k ?r'] =>
        change x with (resolved s i p (updz (g_lock s) (p_denom p) (g_lock s (p_denom p) - p_amt p)) ACK_TIMEOUT) in H;
        change r' with (fill_both i ACK_TIMEOUT r) in H end.
      destruct (resolve_inv s i p o r (updz (g_lock s) (p_denom p) (g_lock s (p_denom p) - p_amt p)) ACK_TIMEOUT HI Hc Ho Hr) as [s2 [E [HI2 _]]].
      rewrite E in H. simpl in H. inversion H; subst. apply InvO_set_bal; exact HI2.
  - inversion H; subst. apply InvO_set_bal, InvO_set_glock. eapply inv_drop_untracked; eauto.
Qed.

Theorem step_inv : forall s e s', Inv s -> wf_event e -> step fixed s e = Ok s' -> Inv s'.
Proof.
  intros s [r|i a|i] s' HI Hw H; simpl in *.
  - eapply step_recv_inv; eauto.
  - eapply step_ack_inv; eauto.
  - eapply step_timeout_inv; eauto.
Qed.

Lemma apply_inv : forall s e, Inv s -> wf_event e -> Inv (apply fixed s e).
Proof.
  intros s e HI Hw. unfold apply. destruct (step fixed s e) eqn:E; auto. eapply step_inv; eauto.
Qed.

Theorem run_inv : forall es s, Inv s -> Forall wf_event es -> Inv (run fixed s es).
Proof.
  induction es as [|e tl IH]; intros s HI Hw; simpl; auto.
  inversion Hw; subst. apply IH; auto. apply apply_inv; auto.
Qed.

(* ---------- consequences of the invariant: acknowledgements and records ---------- *)
Theorem ack_after_all_legs : forall s k, Inv s -> acks s k <> None ->
  incs s k = None /\ (forall i o, outs s i = Some o -> o_wait o <> k) /\
  (forall i p b, coms s i = Some p -> p_owner p <> Some (k, b)).
Proof.
  intros s k HI Ha.
  assert (Hi : incs s k = None).
  { destruct (incs s k) eqn:E; auto. destruct (I_ia _ s HI _ _ E). congruence. }
  assert (Hc : forall i p b, coms s i = Some p -> p_owner p <> Some (k, b)).
  { intros i p b Hc Ho. destruct (I_co _ s HI _ _ _ _ Hc Ho) as [_ Hs]. simpl in Hs. rewrite Hi in Hs. discriminate. }
  split; auto. split; auto.
  intros i o Ho Hk. destruct (I_oc _ s HI _ _ Ho) as [p [b [H1 H2]]]. rewrite Hk in H2. eapply Hc; eauto.
Qed.

Theorem one_ack_or_pending : forall s k, Inv s ->
  (rcpt s k = false -> acks s k = None /\ incs s k = None) /\
  (rcpt s k = true -> (acks s k <> None /\ incs s k = None) \/ (acks s k = None /\ incs s k <> None)).
Proof.
  intros s k HI. split.
  - intros Hr. destruct (unreceived_no_legs s k HI Hr) as [H1 [H2 _]]. auto.
  - intros Hr. destruct (I_ra _ s HI _ Hr) as [H|[H|[? [? H]]]]; [| |discriminate].
    + left. split; auto. apply (ack_after_all_legs s k HI H).
    + right. split; auto. destruct (incs s k) eqn:E; [|congruence]. apply (I_ia _ s HI _ _ E).
Qed.

(* when no leg of k is in flight any more, k has its acknowledgement and no record is left *)
Theorem acked_when_legs_done : forall s k, Inv s -> rcpt s k = true ->
  (forall i p b, coms s i = Some p -> p_owner p <> Some (k, b)) ->
  acks s k <> None /\ incs s k = None /\ (forall i o, outs s i = Some o -> o_wait o <> k).
Proof.
  intros s k HI Hr Hn.
  destruct (proj2 (one_ack_or_pending s k HI) Hr) as [[Ha Hi]|[Ha Hi]].
  - split; auto. split; auto. apply (ack_after_all_legs s k HI Ha).
  - exfalso. destruct (incs s k) as [r|] eqn:E; [|congruence].
    destruct (I_ip _ s HI _ _ E) as [b [i Hs]].
    assert (Hsl : the_slot None s k b = Some (SIdx i)) by (simpl; rewrite E; simpl; congruence).
    destruct (I_ic _ s HI _ _ _ Hsl) as [p [H1 H2]]. eapply Hn; eauto.
Qed.

Theorem records_gone : forall s, Inv s ->
  (forall i p, coms s i = Some p -> p_owner p = None) ->
  (forall k, incs s k = None) /\ (forall i, outs s i = None).
Proof.
  intros s HI Hn. split.
  - intros k. destruct (incs s k) as [r|] eqn:E; auto.
    destruct (I_ip _ s HI _ _ E) as [b [i Hs]].
    assert (Hsl : the_slot None s k b = Some (SIdx i)) by (simpl; rewrite E; simpl; congruence).
    destruct (I_ic _ s HI _ _ _ Hsl) as [p [H1 H2]]. rewrite (Hn _ _ H1) in H2. discriminate.
  - intros i. destruct (outs s i) as [o|] eqn:E; auto.
    destruct (I_oc _ s HI _ _ E) as [p [b [H1 H2]]]. rewrite (Hn _ _ H1) in H2. discriminate.
Qed.

Theorem ack_reports_each_leg : forall s k tin tout a0 ca fa, Inv s ->
  acks s k = Some (ASwap tin tout a0 ca fa) ->
  ca = leg_val (g_out s k false) /\ fa = leg_val (g_out s k true).
Proof. intros; eapply I_ga; eauto. Qed.


(* ---------- what an acknowledgement / a timeout of a leg does (closed form) ---------- *)
Definition unlock (s : st) (p : pkt) : Z -> Z := updz (g_lock s) (p_denom p) (g_lock s (p_denom p) - p_amt p).

Lemma step_ack_spec : forall s i a p, Inv s -> coms s i = Some p ->
  exists s', step_ack fixed s i a = Ok s' /\
    g_out s' = gout_after p a (g_out s) /\ g_recv s' = g_recv s /\ g_lock s' = unlock s p /\ nseq s' = nseq s /\
    (if is_err_ack a
     then bal s' = bmove (bal s) ESC (p_sender p) (p_denom p) (p_amt p) /\ g_sent s' = g_sent s
     else bal s' = bal s /\ g_sent s' = updz (g_sent s) (p_denom p) (g_sent s (p_denom p) + p_amt p)).
Proof.
  intros s i a p HI Hc. unfold step_ack. rewrite Hc. simpl.
  destruct (outs s i) as [o|] eqn:Ho.
  - destruct (owned_leg s i p o HI Hc Ho) as [b [r [Hw [Hr _]]]]. rewrite Hr.
    match goal with |- context[complete fixed ?x ?k ?r'] =>
      change x with (resolved s i p (unlock s p) a); change r' with (fill_both i a r) end.
    destruct (resolve_inv s i p o r (unlock s p) a HI Hc Ho Hr) as [s2 [E [_ [Hb [Hgr [Hgs [Hgl [Hn Hgo]]]]]]]].
    rewrite E. simpl. destruct (is_err_ack a); eexists; (split; [reflexivity|]); simpl; rewrite ?Hb, ?Hgs; repeat split; auto.
  - simpl. pose proof (untracked_unowned s i p HI Hc Ho) as Hu.
    destruct (is_err_ack a); eexists; (split; [reflexivity|]); simpl; unfold gout_after; rewrite Hu; repeat split; auto.
Qed.

Lemma step_timeout_spec : forall s i p, Inv s -> coms s i = Some p ->
  exists s', step_timeout fixed s i = Ok s' /\ g_recv s' = g_recv s /\ g_sent s' = g_sent s /\
    match outs s i with
    | Some o =>
        if 0 <? o_retries o - 1
        then (* sent again: nothing is refunded, the same amount stays locked *)
             bal s' = bal s /\ (forall d, g_lock s' d = g_lock s d) /\ g_out s' = g_out s /\
             coms s' (fst i, nseq s (fst i)) = Some p /\ coms s' i = None
        else bal s' = bmove (bal s) ESC (p_sender p) (p_denom p) (p_amt p) /\ g_lock s' = unlock s p /\
             g_out s' = gout_after p ACK_TIMEOUT (g_out s)
    | None => bal s' = bmove (bal s) ESC (p_sender p) (p_denom p) (p_amt p) /\ g_lock s' = unlock s p /\ g_out s' = g_out s
    end.
Proof.
  intros s i p HI Hc. unfold step_timeout. rewrite Hc. simpl.
  destruct (outs s i) as [o|] eqn:Ho.
  - destruct (owned_leg s i p o HI Hc Ho) as [b [r [Hw [Hr _]]]].
    assert (Hlt : snd i < nseq s (fst i)) by (apply (I_fr _ s HI); left; congruence).
    destruct (0 <? o_retries o - 1).
    + rewrite Hr. eexists; split; [reflexivity|]. simpl. repeat split; auto.
      * intros d. unfold updz. destruct (d =? p_denom p) eqn:E; auto. rewrite Z.eqb_refl. apply Z.eqb_eq in E; subst. lia.
      * rewrite upd_same; reflexivity.
      * rewrite upd_other, upd_same; auto. intros E. rewrite E in Hlt. simpl in Hlt. lia.
    + rewrite Hr.
      match goal with |- context[complete fixed ?x ?k ?r'] =>
        change x with (resolved s i p (unlock s p) ACK_TIMEOUT); change r' with (fill_both i ACK_TIMEOUT r) end.
      destruct (resolve_inv s i p o r (unlock s p) ACK_TIMEOUT HI Hc Ho Hr) as [s2 [E [_ [Hb [Hgr [Hgs [Hgl [Hn Hgo]]]]]]]].
      rewrite E. simpl. eexists; split; [reflexivity|]. simpl. rewrite Hb. repeat split; auto.
  - eexists; split; [reflexivity|]. simpl. repeat split; auto.
Qed.

(* every acknowledgement or timeout handed over by IBC core is processed: no error, no panic, in
   particular never a second WriteAcknowledgement *)
Theorem legs_always_resolve : forall s e, Inv s -> (match e with ERecv _ => False | _ => True end) ->
  exists s', step fixed s e = Ok s'.
Proof.
  intros s [r|i a|i] HI He; [contradiction| |]; simpl.
  - destruct (coms s i) as [p|] eqn:Hc.
    + destruct (step_ack_spec s i a p HI Hc) as [s' [E _]]; eauto.
    + unfold step_ack; rewrite Hc; eauto.
  - destruct (coms s i) as [p|] eqn:Hc.
    + destruct (step_timeout_spec s i p HI Hc) as [s' [E _]]; eauto.
    + unfold step_timeout; rewrite Hc; eauto.
Qed.

(* ---------- funds ---------- *)
Definition slack (s : st) (d : Z) : Z := bal s ESC d + g_recv s d - g_sent s d - g_lock s d.
Definition tot (b : bank) (R d : Z) : Z := b MOD d + b PROV d + b ESC d + b POOL d + b R d.
Definition other (R a : Z) : Prop := a <> MOD /\ a <> PROV /\ a <> ESC /\ a <> POOL /\ a <> R.

(* effect of (part of) a message that concerns user account R: the module account is as before, the
   locked funds are exactly backed, the five accounts form a closed system, nobody else is touched *)
Record Eff (R : Z) (s s' : st) : Prop := {
  E_mod : forall d, bal s' MOD d = bal s MOD d;
  E_slack : forall d, slack s' d = slack s d;
  E_tot : forall d, tot (bal s') R d = tot (bal s) R d;
  E_other : forall a d, other R a -> bal s' a d = bal s a d
}.
Lemma Eff_refl : forall R s, Eff R s s.
Proof. intros; constructor; auto. Qed.
Lemma Eff_trans : forall R s1 s2 s3, Eff R s1 s2 -> Eff R s2 s3 -> Eff R s1 s3.
Proof.
  intros R s1 s2 s3 [a1 b1 c1 d1] [a2 b2 c2 d2]; constructor; intros.
  - rewrite a2; auto. - rewrite b2; auto. - rewrite c2; auto. - rewrite d2; auto.
Qed.
(* same balances and ghost ledgers: no effect *)
Lemma Eff_same : forall R s s', bal s' = bal s -> g_recv s' = g_recv s -> g_sent s' = g_sent s ->
  (forall d, g_lock s' d = g_lock s d) -> Eff R s s'.
Proof.
  intros R s s' Hb Hr Hs Hl; constructor; intros; unfold slack; rewrite ?Hb, ?Hr, ?Hs, ?Hl; auto.
Qed.

Ltac proj_simpl := cbn [bal incs outs coms acks rcpt nseq g_recv g_sent g_lock g_out set_bal set_incs set_outs set_coms
                        set_acks set_rcpt set_nseq set_grecv set_gsent set_glock set_gout].

Lemma bmove_at : forall b f t d v a d',
  bmove b f t d v a d' = b a d' + ((if (a =? t) && (d' =? d) then v else 0) - (if (a =? f) && (d' =? d) then v else 0)).
Proof.
  intros. unfold bmove, badd.
  destruct (Z.eqb_spec a t), (Z.eqb_spec a f), (Z.eqb_spec d' d); cbn [andb]; lia.
Qed.
Lemma consts_distinct : MOD <> PROV /\ MOD <> ESC /\ MOD <> POOL /\ PROV <> ESC /\ PROV <> POOL /\ ESC <> POOL.
Proof. unfold MOD, PROV, ESC, POOL; lia. Qed.

Ltac neq_rw := repeat match goal with
  | H : ?x <> ?y |- context[?x =? ?y] => rewrite (proj2 (Z.eqb_neq x y) H)
  | H : ?x <> ?y |- context[?y =? ?x] => rewrite (proj2 (Z.eqb_neq y x) (not_eq_sym H))
  end.
(* evaluate a chain of moves at one account: decide the account comparisons from the hypotheses,
   split on the denom comparisons, then arithmetic *)
Ltac fin :=
  unfold slack, tot; proj_simpl; rewrite ?bmove_at; unfold updz;
  let C := fresh "C" in pose proof consts_distinct as C; unfold user_acct, other in *;
  repeat match goal with H : _ /\ _ |- _ => destruct H end;
  neq_rw; rewrite ?Z.eqb_refl; cbn [andb];
  repeat match goal with |- context[Z.eqb ?a ?b] => destruct (Z.eqb_spec a b) end;
  cbn [andb]; subst; try lia.

Lemma transfer_eff : forall s k b R d amt f s' i, user_acct R ->
  transfer s k b R d amt f = Ok (s', i) -> Eff R s s'.
Proof.
  intros s k b R d amt f s' i HR Ht. unfold transfer in Ht.
  destruct (negb (f_ok f) || (amt <=? 0)); [discriminate|].
  destruct (bsend (bal s) R ESC d amt) as [bk|] eqn:Eb; [|discriminate].
  apply bsend_spec in Eb. destruct Eb as [-> _]. inversion Ht; subst; clear Ht.
  constructor; intros; fin.
Qed.

Lemma send_change_eff : forall s k R din rem m s' chg, user_acct R ->
  send_change s k R din rem m = Ok (s', chg) -> Eff R s s'.
Proof.
  intros s k R din rem m s' chg HR H. unfold send_change in H.
  destruct (m_strat m) as [mo|ao [ch|]]; try (inversion H; subst; apply Eff_refl).
  destruct (0 <? rem); try (inversion H; subst; apply Eff_refl).
  destruct (transfer s k false R din rem ch) as [[s2 i]| |] eqn:Et; simpl in H; try discriminate.
  inversion H; subst. eapply transfer_eff; eauto.
Qed.
Lemma send_forward_eff : forall s k R dout net m s' fw, user_acct R ->
  send_forward s k R dout net m = Ok (s', fw) -> Eff R s s'.
Proof.
  intros s k R dout net m s' fw HR H. unfold send_forward in H.
  destruct (m_fwd m) as [f|]; try (inversion H; subst; apply Eff_refl).
  destruct (transfer s k true R dout net f) as [[s2 i]| |] eqn:Et; simpl in H; try discriminate.
  inversion H; subst. eapply transfer_eff; eauto.
Qed.
Lemma finish_eff : forall R s k tin tout fee chg fw, Eff R s (finish s k tin tout fee chg fw).
Proof. intros. unfold finish. destruct chg, fw; apply Eff_same; auto. Qed.

Ltac Zify.zify_post_hook ::= Z.div_mod_to_equations.

Lemma fee_in_bounds : forall h rate gross net fee,
  0 <= rate <= P -> 0 <= gross -> fee_exact_in h rate gross = Some (net, fee) ->
  0 <= fee <= gross /\ net = gross - fee /\ (h = false -> fee = 0).
Proof.
  intros h rate gross net fee Hr Hg H. unfold fee_exact_in in H. destruct h.
  - unfold obind in H. destruct (dsub P rate) as [om|] eqn:E1; [|discriminate].
    unfold dsub in E1. apply chk_some in E1. destruct E1 as [-> _].
    destruct (dmul (dec_of_int gross) (P - rate)) as [x|] eqn:E2; [|discriminate].
    unfold dmul, dec_of_int in E2. apply chk_some in E2. destruct E2 as [-> _].
    remember (dtrunc_int (chop_round (gross * P * (P - rate)))) as n0 eqn:En0.
    assert (Hnet : net = n0) by congruence. assert (Hfee : fee = gross - n0) by congruence. subst net fee n0. clear H.
    pose proof (chop_round_bracket (gross * P * (P - rate))) as B.
    remember (chop_round (gross * P * (P - rate))) as x eqn:Ex. clear Ex.
    remember (gross * (P - rate)) as g eqn:Eg.
    assert (Hg0 : 0 <= g) by nia.
    assert (Hg1 : g <= gross * P) by nia.
    assert (Hgp : gross * P * (P - rate) = g * P) by (subst g; ring).
    rewrite Hgp in B. clear Hgp Eg.
    assert (Hx : x = g) by (unfold P, HALF in *; lia). subst x.
    unfold dtrunc_int. rewrite Z.quot_div_nonneg by (unfold P; lia).
    assert (0 <= g / P <= gross) by (unfold P in *; lia).
    repeat split; try lia; try discriminate.
  - inversion H; subst. repeat split; lia.
Qed.

Lemma fee_out_bounds : forall h rate net gross fee,
  0 <= rate <= P -> 0 <= net -> fee_exact_out h rate net = Some (gross, fee) ->
  0 <= fee /\ gross = net + fee /\ (h = false -> fee = 0).
Proof.
  intros h rate net gross fee Hr Hn H. unfold fee_exact_out in H. destruct h.
  - unfold obind in H. destruct (dsub P rate) as [om|] eqn:E1; [|discriminate].
    unfold dsub in E1. apply chk_some in E1. destruct E1 as [-> _].
    destruct (dquo (dec_of_int net) (P - rate)) as [x|] eqn:E2; [|discriminate].
    unfold dquo, dec_of_int in E2. destruct (P - rate =? 0) eqn:E0; [discriminate|]. apply Z.eqb_neq in E0.
    apply chk_some in E2. destruct E2 as [-> _].
    remember (dtrunc_int (chop_round (Z.quot (net * P * (P * P)) (P - rate)))) as n0 eqn:En0.
    assert (Hgross : gross = n0) by congruence. assert (Hfee : fee = n0 - net) by congruence. subst gross fee n0. clear H.
    remember (P - rate) as om eqn:Eom.
    assert (Hom : 0 < om <= P) by lia. clear Eom E0 Hr.
    assert (Hq : net * P * P <= Z.quot (net * P * (P * P)) om).
    { rewrite Z.quot_div_nonneg by (try lia; unfold P; nia).
      apply Z.div_le_lower_bound; try lia. unfold P in *; nia. }
    pose proof (chop_round_bracket (Z.quot (net * P * (P * P)) om)) as B.
    remember (chop_round (Z.quot (net * P * (P * P)) om)) as x eqn:Ex. clear Ex.
    remember (Z.quot (net * P * (P * P)) om) as y eqn:Ey. clear Ey.
    assert (Hx : net * P <= x) by (unfold P, HALF in *; lia).
    unfold dtrunc_int. rewrite Z.quot_div_nonneg by (unfold P in *; lia).
    assert (net <= x / P) by (unfold P in *; lia).
    repeat split; try lia; try discriminate.
  - inversion H; subst. repeat split; lia.
Qed.

(* receiveFunds + swap + fee + delivery + remainder *)
Lemma recv_funds_eff : forall s r m b5 tin tout fee,
  wf_recv r -> r_class r = MSwap m ->
  recv_funds fixed s r m = Ok (b5, (tin, tout, fee)) ->
  Eff (r_rcv r) s (set_grecv (set_bal s b5) (updz (g_recv s) (r_in r) (g_recv s (r_in r) + r_amt r))).
Proof.
  intros s r m b5 tin tout fee [HR [Hrate Hq]] Hcl H. unfold recv_funds in H. rewrite Hcl in Hq.
  destruct (negb (r_denom_ok r)); [discriminate|]. simpl in H.
  destruct (r_amt r <=? 0) eqn:EA; [discriminate|]. apply Z.leb_gt in EA. simpl in H.
  destruct (negb (r_rcv_ok r)); [discriminate|].
  destruct (r_quote r) as [[tin' tout']| |]; try discriminate.
  destruct (bsend _ MOD POOL (r_in r) tin') as [b1|] eqn:E1; [|discriminate]. apply bsend_spec in E1. destruct E1 as [-> Htin].
  match type of H with rbind ?x _ = _ => destruct x as [fee'| |] eqn:Efee end; simpl in H; try discriminate.
  destruct Hq as [Htout Hq].
  assert (Hle : tin' <= r_amt r /\ 0 <= fee' /\ (negb (m_prov m =? 0) = false -> fee' = 0)).
  { destruct (m_strat m) as [mo|ao ch].
    - destruct (fee_exact_in (negb (m_prov m =? 0)) (r_rate r) tout') as [[n f]|] eqn:Ef; simpl in Efee; try discriminate.
      destruct (n <? mo); [discriminate|]. inversion Efee; subst f.
      destruct (fee_in_bounds _ _ _ _ _ Hrate Htout Ef) as [F1 [F2 F3]]. repeat split; auto; lia.
    - destruct (fee_exact_out (negb (m_prov m =? 0)) (r_rate r) ao) as [[g f]|] eqn:Ef; simpl in Efee; try discriminate.
      destruct (r_amt r <? tin') eqn:E; [discriminate|]. apply Z.ltb_ge in E. inversion Efee; subst f.
      destruct (fee_out_bounds _ _ _ _ _ Hrate Hq Ef) as [F1 [F2 F3]]. repeat split; auto. }
  destruct Hle as [Hle [Hfee0 Hnofee]].
  clear Efee Hq.
  destruct (negb (m_prov m =? 0) && negb (m_prov m =? 1)); [discriminate|].
  match type of H with rbind ?x _ = _ => destruct x as [b3| |] eqn:E3 end; simpl in H; try discriminate.
  destruct (tout' - fee' <? 0); [discriminate|].
  match type of H with rbind ?x _ = _ => destruct x as [b4| |] eqn:E4 end; simpl in H; try discriminate.
  match type of H with rbind ?x _ = _ => destruct x as [b5'| |] eqn:E5 end; simpl in H; try discriminate.
  inversion H; subst b5' tin' tout' fee'; clear H.
  (* the three conditional sends *)
  assert (H3 : (b3 = bmove (bmove (bmove (bal s) ESC MOD (r_in r) (r_amt r)) MOD POOL (r_in r) tin) POOL MOD (r_out r) tout /\ fee = 0) \/
               b3 = bmove (bmove (bmove (bmove (bal s) ESC MOD (r_in r) (r_amt r)) MOD POOL (r_in r) tin) POOL MOD (r_out r) tout) MOD PROV (r_out r) fee).
  { destruct (negb (m_prov m =? 0)) eqn:Ehf; simpl in E3.
    - destruct (0 <? fee) eqn:Epos.
      + destruct (bsend _ MOD PROV (r_out r) fee) as [x|] eqn:E; [|discriminate]. apply bsend_spec in E. destruct E as [-> _]. inversion E3; auto.
      + apply Z.ltb_ge in Epos. inversion E3. left. split; auto. lia.
    - inversion E3. left. split; auto. }
  assert (H4 : b4 = bmove b3 MOD (r_rcv r) (r_out r) (tout - fee)).
  { destruct (bsend b3 MOD (r_rcv r) (r_out r) (tout - fee)) as [x|] eqn:E; [|discriminate]. apply bsend_spec in E. destruct E as [-> _]. inversion E4; auto. }
  assert (H5 : (b5 = b4 /\ r_amt r - tin <= 0) \/ b5 = bmove b4 MOD (r_rcv r) (r_in r) (r_amt r - tin)).
  { simpl in E5. destruct (0 <? r_amt r - tin) eqn:Er; simpl in E5.
    - destruct (bsend b4 MOD (r_rcv r) (r_in r) (r_amt r - tin)) as [x|] eqn:E; [|discriminate]. apply bsend_spec in E. destruct E as [-> _]. inversion E5; auto.
    - inversion E5. left. split; auto. apply Z.ltb_ge in Er. exact Er. }
  clear E3 E4 E5.
  constructor; intros; (destruct H5 as [[-> Hrem]| ->]; subst b4; destruct H3 as [[-> Hf0] | ->]; fin).
Qed.

(* ---------- every message: module account untouched, locked funds backed, closed system ---------- *)
Definition touches (s : st) (e : event) : Z :=
  match e with
  | ERecv r => r_rcv r
  | EAck i _ | ETimeout i => match coms s i with Some p => p_sender p | None => 0 end
  end.

Lemma step_recv_eff : forall s r s', wf_recv r -> step_recv fixed s r = Ok s' -> Eff (r_rcv r) s s'.
Proof.
  intros s r s' Hw H. pose proof Hw as [HR _]. unfold step_recv in H.
  destruct (rcpt s (r_key r)). { inversion H; subst; apply Eff_refl. }
  set (s0 := set_rcpt s (upd (rcpt s) (r_key r) true)) in *.
  assert (E0 : Eff (r_rcv r) s s0) by (apply Eff_same; auto).
  destruct (r_class r) as [| | |m] eqn:Hcl.
  - destruct (negb (r_rcv_ok r) || (r_amt r <=? 0)); inversion H; subst.
    + apply Eff_same; auto.
    + subst s0. constructor; intros; fin.
  - inversion H; subst. apply Eff_same; auto.
  - discriminate.
  - destruct (recv_swap fixed s0 r m) as [s2| |] eqn:E; inversion H; subst; try solve [apply Eff_same; auto].
    eapply Eff_trans; [exact E0|]. clear H. unfold recv_swap in E.
    destruct (recv_funds fixed s0 r m) as [[b5 [[tin tout] fee]]| |] eqn:Ef; simpl in E; try discriminate.
    pose proof (recv_funds_eff s0 r m b5 tin tout fee Hw Hcl Ef) as E1.
    match type of E with context[send_change ?x _ _ _ _ _] => set (s1 := x) in * end.
    destruct (send_change s1 (r_key r) (r_rcv r) (r_in r) (r_amt r - tin) m) as [[s2 chg]| |] eqn:Ec; simpl in E; try discriminate.
    destruct (send_forward s2 (r_key r) (r_rcv r) (r_out r) (tout - fee) m) as [[s3 fw]| |] eqn:Efw; simpl in E; try discriminate.
    inversion E; subst.
    eapply Eff_trans; [exact E1|]. eapply Eff_trans; [eapply send_change_eff; eauto|].
    eapply Eff_trans; [eapply send_forward_eff; eauto|]. apply finish_eff.
Qed.

Theorem step_eff : forall s e, Inv s -> wf_event e -> Eff (touches s e) s (apply fixed s e).
Proof.
  intros s e HI Hw. unfold apply. destruct e as [r|i a|i]; simpl.
  - destruct (step_recv fixed s r) eqn:E; try apply Eff_refl. eapply step_recv_eff; eauto.
  - destruct (coms s i) as [p|] eqn:Hc.
    + destruct (step_ack_spec s i a p HI Hc) as [s' [E [_ [Hgr [Hgl [_ Hb]]]]]]. rewrite E.
      pose proof (I_sn _ s HI _ _ Hc) as HS. unfold unlock in Hgl.
      destruct (is_err_ack a); destruct Hb as [Hb Hgs]; constructor; intros; unfold slack, tot; rewrite ?Hb, ?Hgr, ?Hgl, ?Hgs; fin.
    + unfold step_ack. rewrite Hc. apply Eff_refl.
  - destruct (coms s i) as [p|] eqn:Hc.
    + destruct (step_timeout_spec s i p HI Hc) as [s' [E [Hgr [Hgs Hb]]]]. rewrite E.
      pose proof (I_sn _ s HI _ _ Hc) as HS. unfold unlock in Hb.
      destruct (outs s i) as [o|].
      * destruct (0 <? o_retries o - 1).
        -- destruct Hb as [Hb [Hgl _]]. apply Eff_same; auto.
        -- destruct Hb as [Hb [Hgl _]]. constructor; intros; unfold slack, tot; rewrite ?Hb, ?Hgr, ?Hgl, ?Hgs; fin.
      * destruct Hb as [Hb [Hgl _]]. constructor; intros; unfold slack, tot; rewrite ?Hb, ?Hgr, ?Hgl, ?Hgs; fin.
    + unfold step_timeout. rewrite Hc. apply Eff_refl.
Qed.

(* over whole histories *)
Theorem run_module_and_backing : forall es s, Inv s -> Forall wf_event es ->
  (forall d, bal (run fixed s es) MOD d = bal s MOD d) /\ (forall d, slack (run fixed s es) d = slack s d).
Proof.
  induction es as [|e tl IH]; intros s HI Hw; simpl; auto.
  inversion Hw; subst.
  destruct (IH (apply fixed s e) (apply_inv s e HI H1) H2) as [A B].
  pose proof (step_eff s e HI H1) as E. split; intros d.
  - rewrite A. apply (E_mod _ _ _ E).
  - rewrite B. apply (E_slack _ _ _ E).
Qed.

(* a refused receive keeps nothing: the state afterwards is the state before plus the receipt and
   the error acknowledgement (IBC core discards everything the callback wrote) *)
Definition refused_state (s : st) (k : idx) : st :=
  set_acks (set_rcpt s (upd (rcpt s) k true)) (upd (acks s) k (Some AErr)).

Lemma transfer_acks : forall s k b R d amt f s' i, transfer s k b R d amt f = Ok (s', i) -> acks s' = acks s.
Proof.
  intros s k b R d amt f s' i H. unfold transfer in H.
  destruct (negb (f_ok f) || (amt <=? 0)); [discriminate|].
  destruct (bsend (bal s) R ESC d amt); [|discriminate]. inversion H; reflexivity.
Qed.

Theorem refused_keeps_nothing : forall s r s', Inv s -> rcpt s (r_key r) = false ->
  step_recv fixed s r = Ok s' -> acks s' (r_key r) = Some AErr -> s' = refused_state s (r_key r).
Proof.
  intros s r s' HI Hr H Ha. destruct (unreceived_no_legs s _ HI Hr) as [_ [Hak _]].
  unfold step_recv in H. rewrite Hr in H. unfold refused_state.
  set (s0 := set_rcpt s (upd (rcpt s) (r_key r) true)) in *.
  destruct (r_class r) as [| | |m].
  - destruct (negb (r_rcv_ok r) || (r_amt r <=? 0)); [inversion H; reflexivity|].
    inversion H; subst. simpl in Ha. rewrite upd_same in Ha. discriminate.
  - inversion H; reflexivity.
  - discriminate.
  - destruct (recv_swap fixed s0 r m) as [s2| |] eqn:E; try discriminate; [|inversion H; reflexivity].
    exfalso. inversion H; subst s2; clear H.
    unfold recv_swap in E.
    destruct (recv_funds fixed s0 r m) as [[b5 [[tin tout] fee]]| |]; simpl in E; try discriminate.
    match type of E with context[send_change ?x _ _ _ _ _] => set (s1 := x) in * end.
    destruct (send_change s1 (r_key r) (r_rcv r) (r_in r) (r_amt r - tin) m) as [[s2 chg]| |] eqn:Ec; simpl in E; try discriminate.
    destruct (send_forward s2 (r_key r) (r_rcv r) (r_out r) (tout - fee) m) as [[s3 fw]| |] eqn:Efw; simpl in E; try discriminate.
    inversion E; subst s'; clear E.
    assert (A2 : acks s2 = acks s).
    { unfold send_change in Ec. destruct (m_strat m) as [?|? [ch|]]; try (inversion Ec; reflexivity).
      destruct (0 <? r_amt r - tin); try (inversion Ec; reflexivity).
      destruct (transfer s1 (r_key r) false (r_rcv r) (r_in r) (r_amt r - tin) ch) as [[sx ix]| |] eqn:Et; simpl in Ec; try discriminate.
      inversion Ec; subst. apply transfer_acks in Et. exact Et. }
    assert (A3 : acks s3 = acks s).
    { unfold send_forward in Efw. destruct (m_fwd m) as [f|]; try (inversion Efw; subst; exact A2).
      destruct (transfer s2 (r_key r) true (r_rcv r) (r_out r) (tout - fee) f) as [[sx ix]| |] eqn:Et; simpl in Efw; try discriminate.
      inversion Efw; subst. apply transfer_acks in Et. congruence. }
    unfold finish in Ha. destruct chg, fw; simpl in Ha; try (rewrite upd_same in Ha; discriminate); rewrite A3 in Ha; congruence.
Qed.

(* every unit received is swapped (POOL), paid as interface fee (PROV), delivered to the account the
   message concerns, in flight or sent onward; the module account is as before; nobody else moves *)
Theorem funds_conserved_step : forall s e d, Inv s -> wf_event e ->
  let s' := apply fixed s e in let R := touches s e in
  g_recv s' d - g_recv s d =
    (bal s' POOL d - bal s POOL d) + (bal s' PROV d - bal s PROV d) + (bal s' R d - bal s R d) +
    (g_lock s' d - g_lock s d) + (g_sent s' d - g_sent s d)
  /\ bal s' MOD d = bal s MOD d
  /\ (forall a, other R a -> bal s' a d = bal s a d).
Proof.
  intros s e d HI Hw s' R. pose proof (step_eff s e HI Hw) as E. fold s' in E. fold R in E.
  pose proof (E_mod _ _ _ E d) as A. pose proof (E_slack _ _ _ E d) as B. pose proof (E_tot _ _ _ E d) as C.
  unfold slack, tot in *. repeat split; auto; try lia. intros a Ha. apply (E_other _ _ _ E); auto.
Qed.

(* the ghost of delivered outcomes is honest: it changes exactly when the environment hands a final
   outcome to a live leg, and records that outcome for that leg *)
Theorem outcomes_are_recorded : forall s e, Inv s ->
  match e with
  | ERecv _ => True
  | EAck i a =>
      match coms s i with
      | Some p => g_out (apply fixed s e) = gout_after p a (g_out s)
      | None => g_out (apply fixed s e) = g_out s
      end
  | ETimeout i =>
      match coms s i, outs s i with
      | Some p, Some o => g_out (apply fixed s e) =
                          if 0 <? o_retries o - 1 then g_out s else gout_after p ACK_TIMEOUT (g_out s)
      | _, _ => g_out (apply fixed s e) = g_out s
      end
  end.
Proof.
  intros s [r|i a|i] HI; auto; unfold apply; simpl.
  - destruct (coms s i) as [p|] eqn:Hc.
    + destruct (step_ack_spec s i a p HI Hc) as [s' [E [G _]]]. rewrite E. exact G.
    + unfold step_ack. rewrite Hc. reflexivity.
  - destruct (coms s i) as [p|] eqn:Hc.
    + destruct (step_timeout_spec s i p HI Hc) as [s' [E [_ [_ Hb]]]]. rewrite E.
      destruct (outs s i) as [o|].
      * destruct (0 <? o_retries o - 1); destruct Hb as [_ [_ [G _]]] || destruct Hb as [_ [_ G]]; exact G.
      * destruct Hb as [_ [_ G]]; exact G.
    + unfold step_timeout. rewrite Hc. reflexivity.
Qed.

(* ---------- the code as found: every repair is needed (witnesses, also in the harness corpus) ---------- *)
Definition b0 : bank := fun a d => if (a =? 10) && (d =? 1) then 1000 else 0.   (* the receiver holds 1000 of the input denom *)
Definition s_init : st := clean b0 (fun _ => 1).
Definition fwd0 (c : Z) : fwd := {| f_chan := c; f_retries := 2; f_ok := true |}.
Definition mk_recv (st : strat) (f : option fwd) (q : Z * Z) : recv :=
  {| r_key := (1, 7); r_rcv := 10; r_rcv_ok := true; r_in := 1; r_out := 2; r_amt := 100;
     r_class := MSwap {| m_prov := 0; m_strat := st; m_fwd := f |}; r_denom_ok := true; r_quote := Ok q; r_rate := 0 |}.

Definition only (unblocked wired rem idx refund : bool) : cfg :=
  {| c_unblocked := unblocked; c_wired := wired; c_fix_rem := rem; c_fix_idx := idx; c_fix_refund := refund |}.

(* C11-1 missing: the module account is a blocked address, every swap packet is refused *)
Lemma blocked_refuses_everything : forall c s r m, c_unblocked c = false -> exists e, recv_swap c s r m = Err e.
Proof.
  intros c s r m Hc. unfold recv_swap, recv_funds. rewrite Hc. simpl.
  destruct (negb (r_denom_ok r)); simpl; eauto.
Qed.

(* C11-2 missing: the deferred acknowledgement calls a nil function *)
Lemma nil_keeper_fn_witness :
  let c := only true false true true true in
  let s1 := apply c s_init (ERecv (mk_recv (ExIn 1) (Some (fwd0 0)) (100, 90))) in
  incs s1 (1, 7) <> None /\ step c s1 (EAck (0, 1) ACK_OK) = Panic /\ step c s1 (ETimeout (0, 1)) = Panic.
Proof. vm_compute. repeat split; congruence. Qed.

(* C11-3 missing: exact-out leaves the remainder in the module account (without a change leg), or has
   the receiver pay the change out of its own pocket while the module account keeps the remainder *)
Lemma remainder_kept_witness :
  let c := only true true false true true in
  bal (apply c s_init (ERecv (mk_recv (ExOut 50 None) None (60, 50)))) MOD 1 = 40 /\
  let s1 := apply c s_init (ERecv (mk_recv (ExOut 50 (Some (fwd0 1))) None (60, 50))) in
  bal s1 MOD 1 = 40 /\ bal s1 10 1 = 960 /\ bal s_init MOD 1 = 0.
Proof. vm_compute. repeat split; reflexivity. Qed.

(* C11-4 missing: the acknowledgement of the change leg fills the forward slot too: the combined
   acknowledgement is written while the forward leg is in flight, reports a result the forward leg never
   had, and the forward leg's outgoing record is never removed *)
Lemma one_ack_fills_both_witness :
  let c := only true true true false true in
  let s1 := apply c s_init (ERecv (mk_recv (ExOut 50 (Some (fwd0 1))) (Some (fwd0 0)) (60, 50))) in
  let s2 := apply c s1 (EAck (1, 1) ACK_OK) in
  let s3 := apply c s2 (EAck (0, 1) 2) in
  acks s2 (1, 7) = Some (ASwap 60 50 ACK_OK ACK_OK ACK_OK) /\ coms s2 (0, 1) <> None /\ g_out s2 (1, 7) true = None /\
  outs s3 (0, 1) <> None /\ coms s3 (0, 1) = None.
Proof. vm_compute. repeat split; congruence. Qed.

(* C11-4 missing, second half: after a re-send the slot still names the old sequence, so the final
   timeout resolves nothing: no acknowledgement is ever written, the record stays *)
Lemma stale_slot_witness :
  let c := only true true true false true in
  let s1 := apply c s_init (ERecv (mk_recv (ExIn 1) (Some (fwd0 0)) (100, 90))) in
  let s3 := apply c (apply c s1 (ETimeout (0, 1))) (ETimeout (0, 2)) in
  (forall i, In i [(0, 1); (0, 2); (0, 3)] -> coms s3 i = None) /\ acks s3 (1, 7) = None /\ incs s3 (1, 7) <> None.
Proof. vm_compute. repeat split; try congruence. intros i [<-|[<-|[<-|[]]]]; reflexivity. Qed.

(* C11-5 missing: a timed-out leg is sent again and refunded as well *)
Lemma refund_and_resend_witness :
  let c := only true true true true false in
  let s1 := apply c s_init (ERecv (mk_recv (ExIn 1) (Some (fwd0 0)) (100, 90))) in
  let s2 := apply c s1 (ETimeout (0, 1)) in
  coms s2 (0, 2) <> None /\ bal s2 10 2 = 90 /\ slack s2 2 = slack s1 2 - 90.
Proof. vm_compute. repeat split; congruence. Qed.

(* non-vacuity: the same histories under the repaired code, from a state satisfying the invariant *)
Lemma fixed_history_example :
  let s1 := apply fixed s_init (ERecv (mk_recv (ExOut 50 (Some (fwd0 1))) (Some (fwd0 0)) (60, 50))) in
  let s2 := apply fixed s1 (EAck (1, 1) ACK_OK) in
  let s3 := apply fixed s2 (ETimeout (0, 1)) in
  let s4 := apply fixed s3 (EAck (0, 2) 2) in
  Inv s_init /\ wf_recv (mk_recv (ExOut 50 (Some (fwd0 1))) (Some (fwd0 0)) (60, 50)) /\
  incs s1 (1, 7) <> None /\ acks s2 (1, 7) = None /\ coms s3 (0, 2) <> None /\
  acks s4 (1, 7) = Some (ASwap 60 50 ACK_OK ACK_OK 2) /\ incs s4 (1, 7) = None /\ outs s4 (0, 2) = None /\
  bal s4 MOD 1 = 0 /\ bal s4 MOD 2 = 0 /\ bal s4 10 1 = 1000 /\ bal s4 10 2 = 50 /\ g_sent s4 1 = 40.
Proof.
  split; [apply Inv_clean|]. split.
  - unfold wf_recv, user_acct, mk_recv, MOD, ESC, POOL, PROV, P; simpl. repeat split; lia.
  - vm_compute. repeat split; congruence.
Qed.

(* ---------- statements over every history from a state with empty stores ---------- *)
Definition history_state (b : bank) (n : Z -> Z) (es : list event) : st := run fixed (clean b n) es.

Lemma history_inv : forall b n es, Forall wf_event es -> Inv (history_state b n es).
Proof. intros. apply run_inv; auto. apply Inv_clean. Qed.

Theorem funds_conserved_history : forall b n es d, Forall wf_event es ->
  let s := history_state b n es in
  bal s MOD d = b MOD d /\
  bal s ESC d - b ESC d = g_lock s d + g_sent s d - g_recv s d.
Proof.
  intros b n es d Hw s. destruct (run_module_and_backing es (clean b n) (Inv_clean b n) Hw) as [A B].
  split. { apply A. } specialize (B d). unfold slack in B. simpl in B. fold (history_state b n es) in B. fold s in B. lia.
Qed.

Theorem funds_conserved_next : forall b n es e d, Forall wf_event es -> wf_event e ->
  let s := history_state b n es in let s' := apply fixed s e in let R := touches s e in
  g_recv s' d - g_recv s d =
    (bal s' POOL d - bal s POOL d) + (bal s' PROV d - bal s PROV d) + (bal s' R d - bal s R d) +
    (g_lock s' d - g_lock s d) + (g_sent s' d - g_sent s d)
  /\ bal s' MOD d = bal s MOD d
  /\ (forall a, other R a -> bal s' a d = bal s a d).
Proof. intros. apply funds_conserved_step; auto. apply history_inv; auto. Qed.

Theorem refused_keeps_nothing_history : forall b n es r s', Forall wf_event es ->
  let s := history_state b n es in
  rcpt s (r_key r) = false -> step fixed s (ERecv r) = Ok s' -> acks s' (r_key r) = Some AErr ->
  s' = refused_state s (r_key r).
Proof. intros. eapply refused_keeps_nothing; eauto. apply history_inv; auto. Qed.

Theorem exactly_one_ack_history : forall b n es k, Forall wf_event es ->
  let s := history_state b n es in
  (rcpt s k = false -> acks s k = None /\ incs s k = None) /\
  (rcpt s k = true -> (acks s k <> None /\ incs s k = None) \/ (acks s k = None /\ incs s k <> None)) /\
  (rcpt s k = true -> (forall i p b', coms s i = Some p -> p_owner p <> Some (k, b')) -> acks s k <> None) /\
  (forall e, (match e with ERecv _ => False | _ => True end) -> exists s', step fixed s e = Ok s').
Proof.
  intros b n es k Hw s. pose proof (history_inv b n es Hw) as HI. fold s in HI.
  destruct (one_ack_or_pending s k HI) as [A B]. split; [exact A|]. split; [exact B|]. split.
  - intros Hr Hn. apply (acked_when_legs_done s k HI Hr Hn).
  - intros e He. apply legs_always_resolve; auto.
Qed.

Theorem ack_after_all_legs_history : forall b n es k, Forall wf_event es ->
  let s := history_state b n es in
  acks s k <> None ->
  incs s k = None /\ (forall i o, outs s i = Some o -> o_wait o <> k) /\
  (forall i p b', coms s i = Some p -> p_owner p <> Some (k, b')).
Proof. intros. apply ack_after_all_legs; auto. apply history_inv; auto. Qed.

Theorem ack_reports_each_leg_history : forall b n es k tin tout a0 ca fa, Forall wf_event es ->
  let s := history_state b n es in
  acks s k = Some (ASwap tin tout a0 ca fa) ->
  ca = leg_val (g_out s k false) /\ fa = leg_val (g_out s k true).
Proof. intros. eapply ack_reports_each_leg; eauto. apply history_inv; auto. Qed.

Theorem outcomes_are_recorded_history : forall b n es e, Forall wf_event es ->
  let s := history_state b n es in
  match e with
  | ERecv _ => True
  | EAck i a =>
      match coms s i with
      | Some p => g_out (apply fixed s e) = gout_after p a (g_out s)
      | None => g_out (apply fixed s e) = g_out s
      end
  | ETimeout i =>
      match coms s i, outs s i with
      | Some p, Some o => g_out (apply fixed s e) =
                          if 0 <? o_retries o - 1 then g_out s else gout_after p ACK_TIMEOUT (g_out s)
      | _, _ => g_out (apply fixed s e) = g_out s
      end
  end.
Proof. intros. apply outcomes_are_recorded. apply history_inv; auto. Qed.

Theorem records_gone_history : forall b n es, Forall wf_event es ->
  let s := history_state b n es in
  (forall i p, coms s i = Some p -> p_owner p = None) ->
  (forall k, incs s k = None) /\ (forall i, outs s i = None).
Proof. intros. apply records_gone; auto. apply history_inv; auto. Qed.

(* a timeout with retries left: the packet is sent again under the next sequence, nothing is refunded,
   the same amount stays locked; with none left (or an error acknowledgement) the sender is refunded
   and the commitment is gone *)
Theorem no_refund_and_resend_history : forall b n es i p o, Forall wf_event es ->
  let s := history_state b n es in
  coms s i = Some p -> outs s i = Some o ->
  let s' := apply fixed s (ETimeout i) in
  if 0 <? o_retries o - 1
  then bal s' = bal s /\ coms s' (fst i, nseq s (fst i)) = Some p /\ coms s' i = None /\ (forall d, g_lock s' d = g_lock s d)
  else bal s' = bmove (bal s) ESC (p_sender p) (p_denom p) (p_amt p) /\ g_lock s' = unlock s p.
Proof.
  intros b n es i p o Hw s Hc Ho s'. pose proof (history_inv b n es Hw) as HI. fold s in HI.
  destruct (step_timeout_spec s i p HI Hc) as [s2 [E [_ [_ Hb]]]]. rewrite Ho in Hb.
  unfold s', apply. simpl. rewrite E.
  destruct (0 <? o_retries o - 1).
  - destruct Hb as [H1 [H2 [_ [H3 H4]]]]. auto.
  - destruct Hb as [H1 [H2 _]]. auto.
Qed.
