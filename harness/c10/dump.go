package c10

import (
	"fmt"
	"math/big"
	"strings"

	"cosmossdk.io/collections"
	"github.com/cockroachdb/apd/v3"
	sdk "github.com/cosmos/cosmos-sdk/types"

	sctypes "github.com/sunriselayer/sunrise/x/shareclass/types"

	"verifharness/emit"
)

// denoms by model index: 0 = fee, 1 = bond, then the other reward denoms.
var denomNames = []string{"urise", "uvrise", "uusdc", "uatom"}

// dec is a math.Dec as printed by the implementation: coefficient * 10^exponent.
type dec struct {
	C *big.Int
	E int64
}

func zeroDec() dec { return dec{big.NewInt(0), 0} }

func parseDec(s string) dec {
	d, _, err := apd.NewFromString(s)
	if err != nil {
		panic(fmt.Sprintf("stored decimal %q does not parse: %v", s, err))
	}
	c := new(big.Int)
	c.SetString(d.Coeff.String(), 10)
	if d.Negative {
		c.Neg(c)
	}
	return dec{c, int64(d.Exponent)}
}

func (d dec) coq() string { return emit.App("zp", emit.Z(d.C), emit.ZI(d.E)) }

// eq compares values.
func (d dec) eq(o dec) bool {
	a, b := new(big.Int).Set(d.C), new(big.Int).Set(o.C)
	ten := big.NewInt(10)
	if d.E > o.E {
		a.Mul(a, new(big.Int).Exp(ten, big.NewInt(d.E-o.E), nil))
	} else {
		b.Mul(b, new(big.Int).Exp(ten, big.NewInt(o.E-d.E), nil))
	}
	return a.Cmp(b) == 0
}

type dcell struct {
	T     *big.Int
	Sh    []*big.Int
	ModSh *big.Int
	B     *big.Int // nil = no delegation
	SD    bool
	Ent   int
	S     []*big.Int
	M     []dec
	Chk   [][]dec
	Alias *big.Int // supply of the share denom built from the upper-case spelling of the address
}

type qrow struct {
	ID   uint64
	Rcp  int
	Time int64 // ns
	Amt  *big.Int
}

type dstate struct {
	Cells []dcell
	UB    [][]*big.Int
	MB    []*big.Int
	Queue []qrow
	Next  uint64
}

func zlist(xs []*big.Int) string {
	out := make([]string, len(xs))
	for i, x := range xs {
		out[i] = emit.Z(x)
	}
	return emit.List(out)
}
func declist(xs []dec) string {
	out := make([]string, len(xs))
	for i, x := range xs {
		out[i] = x.coq()
	}
	return emit.List(out)
}

func (c dcell) coq() string {
	b := emit.None()
	if c.B != nil {
		b = emit.Some(emit.Z(c.B))
	}
	var chk []string
	for u, r := range c.Chk {
		for d, x := range r {
			switch {
			case x.C.Sign() == 0:
			case x.eq(c.M[d]):
				chk = append(chk, emit.App("ck", fmt.Sprint(u), fmt.Sprint(d), emit.None()))
			default:
				chk = append(chk, emit.App("ck", fmt.Sprint(u), fmt.Sprint(d), emit.Some(x.coq())))
			}
		}
	}
	return fmt.Sprintf("(mkD %s %s %s %s %s %d %s %s %s %s)", emit.Z(c.T), zlist(c.Sh), emit.Z(c.ModSh), b,
		emit.Bool(c.SD), c.Ent, zlist(c.S), declist(c.M), emit.List(chk), emit.Z(c.Alias))
}

var (
	ub0 = new(big.Int).Exp(big.NewInt(10), big.NewInt(39), nil)
	t0  = int64(1_700_000_000) * 1_000_000_000
)

func (d dstate) coq() string { return d.coqRel(nil, nil) }

// coqRel emits the state; cells listed in hide are written as dhid (not shown), cells
// identical to those of pre as dsame.
func (d dstate) coqRel(pre *dstate, hide map[int]bool) string {
	cells := make([]string, len(d.Cells))
	for i, c := range d.Cells {
		cells[i] = c.coq()
		if hide[i] {
			cells[i] = "dhid"
		} else if pre != nil && pre.Cells[i].coq() == cells[i] {
			cells[i] = "dsame"
		}
	}
	ub := make([]string, len(d.UB))
	for i, r := range d.UB {
		rel := make([]*big.Int, len(r))
		for j, x := range r {
			if j == 1 {
				rel[j] = new(big.Int).Neg(x)
			} else {
				rel[j] = new(big.Int).Sub(ub0, x)
			}
		}
		ub[i] = zlist(rel)
	}
	q := make([]string, len(d.Queue))
	for i, r := range d.Queue {
		q[i] = emit.App("q4", fmt.Sprint(r.ID), emit.ZI(int64(r.Rcp)), emit.ZI(r.Time-t0), emit.Z(r.Amt))
	}
	return fmt.Sprintf("(mkDS %s %s %s %s %d)", emit.List(cells), emit.List(ub), zlist(d.MB), emit.List(q), d.Next)
}

func (w *world) userIndex(addr string) int {
	for i, a := range w.h.Accts {
		if a.Addr.String() == addr {
			return i
		}
	}
	return -2
}

// dump reads the projection of the application state the model talks about.
func (w *world) dump(ctx sdk.Context) dstate {
	h := w.h
	k := h.App.ShareclassKeeper
	var d dstate
	for v := range w.vals {
		var c dcell
		c.T = h.Supply(ctx, w.shares[v]).BigInt()
		for _, a := range h.Accts {
			c.Sh = append(c.Sh, h.Bal(ctx, a.Addr, w.shares[v]).BigInt())
		}
		c.ModSh = h.Bal(ctx, w.mod, w.shares[v]).BigInt()
		c.Alias = h.Supply(ctx, sctypes.NonVotingShareTokenDenom(strings.ToUpper(w.vals[v]))).BigInt()
		if b := w.delegated(ctx, v); b != nil {
			c.B = b.BigInt()
		}
		c.SD = !h.App.BankKeeper.IsSendEnabledDenom(ctx, w.shares[v])
		c.Ent = w.entries(ctx, v)
		for _, dn := range denomNames {
			c.S = append(c.S, h.Bal(ctx, w.savers[v], dn).BigInt())
			m := zeroDec()
			if s, err := k.RewardMultiplier.Get(ctx, collections.Join([]byte(w.valb[v]), dn)); err == nil {
				m = parseDec(s)
			}
			c.M = append(c.M, m)
		}
		for _, a := range h.Accts {
			var row []dec
			for _, dn := range denomNames {
				x := zeroDec()
				if s, err := k.UsersLastRewardMultiplier.Get(ctx, collections.Join3(a.Addr, []byte(w.valb[v]), dn)); err == nil {
					x = parseDec(s)
				}
				row = append(row, x)
			}
			c.Chk = append(c.Chk, row)
		}
		d.Cells = append(d.Cells, c)
	}
	for _, a := range h.Accts {
		var row []*big.Int
		for _, dn := range denomNames {
			row = append(row, h.Bal(ctx, a.Addr, dn).BigInt())
		}
		d.UB = append(d.UB, row)
	}
	for _, dn := range denomNames {
		d.MB = append(d.MB, h.Bal(ctx, w.mod, dn).BigInt())
	}
	err := k.Unbondings.Indexes.CompletionTime.Walk(ctx, nil, func(_ int64, id uint64) (bool, error) {
		u, err := k.Unbondings.Get(ctx, id)
		if err != nil {
			return true, err
		}
		amt := big.NewInt(0)
		if !u.Amount.Amount.IsNil() {
			amt = u.Amount.Amount.BigInt()
		}
		d.Queue = append(d.Queue, qrow{ID: id, Rcp: w.userIndex(u.Address), Time: u.CompletionTime.UnixNano(), Amt: amt})
		return false, nil
	})
	if err != nil {
		panic(err)
	}
	nx, err := k.UnbondingId.Peek(ctx)
	if err != nil {
		panic(err)
	}
	d.Next = nx
	return d
}

func sameState(a, b dstate) bool { return a.coq() == b.coq() }
