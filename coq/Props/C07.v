(* C07 - DA items follow the challenge state machine and always resolve on time.
   Only statements, each closed by [exact]; the model is Da/Da.v (message handlers and the four
   end-block phases of x/da; [repaired] = the code as it is now (fix commits C07-exact-deadlines,
   C08-reject-repeated-invalidity, negative proof index guard, C09 repairs), [legacy] = the code as
   found, [with_range_check] = with the unapplied range check of SubmitInvalidity on top),
   the proofs are in Da/DaProofs.v.  Every theorem holds from an arbitrary state (so for every
   interleaving of messages, block ends and parameter changes that leads to it); [wf] (distinct
   uris, positive proof period) is shown invariant along all histories. *)
From Coq Require Import ZArith List.
Import ListNotations.
From Sunrise Require Import Base.Outcome Base.Dec Base.Bank Da.Da Da.C07Check Da.DaProofs.
Local Open Scope Z_scope.

(* Messages never move an item: whatever message succeeds, every stored item is untouched, and
   the only new item is a fresh publication, in the challenge period, stamped with the block time.
   (Failed messages change nothing at all: [apply_step].) Holds for the code as found too. *)
Theorem C07_messages_never_move_items : forall fx o now s b s' b',
  is_msg o = true -> step fx o now s b = Ok (s', b') ->
  s_prm s' = s_prm s /\
  (s_items s' = s_items s \/
   exists sender uri n parity,
     o = OPublish sender uri n parity /\ parity < n /\
     (forall it, In it (s_items s) -> i_uri it <> uri) /\
     forall z, In z (s_items s') <-> z = fresh_item sender uri n parity now (s_prm s) \/ In z (s_items s)).
Proof. exact msg_items. Qed.
Print Assumptions C07_messages_never_move_items.

(* A challenge is accepted only for an item in the challenge period, inside the challenge window,
   once per sender.  (That its indices name shards is NOT guaranteed by the current code: known
   finding C07-F1 below.) *)
Theorem C07_challenge_accepted_only_in_window : forall sender uri idx now s b s' b',
  step repaired (OInval sender uri idx) now s b = Ok (s', b') ->
  exists it, find_item uri (s_items s) = Some it /\ i_status it = ST_CP /\
             now <= i_ts it + pr_cp (s_prm s) /\ idx <> [] /\ has_inv uri sender (s_invs s) = false.
Proof. exact inval_accepted_repaired. Qed.
Print Assumptions C07_challenge_accepted_only_in_window.

(* A validity proof is accepted only for a challenging item, inside the proof window, for a bonded
   validator, from the validator itself or its registered deputy, for shard indices whose proofs
   all parse and verify. *)
Theorem C07_proof_accepted_only_authorised : forall sender val uri idx orc known bonded now s b s' b',
  step repaired (OProof sender val uri idx orc known bonded) now s b = Ok (s', b') ->
  known = true /\ bonded = true /\
  (sender = val \/ lookup val (s_deps s) = Some sender) /\
  exists it, find_item uri (s_items s) = Some it /\ i_status it = ST_CH /\
             now <= i_ts it + pr_pp (s_prm s) /\
             Forall (fun j => 0 <= j < i_n it) idx /\
             Forall (fun o => fst o = true /\ snd o = true) orc.
Proof. exact proof_accepted_repaired. Qed.
Print Assumptions C07_proof_accepted_only_authorised.

(* The deadline test of the repaired end-blocker is exact to the nanosecond (the second-truncated
   index scan is implied by the guard). *)
Theorem C07_deadline_test_exact : forall st d now it,
  due repaired st d now it = true <-> i_status it = st /\ i_ts it + d <= now.
Proof. exact due_repaired_iff. Qed.
Print Assumptions C07_deadline_test_exact.

(* The post-state of a successful block end is the pre-state with every item replaced by its fate. *)
Theorem C07_block_end_is_itemwise : forall vd now s b s' b',
  end_block repaired vd now s b = Ok (s', b') ->
  forall y, In y (s_items s') <-> exists x, In x (s_items s) /\ In y (fate vd now s x).
Proof. exact end_block_in. Qed.
Print Assumptions C07_block_end_is_itemwise.

(* What a block end at time [now] does to each item, as an equivalence in both directions:
   - verified / rejected: pruned iff the retention period is over, otherwise untouched;
   - challenge period: to challenging iff the distinct disputed indices reach threshold * shards
     (exact rational comparison); otherwise to verified iff the challenge period is over; otherwise
     untouched;
   - challenging: to verified / rejected (by the tally verdict [vd], C09) iff the proof period is
     over, otherwise untouched.
   So every transition happens at the first block end at which its condition holds, and never
   before. *)
Theorem C07_block_end_fate : forall vd now s b s' b',
  0 < pr_pp (s_prm s) ->
  end_block repaired vd now s b = Ok (s', b') ->
  forall x, In x (s_items s) ->
    let p := s_prm s in
    ((i_status x = ST_VER \/ i_status x = ST_REJ) ->
       (i_ts x + retention_of p (i_status x) <= now -> fate vd now s x = []) /\
       (now < i_ts x + retention_of p (i_status x) -> fate vd now s x = [x])) /\
    (i_status x = ST_CP ->
       (reach_prop p x (s_invs s) -> fate vd now s x = [set_status x ST_CH now]) /\
       (~ reach_prop p x (s_invs s) -> i_ts x + pr_cp p <= now -> fate vd now s x = [set_status x ST_VER now]) /\
       (~ reach_prop p x (s_invs s) -> now < i_ts x + pr_cp p -> fate vd now s x = [x])) /\
    (i_status x = ST_CH ->
       (i_ts x + pr_pp p <= now -> fate vd now s x = [set_status x (verdict_status vd s x) now]) /\
       (now < i_ts x + pr_pp p -> fate vd now s x = [x])).
Proof. exact end_block_fate. Qed.
Print Assumptions C07_block_end_fate.

(* Allowed transitions only: an item is untouched, or makes one allowed move stamped with the
   block time, or - terminal and past its retention period - is pruned; nothing is created. *)
Theorem C07_allowed_transitions : forall vd now s b s' b',
  0 < pr_pp (s_prm s) ->
  end_block repaired vd now s b = Ok (s', b') ->
  (forall x, In x (s_items s) -> status_ok x ->
     fate vd now s x = [x] \/
     (exists st', fate vd now s x = [set_status x st' now] /\ step_rel (i_status x) st') \/
     (fate vd now s x = [] /\ (i_status x = ST_VER \/ i_status x = ST_REJ) /\
      i_ts x + retention_of (s_prm s) (i_status x) <= now)) /\
  (forall y, In y (s_items s') -> exists x, In x (s_items s) /\ In y (fate vd now s x)).
Proof. exact end_block_transitions. Qed.
Print Assumptions C07_allowed_transitions.

(* No item stays unresolved past its deadlines: after a successful block end at [now] nothing is in
   the challenge period with ts + challengePeriod <= now nor challenging with ts + proofPeriod <= now. *)
Theorem C07_resolved_on_time : forall vd now s b s' b',
  0 < pr_pp (s_prm s) ->
  end_block repaired vd now s b = Ok (s', b') ->
  forall y, In y (s_items s') ->
    (i_status y = ST_CP -> now < i_ts y + pr_cp (s_prm s)) /\
    (i_status y = ST_CH -> now < i_ts y + pr_pp (s_prm s)).
Proof. exact end_block_resolved_on_time. Qed.
Print Assumptions C07_resolved_on_time.

(* The block end itself cannot fail as long as the threshold product is in LegacyDec range and the
   tally verdict (C09) is defined; it never returns an error. *)
Theorem C07_block_end_total : forall vd now s b,
  (forall x, In x (s_items s) -> i_status x = ST_CP -> in_range (pr_thr (s_prm s) * i_n x) = true) ->
  (forall x pi, vd x pi <> None) ->
  exists s' b', end_block repaired vd now s b = Ok (s', b').
Proof. exact end_block_total. Qed.
Print Assumptions C07_block_end_total.

(* Well-formedness is invariant along every history of operations (at any block times, succeeding
   or failing) and validated parameter changes. *)
Theorem C07_wf_along_histories : forall h st, valid_hist h -> wf (fst st) -> wf (fst (hrun h st)).
Proof. exact hrun_wf. Qed.
Print Assumptions C07_wf_along_histories.

(* Verified and rejected items never change again, whatever the interleaving: after any history the
   very same record is still stored, or it was pruned at some block end whose time was not before
   the end of its retention period (as the parameters stood at that block end). *)
Theorem C07_terminal_is_final : forall h st x,
  wf (fst st) -> valid_hist h -> In x (s_items (fst st)) -> (i_status x = ST_VER \/ i_status x = ST_REJ) ->
  In x (s_items (fst (hrun h st))) \/
  exists h1 now h2, h = h1 ++ HOp OEndBlock now :: h2 /\
    In x (s_items (fst (hrun h1 st))) /\
    i_ts x + retention_of (s_prm (fst (hrun h1 st))) (i_status x) <= now.
Proof. exact terminal_is_final. Qed.
Print Assumptions C07_terminal_is_final.

(* Refuted for the code as found (DESIGN 7 #13): both sides of the expiry test are truncated to
   seconds independently, so an item published at 10.9 s with a 10 s challenge period is verified
   at the block end at 20.1 s, 0.8 s before its deadline.  Reproduced on the real code (corpus
   "early-expiry"); repaired by notes/patches/C07-exact-deadlines.patch. *)
Theorem C07_legacy_not_before_deadline_refuted :
  w_now < i_ts w_item + pr_cp w_prm /\
  status_after (end_block legacy (code_verdict legacy (pr_rf w_prm)) w_now w_state w_bank) 1 = Some ST_VER.
Proof. exact legacy_expires_early. Qed.
Print Assumptions C07_legacy_not_before_deadline_refuted.
Theorem C07_regression_waits_for_deadline :
  status_after (end_block repaired (code_verdict repaired (pr_rf w_prm)) w_now w_state w_bank) 1 = Some ST_CP /\
  status_after (end_block repaired (code_verdict repaired (pr_rf w_prm)) (i_ts w_item + pr_cp w_prm) w_state w_bank) 1 = Some ST_VER.
Proof. exact repaired_waits_for_deadline. Qed.
Print Assumptions C07_regression_waits_for_deadline.

(* "Distinct disputed shards reach the threshold" holds off the trigger of finding C07-F1: when
   every recorded index of the item names one of its shards, the code's test ([reach_prop], used in
   C07_block_end_fate) is exactly threshold * shards <= #distinct disputed shards. *)
Theorem C07_threshold_counts_shards_off_trigger : forall p x invs,
  has_phantom x invs = false ->
  (reach_prop p x invs <-> threshold_reached p x invs = true).
Proof. exact reach_is_threshold_on_shards. Qed.
Print Assumptions C07_threshold_counts_shards_off_trigger.

(* Known finding C07-F1 (DESIGN 7 #14), refutation on the faithful model of the current code:
   SubmitInvalidity has no range check, so indices [100,101,102,-1] on a 10-shard item are accepted
   and counted: the item becomes challenging without a single disputed shard.  Reproduced on the
   real code (corpus "index-range"). *)
Theorem C07_disputed_shards_refuted :
  match step repaired (OInval 5 1 w_phantom) 11000000000 w_state w_bank with
  | Ok (s1, b1) =>
      status_after (end_block repaired (code_verdict repaired (pr_rf w_prm)) 12000000000 s1 b1) 1 = Some ST_CH /\
      filter (idx_in_range (i_n w_item)) (disputed 1 (s_invs s1)) = []
  | _ => False
  end.
Proof. exact repaired_phantom_shards. Qed.
Print Assumptions C07_disputed_shards_refuted.
(* the same witness as two observed steps: the trigger fires on both, monitor 6 fails on the
   message, monitor 3 on the block end *)
Theorem C07_finding_1_phantom_shards :
  match apply_step repaired (OInval 5 1 w_phantom) 11000000000 w_state (bank_of w_rows) with
  | (s1, b1, r1) =>
      let c1 := Case w_state w_rows (OInval 5 1 w_phantom) 11000000000 r1 s1 (view w_rows b1) in
      r1 = 0 /\ trig_phantom_shards c1 = true /\ mon_real_shards c1 = false /\
      match apply_step repaired OEndBlock 12000000000 s1 b1 with
      | (s2, b2, r2) =>
          let c2 := Case s1 (view w_rows b1) OEndBlock 12000000000 r2 s2 (view w_rows b2) in
          r2 = 0 /\ trig_phantom_shards c2 = true /\ mon_on_time c2 = false /\
          status_after (Ok (s2, b2)) 1 = Some ST_CH
      end
  end.
Proof. exact finding_phantom_shards. Qed.
Print Assumptions C07_finding_1_phantom_shards.
(* the unapplied repair (notes/patches/C07-shard-index-range.patch): only shards are accepted *)
Theorem C07_range_check_accepts_only_shards : forall sender uri idx now s b s' b',
  step with_range_check (OInval sender uri idx) now s b = Ok (s', b') ->
  exists it, find_item uri (s_items s) = Some it /\ Forall (fun i => 0 <= i < i_n it) idx.
Proof. exact inval_accepted_with_range_check. Qed.
Print Assumptions C07_range_check_accepts_only_shards.
Theorem C07_range_check_rejects_phantom_shards :
  step with_range_check (OInval 5 1 w_phantom) 11000000000 w_state w_bank = Err E_BAD_IDX.
Proof. exact range_check_rejects_phantom_shards. Qed.
Print Assumptions C07_range_check_rejects_phantom_shards.

(* non-vacuity: a concrete well-formed state with a positive proof period on which the block end
   succeeds and performs a transition exactly at the deadline *)
Example C07_nonvacuous :
  wf w_state /\ 0 < pr_pp (s_prm w_state) /\
  exists s' b', end_block repaired (code_verdict repaired (pr_rf w_prm)) (i_ts w_item + pr_cp w_prm) w_state w_bank = Ok (s', b') /\
                s_items s' = [set_status w_item ST_VER (i_ts w_item + pr_cp w_prm)].
Proof.
  split; [exact w_state_wf|]. split; [reflexivity|].
  destruct (end_block repaired (code_verdict repaired (pr_rf w_prm)) (i_ts w_item + pr_cp w_prm) w_state w_bank)
    as [[s' b']| |] eqn:E.
  - exists s', b'. split; [reflexivity|].
    assert (H : match end_block repaired (code_verdict repaired (pr_rf w_prm)) (i_ts w_item + pr_cp w_prm) w_state w_bank with
                | Ok (s0, _) => s_items s0 | _ => [] end = [set_status w_item ST_VER (i_ts w_item + pr_cp w_prm)])
      by (vm_compute; reflexivity).
    rewrite E in H. exact H.
  - exfalso. assert (H : is_ok (end_block repaired (code_verdict repaired (pr_rf w_prm)) (i_ts w_item + pr_cp w_prm) w_state w_bank) = true)
      by (vm_compute; reflexivity). rewrite E in H. discriminate.
  - exfalso. assert (H : is_ok (end_block repaired (code_verdict repaired (pr_rf w_prm)) (i_ts w_item + pr_cp w_prm) w_state w_bank) = true)
      by (vm_compute; reflexivity). rewrite E in H. discriminate.
Qed.
