(* Executable model of the proof checks of x/da/keeper/msg_server_submit_validity_proof.go
   (from "check number of proofs <> indices" to the end of the verification loop), over two
   oracles read from the running application:
     parse p     : proof.ReadFrom(msg.Proofs[i]) succeeds
     verify p h  : groth16.Verify(proof, vk, public witness {ShardDoubleHash: h}) == nil
   Everything before (addresses, bonded validator, deputy, data found, status, proof period)
   belongs to the DA state machine (C07) and is set up by the harness so that it passes.
   [neg_guard] selects the repaired code (negative index rejected with
   ErrProofIndicesOverflow, notes/patches/C20-negative-proof-index.patch) or the code as it
   is (negative index -> run-time panic on ShardDoubleHashes[j]).  No proofs in this file. *)
From Coq Require Import ZArith List Bool.
From Sunrise Require Import Base.Outcome.
Import ListNotations.
Local Open Scope Z_scope.

Definition E_MISMATCH : Z := 11.   (* ErrIndicesAndProofsMismatch *)
Definition E_PARSE : Z := 12.      (* proof bytes do not unmarshal *)
Definition E_OVERFLOW : Z := 13.   (* ErrProofIndicesOverflow *)
Definition E_VERIFY : Z := 14.     (* groth16.Verify returned an error *)

Section Handler.
Variables P H : Type.
Variable parse : P -> bool.
Variable verify : P -> H -> bool.
Variable neg_guard : bool.

(* for i, j := range msg.Indices { ... } *)
Fixpoint check_proofs (indices : list Z) (proofs : list P) (hashes : list H) : res unit :=
  match indices with
  | [] => Ok tt
  | j :: is' =>
      match proofs with
      | [] => Panic                                   (* msg.Proofs[i]: excluded by the length check *)
      | p :: ps' =>
          if negb (parse p) then Err E_PARSE
          else if Z.of_nat (length hashes) <=? j then Err E_OVERFLOW
          else if j <? 0 then (if neg_guard then Err E_OVERFLOW else Panic)
          else match nth_error hashes (Z.to_nat j) with
               | None => Panic
               | Some h => if verify p h then check_proofs is' ps' hashes else Err E_VERIFY
               end
      end
  end.

Definition submit_checks (indices : list Z) (proofs : list P) (hashes : list H) : res unit :=
  if Nat.eqb (length indices) (length proofs) then check_proofs indices proofs hashes
  else Err E_MISMATCH.

(* the acceptance condition of the property: every (proof_i, hash[index_i]) pair is in range,
   unmarshals and verifies *)
Fixpoint all_pairs_verify (indices : list Z) (proofs : list P) (hashes : list H) : Prop :=
  match indices, proofs with
  | [], [] => True
  | j :: is', p :: ps' =>
      (parse p = true /\ 0 <= j < Z.of_nat (length hashes) /\
       exists h, nth_error hashes (Z.to_nat j) = Some h /\ verify p h = true) /\
      all_pairs_verify is' ps' hashes
  | _, _ => False
  end.

End Handler.
