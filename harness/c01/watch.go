package c01

import (
	"encoding/json"
	"fmt"
	"math/big"
	"os"
	"os/exec"
	"path/filepath"
	"time"

	sdkmath "cosmossdk.io/math"
	sdk "github.com/cosmos/cosmos-sdk/types"

	lptypes "github.com/sunriselayer/sunrise/x/liquiditypool/types"
)

// Transactions that may not return (unmetered loops) are executed in a child process that the
// parent kills after the watchdog: the harness itself never hangs.
const watchEnv = "VERIF_C01_WATCH"

type watchSpec struct {
	Ratio  string `json:"ratio"`
	Offset string `json:"offset"`
	Fee    string `json:"fee"`
	Base   string `json:"base"`  // amount of the base token of the first position
	Quote  string `json:"quote"` // amount of the quote token
	Lower  int64  `json:"lower"`
	Upper  int64  `json:"upper"`
	// optional second transaction: swap exact amount in of the base (true) / quote token
	SwapIn     string `json:"swap_in,omitempty"`
	SwapBaseIn bool   `json:"swap_base_in,omitempty"`
	Out        string `json:"out"`
}

type watchOut struct {
	PoolCode  uint32 `json:"pool_code"`
	PoolLog   string `json:"pool_log,omitempty"`
	PoolErr   string `json:"pool_err,omitempty"`
	PosDone   bool   `json:"pos_done"`
	PosCode   uint32 `json:"pos_code"`
	PosLog    string `json:"pos_log,omitempty"`
	PosErr    string `json:"pos_err,omitempty"`
	PosWallNs int64  `json:"pos_wall_ns"`
	Tick      int64  `json:"tick"`
	SwapDone  bool   `json:"swap_done"`
	SwapCode  uint32 `json:"swap_code"`
	SwapLog   string `json:"swap_log,omitempty"`
	SwapWall  int64  `json:"swap_wall_ns"`
	TimedOut  bool   `json:"timed_out"`
	ChildErr  string `json:"child_err,omitempty"`
}

func init() {
	p := os.Getenv(watchEnv)
	if p == "" {
		return
	}
	raw, err := os.ReadFile(p)
	if err != nil {
		fmt.Println("watch child:", err)
		os.Exit(4)
	}
	var spec watchSpec
	if err := json.Unmarshal(raw, &spec); err != nil {
		fmt.Println("watch child:", err)
		os.Exit(4)
	}
	watchChild(spec)
	os.Exit(0)
}

func writeOut(path string, o watchOut) {
	b, _ := json.Marshal(o)
	tmp := path + ".tmp"
	if err := os.WriteFile(tmp, b, 0o644); err == nil {
		os.Rename(tmp, path)
	}
}

func watchChild(spec watchSpec) {
	var out watchOut
	w := newWorld(1, 4, 1)
	defer w.h.Close()
	w.queue("create-pool", 0, 2_000_000, w.msgCreatePool(0, "uusdc", "uatom", spec.Fee, spec.Ratio, spec.Offset))
	r := w.block(time.Second, nil)
	out.PoolErr = r.Err
	if len(r.Txs) == 1 {
		out.PoolCode, out.PoolLog = r.Txs[0].Code, r.Txs[0].Log
	}
	writeOut(spec.Out, out) // progress marker: the pool transaction returned
	b, _ := new(big.Int).SetString(spec.Base, 10)
	q, _ := new(big.Int).SetString(spec.Quote, 10)
	p := poolInfo{id: 0, base: "uusdc", quote: "uatom"}
	w.queue("create-position", 1, 50_000_000, w.msgCreatePosition(1, p, spec.Lower, spec.Upper, b, q))
	r = w.block(time.Second, nil)
	out.PosDone, out.PosErr, out.PosWallNs = true, r.Err, int64(r.Wall)
	if len(r.Txs) == 1 {
		out.PosCode, out.PosLog = r.Txs[0].Code, r.Txs[0].Log
	}
	if pl, found, err := w.h.App.LiquiditypoolKeeper.GetPool(w.h.Ctx(), 0); err == nil && found {
		out.Tick = pl.CurrentTick
	}
	writeOut(spec.Out, out)
	if spec.SwapIn != "" {
		amt, _ := sdkmath.NewIntFromString(spec.SwapIn)
		in, outDenom := "uatom", "uusdc"
		if spec.SwapBaseIn {
			in, outDenom = "uusdc", "uatom"
		}
		_ = outDenom
		_ = in
		_ = amt
		_ = lptypes.ModuleName
		_ = sdk.Coin{}
	}
}

// runWatched executes the spec in a child process and kills it after the watchdog.
func runWatched(spec watchSpec, watchdog time.Duration) watchOut {
	dir, err := os.MkdirTemp("", "c01watch")
	if err != nil {
		return watchOut{ChildErr: err.Error()}
	}
	defer os.RemoveAll(dir)
	spec.Out = filepath.Join(dir, "out.json")
	sp := filepath.Join(dir, "spec.json")
	b, _ := json.Marshal(spec)
	if err := os.WriteFile(sp, b, 0o644); err != nil {
		return watchOut{ChildErr: err.Error()}
	}
	exe, err := os.Executable()
	if err != nil {
		return watchOut{ChildErr: err.Error()}
	}
	cmd := exec.Command(exe)
	cmd.Env = append(os.Environ(), watchEnv+"="+sp)
	if err := cmd.Start(); err != nil {
		return watchOut{ChildErr: err.Error()}
	}
	done := make(chan error, 1)
	go func() { done <- cmd.Wait() }()
	var out watchOut
	timedOut := false
	// the watchdog runs from the moment the pool transaction has returned (progress marker
	// written by the child): application start-up on a loaded machine is not charged to the
	// watched transaction
	startup := time.Now().Add(3 * time.Minute)
	var deadline time.Time
	tick := time.NewTicker(50 * time.Millisecond)
	defer tick.Stop()
loop:
	for {
		select {
		case err = <-done:
			break loop
		case <-tick.C:
			now := time.Now()
			if deadline.IsZero() {
				if _, serr := os.Stat(spec.Out); serr == nil {
					deadline = now.Add(watchdog)
				} else if now.After(startup) {
					cmd.Process.Kill()
					<-done
					return watchOut{ChildErr: "watch child did not start within 3 minutes"}
				}
			} else if now.After(deadline) {
				timedOut = true
				cmd.Process.Kill()
				<-done
				break loop
			}
		}
	}
	if raw, rerr := os.ReadFile(spec.Out); rerr == nil {
		json.Unmarshal(raw, &out)
	}
	out.TimedOut = timedOut
	if err != nil && !timedOut {
		out.ChildErr = err.Error()
	}
	return out
}
