(* Correspondence + monitors for C08 (DA collateral conservation). Monitors read only the
   observed projections (x/da state and real bank balances before and after the step). *)
From Coq Require Import ZArith List Bool.
Import ListNotations.
From Sunrise Require Export Base.Outcome Base.Dec Base.Bank Base.Check Da.Da Da.Collateral.
Local Open Scope Z_scope.

Definition n_denoms (rows : list (list Z)) : nat := length (nth 0 rows []).
Definition nat_range (k : nat) : list Z := zrange k 0.

(* number of challengers of the items that went to REJECTED in this step, minus one each:
   the most division dust the rule allows per denom *)
Definition dust_bound (pre post : dstate) : Z :=
  fold_right (fun x acc =>
    match find_item (i_uri x) (s_items post) with
    | Some y => if unresolved x && (i_status y =? ST_REJ)
                then Z.max 0 (n_invs (i_uri x) (s_invs pre) - 1) + acc else acc
    | None => acc
    end) 0 (s_items pre).

(* 1. the module account holds exactly the open collateral, plus division dust: a message leaves
   the excess unchanged, a block end adds at most (#challengers - 1) per rejected item and denom *)
Definition mon_module_holds_open (c : da_case) : bool :=
  let '(Case pre preb o now r post postb) := c in
  forallb (fun d =>
    let dust := excess d post (bank_of postb) - excess d pre (bank_of preb) in
    if is_msg o then dust =? 0
    else (0 <=? dust) && (dust <=? dust_bound pre post)) (nat_range (n_denoms preb)).

(* 2. every account's balance moves exactly by the documented rule: collateral taken on an
   accepted publish / challenge, payouts of the items resolved at a block end *)
Definition expected_delta (d : Z) (c : da_case) (a : Z) : Z :=
  let '(Case pre preb o now r post postb) := c in
  match o with
  | OEndBlock =>
      if r =? 0 then
        fold_right (fun x acc =>
          match find_item (i_uri x) (s_items post) with
          | Some y => if unresolved x
                      then payout_spec d (code_verdict repaired (pr_rf (s_prm pre))) pre x (i_status y) a + acc
                      else acc
          | None => acc
          end) 0 (s_items pre)
      else 0
  | OPublish sender uri n parity =>
      if (r =? 0) && (a =? sender) then - amt d (pr_pc (s_prm pre)) else 0
  | OInval sender uri idx =>
      if (r =? 0) && (a =? sender) then
        match find_item uri (s_items pre) with Some it => - amt d (i_ic it) | None => 0 end
      else 0
  | _ => 0
  end.
Definition mon_payouts (c : da_case) : bool :=
  let '(Case pre preb o now r post postb) := c in
  forallb (fun d =>
    forallb (fun a =>
      bal (bank_of postb) a d - bal (bank_of preb) a d =? expected_delta d c a)
      (zrange (length preb - 1) 1)) (nat_range (n_denoms preb)).

(* 3. nobody is left with a charge that can never be returned: no step turns the record of a
   paid challenge into an orphan (record still stored, its item resolved or gone) *)
Definition mon_no_new_orphan (c : da_case) : bool :=
  let '(Case pre preb o now r post postb) := c in
  forallb (fun v =>
    match find_item (v_uri v) (s_items pre) with
    | Some x => if unresolved x && all_positive (i_ic x) && has_inv (v_uri v) (v_sender v) (s_invs pre)
                then negb (orphan (s_items post) v) else true
    | None => true
    end) (s_invs post).

(* 4. nothing is created or destroyed: the tracked balances sum to the same total per denom *)
Definition total (d : Z) (rows : list (list Z)) : Z := fold_right (fun row acc => amt d row + acc) 0 rows.
Definition mon_conserved (c : da_case) : bool :=
  let '(Case pre preb o now r post postb) := c in
  forallb (fun d => total d preb =? total d postb) (nat_range (n_denoms preb)).

Definition c08_trig (k : Z) (c : da_case) : bool :=
  let '(Case pre preb o now r post postb) := c in
  match o with
  | OEndBlock => if k =? 1 then trig_stuck_challengers pre now
                 else trig_reject_no_challenger (code_verdict repaired (pr_rf (s_prm pre))) pre now
  | _ => false
  end.

(* 5. record stores: the invalidity records and the proofs of an item are deleted when it is tallied
   ("challenge records deleted after tally"), and proofs are stored for challenging items only *)
Definition mon_records_deleted (c : da_case) : bool :=
  let '(Case pre preb o now r post postb) := c in
  if is_msg o || negb (r =? 0) then true else
  forallb (fun x =>
    if i_status x =? ST_CH then
      match find_item (i_uri x) (s_items post) with
      | Some y => if i_status y =? ST_CH then true
                  else negb (existsb (fun v => v_uri v =? i_uri x) (s_invs post)) &&
                       negb (existsb (fun q => p_uri q =? i_uri x) (s_prfs post))
      | None => negb (existsb (fun v => v_uri v =? i_uri x) (s_invs post)) &&
                negb (existsb (fun q => p_uri q =? i_uri x) (s_prfs post))
      end
    else true) (s_items pre)
  &&
  forallb (fun q => match find_item (p_uri q) (s_items post) with
                    | Some y => i_status y =? ST_CH
                    | None => false
                    end) (s_prfs post).

(* ---------- conservation over the history ----------
   A C08 case carries a ghost ledger: for every unresolved item, what was actually deposited for it
   so far (the module account's observed gain on the accepted publish and on every accepted
   challenge), kept by the harness independently of the record stores.
   1h. at a block end the module account loses exactly the deposits of the items resolved in it, minus
       division dust (same bound as monitor 1);
   6.  what the state records for an unresolved item (its frozen publish collateral + one frozen
       invalidity collateral per stored record) is what was deposited for it. *)
Inductive c08_case :=
| GCase (ghost : list (Z * list Z)) (c : da_case)
(* collateral lists (denom id, amount) as written, offered to the real MsgUpdateParams, and whether
   it accepted them *)
| PCase (pc ic : list (Z * Z)) (accepted : bool).

(* sdk.Coins.IsValid: strictly ascending denoms (no duplicates), every amount positive; the empty
   list is valid.  Only such lists can be parameters: the handlers charge under IsAllPositive and the
   end blocker pays with Coins.Add, which agree on valid lists only. *)
Fixpoint coins_valid_from (last : option Z) (l : list (Z * Z)) : bool :=
  match l with
  | [] => true
  | (d, a) :: l' => (0 <? a) && (match last with Some d0 => d0 <? d | None => true end) &&
                    coins_valid_from (Some d) l'
  end.
Definition coins_valid (l : list (Z * Z)) : bool := coins_valid_from None l.

Fixpoint dep_of (u : Z) (g : list (Z * list Z)) : option (list Z) :=
  match g with
  | [] => None
  | (u', v) :: g' => if u' =? u then Some v else dep_of u g'
  end.

Definition mon_history_conserved (g : list (Z * list Z)) (c : da_case) : bool :=
  let '(Case pre preb o now r post postb) := c in
  if is_msg o || negb (r =? 0) then true else
  forallb (fun d =>
    let paid := fold_right (fun x acc =>
                  let resolved_now := unresolved x &&
                                      match find_item (i_uri x) (s_items post) with
                                      | Some y => negb (unresolved y) | None => true end in
                  (if resolved_now then match dep_of (i_uri x) g with Some v => amt d v | None => 0 end else 0) + acc)
                  0 (s_items pre) in
    let dust := bal (bank_of postb) MODULE d - bal (bank_of preb) MODULE d + paid in
    (0 <=? dust) && (dust <=? dust_bound pre post)) (nat_range (n_denoms preb)).

Definition mon_recorded_is_deposited (g : list (Z * list Z)) (c : da_case) : bool :=
  let '(Case pre preb o now r post postb) := c in
  forallb (fun d =>
    forallb (fun x =>
      if unresolved x then
        match dep_of (i_uri x) g with
        | Some v => posted d (s_invs pre) x =? amt d v
        | None => false
        end
      else true) (s_items pre)) (nat_range (n_denoms preb)).

Definition c08_check (h : c08_case) : list Z :=
  match h with
  | GCase g c =>
      flag 0 (corr_state c && corr_bank c) ++
      flag 1 (mon_module_holds_open c && mon_history_conserved g c) ++ flag 2 (mon_payouts c) ++
      flag 3 (mon_no_new_orphan c) ++ flag 4 (mon_conserved c) ++ flag 5 (mon_records_deleted c) ++
      flag 6 (mon_recorded_is_deposited g c) ++
      flag 101 (negb (c08_trig 1 c)) ++ flag 102 (negb (c08_trig 2 c))
  | PCase pc ic accepted =>
      (* the real parameter validation accepts exactly the valid collateral lists *)
      flag 0 (Bool.eqb accepted (coins_valid pc && coins_valid ic))
  end.

Definition run := run_cases c08_check.
