(* Theorems about gauge voting, epochs and the emission split (C17). *)
From Coq Require Import ZArith Bool List Lia ZifyBool.
Import ListNotations.
From Sunrise Require Import Base.Outcome Base.Dec Base.DecLemmas Stake.TallyCore Stake.TallyCoreProofs Stake.Gauge.
Local Open Scope Z_scope.
Local Open Scope res_scope.
Ltac Zify.zify_post_hook ::= Z.div_mod_to_equations.


(* ==========================================================================================
   MsgVoteGauge: weights_le_one, votes_persist
   ========================================================================================== *)
Lemma sum_weights_ok ws : forall acc t, acc <= P -> sum_weights ws acc = Ok t ->
  Forall (fun kv => 0 <= snd kv) (weights_of ws) /\ t = acc + wsum (weights_of ws) /\ t <= P.
Proof.
  induction ws as [|[p [w|]] tl IH]; intros acc t Hacc H; cbn in H.
  - injection H as <-. split; [constructor|]. split; [cbn; lia|exact Hacc].
  - destruct (Z.ltb_spec w 0); [discriminate|].
    destruct (Z.ltb_spec P w); [discriminate|].
    destruct (dadd acc w) as [a|] eqn:E; [|discriminate].
    apply dadd_some in E. subst a.
    destruct (Z.ltb_spec P (acc + w)) as [Hgt|Hle]; [discriminate|].
    destruct (IH _ _ Hle H) as (Hf & -> & Ht).
    split; [constructor; [cbn; lia|exact Hf]|].
    change (wsum (weights_of ((p, Some w) :: tl))) with (w + wsum (weights_of tl)). split; lia.
  - discriminate.
Qed.

Lemma vget_vset_same a w s : vget a (vset a w s) = Some w.
Proof.
  induction s as [|[a' w'] tl IH]; cbn.
  - rewrite Z.eqb_refl. reflexivity.
  - destruct (Z.eqb_spec a a') as [->|ne]; cbn; [rewrite Z.eqb_refl; reflexivity|].
    destruct (Z.ltb_spec a a'); cbn.
    + rewrite Z.eqb_refl. reflexivity.
    + destruct (Z.eqb_spec a a'); [contradiction|exact IH].
Qed.
Lemma vget_vset_other a b w s : b <> a -> vget b (vset a w s) = vget b s.
Proof.
  intros Hne. induction s as [|[a' w'] tl IH]; cbn.
  - destruct (Z.eqb_spec b a); [contradiction|reflexivity].
  - destruct (Z.eqb_spec a a') as [->|ne]; cbn.
    + destruct (Z.eqb_spec b a'); [contradiction|reflexivity].
    + destruct (Z.ltb_spec a a'); cbn.
      * destruct (Z.eqb_spec b a); [contradiction|reflexivity].
      * destruct (Z.eqb_spec b a'); [reflexivity|exact IH].
Qed.

(* an accepted vote: what is stored for the sender, and that it is well formed *)
Theorem weights_le_one ok pools s a ws s' :
  vote_gauge ok pools s a ws = Ok s' ->
  vget a s' = Some (weights_of ws) /\ wok (weights_of ws) /\
  (forall b, b <> a -> vget b s' = vget b s).
Proof.
  unfold vote_gauge. destruct ok; cbn; [|discriminate].
  destruct (sum_weights ws 0) as [t| |] eqn:E; cbn; try discriminate.
  destruct (forallb _ ws); [|discriminate]. intros Hv. injection Hv as <-.
  assert (H0 : 0 <= P) by (unfold P; lia).
  destruct (sum_weights_ok _ _ _ H0 E) as (Hf & -> & Ht).
  split; [apply vget_vset_same|]. split; [split; [exact Hf|lia]|].
  intros b Hb. apply vget_vset_other. exact Hb.
Qed.

(* histories of vote messages; a rejected message is a failed transaction: no change *)
Record vote_op := { vo_ok : bool; vo_pools : list Z; vo_sender : Z; vo_ws : list (Z * option Z) }.
Definition vote_step (s : vstore) (o : vote_op) : vstore :=
  match vote_gauge (vo_ok o) (vo_pools o) s (vo_sender o) (vo_ws o) with Ok s' => s' | _ => s end.
Definition run_votes (ops : list vote_op) (s : vstore) : vstore := fold_left vote_step ops s.

(* acceptance does not depend on the store *)
Definition accepted (o : vote_op) : bool :=
  match vote_gauge (vo_ok o) (vo_pools o) [] (vo_sender o) (vo_ws o) with Ok _ => true | _ => false end.
Lemma accepted_any_store o s :
  match vote_gauge (vo_ok o) (vo_pools o) s (vo_sender o) (vo_ws o) with Ok _ => true | _ => false end = accepted o.
Proof.
  unfold accepted, vote_gauge. destruct (vo_ok o); cbn; [|reflexivity].
  destruct (sum_weights (vo_ws o) 0); cbn; try reflexivity.
  destruct (forallb _ (vo_ws o)); reflexivity.
Qed.

(* the vote stored for [a] after a history = the last accepted vote of [a] in it, else what was there *)
Definition last_vote (a : Z) (ops : list vote_op) (init : option (list (Z * Z))) : option (list (Z * Z)) :=
  fold_left (fun cur o => if accepted o && (vo_sender o =? a) then Some (weights_of (vo_ws o)) else cur) ops init.

Theorem votes_persist a ops : forall s, vget a (run_votes ops s) = last_vote a ops (vget a s).
Proof.
  induction ops as [|o tl IH]; intros s; [reflexivity|].
  change (run_votes (o :: tl) s) with (run_votes tl (vote_step s o)).
  change (last_vote a (o :: tl) (vget a s)) with
    (last_vote a tl (if accepted o && (vo_sender o =? a) then Some (weights_of (vo_ws o)) else vget a s)).
  rewrite IH. f_equal.
  unfold vote_step. pose proof (accepted_any_store o s) as Ha.
  destruct (vote_gauge (vo_ok o) (vo_pools o) s (vo_sender o) (vo_ws o)) as [s'| |] eqn:E;
    rewrite <- Ha; cbn [andb]; try reflexivity.
  destruct (weights_le_one _ _ _ _ _ _ E) as (Hs & _ & Ho).
  destruct (Z.eqb_spec (vo_sender o) a) as [<-|ne]; [exact Hs|]. apply Ho. congruence.
Qed.

Definition store_ok (s : vstore) : Prop := forall a w, vget a s = Some w -> wok w.
Theorem weights_le_one_always ops : forall s, store_ok s -> store_ok (run_votes ops s).
Proof.
  induction ops as [|o tl IH]; intros s Hs; cbn; [exact Hs|].
  apply IH. unfold vote_step.
  destruct (vote_gauge (vo_ok o) (vo_pools o) s (vo_sender o) (vo_ws o)) as [s'| |] eqn:E; try exact Hs.
  destruct (weights_le_one _ _ _ _ _ _ E) as (Hg & Hw & Ho).
  intros b w Hb. destruct (Z.eq_dec b (vo_sender o)) as [->|ne].
  - rewrite Hg in Hb. injection Hb as <-. exact Hw.
  - rewrite (Ho _ ne) in Hb. eapply Hs; eauto.
Qed.

(* ==========================================================================================
   Emission split
   ========================================================================================== *)
(* pure values: weight = Quo(count, total) rounded half-even; allocation = floor(balance * weight) *)
Definition pweight (c C : Z) : Z := chop_round (Z.quot (c * P * (P * P)) (C * P)).
Definition palloc (b c C : Z) : Z := (b * pweight c C) / P.
Definition count_sum (gs : list gauge) : Z := fold_right (fun g a => g_count g + a) 0 gs.

Lemma pweight_nonneg c C : 0 <= c -> 0 < C -> 0 <= pweight c C.
Proof.
  intros. unfold pweight. apply chop_round_nonneg. apply Z.quot_pos; unfold P; nia.
Qed.

Lemma pweight_upper c C : 0 <= c -> 0 < C -> 2 * C * pweight c C <= 2 * c * P + C.
Proof.
  intros Hc HC. unfold pweight.
  set (n := c * P * (P * P)). assert (Hn : 0 <= n) by (unfold n, P; nia).
  assert (HCP : 0 < C * P) by (unfold P; lia).
  rewrite Z.quot_div_nonneg by lia.
  pose proof (chop_round_bracket (n / (C * P))) as Hb.
  pose proof (Z.mul_div_le n (C * P) HCP) as Hq.
  set (q := n / (C * P)) in *. set (w := chop_round q) in *.
  (* w P <= q + HALF ; C P q <= n = c P^3 *)
  assert (H1 : C * q <= c * (P * P)).
  { apply Z.mul_le_mono_pos_r with (p := P); [reflexivity|]. unfold n in Hq. nia. }
  assert (H2 : P * (2 * C * w) <= P * (2 * c * P + C)).
  { assert (w * P * C <= (q + HALF) * C) by (apply Z.mul_le_mono_nonneg_r; lia).
    rewrite P_val in *. nia. }
  apply Z.mul_le_mono_pos_l in H2; [exact H2|reflexivity].
Qed.

Lemma pweight_lower c C : 0 <= c -> 0 < C -> 2 * c * P * P < 2 * C * P * pweight c C + 2 * C + P * C.
Proof.
  intros Hc HC. unfold pweight.
  set (n := c * P * (P * P)). assert (Hn : 0 <= n) by (unfold n, P; nia).
  assert (HCP : 0 < C * P) by (unfold P; lia).
  rewrite Z.quot_div_nonneg by lia.
  pose proof (chop_round_bracket (n / (C * P))) as Hb.
  pose proof (Z.mul_succ_div_gt n (C * P) HCP) as Hq.
  set (q := n / (C * P)) in *. set (w := chop_round q) in *.
  (* n < C P (q + 1)  ->  c P^2 < C (q + 1) ; q - HALF <= w P *)
  assert (H1 : c * (P * P) < C * (q + 1)).
  { apply Z.mul_lt_mono_pos_r with (p := P); [reflexivity|]. unfold n in Hq. nia. }
  assert (H2 : (q - HALF) * C <= w * P * C) by (apply Z.mul_le_mono_nonneg_r; lia).
  rewrite P_val in *. nia.
Qed.

Lemma alloc_of_some b C c a : 0 <= b -> 0 <= c -> 0 < C ->
  alloc_of b (C * P) c = Some a -> a = palloc b c C.
Proof.
  intros Hb Hc HC H. unfold alloc_of in H.
  destruct (dquo (c * P) (C * P)) as [w|] eqn:E; cbn [obind] in H; [|discriminate].
  apply dquo_some in E. destruct E as [_ Ew].
  assert (Hw : w = pweight c C) by (subst w; reflexivity).
  pose proof (pweight_nonneg c C Hc HC) as Hw0. rewrite <- Hw in Hw0.
  unfold palloc. rewrite <- Hw.
  destruct (Z.eqb_spec w 0) as [->|Hwz]; cbn [orb] in H.
  - injection H as <-. rewrite Z.mul_0_r. reflexivity.
  - destruct (Z.eqb_spec b 0) as [->|Hbz]; cbn [orb] in H.
    + injection H as <-. reflexivity.
    + destruct (dmulT (b * P) w) as [m|] eqn:Em; cbn [obind] in H; [|discriminate].
      injection H as <-. unfold dmulT in Em. apply chk_some in Em. destruct Em as [-> _].
      unfold dtrunc_int, chop_trunc.
      replace (b * P * w) with (b * w * P) by ring.
      rewrite Z.quot_mul by (unfold P; lia).
      rewrite Z.quot_div_nonneg; [reflexivity|nia|reflexivity].
Qed.

Lemma total_count_some gs : forall acc t, total_count gs acc = Some t -> t = acc + count_sum gs * P.
Proof.
  induction gs as [|g tl IH]; intros acc t H; cbn in H.
  - injection H as <-. cbn. lia.
  - destruct (dadd acc (g_count g * P)) as [a|] eqn:E; cbn [obind] in H; [|discriminate].
    apply dadd_some in E. subst a. rewrite (IH _ _ H).
    change (count_sum (g :: tl)) with (g_count g + count_sum tl). rewrite Z.mul_add_distr_r. lia.
Qed.

Definition counts_nonneg (gs : list gauge) : Prop := Forall (fun g => 0 <= g_count g) gs.
Lemma count_sum_nonneg gs : counts_nonneg gs -> 0 <= count_sum gs.
Proof.
  induction 1 as [|g tl Hg Hn IH]; [cbn; lia|].
  change (count_sum (g :: tl)) with (g_count g + count_sum tl). lia.
Qed.
Lemma count_sum_pos gs total : counts_nonneg gs -> total_count gs 0 = Some total -> total <> 0 ->
  total = count_sum gs * P /\ 0 < count_sum gs.
Proof.
  intros Hn Ht Hnz. apply total_count_some in Ht. rewrite Z.add_0_l in Ht.
  pose proof (count_sum_nonneg gs Hn). split; [exact Ht|]. unfold P in *. lia.
Qed.

(* the allocations as the pure formula *)
Lemma allocs_some b C gs : forall l, 0 <= b -> 0 < C -> counts_nonneg gs ->
  allocs b (C * P) gs = Some l -> l = map (fun g => palloc b (g_count g) C) gs.
Proof.
  induction gs as [|g tl IH]; intros l Hb HC Hn H; cbn in H.
  - injection H as <-. reflexivity.
  - inversion Hn as [|? ? Hg Hn']; subst.
    destruct (alloc_of b (C * P) (g_count g)) as [a|] eqn:E; cbn [obind] in H; [|discriminate].
    destruct (allocs b (C * P) tl) as [r|] eqn:E2; cbn [obind] in H; [|discriminate].
    injection H as <-. cbn. f_equal; [apply alloc_of_some; assumption|apply IH; auto].
Qed.

Lemma palloc_bounds b c C : 0 <= b -> 0 <= c -> 0 < C ->
  0 <= palloc b c C /\
  2 * C * P * palloc b c C <= b * (2 * c * P + C) /\
  2 * P * P * b * c < 2 * C * P * P * (palloc b c C + 1) + C * b * (P + 2).
Proof.
  intros Hb Hc HC. unfold palloc.
  pose proof (pweight_nonneg c C Hc HC) as Hw0.
  pose proof (pweight_upper c C Hc HC) as Hu.
  pose proof (pweight_lower c C Hc HC) as Hl.
  set (w := pweight c C) in *.
  assert (HP : 0 < P) by reflexivity.
  pose proof (Z.mul_div_le (b * w) P HP) as Hlo.
  pose proof (Z.mul_succ_div_gt (b * w) P HP) as Hhi.
  set (a := b * w / P) in *.
  assert (Ha0 : 0 <= a) by (unfold a; apply Z.div_pos; nia).
  split; [exact Ha0|]. split.
  - (* 2 C (P a) <= 2 C b w = b (2 C w) <= b (2 c P + C) *)
    assert (2 * C * (P * a) <= 2 * C * (b * w)) by (apply Z.mul_le_mono_nonneg_l; lia).
    assert (b * (2 * C * w) <= b * (2 * c * P + C)) by (apply Z.mul_le_mono_nonneg_l; lia).
    nia.
  - (* b * Hl, and b w < P (a + 1) *)
    assert (H1 : b * (2 * c * P * P) <= b * (2 * C * P * w + 2 * C + P * C - 1)) by (apply Z.mul_le_mono_nonneg_l; lia).
    assert (H2 : 2 * C * P * (b * w) < 2 * C * P * (P * Z.succ a)) by (apply Z.mul_lt_mono_pos_l; [unfold P; lia|lia]).
    nia.
Qed.

Lemma palloc_bounds_all b C gs : 0 <= b -> 0 < C -> counts_nonneg gs ->
  Forall2 (fun g a => 0 <= a /\ 2 * C * P * a <= b * (2 * g_count g * P + C) /\
                      2 * P * P * b * g_count g < 2 * C * P * P * (a + 1) + C * b * (P + 2))
          gs (map (fun g => palloc b (g_count g) C) gs).
Proof.
  intros Hb HC Hn. induction Hn as [|g tl Hg Hn IH]; cbn; constructor; [|exact IH].
  apply palloc_bounds; assumption.
Qed.

(* each allocation is proportional to its count up to the rounding of the weight and the floor *)
Theorem allocation_proportional b total gs l :
  0 <= b -> counts_nonneg gs -> total_count gs 0 = Some total -> total <> 0 ->
  allocs b total gs = Some l ->
  let C := count_sum gs in
  Forall2 (fun g a => 0 <= a /\ 2 * C * P * a <= b * (2 * g_count g * P + C) /\
                      2 * P * P * b * g_count g < 2 * C * P * P * (a + 1) + C * b * (P + 2)) gs l.
Proof.
  intros Hb Hn Ht Hnz Hl C.
  destruct (count_sum_pos _ _ Hn Ht Hnz) as [Ht' HC]. fold C in Ht', HC. clear Ht. rename Ht' into Ht.
  subst total. apply allocs_some in Hl; try assumption. subst l.
  apply palloc_bounds_all; assumption.
Qed.

Lemma palloc_sum b C gs : 0 <= b -> 0 < C -> counts_nonneg gs ->
  2 * C * P * zsum (map (fun g => palloc b (g_count g) C) gs)
  <= b * (2 * P * count_sum gs + Z.of_nat (length gs) * C).
Proof.
  intros Hb HC Hn. induction Hn as [|g tl Hg Hn IH].
  - cbn. lia.
  - cbn [map zsum fold_right count_sum length]. fold (zsum (map (fun g => palloc b (g_count g) C) tl)).
    fold (count_sum tl). rewrite Nat2Z.inj_succ.
    destruct (palloc_bounds b (g_count g) C Hb Hg HC) as (_ & Hu & _). nia.
Qed.

(* the allocations never add up to more than the balance, as long as
   balance * number of gauges < 2 * 10^18 *)
Theorem allocation_le_available b total gs l :
  0 <= b -> counts_nonneg gs -> total_count gs 0 = Some total -> total <> 0 ->
  b * Z.of_nat (length gs) < 2 * P ->
  allocs b total gs = Some l -> zsum l <= b.
Proof.
  intros Hb Hn Ht Hnz Hsmall Hl.
  destruct (count_sum_pos _ _ Hn Ht Hnz) as [Ht' HC]. clear Ht. rename Ht' into Ht.
  set (C := count_sum gs) in *.
  subst total. apply allocs_some in Hl; try assumption. subst l.
  pose proof (palloc_sum b C gs Hb HC Hn) as Hs. fold C in Hs.
  set (S := zsum (map (fun g => palloc b (g_count g) C) gs)) in *.
  set (k := Z.of_nat (length gs)) in *.
  (* 2 C P S <= b C (2 P + k)  ->  2 P S <= b (2 P + k) < 2 P b + 2 P *)
  assert (H1 : C * (2 * P * S) <= C * (b * (2 * P + k))) by nia.
  apply Z.mul_le_mono_pos_l in H1; [|exact HC].
  assert (H2 : 2 * P * S < 2 * P * (b + 1)) by nia.
  apply Z.mul_lt_mono_pos_l in H2; [lia|reflexivity].
Qed.

(* what the pools receive: never more than computed, never more than the balance *)
Lemma allocate_le rep b total gs : forall rem ts rem', 0 <= rem ->
  allocate rep b total gs rem = Some (ts, rem') ->
  0 <= rem' /\ rem' = rem - zsum ts /\ Forall (fun t => 0 <= t) ts.
Proof.
  induction gs as [|[g ps] tl IH]; intros rem ts rem' Hrem H; cbn in H.
  - injection H as <- <-. cbn. repeat split; [lia|lia|constructor].
  - destruct (alloc_of b total (g_count g)) as [a|]; cbn [obind] in H; [|discriminate].
    assert (Hskip : forall ts rem', (let? r := allocate rep b total tl rem in Some (0 :: fst r, snd r)) = Some (ts, rem') ->
                    0 <= rem' /\ rem' = rem - zsum ts /\ Forall (fun t => 0 <= t) ts).
    { intros ts0 rem0 Hs. destruct (allocate rep b total tl rem) as [[ts1 r1]|] eqn:E; cbn in Hs; [|discriminate].
      injection Hs as <- <-. destruct (IH _ _ _ Hrem E) as (h1 & h2 & h3). cbn; unfold zsum in *.
      repeat split; [lia|lia|constructor; [lia|exact h3]]. }
    destruct (Z.ltb_spec 0 a) as [Ha|Ha]; [|apply Hskip; exact H].
    destruct ps.
    + destruct (Z.leb_spec a rem) as [Hle|Hgt]; [|apply Hskip; exact H].
      destruct (allocate rep b total tl (rem - a)) as [[ts1 r1]|] eqn:E; cbn in H; [|discriminate].
      injection H as <- <-. assert (Hra : 0 <= rem - a) by lia.
      destruct (IH _ _ _ Hra E) as (h1 & h2 & h3). cbn; unfold zsum in *.
      repeat split; [lia|lia|constructor; [lia|exact h3]].
    + apply Hskip; exact H.
    + destruct rep; [apply Hskip; exact H|discriminate].
Qed.

Theorem emission_le_balance rep b last status ts rem : 0 <= b ->
  begin_block_gen rep b last status = Some (ts, rem) ->
  0 <= rem /\ rem = b - zsum ts /\ Forall (fun t => 0 <= t) ts.
Proof.
  intros Hb H. unfold begin_block_gen in H. destruct last as [e|].
  - destruct (total_count (e_gauges e) 0) as [total|]; cbn [obind] in H; [|discriminate].
    destruct (total =? 0).
    + injection H as <- <-.
      assert (Hz : forall (l : list gauge), zsum (map (fun _ => 0) l) = 0 /\ Forall (fun t => 0 <= t) (map (fun _ : gauge => 0) l)).
      { induction l as [|x l [IH1 IH2]]; [split; [reflexivity|constructor]|].
        change (zsum (map (fun _ : gauge => 0) (x :: l))) with (0 + zsum (map (fun _ : gauge => 0) l)).
        rewrite IH1. split; [reflexivity|constructor; [lia|exact IH2]]. }
      destruct (Hz (e_gauges e)) as [Hz1 Hf]. rewrite Hz1. repeat split; [lia|lia|exact Hf].
    + eapply allocate_le; eauto.
  - injection H as <- <-. cbn. repeat split; [lia|lia|constructor].
Qed.

Lemma zsum_nonneg l : Forall (fun a => 0 <= a) l -> 0 <= zsum l.
Proof.
  induction 1 as [|x l Hx Hl IH]; [cbn; lia|]. change (zsum (x :: l)) with (x + zsum l). lia.
Qed.

(* when the computed allocations fit, every pool that can take its allocation gets exactly it *)
Lemma allocate_exact rep b total gs : forall l rem,
  allocs b total gs = Some l -> Forall (fun a => 0 <= a) l -> zsum l <= rem ->
  allocate rep b total (map (fun g => (g, PoolOk)) gs) rem = Some (l, rem - zsum l).
Proof.
  induction gs as [|g tl IH]; intros l rem Hl Hnn Hs; cbn in Hl |- *.
  - injection Hl as <-. cbn. f_equal. f_equal. lia.
  - destruct (alloc_of b total (g_count g)) as [a|]; cbn [obind] in Hl |- *; [|discriminate].
    destruct (allocs b total tl) as [r|] eqn:E; cbn [obind] in Hl; [|discriminate].
    injection Hl as <-. inversion Hnn as [|? ? Ha Hr]; subst.
    change (zsum (a :: r)) with (a + zsum r) in *. pose proof (zsum_nonneg r Hr) as Hr0.
    destruct (Z.ltb_spec 0 a) as [Hpos|Hz].
    + destruct (Z.leb_spec a rem); [|lia].
      assert (Hs' : zsum r <= rem - a) by lia.
      rewrite (IH r (rem - a) eq_refl Hr Hs'). cbn [obind fst snd].
      replace (rem - (a + zsum r)) with (rem - a - zsum r) by lia. reflexivity.
    + assert (a = 0) by lia. subst a.
      assert (Hs' : zsum r <= rem) by lia.
      rewrite (IH r rem eq_refl Hr Hs'). cbn [obind fst snd].
      replace (rem - (0 + zsum r)) with (rem - zsum r) by lia. reflexivity.
Qed.

(* refutation without the bound: six equal gauges, balance 3 * 10^18 *)
Definition six : list gauge := map (fun p => {| g_prev := 0; g_pool := p; g_count := 1 |}) [0; 1; 2; 3; 4; 5].
Theorem allocation_le_available_needs_bound :
  total_count six 0 = Some (6 * P) /\
  allocs (3 * P) (6 * P) six = Some (map (fun _ => 500000000000000001) six) /\
  3 * P < zsum (map (fun _ : gauge => 500000000000000001) six) /\
  (* the bank then refuses the last send: the sixth pool gets nothing *)
  begin_block (3 * P) (Some {| e_id := 1; e_start := 1; e_end := 1000; e_gauges := six |}) (fun _ => PoolOk)
    = Some ([500000000000000001; 500000000000000001; 500000000000000001; 500000000000000001; 500000000000000001; 0],
            499999999999999995).
Proof. vm_compute. repeat split; reflexivity. Qed.

(* the pinned commit: a gauge pool with positions but no in-range liquidity halts BeginBlock *)
Theorem orig_begin_block_panics_on_zero_liquidity :
  let e := {| e_id := 1; e_start := 2; e_end := 7; e_gauges := [ {| g_prev := 0; g_pool := 0; g_count := 1000000 |} ] |} in
  begin_block_orig 1000 (Some e) (fun _ => PoolZeroLiq) = None /\
  begin_block 1000 (Some e) (fun _ => PoolZeroLiq) = Some ([0], 1000).
Proof. vm_compute. split; reflexivity. Qed.

(* ==========================================================================================
   Epochs: created with the next id, at most the two most recent kept
   ========================================================================================== *)
Definition epochs_ok (es : list epoch) : Prop :=
  match es with
  | [] => True
  | [e] => e_id e = 1
  | [e1; e2] => e_id e2 = e_id e1 + 1 /\ e_end e1 <= e_start e2
  | _ => False
  end.

Lemma last_epoch_cases es : epochs_ok es ->
  match es with
  | [] => last_epoch es = None
  | [e] => last_epoch es = Some e
  | [e1; e2] => last_epoch es = Some e2
  | _ => False
  end.
Proof. destruct es as [|e1 [|e2 [|e3 tl]]]; cbn; auto. Qed.

(* one EndBlocker: either the epochs are untouched, or exactly one epoch with the next id is
   appended, starting at this block, not before the previous one ended, and the oldest of three
   is dropped *)
Theorem epoch_step st h eb tally st' : epochs_ok (s_epochs st) ->
  end_block st h eb tally = Ok st' ->
  epochs_ok (s_epochs st') /\
  (s_epochs st' = s_epochs st \/
   exists e, last_epoch (s_epochs st') = Some e /\ e_start e = h /\ e_end e = h + eb /\
     match last_epoch (s_epochs st) with
     | None => e_id e = 1 /\ s_epochs st' = [e]
     | Some le => e_id e = e_id le + 1 /\ e_end le <= h /\
                  s_epochs st' = [le; e]
     end).
Proof.
  intros Hok H. unfold end_block in H.
  pose proof (last_epoch_cases _ Hok) as Hl.
  destruct (s_epochs st) as [|e1 [|e2 [|e3 tl]]] eqn:Es; try contradiction.
  - (* no epoch yet *)
    rewrite Hl in H. unfold create_epoch in H. destruct tally as [results| |]; cbn in H.
    + destruct results as [|r rs].
      * injection H as <-. rewrite Es. split; [exact I|left; reflexivity].
      * injection H as <-. cbn [s_epochs]. rewrite Es. cbn.
        split; [reflexivity|]. right. eexists. split; [reflexivity|]. cbn. auto.
    + injection H as <-. rewrite Es. split; [exact I|left; reflexivity].
    + discriminate.
  - rewrite Hl in H. cbn in Hok. destruct (Z.leb_spec (e_end e1) h) as [Hle|Hgt].
    + unfold create_epoch in H. destruct tally as [results| |]; cbn in H.
      * destruct results as [|r rs].
        -- rewrite Es in H. injection H as <-. rewrite Es. split; [exact Hok|left; reflexivity].
        -- cbn [s_epochs] in H. rewrite Es in H. cbn in H.
           destruct (Z.eqb_spec (e_id e1 + 1) (e_id e1)); [lia|].
           destruct (Z.ltb_spec (e_id e1 + 1) (e_id e1)); [lia|].
           injection H as <-. cbn. split; [split; [reflexivity|exact Hle]|].
           right. eexists. split; [reflexivity|]. cbn. auto.
      * injection H as <-. rewrite Es. split; [exact Hok|left; reflexivity].
      * discriminate.
    + injection H as <-. rewrite Es. split; [exact Hok|left; reflexivity].
  - rewrite Hl in H. cbn in Hok. destruct Hok as [Hid Hse].
    destruct (Z.leb_spec (e_end e2) h) as [Hle|Hgt].
    + unfold create_epoch in H. destruct tally as [results| |]; cbn in H.
      * destruct results as [|r rs].
        -- rewrite Es in H. injection H as <-. rewrite Es. split; [split; assumption|left; reflexivity].
        -- cbn [s_epochs] in H. rewrite Es in H. cbn in H.
           destruct (Z.eqb_spec (e_id e2 + 1) (e_id e1)); [lia|].
           destruct (Z.ltb_spec (e_id e2 + 1) (e_id e1)); [lia|].
           destruct (Z.eqb_spec (e_id e2 + 1) (e_id e2)); [lia|].
           destruct (Z.ltb_spec (e_id e2 + 1) (e_id e2)); [lia|].
           injection H as <-. cbn. split; [split; [reflexivity|exact Hle]|].
           right. eexists. split; [reflexivity|]. cbn. auto.
      * injection H as <-. rewrite Es. split; [split; assumption|left; reflexivity].
      * discriminate.
    + injection H as <-. rewrite Es. split; [split; assumption|left; reflexivity].
Qed.

(* all block histories: any heights, any epoch lengths, any tally outcomes (a panic halts) *)
Record block_in := { bi_height : Z; bi_epoch_blocks : Z; bi_tally : res (list (Z * Z)) }.
Fixpoint run_blocks (bs : list block_in) (st : istate) : istate :=
  match bs with
  | [] => st
  | b :: tl =>
      match end_block st (bi_height b) (bi_epoch_blocks b) (bi_tally b) with
      | Ok st' => run_blocks tl st'
      | _ => st
      end
  end.
Theorem epochs_contiguous_two_kept bs : forall st,
  epochs_ok (s_epochs st) -> epochs_ok (s_epochs (run_blocks bs st)).
Proof.
  induction bs as [|b tl IH]; intros st Hok; cbn; [exact Hok|].
  destruct (end_block st (bi_height b) (bi_epoch_blocks b) (bi_tally b)) as [st'| |] eqn:E; try exact Hok.
  apply IH. eapply epoch_step; eauto.
Qed.

(* ==========================================================================================
   Tally: every bonded token at most once, delegators override their validator
   ========================================================================================== *)
Lemma trunc_sum_le m : rnn m -> zsum (map (fun kv => dtrunc_int (snd kv)) m) * P <= rsum m.
Proof.
  induction 1 as [|[k v] tl Hv Ht IH]; [cbn; lia|]. cbn in Hv.
  change (zsum (map (fun kv => dtrunc_int (snd kv)) ((k, v) :: tl)))
    with (dtrunc_int v + zsum (map (fun kv => dtrunc_int (snd kv)) tl)).
  rewrite rsum_cons. pose proof (dtrunc_int_bracket v Hv). lia.
Qed.
Lemma trunc_nonneg m : rnn m -> Forall (fun kv => 0 <= snd kv) (map (fun kv => (fst kv, dtrunc_int (snd kv))) m).
Proof.
  induction 1 as [|[k v] tl Hv Ht IH]; cbn; constructor; [|exact IH]. cbn in *. apply dtrunc_int_nonneg. exact Hv.
Qed.

(* Σ gauge counts <= Σ bonded tokens of the listed validators: with fewer than 10^18 rounding
   terms (slack) not even one extra token can appear *)
Theorem total_le_bonded W vals bs bonded l : 0 <= W -> graph_ok W vals bs ->
  slack1 bs + len vals * (1 + W) < P ->
  gauge_tally vals bs bonded = Some l ->
  Forall (fun kv => 0 <= snd kv) l /\ zsum (map snd l) <= tokens vals.
Proof.
  intros HW Hg Hs H. unfold gauge_tally in H.
  destruct (core (map init_vi vals) [] bs) as [[[tot res] vis]|] eqn:E; cbn [obind] in H; [|discriminate].
  destruct (core_total_le W _ _ _ _ _ HW Hg E) as [Hnn Hle].
  assert (Htk : 0 <= tokens vals).
  { destruct Hg as (_ & Hv & _). clear - Hv. induction Hv as [|v tl [h _] Ht IH]; cbn; [lia|]. fold (tokens tl). lia. }
  destruct (bonded =? 0).
  - injection H as <-. split; [constructor|cbn; lia].
  - injection H as <-. split; [apply trunc_nonneg; exact Hnn|].
    rewrite map_map. cbn [snd].
    pose proof (trunc_sum_le res Hnn) as Ht.
    set (S := zsum (map (fun kv => dtrunc_int (snd kv)) res)) in *.
    assert (S * P < (tokens vals + 1) * P) by lia.
    apply Z.mul_lt_mono_pos_r in H; [lia|reflexivity].
Qed.

(* what a delegation contributes in pass 1: the voter's weights applied to the tokens behind the
   voter's own shares, which are at the same time deducted from the validator *)
Lemma deleg_step_power w vis res tot vid sh vis' res' tot' vi :
  deleg_step w (vis, res, tot) (vid, sh) = Some (vis', res', tot') -> find_vi vid vis = Some vi ->
  apply_w (ppower sh (vi_tok vi) (vi_sh vi)) w res = Some res' /\
  tot' = tot + ppower sh (vi_tok vi) (vi_sh vi) /\
  vis' = upd_vi (set_ded vi (vi_ded vi + sh)) vis.
Proof.
  intros H Hf. unfold deleg_step in H. rewrite Hf in H. inv_obind. injection H as <- <- <-.
  match goal with Hd : dadd (vi_ded vi) sh = Some _ |- _ => apply dadd_some in Hd; subst end.
  match goal with Hp : power _ _ _ = Some _ |- _ => apply power_some in Hp; destruct Hp as [_ ->] end.
  match goal with Hd : dadd tot _ = Some _ |- _ => apply dadd_some in Hd; subst end.
  auto.
Qed.

(* after pass 1 the deductions of every validator are exactly the shares of its delegators that
   voted, so that in pass 2 the validator's own weights are applied only to the tokens behind the
   shares nobody voted with *)
Theorem delegator_overrides_validator vals bs res0 vis res tot :
  NoDup (map v_id vals) ->
  phase1 bs (map init_vi vals, res0, 0) = Some (vis, res, tot) ->
  Forall2 (fun v vi =>
    vi_id vi = v_id v /\ vi_ded vi = ded_of (v_id v) bs /\
    forall r t r' t', vi_vote vi <> [] -> val_step (r, t) vi = Some (r', t') ->
      let vp := ppower (v_sh v - ded_of (v_id v) bs) (v_tok v) (v_sh v) in
      apply_w vp (vi_vote vi) r = Some r' /\ t' = t + vp) vals vis.
Proof.
  intros Hnd H. pose proof (phase1_static _ _ _ _ Hnd H) as Hst. cbn [st_vis fst] in Hst.
  clear - Hst. induction Hst as [|v vi vs vis' (h1 & h2 & h3 & h4) H' IH']; constructor; [|exact IH'].
  split; [exact h1|]. split; [exact h4|].
  intros r t r' t' Hne Hs. unfold val_step in Hs. destruct (vi_vote vi) as [|w0 wl] eqn:Ev; [contradiction|].
  inv_obind. injection Hs as <- <-.
  match goal with Hd : dsub _ _ = Some _ |- _ => apply dsub_some in Hd; subst end.
  match goal with Hp : power _ _ _ = Some _ |- _ => apply power_some in Hp; destruct Hp as [_ ->] end.
  match goal with Hd : dadd t _ = Some _ |- _ => apply dadd_some in Hd; subst end.
  rewrite h2, h3, h4 in *. cbn zeta. auto.
Qed.
