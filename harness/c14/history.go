package c14

import (
	"context"
	"crypto/sha256"
	"encoding/binary"
	"encoding/hex"
	"fmt"
	"hash"
	"sort"
	"time"

	errorsmod "cosmossdk.io/errors"
	sdkmath "cosmossdk.io/math"
	storetypes "cosmossdk.io/store/types"
	banktypes "cosmossdk.io/x/bank/types"
	govkeeper "cosmossdk.io/x/gov/keeper"
	v1 "cosmossdk.io/x/gov/types/v1"
	stakingkeeper "cosmossdk.io/x/staking/keeper"
	stakingtypes "cosmossdk.io/x/staking/types"
	txsigning "cosmossdk.io/x/tx/signing"
	abci "github.com/cometbft/cometbft/abci/types"
	codectypes "github.com/cosmos/cosmos-sdk/codec/types"
	sdk "github.com/cosmos/cosmos-sdk/types"
	"github.com/cosmos/cosmos-sdk/types/tx/signing"
	authsign "github.com/cosmos/cosmos-sdk/x/auth/signing"
	gogoproto "github.com/cosmos/gogoproto/proto"
	"google.golang.org/protobuf/types/known/anypb"

	dakeeper "github.com/sunriselayer/sunrise/x/da/keeper"
	datypes "github.com/sunriselayer/sunrise/x/da/types"
	likeeper "github.com/sunriselayer/sunrise/x/liquidityincentive/keeper"
	litypes "github.com/sunriselayer/sunrise/x/liquidityincentive/types"
	lpkeeper "github.com/sunriselayer/sunrise/x/liquiditypool/keeper"
	lptypes "github.com/sunriselayer/sunrise/x/liquiditypool/types"
	swapkeeper "github.com/sunriselayer/sunrise/x/swap/keeper"
	swaptypes "github.com/sunriselayer/sunrise/x/swap/types"
	tckeeper "github.com/sunriselayer/sunrise/x/tokenconverter/keeper"
	tctypes "github.com/sunriselayer/sunrise/x/tokenconverter/types"

	"verifharness/apph"
	"verifharness/emit"
)

const (
	bond = "uvrise"
	fee  = "urise"

	siteTally   = "x/liquidityincentive/keeper/keeper_tally.go:Keeper.Tally(currValidators)"
	siteResults = "x/liquidityincentive/keeper/keeper_tally.go:NewTallyResultFromMap(results)"
	siteGov     = "app/gov/gov.go:CalculateVoteResultsAndVotingPowerFn(validators)"
	siteDaSafe  = "x/da/keeper/abci.go:TallyValidityProofs(shardProofCount)"
	siteDaFault = "x/da/keeper/abci.go:TallyValidityProofs(faultValidators)"
)

type valInfo struct {
	Oper  string
	Bytes []byte
	Acc   sdk.AccAddress
}

type daItem struct {
	uri         string
	n, parity   int
	stage       int // 1 = challenge period, 2 = challenging (proofs may be set)
	challengers []int
}

type propInfo struct {
	id        uint64
	voters    int
	valVoters map[int]bool
}

type world struct {
	h   *apph.H
	r   *emit.Rand
	out *childOut

	vals  []valInfo
	valID map[string]int

	pools       []uint64
	poolPar     uint64           // a second uusdc/uatom pool, for parallel routes
	positions   map[int][]uint64 // account index -> positions it created
	voucher     string           // IBC voucher denom of uosmo received over channel-1 ("" = no IBC)
	poolVoucher uint64

	resH, evH hash.Hash
	ops       []opInfo
	txs       [][]byte
	txSigners map[string]uint64 // txs queued in the current block per signer
	stopped   bool
	flushing  bool
	noDumps   bool

	da       *daItem
	daSeq    int
	deputies map[int]int // validator id -> account index registered as its proof deputy
	consH    hash.Hash   // what enters LastResultsHash: code, data, gas wanted / used (+ codespace)
	prop  *propInfo

	lp   lptypes.MsgServer
	sw   swaptypes.MsgServer
	li   litypes.MsgServer
	tc   tctypes.MsgServer
	dam  datypes.MsgServer
	stk  stakingtypes.MsgServer
	gov  v1.MsgServer
	bank banktypes.MsgServer
}

func (w *world) count(k string) { w.out.Hist[k]++ }

func writeLP(h hash.Hash, parts ...[]byte) {
	var l [8]byte
	for _, p := range parts {
		binary.BigEndian.PutUint64(l[:], uint64(len(p)))
		h.Write(l[:])
		h.Write(p)
	}
}

func (w *world) recordEvents(evs []abci.Event) {
	for _, e := range evs {
		b, err := e.Marshal()
		if err != nil {
			b = []byte("unmarshalable event " + e.Type)
		}
		writeLP(w.evH, b)
	}
}

// exec runs one message-server / keeper call with baseapp's all-or-nothing semantics on the
// committed state and records its outcome into the digests of the current block.
func (w *world) exec(kind, arg string, f func(ctx sdk.Context) (gogoproto.Message, error)) error {
	ctx := w.h.Ctx().WithEventManager(sdk.NewEventManager()).WithGasMeter(storetypes.NewInfiniteGasMeter())
	var resp gogoproto.Message
	err := apph.Tx(ctx, func(c sdk.Context) error {
		var e error
		resp, e = f(c)
		return e
	})
	op := opInfo{Kind: kind, Arg: arg}
	var gas [8]byte
	binary.BigEndian.PutUint64(gas[:], uint64(ctx.GasMeter().GasConsumed()))
	if err != nil {
		op.Err = err.Error()
		writeLP(w.resH, []byte(kind), []byte("err"), []byte(err.Error()), gas[:])
		codespace, code, _ := errorsmod.ABCIInfo(err, false)
		op.Code = fmt.Sprintf("%s/%d", codespace, code)
		writeLP(w.consH, []byte(op.Code), gas[:])
	} else {
		writeLP(w.consH, []byte("ok"), gas[:])
		var rb []byte
		if resp != nil {
			rb, _ = gogoproto.Marshal(resp)
		}
		writeLP(w.resH, []byte(kind), []byte("ok"), rb, gas[:])
		w.recordEvents(ctx.EventManager().ABCIEvents())
	}
	w.ops = append(w.ops, op)
	w.count("op:" + kind)
	return err
}

// signTx builds and signs a transaction with the application's TxConfig.
func (w *world) signTx(signer apph.Acct, msgs []sdk.Msg, feeAmt sdk.Coins, gas uint64) ([]byte, error) {
	h := w.h
	txc := h.App.TxConfig()
	acc := h.App.AuthKeeper.GetAccount(h.Ctx(), signer.Addr)
	if acc == nil {
		return nil, fmt.Errorf("signer has no account")
	}
	seq := acc.GetSequence() + w.txSigners[signer.Addr.String()]
	b := txc.NewTxBuilder()
	if err := b.SetMsgs(msgs...); err != nil {
		return nil, err
	}
	b.SetFeeAmount(feeAmt)
	b.SetGasLimit(gas)
	mode := txc.SignModeHandler().DefaultMode()
	sig := signing.SignatureV2{PubKey: signer.Priv.PubKey(), Data: &signing.SingleSignatureData{SignMode: mode}, Sequence: seq}
	if err := b.SetSignatures(sig); err != nil {
		return nil, err
	}
	anyPk, err := codectypes.NewAnyWithValue(signer.Priv.PubKey())
	if err != nil {
		return nil, err
	}
	sd := txsigning.SignerData{Address: signer.Addr.String(), ChainID: apph.ChainID, AccountNumber: acc.GetAccountNumber(),
		Sequence: seq, PubKey: &anypb.Any{TypeUrl: anyPk.TypeUrl, Value: anyPk.Value}}
	sb, err := authsign.GetSignBytesAdapter(context.Background(), txc.SignModeHandler(), mode, sd, b.GetTx())
	if err != nil {
		return nil, err
	}
	s, err := signer.Priv.Sign(sb)
	if err != nil {
		return nil, err
	}
	sig.Data.(*signing.SingleSignatureData).Signature = s
	if err := b.SetSignatures(sig); err != nil {
		return nil, err
	}
	bz, err := txc.TxEncoder()(b.GetTx())
	if err == nil {
		w.txSigners[signer.Addr.String()]++
	}
	return bz, err
}

// endBlock runs FinalizeBlock + Commit and closes the digests of the block.
func (w *world) endBlock(dt time.Duration) {
	if w.stopped {
		return
	}
	if len(w.txs) > 0 && !w.flushing && w.daWillResolve(dt) {
		// the refund decisions of the DA tally are observed as balance changes of the challengers:
		// keep the queued bank transactions out of that block
		w.flushing = true
		w.endBlock(time.Second)
		w.flushing = false
		if w.stopped {
			return
		}
	}
	pre := w.preBlock(dt)
	txs := w.txs
	w.txs = nil
	w.txSigners = map[string]uint64{}
	resp, err := w.h.Block(dt, txs)
	blk := blockObs{Height: w.h.Height, DtSec: int64(dt / time.Second), Ops: w.ops}
	w.ops = nil
	if err != nil {
		// a failing or panicking block ends the history: every replica must fail the same way
		blk.Err = err.Error()
		writeLP(w.resH, []byte("block-error"), []byte(err.Error()))
		w.stopped = true
		w.count("block:failed")
	} else {
		for _, tr := range resp.TxResults {
			var g [16]byte
			binary.BigEndian.PutUint64(g[:8], uint64(tr.GasWanted))
			binary.BigEndian.PutUint64(g[8:], uint64(tr.GasUsed))
			var c [4]byte
			binary.BigEndian.PutUint32(c[:], tr.Code)
			writeLP(w.resH, []byte("tx"), c[:], tr.Data, g[:], []byte(tr.Codespace), []byte(tr.Log))
			writeLP(w.consH, c[:], tr.Data, g[:], []byte(tr.Codespace))
			blk.TxResults = append(blk.TxResults, fmt.Sprintf("%s/%d gas %d/%d data %x", tr.Codespace, tr.Code, tr.GasWanted, tr.GasUsed, sha256.Sum256(tr.Data)))
			w.recordEvents(tr.Events)
			if tr.Code == 0 {
				w.count("tx:ok")
				blk.Ops = append(blk.Ops, opInfo{Kind: "tx-result", Arg: fmt.Sprintf("gas %d", tr.GasUsed)})
			} else {
				w.count("tx:failed")
				blk.Ops = append(blk.Ops, opInfo{Kind: "tx-result", Arg: fmt.Sprintf("code %d %s gas %d", tr.Code, tr.Codespace, tr.GasUsed), Err: tr.Log})
			}
		}
		w.recordEvents(resp.Events)
		blk.AppHash = hex.EncodeToString(resp.AppHash)
		w.count("block")
	}
	if err == nil {
		fc, _ := w.faultCounters()
		blk.Faults = fc
	}
	blk.Consensus = hex.EncodeToString(w.consH.Sum(nil))
	blk.Results = hex.EncodeToString(w.resH.Sum(nil))
	blk.Events = hex.EncodeToString(w.evH.Sum(nil))
	w.resH, w.evH, w.consH = sha256.New(), sha256.New(), sha256.New()
	if blk.AppHash == "" {
		blk.AppHash = "ffffffffffffffffffffffffffffffff"
	}
	w.out.Blocks = append(w.out.Blocks, blk)
	if err == nil {
		w.postBlock(pre)
	}
}

// ---------------------------------------------------------------- setup

// worldOpts: the chain a history runs on. The compared history H always runs on the default
// (8 validators, genesis parameters); warm-up histories use other validator counts and
// replication factors.
type worldOpts struct {
	NumVals int
	RF      string // x/da replication_factor override ("" = genesis default)
	NoDumps bool   // no model dumps (warm replicas: the dumps call implementation functions)
}

func newWorld(seed int64, o worldOpts) *world {
	if o.NumVals == 0 {
		o.NumVals = 8
	}
	h := apph.New(apph.Options{NumAccounts: 7, NumValidators: o.NumVals})
	if o.RF != "" {
		p, err := h.App.DaKeeper.Params.Get(h.Ctx())
		if err != nil {
			panic(err)
		}
		p.ReplicationFactor = o.RF
		if err := h.App.DaKeeper.Params.Set(h.Ctx(), p); err != nil {
			panic(err)
		}
	}
	w := &world{h: h, noDumps: o.NoDumps, r: emit.NewRand(seed), out: &childOut{Coverage: map[string]int{}, Hist: map[string]int{}},
		valID: map[string]int{}, resH: sha256.New(), evH: sha256.New(), consH: sha256.New(), deputies: map[int]int{}, positions: map[int][]uint64{}, txSigners: map[string]uint64{}}
	w.lp = lpkeeper.NewMsgServerImpl(h.App.LiquiditypoolKeeper)
	w.sw = swapkeeper.NewMsgServerImpl(h.App.SwapKeeper)
	w.li = likeeper.NewMsgServerImpl(h.App.LiquidityincentiveKeeper)
	w.tc = tckeeper.NewMsgServerImpl(h.App.TokenconverterKeeper)
	w.dam = dakeeper.NewMsgServerImpl(h.App.DaKeeper)
	w.stk = stakingkeeper.NewMsgServerImpl(h.App.StakingKeeper)
	w.gov = govkeeper.NewMsgServerImpl(h.App.GovKeeper)
	vs, err := h.App.StakingKeeper.GetAllValidators(h.Ctx())
	if err != nil {
		panic(err)
	}
	sort.Slice(vs, func(i, j int) bool { return vs[i].OperatorAddress < vs[j].OperatorAddress })
	for i, v := range vs {
		bz, err := h.App.StakingKeeper.ValidatorAddressCodec().StringToBytes(v.OperatorAddress)
		if err != nil {
			panic(err)
		}
		w.vals = append(w.vals, valInfo{Oper: v.OperatorAddress, Bytes: bz, Acc: sdk.AccAddress(bz)})
		w.valID[v.OperatorAddress] = i
	}
	return w
}

func (w *world) setup() {
	a0 := w.h.Accts[0].Addr.String()
	pairs := [][2]string{{"uusdc", "uatom"}, {"uatom", "uosmo"}, {"uusdc", "uosmo"}}
	for i, p := range pairs {
		err := w.exec("create-pool", fmt.Sprint(p), func(ctx sdk.Context) (gogoproto.Message, error) {
			return w.lp.CreatePool(ctx, &lptypes.MsgCreatePool{Authority: a0, DenomBase: p[0], DenomQuote: p[1], FeeRate: "0.01", PriceRatio: "1.0001", BaseOffset: "0.5"})
		})
		if err != nil {
			panic(fmt.Sprintf("setup: create pool: %v", err))
		}
		w.pools = append(w.pools, uint64(i))
		err = w.exec("create-position", fmt.Sprintf("pool %d wide", i), func(ctx sdk.Context) (gogoproto.Message, error) {
			return w.lp.CreatePosition(ctx, &lptypes.MsgCreatePosition{Sender: a0, PoolId: uint64(i), LowerTick: -4000, UpperTick: 4000,
				TokenBase: sdk.NewInt64Coin(p[0], 1_000_000_000_000), TokenQuote: sdk.NewInt64Coin(p[1], 1_000_000_000_000),
				MinAmountBase: sdkmath.ZeroInt(), MinAmountQuote: sdkmath.ZeroInt()})
		})
		if err != nil {
			panic(fmt.Sprintf("setup: create position: %v", err))
		}
	}
	// a second pool of the first pair (parallel routes) and the ICS-20 loop-back with a voucher pool
	if err := w.exec("create-pool", "uusdc/uatom second", func(ctx sdk.Context) (gogoproto.Message, error) {
		resp, e := w.lp.CreatePool(ctx, &lptypes.MsgCreatePool{Authority: a0, DenomBase: "uusdc", DenomQuote: "uatom", FeeRate: "0.003", PriceRatio: "1.0001", BaseOffset: "0.5"})
		if e == nil {
			w.poolPar = resp.Id
		}
		return resp, e
	}); err != nil {
		panic(fmt.Sprintf("setup: create pool: %v", err))
	}
	if err := w.exec("create-position", "second pool wide", func(ctx sdk.Context) (gogoproto.Message, error) {
		return w.lp.CreatePosition(ctx, &lptypes.MsgCreatePosition{Sender: a0, PoolId: w.poolPar, LowerTick: -4000, UpperTick: 4000,
			TokenBase: sdk.NewInt64Coin("uusdc", 1_000_000_000_000), TokenQuote: sdk.NewInt64Coin("uatom", 1_000_000_000_000),
			MinAmountBase: sdkmath.ZeroInt(), MinAmountQuote: sdkmath.ZeroInt()})
	}); err != nil {
		panic(fmt.Sprintf("setup: create position: %v", err))
	}
	w.setupIBC()
	// proof deputies with a key, so that validity-proof messages can also go through FinalizeBlock
	for v := 0; v < 4 && v < len(w.vals); v++ {
		a := 3 + v
		err := w.exec("da-register-deputy", fmt.Sprintf("val %d -> acct %d", v, a), func(ctx sdk.Context) (gogoproto.Message, error) {
			return w.dam.RegisterProofDeputy(ctx, &datypes.MsgRegisterProofDeputy{Sender: w.vals[v].Acc.String(), DeputyAddress: w.h.Accts[a].Addr.String()})
		})
		if err == nil {
			w.deputies[v] = a
		}
	}
	for a := 1; a <= 3; a++ {
		for k := 0; k < 2; k++ {
			w.opDelegate(a, (a+k*2)%len(w.vals), int64(1_000_000*(a+k+1)))
		}
	}
	w.endBlock(time.Second)
}

// ---------------------------------------------------------------- operations

func (w *world) opDelegate(acct, val int, amt int64) {
	from := w.h.Accts[acct].Addr.String()
	w.exec("delegate", fmt.Sprintf("acct %d -> val %d %d", acct, val, amt), func(ctx sdk.Context) (gogoproto.Message, error) {
		return w.stk.Delegate(ctx, &stakingtypes.MsgDelegate{DelegatorAddress: from, ValidatorAddress: w.vals[val].Oper, Amount: sdk.NewInt64Coin(bond, amt)})
	})
}

func (w *world) opSendTx() {
	r := w.r
	from := r.Intn(len(w.h.Accts))
	to := (from + 1 + r.Intn(len(w.h.Accts)-1)) % len(w.h.Accts)
	denom := emit.Pick(r, "urise", "uusdc", "uatom", "uosmo", "uusdc", "uvrise") // uvrise: sends are disabled, the tx fails
	var amt sdkmath.Int
	switch r.Intn(6) {
	case 0: // more than the balance
		amt = w.h.Bal(w.h.Ctx(), w.h.Accts[from].Addr, denom).AddRaw(1 + int64(r.Intn(5)))
	default:
		amt = sdkmath.NewIntFromBigInt(r.LogUniform(12))
	}
	msg := &banktypes.MsgSend{FromAddress: w.h.Accts[from].Addr.String(), ToAddress: w.h.Accts[to].Addr.String(), Amount: sdk.NewCoins(sdk.NewCoin(denom, amt))}
	bz, err := w.signTx(w.h.Accts[from], []sdk.Msg{msg}, sdk.NewCoins(sdk.NewInt64Coin(fee, 20000)), 400000)
	op := opInfo{Kind: "tx-send", Arg: fmt.Sprintf("acct %d -> acct %d %s%s", from, to, amt, denom)}
	if err != nil {
		op.Err = "sign: " + err.Error()
	} else {
		w.txs = append(w.txs, bz)
	}
	w.ops = append(w.ops, op)
	w.count("op:tx-send")
}

func (w *world) opConvert() {
	a := w.r.Intn(len(w.h.Accts))
	amt := sdkmath.NewIntFromBigInt(w.r.LogUniform(10))
	if w.r.Chance(1, 8) {
		amt = sdkmath.ZeroInt()
	}
	w.exec("convert", fmt.Sprintf("acct %d %s", a, amt), func(ctx sdk.Context) (gogoproto.Message, error) {
		return w.tc.Convert(ctx, &tctypes.MsgConvert{Sender: w.h.Accts[a].Addr.String(), Amount: amt})
	})
}

func (w *world) poolDenoms(id uint64) (string, string) {
	p, found, err := w.h.App.LiquiditypoolKeeper.GetPool(w.h.Ctx(), id)
	if err != nil || !found {
		panic(fmt.Sprint("pool not found ", id))
	}
	return p.DenomBase, p.DenomQuote
}

func (w *world) opPosition() {
	r := w.r
	a := 1 + r.Intn(len(w.h.Accts)-1)
	pool := w.pools[r.Intn(len(w.pools))]
	db, dq := w.poolDenoms(pool)
	lo, hi := int64(-1-r.Intn(300)), int64(1+r.Intn(300))
	ab, aq := int64(100_000+r.Intn(10_000_000)), int64(100_000+r.Intn(10_000_000))
	w.exec("create-position", fmt.Sprintf("acct %d pool %d [%d,%d] %d/%d", a, pool, lo, hi, ab, aq), func(ctx sdk.Context) (gogoproto.Message, error) {
		resp, err := w.lp.CreatePosition(ctx, &lptypes.MsgCreatePosition{Sender: w.h.Accts[a].Addr.String(), PoolId: pool, LowerTick: lo, UpperTick: hi,
			TokenBase: sdk.NewInt64Coin(db, ab), TokenQuote: sdk.NewInt64Coin(dq, aq), MinAmountBase: sdkmath.ZeroInt(), MinAmountQuote: sdkmath.ZeroInt()})
		if err == nil {
			w.positions[a] = append(w.positions[a], resp.Id)
		}
		return resp, err
	})
}

func (w *world) opSwap() {
	r := w.r
	a := 1 + r.Intn(len(w.h.Accts)-1)
	pool := w.pools[r.Intn(len(w.pools))]
	db, dq := w.poolDenoms(pool)
	in, out := db, dq
	if r.Bool() {
		in, out = dq, db
	}
	amt := sdkmath.NewInt(int64(1 + r.Intn(2_000_000)))
	w.exec("swap-exact-in", fmt.Sprintf("acct %d pool %d %s%s", a, pool, amt, in), func(ctx sdk.Context) (gogoproto.Message, error) {
		return w.sw.SwapExactAmountIn(ctx, &swaptypes.MsgSwapExactAmountIn{Sender: w.h.Accts[a].Addr.String(),
			Route:    swaptypes.Route{DenomIn: in, DenomOut: out, Strategy: &swaptypes.Route_Pool{Pool: &swaptypes.RoutePool{PoolId: pool}}},
			AmountIn: amt, MinAmountOut: sdkmath.OneInt()})
	})
}

var weightSets = [][]string{
	{"1"}, {"0.5", "0.5"}, {"0.3", "0.7"}, {"0.2", "0.3", "0.5"}, {"0.333333333333333333", "0.666666666666666667"},
	{"0.1", "0.1"}, {"0.25", "0.25", "0.25"}, {"0.000000000000000001", "0.9"},
}

func (w *world) opVoteGauge() {
	r := w.r
	var sender string
	var who string
	if r.Chance(2, 5) {
		v := r.Intn(len(w.vals))
		sender, who = w.vals[v].Acc.String(), fmt.Sprintf("val %d", v)
	} else {
		a := 1 + r.Intn(len(w.h.Accts)-1)
		sender, who = w.h.Accts[a].Addr.String(), fmt.Sprintf("acct %d", a)
	}
	ws := weightSets[r.Intn(len(weightSets))]
	perm := []int{0, 1, 2}
	for i := 2; i > 0; i-- {
		j := r.Intn(i + 1)
		perm[i], perm[j] = perm[j], perm[i]
	}
	var pw []litypes.PoolWeight
	for i, x := range ws {
		pw = append(pw, litypes.PoolWeight{PoolId: w.pools[perm[i]%len(w.pools)], Weight: x})
	}
	if r.Chance(1, 12) {
		pw = append(pw, litypes.PoolWeight{PoolId: 99, Weight: "0.01"}) // unknown pool: rejected
	}
	w.exec("vote-gauge", fmt.Sprintf("%s %v", who, pw), func(ctx sdk.Context) (gogoproto.Message, error) {
		return w.li.VoteGauge(ctx, &litypes.MsgVoteGauge{Sender: sender, PoolWeights: pw})
	})
}

// ---- DA: one item in flight at a time, so that every tally block resolves at most one item

func (w *world) opDa() {
	r := w.r
	if w.da == nil {
		n := 4 + r.Intn(7)
		parity := 1 + r.Intn(n/2)
		w.daSeq++
		uri := fmt.Sprintf("ipfs://verif-c14/%d", w.daSeq)
		hashes := make([][]byte, n)
		for i := range hashes {
			s := sha256.Sum256([]byte(fmt.Sprintf("%s/%d", uri, i)))
			hashes[i] = s[:]
		}
		pub := 1 + r.Intn(2)
		err := w.exec("da-publish", fmt.Sprintf("%s n=%d parity=%d by acct %d", uri, n, parity, pub), func(ctx sdk.Context) (gogoproto.Message, error) {
			return w.dam.PublishData(ctx, &datypes.MsgPublishData{Sender: w.h.Accts[pub].Addr.String(), MetadataUri: uri, ParityShardCount: uint64(parity),
				ShardDoubleHashes: hashes, DataSourceInfo: "verif"})
		})
		if err == nil {
			w.da = &daItem{uri: uri, n: n, parity: parity, stage: 1}
		}
		return
	}
	it := w.da
	switch it.stage {
	case 1:
		// challengers (accounts 3..6, never the publisher) name shard indices; together they usually
		// reach the 33% threshold, sometimes not (then the item is verified after the challenge period)
		w.multiInvalidity(it)
		nch := 1 + r.Intn(3)
		for c := 0; c < nch; c++ {
			ch := 3 + (c+r.Intn(4))%4
			dup := false
			for _, x := range it.challengers {
				if x == ch {
					dup = true
				}
			}
			if dup {
				continue
			}
			k := 1 + r.Intn(it.n)
			if r.Chance(1, 6) {
				k = 1
			}
			var idx []int64
			for j := 0; j < k; j++ {
				idx = append(idx, int64(r.Intn(it.n)))
			}
			err := w.exec("da-invalidity", fmt.Sprintf("%s acct %d %v", it.uri, ch, idx), func(ctx sdk.Context) (gogoproto.Message, error) {
				return w.dam.SubmitInvalidity(ctx, &datypes.MsgSubmitInvalidity{Sender: w.h.Accts[ch].Addr.String(), MetadataUri: it.uri, Indices: idx})
			})
			if err == nil {
				it.challengers = append(it.challengers, ch)
			}
		}
		w.endBlock(time.Duration(1+r.Intn(5)) * time.Second)
		if w.stopped {
			return
		}
		d, found, _ := w.h.App.DaKeeper.GetPublishedData(w.h.Ctx(), it.uri)
		switch {
		case !found:
			w.da = nil
		case d.Status == datypes.Status_STATUS_CHALLENGING:
			it.stage = 2
		default:
			// below the threshold: let the challenge period run out
			w.endBlock(5 * time.Minute)
			w.da = nil
		}
	case 2:
		if d, found, _ := w.h.App.DaKeeper.GetPublishedData(w.h.Ctx(), it.uri); !found || d.Status != datypes.Status_STATUS_CHALLENGING {
			w.da = nil // resolved meanwhile by a long block (e.g. the end of a voting period)
			return
		}
		// validity proofs written straight into the store (producing real zero-knowledge proofs is
		// out of scope here; the tally only reads sender and indices)
		for k := 0; k < 2; k++ {
			w.multiValidityProof(it)
		}
		w.endBlock(time.Duration(1+r.Intn(5)) * time.Second) // deputy-signed copies run inside the proof period
		if w.stopped {
			return
		}
		if d, found, _ := w.h.App.DaKeeper.GetPublishedData(w.h.Ctx(), it.uri); !found || d.Status != datypes.Status_STATUS_CHALLENGING {
			w.da = nil
			return
		}
		// which indices a validator proves is drawn from the PRNG only: the history must not
		// depend on anything the implementation computes (in particular not on the shard
		// assignment function, which is part of what is being compared across processes)
		for v, val := range w.vals {
			if r.Chance(1, 4) {
				continue // this validator submits nothing
			}
			var idx []int64
			for i := 0; i < it.n; i++ {
				if r.Chance(11, 20) {
					idx = append(idx, int64(i))
				}
			}
			idx = dedupe(idx) // repeated indices are C09's subject; without them both counting rules agree
			if len(idx) == 0 {
				continue
			}
			w.exec("da-set-proof", fmt.Sprintf("%s val %d %v", it.uri, v, idx), func(ctx sdk.Context) (gogoproto.Message, error) {
				return nil, w.h.App.DaKeeper.SetProof(ctx, datypes.Proof{MetadataUri: it.uri, Sender: val.Acc.String(), Indices: idx, Proofs: [][]byte{{1}}})
			})
		}
		if r.Chance(1, 2) { // a proof by a non-validator (deputy-like) account: counted, matches no validator
			idx := dedupe([]int64{int64(r.Intn(it.n)), int64(r.Intn(it.n))})
			w.exec("da-set-proof", fmt.Sprintf("%s acct 6 %v", it.uri, idx), func(ctx sdk.Context) (gogoproto.Message, error) {
				return nil, w.h.App.DaKeeper.SetProof(ctx, datypes.Proof{MetadataUri: it.uri, Sender: w.h.Accts[6].Addr.String(), Indices: idx, Proofs: [][]byte{{1}}})
			})
		}
		it.stage = 3
		w.endBlock(11 * time.Minute) // past the proof period: TallyValidityProofs resolves the item
		w.da = nil
	}
}

func dedupe(xs []int64) []int64 {
	seen := map[int64]bool{}
	var out []int64
	for _, x := range xs {
		if !seen[x] {
			seen[x] = true
			out = append(out, x)
		}
	}
	return out
}

// ---- governance: one proposal at a time

func (w *world) opGov() {
	r := w.r
	if w.prop == nil {
		p, err := w.h.App.GovKeeper.Params.Get(w.h.Ctx())
		if err != nil {
			panic(err)
		}
		proposer := w.h.Accts[1+r.Intn(3)].Addr.String()
		msg, err := v1.NewMsgSubmitProposal(nil, sdk.NewCoins(p.MinDeposit...), proposer, "verif c14", fmt.Sprintf("proposal %d", w.h.Height), "text", v1.ProposalType_PROPOSAL_TYPE_STANDARD)
		if err != nil {
			panic(err)
		}
		var id uint64
		err = w.exec("gov-submit", proposer, func(ctx sdk.Context) (gogoproto.Message, error) {
			resp, e := w.gov.SubmitProposal(ctx, msg)
			if e == nil {
				id = resp.ProposalId
			}
			return resp, e
		})
		if err == nil {
			w.prop = &propInfo{id: id, valVoters: map[int]bool{}}
		}
		return
	}
	if w.prop.voters >= 4 && r.Chance(1, 2) {
		p, err := w.h.App.GovKeeper.Params.Get(w.h.Ctx())
		if err != nil {
			panic(err)
		}
		w.endBlock(*p.VotingPeriod + time.Second) // the proposal is tallied in this block
		w.prop = nil
		return
	}
	var voter, who string
	valVoter := -1
	if r.Chance(3, 5) {
		v := r.Intn(len(w.vals))
		voter, who = w.vals[v].Acc.String(), fmt.Sprintf("val %d", v)
		valVoter = v
	} else {
		a := 1 + r.Intn(3)
		voter, who = w.h.Accts[a].Addr.String(), fmt.Sprintf("acct %d", a)
	}
	if r.Chance(1, 3) {
		opts := v1.WeightedVoteOptions{
			{Option: v1.OptionYes, Weight: "0.6"}, {Option: v1.OptionNo, Weight: "0.3"}, {Option: v1.OptionAbstain, Weight: "0.1"}}
		err := w.exec("gov-vote-weighted", who, func(ctx sdk.Context) (gogoproto.Message, error) {
			return w.gov.VoteWeighted(ctx, v1.NewMsgVoteWeighted(voter, w.prop.id, opts, ""))
		})
		if err == nil {
			w.prop.voters++
			if valVoter >= 0 {
				w.prop.valVoters[valVoter] = true
			}
		}
		return
	}
	opt := emit.Pick(r, v1.OptionYes, v1.OptionYes, v1.OptionNo, v1.OptionAbstain, v1.OptionNoWithVeto)
	err := w.exec("gov-vote", fmt.Sprintf("%s %s", who, opt), func(ctx sdk.Context) (gogoproto.Message, error) {
		return w.gov.Vote(ctx, v1.NewMsgVote(voter, w.prop.id, opt, ""))
	})
	if err == nil {
		w.prop.voters++
		if valVoter >= 0 {
			w.prop.valVoters[valVoter] = true
		}
	}
}

// warmups: what a process did before it runs the compared history H. Every warm-up is a whole
// other chain (own genesis, own application instance, closed afterwards) driven by the same
// operation generator, on a validator set of another size and/or another replication factor, so
// that whatever the implementation keeps in process memory (package-level caches, pools,
// generators) has been exercised with other parameters; the shard-index queries are the read-only
// gRPC handlers a public node answers at any time.
type warmup struct {
	Name    string `json:"name"`
	NumVals int    `json:"validators"`
	RF      string `json:"replication_factor"`
	Ops     int    `json:"ops"`
	Queries bool   `json:"shard_index_queries"`
}

var warmups = []warmup{
	{Name: "W1", NumVals: 20, RF: "", Ops: 120, Queries: true},
	{Name: "W2", NumVals: 3, RF: "2.0", Ops: 120, Queries: true},
	{Name: "W3", NumVals: 12, RF: "9.0", Ops: 200, Queries: false},
}

func runWarmup(wu warmup, seed int64) error {
	w := newWorld(seed+1_000_003, worldOpts{NumVals: wu.NumVals, RF: wu.RF, NoDumps: true})
	defer w.h.Close()
	w.setup()
	w.loop(wu.Ops)
	w.endBlock(time.Second)
	if wu.Queries {
		qs := dakeeper.NewQueryServerImpl(w.h.App.DaKeeper)
		for _, v := range w.vals {
			for n := uint64(1); n <= 12; n++ {
				if _, err := qs.ValidatorShardIndices(w.h.Ctx(), &datypes.QueryValidatorShardIndicesRequest{ValidatorAddress: v.Oper, ShardCount: n}); err != nil {
					return fmt.Errorf("warm-up query: %w", err)
				}
			}
		}
	}
	return nil
}

// runHistory executes the history of (seed, n): n operations after a fixed setup.
func runHistory(seed int64, n int, o worldOpts) (*childOut, error) {
	w := newWorld(seed, o)
	defer w.h.Close()
	w.setup()
	w.loop(n)
	w.endBlock(time.Second)
	return w.out, nil
}

func (w *world) loop(n int) {
	for i := 0; i < n && !w.stopped; i++ {
		switch k := w.r.Intn(100); {
		case k < 12:
			w.opSendTx()
		case k < 16:
			w.opConvert()
		case k < 23:
			w.opPosition()
		case k < 33:
			w.opSwap()
		case k < 47:
			w.opVoteGauge()
		case k < 52:
			w.opDelegate(1+w.r.Intn(5), w.r.Intn(len(w.vals)), int64(1+w.r.Intn(5_000_000)))
		case k < 64:
			w.opDa()
		case k < 73:
			w.opGov()
		case k < 80:
			w.opMultiDefect()
		case k < 88:
			w.opLateLimit()
		default:
			w.endBlock(time.Duration(1+w.r.Intn(10)) * time.Second)
		}
	}
}
