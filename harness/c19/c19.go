// Package c19: genesis export/import of the custom modules, observed on the real application.
//
// One history = a fresh application driven through real messages (pools, positions, swaps,
// gauge votes, blocks) and exported keeper setters (DA records, share-class and self-delegation
// state, in-flight swap packets).  Then, for each of the eight custom modules: the raw KV store
// is dumped, the real ExportGenesis is run (through the module manager, as app/export.go does),
// a second application runs InitChain on the exported sections, and its store is dumped again.
// Each (history, module) pair is one Coq case for Sys/C19Check.v.
package c19

import (
	"bytes"
	"encoding/json"
	"fmt"
	"sort"

	sdk "github.com/cosmos/cosmos-sdk/types"

	"github.com/sunriselayer/sunrise/app"

	"verifharness/apph"
	"verifharness/emit"
)

// field tables, in the order of Sys/Genesis.v (the check compares the prefixes with the model's)
type modTable struct {
	name     string
	prefixes []string
	lost     map[int]bool
}

var tables = []modTable{
	{"da", []string{"params/", "published_data/", "published_data_by_status_time/", "challenge_counts/", "fault_counts/", "proofs/", "invalidities/", "proof_deputies/"}, map[int]bool{3: true, 4: true, 6: true, 7: true}},
	{"fee", []string{"params"}, nil},
	{"liquidityincentive", []string{"params/", "epochs/", "epoch_id/", "gauges/", "votes/"}, nil},
	{"liquiditypool", []string{"params/", "pools/", "pool_id/", "positions/", "position_id/", "positions_by_pool_id/", "positions_by_address/", "tick_info/", "accumulator/", "accumulator_position/"}, map[int]bool{7: true}},
	{"selfdelegation", []string{"params/", "lockup_accounts/", "self_delegation_proxies/"}, map[int]bool{1: true, 2: true}},
	{"shareclass", []string{"params/", "unbondings/", "unbondings_by_address/", "unbondings_by_completion_time/", "unbonding_id/", "reward_multiplier/", "users_last_reward_multiplier/", "last_reward_handling_time/"}, map[int]bool{1: true, 2: true, 3: true, 4: true, 5: true, 6: true, 7: true}},
	{"swap", []string{"params/", "incoming_in_flight_packets/", "outgoing_in_flight_packets/"}, nil},
	{"tokenconverter", []string{"params/", "self_delegation_proxies/"}, nil},
}

func moduleNames() []string {
	out := make([]string, len(tables))
	for i, t := range tables {
		out[i] = t.name
	}
	return out
}

type kv struct{ K, V []byte }

// dump returns every key/value of a module's store, in key order.
func dump(a *app.App, ctx sdk.Context, name string) []kv {
	key := a.GetKey(name)
	if key == nil {
		panic("no store key for module " + name)
	}
	it := ctx.KVStore(key).Iterator(nil, nil)
	defer it.Close()
	var out []kv
	for ; it.Valid(); it.Next() {
		out = append(out, kv{append([]byte{}, it.Key()...), append([]byte{}, it.Value()...)})
	}
	return out
}

// group splits a dump by the module's prefixes; keys under no prefix go to unknown.
func group(t modTable, kvs []kv) (fields [][]kv, unknown []kv) {
	fields = make([][]kv, len(t.prefixes))
	for _, e := range kvs {
		hit := -1
		for i, p := range t.prefixes {
			if bytes.HasPrefix(e.K, []byte(p)) {
				if hit >= 0 {
					panic("prefix table is not prefix-free")
				}
				hit = i
			}
		}
		if hit < 0 {
			unknown = append(unknown, e)
		} else {
			fields[hit] = append(fields[hit], e)
		}
	}
	return
}

// wipe deletes every key of the module's store in ctx.
func wipe(a *app.App, ctx sdk.Context, name string) {
	st := ctx.KVStore(a.GetKey(name))
	for _, e := range dump(a, ctx, name) {
		st.Delete(e.K)
	}
}

// interner maps the byte strings of one observation to integers; keys by rank (so that integer
// order is byte order), values by first appearance.
type interner struct {
	keys   map[string]bool
	rank   map[string]int
	values map[string]int
}

func newInterner() *interner {
	return &interner{keys: map[string]bool{}, values: map[string]int{}}
}
func (n *interner) addKey(k []byte) { n.keys[string(k)] = true }
func (n *interner) seal() {
	ks := make([]string, 0, len(n.keys))
	for k := range n.keys {
		ks = append(ks, k)
	}
	sort.Strings(ks)
	n.rank = map[string]int{}
	for i, k := range ks {
		n.rank[k] = i + 1
	}
}
func (n *interner) key(k []byte) string { return fmt.Sprint(n.rank[string(k)]) }
func (n *interner) val(v []byte) string {
	id, ok := n.values[string(v)]
	if !ok {
		id = len(n.values) + 1
		n.values[string(v)] = id
	}
	return fmt.Sprint(id)
}
func (n *interner) store(kvs []kv) string {
	xs := make([]string, len(kvs))
	for i, e := range kvs {
		xs[i] = emit.Tuple(n.key(e.K), n.val(e.V))
	}
	return emit.List(xs)
}

// observation of one module
type obs struct {
	mod                     int
	before, after           [][]kv
	unknownBefore, unknownA []kv
	images                  []struct {
		field int
		key   []byte
		img   []struct {
			field int
			e     kv
		}
	}
	cdef map[int]kv
	fail string
	// the export of the freshly initialised chain equals the export it was initialised from
	reexportSame bool
}

func byteList(s string) string { return emit.Bytes([]byte(s)) }

func (o *obs) coq() string {
	t := tables[o.mod]
	n := newInterner()
	for _, f := range o.before {
		for _, e := range f {
			n.addKey(e.K)
		}
	}
	for _, f := range o.after {
		for _, e := range f {
			n.addKey(e.K)
		}
	}
	for _, e := range o.unknownBefore {
		n.addKey(e.K)
	}
	for _, e := range o.unknownA {
		n.addKey(e.K)
	}
	for _, im := range o.images {
		n.addKey(im.key)
		for _, w := range im.img {
			n.addKey(w.e.K)
		}
	}
	for _, e := range o.cdef {
		n.addKey(e.K)
	}
	n.seal()
	pf := make([]string, len(t.prefixes))
	for i, p := range t.prefixes {
		pf[i] = byteList(p)
	}
	bf := make([]string, len(o.before))
	for i, f := range o.before {
		bf[i] = n.store(f)
	}
	var imgs []string
	for _, im := range o.images {
		ws := make([]string, len(im.img))
		for i, w := range im.img {
			ws[i] = emit.Tuple(fmt.Sprintf("%d%%nat", w.field), emit.Tuple(n.key(w.e.K), n.val(w.e.V)))
		}
		imgs = append(imgs, emit.Tuple(fmt.Sprintf("%d%%nat", im.field), n.key(im.key), emit.List(ws)))
	}
	var cds []string
	var cfs []int
	for f := range o.cdef {
		cfs = append(cfs, f)
	}
	sort.Ints(cfs)
	for _, f := range cfs {
		e := o.cdef[f]
		cds = append(cds, emit.Tuple(fmt.Sprintf("%d%%nat", f), emit.Tuple(n.key(e.K), n.val(e.V))))
	}
	after := "None"
	if o.fail == "" {
		af := make([]string, len(o.after))
		for i, f := range o.after {
			af[i] = n.store(f)
		}
		after = "(Some " + emit.Tuple(emit.List(af), n.store(o.unknownA)) + ")"
	}
	return fmt.Sprintf("{| go_module := %d; go_prefixes := %s; go_before := %s; go_unknown_before := %s; go_img := %s; go_cdef := %s; go_after := %s; go_reexport_same := %s |}",
		o.mod, emit.List(pf), emit.List(bf), n.store(o.unknownBefore), emit.List(imgs), emit.List(cds), after, emit.Bool(o.reexportSame))
}

// observe exports the custom modules of h, imports them into a fresh application and returns one
// observation per module.
func observe(h *apph.H) ([]*obs, error) {
	ctx := h.Ctx()
	mods := moduleNames()
	out := make([]*obs, len(tables))
	for i, t := range tables {
		o := &obs{mod: i, cdef: map[int]kv{}}
		o.before, o.unknownBefore = group(t, dump(h.App, ctx, t.name))
		if err := imagesOf(h, ctx, i, o); err != nil {
			return nil, fmt.Errorf("%s: setter images: %w", t.name, err)
		}
		out[i] = o
	}
	// the real export, as app/export.go runs it (module manager, JSON)
	var exported map[string]json.RawMessage
	var experr error
	func() {
		defer func() {
			if r := recover(); r != nil {
				experr = fmt.Errorf("panic: %v", r)
			}
		}()
		exported, experr = h.App.ModuleManager.ExportGenesisForModules(ctx, mods)
	}()
	if experr != nil {
		for _, o := range out {
			o.fail = "export: " + experr.Error()
		}
		return out, nil
	}
	// a fresh chain initialised from the exported sections
	fresh, err := apph.NewInitChainOnly(apph.Options{NumAccounts: len(h.Accts), Mutate: func(gs map[string]json.RawMessage, _ *app.App) {
		for _, m := range mods {
			gs[m] = exported[m]
		}
	}})
	if err != nil {
		for _, o := range out {
			o.fail = "init: " + err.Error()
		}
		return out, nil
	}
	defer fresh.Close()
	fctx := fresh.InitChainCtx()
	for i, t := range tables {
		out[i].after, out[i].unknownA = group(t, dump(fresh.App, fctx, t.name))
	}
	// export -> import -> export: the second export must be the first one, section by section
	var again map[string]json.RawMessage
	var againErr error
	func() {
		defer func() {
			if r := recover(); r != nil {
				againErr = fmt.Errorf("panic: %v", r)
			}
		}()
		again, againErr = fresh.App.ModuleManager.ExportGenesisForModules(fctx, mods)
	}()
	for i, t := range tables {
		out[i].reexportSame = againErr == nil && bytes.Equal(exported[t.name], again[t.name])
	}
	return out, nil
}

// Run generates n cases (n/8 histories, eight modules each) and writes cases + stats into outDir.
func Run(seed int64, n int, outDir string) error {
	r := emit.NewRand(seed)
	st := emit.NewStats("C19", seed,
		"one case = one custom module of one application state reached by a generated history: raw store dump, real ExportGenesis (module manager), InitChain of a fresh application on the export, dump again, compared per prefix with Sys/Genesis.init(export). Non-trivial = the module had at least one entry under every prefix that a store uses; distinct by (module, number of entries per prefix)")
	cf := &emit.CasesFile{Import: "Sys.C19Check", Runner: "run", Type: "c19_obs"}
	hist := (n + len(tables) - 1) / len(tables)
	if hist < 1 {
		hist = 1
	}
	for k := 0; k < hist; k++ {
		richness := 2
		if k == 0 {
			richness = 0 // corpus: the untouched default genesis
		} else if k == 1 {
			richness = 3 // corpus: every prefix populated
		} else if k == 2 {
			richness = 4 // corpus: every collection beyond any page limit (bulk, through setters)
		} else if r.Chance(1, 3) {
			richness = 3
		} else if r.Chance(1, 5) {
			richness = 1
		}
		h := apph.New(apph.Options{NumAccounts: 5})
		var log []string
		var err error
		if richness == 4 {
			log, err = largeHistory(h, r)
		} else {
			log, err = history(h, r, richness)
		}
		if err != nil {
			h.Close()
			return fmt.Errorf("history %d: %w", k, err)
		}
		os, err := observe(h)
		h.Close()
		if err != nil {
			return fmt.Errorf("history %d: %w", k, err)
		}
		for _, op := range log {
			if op == NegativeBaselineNote {
				st.Count("history/negative-fee-baseline-by-messages")
			}
		}
		for _, o := range os {
			t := tables[o.mod]
			cf.Add(o.coq())
			st.Evaluations++
			counts := make([]int, len(o.before))
			lostNonEmpty := []string{}
			full := true
			for i, f := range o.before {
				counts[i] = len(f)
				if len(f) == 0 && !(t.name == "tokenconverter" && i == 1) {
					full = false
				}
				if t.lost[i] && len(f) > 0 {
					lostNonEmpty = append(lostNonEmpty, t.prefixes[i])
				}
			}
			changed := []string{}
			if o.fail == "" {
				for i := range o.before {
					if !sameKVs(o.before[i], o.after[i]) {
						changed = append(changed, t.prefixes[i])
					}
				}
			}
			if o.fail == "" && !o.reexportSame {
				st.Count(t.name + "/second-export-differs")
			}
			if richness == 4 {
				st.Count(t.name + "/large-state")
			}
			info := map[string]any{"reexport_same": o.reexportSame, "history": k, "richness": richness, "module": t.name, "entries_per_prefix": counts,
				"unexported_nonempty": lostNonEmpty, "prefixes_that_differ_after_import": changed, "ops": log}
			if o.fail != "" {
				info["failure"] = o.fail
				st.Count(t.name + "/export-or-import-failed")
			}
			st.Info(info)
			st.Count(t.name + "/observed")
			if len(changed) == 0 && o.fail == "" {
				st.Count(t.name + "/round-trip-identical")
			} else {
				st.Count(t.name + "/round-trip-differs")
			}
			if full {
				st.Nontriv(fmt.Sprintf("%s/%v", t.name, counts))
				st.Sample(map[string]any{"module": t.name, "entries_per_prefix": counts, "differs": changed})
			}
		}
	}
	if _, err := cf.Write(outDir, "cases", 8); err != nil {
		return err
	}
	return st.Write(outDir)
}

func sameKVs(a, b []kv) bool {
	if len(a) != len(b) {
		return false
	}
	for i := range a {
		if !bytes.Equal(a[i].K, b[i].K) || !bytes.Equal(a[i].V, b[i].V) {
			return false
		}
	}
	return true
}

