#!/bin/sh
# Full .vo build of the Coq development (never -vos/-vok). Regenerates the file list so that
# newly added files are picked up. Usage: build.sh [clean]
set -e
cd "$(dirname "$0")"
if [ "$1" = clean ]; then
  find . -name '*.vo' -o -name '*.vok' -o -name '*.vos' -o -name '*.glob' -o -name '.*.aux' | xargs rm -f
  rm -f Makefile.coq Makefile.coq.conf .Makefile.coq.d
  shift
fi
{ cat _CoqProject; find . -name '*.v' -not -path './cases/*' | sed 's|^\./||' | sort; } > _CoqProject.gen
if [ ! -f Makefile.coq ] || ! cmp -s _CoqProject.gen _CoqProject.used; then
  cp _CoqProject.gen _CoqProject.used
  coq_makefile -f _CoqProject.used -o Makefile.coq >/dev/null
fi
exec timeout 3600 make -f Makefile.coq -j16 "${@:-all}" 2>&1
