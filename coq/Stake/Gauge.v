(* /repo x/liquidityincentive: gauge voting, epochs, per-block emission split.
     keeper/keeper_tally.go              Tally              -> gauge_tally
     keeper/msg_server_vote_gauge.go     VoteGauge          -> vote_gauge
     keeper/abci.go                      CreateEpoch        -> create_epoch
                                         EndBlocker         -> end_block
                                         BeginBlocker       -> begin_block
     keeper/store_epoch.go, store_gauge.go, store_vote.go   -> ordered association lists
   Staking (validators, delegations, bonded total), the bank balance of the fee collector and
   the liquidity pools (does a pool accept an incentive?) are inputs read from the application.
   [None] / [Panic] = the Go code panics. *)
From Coq Require Import ZArith Bool List.
Import ListNotations.
From Sunrise Require Import Base.Outcome Base.Dec Stake.TallyCore.
Local Open Scope Z_scope.
Local Open Scope res_scope.

(* ---------- Tally (keeper_tally.go) ---------- *)
(* results start empty, keys are pool ids; the returned list is sorted by pool id with
   Count = TruncateInt; no bonded tokens at all -> empty result (checked last, as in the source) *)
Definition gauge_tally (vals : list val) (bs : list ballot) (bonded : Z) : option (list (Z * Z)) :=
  let? (r) := core (map init_vi vals) [] bs in
  let '(_, res, _) := r in
  if bonded =? 0 then Some []
  else Some (map (fun kv => (fst kv, dtrunc_int (snd kv))) res).

(* ---------- MsgVoteGauge (msg_server_vote_gauge.go) ---------- *)
Definition E_BAD_SENDER : Z := 1.
Definition E_INVALID_WEIGHT : Z := 3.      (* types.ErrInvalidWeight *)
Definition E_TOTAL_GT_ONE : Z := 2.        (* types.ErrTotalWeightGTOne *)
Definition E_POOL_NOT_FOUND : Z := 1101.   (* liquiditypooltypes.ErrPoolNotFound *)

(* a weight is the string of the message parsed by LegacyNewDecFromStr: None = does not parse.
   Per weight (in order): parse, not negative, not above one (all ErrInvalidWeight), then the running
   total must not exceed one (ErrTotalWeightGTOne) - the checks sit inside the loop since /repo
   commit 7461485 ("bound gauge vote weights inside the validation loop"). *)
Fixpoint sum_weights (ws : list (Z * option Z)) (acc : Z) : res Z :=
  match ws with
  | [] => Ok acc
  | (_, None) :: _ => Err E_INVALID_WEIGHT
  | (_, Some w) :: tl =>
      if w <? 0 then Err E_INVALID_WEIGHT
      else if P <? w then Err E_INVALID_WEIGHT
      else match dadd acc w with
           | Some a => if P <? a then Err E_TOTAL_GT_ONE else sum_weights tl a
           | None => Panic
           end
  end.

Definition weights_of (ws : list (Z * option Z)) : list (Z * Z) :=
  map (fun pw => (fst pw, match snd pw with Some w => w | None => 0 end)) ws.

(* votes[address] -> pool weights, kept sorted by address *)
Definition vstore := list (Z * list (Z * Z)).
Fixpoint vset (a : Z) (w : list (Z * Z)) (s : vstore) : vstore :=
  match s with
  | [] => [(a, w)]
  | (a', w') :: tl => if a =? a' then (a, w) :: tl
                      else if a <? a' then (a, w) :: s
                      else (a', w') :: vset a w tl
  end.
Fixpoint vget (a : Z) (s : vstore) : option (list (Z * Z)) :=
  match s with
  | [] => None
  | (a', w') :: tl => if a =? a' then Some w' else vget a tl
  end.

Definition vote_gauge (sender_ok : bool) (pools : list Z) (s : vstore) (sender : Z)
  (ws : list (Z * option Z)) : res vstore :=
  if negb sender_ok then Err E_BAD_SENDER else
  let! tot := sum_weights ws 0 in
  if forallb (fun pw => existsb (Z.eqb (fst pw)) pools) ws
  then Ok (vset sender (weights_of ws) s)
  else Err E_POOL_NOT_FOUND.

(* ---------- epochs and gauges (abci.go, store_epoch.go, store_gauge.go) ---------- *)
Record gauge := { g_prev : Z; g_pool : Z; g_count : Z }.
Record epoch := { e_id : Z; e_start : Z; e_end : Z; e_gauges : list gauge }.
Record istate := {
  s_epochs : list epoch;     (* Epochs collection, ascending id *)
  s_gauges : list gauge      (* Gauges collection, ascending (previous epoch id, pool id) *)
}.

Definition gkey_lt (a b : gauge) : bool :=
  (g_prev a <? g_prev b) || ((g_prev a =? g_prev b) && (g_pool a <? g_pool b)).
Definition gkey_eq (a b : gauge) : bool := (g_prev a =? g_prev b) && (g_pool a =? g_pool b).
Fixpoint gset (g : gauge) (s : list gauge) : list gauge :=
  match s with
  | [] => [g]
  | g' :: tl => if gkey_eq g g' then g :: tl else if gkey_lt g g' then g :: s else g' :: gset g tl
  end.
Fixpoint gdel (g : gauge) (s : list gauge) : list gauge :=
  match s with
  | [] => []
  | g' :: tl => if gkey_eq g g' then tl else g' :: gdel g tl
  end.
Fixpoint eset (e : epoch) (s : list epoch) : list epoch :=
  match s with
  | [] => [e]
  | e' :: tl => if e_id e =? e_id e' then e :: tl else if e_id e <? e_id e' then e :: s else e' :: eset e tl
  end.
Definition last_epoch (s : list epoch) : option epoch := last (map Some s) None.

(* CreateEpoch: tally, one gauge per result, store them, store the epoch. No result -> nothing. *)
Definition create_epoch (st : istate) (prev id height epoch_blocks : Z) (tally : res (list (Z * Z)))
  : res istate :=
  let! results := tally in
  match results with
  | [] => Ok st
  | _ =>
      let gs := map (fun r => {| g_prev := prev; g_pool := fst r; g_count := snd r |}) results in
      Ok {| s_epochs := eset {| e_id := id; e_start := height; e_end := height + epoch_blocks; e_gauges := gs |}
                             (s_epochs st);
            s_gauges := fold_left (fun s g => gset g s) gs (s_gauges st) |}
  end.

(* EndBlocker. An error of CreateEpoch is logged and swallowed (no pruning then); it never
   returns an error for the modelled stores. *)
Definition end_block (st : istate) (height epoch_blocks : Z) (tally : res (list (Z * Z))) : res istate :=
  match last_epoch (s_epochs st) with
  | None =>
      match create_epoch st 0 1 height epoch_blocks tally with
      | Ok st' => Ok st'
      | Err _ => Ok st
      | Panic => Panic
      end
  | Some le =>
      if e_end le <=? height then
        match create_epoch st (e_id le) (e_id le + 1) height epoch_blocks tally with
        | Ok st' =>
            match s_epochs st' with
            | e0 :: (_ :: _ :: _) as rest =>
                Ok {| s_epochs := rest;
                      s_gauges := fold_left (fun s g => gdel g s) (e_gauges e0) (s_gauges st') |}
            | _ => Ok st'
            end
        | Err _ => Ok st
        | Panic => Panic
        end
      else Ok st
  end.

(* ---------- BeginBlocker: the emission split ---------- *)
(* what liquiditypool's AllocateIncentive does with a positive allocation for this pool *)
Inductive pool_status :=
| PoolOk        (* pool with positions and in-range liquidity: the coins are sent *)
| PoolErr       (* pool missing or without positions: error, logged by the caller *)
| PoolZeroLiq.  (* positions but zero in-range liquidity. Pinned commit: DecCoins.QuoDecTruncate(0)
                   panics (in BeginBlock: the chain halts). After
                   notes/patches/C17-allocate-incentive-zero-liquidity.patch: ErrEmptyLiquidity, logged *)

Fixpoint total_count (gs : list gauge) (acc : Z) : option Z :=
  match gs with
  | [] => Some acc
  | g :: tl => let? a := dadd acc (g_count g * P) in total_count tl a
  end.

(* weight = Dec(count).Quo(totalCount); allocation = TruncateDecimal(Dec(balance).MulTruncate(weight)) *)
Definition alloc_of (balance total cnt : Z) : option Z :=
  let? w := dquo (cnt * P) total in
  if (w =? 0) || (balance =? 0) then Some 0
  else (let? a := dmulT (balance * P) w in Some (dtrunc_int a)).

(* one gauge after the other, every allocation computed from the balance read at the start;
   the bank refuses a send the fee collector cannot cover (error, logged).
   [repaired] selects the behaviour on a pool without in-range liquidity. *)
Fixpoint allocate (repaired : bool) (balance total : Z) (gs : list (gauge * pool_status)) (remaining : Z)
  : option (list Z * Z) :=
  match gs with
  | [] => Some ([], remaining)
  | (g, ps) :: tl =>
      let? a := alloc_of balance total (g_count g) in
      let skip := (let? (r) := allocate repaired balance total tl remaining in Some (0 :: fst r, snd r)) in
      if 0 <? a then
        match ps with
        | PoolZeroLiq => if repaired then skip else None
        | PoolErr => skip
        | PoolOk =>
            if a <=? remaining
            then (let? (r) := allocate repaired balance total tl (remaining - a) in Some (a :: fst r, snd r))
            else skip
        end
      else skip
  end.

(* result: amount received by the pool of each gauge of the last epoch (in order) and what is
   left in the fee collector *)
Definition begin_block_gen (repaired : bool) (balance : Z) (last : option epoch) (status : Z -> pool_status)
  : option (list Z * Z) :=
  match last with
  | None => Some ([], balance)
  | Some e =>
      let? total := total_count (e_gauges e) 0 in
      if total =? 0 then Some (map (fun _ => 0) (e_gauges e), balance)
      else allocate repaired balance total (map (fun g => (g, status (g_pool g))) (e_gauges e)) balance
  end.
Definition begin_block := begin_block_gen true.
Definition begin_block_orig := begin_block_gen false.

(* the allocations as computed, before pools / bank have their say *)
Fixpoint allocs (balance total : Z) (gs : list gauge) : option (list Z) :=
  match gs with
  | [] => Some []
  | g :: tl => let? a := alloc_of balance total (g_count g) in
               let? r := allocs balance total tl in Some (a :: r)
  end.
