package c15

import (
	"fmt"
	"math/big"
	"reflect"
	"strings"

	sdkmath "cosmossdk.io/math"

	"verifharness/emit"
)

// Width-aliasing edge values.  A bound that is checked after a conversion to a narrower (or
// differently signed) integer type accepts values that alias a valid one: v + k*2^32 looks like v
// as a uint32, v + 2^31 flips the sign of an int32, and so on for 16 and 8 bits.  For every
// anchor v (0, 1, the valid value of the field, the counts of the world: number of shards, pools,
// positions, epochs, and those +-1) the grid holds v +- 2^32*k (k = 1, 2, 2^8), v +- 2^31,
// v +- 2^16, v +- 2^8, v +- 2^63, v +- 2^64, and the extremes of every width.  The values are
// unbounded integers; a field takes them modulo its own width (two's complement), a math.Int or
// a decimal string takes them as they are.

var aliasOffsets = func() []*big.Int {
	var out []*big.Int
	for _, e := range []uint{8, 16, 31, 32, 33, 40, 63, 64} {
		out = append(out, pow2(e), new(big.Int).Neg(pow2(e)))
	}
	return out
}()

var widthExtremes = func() []*big.Int {
	var out []*big.Int
	for _, w := range []uint{8, 16, 32, 64} {
		out = append(out,
			new(big.Int).Sub(pow2(w-1), big.NewInt(1)), // max signed
			new(big.Int).Neg(pow2(w-1)),                // min signed
			new(big.Int).Sub(pow2(w), big.NewInt(1)),   // max unsigned
			pow2(w))                                    // one past max unsigned
	}
	return out
}()

// aliasGrid lists the aliasing values for the given anchors.
func aliasGrid(anchors []int64) []*big.Int {
	seen := map[string]bool{}
	var out []*big.Int
	add := func(x *big.Int) {
		if k := x.String(); !seen[k] {
			seen[k] = true
			out = append(out, x)
		}
	}
	for _, a := range anchors {
		for _, d := range []int64{-1, 0, 1} { // the anchor itself and its neighbours (bounds of validated integers)
			add(big.NewInt(a + d))
		}
		for _, off := range aliasOffsets {
			add(new(big.Int).Add(big.NewInt(a), off))
		}
	}
	for _, x := range widthExtremes {
		add(x)
	}
	return out
}

// wrap reduces x to the given width (two's complement for signed kinds).
func wrapInt(x *big.Int, bits uint, signed bool) *big.Int {
	m := new(big.Int).Mod(x, pow2(bits))
	if signed && m.Cmp(pow2(bits-1)) >= 0 {
		m.Sub(m, pow2(bits))
	}
	return m
}

// anchors of the world: small counts an index or id is compared with.
func (w *world) anchors() []int64 {
	v := w.view()
	seen := map[int64]bool{}
	var out []int64
	for _, c := range []int64{0, 1, 3 /* shards of the DA items */, int64(v.nPools), int64(v.nPositions), int64(v.nEpochs)} {
		for _, d := range []int64{-1, 0, 1} {
			if x := c + d; !seen[x] {
				seen[x] = true
				out = append(out, x)
			}
		}
	}
	return out
}

// intLeaf is one integer-valued place of a request: a fixed-width integer field or slice
// element, a math.Int, or a string field holding a decimal integer.
type intLeaf struct {
	name string
	set  func(x *big.Int)
	cur  *big.Int // value in the base request (an anchor)
}

func intLeaves(v reflect.Value, prefix string, out *[]intLeaf, depth int) {
	t := v.Type()
	switch {
	case t == tInt:
		cur := big.NewInt(0)
		if x := v.Interface().(sdkmath.Int); !x.IsNil() {
			cur = x.BigInt()
		}
		*out = append(*out, intLeaf{prefix, func(x *big.Int) {
			if x.BitLen() <= 256 {
				v.Set(reflect.ValueOf(sdkmath.NewIntFromBigInt(x)))
			}
		}, cur})
		return
	case t == tDec || t == tTime || t == tRoute:
		return
	}
	switch t.Kind() {
	case reflect.Int64, reflect.Int32, reflect.Int:
		bits := uint(t.Bits())
		*out = append(*out, intLeaf{prefix, func(x *big.Int) { v.SetInt(wrapInt(x, bits, true).Int64()) }, big.NewInt(v.Int())})
	case reflect.Uint64, reflect.Uint32, reflect.Uint16, reflect.Uint:
		bits := uint(t.Bits())
		*out = append(*out, intLeaf{prefix, func(x *big.Int) { v.SetUint(wrapInt(x, bits, false).Uint64()) }, new(big.Int).SetUint64(v.Uint())})
	case reflect.String:
		if cur, ok := new(big.Int).SetString(v.String(), 10); ok {
			*out = append(*out, intLeaf{prefix, func(x *big.Int) { v.SetString(x.String()) }, cur})
		}
	case reflect.Slice:
		if t.Elem().Kind() == reflect.Uint8 {
			return
		}
		for i := 0; i < v.Len() && i < 2; i++ {
			intLeaves(v.Index(i), fmt.Sprintf("%s[%d]", prefix, i), out, depth-1)
		}
	case reflect.Ptr:
		if !v.IsNil() && t.Elem().Kind() == reflect.Struct && depth > 0 {
			intLeaves(v.Elem(), prefix, out, depth-1)
		}
	case reflect.Struct:
		if depth <= 0 {
			return
		}
		for i := 0; i < t.NumField(); i++ {
			sf := t.Field(i)
			if sf.PkgPath != "" || strings.HasPrefix(sf.Name, "XXX_") {
				continue
			}
			name := sf.Name
			if prefix != "" {
				name = prefix + "." + sf.Name
			}
			intLeaves(v.Field(i), name, out, depth-1)
		}
	}
}

// skipAlias: places whose every large value makes the handler allocate or loop in proportion to
// the value (the harness would not survive); recorded in notes/C15.md.
func skipAlias(key, leaf string, x *big.Int) bool {
	if strings.HasSuffix(leaf, "ShardCount") && x.Sign() > 0 && x.BitLen() > 20 && x.BitLen() < 64 {
		return true
	}
	return false
}

// aliasProbes: for every method with a valid base request and every integer place in it, the
// request with that place set to each value of the aliasing grid around {0, 1, its valid value}
// (everything else valid, so that the handler reaches the code that uses the value).
func (w *world) aliasProbes() []headCase {
	var out []headCase
	for _, m := range w.ms {
		probe := w.base(emit.NewRand(int64(len(m.Key()))*7919+11), m.Key())
		if probe == nil {
			continue
		}
		var ls []intLeaf
		intLeaves(reflect.ValueOf(probe).Elem(), "", &ls, 4)
		for li := range ls {
			anchors := []int64{0, 1}
			if ls[li].cur.IsInt64() {
				anchors = append(anchors, ls[li].cur.Int64())
			}
			for _, x := range aliasGrid(anchors) {
				if skipAlias(m.Key(), ls[li].name, x) {
					continue
				}
				// a fresh copy of the same base request (same generator state)
				req := w.base(emit.NewRand(int64(len(m.Key()))*7919+11), m.Key())
				var cur []intLeaf
				intLeaves(reflect.ValueOf(req).Elem(), "", &cur, 4)
				if li >= len(cur) {
					continue
				}
				cur[li].set(x)
				out = append(out, headCase{m.Key(), req, "alias:" + ls[li].name})
			}
		}
	}
	return out
}

// genAlias draws one aliasing case from the full grid (anchors of the world included).
func (w *world) genAlias(r *emit.Rand, anchors []int64) (headCase, bool) {
	m := w.ms[r.Intn(len(w.ms))]
	req := w.base(r, m.Key())
	if req == nil {
		return headCase{}, false
	}
	var ls []intLeaf
	intLeaves(reflect.ValueOf(req).Elem(), "", &ls, 4)
	if len(ls) == 0 {
		return headCase{}, false
	}
	l := ls[r.Intn(len(ls))]
	as := append([]int64{}, anchors...)
	if l.cur.IsInt64() {
		as = append(as, l.cur.Int64(), l.cur.Int64()+1)
	}
	grid := aliasGrid([]int64{as[r.Intn(len(as))]})
	x := grid[r.Intn(len(grid))]
	if skipAlias(m.Key(), l.name, x) {
		return headCase{}, false
	}
	l.set(x)
	return headCase{m.Key(), req, "alias:" + l.name}, true
}
