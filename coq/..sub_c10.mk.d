Stake/ApdDec.vo Stake/ApdDec.glob Stake/ApdDec.v.beautified Stake/ApdDec.required_vo: Stake/ApdDec.v Base/Outcome.vo
Stake/ApdDec.vio: Stake/ApdDec.v Base/Outcome.vio
Stake/ApdDec.vos Stake/ApdDec.vok Stake/ApdDec.required_vos: Stake/ApdDec.v Base/Outcome.vos
Stake/ShareClass.vo Stake/ShareClass.glob Stake/ShareClass.v.beautified Stake/ShareClass.required_vo: Stake/ShareClass.v Base/Outcome.vo Stake/ApdDec.vo
Stake/ShareClass.vio: Stake/ShareClass.v Base/Outcome.vio Stake/ApdDec.vio
Stake/ShareClass.vos Stake/ShareClass.vok Stake/ShareClass.required_vos: Stake/ShareClass.v Base/Outcome.vos Stake/ApdDec.vos
Stake/ShareClassProofs.vo Stake/ShareClassProofs.glob Stake/ShareClassProofs.v.beautified Stake/ShareClassProofs.required_vo: Stake/ShareClassProofs.v Base/Outcome.vo Stake/ApdDec.vo Stake/ShareClass.vo
Stake/ShareClassProofs.vio: Stake/ShareClassProofs.v Base/Outcome.vio Stake/ApdDec.vio Stake/ShareClass.vio
Stake/ShareClassProofs.vos Stake/ShareClassProofs.vok Stake/ShareClassProofs.required_vos: Stake/ShareClassProofs.v Base/Outcome.vos Stake/ApdDec.vos Stake/ShareClass.vos
Stake/C10Check.vo Stake/C10Check.glob Stake/C10Check.v.beautified Stake/C10Check.required_vo: Stake/C10Check.v Base/Outcome.vo Base/Check.vo Stake/ApdDec.vo Stake/ShareClass.vo
Stake/C10Check.vio: Stake/C10Check.v Base/Outcome.vio Base/Check.vio Stake/ApdDec.vio Stake/ShareClass.vio
Stake/C10Check.vos Stake/C10Check.vok Stake/C10Check.required_vos: Stake/C10Check.v Base/Outcome.vos Base/Check.vos Stake/ApdDec.vos Stake/ShareClass.vos
Props/C10.vo Props/C10.glob Props/C10.v.beautified Props/C10.required_vo: Props/C10.v Base/Outcome.vo Stake/ApdDec.vo Stake/ShareClass.vo Stake/ShareClassProofs.vo
Props/C10.vio: Props/C10.v Base/Outcome.vio Stake/ApdDec.vio Stake/ShareClass.vio Stake/ShareClassProofs.vio
Props/C10.vos Props/C10.vok Props/C10.required_vos: Props/C10.v Base/Outcome.vos Stake/ApdDec.vos Stake/ShareClass.vos Stake/ShareClassProofs.vos
