// verifharness runs the real sunrise application for one property and writes the
// observations as Coq terms (cases_*.v) plus stats.json.
package main

import (
	"flag"
	"fmt"
	"os"
	"time"

	"verifharness/apph"
	"verifharness/c01"
	"verifharness/c02"
	"verifharness/c03"
	"verifharness/c04"
	"verifharness/c05"
	"verifharness/c06"
	"verifharness/c07"
	"verifharness/c08"
	"verifharness/c09"
	"verifharness/c10"
	"verifharness/c11"
	"verifharness/c12"
	"verifharness/c13"
	"verifharness/c14"
	"verifharness/c15"
	"verifharness/c16"
	"verifharness/c17"
	"verifharness/c18"
	"verifharness/c19"
	"verifharness/c20"
)

type runner func(seed int64, n int, out string) error

var props = map[string]runner{
	"c01": c01.Run,
	"c02": c02.Run,
	"c03": c03.Run,
	"c04": c04.Run,
	"c05": c05.Run,
	"c06": c06.Run,
	"c07": c07.Run,
	"c08": c08.Run,
	"c09": c09.Run,
	"c10": c10.Run,
	"c11": c11.Run,
	"c12": c12.Run,
	"c13": c13.Run,
	"c14": c14.Run,
	"c15": c15.Run,
	"c16": c16.Run,
	"c17": c17.Run,
	"c18": c18.Run,
	"c19": c19.Run,
	"c20": c20.Run,
}

func main() {
	if len(os.Args) < 2 {
		fmt.Println("usage: verifharness <prop|smoke> -seed N -n K -out DIR")
		os.Exit(2)
	}
	cmd := os.Args[1]
	fs := flag.NewFlagSet(cmd, flag.ExitOnError)
	seed := fs.Int64("seed", 1, "PRNG seed")
	n := fs.Int("n", 100, "number of generated cases")
	out := fs.String("out", ".", "output directory")
	fs.Parse(os.Args[2:])
	if cmd == "smoke" {
		t0 := time.Now()
		h := apph.New(apph.Options{})
		defer h.Close()
		for i := 0; i < 5; i++ {
			if _, err := h.NextBlock(time.Second); err != nil {
				fmt.Println("ERR", err)
				os.Exit(1)
			}
		}
		fmt.Println("ok height", h.Height, time.Since(t0), "uvrise send enabled:", h.App.BankKeeper.IsSendEnabledDenom(h.Ctx(), "uvrise"))
		return
	}
	f, ok := props[cmd]
	if !ok {
		fmt.Println("unknown property", cmd)
		os.Exit(2)
	}
	if err := os.MkdirAll(*out, 0o755); err != nil {
		panic(err)
	}
	if err := f(*seed, *n, *out); err != nil {
		fmt.Println("HARNESS-ERROR", err)
		os.Exit(3)
	}
}
