(* x/shareclass (non-voting delegation), executable model.
   Covers: types/types.go (CalculateShareByAmount, CalculateAmountByShare, CalculateReward,
   CalculateRewardMultiplierNew), keeper/keeper_share.go, keeper_claim.go (with the repair
   "checkpoint written when claiming"), msg_server_non_voting_delegate.go,
   msg_server_non_voting_undelegate.go, msg_server_claim_rewards.go, keeper_rewards.go
   (HandleModuleAccountRewards), keeper_withdraw.go + store_unbonding.go (GarbageCollectUnbonded,
   with the repair "entries completing later in the current second are skipped"), abci.go.
   x/staking, x/distribution, x/bank MsgSend and x/tokenconverter are oracles: their answers are
   inputs of the step ([oracle]) read from the running application; what the model assumes of
   them is written next to each use.

   Identifiers are integers chosen by the harness: users, validators and denoms are indexes;
   denom FEE is the fee denom (urise), BOND the bond denom (uvrise). *)
From Coq Require Import ZArith QArith Bool List.
Import ListNotations.
From Sunrise Require Import Base.Outcome Stake.ApdDec.
Local Open Scope Z_scope.
Local Open Scope res_scope.

Definition FEE : Z := 0.
Definition BOND : Z := 1.

(* error classes (the harness maps Go errors to the same codes) *)
Definition E_INVALID_COINS : Z := 1.   (* sdkerrors.ErrInvalidCoins *)
Definition E_INSUFFICIENT : Z := 2.    (* sdkerrors.ErrInsufficientFunds *)
Definition E_NOTFOUND : Z := 3.        (* staking Query/Delegation: NotFound *)
Definition E_STAKING : Z := 4.         (* x/staking refused the (un)delegation *)
Definition E_OTHER : Z := 6.           (* math errors (ErrNonIntegral, ...) *)
Definition E_MAX_ENTRIES : Z := 7.     (* staking ErrMaxUnbondingDelegationEntries *)
Definition E_ADDRESS : Z := 8.         (* invalid bech32 address *)
Definition E_SEND_DISABLED : Z := 9.   (* bank ErrSendDisabled *)
Definition E_BLOCK : Z := 10.          (* EndBlocker returned an error (block not committed) *)

(* ---------- state ---------- *)

(* per validator *)
Record cell := mkCell {
  cT : Z;                 (* supply of shareclass/non-voting-share/<validator> *)
  csh : Z -> Z;           (* share balance per user *)
  cmodsh : Z;             (* share balance of the module account (transit only) *)
  cB : option Z;          (* oracle: the module's delegation at the validator, in tokens *)
  csd : bool;             (* bank SendEnabled entry for the share denom exists and is false *)
  cent : Z;               (* oracle: staking unbonding-delegation entries (module, validator) *)
  cS : Z -> Z;            (* reward saver balance per denom *)
  cM : Z -> Q;            (* reward multiplier per denom (absent = 0) *)
  cchk : Z -> Z -> Q      (* user, denom: users_last_reward_multiplier (absent = 0) *)
}.

Record unb := mkUnb { u_id : Z; u_rcp : Z; u_time : Z (* completion, ns *); u_amt : Z }.

Record state := mkState {
  cells : Z -> cell;
  ubal : Z -> Z -> Z;     (* user, denom *)
  mbal : Z -> Z;          (* module account, per denom *)
  queue : list unb;       (* in the order of the completion-time index: (unix second, id) *)
  next_id : Z
}.

Definition upd {A} (f : Z -> A) (k : Z) (v : A) : Z -> A := fun k' => if k' =? k then v else f k'.
Definition upd2 {A} (f : Z -> Z -> A) (k1 k2 : Z) (v : A) : Z -> Z -> A :=
  fun a b => if (a =? k1) && (b =? k2) then v else f a b.

Definition set_cell (s : state) (v : Z) (c : cell) : state :=
  mkState (upd (cells s) v c) (ubal s) (mbal s) (queue s) (next_id s).

(* ---------- types/types.go ---------- *)

Definition trim_res (x : Q) : res Z :=
  match trim_int x with Some z => Ok z | None => Err E_OTHER end.

(* CalculateShareByAmount(totalShare, totalBonded, amount) *)
Definition calc_share (T B amt : Z) : res Z :=
  if T =? 0 then Ok amt
  else if B =? 0 then Ok amt
  else
    let ratio := rnd34 (inject_Z amt / inject_Z B) in
    trim_res (dmul ratio (inject_Z T)).

(* CalculateAmountByShare(totalShare, totalBonded, share) *)
Definition calc_amount (T B sh : Z) : res Z :=
  if T =? 0 then Ok sh
  else
    let ratio := rnd34 (inject_Z sh / inject_Z T) in
    trim_res (dmul (inject_Z B) ratio).

(* CalculateReward(multiplier, userLast, share) *)
Definition calc_reward (m last : Q) (sh : Z) : res Z :=
  trim_res (dmul (dsub m last) (inject_Z sh)).

(* CalculateRewardMultiplierNew(old, reward, totalShare); Quo by zero = error *)
Definition mult_new (old : Q) (reward T : Z) : res Q :=
  match dquo (inject_Z reward) (inject_Z T) with
  | Some q => Ok (dadd old q)
  | None => Err E_OTHER
  end.

(* ---------- keeper_share.go: keeper-level CalculateShareByAmount ---------- *)
Definition k_calc_share (c : cell) (amt : Z) : res Z :=
  if cT c =? 0 then Ok amt
  else match cB c with
       | None => Err E_NOTFOUND          (* GetTotalStakedAmount: delegation not found *)
       | Some B => calc_share (cT c) B amt
       end.
Definition k_calc_amount (c : cell) (sh : Z) : res Z :=
  match cB c with
  | None => Err E_NOTFOUND
  | Some B => calc_amount (cT c) B sh
  end.

(* ---------- keeper_claim.go ---------- *)
Section Denoms.
(* the reward denoms, in the order of sdk.Coins (sorted by name) *)
Variable denoms : list Z.

(* GetClaimableRewards iterates over the denoms the reward saver holds *)
Definition pay_of (c : cell) (u d : Z) : res Z :=
  if 0 <? cS c d then calc_reward (cM c d) (cchk c u d) (csh c u) else Ok 0.
Definition payv (c : cell) (u d : Z) : Z :=
  match pay_of c u d with Ok p => p | _ => 0 end.

Fixpoint all_ok (f : Z -> res unit) (ds : list Z) : res unit :=
  match ds with
  | [] => Ok tt
  | d :: tl => let! _ := f d in all_ok f tl
  end.

Definition mem (d : Z) (l : list Z) : bool := existsb (Z.eqb d) l.

(* ClaimRewards(sender, validator): total claimable is sent from the reward saver to the sender
   (bank SendCoins: insufficient funds = error, nothing moves), then the sender's checkpoint is
   set to the current multiplier for every denom that has one. *)
Definition claim_cell (c : cell) (u : Z) : res cell :=
  (* amounts: math errors are returned, a negative amount panics in sdk.NewCoin *)
  let! _ := all_ok (fun d => match pay_of c u d with
                             | Ok p => if p <? 0 then Panic else Ok tt
                             | Err e => Err e | Panic => Panic end) denoms in
  let! _ := all_ok (fun d => if cS c d <? payv c u d then Err E_INSUFFICIENT else Ok tt) denoms in
  Ok (mkCell (cT c) (csh c) (cmodsh c) (cB c) (csd c) (cent c)
             (fun d => if mem d denoms then cS c d - payv c u d else cS c d)
             (cM c)
             (fun u' d => if u' =? u then cM c d else cchk c u' d)).

(* the variant without the checkpoint write: the code before the repair *)
Definition claim_cell_unfixed (c : cell) (u : Z) : res cell :=
  let! c' := claim_cell c u in
  Ok (mkCell (cT c') (csh c') (cmodsh c') (cB c') (csd c') (cent c') (cS c') (cM c') (cchk c)).

Variable fixed : bool.   (* true: with the repair (what the check compares with) *)
Definition do_claim (c : cell) (u : Z) : res cell :=
  if fixed then claim_cell c u else claim_cell_unfixed c u.

(* credit the claimed coins to the user *)
Definition credit (s : state) (c : cell) (u : Z) : Z -> Z -> Z :=
  fun u' d => if (u' =? u) && mem d denoms then ubal s u' d + payv c u d else ubal s u' d.

(* ---------- operations ---------- *)

(* answers of the other modules for one step, read from the running application *)
Record oracle := mkOracle {
  o_ct : Z;               (* staking MsgUndelegateResponse.CompletionTime (ns) *)
  o_max : Z;              (* staking params: max_entries *)
  o_leak : Z -> Z;        (* coins the module account received during the message from
                             x/distribution's delegation hooks (auto-withdrawal), per denom *)
  o_rw : Z -> Z -> Z;     (* end-block: MsgWithdrawDelegatorRewardResponse.Amount per validator, denom *)
  o_released : Z;         (* end-block: bond coins x/staking paid to the module account for
                             unbonding entries it completed in this block *)
  o_ret : Z               (* staking MsgUndelegateResponse.Amount: what staking really unbonds
                             (= the requested amount while the validator's exchange rate is 1) *)
}.

Definition add_leak (s : state) (o : oracle) : Z -> Z :=
  fun d => if mem d denoms then mbal s d + o_leak o d else mbal s d.

(* MsgClaimRewards *)
Definition claim (s : state) (u v : Z) : res state :=
  let c := cells s v in
  let! c' := do_claim c u in
  Ok (mkState (upd (cells s) v c') (credit s c u) (mbal s) (queue s) (next_id s)).

(* MsgNonVotingDelegate{sender u, validator v, amount amt of denom dn}.
   v < 0 stands for a well-formed address that is not a validator.
   Staking contract used: MsgDelegate is refused for a non-positive amount or an unknown
   validator; otherwise the module's delegation balance grows by exactly amt. *)
Definition delegate (s : state) (o : oracle) (u v amt dn : Z) : res state :=
  if amt <? 0 then Err E_INVALID_COINS else        (* msg.Amount.Validate() *)
  if negb (dn =? FEE) then Err E_INVALID_COINS else
  let c := cells s v in
  let! c1 := do_claim c u in
  let ub1 := credit s c u in
  let! share := k_calc_share c1 amt in
  if ub1 u FEE <? amt then Err E_INSUFFICIENT else (* SendCoinsFromAccountToModule *)
  (* ConvertReverse at the module account: fee burnt, bond minted, then delegated *)
  if (v <? 0) || (amt <=? 0) then Err E_STAKING else
  if share <? 0 then Panic else
  let B' := match cB c1 with Some b => b + amt | None => amt end in
  let c2 := mkCell (cT c1 + share) (upd (csh c1) u (csh c1 u + share)) (cmodsh c1) (Some B')
                   true (cent c1) (cS c1) (cM c1) (cchk c1) in
  Ok (mkState (upd (cells s) v c2) (upd2 ub1 u FEE (ub1 u FEE - amt)) (add_leak s o)
              (queue s) (next_id s)).

Definition SEC : Z := 1000000000.
Definition unix (ns : Z) : Z := ns / SEC.

(* position of a new entry in the completion-time index: after every entry of the same or an
   earlier second (its id is the largest) *)
Fixpoint q_insert (e : unb) (q : list unb) : list unb :=
  match q with
  | [] => [e]
  | x :: tl => if unix (u_time e) <? unix (u_time x) then e :: q else x :: q_insert e tl
  end.

(* MsgNonVotingUndelegate{sender u, validator v, amount, recipient rcp}; rcp < 0 = malformed
   recipient string. Staking contract used: MsgUndelegate is refused when there is no
   delegation, when amt exceeds its balance, or when the (module, validator) pair already has
   max_entries unbonding entries; otherwise it returns the completion time and the amount it
   really unbonds (o_ret, the requested amount unless the validator's exchange rate is not 1),
   the delegation balance falls by that amount (the delegation disappears at 0) and the queue
   records it. *)
Definition undelegate (s : state) (o : oracle) (u v amt dn rcp : Z) : res state :=
  if negb (dn =? FEE) then Err E_INVALID_COINS else
  if amt <=? 0 then Err E_INVALID_COINS else
  let c := cells s v in
  let! c1 := do_claim c u in
  let ub1 := credit s c u in
  let! cost := k_calc_share c1 amt in
  if cost <? 0 then Panic else
  if csh c1 u <? cost then Err E_INSUFFICIENT else    (* shares to the module, then burnt *)
  if v <? 0 then Err E_STAKING else
  match cB c1 with
  | None => Err E_STAKING
  | Some b =>
    if b <? amt then Err E_STAKING else
    if o_max o <=? cent c1 then Err E_MAX_ENTRIES else
    if rcp <? 0 then Err E_ADDRESS else
    (* staking contract: it unbonds between 0 and the requested amount; otherwise the model
       gives up (a class the implementation never returns here) *)
    if (o_ret o <? 0) || (amt <? o_ret o) then Err E_OTHER else
    let c2 := mkCell (cT c1 - cost) (upd (csh c1) u (csh c1 u - cost)) (cmodsh c1)
                     (if b - o_ret o =? 0 then None else Some (b - o_ret o))
                     (csd c1) (cent c1) (cS c1) (cM c1) (cchk c1) in
    Ok (mkState (upd (cells s) v c2) ub1 (add_leak s o)
                (q_insert (mkUnb (next_id s) rcp (o_ct o) (o_ret o)) (queue s)) (next_id s + 1))
  end.

(* bank MsgSend of a share denom between two users *)
Definition send_share (s : state) (u u' v amt : Z) : res state :=
  let c := cells s v in
  if csd c then Err E_SEND_DISABLED else
  if amt <=? 0 then Err E_INVALID_COINS else
  if csh c u <? amt then Err E_INSUFFICIENT else
  let sh1 := upd (csh c) u (csh c u - amt) in
  let c' := mkCell (cT c) (upd sh1 u' (sh1 u' + amt)) (cmodsh c) (cB c) (csd c) (cent c)
                   (cS c) (cM c) (cchk c) in
  Ok (set_cell s v c').

(* ---------- keeper_rewards.go: HandleModuleAccountRewardsByValidator ---------- *)
Fixpoint accrue_denoms (c : cell) (rw : Z -> Z) (ds : list Z) : res cell :=
  match ds with
  | [] => Ok c
  | d :: tl =>
    if rw d <=? 0 then accrue_denoms c rw tl else
    let! m := mult_new (cM c d) (rw d) (cT c) in
    accrue_denoms (mkCell (cT c) (csh c) (cmodsh c) (cB c) (csd c) (cent c) (cS c)
                          (upd (cM c) d m) (cchk c)) rw tl
  end.

Definition accrue_cell (c : cell) (rw : Z -> Z) : cell :=
  if forallb (fun d => rw d <=? 0) denoms then c else
  let c1 := mkCell (cT c) (csh c) (cmodsh c) (cB c) (csd c) (cent c)
                   (fun d => if mem d denoms && (0 <? rw d) then cS c d + rw d else cS c d)
                   (cM c) (cchk c) in
  if cT c =? 0 then c1 else
  match accrue_denoms c1 rw denoms with
  | Ok c2 => c2
  | _ => c1            (* the error is logged and swallowed; the transfer stays *)
  end.

(* over the validators the module delegates to, in the order of the staking store *)
Fixpoint accrue_all (cs : Z -> cell) (o : oracle) (vals : list Z) : Z -> cell :=
  match vals with
  | [] => cs
  | v :: tl =>
    let c := cs v in
    let cs' := match cB c with
               | None => cs
               | Some _ => upd cs v (accrue_cell c (o_rw o v))
               end in
    accrue_all cs' o tl
  end.

(* ---------- keeper_withdraw.go: GarbageCollectUnbonded ---------- *)
(* walks the index in order, stops at the first entry of a later second; an entry of the
   current second that completes later than now is skipped (repair); WithdrawUnbonded converts
   amt bond coins of the module account to fee coins and sends them to the recipient: an error
   (the module account does not hold amt bond coins) aborts the EndBlocker. *)
Fixpoint gc (fixedq : bool) (now : Z) (q : list unb) (ub : Z -> Z -> Z) (mb : Z -> Z)
  : res (list unb * (Z -> Z -> Z) * (Z -> Z)) :=
  match q with
  | [] => Ok ([], ub, mb)
  | e :: tl =>
    if unix now <? unix (u_time e) then Ok (q, ub, mb)
    else if fixedq && (now <? u_time e) then
      let! (q', ub', mb') := gc fixedq now tl ub mb in Ok (e :: q', ub', mb')
    else if mb BOND <? u_amt e then Err E_INSUFFICIENT
    else gc fixedq now tl
            (upd2 ub (u_rcp e) FEE (ub (u_rcp e) FEE + u_amt e))
            (upd mb BOND (mb BOND - u_amt e))
  end.

Variable vals : list Z.   (* validators, in address order *)

(* EndBlocker at block time now (ns) *)
Definition end_block (s : state) (o : oracle) (now : Z) : res state :=
  let cs := accrue_all (cells s) o vals in
  let mb := upd (mbal s) BOND (mbal s BOND + o_released o) in
  match gc fixed now (queue s) (ubal s) mb with
  | Ok (q', ub', mb') => Ok (mkState cs ub' mb' q' (next_id s))
  | Err _ => Err E_BLOCK
  | Panic => Panic
  end.

(* ---------- histories ---------- *)
Inductive op :=
| OClaim (u v : Z)
| ODelegate (u v amt dn : Z)
| OUndelegate (u v amt dn rcp : Z)
| OSend (u u' v amt : Z)
| OEndBlock (now : Z).

Definition step (s : state) (oo : op * oracle) : res state :=
  let '(p, o) := oo in
  match p with
  | OClaim u v => claim s u v
  | ODelegate u v amt dn => delegate s o u v amt dn
  | OUndelegate u v amt dn rcp => undelegate s o u v amt dn rcp
  | OSend u u' v amt => send_share s u u' v amt
  | OEndBlock now => end_block s o now
  end.

(* a message is a transaction, a failing block is not committed: no change on Err / Panic *)
Definition exec1 (s : state) (oo : op * oracle) : state :=
  match step s oo with Ok s' => s' | _ => s end.
Definition exec (s : state) (tr : list (op * oracle)) : state := fold_left exec1 tr s.

End Denoms.

Definition cell0 : cell :=
  mkCell 0 (fun _ => 0) 0 None false 0 (fun _ => 0) (fun _ => 0%Q) (fun _ _ => 0%Q).
