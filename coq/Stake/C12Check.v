(* Correspondence + monitors for C12 (lockup accounts). Evaluated by generated cases files.
   One case = one step of the real application: the projection of its state before the step,
   the operation (with the oracle values the application produced), the result class and the
   projection after the step.  [corr] re-computes the step with the model of Stake/Lockup.v;
   the monitors evaluate the statements of Props/C12.v on the implementation's own values. *)
From Coq Require Import ZArith List Bool.
Import ListNotations.
From Sunrise Require Export Base.Outcome Base.Dec Base.Check Stake.Lockup.
Local Open Scope Z_scope.

(* ---------- equality of projections ---------- *)
Definition bals_eqb (a b : bals) : bool :=
  (b_fee a =? b_fee b) && (b_bond a =? b_bond b) &&
  (get 1 (b_oth a) =? get 1 (b_oth b)) && (get 3 (b_oth a) =? get 3 (b_oth b)).

Fixpoint pairs_eqb (a b : list (Z * Z)) : bool :=
  match a, b with
  | [], [] => true
  | (x, y) :: a', (x', y') :: b' => (x =? x') && (y =? y') && pairs_eqb a' b'
  | _, _ => false
  end.

Definition entry_eqb (a b : entry) : bool :=
  (e_end a =? e_end b) && (e_amt a =? e_amt b) && (e_h a =? e_h b).
Fixpoint entries_eqb (a b : list entry) : bool :=
  match a, b with
  | [], [] => true
  | x :: a', y :: b' => entry_eqb x y && entries_eqb a' b'
  | _, _ => false
  end.
Fixpoint store_eqb (a b : store) : bool :=
  match a, b with
  | [], [] => true
  | (k, l) :: a', (k', l') :: b' => (k =? k') && entries_eqb l l' && store_eqb a' b'
  | _, _ => false
  end.

(* staking merges unbonding entries with equal creation height and completion time; compare
   the pending unbondings as amount per completion time, ascending *)
Fixpoint ins (t a : Z) (l : list (Z * Z)) : list (Z * Z) :=
  match l with
  | [] => [(t, a)]
  | (t', a') :: tl => if t =? t' then (t', a' + a) :: tl
                      else if t <? t' then (t, a) :: l else (t', a') :: ins t a tl
  end.
Definition norm (l : list (Z * Z)) : list (Z * Z) := fold_right (fun p acc => ins (fst p) (snd p) acc) [] l.

Definition world_eqb (a b : world) : bool :=
  Bool.eqb (w_sd a) (w_sd b) && (w_owner a =? w_owner b) && (w_start a =? w_start b) && (w_end a =? w_end b) &&
  pairs_eqb (w_orig a) (w_orig b) && (w_now a =? w_now b) && (w_height a =? w_height b) &&
  (w_DL a =? w_DL b) && (w_DF a =? w_DF b) && store_eqb (w_ent a) (w_ent b) &&
  bals_eqb (w_ab a) (w_ab b) && Bool.eqb (w_has_proxy a) (w_has_proxy b) && bals_eqb (w_pb a) (w_pb b) &&
  (w_stk_del a =? w_stk_del b) && pairs_eqb (norm (w_stk_unb a)) (norm (w_stk_unb b)) &&
  (w_sc_del a =? w_sc_del b) && pairs_eqb (norm (w_sc_unb a)) (norm (w_sc_unb b)) &&
  bals_eqb (w_out a) (w_out b) && bals_eqb (w_rew a) (w_rew b) && bals_eqb (w_dep a) (w_dep b).

(* the schedule as the account's own QueryLockupAccountInfo reports it; None = the query panicked *)
Fixpoint locked_view (w : world) (o : list (Z * Z)) : option (list (Z * Z)) :=
  match o with
  | [] => Some []
  | (d, a) :: tl =>
      match locked_raw a (w_start w) (w_end w) (w_now w), locked_view w tl with
      | Some L, Some r => Some ((d, L) :: r)
      | _, _ => None
      end
  end.
Definition oplist_eqb (a b : option (list (Z * Z))) : bool :=
  match a, b with
  | None, None => true
  | Some x, Some y => pairs_eqb x y
  | _, _ => false
  end.

Record step_case := {
  k_conf : conf; k_pre : world; k_op : op; k_code : Z; k_post : world;
  k_lk_pre : option (list (Z * Z)); k_lk_post : option (list (Z * Z)) }.

Definition step_corr (k : step_case) : bool :=
  let '(w', code) := step (k_conf k) (k_pre k) (k_op k) in
  (code =? k_code k) && world_eqb w' (k_post k) &&
  oplist_eqb (locked_view (k_pre k) (w_orig (k_pre k))) (k_lk_pre k) &&
  oplist_eqb (locked_view (k_post k) (w_orig (k_post k))) (k_lk_post k).

(* ---------- monitors: the property on observed values ---------- *)

(* 1. cumulative outflow <= original - locked(now) + rewards + third-party deposits.  locked(now) is
      the schedule of Stake/Lockup.v (the one the theorems are about) evaluated on the account's own
      stored original / start / end and the block time -- not the value the implementation reports,
      so that an implementation whose schedule releases more than the schedule as specified is a
      failing history and not only a correspondence break.  Fee and bond denoms count 1:1, every
      other denom on its own. *)
Definition mon_outflow (k : step_case) : bool :=
  let w := k_post k in
  match locked_view w (w_orig w) with
  | None => true                     (* the schedule computation panics: nothing can be sent either *)
  | Some lk =>
      (bval (w_out w) <=? get FEE (w_orig w) - get FEE lk + bval (w_rew w) + bval (w_dep w)) &&
      forallb (fun d => bget (w_out w) d <=? get d (w_orig w) - get d lk + bget (w_rew w) d + bget (w_dep w) d) [1; 3]
  end.

(* 2. only the owner acts: an execute message whose real sender or whose msg.Sender is not the
      owner fails and changes nothing *)
Definition mon_owner (k : step_case) : bool :=
  match op_senders (k_op k) with
  | Some (es, ms) =>
      if (es =? w_owner (k_pre k)) && (ms =? w_owner (k_pre k)) then true
      else negb (k_code k =? 0) && world_eqb (k_pre k) (k_post k)
  | None => true
  end.

(* 3. tracked <= actual: DL + DF never exceed what is delegated or unbonding (the proxy's stake,
      its unbonding entries and the bond tokens it holds; the share-class principal and pending
      share-class unbondings), up to the matured entries the account has recorded itself and not
      yet swept -- the lazy refresh every handler that uses DL/DF performs first *)
Definition mon_tracked (k : step_case) : bool :=
  let w := k_post k in
  w_DL w + w_DF w <=? custody_b w + matured_st (w_now w) (w_ent w).

(* ---------- triggers (informational, code 100 + t) ---------- *)
Definition trig_forged (k : step_case) : bool :=
  match op_senders (k_op k) with
  | Some (es, ms) => negb (es =? w_owner (k_pre k)) && (ms =? w_owner (k_pre k)) && (k_code k =? 0)
  | None => false
  end.
Definition trig_bond_sent (k : step_case) : bool :=
  match k_op k with
  | OPSend _ _ TOut cs => has_denom BOND cs && (k_code k =? 0)
  | _ => false
  end.

(* ---------- Init ---------- *)
Definition init_corr (start endt : option Z) (now : Z) (funds : list (Z * Z)) (funds_ok : bool)
                     (obs : option (Z * Z * list (Z * Z) * Z * Z)) : bool :=
  let m := if negb funds_ok || negb (coins_valid funds) then Err 1 else init_times start endt now in
  match m, obs with
  | Ok (s, e), Some (s', e', orig, dl, df) =>
      (s =? s') && (e =? e') && pairs_eqb funds orig && (dl =? 0) && (df =? 0)
  | Err _, None => true
  | _, _ => false
  end.

Inductive c12_case :=
| CStep (k : step_case)
| CInit (start endt : option Z) (now : Z) (funds : list (Z * Z)) (funds_ok : bool)
        (obs : option (Z * Z * list (Z * Z) * Z * Z)).

Definition c12_check (c : c12_case) : list Z :=
  match c with
  | CStep k =>
      flag 0 (step_corr k) ++ flag 1 (mon_outflow k) ++ flag 2 (mon_owner k) ++
      flag 3 (mon_tracked k) ++
      flag 101 (negb (trig_forged k)) ++ flag 103 (negb (trig_bond_sent k))
  | CInit s e now funds ok obs => flag 0 (init_corr s e now funds ok obs)
  end.

Definition run := run_cases c12_check.
