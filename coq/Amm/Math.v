(* x/liquiditypool/types/math.go, tick.go, constants.go and keeper/keeper_swap_helper.go:
   the pure arithmetic of the concentrated-liquidity AMM, bit-exact over Base/Dec.v.
   Every function returns [option]: None = the Go code panics at that point
   (Dec overflow, division by zero, explicit panic). Returned Go errors are [res] errors. *)
From Coq Require Import ZArith Bool List.
Import ListNotations.
From Sunrise Require Import Base.Outcome Base.Dec.
Local Open Scope Z_scope.
Local Open Scope res_scope.

(* constants.go (raw decimals) *)
Definition MULT_SQRT : Z := 1000000000 * P.                 (* 1e9 *)
Definition MULT : Z := 1000000000000000000 * P.             (* 1e18 *)
Definition MAX_SQRT_PRICE : Z := 10000000000000000000 * P.  (* 1e19 *)
Definition MIN_SQRT_PRICE : Z := 1.                         (* 1e-18 *)
Definition MAX_MULT_SPOT : Z := 10 ^ 56 * P.                (* Multiplier * Max * Max *)
Definition MIN_MULT_SPOT : Z := 1.                          (* Multiplier * Min * Min = 1e-18 *)
Definition TICK_MIN : Z := - 2 ^ 63.
Definition TICK_MAX : Z := 2 ^ 63 - 1.
Definition POW_PRECISION : Z := 10000000000.                (* 0.00000001 *)

(* ---- types/math.go ---- *)

Definition order (a b : Z) : Z * Z := if b <? a then (b, a) else (a, b).

(* LiquidityBase = amount * (sa*sb) / (sb - sa) *)
Definition liquidity_base (amount sa0 sb0 : Z) : option Z :=
  let '(sa, sb) := order sa0 sb0 in
  let? product := dmul sa sb in
  let? diff := dsub sb sa in
  if diff =? 0 then Some 0 else
  let? m := dmul (dec_of_int amount) product in
  dquo m diff.

Definition liquidity_quote (amount sa0 sb0 : Z) : option Z :=
  let '(sa, sb) := order sa0 sb0 in
  let? diff := dsub sb sa in
  if diff =? 0 then Some 0 else dquo (dec_of_int amount) diff.

(* CalcAmountBaseDelta = liq * (sb - sa) / sb / sa *)
Definition calc_amount_base_delta (liq sa0 sb0 : Z) (round_up : bool) : option Z :=
  let '(sa, sb) := order sa0 sb0 in
  let? diff := dsub sb sa in
  let? m := dmul diff liq in
  let? q1 := dquo m sb in
  let? q2 := dquo q1 sa in
  if round_up then dceil q2 else Some q2.

(* CalcAmountQuoteDelta = liq * |sb - sa| *)
Definition calc_amount_quote_delta (liq sa sb : Z) (round_up : bool) : option Z :=
  let? d := dsub sb sa in
  let diff := Z.abs d in
  let? m := dmul diff liq in
  if round_up then dceil m else Some m.

(* as first computed: rounded up twice, which can overshoot the current price by one ulp when the
   amount is too small to move it (pre-fix behaviour, kept for the regression witness) *)
Definition next_sqrt_from_base_in_up_raw (sp liq amt : Z) : option Z :=
  let? product := dmulT amt sp in
  let? denom := dadd product liq in
  let? num := dmulU liq sp in
  dquoU num denom.
(* ... then capped at the current price: adding base never raises the price *)
Definition next_sqrt_from_base_in_up (sp liq amt : Z) : option Z :=
  if amt =? 0 then Some sp else
  let? n := next_sqrt_from_base_in_up_raw sp liq amt in
  Some (if sp <? n then sp else n).

Definition next_sqrt_from_base_out_up (sp liq amt : Z) : option Z :=
  if amt =? 0 then Some sp else
  let? product := dmulU sp amt in
  let? denom := dsub liq product in
  let? num := dmulU liq sp in
  dquoU num denom.

Definition next_sqrt_from_quote_in_down (sp liq amt : Z) : option Z :=
  let? q := dquoT amt liq in dadd q sp.

Definition next_sqrt_from_quote_out_down (sp liq amt : Z) : option Z :=
  let? q := dquoU amt liq in dsub sp q.

Definition liquidity_from_amounts (sp sa0 sb0 amount_base amount_quote : Z) : option Z :=
  let '(sa, sb) := order sa0 sb0 in
  if sp <=? sa then liquidity_base amount_base sa sb
  else if sp <? sb then
    let? lb := liquidity_base amount_base sp sb in
    let? lq := liquidity_quote amount_quote sp sa in
    Some (Z.min lb lq)
  else liquidity_quote amount_quote sb sa.

(* AbsDifferenceWithSign *)
Definition abs_diff_sign (a b : Z) : option (Z * bool) :=
  if b <=? a then (let? d := dsub a b in Some (d, false))
  else (let? d := dadd (- a) b in Some (d, true)).

(* PowApprox loop: state (term, sum, negative), i from 1 *)
Fixpoint pow_approx_loop (fuel : nat) (i : Z) (exponent x : Z) (xneg : bool)
         (term sum : Z) (negative : bool) : option (option Z) :=
  (* outer option: None = out of fuel; inner: None = panic *)
  if term <? POW_PRECISION then Some (Some sum) else
  match fuel with
  | O => None
  | S f =>
    match abs_diff_sign exponent ((i - 1) * P) with
    | None => Some None
    | Some (c, cneg) =>
      match (let? t1 := dmul term c in let? t2 := dmul t1 x in dquo t2 (i * P)) with
      | None => Some None
      | Some term' =>
        if term' =? 0 then Some (Some sum) else
        let neg1 := if xneg then negb negative else negative in
        let neg2 := if cneg then negb neg1 else neg1 in
        match (if neg2 then dsub sum term' else dadd sum term') with
        | None => Some None
        | Some sum' => pow_approx_loop f (i + 1) exponent x xneg term' sum' neg2
        end
      end
    end
  end.

Definition POW_FUEL : nat := 4000.
Definition HALF_DEC : Z := 500000000000000000.

(* PowApprox; outer None = out of fuel (model cannot decide), inner None = panic *)
Definition pow_approx (base exponent : Z) : option (option Z) :=
  if base <=? 0 then Some None else
  if exponent =? 0 then Some (Some P) else
  if exponent =? HALF_DEC then Some (approx_sqrt base) else
  match abs_diff_sign base P with
  | None => Some None
  | Some (x, xneg) => pow_approx_loop POW_FUEL 1 exponent x xneg P P false
  end.

(* Pow(base, exponent). uint64(integer.TruncateInt64()): negative integers wrap. *)
Definition pow (base exponent : Z) : option (option Z) :=
  if base <=? 0 then Some None else
  let integer := dtrunc_dec exponent in
  match dsub exponent integer with
  | None => Some None
  | Some fractional =>
    let ip := Z.quot integer P in
    if (ip <? - 2 ^ 63) || (2 ^ 63 <=? ip) then Some None else
    let up := if ip <? 0 then ip + 2 ^ 64 else ip in
    match dpower base up with
    | None => Some None
    | Some integer_pow =>
      if fractional =? 0 then Some (Some integer_pow) else
      match pow_approx base fractional with
      | None => None
      | Some None => Some None
      | Some (Some fp) => Some (dmul integer_pow fp)
      end
    end
  end.

(* ---- types/tick.go ---- *)
Definition E_PRICE_OUT_OF_BOUND : Z := 101.
Definition E_SQRT_PRICE_TO_TICK : Z := 102.
Definition E_INVALID_TICKERS : Z := 103.
Definition E_SQRT : Z := 104.
Definition E_NEG_PRICE : Z := 105.
Definition E_FUEL : Z := 199.   (* model ran out of fuel: never equal to an implementation outcome *)

Record tick_params := { price_ratio : Z; base_offset : Z }.

Definition lift_pow (x : option (option Z)) : res Z :=
  match x with None => Err E_FUEL | Some None => Panic | Some (Some v) => Ok v end.

(* TickToMultipliedPrice *)
Definition tick_to_multiplied_price (tick : Z) (tp : tick_params) : res Z :=
  let! offset_price := lift_pow (pow (price_ratio tp) (base_offset tp)) in
  if tick =? 0 then of_opt (dmul offset_price MULT)
  else if tick =? TICK_MIN then Ok MIN_MULT_SPOT
  else
    let! pw := lift_pow (pow (price_ratio tp) (Z.abs tick * P)) in
    let! mp0 := of_opt (if 0 <? tick then dmul MULT pw else dquo MULT pw) in
    let! mp := of_opt (dmul mp0 offset_price) in
    if (MAX_MULT_SPOT <? mp) || (mp <? MIN_MULT_SPOT) then Err E_PRICE_OUT_OF_BOUND else Ok mp.

(* ApproxSqrt returns (value, err): a panic inside is recovered into an error *)
Definition approx_sqrt_res (x : Z) : res Z :=
  match approx_sqrt x with Some v => Ok v | None => Err E_SQRT end.

Definition tick_to_sqrt_price (tick : Z) (tp : tick_params) : res Z :=
  let! pm := tick_to_multiplied_price tick tp in
  let! s := approx_sqrt_res pm in
  of_opt (dquo s MULT_SQRT).

(* the linear search of CalculateMultipliedPriceToTick, with the no-progress guard of the fix
   "stop the price->tick search when a step makes no progress": each step must strictly move the
   multiplied price, otherwise ErrPriceOutOfBound (checked after the step, before the tick moves) *)
Fixpoint search_up (fuel : nat) (mp offset ratio tick : Z) : res Z :=
  if mp <=? offset then Ok tick else
  match fuel with
  | O => Err E_FUEL
  | S f => let! mp' := of_opt (dquo mp ratio) in
           if negb (mp' <? mp) then Err E_PRICE_OUT_OF_BOUND
           else search_up f mp' offset ratio (tick + 1)
  end.
Fixpoint search_down (fuel : nat) (mp offset ratio tick : Z) : res Z :=
  if offset <=? mp then Ok tick else
  match fuel with
  | O => Err E_FUEL
  | S f => let! mp' := of_opt (dmul mp ratio) in
           if negb (mp <? mp') then Err E_PRICE_OUT_OF_BOUND
           else search_down f mp' offset ratio (tick - 1)
  end.

(* the model gives up (E_FUEL: undecided, the case is skipped by the correspondence) beyond this
   many search steps; the implementation's loop is the same linear search *)
Definition SEARCH_FUEL : nat := 6000.

Definition multiplied_price_to_tick (mp : Z) (tp : tick_params) : res Z :=
  if mp <? 0 then Err E_NEG_PRICE else
  if (MAX_MULT_SPOT <? mp) || (mp <? MIN_MULT_SPOT) then Err E_PRICE_OUT_OF_BOUND else
  let! pw := lift_pow (pow (price_ratio tp) (base_offset tp)) in
  let! offset := of_opt (dmul MULT pw) in
  if mp =? offset then Ok 0
  else if offset <? mp then search_up SEARCH_FUEL mp offset (price_ratio tp) 0
  else search_down SEARCH_FUEL mp offset (price_ratio tp) 0.

Definition sqrt_price_to_tick (sp : Z) (tp : tick_params) : res Z :=
  let! m1 := of_opt (dmul MULT sp) in
  let! mp := of_opt (dmul m1 sp) in
  let! tick0 := multiplied_price_to_tick mp tp in
  if tick0 <? TICK_MIN then Err E_INVALID_TICKERS else
  let '(tick, oob) :=
    if tick0 <=? TICK_MIN then (TICK_MIN + 1, true)
    else if TICK_MAX - 1 <=? tick0 then (TICK_MAX - 2, true)
    else (tick0, false) in
  let to_sp t := match tick_to_sqrt_price t tp with
                 | Ok v => Ok v | Panic => Panic | Err e => if e =? E_FUEL then Err E_FUEL else Err E_SQRT_PRICE_TO_TICK end in
  let! sp1 := to_sp (tick + 1) in
  if sp1 <=? sp then
    let! sp2 := to_sp (tick + 2) in
    if (negb oob && (sp2 <=? sp)) || (oob && (sp2 <? sp)) then Err E_SQRT_PRICE_TO_TICK
    else if sp =? sp2 then Ok (tick + 2) else Ok (tick + 1)
  else
    let! sp0 := to_sp tick in
    if sp0 <=? sp then Ok tick else
    let! spm := to_sp (tick - 1) in
    if sp <? spm then Err E_SQRT_PRICE_TO_TICK else Ok (tick - 1).

(* GetSqrtPriceFromQuoteBase *)
Definition sqrt_price_from_quote_base (quote base : Z) : res Z :=
  let! m := of_opt (dmul (dec_of_int quote) MULT) in
  let! spm := of_opt (dquo m (dec_of_int base)) in
  let! s := approx_sqrt_res spm in
  of_opt (dquo s MULT_SQRT).

(* ---- keeper_swap_helper.go ---- *)

Definition fee_over_one_minus_fee (fee : Z) : option Z :=
  let? om := dsub P fee in dquoU fee om.
Definition fee_charge_from_in (amount_in fomf : Z) : option Z := dmulU amount_in fomf.

Definition fee_charge_out_given_in (reached : bool) (amount_in remaining fee : Z) : option Z :=
  if fee =? 0 then Some 0 else
  if fee <? 0 then None else
  let? total := (if reached then (let? f := fee_over_one_minus_fee fee in fee_charge_from_in amount_in f)
                 else dsub remaining amount_in) in
  if total <? 0 then None else Some total.

(* result of one bucket step: (sqrtPriceNext, amount of the specified side consumed,
   amount of the other side computed, fee charge) *)
Definition bucket_step := (Z * Z * Z * Z)%type.

(* baseForQuote: base in, quote out, price goes down *)
Definition b4q_out_given_in (fee sp target liq remaining : Z) : option bucket_step :=
  let? amt_in0 := calc_amount_base_delta liq target sp true in
  let? om := dsub P fee in
  let? after_fee := dmul remaining om in
  let? next := (if amt_in0 <=? after_fee then Some target
                else next_sqrt_from_base_in_up sp liq after_fee) in
  let reached := target =? next in
  (* not reached: the amount is rounded up to a whole unit and is never more than what is left *)
  let? amt_in := (if reached then Some amt_in0 else
                  let? a := calc_amount_base_delta liq next sp true in Some (if remaining <? a then remaining else a)) in
  let? amt_out := calc_amount_quote_delta liq next sp false in
  let? fc := fee_charge_out_given_in reached amt_in remaining fee in
  Some (next, amt_in, amt_out, fc).

Definition b4q_in_given_out (fee sp target liq remaining : Z) : option bucket_step :=
  let? out0 := calc_amount_quote_delta liq target sp false in
  let? next := (if out0 <=? remaining then Some target
                else next_sqrt_from_quote_out_down sp liq remaining) in
  let reached := target =? next in
  let? out1 := (if reached then Some out0 else calc_amount_quote_delta liq next sp false) in
  let? amt_in := calc_amount_base_delta liq next sp true in
  let? f := fee_over_one_minus_fee fee in
  let? fc := fee_charge_from_in amt_in f in
  let out := if remaining <? out1 then remaining else out1 in
  Some (next, out, amt_in, fc).

(* quoteForBase: quote in, base out, price goes up *)
Definition q4b_out_given_in (fee sp target liq remaining : Z) : option bucket_step :=
  let? amt_in0 := calc_amount_quote_delta liq target sp true in
  let? om := dsub P fee in
  let? after_fee := dmul remaining om in
  let? next := (if amt_in0 <=? after_fee then Some target
                else next_sqrt_from_quote_in_down sp liq after_fee) in
  let reached := target =? next in
  let? amt_in := (if reached then Some amt_in0 else
                  let? a := calc_amount_quote_delta liq next sp true in Some (if remaining <? a then remaining else a)) in
  let? amt_out := calc_amount_base_delta liq next sp false in
  let? fc := fee_charge_out_given_in reached amt_in remaining fee in
  Some (next, amt_in, amt_out, fc).

Definition q4b_in_given_out (fee sp target liq remaining : Z) : option bucket_step :=
  let? out0 := calc_amount_base_delta liq target sp false in
  let? next := (if out0 <=? remaining then Some target
                else next_sqrt_from_base_out_up sp liq remaining) in
  let reached := target =? next in
  let? out1 := (if reached then Some out0 else calc_amount_base_delta liq next sp false) in
  let? amt_in := calc_amount_quote_delta liq next sp true in
  let? f := fee_over_one_minus_fee fee in
  let? fc := fee_charge_from_in amt_in f in
  let out := if remaining <? out1 then remaining else out1 in
  Some (next, out, amt_in, fc).

Definition step_out_given_in (b4q : bool) := if b4q then b4q_out_given_in else q4b_out_given_in.
Definition step_in_given_out (b4q : bool) := if b4q then b4q_in_given_out else q4b_in_given_out.

(* GetSqrtTargetPrice *)
Definition sqrt_target (b4q : bool) (limit next_tick_sp : Z) : Z :=
  if b4q then (if next_tick_sp <? limit then limit else next_tick_sp)
  else (if limit <? next_tick_sp then limit else next_tick_sp).
