(* C15 — Untrusted inputs are rejected with errors, never with panics.
   Only statements, each closed by [exact]; proofs live in Swap/MemoProofs.v and
   Sys/InputsProofs.v.  [patched] / [all_on] = the tree after notes/patches/C15-*.patch,
   [pristine] / [all_off] = the pinned commit (whose panicking inputs are the ..._refuted
   theorems; each was reproduced on the real code, see notes/C15.md). *)
From Coq Require Import ZArith List Bool String.
Import ListNotations.
From Sunrise Require Import Base.Outcome Base.Dec Swap.Memo Swap.MemoProofs Sys.Inputs Gen.Msgs_gen Sys.InputsProofs.
Local Open Scope Z_scope.

(* ---- memo decoding: any JSON document (or non-JSON text), any result of jsonpb *)
Theorem C15_decode_total : forall (doc : option json) (pb : pb_res),
  decode patched doc pb <> Panic.
Proof. exact decode_total_patched. Qed.
Print Assumptions C15_decode_total.

(* ---- validation: any route (nil, empty, nested to any depth, reusing a pool, any weights,
        any denoms), any metadata (absent strategy, absent Int, absent sub-messages) *)
Theorem C15_route_validate_total : forall r : option route, route_validate patched r <> Panic.
Proof. exact route_validate_total. Qed.
Print Assumptions C15_route_validate_total.

Theorem C15_validate_total : forall m : swap_meta, meta_validate patched m <> Panic.
Proof. exact meta_validate_total. Qed.
Print Assumptions C15_validate_total.

(* ---- the middleware's OnRecvPacket up to the point where funds are received: any packet
        data, any memo *)
Theorem C15_recv_head_total : forall data_ok doc pb denom_matches,
  recv_head patched data_ok doc pb denom_matches <> Panic.
Proof. exact recv_head_total. Qed.
Print Assumptions C15_recv_head_total.

(* ---- a route that passed validation cannot make InspectRoute's own code panic (nil
        pointers, weight indexing, zero weight sum, sdk.NewCoin on a bad denom) *)
Theorem C15_validated_route_inspects : forall r,
  route_validate patched (Some r) = Ok tt -> inspect r <> Panic.
Proof. exact inspect_validated_total. Qed.
Print Assumptions C15_validated_route_inspects.

(* ---- every Msg / Query service method found in x/*/types/{tx,query}.pb.go has a modelled
        head whose field accesses are typed against the generated request signature ... *)
Theorem C15_handlers_covered : forallb (covered all_on) methods_gen = true.
Proof. exact handlers_covered. Qed.
Print Assumptions C15_handlers_covered.

(* ... and no head panics: any field values (absent sub-message, absent Int, negative,
   malformed string, out-of-range index, empty list, zero weight), any outcome of the
   state-dependent branches.  [wf_val]: a string accepted by the validator address codec
   yields a valid share denom (both observed; checked on every case).  A Msg handler is
   never invoked with a nil message; a query may be. *)
Theorem C15_handlers_total : forall name q sg,
  In (name, q, sg) methods_gen ->
  exists cs, In (name, q, cs) (specs all_on) /\
    forall n req o, wf_val req = true -> (q = true \/ req_present req = true) -> run n o cs req <> Panic.
Proof. exact generated_methods_total. Qed.
Print Assumptions C15_handlers_total.

(* ---- the shard index of MsgSubmitValidityProof: with every state-dependent branch passed, for any
        stored length n and any indices (unbounded integers), the head answers exactly the indices
        outside 0 <= j < n with an error and never indexes outside the slice; a comparison of
        truncated values would not *)
Theorem C15_proof_index_checked : forall n idx,
  let req := VMsg true [Sacc; Sval; Sjunk; VList (map VNum idx); VList (map (fun _ => VBytes 128) idx)] in
  run n [true; true; true] (spec_of all_on "da.Msg.SubmitValidityProof"%string) req =
  if forallb (idx_ok n) idx then Ok tt else Err E_HEAD.
Proof. exact proof_index_checked. Qed.
Print Assumptions C15_proof_index_checked.

Theorem C15_index_check_sound : forall n j, idx_ok n j = true -> 0 <= j < n.
Proof. exact idx_ok_sound. Qed.
Print Assumptions C15_index_check_sound.

Theorem C15_index_check_width_matters :
  idx_ok_u32 3 (2 ^ 32) = true /\ idx_ok 3 (2 ^ 32) = false /\
  idx_ok_u32 3 (- 2 ^ 63) = true /\ idx_ok 3 (- 2 ^ 63) = false /\
  idx_ok_u32 3 (2 ^ 40 + 1) = true /\ idx_ok 3 (2 ^ 40 + 1) = false.
Proof. exact idx_ok_u32_unsound. Qed.
Print Assumptions C15_index_check_width_matters.

(* ---- parameters of a new pool (ValidatePoolParams): Msg/CreatePool is accepted only with a fee rate in
        [0, 1), a price ratio in [1.0001, 1.5] and a base offset in the OPEN interval (-1, 1); then the
        integer part of the exponent of every later Pow(ratio, offset) is 0 (never a negative number
        converted to uint64).  A closed interval would accept -1, whose integer part is -1. *)
Theorem C15_create_pool_accepts : forall n auth db dq fee ratio off,
  static_done n (spec_of all_on "liquiditypool.Msg.CreatePool"%string)
              (VMsg true [VStr auth; VStr db; VStr dq; VStr fee; VStr ratio; VStr off]) = true ->
  si_acc auth = true /\ si_denom db = true /\ si_denom dq = true /\
  (exists f, si_dec fee = Some f /\ 0 <= f < P) /\
  (exists r, si_dec ratio = Some r /\ MIN_PRICE_RATIO <= r <= MAX_PRICE_RATIO) /\
  (exists o, si_dec off = Some o /\ - P < o < P /\ pow_integer_part o = 0).
Proof. exact create_pool_accepts. Qed.
Print Assumptions C15_create_pool_accepts.

Theorem C15_base_offset_interval_is_open :
  (forall d, pool_offset_ok d = true <-> - P < d < P) /\
  pool_offset_ok_closed (- P) = true /\ pool_offset_ok (- P) = false /\ pow_integer_part (- P) = -1.
Proof. exact (conj pool_offset_open pool_offset_closed_interval_unsound). Qed.
Print Assumptions C15_base_offset_interval_is_open.

(* ---- the swap interface fee rate: an accepted rate never makes 1 - rate zero *)
Theorem C15_fee_rate_no_division_by_zero : forall rate, swap_rate_ok true rate = true -> P - rate <> 0.
Proof. exact fee_rate_no_division_by_zero. Qed.
Print Assumptions C15_fee_rate_no_division_by_zero.

(* ---- LiquidityBase / LiquidityQuote (reached by Query/CalculationCreatePosition with the pool's
        current sqrt price and the sqrt price of a requested tick, which may coincide): never a
        division by zero, for any amount and any two prices; the early return on a zero price
        difference is what makes this true *)
Theorem C15_liquidity_base_no_division_by_zero : forall amount sa sb, liq_base true amount sa sb <> DDivZero.
Proof. exact liq_base_no_division_by_zero. Qed.
Print Assumptions C15_liquidity_base_no_division_by_zero.

Theorem C15_liquidity_quote_no_division_by_zero : forall amount sa sb, liq_quote true amount sa sb <> DDivZero.
Proof. exact liq_quote_no_division_by_zero. Qed.
Print Assumptions C15_liquidity_quote_no_division_by_zero.

Theorem C15_liquidity_guard_needed :
  liq_base false 1000 P P = DDivZero /\ liq_quote false 1000 P P = DDivZero.
Proof. exact (conj liq_base_without_guard_divides_by_zero liq_quote_without_guard_divides_by_zero). Qed.
Print Assumptions C15_liquidity_guard_needed.

(* ---- the pinned commit violates the property (regression witnesses) *)
Theorem C15_pristine_decode_refuted : exists doc pb, decode pristine doc pb = Panic.
Proof. exact (ex_intro _ _ (ex_intro _ _ memo_swap_not_object)). Qed.
Print Assumptions C15_pristine_decode_refuted.

Theorem C15_pristine_validate_refuted : exists m, meta_validate pristine m = Panic.
Proof. exact (ex_intro _ _ (proj2 memo_empty_swap_nil_route)). Qed.
Print Assumptions C15_pristine_validate_refuted.

Theorem C15_pristine_route_refuted : exists r, route_validate pristine (Some r) = Panic.
Proof. exact (ex_intro _ _ route_reuse_panics). Qed.
Print Assumptions C15_pristine_route_refuted.

Theorem C15_pristine_handlers_refuted :
  exists req, run 3 [] (spec_of all_off "tokenconverter.Msg.Convert") req = Panic.
Proof. exact (ex_intro _ _ nil_int_convert). Qed.
Print Assumptions C15_pristine_handlers_refuted.

Theorem C15_pristine_fee_rate_refuted : swap_rate_ok false P = true /\ fee_gross P 1000 = None.
Proof. exact interface_fee_rate_one. Qed.
Print Assumptions C15_pristine_fee_rate_refuted.

(* ---- non-vacuity: a well-formed valid memo decodes, validates and lets the packet
        continue; a valid request passes the whole head of its handler *)
Example C15_nonvacuous_memo :
  let route := RSeries urise [117; 97; 116; 111; 109] true
                 [RPool urise uusdc (Some 0); RPool uusdc [117; 97; 116; 111; 109] (Some 1)] in
  let m := {| sm_route := Some route; sm_amt := AIn (Some (Some 5));
              sm_forward := Some {| fw_receiver_empty := false; fw_port_ok := true; fw_chan_ok := true |} |} in
  let doc := Some (JObj [(K_swap, JObj [(K_forward, JObj [(K_next, JObj [])])])]) in
  decode patched doc (PbOk (Some m)) = Ok (m, true) /\
  meta_validate patched m = Ok tt /\
  recv_head patched true doc (PbOk (Some m)) true = Ok RecvContinue /\
  inspect route = Ok tt.
Proof. vm_compute. repeat split; reflexivity. Qed.

Example C15_nonvacuous_head :
  let req := VMsg true [Sacc; Sempty; VRoute (Some good_route); VInt (Some 100); VInt (Some 1)] in
  wf_val req = true /\ req_present req = true /\
  In ("swap.Msg.SwapExactAmountIn"%string, false, spec_of all_on "swap.Msg.SwapExactAmountIn") (specs all_on) /\
  run 0 [] (spec_of all_on "swap.Msg.SwapExactAmountIn") req = Ok tt.
Proof.
  split; [reflexivity|]. split; [reflexivity|]. split; [|vm_compute; reflexivity].
  apply find_spec_in. vm_compute. reflexivity.
Qed.
