package dacommon

import (
	"fmt"
	"math/big"
	"sort"
	"strings"
	"time"

	sdkmath "cosmossdk.io/math"
	sdk "github.com/cosmos/cosmos-sdk/types"
	datypes "github.com/sunriselayer/sunrise/x/da/types"

	"verifharness/emit"
)

// Profile selects the emphasis of the generator and the check module the cases are for.
type Profile struct {
	Prop   string // "C07" or "C08"
	Import string // Coq module with [run]
	Type   string // Coq type of one case
	Rule   string
}

var (
	C07 = Profile{Prop: "C07", Import: "Da.C07Check", Type: "c07_case",
		Rule: "one case = one operation (publish / submit-invalidity / submit-validity-proof / (un)register deputy / block end) executed on the real application with the projection of x/da state and balances dumped before and after; non-trivial (DESIGN.md section 9) when a block end fell within 1 s of a challenge/proof/retention deadline of some item or changed at least one item's status; distinct by (set of transitions, offset bucket to the nearest deadline, number of items)"}
	C08 = Profile{Prop: "C08", Import: "Da.C08Check", Type: "c08_case",
		Rule: "one case = one operation on the real application with x/da state and real bank balances (module account, publishers, challengers, validators) before and after; non-trivial (DESIGN.md section 9) when the block end resolved an item that had at least one challenger, or expired an item below the threshold with at least one invalidity record; distinct by (transition, number of challengers, records left, collateral vectors)"}
)

type Runner struct {
	W     *World
	R     *emit.Rand
	St    *emit.Stats
	CF    *emit.CasesFile
	Prof  Profile
	TNext time.Time // time of the block being assembled
	last  *State
	Poor  int // principal id of an account with almost no funds
	Jail  int // principal id of a validator that is not bonded (0 = none)
	tag   string
	// BlockFailed is set when a block end returned an error or panicked (the application is
	// not usable afterwards).
	BlockFailed bool
	// ghost: the items as they stood after the previous block end of this application (C07's
	// history monitor judges every move against it).
	ghost []Item
	msgs  int // messages executed in the block being assembled
	// ledger (C08's ghost): per unresolved uri, what the module account actually gained on the
	// accepted publish and on every accepted challenge for it; kept independently of the stores.
	ledger map[int][]*big.Int
	// pruned: uris of items that were removed at a block end (candidates for re-publication)
	pruned []int
}

func (rn *Runner) dump() State {
	if rn.last != nil {
		return *rn.last
	}
	s := rn.W.Dump()
	rn.last = &s
	return s
}

func (rn *Runner) invalidate() { rn.last = nil }

// Advance fixes the time of the block being assembled to dt after the last block.
func (rn *Runner) Advance(dt time.Duration) {
	if rn.msgs > 0 {
		panic("dacommon: block time changed after messages of the block were executed")
	}
	if dt <= 0 {
		dt = time.Nanosecond
	}
	rn.TNext = rn.W.H.Time.Add(dt)
}

// AdvanceTo sets the time of the block being assembled (must be after the last block).
func (rn *Runner) AdvanceTo(t time.Time) { rn.Advance(t.Sub(rn.W.H.Time)) }

func sameVec(a, b []*big.Int) bool {
	for i := range a {
		if a[i].Cmp(b[i]) != 0 {
			return false
		}
	}
	return true
}

// Do executes one operation as one case.
func (rn *Runner) Do(op *Op) (State, State) {
	if strings.HasPrefix(rn.tag, "gen:") && op.Kind != OpEndBlock {
		// every address-typed field is spelled in upper case with probability 1/10
		for _, f := range []int{UpSender, UpValidator, UpDeputy} {
			if rn.R.Chance(1, 10) {
				op.Up |= f
			}
		}
		rn.St.Count(fmt.Sprintf("spelling:%d", op.Up))
	}
	pre := rn.dump()
	rn.W.Apply(op, rn.TNext)
	rn.invalidate()
	post := rn.dump()
	term := CaseTerm(pre, *op, post)
	if rn.Prof.Prop == "C07" {
		g := make([]string, len(rn.ghost))
		for i, it := range rn.ghost {
			g[i] = fmt.Sprintf("(%d, %d, %d)", it.URI, it.Status, it.Ts)
		}
		term = fmt.Sprintf("HCase %s (%s)", emit.List(g), term)
	}
	if rn.Prof.Prop == "C08" {
		uris := make([]int, 0, len(rn.ledger))
		for u := range rn.ledger {
			uris = append(uris, u)
		}
		sort.Ints(uris)
		g := make([]string, len(uris))
		for i, u := range uris {
			g[i] = fmt.Sprintf("(%d, %s)", u, zsBig(rn.ledger[u]))
		}
		term = fmt.Sprintf("GCase %s (%s)", emit.List(g), term)
	}
	rn.updateLedger(pre, op, post)
	rn.CF.Add(term)
	info := op.Info()
	info["ghost_after_previous_block"] = fmt.Sprint(len(rn.ghost), " items")
	info["tag"] = rn.tag
	info["pre"] = summarize(pre)
	info["post"] = summarize(post)
	rn.St.Info(info)
	rn.St.Evaluations++
	rn.St.Count(fmt.Sprintf("%s:%s", op.Kind, resName(op.Res)))
	rn.classify(pre, op, post, info)
	rn.msgs++
	if op.Kind == OpEndBlock {
		rn.msgs = 0
		if op.Res != 0 {
			rn.BlockFailed = true
		}
		rn.ghost = post.Items
		rn.Advance(time.Second)
	}
	return pre, post
}

// updateLedger books what this operation did to the deposits, from the observed balances only.
func (rn *Runner) updateLedger(pre State, op *Op, post State) {
	if rn.ledger == nil {
		rn.ledger = map[int][]*big.Int{}
	}
	gain := make([]*big.Int, len(Denoms))
	for i := range gain {
		gain[i] = new(big.Int).Sub(post.Bals[0][i], pre.Bals[0][i])
	}
	switch op.Kind {
	case OpPublish:
		if op.Res == 0 {
			rn.ledger[op.URI] = gain
		}
	case OpInval:
		if op.Res == 0 {
			if cur, ok := rn.ledger[op.URI]; ok {
				for i := range cur {
					cur[i] = new(big.Int).Add(cur[i], gain[i])
				}
			}
		}
	case OpEndBlock:
		for _, it := range pre.Items {
			p := findItem(post, it.URI)
			if p == nil {
				rn.pruned = append(rn.pruned, it.URI)
			}
			if p == nil || p.Status == StVerified || p.Status == StRejected {
				delete(rn.ledger, it.URI)
			}
		}
	}
}

func resName(r int) string {
	switch r {
	case 0:
		return "ok"
	case -1:
		return "panic"
	}
	return fmt.Sprintf("err%d", r)
}

func summarize(s State) map[string]any {
	items := []string{}
	for _, it := range s.Items {
		items = append(items, fmt.Sprintf("uri=%d status=%d ts=%d n=%d parity=%d publisher=%d pc=%v ic=%v", it.URI, it.Status, it.Ts, it.N, it.Parity, it.Publisher, it.PC, it.IC))
	}
	invs := []string{}
	for _, v := range s.Invs {
		invs = append(invs, fmt.Sprintf("uri=%d sender=%d idx=%v", v.URI, v.Sender, v.Idx))
	}
	prfs := []string{}
	for _, v := range s.Prfs {
		prfs = append(prfs, fmt.Sprintf("uri=%d validator=%d idx=%v", v.URI, v.Val, v.Idx))
	}
	return map[string]any{"items": items, "invalidities": invs, "proofs": prfs, "deputies": s.Deps,
		"module_balance": fmt.Sprint(s.Bals[0]),
		"params":         fmt.Sprintf("thr=%s rf=%s cp=%d pp=%d rej=%d ver=%d pc=%v ic=%v", s.Prm.Thr, s.Prm.RF, s.Prm.CP, s.Prm.PP, s.Prm.Rej, s.Prm.Ver, s.Prm.PC, s.Prm.IC)}
}

func bucket(d int64) string {
	abs := d
	if abs < 0 {
		abs = -abs
	}
	sign := "+"
	if d < 0 {
		sign = "-"
	}
	switch {
	case d == 0:
		return "0"
	case abs == 1:
		return sign + "1ns"
	case abs < 1_000_000_000:
		return fmt.Sprintf("%s0.%ds", sign, abs/100_000_000)
	}
	return sign + ">=1s"
}

func findItem(s State, uri int) *Item {
	for i := range s.Items {
		if s.Items[i].URI == uri {
			return &s.Items[i]
		}
	}
	return nil
}

func countInvs(s State, uri int) int {
	n := 0
	for _, v := range s.Invs {
		if v.URI == uri {
			n++
		}
	}
	return n
}

// deadline of an item in the state (ns), by its status.
func deadline(s State, it Item) int64 {
	switch it.Status {
	case StChallenge:
		return it.Ts + s.Prm.CP
	case StChalling:
		return it.Ts + s.Prm.PP
	case StVerified:
		return it.Ts + s.Prm.Ver
	}
	return it.Ts + s.Prm.Rej
}

func (rn *Runner) classify(pre State, op *Op, post State, info map[string]any) {
	st := rn.St
	if op.Kind == OpEndBlock {
		var trans []string
		changed := 0
		nearest := int64(1) << 62
		near := false
		for _, it := range pre.Items {
			d := op.Now - deadline(pre, it)
			if d > -1_000_000_000 && d < 1_000_000_000 {
				near = true
				if abs64(d) < abs64(nearest) {
					nearest = d
				}
			}
			p := findItem(post, it.URI)
			k := countInvs(pre, it.URI)
			switch {
			case p == nil:
				trans = append(trans, fmt.Sprintf("%d>gone", it.Status))
				st.Count(fmt.Sprintf("pruned:%d", it.Status))
			case p.Status != it.Status:
				trans = append(trans, fmt.Sprintf("%d>%d", it.Status, p.Status))
				changed++
				st.Count(fmt.Sprintf("transition:%d>%d", it.Status, p.Status))
				if rn.Prof.Prop == "C08" && (p.Status == StVerified || p.Status == StRejected) && k > 0 {
					left := countInvs(post, it.URI)
					st.Nontriv(fmt.Sprintf("resolve/%d>%d/k=%d/left=%d/pc=%v/ic=%v", it.Status, p.Status, k, left, it.PC, it.IC))
					if it.Status == StChallenge {
						st.Count("expired-below-threshold-with-challengers")
					}
				}
			}
		}
		sort.Strings(trans)
		if rn.Prof.Prop == "C07" && (near || changed > 0) {
			b := "far"
			if near {
				b = bucket(nearest)
			}
			st.Nontriv(fmt.Sprintf("block/%s/%s/%d", strings.Join(trans, ","), b, len(pre.Items)))
		}
		if near {
			st.Count("block-end-within-1s-of-deadline")
		}
		if len(trans) > 0 {
			st.Sample(info)
		}
		return
	}
	// messages are not counted as non-trivial (DESIGN.md section 9 counts block ends only for
	// C07 and resolutions only for C08); their kinds and result classes are in the histogram.
	if op.Kind == OpInval || op.Kind == OpProof {
		b := "no-item"
		if it := findItem(pre, op.URI); it != nil {
			b = fmt.Sprintf("status%d/%s", it.Status, bucket(op.Now-deadline(pre, *it)))
		}
		st.Count(fmt.Sprintf("window:%s:%s:%s", op.Kind, resName(op.Res), b))
	}
}

func abs64(x int64) int64 {
	if x < 0 {
		return -x
	}
	return x
}

// ---------- parameters ----------

type PSet struct {
	Thr, RF          string
	CP, PP, Rej, Ver time.Duration
	PC, IC           [2]int64
}

func coinsOf(v [2]int64) sdk.Coins {
	cs := sdk.Coins{}
	for i, d := range Denoms {
		if v[i] > 0 {
			cs = cs.Add(sdk.NewCoin(d, sdkmath.NewInt(v[i])))
		}
	}
	return cs
}

func (rn *Runner) SetParams(ps PSet) {
	err := rn.W.SetParams(func(p *datypes.Params) {
		p.ChallengeThreshold, p.ReplicationFactor = ps.Thr, ps.RF
		p.ChallengePeriod, p.ProofPeriod, p.RejectedRemovalPeriod, p.VerifiedRemovalPeriod = ps.CP, ps.PP, ps.Rej, ps.Ver
		p.PublishDataCollateral, p.SubmitInvalidityCollateral = coinsOf(ps.PC), coinsOf(ps.IC)
		p.SlashEpoch = 1_000_000 // slash epochs are C09's subject
	})
	if err != nil {
		panic(fmt.Sprintf("SetParams: %v", err))
	}
	rn.invalidate()
	rn.St.Count("params-changed")
}

// RawCoin is one entry of a collateral list exactly as offered to MsgUpdateParams (no sorting, no
// merging, no dropping of zero entries).
type RawCoin struct {
	Denom  int // index into Denoms
	Amount int64
}

func rawCoins(l []RawCoin) sdk.Coins {
	cs := sdk.Coins{}
	for _, c := range l {
		cs = append(cs, sdk.Coin{Denom: Denoms[c.Denom], Amount: sdkmath.NewInt(c.Amount)})
	}
	return cs
}

func rawTerm(l []RawCoin) string {
	xs := make([]string, len(l))
	for i, c := range l {
		xs[i] = fmt.Sprintf("(%d, %s)", c.Denom, emit.ZI(c.Amount))
	}
	return emit.List(xs)
}

// OfferCollateral asks the real MsgUpdateParams whether it takes the two collateral lists as they
// are written; the answer is a case of its own (compared with sdk.Coins validity in Coq). Whatever is
// accepted is the parameter set from here on.
func (rn *Runner) OfferCollateral(pc, ic []RawCoin) bool {
	err := rn.W.SetParams(func(p *datypes.Params) {
		p.PublishDataCollateral, p.SubmitInvalidityCollateral = rawCoins(pc), rawCoins(ic)
	})
	rn.invalidate()
	ok := err == nil
	rn.St.Count(fmt.Sprintf("offer-collateral:%v", ok))
	if rn.Prof.Prop == "C08" {
		rn.CF.Add(fmt.Sprintf("PCase %s %s %s", rawTerm(pc), rawTerm(ic), emit.Bool(ok)))
		info := map[string]any{"kind": "offer-collateral-params", "publish_collateral": fmt.Sprint(pc), "invalidity_collateral": fmt.Sprint(ic), "accepted": ok, "tag": rn.tag}
		if err != nil {
			info["err"] = err.Error()
		}
		rn.St.Info(info)
		rn.St.Evaluations++
	}
	return ok
}

// odd collateral lists: zero entries mixed with positive ones, duplicates, unsorted, negative, empty
var oddLists = [][]RawCoin{
	{{0, 100}, {1, 0}}, {{0, 0}, {1, 5}}, {{0, 0}}, {{0, 100}, {0, 100}}, {{1, 5}, {0, 100}}, {{0, -5}}, {{0, 100}, {1, -1}},
	{}, {{0, 100}}, {{0, 60}, {1, 2}}, {{1, 9}},
}

// lifeCycle: with the parameters in force, one item is published, challenged over the threshold by
// two accounts and rejected, while another item stays open.
func (rn *Runner) lifeCycle() {
	a := func(i int) int { return rn.W.AcctIDs[i] }
	u, res := rn.Publish(a(0), 2, 0)
	if res != 0 {
		return
	}
	rn.Inval(a(1), u, 0)
	rn.Inval(a(2), u, 1)
	_, post, _ := rn.EndBlock()
	it := findItem(post, u)
	if it == nil || rn.BlockFailed {
		return
	}
	rn.BlockAt(ns(it.Ts + int64(rn.dump().Prm.PP)))
}

// OddCollateral: ask the real validation about collateral lists outside the domain of valid
// sdk.Coins, and live with whatever it accepts.
func (rn *Runner) OddCollateral() {
	rn.tag = "corpus:odd-collateral"
	rn.NewWorldN(6, false)
	rn.SetParams(PSet{Thr: "0.5", RF: "1", CP: 10 * time.Second, PP: 10 * time.Second, Rej: 12 * time.Second, Ver: 12 * time.Second,
		PC: [2]int64{1000, 7}, IC: [2]int64{100, 3}})
	rn.Publish(rn.W.AcctIDs[3], 4, 0) // stays open for a while: its collateral is what an over-payment would eat
	rn.Publish(rn.W.AcctIDs[3], 4, 0)
	rn.EndBlock()
	good := []RawCoin{{0, 1000}, {1, 7}}
	for i, l := range oddLists {
		if rn.BlockFailed {
			return
		}
		var ok bool
		if i%2 == 0 {
			ok = rn.OfferCollateral(good, l) // odd invalidity collateral
		} else {
			ok = rn.OfferCollateral(l, []RawCoin{{0, 100}})
		}
		if ok {
			rn.lifeCycle()
		}
	}
	rn.OfferCollateral(good, []RawCoin{{0, 100}, {1, 3}})
	rn.finish()
}

// ---------- world construction ----------

func (rn *Runner) NewWorld(jail bool) { rn.NewWorldN(6, jail) }

// NewWorldN starts a fresh application with nAcct funded accounts (the last one poor).
func (rn *Runner) NewWorldN(nAcct int, jail bool) {
	if rn.W != nil {
		rn.W.Close()
	}
	rn.W = NewWorld(nAcct, 4, 1_000_000_000_000)
	rn.invalidate()
	rn.ghost = nil
	rn.msgs = 0
	rn.ledger = map[int][]*big.Int{}
	rn.pruned = nil
	w := rn.W
	// one poor account: everything but 50 of each denom goes to another account
	rn.Poor = w.AcctIDs[len(w.AcctIDs)-1]
	ctx := w.H.Ctx()
	poor, rich := w.Addr(rn.Poor), w.Addr(w.AcctIDs[0])
	amt := sdk.NewCoins(sdk.NewCoin("urise", sdkmath.NewInt(1_000_000_000_000-50)), sdk.NewCoin("uusdc", sdkmath.NewInt(1_000_000_000_000-50)))
	if err := w.H.App.BankKeeper.SendCoins(ctx, poor, rich, amt); err != nil {
		panic(err)
	}
	rn.Jail = 0
	if jail {
		v := w.H.Vals[len(w.H.Vals)-1]
		if err := w.H.App.StakingKeeper.Jail(ctx, sdk.ConsAddress(v.Address)); err != nil {
			panic(err)
		}
		rn.Jail = w.ID(sdk.AccAddress(v.Address).String())
	}
	if _, err := w.H.NextBlock(time.Second); err != nil {
		panic(err)
	}
	rn.Advance(time.Second)
}

// ---------- scripted helpers ----------

func (rn *Runner) Publish(sender, n int, parity uint64) (int, int) {
	uri := rn.W.NextURI
	rn.W.NextURI++
	op := &Op{Kind: OpPublish, Sender: sender, URI: uri, N: n, Parity: parity}
	rn.Do(op)
	return uri, op.Res
}

// PublishURI publishes under a given uri (re-publication of a removed item's uri).
func (rn *Runner) PublishURI(sender, uri, n int, parity uint64) int {
	op := &Op{Kind: OpPublish, Sender: sender, URI: uri, N: n, Parity: parity}
	rn.Do(op)
	return op.Res
}
func (rn *Runner) Inval(sender, uri int, idx ...int64) int {
	op := &Op{Kind: OpInval, Sender: sender, URI: uri, Idx: idx}
	rn.Do(op)
	return op.Res
}
func (rn *Runner) ProofOK(sender, val, uri int, idx ...int64) int {
	var pr [][]byte
	for _, i := range idx {
		j := int(i)
		if j < 0 {
			j = 0
		}
		pr = append(pr, rn.W.Pool.Proofs[j%len(rn.W.Pool.Proofs)])
	}
	op := &Op{Kind: OpProof, Sender: sender, Val: val, URI: uri, Idx: idx, Proofs: pr}
	rn.Do(op)
	return op.Res
}
func (rn *Runner) Reg(sender, deputy int) int {
	op := &Op{Kind: OpReg, Sender: sender, Deputy: deputy}
	rn.Do(op)
	return op.Res
}
func (rn *Runner) Unreg(sender int) int {
	op := &Op{Kind: OpUnreg, Sender: sender}
	rn.Do(op)
	return op.Res
}
func (rn *Runner) EndBlock() (State, State, int) {
	op := &Op{Kind: OpEndBlock}
	pre, post := rn.Do(op)
	return pre, post, op.Res
}

// BlockAt ends a block at exactly t.
func (rn *Runner) BlockAt(t time.Time) (State, State, int) {
	rn.AdvanceTo(t)
	return rn.EndBlock()
}

func ns(t int64) time.Time { return time.Unix(0, t).UTC() }

// alignFrac ends blocks so that the block being assembled has the given nanosecond fraction.
func (rn *Runner) alignFrac(frac int64) {
	t := rn.W.H.Time.Add(time.Second)
	base := t.Truncate(time.Second).Add(time.Duration(frac))
	if !base.After(rn.W.H.Time) {
		base = base.Add(time.Second)
	}
	rn.AdvanceTo(base)
}

// Corpus: fixed regression histories (witnesses of the defects found while building the
// check, boundary cases of every window). They run first on every run.
func (rn *Runner) Corpus() {
	acct := func(i int) int { return rn.W.AcctIDs[i] }
	val := func(i int) int { // i-th bonded validator
		for _, id := range rn.W.ValIDs {
			if id != rn.Jail {
				if i == 0 {
					return id
				}
				i--
			}
		}
		panic("not enough validators")
	}
	base := PSet{Thr: "0.33", RF: "1", CP: 10 * time.Second, PP: 10 * time.Second, Rej: 20 * time.Second, Ver: 20 * time.Second,
		PC: [2]int64{1000, 0}, IC: [2]int64{100, 0}}

	// --- 1. sub-second placement of the challenge deadline (DESIGN 7 #13)
	rn.tag = "corpus:early-expiry"
	rn.NewWorld(true)
	rn.SetParams(base)
	rn.alignFrac(900_000_000)
	u1, _ := rn.Publish(acct(0), 10, 0)
	_, post, _ := rn.EndBlock()
	ts := findItem(post, u1).Ts
	rn.BlockAt(ns(ts + 10_000_000_000 - 800_000_000)) // 0.8 s before the deadline: second-truncated keys already match
	rn.AdvanceTo(ns(ts + 10_000_000_000 - 400_000_000))
	rn.Inval(acct(1), u1, 0, 1, 2, 3) // still inside the challenge window
	rn.EndBlock()
	rn.BlockAt(ns(ts + 10_000_000_000 + 10_000_000_000 - 1)) // 1 ns before the proof deadline (if it became challenging)
	rn.BlockAt(ns(ts + 30_000_000_000))
	rn.BlockAt(ns(ts + 60_000_000_000))

	// --- 2. challenge below the threshold, item expires (DESIGN 7 #9)
	rn.tag = "corpus:below-threshold-expiry"
	u2, _ := rn.Publish(acct(0), 10, 0)
	rn.EndBlock()
	rn.Inval(acct(1), u2, 0)
	rn.Inval(acct(2), u2, 0, 1)
	_, post, _ = rn.EndBlock()
	ts = findItem(post, u2).Ts
	rn.BlockAt(ns(ts + 10_000_000_000 - 1))
	rn.BlockAt(ns(ts + 10_000_000_000))
	rn.BlockAt(ns(ts + 31_000_000_000)) // pruned after retention
	rn.BlockAt(ns(ts + 40_000_000_000))

	// --- 3. the same sender challenges twice (DESIGN 7 #10)
	rn.tag = "corpus:repeated-challenge"
	u3, _ := rn.Publish(acct(0), 10, 0)
	rn.Inval(acct(1), u3, 0)
	rn.Inval(acct(1), u3, 1, 2, 3, 4)
	rn.Inval(acct(2), u3, 1, 2, 3, 4)
	_, post, _ = rn.EndBlock()
	ts = findItem(post, u3).Ts
	rn.BlockAt(ns(ts + 10_000_000_000))
	rn.BlockAt(ns(ts + 25_000_000_000))

	// --- 4. indices that are not shards (DESIGN 7 #14)
	rn.tag = "corpus:index-range"
	u4, _ := rn.Publish(acct(0), 10, 0)
	rn.Inval(acct(1), u4, 100, 101, 102, -1)
	rn.Inval(acct(2), u4, 10)
	rn.Inval(acct(2), u4, 9)
	_, post, _ = rn.EndBlock()
	if it := findItem(post, u4); it != nil && it.Status == StChalling {
		rn.ProofOK(val(0), val(0), u4, -1)
		rn.ProofOK(val(0), val(0), u4, 10)
		rn.EndBlock()
	}
	ts = findItem(post, u4).Ts
	rn.BlockAt(ns(ts + 10_000_000_000))
	rn.BlockAt(ns(ts + 21_000_000_000))

	// --- 5. threshold reached exactly / missed by one, overlapping challengers
	rn.tag = "corpus:threshold-boundary"
	p5 := base
	p5.Thr = "0.5"
	rn.SetParams(p5)
	u5, _ := rn.Publish(acct(0), 10, 0)
	u5b, _ := rn.Publish(acct(3), 10, 3)
	rn.Inval(acct(1), u5, 0, 1, 2)
	rn.Inval(acct(2), u5, 2, 3, 3, 2)
	rn.Inval(acct(1), u5b, 0, 1, 2)
	rn.Inval(acct(2), u5b, 2, 3, 4)
	rn.EndBlock() // u5: 4 distinct < 5; u5b: 5 distinct = 0.5 * 10
	rn.Inval(acct(4), u5, 4)
	rn.EndBlock()
	rn.SetParams(base)

	// --- 6. rejection with several challengers and division dust, two denoms
	rn.tag = "corpus:reject-dust"
	p6 := base
	p6.PC, p6.IC = [2]int64{1000, 7}, [2]int64{100, 3}
	rn.SetParams(p6)
	u6, _ := rn.Publish(acct(0), 6, 2)
	rn.SetParams(base) // params change between publication and resolution
	rn.Inval(acct(1), u6, 0)
	rn.Inval(acct(2), u6, 1)
	rn.Inval(acct(3), u6, 0, 2)
	_, post, _ = rn.EndBlock()
	ts = findItem(post, u6).Ts
	rn.BlockAt(ns(ts + 10_000_000_000 - 1))
	rn.BlockAt(ns(ts + 10_000_000_000)) // u5, u5b, u6 resolve around here
	rn.BlockAt(ns(ts + 12_000_000_000))

	// --- 7. verified by tally: one challenger right, one wrong; deputies; windows of the proof message
	rn.tag = "corpus:tally-verified"
	u7, _ := rn.Publish(acct(0), 4, 2)
	rn.Inval(acct(1), u7, 0, 1)
	rn.Inval(acct(2), u7, 3)
	_, post, _ = rn.EndBlock()
	ts = findItem(post, u7).Ts         // now challenging
	rn.ProofOK(acct(3), val(0), u7, 0) // no deputy registered
	rn.Reg(val(0), acct(3))
	rn.ProofOK(acct(3), val(0), u7, 0, 1) // deputy
	rn.ProofOK(acct(4), val(0), u7, 0)    // not the deputy
	rn.ProofOK(val(1), val(1), u7, 1)     // validator itself
	rn.ProofOK(acct(4), acct(4), u7, 0)   // not a validator
	if rn.Jail != 0 {
		rn.ProofOK(rn.Jail, rn.Jail, u7, 0) // not bonded
	}
	rn.Unreg(val(0))
	rn.Unreg(val(0))
	rn.ProofOK(acct(3), val(0), u7, 0)
	bad := &Op{Kind: OpProof, Sender: val(2), Val: val(2), URI: u7, Idx: []int64{0}, Proofs: [][]byte{rn.W.Pool.Proofs[1]}}
	rn.Do(bad) // proof of another hash
	bad = &Op{Kind: OpProof, Sender: val(2), Val: val(2), URI: u7, Idx: []int64{0}, Proofs: [][]byte{{0}}}
	rn.Do(bad)
	bad = &Op{Kind: OpProof, Sender: val(2), Val: val(2), URI: u7, Idx: []int64{0, 1}, Proofs: [][]byte{rn.W.Pool.Proofs[0]}}
	rn.Do(bad)
	rn.ProofOK(val(2), val(2), u7) // empty proof
	rn.EndBlock()
	rn.AdvanceTo(ns(ts + 10_000_000_000))
	rn.ProofOK(val(2), val(2), u7, 0) // exactly at the deadline: accepted
	rn.Inval(acct(4), u7, 2)          // not in challenge period
	rn.EndBlock()                     // and resolved at this block end
	rn.ProofOK(val(2), val(2), u7, 0)

	// --- 8. window boundaries of the challenge message
	rn.tag = "corpus:challenge-window"
	u8, _ := rn.Publish(acct(0), 3, 0)
	_, post, _ = rn.EndBlock()
	ts = findItem(post, u8).Ts
	rn.AdvanceTo(ns(ts + 10_000_000_000 + 1))
	rn.Inval(acct(1), u8, 0) // 1 ns late
	rn.Inval(acct(1), 999999, 0)
	rn.Inval(acct(1), u8)
	rn.EndBlock()
	u9, _ := rn.Publish(acct(0), 3, 0)
	rn.Publish(rn.Poor, 3, 0)
	rn.Publish(acct(0), 3, 3)
	rn.Publish(acct(0), 0, 0)
	_, post, _ = rn.EndBlock()
	ts = findItem(post, u9).Ts
	rn.AdvanceTo(ns(ts + 10_000_000_000))
	rn.Inval(rn.Poor, u9, 0)
	rn.Inval(acct(1), u9, 0) // exactly at the deadline: accepted, then expires at this block end
	rn.EndBlock()
	rn.finish()
}

// SameBlock: what one block end may and may not do to one item. Items in every phase meet in one
// block; a challenge that reaches the threshold arrives in the very block whose time is the
// challenge deadline (the handler still accepts it, so it must be tallied, not expire); an item is
// published and challenged over the threshold in one block; a long time jump lets both deadlines of
// an item pass before the next block (one move per block all the same); periods of one nanosecond
// (accepted by Params.Validate).
func (rn *Runner) SameBlock() {
	rn.tag = "corpus:same-block-phases"
	rn.NewWorldN(6, false)
	a := func(i int) int { return rn.W.AcctIDs[i] }
	base := PSet{Thr: "0.5", RF: "1", CP: 10 * time.Second, PP: 10 * time.Second, Rej: 12 * time.Second, Ver: 12 * time.Second,
		PC: [2]int64{1000, 0}, IC: [2]int64{100, 0}}
	rn.SetParams(base)
	uA, _ := rn.Publish(a(0), 4, 0)
	uB, _ := rn.Publish(a(0), 4, 0)
	rn.Publish(a(3), 4, 1) // C: nobody challenges
	uD, _ := rn.Publish(a(3), 2, 0)
	rn.Inval(a(1), uD, 0) // D reaches 0.5 * 2 at once
	_, post, _ := rn.EndBlock()
	t0 := findItem(post, uA).Ts
	// the block whose time is exactly the challenge deadline of A, B, C (and the proof deadline of D)
	rn.AdvanceTo(ns(t0 + 10_000_000_000))
	rn.Inval(a(1), uA, 0, 1) // reaches the threshold in the deadline block: must become challenging
	rn.Inval(a(2), uB, 3)    // stays below: B expires
	uE, _ := rn.Publish(a(4), 4, 0)
	rn.Inval(a(1), uE, 2, 3) // published and over the threshold in one block
	rn.EndBlock()
	// time jump over every pending deadline: A, E tallied; B, C, D pruned; nothing does two moves
	rn.BlockAt(ns(t0 + 35_000_000_000))
	rn.BlockAt(ns(t0 + 36_000_000_000))
	rn.BlockAt(ns(t0 + 60_000_000_000))
	// one-nanosecond periods
	short := base
	short.CP, short.PP, short.Rej, short.Ver = time.Nanosecond, time.Nanosecond, time.Nanosecond, time.Nanosecond
	rn.SetParams(short)
	rn.Publish(a(0), 4, 0)
	uG, _ := rn.Publish(a(3), 4, 0)
	rn.Inval(a(1), uG, 0, 1)
	rn.EndBlock() // F stays (its deadline is 1 ns ahead), G challenging
	for i := 0; i < 4; i++ {
		rn.Advance(time.Nanosecond)
		if i == 1 {
			rn.Publish(a(4), 3, 0)
		}
		rn.EndBlock()
	}
	// a jump with the short periods: verified now, pruned only at the next block
	rn.Publish(a(0), 4, 0)
	uI, _ := rn.Publish(a(3), 4, 0)
	rn.Inval(a(2), uI, 0, 1)
	rn.EndBlock()
	rn.Advance(30 * time.Second)
	rn.EndBlock()
	rn.Advance(30 * time.Second)
	rn.EndBlock()
	rn.SetParams(base)
	rn.finish()
}

// FreePublishing: publish collateral empty (accepted by Params.Validate). An item is challenged
// over the threshold and VERIFIED by the tally with every challenger right (they name exactly the
// unproven shards, which the parity shards cover), so the publisher's refund is empty; then the item
// is pruned and the same uri is published again under non-empty collateral, challenged and
// resolved. The records and proofs of the first life must be gone by then. Run twice: with and
// without invalidity collateral.
func (rn *Runner) FreePublishing() {
	rn.tag = "corpus:free-publishing"
	rn.NewWorldN(6, false)
	a := func(i int) int { return rn.W.AcctIDs[i] }
	for round, ic := range [][2]int64{{100, 3}, {0, 0}} {
		free := PSet{Thr: "0.5", RF: "1", CP: 10 * time.Second, PP: 10 * time.Second, Rej: 12 * time.Second, Ver: 12 * time.Second,
			PC: [2]int64{0, 0}, IC: ic}
		rn.SetParams(free)
		u, _ := rn.Publish(a(0), 4, 2)
		uOther, _ := rn.Publish(a(3), 4, 2) // unchallenged neighbour: expires with an empty refund
		rn.Inval(a(1), u, 3)
		rn.Inval(a(2), u, 2, 3)
		_, post, _ := rn.EndBlock() // u challenging
		_ = uOther
		ts := findItem(post, u).Ts
		for _, v := range rn.W.ValIDs {
			rn.ProofOK(v, v, u, 0, 1) // shards 0 and 1 proven, 2 and 3 not: both challengers are right
		}
		rn.EndBlock()
		rn.BlockAt(ns(ts + 10_000_000_000)) // tally: verified, challengers refunded, nothing for the publisher
		rn.BlockAt(ns(ts + 23_000_000_000)) // pruned
		paid := free
		paid.PC = [2]int64{1000, 7}
		paid.IC = [2]int64{60, 0}
		rn.SetParams(paid)
		rn.PublishURI(a(4), u, 4, 0) // the same uri again
		if round == 0 {
			rn.Inval(a(3), u, 0)
		}
		_, post, _ = rn.EndBlock()
		ts = findItem(post, u).Ts
		rn.BlockAt(ns(ts + 10_000_000_000))
		rn.BlockAt(ns(ts + 21_000_000_000))
		rn.BlockAt(ns(ts + 35_000_000_000))
		rn.finish()
	}
}

// SameSecond (seeded C07-r8): the status/time index is keyed by whole seconds, then by uri, so
// inside one second the scan order is uri order, not time order. Two items stamped in the same
// second, the LATER one with the SMALLER uri, and a block end strictly between their exact
// deadlines: the earlier item is due and must be resolved at that block end although an item that
// is not yet due precedes it in the scan. Once for the challenge period (expiry -> VERIFIED) and
// once for the proof period (tally), then the block end after both deadlines.
func (rn *Runner) SameSecond() {
	rn.tag = "corpus:same-second-uri-order"
	rn.NewWorldN(6, false)
	a := func(i int) int { return rn.W.AcctIDs[i] }
	base := PSet{Thr: "0.5", RF: "1", CP: 10 * time.Second, PP: 10 * time.Second, Rej: 30 * time.Second, Ver: 30 * time.Second,
		PC: [2]int64{1000, 0}, IC: [2]int64{100, 0}}
	rn.SetParams(base)
	for _, challenged := range []bool{false, true} {
		low1, low2 := rn.W.NextURI, rn.W.NextURI+1 // reserved: used later, sort first
		rn.W.NextURI += 2
		rn.alignFrac(100_000_000)
		t0 := rn.TNext.UnixNano() // time of the block being assembled
		early, _ := rn.Publish(a(0), 2, 0)
		early2, _ := rn.Publish(a(3), 2, 0)
		if challenged {
			rn.Inval(a(1), early, 0)
			rn.Inval(a(2), early2, 1)
		}
		rn.EndBlock() // stamped t0 (challenged: CHALLENGING since t0)
		rn.AdvanceTo(ns(t0 + 800_000_000))
		rn.PublishURI(a(4), low1, 2, 0)
		rn.PublishURI(a(0), low2, 2, 0)
		if challenged {
			rn.Inval(a(1), low1, 0)
			rn.Inval(a(2), low2, 1)
		}
		rn.EndBlock() // stamped t0 + 0.8 s, same second, smaller uris
		rn.BlockAt(ns(t0 + 10_000_000_000 + 400_000_000)) // between the deadlines: the early pair is due
		rn.BlockAt(ns(t0 + 10_000_000_000 + 800_000_000)) // the late pair is due
		rn.BlockAt(ns(t0 + 21_000_000_000))
	}
	rn.finish()
}

// ParamsMidLife: the collateral parameters change while items are open (seeded C08-r8). What an
// item pays back is what was frozen in it at publication, whatever the parameters say when it
// resolves: (a) an item published for free expires unchallenged after the publish collateral was
// raised, next to a paid neighbour whose collateral the module holds; (b) a paid item expires after
// the collateral was dropped to nothing and after it was raised; (c) the same through the tally
// (challenged, verified and rejected) with both parameters changed before the verdict.
func (rn *Runner) ParamsMidLife() {
	rn.tag = "corpus:params-mid-life"
	rn.NewWorldN(8, false)
	a := func(i int) int { return rn.W.AcctIDs[i] }
	base := PSet{Thr: "0.5", RF: "1", CP: 10 * time.Second, PP: 10 * time.Second, Rej: 12 * time.Second, Ver: 12 * time.Second}
	with := func(pc, ic [2]int64) PSet { q := base; q.PC, q.IC = pc, ic; return q }
	// (a) free item, then the price goes up
	rn.SetParams(with([2]int64{0, 0}, [2]int64{0, 0}))
	uFree, _ := rn.Publish(a(0), 4, 2)
	_, post, _ := rn.EndBlock()
	it := findItem(post, uFree)
	if it == nil {
		rn.finish()
		return
	}
	ts := it.Ts
	rn.SetParams(with([2]int64{1000, 7}, [2]int64{60, 0}))
	rn.Publish(a(1), 4, 2) // paid neighbour: its collateral is in the module when uFree expires
	rn.Publish(a(2), 4, 2)
	rn.EndBlock()
	rn.BlockAt(ns(ts + 10_000_000_000)) // uFree verified: nothing to refund
	// (b) paid items, then the price drops to nothing / rises
	uPaid, _ := rn.Publish(a(3), 4, 2)
	_, post, _ = rn.EndBlock()
	if it = findItem(post, uPaid); it != nil {
		ts = it.Ts
		rn.SetParams(with([2]int64{0, 0}, [2]int64{0, 0}))
		rn.Publish(a(4), 4, 2) // free neighbour
		rn.EndBlock()
		rn.BlockAt(ns(ts + 10_000_000_000)) // uPaid verified: refund = what was frozen (1000, 7)
	}
	rn.SetParams(with([2]int64{10, 3}, [2]int64{7, 1}))
	uSmall, _ := rn.Publish(a(5), 4, 2)
	_, post, _ = rn.EndBlock()
	if it = findItem(post, uSmall); it != nil {
		ts = it.Ts
		rn.SetParams(with([2]int64{1001, 8}, [2]int64{100, 3}))
		rn.Publish(a(6), 4, 2)
		rn.EndBlock()
		rn.BlockAt(ns(ts + 10_000_000_000))
	}
	rn.BlockAt(ns(ts + 40_000_000_000)) // everything open expires and is pruned
	// (c) through the tally: verified (challengers wrong) and rejected (nobody proves), parameters
	// changed between the challenge and the verdict
	for _, prove := range []bool{true, false} {
		for _, first := range [][2][2]int64{{{0, 0}, {0, 0}}, {{1000, 7}, {60, 0}}} {
			rn.SetParams(with(first[0], first[1]))
			u, _ := rn.Publish(a(0), 4, 2)
			rn.Publish(a(7), 4, 2) // neighbour that stays open
			rn.Inval(a(1), u, 3)
			rn.Inval(a(2), u, 2, 3)
			_, post, _ = rn.EndBlock()
			if it = findItem(post, u); it == nil {
				continue
			}
			ts = it.Ts
			if first[0][0] == 0 {
				rn.SetParams(with([2]int64{1000, 7}, [2]int64{60, 0}))
			} else {
				rn.SetParams(with([2]int64{0, 0}, [2]int64{0, 0}))
			}
			rn.Publish(a(3), 4, 2)
			if prove {
				for _, v := range rn.W.ValIDs {
					rn.ProofOK(v, v, u, 0, 1, 2, 3)
				}
			}
			rn.EndBlock()
			rn.BlockAt(ns(ts + 10_000_000_000))
			rn.BlockAt(ns(ts + 20_000_000_000))
			rn.BlockAt(ns(ts + 45_000_000_000))
		}
	}
	rn.finish()
}

// Spelling: the same account under both spellings of its bech32 address (all lower / all upper:
// same bytes, same signer) in every address-typed field of every x/da message: a second challenge,
// a second proof, deputy registration and unregistration under the other spelling, publisher and
// challengers stored in upper case and paid out at resolution.
func (rn *Runner) Spelling() {
	rn.tag = "corpus:address-spelling"
	rn.NewWorldN(6, false)
	a := func(i int) int { return rn.W.AcctIDs[i] }
	v := func(i int) int { return rn.W.ValIDs[i] }
	rn.SetParams(PSet{Thr: "0.5", RF: "1", CP: 10 * time.Second, PP: 10 * time.Second, Rej: 12 * time.Second, Ver: 12 * time.Second,
		PC: [2]int64{1000, 7}, IC: [2]int64{100, 3}})
	do := func(op *Op) int { rn.Do(op); return op.Res }
	pub := func(sender, n int, parity uint64, up int) int {
		u := rn.W.NextURI
		rn.W.NextURI++
		do(&Op{Kind: OpPublish, Sender: sender, URI: u, N: n, Parity: parity, Up: up})
		return u
	}
	inval := func(sender, uri, up int, idx ...int64) int {
		return do(&Op{Kind: OpInval, Sender: sender, URI: uri, Idx: idx, Up: up})
	}
	proof := func(sender, val, uri, up int, idx ...int64) int {
		var pr [][]byte
		for _, i := range idx {
			pr = append(pr, rn.W.Pool.Proofs[int(i)%len(rn.W.Pool.Proofs)])
		}
		return do(&Op{Kind: OpProof, Sender: sender, Val: val, URI: uri, Idx: idx, Proofs: pr, Up: up})
	}
	uX := pub(a(0), 4, 2, UpSender) // publisher stored in upper case
	uY := pub(a(0), 4, 0, 0)
	pub(a(3), 2, 0, UpSender) // expires unchallenged: refund to an upper-case publisher
	inval(a(1), uX, 0, 3)
	inval(a(1), uX, UpSender, 2) // the same account again, other spelling
	inval(a(2), uX, UpSender, 2, 3)
	inval(a(2), uX, 0, 3) // and the other way round
	inval(a(1), uY, UpSender, 0, 1)
	inval(a(1), uY, 0, 2)
	inval(a(1), uY, UpSender, 3)
	_, post, _ := rn.EndBlock() // X and Y challenging
	ts := findItem(post, uX).Ts
	proof(v(0), v(0), uX, 0, 0, 1)
	proof(v(0), v(0), uX, UpSender|UpValidator, 0, 1) // second proof of the same validator
	proof(v(1), v(1), uX, UpValidator, 0, 1)
	proof(v(2), v(2), uX, UpSender, 0)
	do(&Op{Kind: OpReg, Sender: v(3), Deputy: a(4), Up: UpSender | UpDeputy})
	proof(a(4), v(3), uX, UpSender, 1)
	proof(a(4), v(3), uX, UpValidator, 0, 1)
	do(&Op{Kind: OpUnreg, Sender: v(3)}) // registered in upper case, unregistered in lower case
	do(&Op{Kind: OpUnreg, Sender: v(3), Up: UpSender})
	proof(a(4), v(3), uX, 0, 1)
	do(&Op{Kind: OpReg, Sender: v(3), Deputy: a(4)})
	do(&Op{Kind: OpReg, Sender: v(3), Deputy: a(5), Up: UpSender}) // replaces, not a second entry
	do(&Op{Kind: OpUnreg, Sender: v(3), Up: UpSender})
	rn.EndBlock()
	rn.BlockAt(ns(ts + 10_000_000_000)) // X verified by tally (right challengers refunded), Y rejected
	rn.BlockAt(ns(ts + 23_000_000_000))
	rn.finish()
}

// RejectShares: rejected items with k = 1..9 challengers whose publish collateral leaves every
// interesting remainder modulo k (0, 1, k/2, k/2+1, k-1; the quotient is odd so that a remainder of
// exactly k/2 is rounding-sensitive too), two remainder classes per item (one per denom). The items
// of a batch are open together and the second batch is still open when the first is paid out, so a
// share that is not floor(collateral / k) shows in the module balance and in every challenger's balance.
func (rn *Runner) RejectShares() {
	rn.tag = "corpus:reject-shares"
	rn.NewWorldN(12, false)
	w := rn.W
	base := PSet{Thr: "0.1", RF: "1", CP: 10 * time.Second, PP: 10 * time.Second, Rej: 20 * time.Second, Ver: 20 * time.Second,
		PC: [2]int64{1000, 0}, IC: [2]int64{100, 3}}
	publisher := w.AcctIDs[0]
	challengers := w.AcctIDs[1:10]
	var deadlines []int64
	for _, ks := range [][]int{{1, 2, 3, 4, 5}, {6, 7, 8, 9}} {
		for _, k := range ks {
			var rems []int64
			for _, r := range []int64{0, 1, int64(k / 2), int64(k/2 + 1), int64(k - 1)} {
				dup := r >= int64(k)
				for _, x := range rems {
					dup = dup || x == r
				}
				if !dup {
					rems = append(rems, r)
				}
			}
			for i := 0; i < len(rems); i += 2 {
				p := base
				p.PC[0] = 101*int64(k) + rems[i]
				p.PC[1] = 0
				if i+1 < len(rems) {
					p.PC[1] = 101*int64(k) + rems[i+1]
				}
				rn.SetParams(p)
				u, _ := rn.Publish(publisher, 10, 0)
				for j := 0; j < k; j++ {
					rn.Inval(challengers[j], u, int64(j))
				}
			}
		}
		_, _, _ = rn.EndBlock() // threshold 0.1 * 10 shards: every item of the batch is challenging now
		deadlines = append(deadlines, rn.W.H.Time.UnixNano()+10_000_000_000)
		rn.Advance(3 * time.Second)
	}
	for _, d := range deadlines {
		rn.BlockAt(ns(d)) // no proofs: the whole batch is rejected and paid out
	}
	rn.finish()
}

// ZeroThreshold: challenge threshold 0 sends an item to challenging without any challenger; with no
// proofs it is rejected at the proof deadline with nobody to pay (C08 finding F2). On a tree
// without the guard of notes/patches/C09-no-division-by-zero-challengers.patch that block end
// panics (division by the number of challengers), which is C01/C09's subject.
func (rn *Runner) ZeroThreshold() {
	rn.tag = "corpus:reject-no-challenger"
	rn.NewWorld(false)
	rn.SetParams(PSet{Thr: "0", RF: "1", CP: 10 * time.Second, PP: 10 * time.Second, Rej: 20 * time.Second, Ver: 20 * time.Second,
		PC: [2]int64{1000, 0}, IC: [2]int64{100, 0}})
	u, _ := rn.Publish(rn.W.AcctIDs[0], 4, 1)
	_, post, res := rn.EndBlock()
	if res != 0 || findItem(post, u) == nil {
		return
	}
	ts := findItem(post, u).Ts
	rn.BlockAt(ns(ts + 10_000_000_000 - 1))
	if _, _, res = rn.BlockAt(ns(ts + 10_000_000_000)); res != 0 {
		return
	}
	rn.finish()
}

// zeroGuarded runs ZeroThreshold on a scratch runner to learn whether the tree under test
// survives it.
func zeroGuarded(prof Profile) bool {
	sc := &Runner{R: emit.NewRand(0), St: emit.NewStats(prof.Prop, 0, ""), Prof: prof, CF: &emit.CasesFile{}}
	sc.ZeroThreshold()
	sc.W.Close()
	return !sc.BlockFailed
}

// finish ends blocks until every item is resolved and pruned (end-of-history obligation).
func (rn *Runner) finish() {
	for i := 0; i < 12 && !rn.BlockFailed; i++ {
		s := rn.dump()
		if len(s.Items) == 0 {
			return
		}
		var next int64
		for _, it := range s.Items {
			if d := deadline(s, it); d > next {
				next = d
			}
		}
		if t := rn.W.H.Time.UnixNano(); next <= t {
			next = t + 1_000_000_000
		}
		rn.BlockAt(ns(next))
	}
}

// ---------- random histories ----------

var (
	thrs = []string{"0.33", "0.5", "0.1", "1", "0.25", "0.34", "0.75"}
	rfs  = []string{"1", "0.5", "2", "5", "1.5"}
	cps  = []time.Duration{4 * time.Second, 6500 * time.Millisecond, 10 * time.Second, 7123456789, time.Second}
	pps  = []time.Duration{5 * time.Second, 8 * time.Second, 6000000001, 500 * time.Millisecond, 3 * time.Second, time.Nanosecond}
	rets = []time.Duration{6 * time.Second, 9 * time.Second, 12500 * time.Millisecond, time.Second, time.Nanosecond}
	pcs  = [][2]int64{{1_000_000_000, 0}, {1000, 0}, {1000, 7}, {0, 0}, {10, 3}, {0, 5}, {1001, 8}, {5, 2}, {1_000_000_001, 0}, {0, 0}, {0, 0}}
	ics  = [][2]int64{{100_000_000, 0}, {100, 0}, {100, 3}, {0, 0}, {7, 1}, {60, 0}}
	offs = []int64{-1_500_000_000, -999_999_999, -400_000_000, -1, 0, 0, 0, 1, 400_000_000, 999_999_999, 1_000_000_000}
)

func (rn *Runner) randParams() PSet {
	r := rn.R
	return PSet{Thr: emit.Pick(r, thrs...), RF: emit.Pick(r, rfs...), CP: emit.Pick(r, cps...), PP: emit.Pick(r, pps...),
		Rej: emit.Pick(r, rets...), Ver: emit.Pick(r, rets...), PC: emit.Pick(r, pcs...), IC: emit.Pick(r, ics...)}
}

func (rn *Runner) pickTime() {
	r := rn.R
	s := rn.dump()
	now := rn.W.H.Time.UnixNano()
	var ds []int64
	for _, it := range s.Items {
		if d := deadline(s, it); d > now-2_000_000_000 {
			ds = append(ds, d)
		}
	}
	if r.Chance(1, 14) { // time jump over several deadlines at once
		rn.Advance(time.Duration(12_000_000_000 + r.Int63n(30_000_000_000)))
		return
	}
	if len(ds) > 0 && r.Chance(6, 10) {
		t := ds[r.Intn(len(ds))] + emit.Pick(r, offs...)
		if t > now {
			rn.AdvanceTo(ns(t))
			return
		}
	}
	rn.Advance(time.Duration(200_000_000 + r.Int63n(3_000_000_000)))
}

// republishable picks the uri of a removed item that is not stored now and has no surviving record.
// (Records that survive their item are known finding C08-F1; publishing over them again is a
// downstream effect of that finding, which its trigger does not cover, so the random stream keeps
// away from it. The corpus re-publishes unconditionally.)
func (rn *Runner) republishable(s State) int {
	for i := len(rn.pruned) - 1; i >= 0; i-- {
		u := rn.pruned[i]
		ok := findItem(s, u) == nil
		for _, v := range s.Invs {
			ok = ok && v.URI != u
		}
		for _, v := range s.Prfs {
			ok = ok && v.URI != u
		}
		if ok {
			return u
		}
	}
	return 0
}

func subset(r *emit.Rand, n, k int) []int64 {
	perm := make([]int64, n)
	for i := range perm {
		perm[i] = int64(i)
	}
	for i := n - 1; i > 0; i-- {
		j := r.Intn(i + 1)
		perm[i], perm[j] = perm[j], perm[i]
	}
	if k > n {
		k = n
	}
	return perm[:k]
}

func itemsWith(s State, status int) []Item {
	var out []Item
	for _, it := range s.Items {
		if it.Status == status {
			out = append(out, it)
		}
	}
	return out
}

func (rn *Runner) randMsg() {
	r := rn.R
	w := rn.W
	s := rn.dump()
	anyAcct := func() int { return w.AcctIDs[r.Intn(len(w.AcctIDs))] }
	anyPrinc := func() int { return 1 + r.Intn(len(w.Princ)) }
	pickItem := func(status int) *Item {
		c := itemsWith(s, status)
		if len(c) > 0 && r.Chance(8, 10) {
			return &c[r.Intn(len(c))]
		}
		if len(s.Items) > 0 && r.Chance(1, 2) {
			return &s.Items[r.Intn(len(s.Items))]
		}
		return nil
	}
	wInval := 35
	if rn.Prof.Prop == "C08" {
		wInval = 45
	}
	// defend a challenging item: several bonded validators prove (nearly) all its shards
	var ch []Item
	for _, it := range itemsWith(s, StChalling) {
		if it.Ts+s.Prm.PP >= rn.TNext.UnixNano() {
			ch = append(ch, it) // still inside its proof window
		}
	}
	if len(ch) > 0 && r.Chance(1, 4) {
		it := ch[r.Intn(len(ch))]
		// sometimes prove exactly the shards nobody disputed: every challenger stays right
		complement := r.Chance(1, 3)
		var undisputed []int64
		for i := int64(0); i < int64(it.N); i++ {
			hit := false
			for _, v := range s.Invs {
				if v.URI == it.URI {
					for _, j := range v.Idx {
						hit = hit || j == i
					}
				}
			}
			if !hit {
				undisputed = append(undisputed, i)
			}
		}
		for _, v := range w.ValIDs {
			if v == rn.Jail || r.Chance(1, 4) {
				continue
			}
			k := it.N
			if r.Chance(1, 3) {
				k = 1 + r.Intn(it.N)
			}
			idx := subset(r, it.N, k)
			if complement {
				idx = undisputed
			}
			sender := v
			for _, d := range s.Deps {
				if d[0] == v {
					switch r.Intn(6) {
					case 0, 1, 2:
						sender = d[1] // the registered deputy
					case 3:
						sender = anyAcct() // most likely not the deputy
					}
				}
			}
			rn.ProofOK(sender, v, it.URI, idx...)
		}
		return
	}
	if len(s.Items) == 0 && r.Chance(1, 2) {
		rn.Publish(anyAcct(), 1+r.Intn(6), 0)
		return
	}
	// reach the threshold in one message, preferably on an item whose challenge window closes with
	// the block being assembled (accepted by the handler, so it must still be tallied)
	var open []Item
	for _, it := range itemsWith(s, StChallenge) {
		d := it.Ts + s.Prm.CP - rn.TNext.UnixNano()
		if d == 0 {
			open = append(open, it, it, it, it)
		} else if d > 0 {
			open = append(open, it)
		}
	}
	if len(open) > 0 && r.Chance(1, 6) {
		it := open[r.Intn(len(open))]
		sender := 0
		for _, c := range w.AcctIDs[:len(w.AcctIDs)-1] {
			fresh := true
			for _, v := range s.Invs {
				fresh = fresh && !(v.URI == it.URI && v.Sender == c)
			}
			if fresh {
				sender = c
			}
		}
		if sender != 0 {
			rn.Inval(sender, it.URI, subset(r, it.N, it.N)...)
			return
		}
	}
	// pile on: many accounts challenge the same item, one index each
	if cp := itemsWith(s, StChallenge); len(cp) > 0 && r.Chance(1, 10) {
		it := cp[r.Intn(len(cp))]
		k := 3 + r.Intn(len(w.AcctIDs)-3)
		for j := 0; j < k; j++ {
			rn.Inval(w.AcctIDs[j], it.URI, int64(r.Intn(it.N)))
		}
		return
	}
	x := r.Intn(65 + wInval)
	switch {
	case x < 22: // publish
		if len(s.Items) >= 7 && r.Chance(3, 4) {
			return
		}
		n := 1 + r.Intn(8)
		parity := uint64(r.Intn(n))
		if r.Chance(1, 12) {
			parity = uint64(n + r.Intn(2))
		}
		sender := anyAcct()
		op := &Op{Kind: OpPublish, Sender: sender, N: n, Parity: parity}
		if len(s.Items) > 0 && r.Chance(1, 15) {
			op.URI = s.Items[r.Intn(len(s.Items))].URI
		} else if u := rn.republishable(s); u != 0 && r.Chance(1, 3) {
			op.URI = u // the uri of an item that was removed
		} else {
			op.URI = w.NextURI
			w.NextURI++
		}
		rn.Do(op)
	case x < 22+wInval: // invalidity
		it := pickItem(StChallenge)
		op := &Op{Kind: OpInval, Sender: anyAcct()}
		n := 4
		if it == nil {
			op.URI = 900000 + r.Intn(10)
		} else {
			op.URI, n = it.URI, it.N
			if r.Chance(1, 6) { // an earlier challenger of this item again
				for _, v := range s.Invs {
					if v.URI == it.URI {
						op.Sender = v.Sender
					}
				}
			}
			if r.Chance(1, 12) {
				op.Sender = it.Publisher
			}
		}
		switch y := r.Intn(20); {
		case y == 0:
			op.Idx = nil
		case y == 1:
			op.Idx = []int64{int64(n)}
		case y == 2:
			op.Idx = []int64{-1, 0}
		case y == 3:
			op.Idx = []int64{0, 0, int64(n - 1)}
		case y == 4:
			op.Idx = subset(r, n, n)
		default:
			op.Idx = subset(r, n, 1+r.Intn(max(1, (n+1)/2)))
		}
		rn.Do(op)
	case x < 22+wInval+28: // proof
		it := pickItem(StChalling)
		op := &Op{Kind: OpProof}
		op.Val = w.ValIDs[r.Intn(len(w.ValIDs))]
		if r.Chance(1, 10) {
			op.Val = anyAcct()
		}
		op.Sender = op.Val
		if y := r.Intn(10); y < 4 {
			for _, d := range s.Deps {
				if d[0] == op.Val {
					op.Sender = d[1]
				}
			}
		} else if y < 6 {
			op.Sender = anyPrinc()
		}
		n := 4
		if it == nil {
			op.URI = 900000 + r.Intn(10)
		} else {
			op.URI, n = it.URI, it.N
		}
		op.Idx = subset(r, n, r.Intn(n+1))
		if r.Chance(1, 15) {
			op.Idx = append(op.Idx, int64(n))
		}
		if r.Chance(1, 30) {
			op.Idx = append(op.Idx, -1)
		}
		for _, i := range op.Idx {
			j := int(i)
			if j < 0 {
				j = 0
			}
			op.Proofs = append(op.Proofs, w.Pool.Proofs[j%len(w.Pool.Proofs)])
		}
		if len(op.Proofs) > 0 {
			switch r.Intn(20) {
			case 0:
				op.Proofs[r.Intn(len(op.Proofs))] = []byte{1, 2, 3}
			case 1:
				k := r.Intn(len(op.Proofs))
				op.Proofs[k] = w.Pool.Proofs[(int(op.Idx[k])+1+len(w.Pool.Proofs))%len(w.Pool.Proofs)]
			case 2:
				op.Proofs = op.Proofs[:len(op.Proofs)-1]
			}
		}
		rn.Do(op)
	case x < 22+wInval+38: // register
		op := &Op{Kind: OpReg, Sender: w.ValIDs[r.Intn(len(w.ValIDs))], Deputy: anyAcct()}
		if r.Chance(1, 4) {
			op.Sender = anyAcct()
		}
		rn.Do(op)
	default:
		op := &Op{Kind: OpUnreg, Sender: w.ValIDs[r.Intn(len(w.ValIDs))]}
		if r.Chance(1, 4) {
			op.Sender = anyAcct()
		}
		rn.Do(op)
	}
}

// RandomWorld runs about nOps operations on a fresh application.
func (rn *Runner) RandomWorld(nOps int, k int) {
	r := rn.R
	rn.tag = fmt.Sprintf("gen:world-%d", k)
	rn.NewWorldN(10, r.Chance(1, 2))
	rn.SetParams(rn.randParams())
	start := rn.St.Evaluations
	for rn.St.Evaluations-start < nOps {
		rn.pickTime()
		m := []int{0, 0, 1, 1, 1, 2, 2, 3, 4, 6}[r.Intn(10)]
		for i := 0; i < m; i++ {
			rn.randMsg()
		}
		_, _, res := rn.EndBlock()
		if res != 0 {
			rn.St.Notes = append(rn.St.Notes, fmt.Sprintf("block failed in %s: result %d", rn.tag, res))
			return // the application is not usable after a failed block
		}
		if r.Chance(1, 12) {
			rn.SetParams(rn.randParams())
		}
		if r.Chance(1, 25) { // ask the real validation about an odd collateral list
			if r.Bool() {
				rn.OfferCollateral([]RawCoin{{0, 1000}}, emit.Pick(r, oddLists...))
			} else {
				rn.OfferCollateral(emit.Pick(r, oddLists...), []RawCoin{{0, 100}})
			}
		}
	}
	rn.finish()
}

// Run is the entry point shared by packages c07 and c08.
func Run(prof Profile, seed int64, n int, outDir string) error {
	rn := &Runner{R: emit.NewRand(seed), St: emit.NewStats(prof.Prop, seed, prof.Rule), Prof: prof,
		CF: &emit.CasesFile{Import: prof.Import, Runner: "run", Type: prof.Type}}
	rn.Corpus()
	rn.SameBlock()
	rn.FreePublishing()
	rn.ParamsMidLife()
	rn.SameSecond()
	rn.Spelling()
	rn.OddCollateral()
	rn.RejectShares()
	if zeroGuarded(prof) {
		rn.ZeroThreshold()
	} else {
		rn.St.Notes = append(rn.St.Notes, "zero-threshold scenario skipped: on this tree a rejection without challengers panics in EndBlock (division by zero; see notes/patches/C09-no-division-by-zero-challengers.patch)")
	}
	rn.St.Extra["corpus_cases"] = rn.St.Evaluations
	per := 150
	for k := 0; rn.St.Evaluations < n; k++ {
		left := n - rn.St.Evaluations
		if left > per {
			left = per
		}
		rn.RandomWorld(left, k)
	}
	if rn.W != nil {
		rn.W.Close()
	}
	if _, err := rn.CF.Write(outDir, "cases", 100); err != nil {
		return err
	}
	return rn.St.Write(outDir)
}
