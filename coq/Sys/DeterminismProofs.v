(* C14 proofs: every map-range body modelled in Sys/Determinism.v yields the same result for every
   iteration order (every permutation of the entry list), and every site enumerated by the
   translator is covered. *)
From Coq Require Import ZArith List Bool String Lia Permutation.
From Sunrise Require Import Base.Outcome Base.Dec Base.DecLemmas Sys.Coll Sys.Sites Sys.Perm Sys.Determinism.
From Sunrise Require Gen.Sites_gen.
Import ListNotations.
Local Open Scope Z_scope.
Local Open Scope res_scope.

(* ================================================================== weighted tallies *)
(* The body of a tally loop is a sequence of atomic accumulator operations whose operands do
   not depend on the accumulator; the loop over validators is the loop over all atomic
   operations; non-negative exact additions with a range assertion commute, failures included. *)
Inductive acc_op := OpAdd (k d : Z) | OpTot (d : Z) | OpPanic | OpErr (e : Z).

Definition apply_op (strict : bool) (s : tstate) (o : acc_op) : res tstate :=
  match o with
  | OpAdd k d => let! r' := add_result strict (fst s) k d in Ok (r', snd s)
  | OpTot d => let! t := of_opt (dadd (snd s) d) in Ok (fst s, t)
  | OpPanic => Panic
  | OpErr e => Err e
  end.

Fixpoint vote_ops (strict : bool) (vp : Z) (ws : list (Z * option Z)) : list acc_op :=
  match ws with
  | [] => []
  | (k, w) :: tl =>
      match w with
      | None => [if strict then OpPanic else OpErr 1]
      | Some w' =>
          match dmul vp w' with
          | None => [OpPanic]
          | Some sub => OpAdd k sub :: vote_ops strict vp tl
          end
      end
  end.

Definition ops_of (strict : bool) (v : tval) : list acc_op :=
  match tv_votes v with
  | [] => []
  | _ => match voting_power v with
         | Ok vp => vote_ops strict vp (tv_votes v) ++ [OpTot vp]
         | Panic => [OpPanic]
         | Err e => [OpErr e]
         end
  end.

Lemma add_votes_ops strict vp ws rest : forall r tot,
  foldM (apply_op strict) (vote_ops strict vp ws ++ rest) (r, tot) =
  rbind (add_votes strict strict vp ws r) (fun r' => foldM (apply_op strict) rest (r', tot)).
Proof.
  induction ws as [|[k w] tl IH]; intros r tot; cbn; [reflexivity|].
  destruct w as [w'|]; cbn.
  - destruct (dmul vp w') as [sub|]; cbn; [|reflexivity].
    destruct (add_result strict r k sub) as [r'| |]; cbn; [apply IH|reflexivity|reflexivity].
  - destruct strict; reflexivity.
Qed.

Lemma tally_step_ops strict s v :
  tally_step strict s v = foldM (apply_op strict) (ops_of strict v) s.
Proof.
  unfold tally_step, ops_of. destruct (tv_votes v) as [|p ws] eqn:Ev; [reflexivity|].
  destruct s as [r tot]. destruct (voting_power v) as [vp| |]; cbn [rbind]; [|reflexivity|reflexivity].
  rewrite add_votes_ops. destruct (add_votes strict strict vp (p :: ws) r) as [r'| |]; cbn; [|reflexivity|reflexivity].
  destruct (dadd tot vp); reflexivity.
Qed.

Definition good_op (o : acc_op) : Prop :=
  match o with
  | OpAdd _ d => 0 <= d
  | OpTot d => 0 <= d
  | OpPanic => True
  | OpErr _ => False
  end.

Definition tstate_ok (s : tstate) : Prop :=
  sm_ok (fst s) /\ (forall k v, sget k (fst s) = Some v -> 0 <= v) /\ 0 <= snd s.

Lemma dadd_nonneg_spec a b : 0 <= a -> 0 <= b ->
  dadd a b = if a + b <=? DEC_LIM then Some (a + b) else None.
Proof.
  intros Ha Hb. unfold dadd, chk, in_range. rewrite Z.abs_eq by lia. reflexivity.
Qed.

Lemma apply_op_pres strict s o s' : tstate_ok s -> good_op o -> apply_op strict s o = Ok s' -> tstate_ok s'.
Proof.
  destruct s as [r tot]. intros (Hok & Hnn & Ht) Hg. destruct o as [k d|d| |e]; cbn in *; try discriminate.
  - unfold add_result. destruct (sget k r) as [x|] eqn:Eg; cbn.
    + pose proof (Hnn _ _ Eg) as Hx. rewrite dadd_nonneg_spec by assumption.
      destruct (x + d <=? DEC_LIM); cbn; [|discriminate]. intros H. injection H as <-.
      split; [apply supd_ok; exact Hok|]. split; [|exact Ht]. cbn. intros k' v'. rewrite sget_supd.
      destruct (k' =? k); [intros H; injection H as <-; lia|apply Hnn].
    + destruct strict; cbn; [discriminate|]. rewrite dadd_nonneg_spec by lia.
      destruct (0 + d <=? DEC_LIM); cbn; [|discriminate]. intros H. injection H as <-.
      split; [apply supd_ok; exact Hok|]. split; [|exact Ht]. cbn. intros k' v'. rewrite sget_supd.
      destruct (k' =? k); [intros H; injection H as <-; lia|apply Hnn].
  - rewrite dadd_nonneg_spec by assumption. destruct (tot + d <=? DEC_LIM); cbn; [|discriminate].
    intros H. injection H as <-. split; [exact Hok|]. split; [exact Hnn|]. cbn. lia.
Qed.

(* value read by results[k] in non-strict mode / presence in strict mode *)
Definition old_of (strict : bool) (r : smap Z) (k : Z) : res Z :=
  match sget k r with Some x => Ok x | None => if strict then Panic else Ok 0 end.

Lemma add_result_spec strict r k d :
  add_result strict r k d =
  match old_of strict r k with
  | Ok x => match dadd x d with Some n => Ok (supd k n r) | None => Panic end
  | Err e => Err e
  | Panic => Panic
  end.
Proof.
  unfold add_result, old_of. destruct (sget k r); cbn; [destruct (dadd z d); reflexivity|].
  destruct strict; cbn; [reflexivity|]. destruct (dadd 0 d); reflexivity.
Qed.

Lemma old_of_supd strict r k k' n : k <> k' ->
  old_of strict (supd k' n r) k = old_of strict r k.
Proof. intros Hne. unfold old_of. rewrite sget_supd. destruct (Z.eqb_spec k k'); [contradiction|reflexivity]. Qed.

Lemma old_of_supd_same strict r k n : old_of strict (supd k n r) k = Ok n.
Proof. unfold old_of. rewrite sget_supd, Z.eqb_refl. reflexivity. Qed.

Lemma old_of_nonneg strict r k x : (forall k v, sget k r = Some v -> 0 <= v) -> old_of strict r k = Ok x -> 0 <= x.
Proof.
  intros Hnn. unfold old_of. destruct (sget k r) eqn:E; [intros H; injection H as <-; eapply Hnn; exact E|].
  destruct strict; [discriminate|]. intros H. injection H as <-. lia.
Qed.

Lemma old_of_not_err strict r k e : old_of strict r k <> Err e.
Proof. unfold old_of. destruct (sget k r); [discriminate|]. destruct strict; discriminate. Qed.

Lemma apply_op_comm strict s a b : tstate_ok s -> good_op a -> good_op b ->
  rbind (apply_op strict s a) (fun s' => apply_op strict s' b) =
  rbind (apply_op strict s b) (fun s' => apply_op strict s' a).
Proof.
  destruct s as [r tot]. intros (Hok & Hnn & Ht) Ha Hb. cbn in Hok, Hnn, Ht.
  destruct a as [k1 d1|d1| |e1]; destruct b as [k2 d2|d2| |e2]; cbn in Ha, Hb; try contradiction;
    cbn [apply_op fst snd]; rewrite ?add_result_spec.
  - (* Add / Add *)
    destruct (Z.eq_dec k1 k2) as [->|Hne].
    + destruct (old_of strict r k2) as [x| |] eqn:Eo; cbn; [|exfalso; eapply old_of_not_err; exact Eo|reflexivity].
      pose proof (old_of_nonneg _ _ _ _ Hnn Eo) as Hx.
      rewrite !dadd_nonneg_spec by lia.
      destruct (Z.leb_spec (x + d1) DEC_LIM), (Z.leb_spec (x + d2) DEC_LIM); cbn;
        rewrite ?add_result_spec, ?old_of_supd_same; cbn; rewrite ?dadd_nonneg_spec by lia.
      * destruct (Z.leb_spec (x + d1 + d2) DEC_LIM), (Z.leb_spec (x + d2 + d1) DEC_LIM); try lia; [|reflexivity].
        rewrite !supd_supd by exact Hok. do 3 f_equal. lia.
      * destruct (Z.leb_spec (x + d1 + d2) DEC_LIM); [lia|reflexivity].
      * destruct (Z.leb_spec (x + d2 + d1) DEC_LIM); [lia|reflexivity].
      * reflexivity.
    + destruct (old_of strict r k1) as [x1| |] eqn:E1; [|exfalso; eapply old_of_not_err; exact E1|];
      destruct (old_of strict r k2) as [x2| |] eqn:E2; try (exfalso; eapply old_of_not_err; exact E2); cbn.
      * destruct (dadd x1 d1) as [n1|] eqn:A1, (dadd x2 d2) as [n2|] eqn:A2; cbn;
          rewrite ?add_result_spec, ?old_of_supd by congruence; rewrite ?E1, ?E2, ?A1, ?A2; try reflexivity.
        rewrite supd_comm by (exact Hok || congruence). reflexivity.
      * destruct (dadd x1 d1) as [n1|] eqn:A1; cbn; [|reflexivity].
        rewrite add_result_spec, old_of_supd by congruence. rewrite E2. reflexivity.
      * destruct (dadd x2 d2) as [n2|] eqn:A2; cbn; [|reflexivity].
        rewrite add_result_spec, old_of_supd by congruence. rewrite E1. reflexivity.
      * reflexivity.
  - (* Add / Tot *)
    destruct (old_of strict r k1) as [x| |] eqn:Eo; cbn; [|exfalso; eapply old_of_not_err; exact Eo|].
    + destruct (dadd x d1) as [n|] eqn:A1; destruct (dadd tot d2) as [t|] eqn:A2; cbn;
        rewrite ?add_result_spec, ?Eo, ?A1, ?A2; cbn; rewrite ?A1, ?A2; reflexivity.
    + destruct (dadd tot d2); cbn; [rewrite add_result_spec, Eo|]; reflexivity.
  - (* Add / Panic *)
    destruct (old_of strict r k1) as [x| |] eqn:Eo; cbn; [|exfalso; eapply old_of_not_err; exact Eo|reflexivity].
    destruct (dadd x d1); reflexivity.
  - (* Tot / Add *)
    destruct (old_of strict r k2) as [x| |] eqn:Eo; cbn; [|exfalso; eapply old_of_not_err; exact Eo|].
    + destruct (dadd tot d1) as [t|] eqn:A1; destruct (dadd x d2) as [n|] eqn:A2; cbn;
        rewrite ?add_result_spec, ?Eo, ?A1, ?A2; cbn; rewrite ?A1, ?A2; reflexivity.
    + destruct (dadd tot d1); cbn; [rewrite add_result_spec, Eo|]; reflexivity.
  - (* Tot / Tot *)
    rewrite !dadd_nonneg_spec by lia.
    destruct (Z.leb_spec (tot + d1) DEC_LIM), (Z.leb_spec (tot + d2) DEC_LIM); cbn; rewrite ?dadd_nonneg_spec by lia.
    + destruct (Z.leb_spec (tot + d1 + d2) DEC_LIM), (Z.leb_spec (tot + d2 + d1) DEC_LIM); try lia; [|reflexivity].
      do 3 f_equal. lia.
    + destruct (Z.leb_spec (tot + d1 + d2) DEC_LIM); [lia|reflexivity].
    + destruct (Z.leb_spec (tot + d2 + d1) DEC_LIM); [lia|reflexivity].
    + reflexivity.
  - (* Tot / Panic *) destruct (dadd tot d1); reflexivity.
  - (* Panic / Add *)
    destruct (old_of strict r k2) as [x| |] eqn:Eo; cbn; [|exfalso; eapply old_of_not_err; exact Eo|reflexivity].
    destruct (dadd x d2); reflexivity.
  - (* Panic / Tot *) destruct (dadd tot d2); reflexivity.
  - reflexivity.
Qed.

(* what the code guarantees about one entry of currValidators / validators *)
Definition weight_ok (strict : bool) (kw : Z * option Z) : Prop :=
  match snd kw with Some w => 0 <= w | None => strict = true end.
Definition tval_ok (strict : bool) (v : tval) : Prop :=
  Forall (weight_ok strict) (tv_votes v) /\ 0 <= tv_deduct v <= tv_shares v /\ 0 <= tv_bonded v.

Lemma voting_power_nonneg v vp : 0 <= tv_deduct v <= tv_shares v -> 0 <= tv_bonded v ->
  voting_power v = Ok vp -> 0 <= vp.
Proof.
  intros Hd Hb. unfold voting_power.
  destruct (dsub (tv_shares v) (tv_deduct v)) as [a|] eqn:Ea; cbn; [|discriminate].
  apply dsub_some in Ea.
  destruct (dmul_int a (tv_bonded v)) as [m|] eqn:Em; cbn; [|discriminate].
  apply dmul_int_some in Em. unfold dquo.
  destruct (Z.eqb_spec (tv_shares v) 0) as [E0|Hne]; cbn; [discriminate|].
  destruct (chk _) as [q|] eqn:Eq; cbn; [|discriminate]. intros H. injection H as <-.
  apply chk_some in Eq. destruct Eq as [-> _]. apply chop_round_nonneg.
  apply Z.quot_pos; [|lia]. subst. unfold P. nia.
Qed.

Lemma voting_power_not_err v e : voting_power v <> Err e.
Proof.
  unfold voting_power. destruct (dsub _ _); cbn; [|discriminate].
  destruct (dmul_int _ _); cbn; [|discriminate]. destruct (dquo _ _); discriminate.
Qed.

Lemma vote_ops_good strict vp ws : 0 <= vp -> Forall (weight_ok strict) ws -> Forall good_op (vote_ops strict vp ws).
Proof.
  intros Hvp. induction ws as [|[k w] tl IH]; intros HF; cbn; [constructor|].
  inversion HF as [|? ? Hw Htl]; subst. unfold weight_ok in Hw. cbn in Hw.
  destruct w as [w'|].
  - destruct (dmul vp w') as [sub|] eqn:Em.
    + constructor; [cbn; eapply dmul_nonneg; [exact Hvp|exact Hw|exact Em]|apply IH; exact Htl].
    + constructor; [exact I|constructor].
  - subst. constructor; [exact I|constructor].
Qed.

Lemma ops_of_good strict v : tval_ok strict v -> Forall good_op (ops_of strict v).
Proof.
  intros (Hw & Hd & Hb). unfold ops_of. destruct (tv_votes v) as [|p ws] eqn:Ev; [constructor|].
  destruct (voting_power v) as [vp|e|] eqn:Evp.
  - pose proof (voting_power_nonneg _ _ Hd Hb Evp) as Hvp.
    apply Forall_app. split; [apply vote_ops_good; assumption|constructor; [exact Hvp|constructor]].
  - exfalso. eapply voting_power_not_err. exact Evp.
  - constructor; [exact I|constructor].
Qed.

Theorem tally_loop_order_independent strict : forall l l' s,
  Permutation l l' -> Forall (tval_ok strict) l -> tstate_ok s ->
  foldM (tally_step strict) l s = foldM (tally_step strict) l' s.
Proof.
  intros l l' s Hp HF Hs.
  rewrite (foldM_ext (tally_step strict) (fun s a => foldM (apply_op strict) (ops_of strict a) s) l)
    by (intros; apply tally_step_ops).
  rewrite (foldM_ext (tally_step strict) (fun s a => foldM (apply_op strict) (ops_of strict a) s) l')
    by (intros; apply tally_step_ops).
  rewrite !foldM_flat_map.
  apply (foldM_perm _ _ (apply_op strict) tstate_ok good_op).
  - intros. eapply apply_op_pres; eassumption.
  - intros. apply apply_op_comm; assumption.
  - apply Permutation_flat_map. exact Hp.
  - clear -HF. induction HF as [|v l Hv HF IH]; cbn; [constructor|].
    apply Forall_app. split; [apply ops_of_good; exact Hv|exact IH].
  - exact Hs.
Qed.

(* ================================================================== NewTallyResultFromMap + sort *)
Lemma fold_append_map {A B} (g : A -> B) l acc :
  fold_left (fun acc e => acc ++ [g e]) l acc = acc ++ map g l.
Proof.
  revert acc. induction l as [|a l IH]; intros acc; cbn; [rewrite app_nil_r; reflexivity|].
  rewrite IH, <- app_assoc. reflexivity.
Qed.

Theorem tally_results_order_independent : forall l l',
  Permutation l l' -> NoDup (map fst l) -> tally_results l = tally_results l'.
Proof.
  intros l l' Hp Hnd. unfold tally_results, tally_results_append.
  rewrite !(fold_append_map (fun e : Z * Z => (fst e, dtrunc_int (snd e)))). cbn [app].
  apply isort_by_perm; [apply Permutation_map; exact Hp|].
  rewrite map_map. cbn. exact Hnd.
Qed.

(* ================================================================== DA: safe shards / fault set *)
Definition da_is_safe (thr : Z) (e : Z * Z) : bool := thr <=? snd e * P.
Definition da_vals (c : da_ctx) (index : Z) : list Z :=
  match sget index (dc_indexed c) with Some l => l | None => [] end.
Definition da_pure (c : da_ctx) (thr : Z) (s : da_state) (e : Z * Z) : da_state :=
  if da_is_safe thr e then (fst s ++ [fst e], fold_left (da_fault_insert c (fst e)) (da_vals c (fst e)) (snd s)) else s.

Lemma da_step_pure c thr s e : (dc_n c <? dc_parity c) = false -> da_two_thirds c = Ok thr ->
  da_safe_step c s e = Ok (da_pure c thr s e).
Proof.
  intros Hn Ht. unfold da_safe_step, da_pure, da_is_safe, da_vals. destruct e as [index count], s as [safe fault].
  rewrite Hn, Ht. cbn. destruct (thr <=? count * P); reflexivity.
Qed.

Lemma da_loop_pure c thr l s : (dc_n c <? dc_parity c) = false -> da_two_thirds c = Ok thr ->
  da_safe_loop c l s = Ok (fold_left (da_pure c thr) l s).
Proof.
  intros Hn Ht. unfold da_safe_loop. revert s. induction l as [|e l IH]; intros s; cbn; [reflexivity|].
  rewrite (da_step_pure c thr) by assumption. cbn. apply IH.
Qed.

Lemma da_loop_skip c l s : (dc_n c <? dc_parity c) = true -> da_safe_loop c l s = Ok s.
Proof.
  intros Hn. unfold da_safe_loop. induction l as [|[i n] l IH]; cbn; [reflexivity|].
  destruct s as [safe fault]. rewrite Hn. cbn. exact IH.
Qed.

Lemma da_loop_fail c l s : (dc_n c <? dc_parity c) = false -> l <> [] ->
  (da_two_thirds c = Panic -> da_safe_loop c l s = Panic) /\
  (forall e, da_two_thirds c = Err e -> da_safe_loop c l s = Err e).
Proof.
  intros Hn Hl. destruct l as [|[i n] l]; [contradiction|]. unfold da_safe_loop. cbn. destruct s as [safe fault].
  rewrite Hn. split; [intros ->|intros e ->]; reflexivity.
Qed.

(* atomic fault insertions *)
Definition da_ins (c : da_ctx) (f : smap Z) (iv : Z * Z) : smap Z := da_fault_insert c (fst iv) f (snd iv).
Definition da_ins_ops (c : da_ctx) (thr : Z) (e : Z * Z) : list (Z * Z) :=
  if da_is_safe thr e then map (fun v => (fst e, v)) (da_vals c (fst e)) else [].

Lemma da_pure_split c thr l : forall s,
  fold_left (da_pure c thr) l s =
  (fst s ++ map fst (filter (da_is_safe thr) l), fold_left (da_ins c) (flat_map (da_ins_ops c thr) l) (snd s)).
Proof.
  induction l as [|e l IH]; intros [safe fault]; cbn; [rewrite app_nil_r; reflexivity|].
  rewrite IH. unfold da_pure, da_ins_ops. destruct (da_is_safe thr e); cbn [fst snd].
  - rewrite fold_left_app. f_equal; [cbn; rewrite <- app_assoc; reflexivity|]. f_equal.
    generalize (da_vals c (fst e)). intros vs. revert fault. induction vs as [|v vs IHv]; intros fault; cbn; [reflexivity|].
    apply IHv.
  - reflexivity.
Qed.

Lemma da_ins_ok c f iv : sm_ok f -> sm_ok (da_ins c f iv).
Proof. intros H. unfold da_ins, da_fault_insert. destruct (pair_mem _ _ _); [exact H|apply supd_ok; exact H]. Qed.

Lemma da_ins_comm c f a b : sm_ok f -> da_ins c (da_ins c f a) b = da_ins c (da_ins c f b) a.
Proof.
  intros Hok. unfold da_ins, da_fault_insert.
  destruct (pair_mem (fst a) (snd a) _), (pair_mem (fst b) (snd b) _); try reflexivity.
  destruct (Z.eq_dec (snd a) (snd b)) as [E|Hne]; [rewrite E; reflexivity|].
  apply supd_comm; [exact Hok|congruence].
Qed.

Definition res_da_equiv (x y : res da_state) : Prop :=
  match x, y with
  | Ok (safe, fault), Ok (safe', fault') => Permutation safe safe' /\ fault = fault'
  | Panic, Panic => True
  | Err e, Err e' => e = e'
  | _, _ => False
  end.

Theorem da_safe_loop_order_independent : forall c l l' s,
  Permutation l l' -> sm_ok (snd s) -> res_da_equiv (da_safe_loop c l s) (da_safe_loop c l' s).
Proof.
  intros c l l' s Hp Hok.
  destruct (dc_n c <? dc_parity c) eqn:Hn.
  - rewrite !da_loop_skip by exact Hn. destruct s. cbn. split; [apply Permutation_refl|reflexivity].
  - destruct (da_two_thirds c) as [thr|e|] eqn:Ht.
    + rewrite !(da_loop_pure c thr) by assumption. rewrite !da_pure_split. cbn. split.
      * apply Permutation_app_head. apply Permutation_map. apply Permutation_filter. exact Hp.
      * apply (fold_left_perm _ _ (da_ins c) sm_ok (fun _ => True)).
        -- intros. apply da_ins_ok. assumption.
        -- intros. apply da_ins_comm. assumption.
        -- apply Permutation_flat_map. exact Hp.
        -- apply Forall_forall. intros; exact I.
        -- exact Hok.
    + destruct l as [|x l].
      * apply Permutation_nil in Hp. subst. cbn. destruct s. split; [apply Permutation_refl|reflexivity].
      * assert (l' <> []) as Hl' by (intros ->; apply Permutation_sym, Permutation_nil in Hp; discriminate).
        destruct (da_loop_fail c (x :: l) s Hn ltac:(discriminate)) as [_ F1].
        destruct (da_loop_fail c l' s Hn Hl') as [_ F2]. rewrite (F1 e), (F2 e) by exact Ht. reflexivity.
    + destruct l as [|x l].
      * apply Permutation_nil in Hp. subst. cbn. destruct s. split; [apply Permutation_refl|reflexivity].
      * assert (l' <> []) as Hl' by (intros ->; apply Permutation_sym, Permutation_nil in Hp; discriminate).
        destruct (da_loop_fail c (x :: l) s Hn ltac:(discriminate)) as [F1 _].
        destruct (da_loop_fail c l' s Hn Hl') as [F2 _]. rewrite F1, F2 by exact Ht. exact I.
Qed.

Lemma check_correct_invalidity_perm ind safe safe' :
  Permutation safe safe' -> check_correct_invalidity ind safe = check_correct_invalidity ind safe'.
Proof.
  intros Hp. unfold check_correct_invalidity. f_equal.
  induction ind as [|i t IH]; cbn; [reflexivity|]. rewrite IH, (zmem_perm i safe safe' Hp). reflexivity.
Qed.

(* everything TallyValidityProofs derives from the loop is the same in every iteration order *)
Theorem da_item_order_independent : forall c l l' invs fault0,
  Permutation l l' -> sm_ok fault0 -> da_item c l invs fault0 = da_item c l' invs fault0.
Proof.
  intros c l l' invs fault0 Hp Hok. unfold da_item.
  pose proof (da_safe_loop_order_independent c l l' ([], fault0) Hp Hok) as H.
  destruct (da_safe_loop c l ([], fault0)) as [[safe fault]| |]; destruct (da_safe_loop c l' ([], fault0)) as [[safe' fault']| |];
    cbn in H; try contradiction; cbn; [|congruence|reflexivity].
  destruct H as [Hs ->]. unfold da_rejected. rewrite (Permutation_length Hs). do 3 f_equal.
  apply map_ext. intros ind. apply check_correct_invalidity_perm. exact Hs.
Qed.

(* ================================================================== DA: fault counters *)
Lemma fault_count_step_ok s v : sm_ok s -> sm_ok (fault_count_step s v).
Proof. intros. unfold fault_count_step. apply supd_ok. assumption. Qed.

Lemma fault_count_step_comm s a b : sm_ok s ->
  fault_count_step (fault_count_step s a) b = fault_count_step (fault_count_step s b) a.
Proof.
  intros Hok. destruct (Z.eq_dec a b) as [->|Hne]; [reflexivity|].
  apply sm_ext; [repeat apply fault_count_step_ok; exact Hok..|].
  intros k. unfold fault_count_step. rewrite !sget_supd.
  destruct (Z.eqb_spec k a) as [Ha|Ha]; destruct (Z.eqb_spec k b) as [Hb|Hb]; try congruence; try reflexivity.
  - subst k. destruct (Z.eqb_spec a b); [congruence|reflexivity].
  - subst k. destruct (Z.eqb_spec b a); [congruence|reflexivity].
Qed.

Theorem fault_count_loop_order_independent : forall l l' store,
  Permutation l l' -> sm_ok store -> fault_count_loop l store = fault_count_loop l' store.
Proof.
  intros l l' store Hp Hok. unfold fault_count_loop.
  apply (fold_left_perm _ _ fault_count_step sm_ok (fun _ => True)).
  - intros. apply fault_count_step_ok. assumption.
  - intros. apply fault_count_step_comm. assumption.
  - exact Hp.
  - apply Forall_forall. intros; exact I.
  - exact Hok.
Qed.

(* ================================================================== BlockedAddresses *)
Theorem blocked_loop_order_independent : forall l l' s,
  Permutation l l' -> sm_ok s -> blocked_loop l s = blocked_loop l' s.
Proof.
  intros l l' s Hp Hok. unfold blocked_loop.
  apply (fold_left_perm _ _ blocked_step sm_ok (fun _ => True)).
  - intros. apply supd_ok. assumption.
  - intros s0 a b H0 _ _. unfold blocked_step. destruct (Z.eq_dec a b) as [->|Hne]; [reflexivity|].
    apply supd_comm; [exact H0|congruence].
  - exact Hp.
  - apply Forall_forall. intros; exact I.
  - exact Hok.
Qed.

(* ================================================================== all loops, all sites *)
Definition loop_statement (id : loop_id) : Prop :=
  match id with
  | L_gauge_tally => forall l l' s, Permutation l l' -> Forall (tval_ok false) l -> tstate_ok s ->
      gauge_tally_loop l s = gauge_tally_loop l' s
  | L_gov_tally => forall l l' s, Permutation l l' -> Forall (tval_ok true) l -> tstate_ok s ->
      gov_tally_loop l s = gov_tally_loop l' s
  | L_gauge_results => forall l l', Permutation l l' -> NoDup (map fst l) -> tally_results l = tally_results l'
  | L_da_safe_shards => forall c l l' invs fault0, Permutation l l' -> sm_ok fault0 ->
      da_item c l invs fault0 = da_item c l' invs fault0
  | L_da_fault_counters => forall l l' store, Permutation l l' -> sm_ok store ->
      fault_count_loop l store = fault_count_loop l' store
  | L_blocked_addresses => forall l l' s, Permutation l l' -> sm_ok s -> blocked_loop l s = blocked_loop l' s
  end.

Theorem all_loops_order_independent : forall id, loop_statement id.
Proof.
  intros []; cbn.
  - apply tally_loop_order_independent.
  - apply tally_results_order_independent.
  - apply tally_loop_order_independent.
  - apply da_item_order_independent.
  - apply fault_count_loop_order_independent.
  - apply blocked_loop_order_independent.
Qed.

(* diagnostics, printed into the build log right before the obligations they explain: both lists
   are empty on a covered tree *)
Definition uncovered_sites := Eval vm_compute in
  map (fun s => (s_file s, s_func s, s_kind s, s_hash s)) (filter (fun s => negb (site_ok s)) Gen.Sites_gen.sites).
Print uncovered_sites.
Definition missing_anchors := Eval vm_compute in
  filter (fun a => negb (anchor_present Gen.Sites_gen.sites a)) required_anchors.
Print missing_anchors.

(* the generated list: every site is accepted by [site_ok] — recomputed against the current
   sources on every run *)
Theorem sites_covered_b : forallb site_ok Gen.Sites_gen.sites = true.
Proof. vm_compute. reflexivity. Qed.

Theorem sites_covered : forall s, In s Gen.Sites_gen.sites -> site_ok s = true.
Proof. apply forallb_forall. exact sites_covered_b. Qed.

Lemma in_proved_spec s : in_proved s = true ->
  exists id, In (s_file s, s_func s, s_hash s, id) proved_sites.
Proof.
  unfold in_proved. intros H. apply existsb_exists in H. destruct H as ([[[f fn] h] id] & Hin & Hc).
  apply andb_prop in Hc. destruct Hc as [Hc Hh]. apply andb_prop in Hc. destruct Hc as [Hf Hfn].
  apply String.eqb_eq in Hf, Hfn. apply Z.eqb_eq in Hh. subst. exists id. exact Hin.
Qed.

Lemma kind_eqb_eq a b : kind_eqb a b = true -> a = b.
Proof. destruct a, b; cbn; congruence. Qed.

Lemma in_reviewed_spec s : in_reviewed s = true ->
  exists why, In (s_file s, s_func s, s_kind s, s_hash s, why) reviewed_sites.
Proof.
  unfold in_reviewed. intros H. apply existsb_exists in H. destruct H as ([[[[f fn] k] h] why] & Hin & Hc).
  apply andb_prop in Hc. destruct Hc as [Hc Hh]. apply andb_prop in Hc. destruct Hc as [Hc Hk].
  apply andb_prop in Hc. destruct Hc as [Hf Hfn].
  apply String.eqb_eq in Hf, Hfn. apply Z.eqb_eq in Hh. apply kind_eqb_eq in Hk. subst. exists why. exact Hin.
Qed.

(* every range over a map in consensus code is one of the loops proved order-independent
   (same text, by hash), or was reviewed as outside block processing *)
Theorem map_ranges_covered : forall s, In s Gen.Sites_gen.sites ->
  s_zone s = ZConsensus -> s_kind s = KMapRange ->
  (exists id, In (s_file s, s_func s, s_hash s, id) proved_sites /\ loop_statement id) \/
  (exists why, In (s_file s, s_func s, KMapRange, s_hash s, why) reviewed_sites).
Proof.
  intros s Hin Hz Hk. pose proof (sites_covered s Hin) as H. unfold site_ok in H.
  rewrite Hz, Hk in H. cbn in H. apply orb_prop in H. destruct H as [H|H].
  - left. destruct (in_proved_spec s H) as [id Hid]. exists id. split; [exact Hid|apply all_loops_order_independent].
  - right. destruct (in_reviewed_spec s H) as [why Hw]. rewrite Hk in Hw. exists why. exact Hw.
Qed.

(* every other order-/time-/randomness-/scheduling-/pointer-/float-sensitive construct in
   consensus code is in the reviewed table; nothing was left unclassified anywhere *)
Theorem other_sites_reviewed : forall s, In s Gen.Sites_gen.sites ->
  s_kind s <> KUnknown /\
  (s_zone s = ZConsensus -> s_kind s <> KMapRange -> s_kind s <> KAnchor ->
   exists why, In (s_file s, s_func s, s_kind s, s_hash s, why) reviewed_sites).
Proof.
  intros s Hin. pose proof (sites_covered s Hin) as H. unfold site_ok in H.
  apply andb_prop in H. destruct H as [Hu H]. split.
  - intros E. rewrite E in Hu. discriminate.
  - intros Hz Hk Ha. rewrite Hz in H. apply in_reviewed_spec. destruct (s_kind s); try exact H; contradiction.
Qed.

(* the code the models include beyond the loop bodies is still the code they were written against *)
Theorem anchors_present : forallb (anchor_present Gen.Sites_gen.sites) required_anchors = true.
Proof. vm_compute. reflexivity. Qed.

Definition is_sched_ptr_float (k : kind) : bool :=
  match k with KGo | KSelect | KFloat | KPointer | KMapIter | KRangeFunc | KGlobal => true | _ => false end.
Definition consensus_zone (s : site) : bool := match s_zone s with ZConsensus => true | _ => false end.

(* currently: no goroutine, channel, float, pointer-value, map-iterator construct and no
   package-level variable that can change after init (process-local state) at all in
   consensus-zone files *)
Theorem no_sched_ptr_float_sites :
  forallb (fun s => negb (consensus_zone s && is_sched_ptr_float (s_kind s))) Gen.Sites_gen.sites = true.
Proof. vm_compute. reflexivity. Qed.
