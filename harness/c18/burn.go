package c18

import (
	"fmt"
	"math/big"

	sdkmath "cosmossdk.io/math"
	sdk "github.com/cosmos/cosmos-sdk/types"
	authtypes "github.com/cosmos/cosmos-sdk/x/auth/types"

	feetypes "github.com/sunriselayer/sunrise/x/fee/types"

	"verifharness/emit"
)

type burnCase struct {
	FeeDenom string
	Ratio    *big.Int // raw LegacyDec in [0, 10^18]
	Fees     []coin
	CollBal  map[string]*big.Int // collector balances to install
	ModBal   *big.Int            // fee module account's balance of the fee denom before the call
}

func decString(raw *big.Int) string {
	return sdkmath.LegacyNewDecFromBigIntWithPrec(raw, 18).String()
}

func (e *env) genBurn() burnCase {
	r := e.r
	var c burnCase
	c.FeeDenom = emit.Pick(r, "urise", "urise", "urise", "uusdc", "uvrise")
	switch r.Intn(8) {
	case 0:
		c.Ratio = big.NewInt(0)
	case 1:
		c.Ratio = new(big.Int).Set(one18)
	case 2:
		c.Ratio = new(big.Int).Div(one18, big.NewInt(2))
	case 3:
		c.Ratio = big.NewInt(1)
	case 4:
		c.Ratio = new(big.Int).Sub(one18, big.NewInt(1))
	default:
		c.Ratio = r.Big(new(big.Int).Add(one18, big.NewInt(1)))
	}
	amt := func() *big.Int {
		switch r.Intn(8) {
		case 0:
			return big.NewInt(0)
		case 1:
			return big.NewInt(1)
		case 2:
			return big.NewInt(int64(1 + r.Intn(20)))
		default:
			return r.LogUniform(14)
		}
	}
	switch k := r.Intn(12); {
	case k < 5: // just the fee denom
		c.Fees = []coin{{c.FeeDenom, amt()}}
	case k < 8: // a valid sorted set containing the fee denom
		for _, d := range validDenoms {
			if d == c.FeeDenom || r.Chance(1, 3) {
				a := amt()
				if a.Sign() == 0 {
					a = big.NewInt(3)
				}
				c.Fees = append(c.Fees, coin{d, a})
			}
		}
	case k == 8: // no fee-denom coin at all
		for _, d := range validDenoms {
			if d != c.FeeDenom && r.Chance(1, 2) {
				c.Fees = append(c.Fees, coin{d, amt()})
			}
		}
	case k == 9:
		c.Fees = nil
	case k == 10: // not a valid set: the fee denom twice
		c.Fees = []coin{{c.FeeDenom, amt()}, {"uatom", amt()}, {c.FeeDenom, amt()}}
	default: // negative amount
		c.Fees = []coin{{c.FeeDenom, big.NewInt(-1 - int64(r.Intn(1_000_000)))}}
	}
	// collector balances relative to what will be burned
	burn := big.NewInt(0)
	for _, f := range c.Fees {
		if f.Denom == c.FeeDenom && f.Amt.Sign() > 0 {
			b := new(big.Int).Mul(c.Ratio, f.Amt)
			b.Quo(b, one18)
			if burn.Sign() == 0 {
				burn = b
			}
		}
	}
	c.CollBal = map[string]*big.Int{}
	for _, d := range validDenoms {
		c.CollBal[d] = big.NewInt(int64(r.Intn(1000)))
	}
	switch r.Intn(6) {
	case 0:
		c.CollBal[c.FeeDenom] = new(big.Int).Set(burn)
	case 1:
		c.CollBal[c.FeeDenom] = new(big.Int).Sub(burn, big.NewInt(1))
		if c.CollBal[c.FeeDenom].Sign() < 0 {
			c.CollBal[c.FeeDenom] = big.NewInt(0)
		}
	case 2:
		c.CollBal[c.FeeDenom] = big.NewInt(0)
	case 3: // enough for the first of two entries only
		c.CollBal[c.FeeDenom] = new(big.Int).Add(burn, big.NewInt(int64(r.Intn(3))))
	default:
		c.CollBal[c.FeeDenom] = new(big.Int).Add(new(big.Int).Mul(burn, big.NewInt(3)), r.LogUniform(12))
	}
	c.ModBal = big.NewInt(0)
	if r.Chance(1, 4) {
		c.ModBal = r.LogUniform(8)
	}
	return c
}

func corpusBurn() []burnCase {
	bal := func(fee int64) map[string]*big.Int {
		m := map[string]*big.Int{}
		for _, d := range validDenoms {
			m[d] = big.NewInt(77)
		}
		m["urise"] = big.NewInt(fee)
		return m
	}
	half := new(big.Int).Div(one18, big.NewInt(2))
	return []burnCase{
		{"urise", half, []coin{{"urise", big.NewInt(101)}}, bal(1000), big.NewInt(0)},                                  // burns 50
		{"urise", half, []coin{{"urise", big.NewInt(101)}}, bal(49), big.NewInt(0)},                                    // collector short: error, no change
		{"urise", half, []coin{{"urise", big.NewInt(1)}}, bal(1000), big.NewInt(0)},                                    // floor = 0: nothing
		{"urise", new(big.Int).Set(one18), []coin{{"uatom", big.NewInt(9)}, {"urise", big.NewInt(1000)}}, bal(1000), big.NewInt(5)}, // everything
		{"urise", half, []coin{{"urise", big.NewInt(100)}, {"urise", big.NewInt(100)}}, bal(60), big.NewInt(0)},        // invalid set: first burn stays, second fails
	}
}

// burnCase calls the real Keeper.Burn once inside a discarded branch and records the state the
// keeper leaves behind (whatever the verdict: Burn is not transactional by itself).
func (e *env) burnCase(c burnCase, tag string) error {
	h := e.h
	ctx, _ := h.Ctx().CacheContext()
	byst := h.Accts[7].Addr
	accts := []sdk.AccAddress{collector, feeMod, byst}
	p, err := h.App.FeeKeeper.Params.Get(ctx)
	if err != nil {
		return err
	}
	p.FeeDenom, p.BurnRatio = c.FeeDenom, decString(c.Ratio)
	if err := p.Validate(); err != nil {
		return fmt.Errorf("generated params invalid: %w", err)
	}
	if err := h.App.FeeKeeper.Params.Set(ctx, p); err != nil {
		return err
	}
	// make sure both module accounts exist, then install the balances
	h.App.AuthKeeper.GetModuleAccount(ctx, authtypes.FeeCollectorName)
	h.App.AuthKeeper.GetModuleAccount(ctx, feetypes.ModuleName)
	for _, d := range validDenoms {
		if err := setBal(h, ctx, collector, d, c.CollBal[d]); err != nil {
			return fmt.Errorf("collector balance: %w", err)
		}
	}
	if err := setBal(h, ctx, feeMod, c.FeeDenom, c.ModBal); err != nil {
		return fmt.Errorf("fee module balance: %w", err)
	}
	pre := view(h, ctx, accts)
	var rerr error
	func() {
		defer func() {
			if r := recover(); r != nil {
				rerr = fmt.Errorf("panic: %v", r)
			}
		}()
		rerr = h.App.FeeKeeper.Burn(ctx, sdkCoins(c.Fees))
	}()
	post := view(h, ctx, accts)
	obs := "(Ok tt)"
	if rerr != nil {
		obs = errClass(rerr)
	}
	info := map[string]any{"kind": "burn", "tag": tag, "fee_denom": c.FeeDenom, "ratio": decString(c.Ratio), "fees": strCoins(c.Fees),
		"pre": pre, "post": post, "result": obs}
	if rerr != nil {
		info["err"] = rerr.Error()
	}
	e.cf.Add(fmt.Sprintf("CBurn %s %s %s %s %s %s", emit.ZI(did(c.FeeDenom)), emit.Z(c.Ratio), coqCoins(c.Fees), emit.List(pre), obs, diffView(pre, post)))
	e.st.Info(info)
	e.st.Evaluations++
	changed := !sameView(pre, post)
	switch {
	case rerr == nil && changed:
		e.st.Count("burn/ok/burned")
		e.st.Nontriv(fmt.Sprintf("burn/%s/%s/%s", c.FeeDenom, c.Ratio, strCoins(c.Fees)))
		e.st.Sample(info)
	case rerr == nil:
		e.st.Count("burn/ok/nothing")
	case obs == "Panic":
		e.st.Count("burn/panic")
	default:
		e.st.Count("burn/" + obs)
		e.st.Nontriv(fmt.Sprintf("burn-fail/%s/%s/%s", c.FeeDenom, c.Ratio, strCoins(c.Fees)))
	}
	return nil
}
