(* Correspondence + monitors for C20 (erasure coding, shard assignment, proof binding).
   Evaluated by the generated cases files (harness/c20).
   Code 0   : the implementation's observation differs from the model's prediction.
   Code 1-9 : a monitor (the property statement on the implementation's own values) is false.
   Code 101 : informational trigger: empty blob (ErasureCode reports ErrShardNoData).
   Code 102 : trigger: validator address longer than 32 bytes, not a multiple of 32.
   Code 103 : informational trigger: negative proof index reached the unguarded slice access. *)
From Coq Require Import ZArith List Bool.
From Coq Require Export Init.Byte.
From Sunrise Require Export Base.Outcome Base.Check Da.GF256 Da.RS Da.Shuffle Da.ProofBind.
Import ListNotations.
Local Open Scope Z_scope.

(* ---------- equality helpers ---------- *)

Fixpoint bytes_eqb (a b : list byte) : bool :=
  match a, b with
  | [], [] => true
  | x :: a', y :: b' => Byte.eqb x y && bytes_eqb a' b'
  | _, _ => false
  end.

Fixpoint rows_eqb (a b : list (list byte)) : bool :=
  match a, b with
  | [], [] => true
  | x :: a', y :: b' => bytes_eqb x y && rows_eqb a' b'
  | _, _ => false
  end.

Definition shard_eqb (a b : shard) : bool :=
  match a, b with
  | None, None => true
  | Some x, Some y => bytes_eqb x y
  | _, _ => false
  end.

Fixpoint shards_eqb (a b : list shard) : bool :=
  match a, b with
  | [], [] => true
  | x :: a', y :: b' => shard_eqb x y && shards_eqb a' b'
  | _, _ => false
  end.

Definition res_eqb {A} (eqb : A -> A -> bool) (a b : res A) : bool :=
  match a, b with
  | Ok x, Ok y => eqb x y
  | Err e, Err f => e =? f
  | Panic, Panic => true
  | _, _ => false
  end.

Fixpoint nodup_nat (l : list nat) : bool :=
  match l with
  | [] => true
  | a :: tl => negb (existsb (Nat.eqb a) tl) && nodup_nat tl
  end.

Fixpoint nodup_z (l : list Z) : bool :=
  match l with
  | [] => true
  | a :: tl => negb (existsb (Z.eqb a) tl) && nodup_z tl
  end.

(* ---------- erasure coding ---------- *)

Definition enc_obs := res (Z * Z * list (list byte)).

Definition enc_eqb (a b : Z * Z * list (list byte)) : bool :=
  let '(s1, c1, r1) := a in let '(s2, c2, r2) := b in
  (s1 =? s2) && (c1 =? c2) && rows_eqb r1 r2.

(* One round trip on the real code: ErasureCode(blob,k,m) -> shards; the shards with indices
   in E set to nil are given to ReconstructAndJoinShards(shards,k,len(blob)). *)
Record round_case := {
  rc_blob : list byte; rc_k : Z; rc_m : Z;
  rc_enc : enc_obs;                 (* observed result of ErasureCode *)
  rc_erased : list nat;             (* E: indices of the lost shards *)
  rc_empty : list nat;              (* those of E handed over as []byte{} instead of nil *)
  rc_rec : res (list byte);         (* observed result of ReconstructAndJoinShards *)
  rc_post : list shard              (* the caller's shard slice afterwards *)
}.

Definition valid_config (k m : Z) : bool := (1 <=? k) && (0 <=? m) && (k + m <=? 256).

Definition round_corr (c : round_case) : bool :=
  res_eqb enc_eqb (erasure_code (rc_blob c) (rc_k c) (rc_m c)) (rc_enc c) &&
  match rc_enc c with
  | Ok (_, _, shards) =>
      let '(r, post) := reconstruct_and_join (erase_as (rc_erased c) (rc_empty c) shards) (rc_k c)
                          (Z.of_nat (length (rc_blob c))) in
      res_eqb bytes_eqb r (rc_rec c) && shards_eqb post (rc_post c)
  | _ => true
  end.

Definition erasure_set_ok (c : round_case) : bool :=
  nodup_nat (rc_erased c) &&
  forallb (fun i => Z.of_nat i <? rc_k c + rc_m c) (rc_erased c).

(* monitor 1: at most m shards lost => the original bytes come back exactly *)
Definition mon_recovers (c : round_case) : bool :=
  match rc_enc c with
  | Ok _ =>
      if valid_config (rc_k c) (rc_m c) && erasure_set_ok c &&
         (Z.of_nat (length (rc_erased c)) <=? rc_m c)
      then res_eqb bytes_eqb (rc_rec c) (Ok (rc_blob c))
      else true
  | _ => true
  end.

(* monitor 2: more than m shards lost => an error, never data *)
Definition mon_too_few (c : round_case) : bool :=
  match rc_enc c with
  | Ok _ =>
      if valid_config (rc_k c) (rc_m c) && erasure_set_ok c &&
         (rc_m c <? Z.of_nat (length (rc_erased c)))
      then match rc_rec c with Err _ => true | _ => false end
      else true
  | _ => true
  end.

(* monitor 4: never (no error and bytes different from the original) *)
Definition mon_no_wrong_data (c : round_case) : bool :=
  match rc_enc c, rc_rec c with
  | Ok _, Ok b =>
      if valid_config (rc_k c) (rc_m c) && erasure_set_ok c then bytes_eqb b (rc_blob c) else true
  | _, _ => true
  end.

(* monitor 3: a valid configuration and a non-empty blob are encoded (no error) *)
Definition mon_encodes (c : round_case) : bool :=
  if valid_config (rc_k c) (rc_m c) && negb (Nat.eqb (length (rc_blob c)) 0)
  then is_ok (rc_enc c) else true.

(* trigger 1 (informational): the empty blob, which Encode rejects with ErrShardNoData *)
Definition trig_empty_blob (c : round_case) : bool :=
  valid_config (rc_k c) (rc_m c) && Nat.eqb (length (rc_blob c)) 0.

(* ReconstructAndJoinShards / JoinShards on an arbitrary (possibly malformed) shard slice *)
Record rec_case := {
  rj_in : list shard; rj_k : Z; rj_out : Z;
  rj_join_only : bool;              (* JoinShards instead of ReconstructAndJoinShards *)
  rj_res : res (list byte);
  rj_post : list shard;
  rj_ghost : option (list byte * Z)
     (* known to the harness when the input is "the shards of ErasureCode(blob, k, m) with some
        of them lost" (nil or empty) and k, blob size are the right ones: (blob, m) *)
}.

(* lost = nil or zero length *)
Definition lost_count (l : list shard) : Z :=
  Z.of_nat (length (filter (fun s => Nat.eqb (slen s) 0) l)).

Definition ghost_applies (c : rec_case) (m : Z) : bool :=
  negb (rj_join_only c) && valid_config (rj_k c) m &&
  (Z.of_nat (length (rj_in c)) =? rj_k c + m).

(* monitors 1, 2, 4 on a loss-only case: the property statement with the ghost values *)
Definition mon_rec_recovers (c : rec_case) : bool :=
  match rj_ghost c with
  | Some (blob, m) =>
      if ghost_applies c m && (lost_count (rj_in c) <=? m)
      then res_eqb bytes_eqb (rj_res c) (Ok blob) else true
  | None => true
  end.
Definition mon_rec_too_few (c : rec_case) : bool :=
  match rj_ghost c with
  | Some (blob, m) =>
      if ghost_applies c m && (m <? lost_count (rj_in c))
      then match rj_res c with Err _ => true | _ => false end else true
  | None => true
  end.
Definition mon_rec_no_wrong_data (c : rec_case) : bool :=
  match rj_ghost c, rj_res c with
  | Some (blob, m), Ok b => if ghost_applies c m then bytes_eqb b blob else true
  | _, _ => true
  end.

Definition rec_corr (c : rec_case) : bool :=
  if rj_join_only c then
    res_eqb bytes_eqb (join_shards (rj_in c) (rj_k c) (rj_out c)) (rj_res c) &&
    shards_eqb (rj_in c) (rj_post c)
  else
    let '(r, post) := reconstruct_and_join (rj_in c) (rj_k c) (rj_out c) in
    res_eqb bytes_eqb r (rj_res c) && shards_eqb post (rj_post c).

(* ---------- shard assignment ---------- *)

Record shuf_case := {
  sh_addr_len : Z;                  (* length of the validator address in bytes *)
  sh_n : Z; sh_threshold : Z;
  sh_seed_panicked : bool;          (* ValidatorSeed(address) itself panicked (oracle undefined) *)
  sh_swaps : list (Z * Z);          (* (i, j) pairs recorded from rand.Shuffle with the same seed *)
  sh_obs : option (list Z);         (* ShardIndicesForValidator; None = panic *)
  sh_repeat_equal : bool;           (* a second call (other backing array) and a second process returned the same *)
  sh_replay_panicked : bool         (* the recording Shuffle itself panicked (n < 0) *)
}.

Definition zlist_opt_eqb (a b : option (list Z)) : bool :=
  match a, b with
  | None, None => true
  | Some x, Some y => zlist_eqb x y
  | _, _ => false
  end.

Definition shuf_corr (c : shuf_case) : bool :=
  if sh_seed_panicked c then match sh_obs c with None => true | Some _ => false end
  else
    (if sh_replay_panicked c then (sh_n c <? 0)
     else zlist_eqb (map fst (sh_swaps c)) (swap_is (sh_n c))) &&
    zlist_opt_eqb (random_indices (sh_n c) (sh_threshold c) (map snd (sh_swaps c))) (sh_obs c).

(* trigger 2: address longer than one MiMC block and not a whole number of blocks: the seed
   derivation reads past the address (panic, or dependence on adjacent memory) unless
   notes/patches/C20-validator-seed-padding.patch is applied *)
Definition trig_long_address (c : shuf_case) : bool :=
  (32 <? sh_addr_len c) && negb (sh_addr_len c mod 32 =? 0).

(* monitor 5: requested count, distinct, in range *)
Definition mon_indices (c : shuf_case) : bool :=
  if (0 <=? sh_n c) && (0 <=? sh_threshold c) then
    match sh_obs c with
    | Some l =>
        (Z.of_nat (length l) =? Z.min (sh_threshold c) (sh_n c)) && nodup_z l &&
        forallb (fun x => (0 <=? x) && (x <? sh_n c)) l
    | None => false
    end
  else true.

(* monitor 6: a function of the address (same output on a repeated call and in another process) *)
Definition mon_deterministic (c : shuf_case) : bool := sh_repeat_equal c.

(* ---------- proof binding ---------- *)

Record submit_case := {
  su_indices : list Z;
  su_proofs : list Z;                       (* proof ids *)
  su_hashes : list Z;                       (* double-hash ids, in ShardDoubleHashes order *)
  su_parse : list (Z * bool);               (* proof id -> ReadFrom succeeded (harness's own call) *)
  su_verify : list (Z * Z * bool * option bool);
     (* (proof id, hash id, groth16.Verify observed by the harness's own call,
         expected by the oracle contract: Some (MiMC(shard hash) == double hash mod q) for a
         proof made by the honest prover for that shard hash, Some false for a forged proof,
         None when no expectation applies) *)
  su_obs : res unit;                        (* Msg/SubmitValidityProof result *)
  su_stored : option (list Z * list Z)
     (* the Proof record found in the store for (this data, this validator) after the call:
        its indices and its proofs (as pool ids; -1 = bytes that are no pool proof); None = no
        record.  The data item is fresh for every case, so there is none before the call. *)
}.

Fixpoint lookup_parse (t : list (Z * bool)) (p : Z) : option bool :=
  match t with
  | [] => None
  | (q, b) :: tl => if p =? q then Some b else lookup_parse tl p
  end.

Fixpoint lookup_verify (t : list (Z * Z * bool * option bool)) (p h : Z) : option bool :=
  match t with
  | [] => None
  | (q, g, b, _) :: tl => if (p =? q) && (h =? g) then Some b else lookup_verify tl p h
  end.

(* a missing table entry makes the prediction differ from every observation (code 0) *)
Definition MISSING : Z := 99.

Fixpoint tables_cover (c : submit_case) (indices proofs : list Z) : bool :=
  match indices, proofs with
  | j :: is', p :: ps' =>
      match lookup_parse (su_parse c) p with
      | None => false
      | Some false => true
      | Some true =>
          if (0 <=? j) && (j <? Z.of_nat (length (su_hashes c))) then
            match nth_error (su_hashes c) (Z.to_nat j) with
            | Some h => match lookup_verify (su_verify c) p h with
                        | Some true => tables_cover c is' ps'
                        | Some false => true
                        | None => false
                        end
            | None => false
            end
          else true
      end
  | _, _ => true
  end.

Definition su_parse_f (c : submit_case) (p : Z) : bool :=
  match lookup_parse (su_parse c) p with Some b => b | None => false end.
Definition su_verify_f (c : submit_case) (p h : Z) : bool :=
  match lookup_verify (su_verify c) p h with Some b => b | None => false end.

(* error classes: the harness reports every non-sentinel error as E_PARSE *)
Definition norm_err (r : res unit) : res unit :=
  match r with Err e => if e =? E_VERIFY then Err E_PARSE else Err e | x => x end.

Definition unit_eqb (a b : unit) : bool := true.

Definition submit_pred (c : submit_case) (guard : bool) : res unit :=
  norm_err (submit_checks Z Z (su_parse_f c) (su_verify_f c) guard
              (su_indices c) (su_proofs c) (su_hashes c)).

(* The repository is in transit between the two variants of the index check (the repair is
   proposed by this property and by C15): the observation must equal the prediction of one of
   them.  Every theorem of Props/C20.v about the handler holds for both. *)
Definition stored_eqb (a b : option (list Z * list Z)) : bool :=
  match a, b with
  | None, None => true
  | Some (i1, p1), Some (i2, p2) => zlist_eqb i1 i2 && zlist_eqb p1 p2
  | _, _ => false
  end.

(* the record the handler writes: the message's indices and proofs on success, nothing otherwise *)
Definition stored_pred (c : submit_case) (guard : bool) : option (list Z * list Z) :=
  if is_ok (submit_pred c guard) then Some (su_indices c, su_proofs c) else None.

Definition submit_corr (c : submit_case) : bool :=
  tables_cover c (su_indices c) (su_proofs c) &&
  ((res_eqb unit_eqb (submit_pred c false) (norm_err (su_obs c)) &&
    stored_eqb (stored_pred c false) (su_stored c)) ||
   (res_eqb unit_eqb (submit_pred c true) (norm_err (su_obs c)) &&
    stored_eqb (stored_pred c true) (su_stored c))).

(* trigger 3 (informational): the unguarded variant was observed (negative index -> panic) *)
Definition trig_neg_index_panic (c : submit_case) : bool :=
  is_panic (su_obs c) && is_panic (submit_pred c false).

(* boolean form of ProofBind.all_pairs_verify on the observed oracle values *)
Fixpoint accept_b (c : submit_case) (indices proofs : list Z) : bool :=
  match indices, proofs with
  | [], [] => true
  | j :: is', p :: ps' =>
      (* explicit ifs: vm_compute is strict, Z.to_nat of an out-of-range index must not run *)
      if su_parse_f c p && (0 <=? j) && (j <? Z.of_nat (length (su_hashes c))) then
        match nth_error (su_hashes c) (Z.to_nat j) with
        | Some h => if su_verify_f c p h then accept_b c is' ps' else false
        | None => false
        end
      else false
  | _, _ => false
  end.

(* monitor 7: the message is accepted iff every (proof_i, hash[index_i]) pair verifies *)
Definition mon_accept_iff (c : submit_case) : bool :=
  Bool.eqb (is_ok (su_obs c)) (accept_b c (su_indices c) (su_proofs c)).

(* monitor 9, on the stored result: every (index, proof) of a stored record verifies against
   THAT shard's double hash; a message containing any pair that does not leaves no record *)
Definition mon_stored (c : submit_case) : bool :=
  match su_stored c with
  | Some (is', ps') => accept_b c is' ps'
  | None => true
  end &&
  (if accept_b c (su_indices c) (su_proofs c) then true
   else match su_stored c with None => true | Some _ => false end).

(* monitor 8: groth16 verification agrees with the oracle contract
   (verifies iff double hash == MiMC(shard hash); forged proofs never verify) *)
Definition mon_oracle (c : submit_case) : bool :=
  forallb (fun e => match e with
                    | (_, _, b, Some x) => Bool.eqb b x
                    | (_, _, _, None) => true
                    end) (su_verify c).

(* ---------- cases ---------- *)

Inductive c20_case :=
| CRound (c : round_case)
| CRec (c : rec_case)
| CShuf (c : shuf_case)
| CSubmit (c : submit_case).

Definition c20_check (c : c20_case) : list Z :=
  match c with
  | CRound c =>
      flag 0 (round_corr c) ++ flag 1 (mon_recovers c) ++ flag 2 (mon_too_few c) ++
      flag 3 (mon_encodes c) ++ flag 4 (mon_no_wrong_data c) ++ flag 101 (negb (trig_empty_blob c))
  | CRec c => flag 0 (rec_corr c) ++ flag 1 (mon_rec_recovers c) ++ flag 2 (mon_rec_too_few c) ++
              flag 4 (mon_rec_no_wrong_data c)
  | CShuf c => flag 0 (shuf_corr c) ++ flag 5 (mon_indices c) ++ flag 6 (mon_deterministic c) ++
               flag 102 (negb (trig_long_address c))
  | CSubmit c => flag 0 (submit_corr c) ++ flag 7 (mon_accept_iff c) ++ flag 8 (mon_oracle c) ++
                 flag 9 (mon_stored c) ++
                 flag 103 (negb (trig_neg_index_panic c))
  end.

Definition run := run_cases c20_check.
