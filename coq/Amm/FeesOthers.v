(* C06 proofs, part 7: operations on one position do not change what another, out-of-range position
   is entitled to: a claim (and the dust it re-injects into the accumulator) leaves the entitlement
   of every other position whose range does not contain the current tick exactly as it was. *)
From Coq Require Import ZArith Bool List Lia ZifyBool Sorted.
Import ListNotations.
From Sunrise Require Import Base.Outcome Base.Dec Base.DecLemmas Amm.Math Amm.Pool Amm.LiqDefs Amm.LiqLists Amm.LiqInv
  Amm.Fees Amm.FeesVec Amm.FeesProofs Amm.FeesLoop Amm.FeesFlow Amm.FeesSwap Amm.FeesAccrual.
Local Open Scope Z_scope.
Ltac Zify.zify_post_hook ::= Z.div_mod_to_equations.

(* entitlement_inside_only with the weakest hypotheses on the two states: the same position record
   and the same accumulator position under [pid] *)
Theorem entitlement_inside_only' s s' pid t t' :
  FeeWF s -> FeeWF s' -> vnonneg (a_acc_value s) -> vnonneg (a_acc_value s') ->
  find_pos (a_positions s') pid = find_pos (a_positions s) pid ->
  find_ap (a_acc_pos s') pid = find_ap (a_acc_pos s) pid ->
  (forall pos o o', find_pos (a_positions s) pid = Some pos ->
     fee_growth_outside s (pos_lower pos) (pos_upper pos) = Some o ->
     fee_growth_outside s' (pos_lower pos) (pos_upper pos) = Some o' ->
     forall j, (j < 4)%nat -> vn (a_acc_value s') j - vn o' j = vn (a_acc_value s) j - vn o j) ->
  entitlement s pid = Ok t -> entitlement s' pid = Ok t' -> t' = t.
Proof.
  intros W W' Na Na' Ps Ap Hin H H'.
  destruct (entitlement_inv _ _ _ H) as (pos & ap0 & o & v1 & Ep & Ea & Eo & Ev & Et).
  destruct (entitlement_inv _ _ _ H') as (pos' & ap0' & o' & v1' & Ep' & Ea' & Eo' & Ev' & Et').
  rewrite Ps, Ep in Ep'. injection Ep' as <-. rewrite Ap, Ea in Ea'. injection Ea' as <-.
  assert (Hwf : ap_wf ap0) by (pose proof (fw_aps _ W) as X; rewrite Forall_forall in X; apply X; apply (find_ap_in _ _ _ Ea)).
  destruct Hwf as (Lval & Lun & Nun & Hsh).
  pose proof (fgo_len4 _ _ _ _ W Eo) as Lo. pose proof (fgo_len4 _ _ _ _ W' Eo') as Lo'.
  destruct (vadd_nth _ _ _ Ev ltac:(unfold len4 in *; congruence)) as [Lv Nv].
  destruct (vadd_nth _ _ _ Ev' ltac:(unfold len4 in *; congruence)) as [Lv' Nv'].
  unfold claim_ap in Et, Et'.
  refine (total_rewards_same_diff _ _ pid (ap_shares ap0) v1 v1' (ap_unclaimed ap0) t t' (fw_acc _ W) (fw_acc _ W') _ _ Lun Na Na' _ Et Et').
  - unfold len4 in *. congruence.
  - unfold len4 in *. congruence.
  - intros j Hj. rewrite Nv, Nv' by (unfold len4 in *; lia). specialize (Hin pos o o' Ep Eo Eo' j Hj). lia.
Qed.

Lemma find_del_ap l i j : i <> j -> find_ap (del_ap l i) j = find_ap l j.
Proof.
  intros Hne. induction l as [|x l IH]; cbn [del_ap find_ap]; [reflexivity|].
  destruct (Z.eqb_spec (ap_id x) i) as [E|E].
  - destruct (Z.eqb_spec (ap_id x) j); [lia|reflexivity].
  - cbn [find_ap]. destruct (Z.eqb_spec (ap_id x) j); [reflexivity|exact IH].
Qed.

(* a claim of [pid] and another position [q] whose range does not contain the current tick *)
Theorem claim_other_out_of_range s pid s1 c q pos t t' :
  FeeWF s -> vnonneg (a_acc_value s) -> 0 <= a_acc_shares s ->
  prepare_claim s pid = Ok (s1, c) -> q <> pid ->
  find_pos (a_positions s) q = Some pos ->
  stored (a_ticks s) (pos_lower pos) -> stored (a_ticks s) (pos_upper pos) -> pos_lower pos < pos_upper pos ->
  in_range (a_pool s) (pos_lower pos) (pos_upper pos) = false ->
  entitlement s q = Ok t -> entitlement s1 q = Ok t' -> t' = t.
Proof.
  intros W Na HT H Hne Ep Hlo Hup Hlt Hout Ht Ht'.
  destruct (prepare_claim_wf _ _ _ _ W H) as (W1 & _).
  destruct (prepare_claim_inv _ _ _ _ H) as (pos0 & ap0 & outside & v1 & tot & inside & Ep0 & Ea0 & Eo0 & Ev0 & Et0 & Ec & Ei & Hs1).
  destruct (after_claim_pos_fields s pid ap0 inside) as (F1 & F2 & F3 & F4 & F5 & _).
  assert (Fap : find_ap (a_acc_pos (after_claim_pos s pid ap0 inside)) q = find_ap (a_acc_pos s) q).
  { unfold after_claim_pos. destruct (ap_shares ap0 =? 0); cbn [a_acc_pos set_acc_pos].
    - apply find_del_ap. lia.
    - rewrite find_put_ap. cbn [ap_id]. destruct (Z.eqb_spec q pid); [contradiction|reflexivity]. }
  (* the state after the claim: same ticks / pool / positions, global growth raised by dl >= 0 *)
  assert (Hshape : a_ticks s1 = a_ticks s /\ a_pool s1 = a_pool s /\ a_positions s1 = a_positions s /\
                   find_ap (a_acc_pos s1) q = find_ap (a_acc_pos s) q /\
                   exists dl, (forall i, (i < 4)%nat -> vn (a_acc_value s1) i = vn (a_acc_value s) i + vn dl i /\ 0 <= vn dl i)).
  { destruct Hs1 as [->|(per & v & _ & Hnz & Hper & Hv & ->)].
    - repeat (split; [assumption|]). exists vzero. intros i Hi. rewrite F4, vzero_nth. lia.
    - cbn [a_ticks a_pool a_positions a_acc_pos a_acc_value set_acc]. repeat (split; [assumption|]).
      exists per.
      assert (Hwf : ap_wf ap0) by (pose proof (fw_aps _ W) as X; rewrite Forall_forall in X; apply X; apply (find_ap_in _ _ _ Ea0)).
      destruct Hwf as (Lval & Lun & Nun & Hsh).
      pose proof (fgo_len4 _ _ _ _ W Eo0) as Lo.
      destruct (vadd_nth _ _ _ Ev0 ltac:(unfold len4 in *; congruence)) as [Lv1 _].
      assert (Lv14 : len4 v1) by (unfold len4 in *; congruence).
      destruct (total_rewards_wf (a_acc_value s) (claim_ap pid ap0 v1) tot (fw_acc _ W) Lv14 Lun Nun Et0) as [Lt Nt].
      destruct (vtrunc_wf _ Lt Nt) as (_ & _ & Ld & Nd).
      destruct (vquo_dec_trunc_nth _ _ _ Hper) as (_ & Lper & Nper).
      assert (Lper4 : len4 per) by (unfold len4 in *; congruence).
      destruct (vadd_nth _ _ _ Hv ltac:(pose proof (fw_acc _ W); unfold len4 in *; congruence)) as [_ Nv].
      intros i Hi.
      split; [apply Nv; pose proof (fw_acc _ W); unfold len4 in *; lia|].
      rewrite vnonneg_nth in Nd. specialize (Nd i ltac:(unfold len4 in *; lia)).
      specialize (Nper i ltac:(unfold len4 in *; lia)).
      eapply dquoT_nonneg; [exact Nd| |exact Nper]. lia. }
  destruct Hshape as (T & Q & Ps & Ap & dl & Hdl).
  assert (Na1 : vnonneg (a_acc_value s1)).
  { apply vnonneg_nth. intros i Hi. pose proof (fw_acc _ W1) as L1. destruct (Hdl i ltac:(unfold len4 in *; lia)) as [-> Hd0].
    rewrite vnonneg_nth in Na. specialize (Na i ltac:(pose proof (fw_acc _ W); unfold len4 in *; lia)). lia. }
  refine (entitlement_inside_only' s s1 q t t' W W1 Na Na1 _ Ap _ Ht Ht'); [rewrite Ps; reflexivity|].
  intros pos' o o' Ep' Eo Eo' j Hj. rewrite Ep in Ep'. injection Ep' as <-.
  destruct (outside_shift s s1 _ _ o o' dl T Q (fw_acc _ W) (fw_acc _ W1) (fw_ticks _ W) (fun i Hi => proj1 (Hdl i Hi)) Eo Eo') as (_ & _ & No).
  rewrite No by exact Hj. rewrite (k_out_of_range s _ _ Hlo Hup Hlt), Hout. destruct (Hdl j Hj) as [-> _]. lia.
Qed.
