(* C06 proofs, part 4: what a position is entitled to depends only on the growth inside its range
   since its checkpoint; incentive allocations raise the global growth like a fee charged at the
   current tick; nothing accrues to a position whose range the price does not visit; allocations
   accrue pro rata to in-range liquidity. *)
From Coq Require Import ZArith Bool List Lia ZifyBool Sorted.
Import ListNotations.
From Sunrise Require Import Base.Outcome Base.Dec Base.DecLemmas Amm.Math Amm.Pool Amm.LiqDefs Amm.LiqLists Amm.LiqInv
  Amm.Fees Amm.FeesVec Amm.FeesProofs Amm.FeesLoop Amm.FeesFlow Amm.FeesSwap.
Local Open Scope Z_scope.
Ltac Zify.zify_post_hook ::= Z.div_mod_to_equations.

(* ---------- total_rewards, by cases ---------- *)
Lemma existsb_combine_false (a v : vec) :
  existsb (fun '(x, y) => negb (y =? 0) && (x <? y)) (combine a v) = false -> length a = length v ->
  forall i, (i < length a)%nat -> vn v i = 0 \/ vn v i <= vn a i.
Proof.
  revert v. induction a as [|x a IH]; intros [|y v] H Hl i Hi; cbn in Hl, Hi; try lia.
  cbn [combine existsb] in H. apply orb_false_elim in H. destruct H as [H1 H2].
  destruct i as [|i]; cbn [nth]; [lia|]. apply IH; [exact H2|lia|lia].
Qed.
Lemma existsb_combine_true (a v : vec) :
  existsb (fun '(x, y) => negb (y =? 0) && (x <? y)) (combine a v) = true -> length a = length v ->
  exists i, (i < length a)%nat /\ vn v i <> 0 /\ vn a i < vn v i.
Proof.
  revert v. induction a as [|x a IH]; intros [|y v] H Hl; cbn in Hl; try discriminate.
  cbn [combine existsb] in H. apply orb_true_elim in H. destruct H as [H|H].
  - exists 0%nat. cbn. split; [lia|]. lia.
  - destruct (IH v H ltac:(lia)) as (i & Hi & A & B). exists (S i). cbn. split; [lia|]. split; assumption.
Qed.

Lemma total_rewards_cases acc ap tot :
  total_rewards acc ap = Some tot -> len4 acc -> len4 (ap_value ap) -> len4 (ap_unclaimed ap) ->
  (ap_shares ap <= 0 /\ tot = vzero) \/
  (0 < ap_shares ap /\ (exists i, (i < 4)%nat /\ vn (ap_value ap) i <> 0 /\ vn acc i < vn (ap_value ap) i) /\ tot = vzero) \/
  (0 < ap_shares ap /\ (forall i, (i < 4)%nat -> vn (ap_value ap) i <= vn acc i) /\ len4 tot /\
   forall i, (i < 4)%nat -> exists r,
      dmul (vn acc i - vn (ap_value ap) i) (ap_shares ap) = Some r /\ vn tot i = vn (ap_unclaimed ap) i + r).
Proof.
  unfold total_rewards, len4. intros H La Lv Lu.
  destruct (Z.leb_spec (ap_shares ap) 0) as [Hs|Hs]; [injection H as <-; left; split; [assumption|reflexivity]|].
  right. destruct (existsb _ _) eqn:Ee.
  - injection H as <-. left. split; [assumption|]. split; [|reflexivity].
    destruct (existsb_combine_true _ _ Ee ltac:(congruence)) as (i & Hi & A & B). exists i. split; [lia|]. split; assumption.
  - right. destruct (vsub acc (ap_value ap)) as [d|] eqn:Ed; cbn [obind] in H; [|discriminate].
    destruct (vmul_dec d (ap_shares ap)) as [r|] eqn:Er; cbn [obind] in H; [|discriminate].
    destruct (vsub_nth _ _ _ Ed ltac:(congruence)) as [Ld Nd].
    destruct (vmul_dec_nth _ _ _ Er) as [Lr Nr].
    destruct (vadd_nth _ _ _ H ltac:(congruence)) as [Lt Nt].
    split; [assumption|]. split; [|split; [congruence|]].
    + intros i Hi. destruct (Nd i ltac:(lia)) as [A B]. lia.
    + intros i Hi. destruct (Nd i ltac:(lia)) as [Nd1 Nd2]. specialize (Nr i ltac:(lia)). specialize (Nt i ltac:(lia)).
      exists (vn r i). rewrite <- Nd1. split; assumption.
Qed.

(* two accumulator readings with the same pointwise difference acc - checkpoint (and non-negative
   global growth) give the same rewards *)
Lemma total_rewards_same_diff acc acc' (pid sh : Z) (v v' un tot tot' : vec) :
  len4 acc -> len4 acc' -> len4 v -> len4 v' -> len4 un -> vnonneg acc -> vnonneg acc' ->
  (forall i, (i < 4)%nat -> vn acc' i - vn v' i = vn acc i - vn v i) ->
  total_rewards acc {| ap_id := pid; ap_shares := sh; ap_value := v; ap_unclaimed := un |} = Some tot ->
  total_rewards acc' {| ap_id := pid; ap_shares := sh; ap_value := v'; ap_unclaimed := un |} = Some tot' ->
  tot' = tot.
Proof.
  intros La La' Lv Lv' Lu Na Na' Hd H H'. rewrite vnonneg_nth in Na, Na'.
  destruct (total_rewards_cases _ _ _ H La Lv Lu) as [(A & ->)|[(A & (i & Hi & B1 & B2) & ->)|(A & B & Lt & N)]];
  destruct (total_rewards_cases _ _ _ H' La' Lv' Lu) as [(A' & ->)|[(A' & (i' & Hi' & B1' & B2') & ->)|(A' & B' & Lt' & N')]];
  cbn [ap_shares ap_value ap_unclaimed] in *; try reflexivity; try lia.
  - (* triggered in s, formula in s' *)
    exfalso. specialize (B' i Hi). specialize (Hd i Hi). specialize (Na i ltac:(unfold len4 in *; lia)). lia.
  - exfalso. specialize (B i' Hi'). specialize (Hd i' Hi'). specialize (Na' i' ltac:(unfold len4 in *; lia)). lia.
  - apply vec_ext4; [exact Lt'|exact Lt|]. intros i Hi. destruct (N i Hi) as (r & Hr & ->). destruct (N' i Hi) as (r' & Hr' & ->).
    rewrite (Hd i Hi) in Hr'. congruence.
Qed.

(* ---------- the entitlement only sees the growth inside ---------- *)
Lemma entitlement_inv s pid tot : entitlement s pid = Ok tot ->
  exists pos ap0 outside v1,
    find_pos (a_positions s) pid = Some pos /\ find_ap (a_acc_pos s) pid = Some ap0 /\
    fee_growth_outside s (pos_lower pos) (pos_upper pos) = Some outside /\
    vadd (ap_value ap0) outside = Some v1 /\
    total_rewards (a_acc_value s) (claim_ap pid ap0 v1) = Some tot.
Proof.
  unfold entitlement. intros H.
  destruct (find_pos (a_positions s) pid) as [pos|]; [|discriminate].
  destruct (find_ap (a_acc_pos s) pid) as [ap0|]; [|discriminate].
  destruct (fee_growth_outside s (pos_lower pos) (pos_upper pos)) as [o|] eqn:Eo; cbn [of_opt rbind] in H; [|discriminate].
  destruct (vadd (ap_value ap0) o) as [v1|] eqn:Ev; cbn [of_opt rbind] in H; [|discriminate].
  apply of_opt_ok in H. exists pos, ap0, o, v1.
  split; [reflexivity|]. split; [reflexivity|]. split; [exact Eo|]. split; [exact Ev|exact H].
Qed.

Theorem entitlement_inside_only s s' pid t t' :
  FeeWF s -> FeeWF s' -> vnonneg (a_acc_value s) -> vnonneg (a_acc_value s') ->
  a_positions s' = a_positions s -> a_acc_pos s' = a_acc_pos s ->
  (forall pos o o', find_pos (a_positions s) pid = Some pos ->
     fee_growth_outside s (pos_lower pos) (pos_upper pos) = Some o ->
     fee_growth_outside s' (pos_lower pos) (pos_upper pos) = Some o' ->
     forall j, (j < 4)%nat -> vn (a_acc_value s') j - vn o' j = vn (a_acc_value s) j - vn o j) ->
  entitlement s pid = Ok t -> entitlement s' pid = Ok t' -> t' = t.
Proof.
  intros W W' Na Na' Ps Ap Hin H H'.
  destruct (entitlement_inv _ _ _ H) as (pos & ap0 & o & v1 & Ep & Ea & Eo & Ev & Et).
  destruct (entitlement_inv _ _ _ H') as (pos' & ap0' & o' & v1' & Ep' & Ea' & Eo' & Ev' & Et').
  rewrite Ps, Ep in Ep'. injection Ep' as <-. rewrite Ap, Ea in Ea'. injection Ea' as <-.
  assert (Hwf : ap_wf ap0) by (pose proof (fw_aps _ W) as X; rewrite Forall_forall in X; apply X; apply (find_ap_in _ _ _ Ea)).
  destruct Hwf as (Lval & Lun & Nun & Hsh).
  pose proof (fgo_len4 _ _ _ _ W Eo) as Lo. pose proof (fgo_len4 _ _ _ _ W' Eo') as Lo'.
  destruct (vadd_nth _ _ _ Ev ltac:(unfold len4 in *; congruence)) as [Lv Nv].
  destruct (vadd_nth _ _ _ Ev' ltac:(unfold len4 in *; congruence)) as [Lv' Nv'].
  unfold claim_ap in Et, Et'.
  refine (total_rewards_same_diff _ _ pid (ap_shares ap0) v1 v1' (ap_unclaimed ap0) t t' (fw_acc _ W) (fw_acc _ W') _ _ Lun Na Na' _ Et Et').
  - unfold len4 in *. congruence.
  - unfold len4 in *. congruence.
  - intros j Hj. rewrite Nv, Nv' by (unfold len4 in *; lia). specialize (Hin pos o o' Ep Eo Eo' j Hj). lia.
Qed.

(* ---------- a rise of the global growth at the current tick (incentive allocation, dust) ---------- *)
Lemma k_out_of_range s lo up : stored (a_ticks s) lo -> stored (a_ticks s) up -> lo < up ->
  k_upper s up + k_lower s lo = if in_range (a_pool s) lo up then 0 else 1.
Proof.
  unfold stored, k_upper, k_lower, in_range. intros Hlo Hup Hlt.
  destruct (find_tick (a_ticks s) lo); [|contradiction]. destruct (find_tick (a_ticks s) up); [|contradiction].
  destruct (Z.leb_spec up (p_tick (a_pool s))); destruct (Z.ltb_spec (p_tick (a_pool s)) lo);
  destruct (Z.leb_spec lo (p_tick (a_pool s))); destruct (Z.ltb_spec (p_tick (a_pool s)) up); cbn [andb]; lia.
Qed.

(* incentive_accrues_like_fees: an allocation of c raises the global growth by
   QuoTruncate(c, active liquidity) per denom - the very expression a swap step applies to its fee -
   and touches nothing else of the fee state *)
Theorem allocate_growth s coins s' : FeeWF s -> len4 coins -> allocate_incentive s coins = Ok s' ->
  0 < p_liq (a_pool s) /\
  a_ticks s' = a_ticks s /\ a_pool s' = a_pool s /\ a_positions s' = a_positions s /\ a_acc_pos s' = a_acc_pos s /\
  a_acc_shares s' = a_acc_shares s /\ len4 (a_acc_value s') /\
  forall j, (j < 4)%nat ->
    dquoT (dec_of_int (vn coins j)) (p_liq (a_pool s)) = Some (vn (a_acc_value s') j - vn (a_acc_value s) j).
Proof.
  intros W Lc H. unfold allocate_incentive in H.
  destruct (has_position (a_pool s)); cbn [negb] in H; [|discriminate].
  destruct (Z.leb_spec (p_liq (a_pool s)) 0) as [|Hne]; [discriminate|].
  destruct (vquo_dec_trunc (map dec_of_int coins) (p_liq (a_pool s))) as [g|] eqn:Eg; cbn [of_opt rbind] in H; [|discriminate].
  destruct (vadd (a_acc_value s) g) as [v|] eqn:Ev; cbn [of_opt rbind] in H; [|discriminate].
  destruct (vquo_dec_trunc_nth _ _ _ Eg) as (_ & Lg & Ng). rewrite map_length in Lg, Ng.
  destruct (vadd_nth _ _ _ Ev ltac:(pose proof (fw_acc _ W); unfold len4 in *; congruence)) as [Lv Nv].
  destruct (send_spec _ _ _ _ _ H) as ((Q&Ps&T&V&Sh&Ap&N) & _ & _). cbn in Q, Ps, T, V, Sh, Ap, N.
  split; [exact Hne|]. repeat (split; [assumption|]). split; [rewrite V; pose proof (fw_acc _ W); unfold len4 in *; congruence|].
  intros j Hj. rewrite V, Nv by (pose proof (fw_acc _ W); unfold len4 in *; lia).
  specialize (Ng j ltac:(unfold len4 in *; lia)). rewrite map_nth0 in Ng by (unfold len4 in *; lia).
  rewrite Ng. f_equal. lia.
Qed.

(* the growth inside a range rises by the allocation's growth iff the current tick is in the range *)
Theorem allocate_inside s coins s' lo up a b : FeeWF s -> len4 coins -> allocate_incentive s coins = Ok s' ->
  stored (a_ticks s) lo -> stored (a_ticks s) up -> lo < up ->
  growth_inside s lo up = Some a -> growth_inside s' lo up = Some b ->
  forall j, (j < 4)%nat ->
    vn b j = vn a j + (if in_range (a_pool s) lo up then vn (a_acc_value s') j - vn (a_acc_value s) j else 0).
Proof.
  intros W Lc H Hlo Hup Hlt Ha Hb j Hj.
  destruct (allocate_growth _ _ _ W Lc H) as (_ & T & Q & _ & _ & _ & La' & _).
  unfold growth_inside in Ha, Hb.
  destruct (fee_growth_outside s lo up) as [o|] eqn:Eo; cbn [obind] in Ha; [|discriminate].
  destruct (fee_growth_outside s' lo up) as [o'|] eqn:Eo'; cbn [obind] in Hb; [|discriminate].
  set (dl := vminus (a_acc_value s') (a_acc_value s)).
  assert (Hdl : forall i, (i < 4)%nat -> vn (a_acc_value s') i = vn (a_acc_value s) i + vn dl i).
  { intros i Hi. unfold dl. rewrite vminus_nth4; [lia|exact La'|apply (fw_acc _ W)|exact Hi]. }
  destruct (outside_shift s s' lo up o o' dl T Q (fw_acc _ W) La' (fw_ticks _ W) Hdl Eo Eo') as (Lo & Lo' & No).
  destruct (vsafe_sub_nth _ _ _ Ha ltac:(pose proof (fw_acc _ W); unfold len4 in *; congruence)) as [_ Na].
  destruct (vsafe_sub_nth _ _ _ Hb ltac:(unfold len4 in *; congruence)) as [_ Nb].
  rewrite Na, Nb by (pose proof (fw_acc _ W); unfold len4 in *; lia).
  rewrite No by exact Hj. rewrite (k_out_of_range s lo up Hlo Hup Hlt). rewrite (Hdl j Hj).
  destruct (in_range (a_pool s) lo up); lia.
Qed.

(* accrues_only_in_range, for allocations: a position whose range does not contain the current tick
   is entitled to exactly what it was entitled to before *)
Theorem allocate_out_of_range s coins s' pid pos t t' :
  FeeWF s -> len4 coins -> vnonneg (a_acc_value s) -> vnonneg (a_acc_value s') ->
  allocate_incentive s coins = Ok s' ->
  find_pos (a_positions s) pid = Some pos ->
  stored (a_ticks s) (pos_lower pos) -> stored (a_ticks s) (pos_upper pos) -> pos_lower pos < pos_upper pos ->
  in_range (a_pool s) (pos_lower pos) (pos_upper pos) = false ->
  entitlement s pid = Ok t -> entitlement s' pid = Ok t' -> t' = t.
Proof.
  intros W Lc Na Na' H Ep Hlo Hup Hlt Hout Ht Ht'.
  destruct (allocate_growth _ _ _ W Lc H) as (_ & T & Q & Ps & Ap & _ & La' & _).
  destruct (allocate_flow _ _ _ W Lc H) as (W' & _).
  refine (entitlement_inside_only s s' pid t t' W W' Na Na' Ps Ap _ Ht Ht').
  intros pos' o o' Ep' Eo Eo' j Hj. rewrite Ep in Ep'. injection Ep' as <-.
  set (dl := vminus (a_acc_value s') (a_acc_value s)).
  assert (Hdl : forall i, (i < 4)%nat -> vn (a_acc_value s') i = vn (a_acc_value s) i + vn dl i).
  { intros i Hi. unfold dl. rewrite vminus_nth4; [lia|exact La'|apply (fw_acc _ W)|exact Hi]. }
  destruct (outside_shift s s' _ _ o o' dl T Q (fw_acc _ W) La' (fw_ticks _ W) Hdl Eo Eo') as (_ & _ & No).
  rewrite No by exact Hj. rewrite (k_out_of_range s _ _ Hlo Hup Hlt), Hout. rewrite (Hdl j Hj). lia.
Qed.

(* ---------- swaps: a position whose range the price does not visit ---------- *)
Lemma outside_below s lo up o : FeeWF s -> stored (a_ticks s) lo -> stored (a_ticks s) up ->
  fee_growth_outside s lo up = Some o ->
  forall j, (j < 4)%nat -> vn (a_acc_value s) j - vn o j = vn (below_of s up) j - vn (below_of s lo) j.
Proof.
  intros W Hlo Hup Eo j Hj.
  pose proof (fw_acc _ W) as La. pose proof (fw_ticks _ W) as Ht.
  destruct (fgo_nth _ _ _ _ Eo La (tgrowth_len4 _ _ La Ht) (tgrowth_len4 _ _ La Ht)) as [Lo No].
  rewrite No by exact Hj. unfold below_of. rewrite !below_nth by assumption.
  unfold tgrowth, get_tick. unfold stored in Hlo, Hup.
  destruct (find_tick (a_ticks s) lo) as [tl|]; [|contradiction]. destruct (find_tick (a_ticks s) up) as [tu|]; [|contradiction].
  destruct (Z.leb_spec up (p_tick (a_pool s))); destruct (Z.ltb_spec (p_tick (a_pool s)) lo); destruct (Z.leb_spec lo (p_tick (a_pool s))); lia.
Qed.

(* accrues_only_in_range for swaps, at the level of the entitlement (hence of GetClaimableFees) *)
Theorem swap_out_of_range_entitlement s ei din dout specified s' i o pid pos t t' :
  FeeWF s -> StronglySorted tick_lt (a_ticks s) -> swap_cursor_ok s ei din specified ->
  vnonneg (a_acc_value s) -> vnonneg (a_acc_value s') ->
  swap s ei din dout specified true = Ok (s', i, o) ->
  find_pos (a_positions s) pid = Some pos ->
  stored (a_ticks s) (pos_lower pos) -> stored (a_ticks s) (pos_upper pos) -> pos_lower pos <= pos_upper pos ->
  pos_upper pos <= Z.min (p_tick (a_pool s)) (p_tick (a_pool s')) \/ Z.max (p_tick (a_pool s)) (p_tick (a_pool s')) < pos_lower pos ->
  entitlement s pid = Ok t -> entitlement s' pid = Ok t' -> t' = t.
Proof.
  intros W Hs Hc Na Na' H Ep Hlo Hup Hle Hout Ht Ht'.
  destruct (swap_accrual _ _ _ _ _ _ _ _ W Hs Hc H) as (_ & _ & _ & Hst & evs & He & Hbel & _).
  destruct (swap_flow _ _ _ _ _ _ _ _ W H) as (W' & _ & _).
  destruct (swap_fields _ _ _ _ _ _ _ _ H) as (r & accv & _ & _ & _ & _ & _ & Ps & Ap & _).
  refine (entitlement_inside_only s s' pid t t' W W' Na Na' Ps Ap _ Ht Ht').
  intros pos' o0 o' Ep' Eo Eo' j Hj. rewrite Ep in Ep'. injection Ep' as <-.
  rewrite (outside_below _ _ _ _ W Hlo Hup Eo j Hj).
  rewrite (outside_below _ _ _ _ W' (proj2 (Hst _) Hlo) (proj2 (Hst _) Hup) Eo' j Hj).
  rewrite !Hbel by assumption.
  pose proof (sum_in_below evs _ _ Hle) as Hsum. rewrite (sum_in_zero _ _ _ _ _ _ He Hout) in Hsum.
  destruct (Nat.eqb j (Z.to_nat din)); lia.
Qed.

(* claimable = truncation of the entitlement: equal entitlements, equal claimable amounts *)
Corollary claimable_of_entitlement s s' pid c c' :
  (forall t t', entitlement s pid = Ok t -> entitlement s' pid = Ok t' -> t' = t) ->
  claimable_fees s pid = Ok c -> claimable_fees s' pid = Ok c' -> c' = c.
Proof.
  intros H Hc Hc'. destruct (claimable_entitlement _ _ _ Hc) as (t & Et & ->). destruct (claimable_entitlement _ _ _ Hc') as (t' & Et' & ->).
  rewrite (H t t' Et Et'). reflexivity.
Qed.

(* ---------- pro rata ---------- *)
(* the scalar fact behind the pro-rata clause: one truncation of the growth, one rounding of the
   product with the liquidity, one truncation of the payout *)
Lemma pro_rata_core c L l g X q q' :
  0 <= c -> 0 < L -> 0 <= l -> 0 <= g ->
  g * L <= c * P * P < g * L + L ->
  g * l - P <= X * P <= g * l + P ->
  (q' - q - 1) * P < X < (q' - q + 1) * P ->
  (q' - q - 1) * L * P <= c * l * P + L /\ c * l * P * P <= (q' - q + 1) * L * P * P + l * L + L * P.
Proof.
  intros Hc HL Hl Hg Hb HX Hq. set (k := q' - q) in *.
  assert (HP : 0 < P) by reflexivity.
  split.
  - assert (E1 : (k - 1) * P * P < g * l + P) by nia.
    assert (E2 : g * l * L <= c * P * P * l) by nia.
    assert (E3 : (k - 1) * P * P * L < g * l * L + P * L) by nia.
    assert (E4 : (k - 1) * L * P * P < (c * l * P + L) * P) by nia.
    clear - E4 HP. nia.
  - assert (E1 : g * l - P < (k + 1) * P * P) by nia.
    assert (E2 : c * P * P * l < g * L * l + L * l + 1) by nia.
    assert (E3 : (g * l - P) * L < (k + 1) * P * P * L) by nia.
    clear - E2 E3 HP HL Hl. nia.
Qed.

Lemma pro_rata_scalar c L l d u r r' g :
  0 <= c -> 0 < L -> 0 <= l -> 0 <= d -> 0 <= u ->
  dquoT (dec_of_int c) L = Some g -> dmul d l = Some r -> dmul (d + g) l = Some r' ->
  (Z.quot (u + r') P - Z.quot (u + r) P - 1) * L * P <= c * l * P + L /\
  c * l * P * P <= (Z.quot (u + r') P - Z.quot (u + r) P + 1) * L * P * P + l * L + L * P.
Proof.
  intros Hc HL Hl Hd Hu Hg Hr Hr'.
  assert (Hcp : 0 <= dec_of_int c) by (unfold dec_of_int, P; lia).
  pose proof (dquoT_bracket _ _ _ Hcp HL Hg) as Hb. pose proof (dquoT_nonneg _ _ _ Hcp HL Hg) as Hg0.
  pose proof (dmul_bracket _ _ _ Hr) as B1. pose proof (dmul_bracket _ _ _ Hr') as B2.
  assert (Hr0 : 0 <= r) by (eapply dmul_nonneg; [| |exact Hr]; lia).
  assert (Hr0' : 0 <= r') by (eapply dmul_nonneg; [| |exact Hr']; lia).
  unfold dec_of_int in Hb.
  rewrite !Z.quot_div_nonneg by (unfold P; lia).
  assert (HP : P = 2 * HALF) by reflexivity.
  apply (pro_rata_core c L l g (r' - r)); try assumption.
  - lia.
  - unfold P in *. lia.
Qed.

(* a position is regular when its checkpoint does not exceed the current growth inside its range
   (growth inside never decreases, so every reachable position is; it is what makes GetTotalRewards
   take its ordinary branch) *)
Definition regular (s : amm) (pid : Z) : Prop :=
  forall pos ap0 o, find_pos (a_positions s) pid = Some pos -> find_ap (a_acc_pos s) pid = Some ap0 ->
    fee_growth_outside s (pos_lower pos) (pos_upper pos) = Some o ->
    0 < ap_shares ap0 /\ forall j, (j < 4)%nat -> vn (ap_value ap0) j + vn o j <= vn (a_acc_value s) j.

(* pro_rata: an allocation of c raises what an in-range position of liquidity l can claim by
   c*l/L up to one truncation of the growth, one rounding and one truncation of the payout *)
Theorem allocate_pro_rata s coins s' pid pos ap0 t t' :
  FeeWF s -> len4 coins -> vnonneg coins -> allocate_incentive s coins = Ok s' ->
  find_pos (a_positions s) pid = Some pos -> find_ap (a_acc_pos s) pid = Some ap0 ->
  stored (a_ticks s) (pos_lower pos) -> stored (a_ticks s) (pos_upper pos) -> pos_lower pos < pos_upper pos ->
  in_range (a_pool s) (pos_lower pos) (pos_upper pos) = true ->
  regular s pid ->
  entitlement s pid = Ok t -> entitlement s' pid = Ok t' ->
  forall j, (j < 4)%nat ->
    let dq := Z.quot (vn t' j) P - Z.quot (vn t j) P in
    let L := p_liq (a_pool s) in let l := ap_shares ap0 in let c := vn coins j in
    (dq - 1) * L * P <= c * l * P + L /\ c * l * P * P <= (dq + 1) * L * P * P + l * L + L * P.
Proof.
  intros W Lc Nc H Ep Ea Hlo Hup Hlt Hin Hreg Ht Ht' j Hj.
  destruct (allocate_growth _ _ _ W Lc H) as (HL & T & Q & Ps & Ap & _ & La' & Hg).
  destruct (allocate_flow _ _ _ W Lc H) as (W' & _).
  destruct (entitlement_inv _ _ _ Ht) as (pos1 & ap1 & o & v1 & Ep1 & Ea1 & Eo & Ev & Et).
  destruct (entitlement_inv _ _ _ Ht') as (pos2 & ap2 & o' & v1' & Ep2 & Ea2 & Eo' & Ev' & Et').
  rewrite Ep in Ep1. injection Ep1 as <-. rewrite Ea in Ea1. injection Ea1 as <-.
  rewrite Ps, Ep in Ep2. injection Ep2 as <-. rewrite Ap, Ea in Ea2. injection Ea2 as <-.
  destruct (Hreg _ _ _ Ep Ea Eo) as [Hsh Hr].
  assert (Hwf : ap_wf ap0) by (pose proof (fw_aps _ W) as X; rewrite Forall_forall in X; apply X; apply (find_ap_in _ _ _ Ea)).
  destruct Hwf as (Lval & Lun & Nun & _).
  set (dl := vminus (a_acc_value s') (a_acc_value s)).
  assert (Hdl : forall i, (i < 4)%nat -> vn (a_acc_value s') i = vn (a_acc_value s) i + vn dl i).
  { intros i Hi. unfold dl. rewrite vminus_nth4; [lia|exact La'|apply (fw_acc _ W)|exact Hi]. }
  destruct (outside_shift s s' _ _ o o' dl T Q (fw_acc _ W) La' (fw_ticks _ W) Hdl Eo Eo') as (Lo & Lo' & No).
  rewrite (k_out_of_range s _ _ Hlo Hup Hlt), Hin in No.
  assert (Eoo : o' = o) by (apply vec_ext4; [exact Lo'|exact Lo|]; intros i Hi; rewrite No by exact Hi; lia).
  subst o'. rewrite Ev in Ev'. injection Ev' as <-.
  destruct (vadd_nth _ _ _ Ev ltac:(unfold len4 in *; congruence)) as [Lv Nv].
  assert (Lv4 : len4 v1) by (unfold len4 in *; congruence).
  assert (Hg0 : forall i, (i < 4)%nat -> 0 <= vn dl i).
  { intros i Hi. specialize (Hg i Hi). rewrite (Hdl i Hi) in Hg. replace (vn (a_acc_value s) i + vn dl i - vn (a_acc_value s) i) with (vn dl i) in Hg by lia.
    rewrite vnonneg_nth in Nc. specialize (Nc i ltac:(unfold len4 in *; lia)).
    eapply dquoT_nonneg; [|exact HL|exact Hg]. unfold dec_of_int, P. lia. }
  unfold claim_ap in Et, Et'.
  destruct (total_rewards_cases _ _ _ Et (fw_acc _ W) Lv4 Lun) as [(A & _)|[(_ & (i & Hi & B1 & B2) & _)|(_ & _ & _ & N)]];
    cbn [ap_shares ap_value ap_unclaimed] in *; [lia| |].
  { exfalso. specialize (Hr i Hi). rewrite Nv in B2 by (unfold len4 in *; lia). lia. }
  destruct (total_rewards_cases _ _ _ Et' La' Lv4 Lun) as [(A & _)|[(_ & (i & Hi & B1 & B2) & _)|(_ & _ & _ & N')]];
    cbn [ap_shares ap_value ap_unclaimed] in *; [lia| |].
  { exfalso. specialize (Hr i Hi). specialize (Hg0 i Hi). rewrite Nv in B2 by (unfold len4 in *; lia). rewrite (Hdl i Hi) in B2. lia. }
  destruct (N j Hj) as (r & Hr1 & ->). destruct (N' j Hj) as (r' & Hr1' & ->).
  specialize (Hg j Hj). rewrite (Hdl j Hj) in Hg, Hr1'.
  replace (vn (a_acc_value s) j + vn dl j - vn (a_acc_value s) j) with (vn dl j) in Hg by lia.
  replace (vn (a_acc_value s) j + vn dl j - vn v1 j) with ((vn (a_acc_value s) j - vn v1 j) + vn dl j) in Hr1' by lia.
  rewrite vnonneg_nth in Nc, Nun.
  assert (Hc0 : 0 <= vn coins j) by (apply Nc; unfold len4 in *; lia).
  assert (Hu0 : 0 <= vn (ap_unclaimed ap0) j) by (apply Nun; unfold len4 in *; lia).
  assert (Hl0 : 0 <= ap_shares ap0) by lia.
  assert (Hd0 : 0 <= vn (a_acc_value s) j - vn v1 j).
  { specialize (Hr j Hj). rewrite Nv by (unfold len4 in *; lia). lia. }
  exact (pro_rata_scalar (vn coins j) (p_liq (a_pool s)) (ap_shares ap0) (vn (a_acc_value s) j - vn v1 j)
           (vn (ap_unclaimed ap0) j) r r' (vn dl j) Hc0 HL Hl0 Hd0 Hu0 Hg Hr1 Hr1').
Qed.
