(* C06 — LP fee and incentive accrual: fully backed, in-range only, pro-rata, claim-once.
   Statements only; proofs in Amm/FeesVec.v, FeesProofs.v, FeesLoop.v, FeesFlow.v, FeesSwap.v,
   FeesAccrual.v, FeesBacking.v, FeesSwapBacking.v, FeesOthers.v, FeesClaimMsg.v, FeesMonitor.v.  All statements are about the bit-exact model Amm/Pool.v of
   x/liquiditypool (validated against the real code on every run by Amm/C06Check.v). *)
From Coq Require Import ZArith List Bool Sorted.
Import ListNotations.
From Sunrise Require Import Base.Outcome Base.Dec Amm.Math Amm.Pool Amm.LiqDefs Amm.LiqInv Amm.Fees Amm.FeesVec
  Amm.FeesProofs Amm.FeesLoop Amm.FeesFlow Amm.FeesSwap Amm.FeesAccrual Amm.FeesBacking Amm.FeesSwapBacking Amm.FeesOthers Amm.FeesClaimMsg Amm.FeesMonitor.
Local Open Scope Z_scope.

(* ---- fees are charged at the pool's rate on the input ---- *)

(* fee_ge_rate, per bucket step that charges through fee/(1-fee) (every exact-out step, every
   exact-in step that reaches its target): fee*(1-rate) >= amount_in*rate, i.e. the fee is at least
   rate x (amount_in + fee), and at most (rate/(1-rate) + 1e-18) x amount_in + 1e-18 *)
Theorem C06_fee_ge_rate : forall amount_in fee fomf fc,
  0 <= amount_in -> 0 < fee < P ->
  fee_over_one_minus_fee fee = Some fomf -> fee_charge_from_in amount_in fomf = Some fc ->
  amount_in * fee <= fc * (P - fee) /\
  fc * P * (P - fee) < amount_in * (fee * P + (P - fee)) + P * (P - fee) /\ 0 <= fc.
Proof. exact fee_charge_bounds. Qed.
Print Assumptions C06_fee_ge_rate.

(* the same on whole coins for an exact-out swap: with i coins paid and f coins of fee,
   rate*(i-1) <= f <= (rate + 1e-18)*i + 2, provided every step's input amount is non-negative *)
Theorem C06_fee_rate_exact_out : forall s din dout specified s' i o,
  0 < p_fee (a_pool s) < P -> Z.of_nat (length (a_ticks s)) + 300 <= P ->
  swap s false din dout specified true = Ok (s', i, o) ->
  exists steps, Forall (fee_step (p_fee (a_pool s))) steps /\
    (Forall (fun x : Z * Z => 0 <= fst x) steps ->
     let f := nth (Z.to_nat din) (swap_fee_coins s false din dout specified) 0 in
     p_fee (a_pool s) * (i - 1) <= f * P /\ f * P <= p_fee (a_pool s) * i + i + 2 * P).
Proof. exact exact_out_fee_rate. Qed.
Print Assumptions C06_fee_rate_exact_out.

(* ---- fees and incentives go to the fee account, claims come out of it, nothing else moves it ---- *)

(* fees_to_fee_account: every successful operation moves the fee account by exactly
   [received] (swap: ceil(sum of step fees) of the input denom; allocation: the coins) minus
   [claimed_by] (claim: the coins of the response; decrease/increase: the collect inside) *)
Theorem C06_fees_to_fee_account : forall s o s' out,
  FeeWF s -> op_wf o -> step s o = (s', Ok out) ->
  FeeWF s' /\ len4 (received s o) /\ len4 (claimed_by s o) /\
  a_bal_fee s' = vminus (vplus (a_bal_fee s) (received s o)) (claimed_by s o).
Proof. exact fee_account_flow. Qed.
Print Assumptions C06_fees_to_fee_account.

(* the coins a swap sends to the fee account cover the fees charged in its steps *)
Theorem C06_swap_fee_coins_cover : forall fees fc, 0 <= fees -> dceil fees = Some fc -> fees <= dtrunc_int fc * P.
Proof. exact swap_fee_coins_cover. Qed.
Print Assumptions C06_swap_fee_coins_cover.

(* over every history: balance + paid out = initial balance + received, with the ghost totals *)
Theorem C06_fee_account_history : forall ops s recv cl s' recv' cl',
  FeeWF s -> Forall op_wf ops -> len4 recv -> len4 cl ->
  run_ghost s recv cl ops = (s', recv', cl') ->
  FeeWF s' /\ len4 recv' /\ len4 cl' /\
  vplus (a_bal_fee s') (vplus cl' recv) = vplus (a_bal_fee s) (vplus recv' cl).
Proof. exact ghost_run. Qed.
Print Assumptions C06_fee_account_history.

Theorem C06_step_preserves_wf : forall s o, FeeWF s -> op_wf o -> FeeWF (fst (step s o)).
Proof. exact step_fee_wf. Qed.
Print Assumptions C06_step_preserves_wf.

(* the run-time well-formedness monitor (part of monitor 9) decides exactly FeeWF *)
Theorem C06_monitor_wf_decides : forall s, fee_wf_b s = true <-> FeeWF s.
Proof. exact fee_wf_b_spec. Qed.
Print Assumptions C06_monitor_wf_decides.

(* ---- incentives accrue like fees ---- *)

(* incentive_accrues_like_fees: an allocation raises the global growth by QuoTruncate(c, L) per denom
   - the expression a swap step applies to its fee (Fees.loop_iter) - and nothing else *)
Theorem C06_incentive_accrues_like_fees : forall s coins s',
  FeeWF s -> len4 coins -> allocate_incentive s coins = Ok s' ->
  0 < p_liq (a_pool s) /\
  a_ticks s' = a_ticks s /\ a_pool s' = a_pool s /\ a_positions s' = a_positions s /\ a_acc_pos s' = a_acc_pos s /\
  a_acc_shares s' = a_acc_shares s /\ len4 (a_acc_value s') /\
  forall j, (j < 4)%nat ->
    dquoT (dec_of_int (nth j coins 0)) (p_liq (a_pool s)) = Some (nth j (a_acc_value s') 0 - nth j (a_acc_value s) 0).
Proof. exact allocate_growth. Qed.
Print Assumptions C06_incentive_accrues_like_fees.

(* ---- accrual only in range ---- *)

(* growth_inside_def + accrues_only_in_range for swaps: the growth inside [lo,up) rises by exactly the
   growth of the steps taken while lo <= cursor < up (each event of [evs] is one step: cursor, growth,
   fee, liquidity, with growth = QuoTruncate(fee, liquidity)).
   PARTIAL in one respect: the hypothesis [swap_cursor_ok] - every tick the loop recomputes from the
   price lies in the bucket it was walking - is not proved for arbitrary tick parameters (it needs
   monotonicity of the tick -> price map, see C04); it is checked on every implementation step by
   the out-of-range monitor. *)
Theorem C06_swap_accrues_in_range_partial : forall s ei din dout specified s' i o lo up a b,
  FeeWF s -> StronglySorted tick_lt (a_ticks s) -> swap_cursor_ok s ei din specified ->
  swap s ei din dout specified true = Ok (s', i, o) ->
  stored (a_ticks s) lo -> stored (a_ticks s) up -> lo <= up ->
  growth_inside s lo up = Some a -> growth_inside s' lo up = Some b ->
  exists evs, Forall (ev_ok (din =? 0) (p_tick (a_pool s)) (p_tick (a_pool s'))) evs /\
    forall j, (j < 4)%nat -> nth j b 0 = nth j a 0 + (if Nat.eqb j (Z.to_nat din) then sum_in evs lo up else 0).
Proof. exact swap_inside_growth. Qed.
Print Assumptions C06_swap_accrues_in_range_partial.

(* a position whose range the price does not visit during the swap is entitled to exactly what it
   was entitled to before (so GetClaimableFees answers the same) *)
Theorem C06_swap_out_of_range_partial : forall s ei din dout specified s' i o pid pos t t',
  FeeWF s -> StronglySorted tick_lt (a_ticks s) -> swap_cursor_ok s ei din specified ->
  vnonneg (a_acc_value s) -> vnonneg (a_acc_value s') ->
  swap s ei din dout specified true = Ok (s', i, o) ->
  find_pos (a_positions s) pid = Some pos ->
  stored (a_ticks s) (pos_lower pos) -> stored (a_ticks s) (pos_upper pos) -> pos_lower pos <= pos_upper pos ->
  pos_upper pos <= Z.min (p_tick (a_pool s)) (p_tick (a_pool s')) \/ Z.max (p_tick (a_pool s)) (p_tick (a_pool s')) < pos_lower pos ->
  entitlement s pid = Ok t -> entitlement s' pid = Ok t' -> t' = t.
Proof. exact swap_out_of_range_entitlement. Qed.
Print Assumptions C06_swap_out_of_range_partial.

(* the same for allocations: growth inside rises iff the current tick is in the range ... *)
Theorem C06_allocate_accrues_in_range : forall s coins s' lo up a b,
  FeeWF s -> len4 coins -> allocate_incentive s coins = Ok s' ->
  stored (a_ticks s) lo -> stored (a_ticks s) up -> lo < up ->
  growth_inside s lo up = Some a -> growth_inside s' lo up = Some b ->
  forall j, (j < 4)%nat ->
    nth j b 0 = nth j a 0 + (if in_range (a_pool s) lo up then nth j (a_acc_value s') 0 - nth j (a_acc_value s) 0 else 0).
Proof. exact allocate_inside. Qed.
Print Assumptions C06_allocate_accrues_in_range.

(* ... and an out-of-range position is entitled to exactly what it was entitled to before *)
Theorem C06_allocate_out_of_range : forall s coins s' pid pos t t',
  FeeWF s -> len4 coins -> vnonneg (a_acc_value s) -> vnonneg (a_acc_value s') ->
  allocate_incentive s coins = Ok s' ->
  find_pos (a_positions s) pid = Some pos ->
  stored (a_ticks s) (pos_lower pos) -> stored (a_ticks s) (pos_upper pos) -> pos_lower pos < pos_upper pos ->
  in_range (a_pool s) (pos_lower pos) (pos_upper pos) = false ->
  entitlement s pid = Ok t -> entitlement s' pid = Ok t' -> t' = t.
Proof. exact allocate_out_of_range. Qed.
Print Assumptions C06_allocate_out_of_range.

(* ---- pro rata ---- *)

(* pro_rata (allocations): what an in-range position of liquidity l can claim rises by dq with
   c*l/L - l/1e36 - 1 - 1e-18 < dq < c*l/L + 1 + 1e-18 (raw decimals l, L; c whole coins) *)
Theorem C06_pro_rata : forall s coins s' pid pos ap0 t t',
  FeeWF s -> len4 coins -> vnonneg coins -> allocate_incentive s coins = Ok s' ->
  find_pos (a_positions s) pid = Some pos -> find_ap (a_acc_pos s) pid = Some ap0 ->
  stored (a_ticks s) (pos_lower pos) -> stored (a_ticks s) (pos_upper pos) -> pos_lower pos < pos_upper pos ->
  in_range (a_pool s) (pos_lower pos) (pos_upper pos) = true ->
  regular s pid ->
  entitlement s pid = Ok t -> entitlement s' pid = Ok t' ->
  forall j, (j < 4)%nat ->
    let dq := Z.quot (nth j t' 0) P - Z.quot (nth j t 0) P in
    let L := p_liq (a_pool s) in let l := ap_shares ap0 in let c := nth j coins 0 in
    (dq - 1) * L * P <= c * l * P + L /\ c * l * P * P <= (dq + 1) * L * P * P + l * L + L * P.
Proof. exact allocate_pro_rata. Qed.
Print Assumptions C06_pro_rata.

(* ---- claims ---- *)

(* a claim pays the truncation of the entitlement to whole coins: never more than the entitlement *)
Theorem C06_claim_truncates : forall s pid s1 c,
  prepare_claim s pid = Ok (s1, c) ->
  exists tot, entitlement s pid = Ok tot /\ c = fst (vtrunc tot) /\
    forall i, (i < length tot)%nat -> 0 <= nth i tot 0 -> nth i c 0 * P <= nth i tot 0 < nth i c 0 * P + P.
Proof. exact claim_truncates. Qed.
Print Assumptions C06_claim_truncates.

(* second_claim_zero: after a successful claim, claiming again at once yields zero in every denom
   (also when the dust of the first claim was re-injected into the accumulator) *)
Theorem C06_second_claim_zero : forall s pid s1 c s2 c2,
  len4 (a_acc_value s) -> Forall tick_wf (a_ticks s) -> Forall ap_wf (a_acc_pos s) ->
  (forall ap, find_ap (a_acc_pos s) pid = Some ap -> 0 < ap_shares ap <= a_acc_shares s) ->
  prepare_claim s pid = Ok (s1, c) -> prepare_claim s1 pid = Ok (s2, c2) -> c2 = vzero.
Proof. exact second_claim_zero. Qed.
Print Assumptions C06_second_claim_zero.

(* the same at the level of the message: Msg/ClaimRewards for one position, executed twice in a row,
   pays nothing the second time.  (For a message that addresses several positions the claims of the
   later ones re-inject dust that the earlier ones can claim in a repeat: that is activity in
   between; see monitor 3.) *)
Theorem C06_second_claim_msg_zero : forall s sender pid s1 c s2 c2,
  FeeWF s ->
  (forall ap, find_ap (a_acc_pos s) pid = Some ap -> 0 < ap_shares ap <= a_acc_shares s) ->
  step s (OClaim sender [pid]) = (s1, Ok c) -> step s1 (OClaim sender [pid]) = (s2, Ok c2) -> c2 = vzero.
Proof. exact second_claim_msg_zero. Qed.
Print Assumptions C06_second_claim_msg_zero.

(* no_retroactive_fees: nothing is claimable for a position right after its creation *)
Theorem C06_no_retroactive_fees : forall s sender lo up base quote mb mq s' pid ab aq l c,
  len4 (a_acc_value s) -> Forall tick_wf (a_ticks s) ->
  find_ap (a_acc_pos s) (a_next_id s) = None ->
  create_position s sender lo up base quote mb mq = Ok (s', (pid, ab, aq, l)) ->
  claimable_fees s' pid = Ok c -> c = vzero.
Proof. exact no_retroactive_fees. Qed.
Print Assumptions C06_no_retroactive_fees.

(* ---- backing ---- *)

(* every entry of growth into the accumulator is covered by coins that entered the fee account:
   one step: growth x active liquidity <= amount charged *)
Theorem C06_growth_step_backed : forall fc L per, 0 <= fc -> 0 < L -> dquoT fc L = Some per ->
  0 <= per /\ per * L <= fc * P.
Proof. exact growth_step_backed. Qed.
Print Assumptions C06_growth_step_backed.

(* all steps of a swap *)
Theorem C06_swap_steps_backed : forall b4q t0 t1 evs,
  Forall (ev_ok b4q t0 t1) evs -> Forall (fun e : ev => let '(_, _, fc, liq) := e in 0 <= fc /\ 0 <= liq) evs ->
  sum_pl evs <= sum_fc evs * P /\ Forall (fun e : ev => let '(_, per, _, _) := e in 0 <= per) evs.
Proof. exact swap_events_backed. Qed.
Print Assumptions C06_swap_steps_backed.

(* an allocation *)
Theorem C06_allocate_backed : forall s coins s',
  FeeWF s -> len4 coins -> vnonneg coins -> allocate_incentive s coins = Ok s' ->
  forall j, (j < 4)%nat ->
    0 <= nth j (a_acc_value s') 0 - nth j (a_acc_value s) 0 /\
    (nth j (a_acc_value s') 0 - nth j (a_acc_value s) 0) * p_liq (a_pool s) <= nth j coins 0 * P * P.
Proof. exact allocate_backed. Qed.
Print Assumptions C06_allocate_backed.

(* the dust a claim re-injects: growth x total shares <= entitlement - coins paid *)
Theorem C06_dust_backed : forall s pid s1 c,
  FeeWF s -> 0 < a_acc_shares s -> prepare_claim s pid = Ok (s1, c) ->
  exists tot, entitlement s pid = Ok tot /\ c = fst (vtrunc tot) /\ len4 tot /\ vnonneg tot /\
    forall j, (j < 4)%nat ->
      0 <= nth j (a_acc_value s1) 0 - nth j (a_acc_value s) 0 /\
      (nth j (a_acc_value s1) 0 - nth j (a_acc_value s) 0) * a_acc_shares s <= (nth j tot 0 - nth j c 0 * P) * P.
Proof. exact dust_backed. Qed.
Print Assumptions C06_dust_backed.

(* ---- a swap is fully backed ---- *)

(* swap_backed (PARTIAL: cursor hypothesis as above): over a swap, with the liquidity bookkeeping of
   C04 (Inv), the events of the swap are one per step, each step's liquidity is the liquidity of the
   positions in range at its cursor, every position's growth inside rises by the growth of the
   steps taken while it was in range, the pool's active liquidity after the swap is again the sum
   over the in-range positions, and - if no step charged a negative fee -
     sum over positions of liquidity x rise of growth inside  <=  10^36 x coins sent to the fee account *)
Theorem C06_swap_backed_partial : forall s ei din dout specified s' i o,
  Inv s -> FeeWF s -> swap_cursor_ok s ei din specified ->
  swap s ei din dout specified true = Ok (s', i, o) ->
  exists evs,
    Forall (ev_ok (din =? 0) (p_tick (a_pool s)) (p_tick (a_pool s'))) evs /\
    Forall (fun e : ev => let '(c, _, _, liq) := e in liq = active (a_positions s) c /\ 0 <= liq) evs /\
    (forall p, In p (a_positions s) -> forall j, (j < 4)%nat ->
       nth j (below_of s' (pos_upper p)) 0 - nth j (below_of s' (pos_lower p)) 0 =
       nth j (below_of s (pos_upper p)) 0 - nth j (below_of s (pos_lower p)) 0
         + (if Nat.eqb j (Z.to_nat din) then sum_in evs (pos_lower p) (pos_upper p) else 0)) /\
    p_liq (a_pool s') = active (a_positions s') (p_tick (a_pool s')) /\
    (Forall (fun e : ev => let '(_, _, fc, _) := e in 0 <= fc) evs ->
     sum_pos (fun p => pos_liq p * sum_in evs (pos_lower p) (pos_upper p)) (a_positions s)
       <= nth (Z.to_nat din) (swap_fee_coins s ei din dout specified) 0 * P * P).
Proof. exact swap_backed. Qed.
Print Assumptions C06_swap_backed_partial.

(* a claim (with the dust it re-injects) leaves the entitlement of every other position whose range
   does not contain the current tick exactly as it was *)
Theorem C06_claim_other_out_of_range : forall s pid s1 c q pos t t',
  FeeWF s -> vnonneg (a_acc_value s) -> 0 <= a_acc_shares s ->
  prepare_claim s pid = Ok (s1, c) -> q <> pid ->
  find_pos (a_positions s) q = Some pos ->
  stored (a_ticks s) (pos_lower pos) -> stored (a_ticks s) (pos_upper pos) -> pos_lower pos < pos_upper pos ->
  in_range (a_pool s) (pos_lower pos) (pos_upper pos) = false ->
  entitlement s q = Ok t -> entitlement s1 q = Ok t' -> t' = t.
Proof. exact claim_other_out_of_range. Qed.
Print Assumptions C06_claim_other_out_of_range.

(* fee_backing, the full statement: over every history from a pool without positions, per denom,
   coins claimed so far + coins claimable now <= coins the fee account held at the start + received.
   NOT PROVED in this form.  What is proved: the four per-entry coverage theorems above, that a whole
   swap is backed (C06_swap_backed_partial: sum over positions of liquidity x rise of growth inside
   <= coins received) and an allocation is (C06_allocate_backed with C06_allocate_accrues_in_range),
   that a claim pays at most the entitlement, and (C06_fee_backing_partial) that over every history
   the statement is equivalent to solvency of the fee account.  Missing: the induction over position
   changes tying the sum of the positions' entitlements to those sums; note that Dec.Mul rounds half-even,
   so the sum of entitlements can exceed the exact pro-rata sum by half an ulp (5e-19 coin) per
   position per update - the inductive invariant must carry that slack, which is absorbed by the
   truncation of payouts to whole coins only while the number of updates stays below 2e18.
   The statement is evaluated on the implementation after every step (monitor 1 of C06Check). *)
Definition C06_fee_backing_full : Prop :=
  forall ops s0 s recv cl,
    Inv s0 -> FeeWF s0 -> a_positions s0 = [] -> a_acc_pos s0 = [] -> Forall op_wf ops ->
    run_ghost s0 vzero vzero ops = (s, recv, cl) ->
    vle (vplus cl (claimable_sum s)) (vplus (a_bal_fee s0) recv) = true.

Theorem C06_fee_backing_partial : forall ops s0 s recv cl X,
  FeeWF s0 -> Forall op_wf ops -> run_ghost s0 vzero vzero ops = (s, recv, cl) -> len4 X ->
  (vle (vplus cl X) (vplus (a_bal_fee s0) recv) = true <-> vle X (a_bal_fee s) = true).
Proof. exact backing_iff_solvent. Qed.
Print Assumptions C06_fee_backing_partial.

(* ---- non-vacuity: a concrete history on a coarse-grid pool (ratio 1.1, offset 0.25, fee 5%):
   a wide position, a position above the price, a swap upward through the second position's lower
   tick, an incentive allocation, then claims ---- *)
Definition ex_tp := {| price_ratio := 1100000000000000000; base_offset := 250000000000000000 |}.
Definition ex_s0 : amm :=
  fresh_pool 50000000000000000 ex_tp 0 vzero vzero [1000000000000; 1000000000000; 1000000000000; 1000000000000].
Definition ex_ops : list op :=
  [OCreate 1 (-10) 10 1000000000 1000000000 0 0;
   OCreate 1 2 6 1000000000 1000000000 0 0;
   OSwap true 1 0 600000000;
   OAllocate [0; 7; 1000003; 999];
   OClaim 1 [0]].
Definition ex_run := Eval vm_compute in run_ghost ex_s0 vzero vzero ex_ops.
Definition ex_s : amm := fst (fst ex_run).

(* the hypotheses of the theorems above hold on reachable states, and the conclusions are not void:
   the swap crossed an initialised tick and paid a fee of 5% (30000000 of 600000000), the claim of
   position 0 paid out, a second claim pays nothing, position 1 (out of range until the swap reached
   its lower tick) has its share left to claim; one coin per denom stays in the account as rounding *)
Example C06_nonvacuous :
  FeeWF ex_s0 /\ Inv ex_s0 /\ Forall op_wf ex_ops /\
  run_ghost ex_s0 vzero vzero ex_ops = ex_run /\
  fee_wf_b ex_s = true /\
  (* receipts and payouts of the history, per denom *)
  snd (fst ex_run) = [0; 30000007; 1000003; 999] /\
  snd ex_run = [0; 19608102; 287472; 287] /\
  (* backing holds at the end, with something left claimable for position 1 *)
  vle (vplus (snd ex_run) (claimable_sum ex_s)) (snd (fst ex_run)) = true /\
  claimable_of ex_s 1 = [0; 10391904; 712530; 711] /\
  (* claiming position 0 again pays nothing *)
  (exists s2, prepare_claim ex_s 0 = Ok (s2, vzero)).
Proof.
  split; [constructor; cbn; try reflexivity; constructor|].
  split; [apply fresh_pool_inv|].
  split; [repeat constructor|].
  split; [vm_compute; reflexivity|].
  split; [vm_compute; reflexivity|].
  split; [vm_compute; reflexivity|].
  split; [vm_compute; reflexivity|].
  split; [vm_compute; reflexivity|].
  split; [vm_compute; reflexivity|].
  vm_compute. eexists. reflexivity.
Qed.

(* the cursor hypothesis of the two partial theorems is satisfiable: it holds for the swap of the
   example (which crosses tick 2 and stops inside the next bucket) *)
Definition ex_s2 : amm := Eval vm_compute in fst (fst (run_ghost ex_s0 vzero vzero (firstn 2 ex_ops))).
Example C06_cursor_ok_nonvacuous :
  swap_cursor_ok ex_s2 true 1 600000000 /\ StronglySorted tick_lt (a_ticks ex_s2) /\
  exists s' i o, swap ex_s2 true 1 0 600000000 true = Ok (s', i, o) /\ p_tick (a_pool ex_s2) < 2 <= p_tick (a_pool s').
Proof.
  split.
  { assert (E : sqrt_price_limit (if 1 =? 0 then MIN_MULT_SPOT else MAX_MULT_SPOT) (1 =? 0) = Ok 10000000000000000000000000000000000000)
      by (vm_compute; reflexivity).
    intros limit H. rewrite E in H. injection H as <-. vm_compute. repeat split; discriminate. }
  split.
  { repeat (constructor; [|repeat constructor; reflexivity]). constructor. }
  vm_compute. do 3 eexists. split; [reflexivity|]. split; [reflexivity|discriminate].
Qed.

(* regression for the repaired defect "AllocateIncentive accrued before it took the coins": called
   outside a transaction (as BeginBlock does) with a sender that cannot pay, the pre-fix order left
   the growth in the accumulator - the positions could then claim more than the fee account holds;
   the repaired order leaves the state untouched. *)
Example C06_allocate_prefix_refuted :
  let coins := [0; 5000000000000000000000000000000000000; 0; 0] in
  vle (claimable_sum ex_s) (a_bal_fee ex_s) = true /\
  vle (claimable_sum (allocate_nontx_prefix ex_s coins)) (a_bal_fee (allocate_nontx_prefix ex_s coins)) = false /\
  a_bal_fee (allocate_nontx_prefix ex_s coins) = a_bal_fee ex_s /\
  allocate_nontx ex_s coins = ex_s.
Proof.
  cbv zeta. split; [vm_compute; reflexivity|]. split; [vm_compute; reflexivity|]. split; vm_compute; reflexivity.
Qed.
