package c15

import (
	"bytes"
	"encoding/json"
	"fmt"
	"strconv"
	"strings"

	"verifharness/c15/shape"
	"verifharness/emit"
)

// jv is a JSON document as the generator builds it (objects keep key order and may repeat keys).
type jv struct {
	kind int // 0 null, 1 bool, 2 number, 3 string, 4 array, 5 object
	b    bool
	num  string // number literal
	str  string
	arr  []jv
	obj  []jkv
}
type jkv struct {
	k string
	v jv
}

func jnull() jv             { return jv{kind: 0} }
func jbool(b bool) jv       { return jv{kind: 1, b: b} }
func jnum(s string) jv      { return jv{kind: 2, num: s} }
func jstr(s string) jv      { return jv{kind: 3, str: s} }
func jarr(xs ...jv) jv      { return jv{kind: 4, arr: xs} }
func jobj(kvs ...jkv) jv    { return jv{kind: 5, obj: kvs} }
func kv(k string, v jv) jkv { return jkv{k, v} }
func (j jv) with(k string, v jv) jv {
	out := jv{kind: 5}
	out.obj = append(append([]jkv{}, j.obj...), jkv{k, v})
	return out
}

// text serialises the document (strings escaped by encoding/json).
func (j jv) text() string {
	switch j.kind {
	case 0:
		return "null"
	case 1:
		if j.b {
			return "true"
		}
		return "false"
	case 2:
		return j.num
	case 3:
		b, _ := json.Marshal(j.str)
		return string(b)
	case 4:
		xs := make([]string, len(j.arr))
		for i, x := range j.arr {
			xs[i] = x.text()
		}
		return "[" + strings.Join(xs, ",") + "]"
	default:
		xs := make([]string, len(j.obj))
		for i, e := range j.obj {
			k, _ := json.Marshal(e.k)
			xs[i] = string(k) + ":" + e.v.text()
		}
		return "{" + strings.Join(xs, ",") + "}"
	}
}

// parseJSON reads a memo the way encoding/json sees it: nil when the text is not valid JSON;
// otherwise the value with object keys in document order (duplicates kept), strings unescaped.
func parseJSON(text string) *jv {
	if !json.Valid([]byte(text)) {
		return nil
	}
	dec := json.NewDecoder(bytes.NewReader([]byte(text)))
	dec.UseNumber()
	v, err := parseValue(dec)
	if err != nil {
		return nil
	}
	return &v
}

func parseValue(dec *json.Decoder) (jv, error) {
	tok, err := dec.Token()
	if err != nil {
		return jv{}, err
	}
	switch t := tok.(type) {
	case nil:
		return jnull(), nil
	case bool:
		return jbool(t), nil
	case json.Number:
		return jnum(string(t)), nil
	case string:
		return jstr(t), nil
	case json.Delim:
		if t == '[' {
			out := jv{kind: 4}
			for dec.More() {
				x, err := parseValue(dec)
				if err != nil {
					return jv{}, err
				}
				out.arr = append(out.arr, x)
			}
			_, err := dec.Token()
			return out, err
		}
		if t == '{' {
			out := jv{kind: 5}
			for dec.More() {
				kt, err := dec.Token()
				if err != nil {
					return jv{}, err
				}
				k, ok := kt.(string)
				if !ok {
					return jv{}, fmt.Errorf("key is not a string")
				}
				x, err := parseValue(dec)
				if err != nil {
					return jv{}, err
				}
				out.obj = append(out.obj, jkv{k, x})
			}
			_, err := dec.Token()
			return out, err
		}
	}
	return jv{}, fmt.Errorf("unexpected token %v", tok)
}

// coq renders the document as a term of Swap.Memo.json.
func (j jv) coq() string {
	switch j.kind {
	case 0:
		return "JNull"
	case 1:
		return "(JBool " + emit.Bool(j.b) + ")"
	case 2:
		_, err := strconv.ParseFloat(j.num, 64)
		return "(JNum " + emit.Bool(err == nil) + ")"
	case 3:
		return "(JStr " + shape.Bytes(j.str) + ")"
	case 4:
		xs := make([]string, len(j.arr))
		for i, x := range j.arr {
			xs[i] = x.coq()
		}
		return "(JArr [" + strings.Join(xs, "; ") + "])"
	default:
		xs := make([]string, len(j.obj))
		for i, e := range j.obj {
			xs[i] = "(" + shape.Bytes(e.k) + ", " + e.v.coq() + ")"
		}
		return "(JObj [" + strings.Join(xs, "; ") + "])"
	}
}

// ---------- generation ----------

// paths enumerates every position of the document (as index paths).
func (j jv) positions(prefix []int, out *[][]int) {
	*out = append(*out, append([]int{}, prefix...))
	switch j.kind {
	case 4:
		for i, x := range j.arr {
			x.positions(append(prefix, i), out)
		}
	case 5:
		for i, e := range j.obj {
			e.v.positions(append(prefix, i), out)
		}
	}
}

// replaceAt returns a copy of the document with the value at path p replaced by f(old).
func (j jv) replaceAt(p []int, f func(jv) jv) jv {
	if len(p) == 0 {
		return f(j)
	}
	out := j
	switch j.kind {
	case 4:
		out.arr = append([]jv{}, j.arr...)
		out.arr[p[0]] = j.arr[p[0]].replaceAt(p[1:], f)
	case 5:
		out.obj = append([]jkv{}, j.obj...)
		out.obj[p[0]] = jkv{j.obj[p[0]].k, j.obj[p[0]].v.replaceAt(p[1:], f)}
	}
	return out
}

// deleteAt removes the member / element at path p (p non-empty).
func (j jv) deleteAt(p []int) jv {
	if len(p) == 1 {
		out := j
		switch j.kind {
		case 4:
			out.arr = append(append([]jv{}, j.arr[:p[0]]...), j.arr[p[0]+1:]...)
		case 5:
			out.obj = append(append([]jkv{}, j.obj[:p[0]]...), j.obj[p[0]+1:]...)
		}
		return out
	}
	return j.replaceAt(p[:1], func(x jv) jv { return x.deleteAt(p[1:]) })
}

var wrongValues = []jv{jnull(), jbool(true), jbool(false), jnum("1"), jnum("0"), jnum("-5"), jnum("1.5"), jnum("1e999"),
	jnum("18446744073709551616"), jstr(""), jstr("x"), jstr("1"), jarr(), jarr(jnum("1")), jobj(), jobj(kv("a", jnum("1")))}

func deepNest(depth int, arr bool) jv {
	v := jnum("1")
	for i := 0; i < depth; i++ {
		if arr {
			v = jarr(v)
		} else {
			v = jobj(kv("next", v))
		}
	}
	return v
}

// mutateJSON applies one structural mutation to a valid memo document.
func mutateJSON(r *emit.Rand, doc jv) (jv, string) {
	var ps [][]int
	doc.positions(nil, &ps)
	p := ps[r.Intn(len(ps))]
	switch r.Intn(7) {
	case 0, 1, 2: // wrong JSON type at a position
		w := wrongValues[r.Intn(len(wrongValues))]
		return doc.replaceAt(p, func(jv) jv { return w }), "wrongtype"
	case 3: // missing field
		if len(p) == 0 {
			return jobj(), "missing"
		}
		return doc.deleteAt(p), "missing"
	case 4: // duplicate key: the same member again with another value
		if len(p) == 0 {
			return doc, "none"
		}
		parent := p[:len(p)-1]
		w := wrongValues[r.Intn(len(wrongValues))]
		first := r.Bool()
		return doc.replaceAt(parent, func(x jv) jv {
			if x.kind != 5 {
				return x
			}
			k := x.obj[p[len(p)-1]].k
			out := jv{kind: 5}
			if first {
				out.obj = append([]jkv{{k, w}}, x.obj...)
			} else {
				out.obj = append(append([]jkv{}, x.obj...), jkv{k, w})
			}
			return out
		}), "dupkey"
	case 5: // deep nesting at a position
		d := deepNest(1+r.Intn(40), r.Bool())
		return doc.replaceAt(p, func(jv) jv { return d }), "deep"
	default: // unknown extra key
		return doc.replaceAt(p, func(x jv) jv {
			if x.kind != 5 {
				return x
			}
			return x.with("extra", wrongValues[r.Intn(len(wrongValues))])
		}), "extrakey"
	}
}
