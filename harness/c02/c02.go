// Package c02: AMM custody — pools stay solvent and every liquidity provider can always exit.
//
// Histories on the real x/liquiditypool + bank of the running application (package amm does the
// per-step dumps).  On top of the shared per-step refinement this harness
//   - observes, for every step, that no balance outside {acting user, this pool's two accounts}
//     and no supply changed (k_others_same) and keeps the cumulative paid-in / paid-out of the
//     pool's two accounts from the observed bank deltas (k_in / k_out);
//   - runs directed scenarios (corpus): empty a pool and re-create a position (witness of the
//     repaired resetPool defect), first positions at extreme price ratios (1 : 1e30 both ways),
//     swaps that take (almost) everything the pool holds on one side, adjacent / nested ranges;
//   - lets strangers try to decrease / claim / increase other people's positions;
//   - at the end drains every pool (DecreaseLiquidity(all), which claims the fees, or
//     ClaimRewards + DecreaseLiquidity) in ALL exit orders when the pool has few positions and in
//     several orders otherwise, each order in a discarded cache context; every drain step is
//     emitted with c_must_ok = true.
package c02

import (
	"fmt"
	"math"
	"math/big"
	"os"
	"sort"
	"strings"

	sdk "github.com/cosmos/cosmos-sdk/types"

	lptypes "github.com/sunriselayer/sunrise/x/liquiditypool/types"

	"verifharness/amm"
	"verifharness/emit"
)

const rule = "one case per executed message (pre-state, op, result, post-state of the real module and bank, plus observed flows); " +
	"non-trivial = a complete drain order of a pool whose history has >= 2 open positions with overlapping ranges and >= 1 successful swap, " +
	"counted per distinct (pool, exit order) when the pool was drained in >= 2 orders; plus every non-owner attempt on an existing position (distinct by pool, kind, position)"

type flow struct{ in, out [4]*big.Int }

func newFlow() *flow {
	f := &flow{}
	for i := 0; i < 4; i++ {
		f.in[i], f.out[i] = big.NewInt(0), big.NewInt(0)
	}
	return f
}
func (f *flow) clone() *flow {
	g := newFlow()
	for i := 0; i < 4; i++ {
		g.in[i].Set(f.in[i])
		g.out[i].Set(f.out[i])
	}
	return g
}
func vec(v [4]*big.Int) string {
	s := make([]string, 4)
	for i := range s {
		s[i] = emit.Z(v[i])
	}
	return emit.List(s)
}

type poolHist struct {
	flow    *flow
	nops    int      // messages attempted on this pool so far (the unit of the dust bound)
	swaps   int      // successful swaps
	emptied int      // times the last position was removed
	refills int      // times a position was created on an emptied pool
	spMin   *big.Int // smallest non-zero sqrt price (raw) the pool has had; nil = none yet
}

func (h *poolHist) seePrice(s string) {
	x := amm.C02Raw(s)
	if x.Sign() > 0 && (h.spMin == nil || x.Cmp(h.spMin) < 0) {
		h.spMin = x
	}
}
func (h *poolHist) spMinZ() string {
	if h.spMin == nil {
		return "0"
	}
	return emit.Z(h.spMin)
}

type runner struct {
	w      *amm.World
	cf     *emit.CasesFile
	st     *emit.Stats
	hist   map[uint64]*poolHist
	budget int
	// measured dust after complete drains: max over drains of (dust units) and of dust/nops
	maxDust       *big.Int
	maxDustRatio  float64
	dustSamples   []string
	failedDrains  []string
	spelling      string // sender spelling of the step being committed ("" = canonical)
	drainSpelling string // spelling used by every second exit order of a drain ("" = canonical)
}

func (r *runner) ph(p amm.PoolInfo) *poolHist {
	h, ok := r.hist[p.ID]
	if !ok {
		h = &poolHist{flow: newFlow()}
		r.hist[p.ID] = h
	}
	return h
}

// others renders every balance (and supply) that the step must not touch.
func (r *runner) others(ctx sdk.Context, p amm.PoolInfo, user sdk.AccAddress) string {
	var sb strings.Builder
	denoms := append([]string{}, amm.AllDenoms...)
	denoms = append(denoms, "uvrise")
	put := func(a sdk.AccAddress) {
		for _, d := range denoms {
			sb.WriteString(r.w.H.Bal(ctx, a, d).String())
			sb.WriteByte(',')
		}
		sb.WriteByte(';')
	}
	for _, a := range r.w.H.Accts {
		if !a.Addr.Equals(user) {
			put(a.Addr)
		}
	}
	for _, q := range r.w.Pools {
		if q.ID != p.ID {
			put(lptypes.NewPoolAddress(q.ID))
			put(lptypes.NewPoolFeesAddress(q.ID))
		}
	}
	for _, d := range denoms {
		sb.WriteString(r.w.H.Supply(ctx, d).String())
		sb.WriteByte(',')
	}
	return sb.String()
}

func (r *runner) custody(ctx sdk.Context, p amm.PoolInfo) (pool, fee [4]*big.Int) {
	for i, d := range p.Denoms {
		pool[i] = r.w.H.Bal(ctx, lptypes.NewPoolAddress(p.ID), d).BigInt()
		fee[i] = r.w.H.Bal(ctx, lptypes.NewPoolFeesAddress(p.ID), d).BigInt()
	}
	return
}

// step executes one message with all observations and emits the case. `h` is the history record
// to update (the committed one, or a clone for steps inside a discarded context).
func (r *runner) step(ctx sdk.Context, p amm.PoolInfo, o amm.Op, mustOK bool, h *poolHist, extra map[string]any) error {
	user := r.w.H.Accts[o.Sender%len(r.w.H.Accts)].Addr
	before := r.others(ctx, p, user)
	pb, fb := r.custody(ctx, p)
	nposBefore := len(r.w.C02Positions(ctx, p))
	if pl, found, _ := r.w.K.GetPool(ctx, p.ID); found {
		h.seePrice(pl.CurrentSqrtPrice)
	}
	var term string
	var err error
	if r.spelling != "" && spellable(o.Kind) {
		term, err = r.stepSpelled(ctx, p, o, mustOK, r.spelling)
	} else {
		term, err = r.w.Step(ctx, p, o, mustOK)
	}
	if pl, found, _ := r.w.K.GetPool(ctx, p.ID); found {
		h.seePrice(pl.CurrentSqrtPrice)
	}
	pa, fa := r.custody(ctx, p)
	after := r.others(ctx, p, user)
	nposAfter := len(r.w.C02Positions(ctx, p))
	for i := 0; i < 4; i++ {
		for _, d := range []*big.Int{new(big.Int).Sub(pa[i], pb[i]), new(big.Int).Sub(fa[i], fb[i])} {
			if d.Sign() > 0 {
				h.flow.in[i].Add(h.flow.in[i], d)
			} else {
				h.flow.out[i].Sub(h.flow.out[i], d)
			}
		}
	}
	h.nops++
	if err == nil && o.Kind == "swap" {
		h.swaps++
	}
	if nposBefore > 0 && nposAfter == 0 {
		h.emptied++
	}
	if nposBefore == 0 && nposAfter > 0 && h.emptied > 0 {
		h.refills++
	}
	r.cf.Add(fmt.Sprintf("{| k_case := %s; k_nops := %d; k_others_same := %s; k_in := %s; k_out := %s; k_sp_min := %s; k_owners_canonical := %s |}",
		term, h.nops, emit.Bool(before == after), vec(h.flow.in), vec(h.flow.out), h.spMinZ(), emit.Bool(r.ownersCanonical(ctx, p))))
	info := o.Info()
	info["pool"] = p.ID
	info["pool_params"] = fmt.Sprintf("fee=%s ratio=%s offset=%s denoms=%v", p.Fee, p.Ratio, p.Offset, p.Denoms[:2])
	info["must_ok"] = mustOK
	for k, v := range extra {
		info[k] = v
	}
	if err != nil {
		info["err"] = err.Error()
		r.st.Count(o.Kind + ":err")
		if mustOK {
			r.st.Count("drain-step:FAILED")
			r.failedDrains = append(r.failedDrains, fmt.Sprintf("pool %d pid %d tag %s: %v", p.ID, o.Pid, o.Tag, err))
		}
	} else {
		r.st.Count(o.Kind + ":ok")
		r.st.Sample(info)
	}
	if nposBefore > 0 && nposAfter == 0 {
		r.st.Count("pool-emptied")
		// measured dust: what the two accounts still hold once nobody is left
		for i := 0; i < 2; i++ {
			d := new(big.Int).Add(pa[i], fa[i])
			if d.Cmp(r.maxDust) > 0 {
				r.maxDust.Set(d)
			}
			f, _ := new(big.Float).SetInt(d).Float64()
			if ratio := f / float64(h.nops); ratio > r.maxDustRatio {
				r.maxDustRatio = ratio
			}
		}
		if len(r.dustSamples) < 40 {
			r.dustSamples = append(r.dustSamples, fmt.Sprintf("pool %d nops %d: pool=[%s %s] fee=[%s %s %s %s] in=[%s %s]", p.ID, h.nops,
				pa[0], pa[1], fa[0], fa[1], fa[2], fa[3], h.flow.in[0], h.flow.in[1]))
		}
		info["dust_pool"] = []string{pa[0].String(), pa[1].String()}
		info["dust_fee"] = []string{fa[0].String(), fa[1].String(), fa[2].String(), fa[3].String()}
	}
	r.st.Info(info)
	r.st.Evaluations++
	r.budget--
	return err
}

func (r *runner) commit(ctx sdk.Context, p amm.PoolInfo, o amm.Op) error {
	return r.step(ctx, p, o, false, r.ph(p), nil)
}

// ---------- stranger attempts ----------

// strangerOps: every way a non-owner could try to move a position's funds.
func (r *runner) strangerOps(ctx sdk.Context, p amm.PoolInfo, q lptypes.Position, kind int) amm.Op {
	w := r.w
	owner := r.ownerIndex(q.Address)
	stranger := (owner + 1 + w.R.Intn(3)) % 4 // any of the three other accounts (3 never owns anything)
	liq := amm.C02Raw(q.Liquidity)
	switch kind % 6 {
	case 0:
		return amm.Op{Kind: "decrease", Sender: stranger, Pid: q.Id, Liq: liq, Tag: "stranger/decrease-all"}
	case 1:
		return amm.Op{Kind: "decrease", Sender: stranger, Pid: q.Id, Liq: big.NewInt(1), Tag: "stranger/decrease-1ulp"}
	case 2:
		return amm.Op{Kind: "claim", Sender: stranger, Pids: []uint64{q.Id}, Tag: "stranger/claim"}
	case 3:
		// a list that starts with one of the stranger's own positions (if any) and then names the victim
		ids := []uint64{}
		for _, x := range w.C02Positions(ctx, p) {
			if r.ownerIndex(x.Address) == stranger {
				ids = append(ids, x.Id)
				break
			}
		}
		ids = append(ids, q.Id)
		return amm.Op{Kind: "claim", Sender: stranger, Pids: ids, Tag: "stranger/claim-mixed-list"}
	case 4:
		return amm.Op{Kind: "increase", Sender: stranger, Pid: q.Id, Base: big.NewInt(1000), Quote: big.NewInt(1000), MinBase: big.NewInt(0), MinQuote: big.NewInt(0), Tag: "stranger/increase"}
	default:
		half := new(big.Int).Div(liq, big.NewInt(2))
		return amm.Op{Kind: "decrease", Sender: stranger, Pid: q.Id, Liq: half, Tag: "stranger/decrease-half"}
	}
}

func (r *runner) stranger(ctx sdk.Context, p amm.PoolInfo, kind int) {
	poss := r.w.C02Positions(ctx, p)
	if len(poss) == 0 {
		return
	}
	q := poss[r.w.R.Intn(len(poss))]
	o := r.strangerOps(ctx, p, q, kind)
	err := r.commit(ctx, p, o)
	r.st.Count("stranger-attempt")
	if err == nil {
		r.st.Count("stranger-attempt:SUCCEEDED")
	}
	r.st.Nontriv(fmt.Sprintf("stranger/%d/%s/%d", p.ID, o.Tag, q.Id))
}

// ---------- drains ----------

func permutations(n int) [][]int {
	if n == 0 {
		return [][]int{{}}
	}
	var out [][]int
	for _, p := range permutations(n - 1) {
		for i := 0; i <= len(p); i++ {
			q := append(append(append([]int{}, p[:i]...), n-1), p[i:]...)
			out = append(out, q)
		}
	}
	return out
}

func overlapping(poss []lptypes.Position) bool {
	for i := range poss {
		for j := i + 1; j < len(poss); j++ {
			if poss[i].LowerTick < poss[j].UpperTick && poss[j].LowerTick < poss[i].UpperTick {
				return true
			}
		}
	}
	return false
}

// drainOrder exits every position of p in the given order inside a discarded cache context.
// claimFirst: ClaimRewards then DecreaseLiquidity instead of DecreaseLiquidity alone.
func (r *runner) drainOrder(ctx sdk.Context, p amm.PoolInfo, poss []lptypes.Position, order []int, claimFirst bool, label string) bool {
	c, _ := ctx.CacheContext()
	base := r.ph(p)
	h := &poolHist{flow: base.flow.clone(), nops: base.nops, swaps: base.swaps, emptied: base.emptied, refills: base.refills}
	if base.spMin != nil {
		h.spMin = new(big.Int).Set(base.spMin)
	}
	ok := true
	ids := []string{}
	for _, k := range order {
		q := poss[k]
		ids = append(ids, fmt.Sprint(q.Id))
		owner := r.ownerIndex(q.Address)
		ex := map[string]any{"drain": label}
		if claimFirst {
			if err := r.step(c, p, amm.Op{Kind: "claim", Sender: owner, Pids: []uint64{q.Id}, Tag: "drain/claim/" + label}, true, h, ex); err != nil {
				ok = false
			}
		}
		if err := r.step(c, p, amm.Op{Kind: "decrease", Sender: owner, Pid: q.Id, Liq: amm.C02Raw(q.Liquidity), Tag: "drain/decrease/" + label}, true, h, ex); err != nil {
			ok = false
		}
	}
	r.st.Count("drain-order")
	if left := len(r.w.C02Positions(c, p)); left != 0 {
		r.st.Count("drain-order:INCOMPLETE")
		ok = false
	}
	if !ok {
		r.st.Count("drain-order:FAILED")
		r.failedDrains = append(r.failedDrains, fmt.Sprintf("pool %d order [%s] (%s)", p.ID, strings.Join(ids, " "), label))
	}
	return ok
}

// drainPool: all exit orders when the pool has at most maxAll positions, otherwise
// ascending, descending and random orders; one extra order with claim-then-decrease.
func (r *runner) drainPool(ctx sdk.Context, p amm.PoolInfo, maxAll, maxOrders int, label string) {
	poss := r.w.C02Positions(ctx, p)
	if len(poss) == 0 {
		return
	}
	sort.Slice(poss, func(i, j int) bool { return poss[i].Id < poss[j].Id })
	n := len(poss)
	var orders [][]int
	if n <= maxAll {
		orders = permutations(n)
		// a deterministic shuffle so that a truncated list is still varied
		for i := len(orders) - 1; i > 0; i-- {
			j := r.w.R.Intn(i + 1)
			orders[i], orders[j] = orders[j], orders[i]
		}
	} else {
		asc := make([]int, n)
		desc := make([]int, n)
		for i := range asc {
			asc[i], desc[i] = i, n-1-i
		}
		orders = append(orders, asc, desc)
		for k := 0; k < maxOrders; k++ {
			o := append([]int{}, asc...)
			for i := n - 1; i > 0; i-- {
				j := r.w.R.Intn(i + 1)
				o[i], o[j] = o[j], o[i]
			}
			orders = append(orders, o)
		}
	}
	if len(orders) > maxOrders {
		orders = orders[:maxOrders]
	}
	h := r.ph(p)
	nontriv := n >= 2 && overlapping(poss) && h.swaps >= 1 && len(orders) >= 2
	for k, o := range orders {
		if r.budget < n && k >= 2 {
			r.st.Count("drain-order:skipped-budget")
			break
		}
		claimFirst := k == len(orders)-1 && len(orders) > 1
		if r.drainSpelling != "" && k%2 == 1 {
			r.spelling = r.drainSpelling // this exit order: every provider spells himself like this
		}
		r.drainOrder(ctx, p, poss, o, claimFirst, fmt.Sprintf("%s/order%d", label, k))
		r.spelling = ""
		if nontriv {
			r.st.Nontriv(fmt.Sprintf("drain/%d/%s/%v", p.ID, label, o))
		}
	}
	if nontriv {
		r.st.Count("nontrivial-pool-drains")
	}
}

// ---------- directed scenarios (corpus) ----------

func bi(s string) *big.Int {
	x, ok := new(big.Int).SetString(s, 10)
	if !ok {
		panic("bad int " + s)
	}
	return x
}

func create(sender int, lo, up int64, base, quote *big.Int, tag string) amm.Op {
	return amm.Op{Kind: "create", Sender: sender, Lower: lo, Upper: up, Base: base, Quote: quote, MinBase: big.NewInt(0), MinQuote: big.NewInt(0), Tag: tag}
}
func swapOp(sender int, exactIn bool, denomIn int, amt *big.Int, tag string) amm.Op {
	return amm.Op{Kind: "swap", Sender: sender, ExactIn: exactIn, DenomIn: denomIn, Amount: amt, Tag: tag}
}

// tickOf estimates the tick of price quote/base for the pool's parameters (floating point; only
// used to place ranges around the price the first position will establish).
func tickOf(p amm.PoolInfo, base, quote *big.Int) int64 {
	b, _ := new(big.Float).SetInt(base).Float64()
	q, _ := new(big.Float).SetInt(quote).Float64()
	var ratio, off float64
	fmt.Sscan(p.Ratio, &ratio)
	fmt.Sscan(p.Offset, &off)
	return int64(math.Floor(math.Log(q/b)/math.Log(ratio) - off))
}

func (r *runner) decreaseAll(ctx sdk.Context, p amm.PoolInfo, tag string) {
	for _, q := range r.w.C02Positions(ctx, p) {
		r.commit(ctx, p, amm.Op{Kind: "decrease", Sender: r.ownerIndex(q.Address), Pid: q.Id, Liq: amm.C02Raw(q.Liquidity), Tag: tag})
	}
}

// takeAlmostAll: an exact-out swap for as much of the pool's holdings of one side as the pool will
// give (tries balance-k for small k and a geometric back-off), committed if one succeeds.
func (r *runner) takeAlmostAll(ctx sdk.Context, p amm.PoolInfo, sender, denomOut int) {
	bal := r.w.H.Bal(ctx, lptypes.NewPoolAddress(p.ID), p.Denoms[denomOut]).BigInt()
	cands := []*big.Int{}
	for k := int64(0); k <= 3; k++ {
		cands = append(cands, new(big.Int).Sub(bal, big.NewInt(k)))
	}
	for _, num := range []int64{999999, 99999, 9999, 999, 99, 9} {
		x := new(big.Int).Mul(bal, big.NewInt(num))
		cands = append(cands, x.Div(x, big.NewInt(num+1)))
	}
	for _, amt := range cands {
		if amt.Sign() <= 0 {
			continue
		}
		o := swapOp(sender, false, 1-denomOut, amt, "swap-take-almost-all")
		c, _ := ctx.CacheContext()
		if _, err := r.w.Exec(c, p, o); err == nil {
			r.commit(ctx, p, o)
			r.st.Count("scenario:took-almost-all")
			return
		}
	}
	// nothing succeeded: still record the largest attempt as a (failing) step
	r.commit(ctx, p, swapOp(sender, false, 1-denomOut, new(big.Int).Set(bal), "swap-take-all-fails"))
}

func (r *runner) scenarioEmptyRefill(ctx sdk.Context, thorough bool) error {
	maxOrders := 2
	if thorough {
		maxOrders = 24
	}
	p, err := r.w.CreatePool("urise", "uusdc", "0.003", "1.0001", "0.5")
	if err != nil {
		return err
	}
	// witness of the repaired resetPool defect: the active liquidity stayed behind after the pool was emptied
	r.commit(ctx, p, create(0, -480, 480, bi("1000000"), bi("1000000"), "corpus/first"))
	r.decreaseAll(ctx, p, "corpus/empty")
	r.commit(ctx, p, create(1, -480, 480, bi("1000"), bi("1000"), "corpus/refill"))
	r.commit(ctx, p, swapOp(2, true, 0, bi("500"), "corpus/swap-after-refill"))
	r.commit(ctx, p, swapOp(2, true, 1, bi("700"), "corpus/swap-after-refill"))
	r.commit(ctx, p, create(2, -100, 200, bi("5000"), bi("3000"), "corpus/second-after-refill"))
	r.commit(ctx, p, swapOp(0, false, 1, bi("900"), "corpus/swap-out"))
	r.drainPool(ctx, p, 4, maxOrders, "corpus-refill")
	// empty it for real, refill again with very different amounts, trade, drain
	r.decreaseAll(ctx, p, "corpus/empty-2")
	r.commit(ctx, p, create(0, -900, -500, bi("123456789"), bi("987654321"), "corpus/refill-2-out-of-range-first"))
	r.commit(ctx, p, create(1, -600, 600, bi("7"), bi("3"), "corpus/refill-2"))
	r.commit(ctx, p, swapOp(2, true, 0, bi("1"), "corpus/swap-1"))
	r.commit(ctx, p, swapOp(2, true, 1, bi("1"), "corpus/swap-1"))
	r.drainPool(ctx, p, 4, maxOrders, "corpus-refill-2")
	return nil
}

// extreme first positions: amounts 1e30 : small and small : 1e30 on a pool with a coarse tick grid
func (r *runner) scenarioExtreme(ctx sdk.Context, base, quote string, fee string, maxOrders int) error {
	p, err := r.w.CreatePool("uatom", "uosmo", fee, "1.1", "0.25")
	if err != nil {
		return err
	}
	b, q := bi(base), bi(quote)
	t := tickOf(p, b, q)
	r.commit(ctx, p, create(0, t-60, t+60, b, q, "extreme/first"))
	pool, _, _ := r.w.K.GetPool(ctx, p.ID)
	cur := pool.CurrentTick
	big30, small := b, q
	if q.Cmp(b) > 0 {
		big30, small = q, b
	}
	tenth := new(big.Int).Div(big30, big.NewInt(7))
	// a second provider with overlapping range, a third with a nested one
	r.commit(ctx, p, create(1, cur-20, cur+35, new(big.Int).Div(b, big.NewInt(3)), new(big.Int).Div(q, big.NewInt(3)), "extreme/overlap"))
	r.commit(ctx, p, create(2, cur-3, cur+4, new(big.Int).Div(b, big.NewInt(11)), new(big.Int).Div(q, big.NewInt(11)), "extreme/nested"))
	dBig, dSmall := 0, 1
	if q.Cmp(b) > 0 {
		dBig, dSmall = 1, 0
	}
	// trade the abundant side in and out, and the scarce side unit by unit
	r.commit(ctx, p, swapOp(3, true, dBig, tenth, "extreme/swap-big-in"))
	r.commit(ctx, p, swapOp(3, true, dSmall, new(big.Int).Add(new(big.Int).Div(small, big.NewInt(5)), big.NewInt(1)), "extreme/swap-small-in"))
	r.commit(ctx, p, swapOp(3, false, dSmall, new(big.Int).Div(tenth, big.NewInt(3)), "extreme/swap-big-out"))
	r.commit(ctx, p, swapOp(3, true, dSmall, big.NewInt(1), "extreme/swap-1"))
	r.commit(ctx, p, swapOp(3, false, dBig, big.NewInt(1), "extreme/swap-out-1"))
	r.stranger(ctx, p, 0)
	r.drainPool(ctx, p, 4, maxOrders, "extreme")
	return nil
}

// quote-only liquidity far below a tiny first price, then swaps that walk the price down into it:
// the regime where the base-side formulas divide twice by a sqrt price of 1e-9 .. 1e-13, so that
// one unit in the last place of an intermediate result is worth many whole base units
func (r *runner) scenarioTinyPrice(ctx sdk.Context, base, quote string, fee string, lo1, up1, lo2, up2 int64, drainEach bool) error {
	p, err := r.w.CreatePool("uosmo", "urise", fee, "1.1", "0")
	if err != nil {
		return err
	}
	b, q := bi(base), bi(quote)
	t := tickOf(p, b, q)
	r.commit(ctx, p, create(0, t-lo1, t-up1, b, q, "tiny/first-quote-only"))
	r.commit(ctx, p, create(1, t-lo2, t-up2, b, new(big.Int).Mul(q, big.NewInt(3)), "tiny/second-quote-only"))
	// walk down: sell base in chunks sized from what the pool will accept
	for k := 0; k < 4; k++ {
		amt := new(big.Int).Div(b, big.NewInt(int64(3+2*k)))
		r.commit(ctx, p, swapOp(3, true, 0, amt, "tiny/sell-base"))
		if drainEach {
			r.drainPool(ctx, p, 4, 2, fmt.Sprintf("tiny-after-swap%d", k))
		}
	}
	r.commit(ctx, p, swapOp(3, false, 1, big.NewInt(1), "tiny/buy-base-1"))
	r.commit(ctx, p, swapOp(3, true, 1, big.NewInt(7), "tiny/sell-quote-7"))
	r.commit(ctx, p, swapOp(2, true, 0, new(big.Int).Div(b, big.NewInt(1000)), "tiny/sell-base-small"))
	r.stranger(ctx, p, 5)
	r.drainPool(ctx, p, 4, 6, "tiny")
	return nil
}

// minimal witness of finding C02-F1 (half-even intermediates in CalcAmountBaseDelta): one
// quote-only position below a first price of 1e-18, two swaps selling base into it, and the only
// liquidity provider cannot withdraw: the pool account is one unit short.
func (r *runner) scenarioF1(ctx sdk.Context) error {
	p, err := r.w.CreatePool("uosmo", "urise", "0.003", "1.1", "0")
	if err != nil {
		return err
	}
	b := bi("1000000000000000000000")
	t := tickOf(p, b, big.NewInt(1000))
	r.commit(ctx, p, create(0, t-40, t-5, b, big.NewInt(1000), "F1/first-quote-only"))
	r.commit(ctx, p, swapOp(3, true, 0, new(big.Int).Div(b, big.NewInt(3)), "F1/sell-base"))
	r.commit(ctx, p, swapOp(3, true, 0, new(big.Int).Div(b, big.NewInt(4)), "F1/sell-base"))
	r.drainPool(ctx, p, 4, 1, "F1")
	return nil
}

// ---------- positions that share exactly one bound with a live position ----------

// sharedOneBound returns the positions of p that can be closed such that exactly one of their two
// boundary ticks stays in use by another open position (the other one becomes empty): the case in
// which DecreaseLiquidity has to remove one tick record and keep the other.
func (r *runner) sharedOneBound(ctx sdk.Context, p amm.PoolInfo) []lptypes.Position {
	poss := r.w.C02Positions(ctx, p)
	var out []lptypes.Position
	for i, q := range poss {
		lo, up := false, false
		for j, o := range poss {
			if i == j {
				continue
			}
			if o.LowerTick == q.LowerTick || o.UpperTick == q.LowerTick {
				lo = true
			}
			if o.LowerTick == q.UpperTick || o.UpperTick == q.UpperTick {
				up = true
			}
		}
		if lo != up {
			out = append(out, q)
		}
	}
	return out
}

// closeSharedBound: if some position shares exactly one bound, close it completely (committed) and
// trade across the shared tick in both directions (sizes from what the pool holds).
func (r *runner) closeSharedBound(ctx sdk.Context, p amm.PoolInfo) bool {
	cands := r.sharedOneBound(ctx, p)
	if len(cands) == 0 {
		return false
	}
	q := cands[r.w.R.Intn(len(cands))]
	r.commit(ctx, p, amm.Op{Kind: "decrease", Sender: r.ownerIndex(q.Address), Pid: q.Id, Liq: amm.C02Raw(q.Liquidity), Tag: "close-shared-bound"})
	r.st.Count("closed-position-sharing-one-bound")
	r.st.Nontriv(fmt.Sprintf("shared-bound/%d/%d/%d", p.ID, q.LowerTick, q.UpperTick))
	for d := 0; d < 2; d++ {
		bal := r.w.H.Bal(ctx, lptypes.NewPoolAddress(p.ID), p.Denoms[d]).BigInt()
		amt := new(big.Int).Div(bal, big.NewInt(int64(2+r.w.R.Intn(3))))
		if amt.Sign() > 0 {
			r.commit(ctx, p, swapOp(3, false, 1-d, amt, "swap-after-close-shared-bound"))
		}
	}
	return true
}

// adjacent and nested positions with one common bound around a wide one; a position whose lower bound
// is shared is closed and the price is driven up over that tick, then one whose upper bound is shared
// and the price is driven down over it; the remaining providers exit in every order
func (r *runner) scenarioSharedBound(ctx sdk.Context, maxOrders int) error {
	p, err := r.w.CreatePool("uatom", "uusdc", "0.003", "1.0001", "0")
	if err != nil {
		return err
	}
	r.commit(ctx, p, create(0, -300, 300, bi("10000000"), bi("10000000"), "shared/wide"))
	r.commit(ctx, p, create(1, -50, 50, bi("4000000"), bi("4000000"), "shared/A"))
	r.commit(ctx, p, create(2, 50, 150, bi("3000000"), bi("0"), "shared/B-adjacent-above-A"))
	r.commit(ctx, p, create(2, -120, -50, bi("0"), bi("3000000"), "shared/D-adjacent-below-A"))
	r.commit(ctx, p, create(1, -50, 20, bi("500000"), bi("700000"), "shared/C-nested-common-lower"))
	closeTag := func(tag string, lo, up int64) {
		for _, q := range r.w.C02Positions(ctx, p) {
			if q.LowerTick == lo && q.UpperTick == up {
				r.commit(ctx, p, amm.Op{Kind: "decrease", Sender: r.ownerIndex(q.Address), Pid: q.Id, Liq: amm.C02Raw(q.Liquidity), Tag: tag})
				r.st.Count("closed-position-sharing-one-bound")
				r.st.Nontriv(fmt.Sprintf("shared-bound/%d/%d/%d", p.ID, lo, up))
			}
		}
	}
	closeTag("shared/close-B-lower-still-used", 50, 150) // tick 150 empties, tick 50 must stay
	r.commit(ctx, p, swapOp(3, true, 1, bi("9000000"), "shared/swap-up-across-50"))
	closeTag("shared/close-D-upper-still-used", -120, -50) // tick -120 empties, tick -50 must stay
	r.commit(ctx, p, swapOp(3, true, 0, bi("20000000"), "shared/swap-down-across-50-and-minus-50"))
	r.commit(ctx, p, swapOp(3, true, 1, bi("6000000"), "shared/swap-back-up"))
	r.drainPool(ctx, p, 4, maxOrders, "shared")
	return nil
}

// adjacent ranges, then take (almost) everything the pool holds on one side, then drain
func (r *runner) scenarioExhaust(ctx sdk.Context, maxOrders int) error {
	p, err := r.w.CreatePool("uusdc", "uatom", "0.01", "1.001", "0")
	if err != nil {
		return err
	}
	r.commit(ctx, p, create(0, -400, 400, bi("50000000"), bi("50000000"), "exhaust/first"))
	r.commit(ctx, p, create(1, 400, 900, bi("30000000"), bi("0"), "exhaust/adjacent-above"))
	r.commit(ctx, p, create(2, -900, -400, bi("0"), bi("20000000"), "exhaust/adjacent-below"))
	r.commit(ctx, p, create(1, -100, 100, bi("999"), bi("1001"), "exhaust/nested"))
	r.takeAlmostAll(ctx, p, 3, 0) // buy all the base: price runs up through the adjacent range
	r.stranger(ctx, p, 2)
	r.drainPool(ctx, p, 4, maxOrders, "exhaust-base")
	r.takeAlmostAll(ctx, p, 3, 1) // then all the quote: price runs all the way down
	r.drainPool(ctx, p, 4, maxOrders, "exhaust-quote")
	return nil
}

// ---------- the run ----------

func Run(seed int64, n int, outDir string) error {
	w := amm.NewWorld(seed)
	defer w.H.Close()
	if os.Getenv("C02_EXPLORE") == "owner" {
		probeOwner(w)
	} else if os.Getenv("C02_EXPLORE") != "" {
		explore(w)
	}
	r := &runner{w: w, hist: map[uint64]*poolHist{}, budget: n, maxDust: big.NewInt(0)}
	r.st = emit.NewStats("C02", seed, rule)
	r.cf = &emit.CasesFile{Import: "Amm.C02Check", Runner: "run", Type: "c02_case"}
	ctx := w.H.Ctx()

	// corpus first: the refill witness and the minimal witness of finding C02-F1 always; the three
	// directed families all in thorough, one per seed (rotating) in quick
	thorough := n >= 600
	if err := r.scenarioEmptyRefill(ctx, thorough); err != nil {
		return err
	}
	if err := r.scenarioF1(ctx); err != nil {
		return err
	}
	sharedOrders := 3
	if thorough {
		sharedOrders = 6
	}
	if err := r.scenarioSharedBound(ctx, sharedOrders); err != nil {
		return err
	}
	for _, down := range []bool{true, false} {
		if err := r.scenarioCrossedTick(ctx, down, 2); err != nil {
			return err
		}
	}
	if err := r.scenarioExactOut(ctx, 2); err != nil {
		return err
	}
	if err := r.scenarioBoundary(ctx, 2); err != nil {
		return err
	}
	spellOrders := 2
	if thorough {
		spellOrders = 6
	}
	if err := r.scenarioSpelling(ctx, spellOrders); err != nil {
		return err
	}
	poorOrders := 2
	if thorough {
		poorOrders = 6
	}
	if err := r.scenarioPoor(ctx, poorOrders, thorough); err != nil {
		return err
	}
	if err := r.scenarioDeepIncentive(ctx, poorOrders); err != nil {
		return err
	}
	extremes := [][3]string{
		{"1000000000000000000000000000000", "1000", "0.05"},
		{"1000", "1000000000000000000000000000000", "0.003"},
		{"1000000000000000000000000000000", "1", "0"},
		{"3", "999999999999999999999999999999", "0.3"},
	}
	tiny := [][3]string{
		{"1000000000000000000000000000", "1000", "0.003"},
		{"1000000000000000000000000000000", "1000000", "0.0001"},
		{"100000000000000000000000", "100000", "0.01"},
		{"1000000000000000000000000000000", "10", "0.05"},
	}
	if thorough {
		for _, e := range extremes {
			if err := r.scenarioExtreme(ctx, e[0], e[1], e[2], 6); err != nil {
				return err
			}
		}
		for _, e := range tiny {
			if err := r.scenarioTinyPrice(ctx, e[0], e[1], e[2], 40, 5, 20, 10, true); err != nil {
				return err
			}
		}
		if err := r.scenarioExhaust(ctx, 5); err != nil {
			return err
		}
	} else {
		var err error
		k := int(uint64(seed) / 3 % 4)
		switch uint64(seed) % 3 {
		case 0:
			err = r.scenarioExtreme(ctx, extremes[k][0], extremes[k][1], extremes[k][2], 3)
		case 1:
			err = r.scenarioTinyPrice(ctx, tiny[k][0], tiny[k][1], tiny[k][2], 40, 5, 20, 10, false)
		default:
			err = r.scenarioExhaust(ctx, 2)
		}
		if err != nil {
			return err
		}
	}
	nCorpusPools := len(w.Pools)

	// generated histories on fresh pools
	nGen := 3
	if n >= 600 {
		nGen = 5
	}
	if err := w.SetupPools(nGen); err != nil {
		return err
	}
	gen := w.Pools[nCorpusPools:]
	// keep roughly 45% of the remaining budget for the final drains
	steps := r.budget * 55 / 100
	for i := 0; i < steps; i++ {
		p := gen[w.R.Intn(len(gen))]
		switch {
		case w.R.Chance(1, 7):
			r.stranger(ctx, p, w.R.Intn(6))
		case w.R.Chance(1, 14) && len(w.C02Positions(ctx, p)) > 0:
			// amounts over the whole range 1 .. 1e30 around the current tick
			pool, _, _ := w.K.GetPool(ctx, p.ID)
			a, b := int64(1+w.R.Intn(int(p.C02Span()))), int64(1+w.R.Intn(int(p.C02Span())))
			r.commit(ctx, p, create(w.R.Intn(3), pool.CurrentTick-a, pool.CurrentTick+b, w.R.LogUniform(30), w.R.LogUniform(30), "create-1-to-1e30"))
		case w.R.Chance(1, 8) && len(w.C02Positions(ctx, p)) > 0 && r.poorGenerated(ctx, p):
			// done: a generated create / increase / swap by a sender who holds exactly, or not quite, what it needs
		case w.R.Chance(1, 8):
			// a generated message whose sender spells his address in upper case
			o := w.GenOp(ctx, p)
			if spellable(o.Kind) {
				r.commitSpelled(ctx, p, o, "upper")
				r.rejectsMixedCase(ctx, p, o)
			} else {
				r.commit(ctx, p, o)
			}
		case w.R.Chance(1, 9) && r.crossingExactOut(ctx, p):
			// done: exact-out swap across a bound of a position, then its owner claimed
		case w.R.Chance(1, 9) && r.boundaryGenerated(ctx, p):
			// done: price parked next to a bound of a position, then that position acted on
		case w.R.Chance(1, 10) && r.closeSharedBound(ctx, p):
			// done: closed a position sharing exactly one bound and traded across the shared tick
		case w.R.Chance(1, 9) && len(w.C02Positions(ctx, p)) > 0 && len(r.sharedOneBound(ctx, p)) == 0:
			// make one: a position adjacent to (or with one bound in common with) an existing one
			poss := w.C02Positions(ctx, p)
			q := poss[w.R.Intn(len(poss))]
			b := int64(1 + w.R.Intn(int(p.C02Span())))
			lo, up, tag := q.UpperTick, q.UpperTick+b, "adjacent-above"
			switch w.R.Intn(4) {
			case 1:
				lo, up, tag = q.LowerTick-b, q.LowerTick, "adjacent-below"
			case 2:
				lo, up, tag = q.LowerTick, q.LowerTick+(q.UpperTick-q.LowerTick+1)/2, "common-lower"
			case 3:
				lo, up, tag = q.UpperTick-(q.UpperTick-q.LowerTick+1)/2, q.UpperTick, "common-upper"
			}
			r.commit(ctx, p, create(w.R.Intn(3), lo, up, w.R.LogUniform(20), w.R.LogUniform(20), "one-common-bound/"+tag))
		case w.R.Chance(1, 40) && len(w.C02Positions(ctx, p)) > 0:
			r.takeAlmostAll(ctx, p, 3, w.R.Intn(2))
		case w.R.Chance(1, 45) && len(w.C02Positions(ctx, p)) > 0:
			// everybody leaves mid-history; the pool is refilled by the next generated create
			r.decreaseAll(ctx, p, "everybody-leaves")
		default:
			r.commit(ctx, p, w.GenOp(ctx, p))
		}
		if w.R.Chance(1, 25) {
			if _, err := w.H.NextBlock(1e9); err != nil {
				return fmt.Errorf("block failed: %w", err)
			}
			ctx = w.H.Ctx()
		}
	}
	// final drains of the generated pools
	maxAll, maxOrders := 3, 6
	if n >= 600 {
		maxAll, maxOrders = 4, 24
	}
	r.drainSpelling = "upper"
	for _, p := range gen {
		r.drainPool(ctx, p, maxAll, maxOrders, "final")
	}
	r.drainSpelling = ""
	for _, p := range w.Pools {
		h := r.ph(p)
		if h.refills > 0 {
			r.st.Count("pools-emptied-and-refilled")
		}
	}
	r.st.Extra["max_dust_units_after_complete_drain"] = r.maxDust.String()
	r.st.Extra["max_dust_per_operation"] = r.maxDustRatio
	r.st.Extra["dust_samples"] = r.dustSamples
	r.st.Extra["failed_drains"] = r.failedDrains
	if _, err := r.cf.Write(outDir, "cases", 11); err != nil {
		return err
	}
	return r.st.Write(outDir)
}
