(* C09: the two Go map iterations of the tally body (`range shardProofCount`,
   `range faultValidators`) visit their keys in an unspecified order.  The model fixes one
   order (insertion order).  This file proves that no observable result depends on it. *)
From Coq Require Import ZArith List Bool Lia ZifyBool Permutation.
Import ListNotations.
From Sunrise Require Import Base.Outcome Base.Dec Da.Tally Da.TallyProofs.
Local Open Scope Z_scope.
Local Open Scope res_scope.

(* the item tally with the iteration order of shardProofCount given explicitly *)
Definition tally_item_ord (g : bool) (rf : Z) (active : list Z) (fs0 : list Z) (it : item)
  (cnt sub : list (Z * Z)) : option item_res :=
  let? _ := zkp_threshold rf (it_n it) (Z.of_nat (length active)) in
  let? (safe, fs) := fold_left (safe_step rf it active sub) cnt (Some ([], fs0)) in
  if Z.of_nat (length safe) + it_parity it <? it_n it then
    if negb g && (0 <? it_ncoins it) && (it_ninv it =? 0) then None
    else Some {| ir_verdict := Rejected; ir_safe := safe; ir_faults := fs |}
  else Some {| ir_verdict := Verified; ir_safe := safe; ir_faults := fs |}.

Lemma tally_item_is_ord d g rf active fs0 it :
  tally_item d g rf active fs0 it =
  tally_item_ord g rf active fs0 it (fst (count_proofs d (it_proofs it))) (snd (count_proofs d (it_proofs it))).
Proof. unfold tally_item, tally_item_ord. destruct (count_proofs d (it_proofs it)). reflexivity. Qed.

Lemma Permutation_filter_Z2 (f : Z * Z -> bool) a b : Permutation a b -> Permutation (filter f a) (filter f b).
Proof.
  induction 1; simpl.
  - constructor.
  - destruct (f x); [constructor|]; assumption.
  - destruct (f x), (f y); try apply perm_swap; try (constructor; apply Permutation_refl); apply Permutation_refl.
  - eapply Permutation_trans; eassumption.
Qed.

Lemma safe_fold_perm rf it active sub cnt cnt' fs0 safe fs :
  Permutation cnt cnt' ->
  fold_left (safe_step rf it active sub) cnt (Some ([], fs0)) = Some (safe, fs) ->
  exists safe' fs',
    fold_left (safe_step rf it active sub) cnt' (Some ([], fs0)) = Some (safe', fs') /\
    Permutation safe safe' /\ (forall v, In v fs <-> In v fs') /\ (NoDup fs0 -> NoDup fs /\ NoDup fs').
Proof.
  intros Hp H. destruct (it_n it <? it_parity it) eqn:Hskip.
  - rewrite (safe_fold_skip rf it active sub Hskip) in H. inversion H; subst.
    exists [], fs. rewrite (safe_fold_skip rf it active sub Hskip).
    split; [reflexivity|]. split; [constructor|]. split; [intuition|auto].
  - destruct (safe_thr rf (it_n it) (it_parity it)) as [t|] eqn:Ht.
    + destruct (safe_fold rf it active sub t Hskip Ht cnt [] fs0) as [f1 (H1 & Hm1 & Hn1)].
      destruct (safe_fold rf it active sub t Hskip Ht cnt' [] fs0) as [f2 (H2 & Hm2 & Hn2)].
      rewrite H1 in H. inversion H; subst. simpl.
      eexists. exists f2. split; [exact H2|]. simpl. split; [|split].
      * apply Permutation_map. apply Permutation_filter_Z2. exact Hp.
      * intros v. rewrite Hm1, Hm2. split; intros [Hx|[e [He Hf]]]; auto; right; exists e; split; auto.
        -- apply (Permutation_in _ Hp He).
        -- apply (Permutation_in _ (Permutation_sym Hp) He).
      * intros Hd. split; auto.
    + destruct cnt as [|e tl].
      * apply Permutation_nil in Hp. subst cnt'. simpl in *. inversion H; subst.
        exists [], fs. split; [reflexivity|]. split; [constructor|]. split; [intuition|auto].
      * rewrite (safe_fold_none rf it active sub Hskip Ht (e :: tl)) in H; [discriminate|discriminate].
Qed.

(* `for index, proofCount := range shardProofCount`: any visiting order gives the same
   verdict, the same set of safe shards and the same set of validators at fault *)
Theorem map_order_irrelevant g rf active fs0 it cnt cnt' sub r :
  Permutation cnt cnt' ->
  tally_item_ord g rf active fs0 it cnt sub = Some r ->
  exists r', tally_item_ord g rf active fs0 it cnt' sub = Some r' /\
    ir_verdict r' = ir_verdict r /\ Permutation (ir_safe r) (ir_safe r') /\
    (forall v, In v (ir_faults r) <-> In v (ir_faults r')) /\
    (NoDup fs0 -> NoDup (ir_faults r) /\ NoDup (ir_faults r')).
Proof.
  unfold tally_item_ord. intros Hp H.
  destruct (zkp_threshold rf (it_n it) (Z.of_nat (length active))); simpl in *; [|discriminate].
  destruct (fold_left (safe_step rf it active sub) cnt (Some ([], fs0))) as [[safe fs]|] eqn:E; simpl in H; [|discriminate].
  destruct (safe_fold_perm _ _ _ _ _ _ _ _ _ Hp E) as [safe' [fs' (E' & Hps & Hm & Hn)]].
  rewrite E'. simpl. rewrite <- (Permutation_length Hps).
  destruct (Z.of_nat (length safe) + it_parity it <? it_n it).
  - destruct (negb g && (0 <? it_ncoins it) && (it_ninv it =? 0)); [discriminate|].
    inversion H; subst. eexists. split; [reflexivity|]. simpl. auto.
  - inversion H; subst. eexists. split; [reflexivity|]. simpl. auto.
Qed.

(* `for _, valAddr := range faultValidators`: the counters after the updates do not depend
   on the visiting order, nor on how the set is listed *)
Theorem counter_update_order_irrelevant l l' f :
  NoDup l -> NoDup l' -> (forall v, In v l <-> In v l') ->
  forall x, fold_left bump l f x = fold_left bump l' f x.
Proof.
  intros Hd Hd' Hs x. rewrite !bump_fold_nodup by assumption.
  destruct (memz x l) eqn:E, (memz x l') eqn:E'; try reflexivity.
  - apply memz_In in E. apply Hs in E. apply memz_false in E'. contradiction.
  - apply memz_In in E'. apply Hs in E'. apply memz_false in E. contradiction.
Qed.
