(* C01: the custom block hooks composed in the order of /repo app/app_config.go and app/app.go.

     PreBlocker   app/abci_proposal.go ProposalHandler.PreBlocker            -> pre_block
                  (after the SDK pre-blockers: upgrade - oracle)
     BeginBlock   mint (x/mint BeginBlocker calls MintFn with epoch id "block": returns nil)
                  liquidityincentive  keeper/abci.go BeginBlocker            -> Gauge.begin_block
                  distribution, protocolpool, slashing, evidence, staking, authz - SDK (oracles)
                  epochs: the "minute" epoch hook calls MintFn               -> Mint.mint_fn
                  ibc ..., da, tokenconverter, liquiditypool, swap, fee, selfdelegation,
                  shareclass: BeginBlock returns nil (module.go)
     EndBlock     gov - SDK end blocker; app/gov/gov.go's tally function is provided but not installed
                        in the gov keeper (known finding C16): modelled by GovTally.tally, not composed
                  staking, feegrant, group, protocolpool, ibc ... - SDK (oracles)
                  da                 keeper/abci.go EndBlocker               -> da_end
                  tokenconverter, liquiditypool: nil
                  liquidityincentive keeper/abci.go EndBlocker               -> Gauge.end_block
                  swap, fee, selfdelegation: nil
                  shareclass         keeper/abci.go EndBlocker               -> sc_end
   Each hook is the function of the module model of the property that owns it (C13 mint, C17
   gauges, C07/C09 DA, C10 share class); here they are only put in sequence on the projections of
   the state each of them reads.  A hook returning [Err] or [Panic] aborts the block
   (FinalizeBlock returns the error / the panic propagates: the chain halts).
   No proofs here. *)
From Coq Require Import ZArith Bool List.
Import ListNotations.
From Sunrise Require Import Base.Outcome Base.Dec Base.Bank Econ.Mint Stake.TallyCore.
From Sunrise Require Stake.Gauge Stake.ShareClass Da.Da Da.Tally.
Local Open Scope Z_scope.
Local Open Scope res_scope.

(* ------------------------------------------------------------------ PreBlocker *)
(* one entry of req.Txs: is it the 8 bytes "METADATA", and what MetadataUriWrapper.Unmarshal
   makes of it: None = does not unmarshal or empty uri (both logged, skipped), Some u = uri u *)
Record rawtx := { rt_splitter : bool; rt_uri : option Z }.
(* the part of a published-data record the pre-blocker touches *)
Record pd := { pd_uri : Z; pd_verified_height : Z }.

Fixpoint after_splitter (txs : list rawtx) : option (list rawtx) :=
  match txs with
  | [] => None
  | t :: tl => if rt_splitter t then Some tl else after_splitter tl
  end.
Fixpoint set_height (u h : Z) (s : list pd) : list pd :=
  match s with
  | [] => []                       (* not found: continue *)
  | x :: tl => if pd_uri x =? u then {| pd_uri := u; pd_verified_height := h |} :: tl
               else x :: set_height u h tl
  end.
Definition pre_block (txs : list rawtx) (height : Z) (s : list pd) : res (list pd) :=
  match after_splitter txs with
  | None => Ok s
  | Some entries =>
      Ok (fold_left (fun s e => match rt_uri e with None => s | Some u => set_height u height s end) entries s)
  end.

(* ------------------------------------------------------------------ PrepareProposal *)
(* app/abci_proposal.go PrepareProposal.  Sizes are what CometBFT charges an entry against
   MaxTxBytes (types.ComputeProtoSizeForTxs); CometBFT refuses a proposal whose entries add up
   to more (state/execution.go CreateProposalBlock: Txs.Validate) and the proposer then proposes
   nothing.  [sel m] = sizes of the entries the SDK's default handler returns for the budget m
   (oracle; its contract: their sum is <= m).  [split] = size of the METADATA splitter,
   [entries] = sizes of the marshalled uris of the verified items, in store order.
   [repaired] = notes/patches/C01-prepare-proposal-max-tx-bytes.patch: the section is built first,
   within half of the budget, the default handler gets the rest. *)
Definition zsumL (l : list Z) : Z := fold_right Z.add 0 l.
Fixpoint take_fitting (budget used : Z) (entries : list Z) : list Z :=
  match entries with
  | [] => []
  | e :: tl => if budget <? used + e then [] else e :: take_fitting budget (used + e) tl
  end.
Definition metadata_section (max split : Z) (entries : list Z) : list Z :=
  match take_fitting (max / 2) split entries with
  | [] => []                 (* no verified item, or not even one entry fits: no section *)
  | l => split :: l
  end.
Definition prepare_proposal (repaired : bool) (sel : Z -> list Z) (max split : Z) (entries : list Z) : list Z :=
  if repaired then let m := metadata_section max split entries in sel (max - zsumL m) ++ m
  else sel max ++ (match entries with [] => [] | _ => split :: entries end).

(* ------------------------------------------------------------------ DA end blocker *)
(* the tally verdict as the code computes it (Da.code_verdict); outside the shapes a stored item
   can have (1 <= shards, parity and shards below 2^63) the model does not follow the code *)
Definition N_MAX : Z := 2 ^ 63.
Definition da_verdict (rf : Z) : Da.verdict := fun x pi =>
  if (1 <=? Da.i_n x) && (Da.i_n x <=? N_MAX) && (0 <=? Da.i_parity x) && (Da.i_parity x <=? N_MAX)
  then Da.code_verdict Da.repaired rf x pi else Some [].

(* GetZkpThreshold at /repo HEAD (commit 9a90e6f, notes/patches/C01-da-replication-factor.patch):
   no active validator -> error (logged by the caller); the quotient is compared with the shard
   count as a decimal before it is truncated to an int64.  Equal to C09's Tally.zkp_threshold
   whenever there is an active validator (BlocksProofs.zkp_threshold_c_is_tally);
   Tally.zkp_threshold_old is the formula as found. *)
Definition zkp_threshold_c (rf n nact : Z) : res Z :=
  if nact =? 0 then Err 1 else
  match (let? a := dmul_int rf n in let? b := dquo_int a nact in dceil b) with
  | None => Panic
  | Some c => if c <? n * P then Ok (Z.max (dtrunc_int c) 1) else Ok n
  end.

Record da_in := {
  di_state : Da.dstate; di_bank : bank;
  di_nact : Z;          (* bonded validators (ValidatorsPowerStoreIterator + IsBonded) *)
  di_sft : Z;           (* slash_fault_threshold, raw dec *)
  di_sfr : option Z;    (* slash_fraction as LegacyNewDecFromStr parses the stored string; None = it does
                           not parse: HandleSlashEpoch's LegacyMustNewDecFromStr panics *)
  di_cc : Z;            (* challenge counter *)
  di_slash_epoch : Z    (* params.SlashEpoch *)
}.
(* [clamped] = with the repair of GetZkpThreshold *)
Definition da_threshold_ok (clamped : bool) (rf n nact : Z) : bool :=
  if clamped then negb (is_panic (zkp_threshold_c rf n nact))
  else match Tally.zkp_threshold_old rf n nact with Some _ => true | None => false end.

Definition with_pp (s : Da.dstate) (pp : Z) : Da.dstate :=
  let p := Da.s_prm s in
  Da.St (Da.Pm (Da.pr_thr p) (Da.pr_rf p) (Da.pr_cp p) pp (Da.pr_rej p) (Da.pr_ver p) (Da.pr_pc p) (Da.pr_ic p))
        (Da.s_items s) (Da.s_invs s) (Da.s_prfs s) (Da.s_deps s).

Definition da_end (clamped : bool) (height now : Z) (i : da_in) : res (Da.dstate * bank) :=
  let s := di_state i in
  let p := Da.s_prm s in
  (* GetZkpThreshold is evaluated for every item the tally visits *)
  if negb (forallb (fun it => negb (Da.due Da.repaired Da.ST_CH (Da.pr_pp p) now it)
                              || da_threshold_ok clamped (Da.pr_rf p) (Da.i_n it) (di_nact i))
                   (Da.s_items s))
  then
    (* the item moved to CHALLENGING in phase 3 of this very block has timestamp now and
       pp > 0: it is never due in the same block, so the pre-state items decide *)
    Panic
  else
  (* no bonded validator: GetZkpThreshold returns an error for every due item, the tally logs it
     and leaves the item CHALLENGING (it is retried at every block).  Modelled by running the end
     blocker with a proof period nothing can have outlived ([ts >= 0], so ts + now + 1 > now) and
     putting the real one back. *)
  let stuck := di_nact i =? 0 in
  let s_run := if stuck then with_pp s (now + 1) else s in
  let! r0 := Da.end_block Da.repaired (da_verdict (Da.pr_rf p)) now s_run (di_bank i) in
  let r := if stuck then (with_pp (fst r0) (Da.pr_pp p), snd r0) else r0 in
  (* height % SlashEpoch == 0 -> HandleSlashEpoch: threshold = ceil(sft * challenges).Uint64() *)
  if di_slash_epoch i =? 0 then Panic
  else if (height mod di_slash_epoch i =? 0) then
    match di_sfr i with
    | None => Panic
    | Some _ => match Tally.slash_threshold (di_sft i) (di_cc i) with Some _ => Ok r | None => Panic end
    end
  else Ok r.

(* ------------------------------------------------------------------ share-class end blocker *)
(* HandleModuleAccountRewards logs and swallows the per-validator errors; GarbageCollectUnbonded
   (ShareClass.gc, with the repair "entries completing later in this second are skipped")
   returns the first withdrawal error: the module account must hold the recorded amount of
   every entry that completes now *)
Record sc_in := {
  sc_queue : list ShareClass.unb;   (* in completion-time index order *)
  sc_mod_bond : Z;                  (* bond-denom balance of the module account before the block *)
  sc_released : Z;                  (* paid by x/staking's end blocker for the entries it completed *)
  sc_staking_times : list Z;        (* ghost: exact completion times (ns) of the module account's x/staking
                                       unbonding-delegation entries, all validators *)
  sc_slash_loss : Z;                (* ghost: initial balance - balance, summed over those x/staking entries that
                                       are mature at the block time: what slashes took from the entries that
                                       x/staking completes in this block *)
  sc_blocked : list Z               (* ids of the entries whose recipient the bank refuses to pay
                                       (BlockedAddr: module accounts); none since the handler rejects
                                       such recipients (notes/patches/C01-shareclass-reject-blocked-recipient.patch) *)
}.
(* does the end blocker visit this entry at [now]? *)
Definition sc_pays (now : Z) (e : ShareClass.unb) : bool :=
  negb (ShareClass.unix now <? ShareClass.unix (ShareClass.u_time e)) && negb (now <? ShareClass.u_time e).
Definition E_BLOCKED : Z := 4.      (* sdkerrors.ErrUnauthorized: "... is not allowed to receive funds" *)
Definition sc_end (now : Z) (i : sc_in) : res (list ShareClass.unb) :=
  (* SendCoinsFromModuleToAccount to a blocked address fails: the end blocker returns the error *)
  if existsb (fun e => sc_pays now e && existsb (Z.eqb (ShareClass.u_id e)) (sc_blocked i)) (sc_queue i)
  then Err E_BLOCKED else
  match ShareClass.gc true now (sc_queue i) (fun _ _ => 0)
          (fun d => if d =? ShareClass.BOND then sc_mod_bond i + sc_released i else 0) with
  | Ok (q, _, _) => Ok q
  | Err e => Err e
  | Panic => Panic
  end.
(* amounts of the entries the end blocker pays at [now] *)
Fixpoint sc_due (now : Z) (q : list ShareClass.unb) : Z :=
  match q with
  | [] => 0
  | e :: tl =>
      if ShareClass.unix now <? ShareClass.unix (ShareClass.u_time e) then 0
      else if now <? ShareClass.u_time e then sc_due now tl
      else ShareClass.u_amt e + sc_due now tl
  end.

(* ------------------------------------------------------------------ one block *)
Record block_in := {
  b_height : Z; b_now : Z;                        (* block time, ns *)
  (* pre-blocker *)
  b_txs : list rawtx; b_pds : list pd;
  (* liquidityincentive begin blocker *)
  b_li_balance : Z;                               (* bond-denom balance of the fee collector *)
  b_li : Gauge.istate;                            (* epochs and gauges *)
  b_pool_status : Z -> Gauge.pool_status;
  (* epochs hook -> MintFn("minute") when the minute epoch starts in this block *)
  b_mint : option mint_in;
  (* DA end blocker *)
  b_da : da_in;
  (* liquidityincentive end blocker: EpochBlocks and the staking graph Tally reads *)
  b_epoch_blocks : Z;
  b_vals : list val; b_ballots : list ballot; b_bonded : Z;
  (* share-class end blocker *)
  b_sc : sc_in
}.

Record block_out := {
  o_pds : list pd;
  o_alloc : list Z * Z;            (* per gauge of the last epoch, and what the fee collector keeps *)
  o_mint : option mint_out;
  o_da : Da.dstate * bank;
  o_li : Gauge.istate;
  o_sc : list ShareClass.unb
}.

Definition li_begin (b : block_in) : res (list Z * Z) :=
  of_opt (Gauge.begin_block (b_li_balance b) (Gauge.last_epoch (Gauge.s_epochs (b_li b))) (b_pool_status b)).
Definition mint_hook (b : block_in) : res (option mint_out) :=
  match b_mint b with
  | None => Ok None
  | Some i => match mint_fn i with Some o => Ok (Some o) | None => Panic end
  end.
Definition li_end (b : block_in) : res Gauge.istate :=
  Gauge.end_block (b_li b) (b_height b) (b_epoch_blocks b)
    (of_opt (Gauge.gauge_tally (b_vals b) (b_ballots b) (b_bonded b))).

(* [clamped]: GetZkpThreshold with the repair *)
Definition run_block (clamped : bool) (b : block_in) : res block_out :=
  let! pds := pre_block (b_txs b) (b_height b) (b_pds b) in
  let! alloc := li_begin b in
  let! minted := mint_hook b in
  let! da := da_end clamped (b_height b) (b_now b) (b_da b) in
  let! li := li_end b in
  let! sc := sc_end (b_now b) (b_sc b) in
  Ok {| o_pds := pds; o_alloc := alloc; o_mint := minted; o_da := da; o_li := li; o_sc := sc |}.

(* ------------------------------------------------------------------ parameter validation *)
(* x/da Params.Validate (the numeric part) after the repair: 0 <= threshold <= 1,
   0 < replication factor <= 2^32, slash epoch > 0, 0 <= slash fault threshold <= 1,
   periods > 0.  [da_params_ok_found]: without the upper bound on the replication factor *)
Definition RF_MAX : Z := 2 ^ 32 * P.
Definition da_params_ok_found (p : Da.params) (sft slash_epoch : Z) : bool :=
  (0 <=? Da.pr_thr p) && (Da.pr_thr p <=? P) && (0 <? Da.pr_rf p) && (Z.abs (Da.pr_rf p) <=? DEC_LIM) &&
  (0 <? slash_epoch) && (0 <=? sft) && (sft <=? P) &&
  (0 <? Da.pr_cp p) && (0 <? Da.pr_pp p) && (0 <? Da.pr_rej p) && (0 <? Da.pr_ver p).
Definition da_params_ok (p : Da.params) (sft slash_epoch : Z) : bool :=
  da_params_ok_found p sft slash_epoch && (Da.pr_rf p <=? RF_MAX).
(* one field of a custom module's Params as its Validate treats it: [v] = the value as the real
   parser reads the offered string / number (None = does not parse).
   kind 1: fraction in [0,1] (da challenge_threshold, slash_fault_threshold, slash_fraction;
           liquidityincentive staking_reward_ratio; liquiditypool withdraw_fee_rate,
           swap_treasury_tax_rate; fee burn_ratio)
   kind 2: fraction in [0,1) (swap interface_fee_rate)
   kind 3: positive integer / duration (da slash_epoch and the four periods; liquidityincentive
           epoch_blocks; shareclass reward_period)
   kind 4: da replication_factor: 0 < x <= 2^32 *)
Definition field_ok (kind : Z) (v : option Z) : bool :=
  match v with
  | None => false
  | Some x =>
      if kind =? 1 then (0 <=? x) && (x <=? P)
      else if kind =? 2 then (0 <=? x) && (x <? P)
      else if kind =? 3 then 0 <? x
      else if kind =? 4 then (0 <? x) && (x <=? RF_MAX)
      else false
  end.
(* x/liquidityincentive Params.Validate: epoch blocks > 0, 0 <= staking reward ratio <= 1 *)
Definition li_params_ok (epoch_blocks ratio : Z) : bool :=
  (0 <? epoch_blocks) && (0 <=? ratio) && (ratio <=? P).
