(* C14: the shape of one statically enumerated site (emitted by harness/trans/sites into
   Gen/Sites_gen.v).  No proofs here. *)
From Coq Require Import ZArith String List Bool.
Import ListNotations.
Local Open Scope Z_scope.

Inductive kind :=
| KMapRange    (* `for k, v := range m` with m of map type *)
| KMapIter     (* maps.Keys / maps.Values / reflect MapKeys / sync.Map.Range *)
| KRangeFunc   (* range over a function iterator *)
| KTime        (* time.Now / Since / Until / After / Sleep / timers *)
| KRand        (* any use of math/rand, math/rand/v2, crypto/rand *)
| KGo          (* go statement, runtime scheduling queries *)
| KSelect      (* select, channel send / receive / range over channel *)
| KFloat       (* float32 / float64 / complex typed expression *)
| KPointer     (* unsafe, %p, uintptr conversions, reflect pointers *)
| KGlobal      (* package-level variable that can change after init: process-local state *)
| KAnchor      (* not order-sensitive: code an order-independence argument leans on (sort call,
                  consumer function, uses of a slice filled in map order), pinned by hash *)
| KUnknown.    (* the translator could not classify the construct: always rejected *)

Inductive zone :=
| ZConsensus                   (* code that can run inside block / message processing *)
| ZExcluded (why : string).    (* generated, simulation, cli, testutil, docs, cmd *)

Record site := mk_site {
  s_file : string; s_func : string; s_kind : kind; s_zone : zone;
  s_hash : Z;        (* 60-bit prefix of sha256 of the whitespace-normalised go/printer text *)
  s_line : Z;        (* informational only, never compared *)
  s_detail : string  (* informational only *)
}.

Definition kind_eqb (a b : kind) : bool :=
  match a, b with
  | KMapRange, KMapRange | KMapIter, KMapIter | KRangeFunc, KRangeFunc | KTime, KTime
  | KRand, KRand | KGo, KGo | KSelect, KSelect | KFloat, KFloat | KPointer, KPointer
  | KGlobal, KGlobal | KAnchor, KAnchor | KUnknown, KUnknown => true
  | _, _ => false
  end.

Definition is_unknown (k : kind) : bool := kind_eqb k KUnknown.
