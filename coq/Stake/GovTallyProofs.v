(* Theorems about the governance tally with non-voting stake (C16). *)
From Coq Require Import ZArith Bool List Lia ZifyBool.
Import ListNotations.
From Sunrise Require Import Base.Outcome Base.Dec Base.DecLemmas Stake.TallyCore Stake.TallyCoreProofs Stake.GovTally.
Local Open Scope Z_scope.
Ltac Zify.zify_post_hook ::= Z.div_mod_to_equations.

(* ------------------------------------------------------------------------------------------
   Simulation: two validator maps with the same ids and own votes, the same not-yet-deducted
   shares and the same tokens/shares rate produce the same powers everywhere.
   ------------------------------------------------------------------------------------------ *)
Definition vi_rel (a b : vinfo) : Prop :=
  vi_id a = vi_id b /\ vi_vote a = vi_vote b /\ 0 < vi_sh a /\ 0 < vi_sh b /\
  vi_sh a - vi_ded a = vi_sh b - vi_ded b /\ vi_tok a * vi_sh b = vi_tok b * vi_sh a.

Ltac same_some :=
  repeat match goal with
  | H1 : ?x = Some _, H2 : ?x = Some _ |- _ => rewrite H1 in H2; injection H2 as <-
  end.

Lemma rel_find id A B : Forall2 vi_rel A B ->
  match find_vi id A, find_vi id B with
  | Some a, Some b => vi_rel a b
  | None, None => True
  | _, _ => False
  end.
Proof.
  induction 1 as [|a b A B Hab HAB IH]; cbn; [exact I|].
  destruct Hab as (Hid & Hrest). rewrite <- Hid.
  destruct (vi_id a =? id); [split; [exact Hid|exact Hrest]|exact IH].
Qed.

Lemma rel_upd na nb A B : Forall2 vi_rel A B -> vi_rel na nb ->
  Forall2 vi_rel (upd_vi na A) (upd_vi nb B).
Proof.
  intros HAB Hn. induction HAB as [|a b A B Hab HAB IH]; cbn; [constructor|].
  destruct Hab as (Hid & Hrest). destruct Hn as (Hnid & Hnrest).
  rewrite <- Hid, <- Hnid.
  destruct (vi_id a =? vi_id na).
  - constructor; [split; assumption|exact HAB].
  - constructor; [split; assumption|apply IH].
Qed.

Lemma rel_power a b x p p' : vi_rel a b ->
  power x (vi_tok a) (vi_sh a) = Some p -> power x (vi_tok b) (vi_sh b) = Some p' -> p = p'.
Proof.
  intros (_ & _ & Ha & Hb & _ & Hr) H1 H2.
  apply power_some in H1. apply power_some in H2. destruct H1 as [_ ->], H2 as [_ ->].
  apply ppower_rate; assumption.
Qed.

Lemma deleg_step_sim w A B res tot d A' r1 t1 B' r2 t2 : Forall2 vi_rel A B ->
  deleg_step w (A, res, tot) d = Some (A', r1, t1) ->
  deleg_step w (B, res, tot) d = Some (B', r2, t2) ->
  Forall2 vi_rel A' B' /\ r1 = r2 /\ t1 = t2.
Proof.
  intros HAB H1 H2. destruct d as [vid sh]. unfold deleg_step in H1, H2.
  pose proof (rel_find vid _ _ HAB) as Hf.
  destruct (find_vi vid A) as [a|], (find_vi vid B) as [b|]; try contradiction.
  - inv_obind. injection H1 as <- <- <-. injection H2 as <- <- <-.
    match goal with
    | Ha : power sh (vi_tok a) _ = Some ?p, Hb : power sh (vi_tok b) _ = Some ?q |- _ =>
        assert (p = q) by (eapply rel_power; eauto); subst
    end.
    same_some.
    repeat match goal with Hd : dadd _ _ = Some _ |- _ => apply dadd_some in Hd end. subst.
    split; [|split; reflexivity].
    apply rel_upd; [assumption|]. destruct Hf as (h1 & h2 & h3 & h4 & h5 & h6).
    unfold vi_rel, set_ded; cbn. repeat split; try assumption. lia.
  - injection H1 as <- <- <-. injection H2 as <- <- <-. auto.
Qed.

Lemma deleg_fold_sim w ds : forall A B res tot A' r1 t1 B' r2 t2, Forall2 vi_rel A B ->
  ofold (deleg_step w) ds (A, res, tot) = Some (A', r1, t1) ->
  ofold (deleg_step w) ds (B, res, tot) = Some (B', r2, t2) ->
  Forall2 vi_rel A' B' /\ r1 = r2 /\ t1 = t2.
Proof.
  induction ds as [|d tl IH]; intros A B res tot A' r1 t1 B' r2 t2 HAB H1 H2.
  - rewrite ofold_nil in H1, H2. injection H1 as <- <- <-. injection H2 as <- <- <-. auto.
  - rewrite ofold_cons in H1, H2. destruct (deleg_step w (A, res, tot) d) as [[[A1 ra] ta]|] eqn:E1; cbn in H1; [|discriminate].
    destruct (deleg_step w (B, res, tot) d) as [[[B1 rb] tb]|] eqn:E2; cbn in H2; [|discriminate].
    destruct (deleg_step_sim _ _ _ _ _ _ _ _ _ _ _ _ HAB E1 E2) as (Hr & -> & ->).
    eapply IH; eauto.
Qed.

Lemma rel_record id w A B : Forall2 vi_rel A B ->
  Forall2 vi_rel
    (match find_vi id A with Some vi => upd_vi (set_vote vi w) A | None => A end)
    (match find_vi id B with Some vi => upd_vi (set_vote vi w) B | None => B end).
Proof.
  intros HAB. pose proof (rel_find id _ _ HAB) as Hf.
  destruct (find_vi id A) as [a|], (find_vi id B) as [b|]; try contradiction; [|assumption].
  apply rel_upd; [assumption|]. destruct Hf as (h1 & h2 & h3 & h4 & h5 & h6).
  unfold vi_rel, set_vote; cbn. repeat split; assumption.
Qed.

Lemma phase1_sim bs : forall A B res tot A' r1 t1 B' r2 t2, Forall2 vi_rel A B ->
  phase1 bs (A, res, tot) = Some (A', r1, t1) ->
  phase1 bs (B, res, tot) = Some (B', r2, t2) ->
  Forall2 vi_rel A' B' /\ r1 = r2 /\ t1 = t2.
Proof.
  unfold phase1.
  induction bs as [|b tl IH]; intros A B res tot A' r1 t1 B' r2 t2 HAB H1 H2.
  - rewrite ofold_nil in H1, H2. injection H1 as <- <- <-. injection H2 as <- <- <-. auto.
  - rewrite ofold_cons in H1, H2. destruct (ballot_step (A, res, tot) b) as [[[A1 ra] ta]|] eqn:E1; cbn in H1; [|discriminate].
    destruct (ballot_step (B, res, tot) b) as [[[B1 rb] tb]|] eqn:E2; cbn in H2; [|discriminate].
    unfold ballot_step in E1, E2.
    destruct (deleg_fold_sim _ _ _ _ _ _ _ _ _ _ _ _ (rel_record (b_voter b) (b_w b) _ _ HAB) E1 E2)
      as (Hr & -> & ->).
    eapply IH; eauto.
Qed.

Lemma phase2_sim A B : Forall2 vi_rel A B -> forall res tot r1 t1 r2 t2,
  phase2 A res tot = Some (r1, t1) -> phase2 B res tot = Some (r2, t2) -> r1 = r2 /\ t1 = t2.
Proof.
  unfold phase2. induction 1 as [|a b A B Hab HAB IH]; intros res tot r1 t1 r2 t2 H1 H2.
  - rewrite ofold_nil in H1, H2. injection H1 as <- <-. injection H2 as <- <-. auto.
  - rewrite ofold_cons in H1, H2. destruct (val_step (res, tot) a) as [[ra ta]|] eqn:E1; cbn in H1; [|discriminate].
    destruct (val_step (res, tot) b) as [[rb tb]|] eqn:E2; cbn in H2; [|discriminate].
    assert (ra = rb /\ ta = tb) as [-> ->]; [|eapply IH; eauto].
    unfold val_step in E1, E2. pose proof Hab as (h1 & h2 & h3 & h4 & h5 & h6).
    rewrite <- h2 in E2. destruct (vi_vote a) as [|w0 wl].
    + injection E1 as <- <-. injection E2 as <- <-. auto.
    + inv_obind. injection E1 as <- <-. injection E2 as <- <-.
      repeat match goal with Hd : dsub _ _ = Some _ |- _ => apply dsub_some in Hd end. subst.
      rewrite <- h5 in *.
      match goal with
      | Ha : power ?x (vi_tok a) _ = Some ?p, Hb : power ?x (vi_tok b) _ = Some ?q |- _ =>
          assert (p = q) by (eapply rel_power; eauto); subst
      end.
      same_some. auto.
Qed.

Lemma core_sim A B res bs t1 r1 A' t2 r2 B' : Forall2 vi_rel A B ->
  core A res bs = Some (t1, r1, A') -> core B res bs = Some (t2, r2, B') -> t1 = t2 /\ r1 = r2.
Proof.
  intros HAB H1 H2. unfold core in H1, H2.
  destruct (phase1 bs (A, res, 0)) as [[[A1 ra] ta]|] eqn:E1; cbn in H1; [|discriminate].
  destruct (phase1 bs (B, res, 0)) as [[[B1 rb] tb]|] eqn:E2; cbn in H2; [|discriminate].
  destruct (phase1_sim _ _ _ _ _ _ _ _ _ _ _ HAB E1 E2) as (Hr & -> & ->).
  destruct (phase2 A1 rb tb) as [[ra' ta']|] eqn:E3; cbn in H1; [|discriminate].
  destruct (phase2 B1 rb tb) as [[rb' tb']|] eqn:E4; cbn in H2; [|discriminate].
  injection H1 as <- <- <-. injection H2 as <- <- <-.
  destruct (phase2_sim _ _ Hr _ _ _ _ _ _ E3 E4) as [-> ->]. auto.
Qed.

(* ------------------------------------------------------------------------------------------
   The share-class pass: what it leaves in the map and what it adds up
   ------------------------------------------------------------------------------------------ *)
Definition vals_ok (vals : list val) : Prop := NoDup (map v_id vals).

Lemma ids_init vals : ids (map init_vi vals) = map v_id vals.
Proof. unfold ids. rewrite map_map. reflexivity. Qed.

Lemma sc_step_vis st d st' : NoDup (ids (fst st)) ->
  sc_step st d = Some st' -> fst st' = map (ded_add (fst d) (snd d)) (fst st).
Proof.
  destruct st as [vis nb], d as [vid sh]. cbn [fst snd]. intros Hnd H. unfold sc_step in H.
  destruct (find_vi vid vis) as [vi|] eqn:Hf.
  - inv_obind. injection H as <-. cbn [fst]. eapply deduct_map; eauto.
  - injection H as <-. cbn [fst]. symmetry. apply deduct_map_none. exact Hf.
Qed.
Lemma sc_fold_vis ds : forall st st', NoDup (ids (fst st)) ->
  ofold sc_step ds st = Some st' -> fst st' = apply_dels ds (fst st).
Proof.
  induction ds as [|d tl IH]; intros st st' Hnd H; cbn in H.
  - injection H as <-. reflexivity.
  - destruct (sc_step st d) as [st1|] eqn:E; cbn in H; [|discriminate].
    pose proof (sc_step_vis _ _ _ Hnd E) as Hv.
    cbn [apply_dels fold_left]. rewrite <- Hv. apply IH; [|exact H].
    rewrite Hv, ids_ded_add. exact Hnd.
Qed.

(* the map after the share-class pass *)
Definition prededucted (scdels : list (Z * Z)) (vals : list val) : list vinfo :=
  map (fun v => set_ded (init_vi v) (dels_to (v_id v) scdels)) vals.

Lemma sc_pass_vis vals scdels vis nb : vals_ok vals ->
  ofold sc_step scdels (map init_vi vals, 0) = Some (vis, nb) -> vis = prededucted scdels vals.
Proof.
  intros Hok H. apply sc_fold_vis in H; [|cbn [fst]; rewrite ids_init; exact Hok].
  cbn [fst] in H. rewrite H, apply_dels_map. unfold prededucted. rewrite map_map.
  apply map_ext. intros v. unfold set_ded, init_vi; cbn. f_equal.
Qed.

(* tokens behind the share-class shares on the validators of the map (pure) *)
Fixpoint find_val (id : Z) (vals : list val) : option val :=
  match vals with
  | [] => None
  | v :: tl => if v_id v =? id then Some v else find_val id tl
  end.
Definition nb_sum (vals : list val) (scdels : list (Z * Z)) : Z :=
  fold_right (fun d a =>
    match find_val (fst d) vals with
    | Some v => ppower (snd d) (v_tok v) (v_sh v) + a
    | None => a
    end) 0 scdels.

(* tokens / shares of an entry never change; find by id agrees with the input list *)
Definition same_static (vals : list val) (vis : list vinfo) : Prop :=
  Forall2 (fun v vi => vi_id vi = v_id v /\ vi_tok vi = v_tok v /\ vi_sh vi = v_sh v) vals vis.
Lemma same_static_find vals vis id : same_static vals vis ->
  match find_val id vals, find_vi id vis with
  | Some v, Some vi => vi_tok vi = v_tok v /\ vi_sh vi = v_sh v
  | None, None => True
  | _, _ => False
  end.
Proof.
  induction 1 as [|v vi vals vis (h1 & h2 & h3) H IH]; cbn; [exact I|].
  rewrite h1. destruct (v_id v =? id); [auto|exact IH].
Qed.
Lemma same_static_upd vals vis nv : same_static vals vis ->
  (forall vi, find_vi (vi_id nv) vis = Some vi -> vi_tok nv = vi_tok vi /\ vi_sh nv = vi_sh vi) ->
  same_static vals (upd_vi nv vis).
Proof.
  intros H. induction H as [|v vi vals vis (h1 & h2 & h3) H IH]; intros Hn; cbn; [constructor|].
  cbn in Hn. destruct (Z.eqb_spec (vi_id vi) (vi_id nv)) as [e|ne].
  - destruct (Hn vi eq_refl) as [k1 k2]. constructor; [|exact H]. repeat split; congruence.
  - constructor; [auto|]. apply IH. exact Hn.
Qed.
Lemma same_static_init vals : same_static vals (map init_vi vals).
Proof. induction vals; cbn; constructor; auto. Qed.

Lemma sc_fold_nb vals ds : forall vis nb vis' nb', same_static vals vis ->
  ofold sc_step ds (vis, nb) = Some (vis', nb') -> nb' = nb + nb_sum vals ds.
Proof.
  induction ds as [|d tl IH]; intros vis nb vis' nb' Hs H.
  - rewrite ofold_nil in H. injection H as <- <-. cbn. lia.
  - rewrite ofold_cons in H.
    destruct (sc_step (vis, nb) d) as [[vis1 nb1]|] eqn:E; cbn [obind] in H; [|discriminate].
    destruct d as [vid sh]. unfold sc_step in E.
    assert (Hn : nb_sum vals ((vid, sh) :: tl) =
                 match find_val vid vals with
                 | Some v => ppower sh (v_tok v) (v_sh v) + nb_sum vals tl
                 | None => nb_sum vals tl end) by reflexivity.
    rewrite Hn. clear Hn.
    pose proof (same_static_find _ _ vid Hs) as Hf.
    destruct (find_val vid vals) as [v|], (find_vi vid vis) as [vi|] eqn:Hfv; try contradiction.
    + inv_obind. injection E as <- <-. destruct Hf as [k1 k2].
      match goal with Hp : power _ _ _ = Some _ |- _ => apply power_some in Hp; destruct Hp as [_ ->] end.
      match goal with Hd : dadd nb _ = Some _ |- _ => apply dadd_some in Hd; subst end.
      rewrite <- k1, <- k2.
      rewrite (IH _ _ _ _ (same_static_upd _ _ (set_ded vi z) Hs
                 ltac:(cbn; intros vi' Hvi'; rewrite (find_vi_id _ _ _ Hfv) in Hvi'; rewrite Hfv in Hvi';
                       injection Hvi' as <-; auto)) H).
      lia.
    + injection E as <- <-. eapply IH; eauto.
Qed.

(* ------------------------------------------------------------------------------------------
   Structure of the repaired function
   ------------------------------------------------------------------------------------------ *)
Lemma tally_core_inv sc vals scdels bs voted opts nb : vals_ok vals ->
  tally_core sc vals scdels bs = Some (voted, opts, nb) ->
  nb = nb_sum vals scdels /\
  exists res vis', core (prededucted scdels vals) gov_res0 (drop_sc sc bs) = Some (voted, res, vis') /\
                   opts = opts_of res.
Proof.
  intros Hok H. unfold tally_core in H.
  destruct (ofold sc_step scdels (map init_vi vals, 0)) as [[vis0 nb0]|] eqn:E; cbn in H; [|discriminate].
  destruct (core vis0 gov_res0 (drop_sc sc bs)) as [[[t r] v']|] eqn:E2; cbn in H; [|discriminate].
  injection H as <- <- <-.
  pose proof (sc_pass_vis _ _ _ _ Hok E) as ->.
  apply sc_fold_nb with (vals := vals) in E; [|apply same_static_init].
  split; [lia|]. eauto.
Qed.

(* ---- shareclass_votes_discarded ---- *)
Lemma drop_sc_idem sc bs : drop_sc sc (drop_sc sc bs) = drop_sc sc bs.
Proof.
  unfold drop_sc. induction bs as [|b tl IH]; cbn; [reflexivity|].
  destruct (negb (b_voter b =? sc)) eqn:E; cbn; [rewrite E; f_equal; exact IH|exact IH].
Qed.

Theorem shareclass_votes_discarded sc vals scdels bs1 bs2 bonded :
  drop_sc sc bs1 = drop_sc sc bs2 ->
  tally sc vals scdels bs1 bonded = tally sc vals scdels bs2 bonded.
Proof. intros H. unfold tally, tally_core. rewrite H. reflexivity. Qed.

(* ---- nonvoting_adds_nothing ---- *)
(* two graphs that differ only in the non-voting stake: same validators, same voting shares
   (shares minus share-class shares), same tokens-per-share rate *)
Definition val_rel (scdels1 scdels2 : list (Z * Z)) (v1 v2 : val) : Prop :=
  v_id v1 = v_id v2 /\ 0 < v_sh v1 /\ 0 < v_sh v2 /\
  v_sh v1 - dels_to (v_id v1) scdels1 = v_sh v2 - dels_to (v_id v2) scdels2 /\
  v_tok v1 * v_sh v2 = v_tok v2 * v_sh v1.

Lemma prededucted_rel scdels1 scdels2 vals1 vals2 :
  Forall2 (val_rel scdels1 scdels2) vals1 vals2 ->
  Forall2 vi_rel (prededucted scdels1 vals1) (prededucted scdels2 vals2).
Proof.
  induction 1 as [|v1 v2 l1 l2 (h1 & h2 & h3 & h4 & h5) H IH]; cbn; constructor; [|exact IH].
  unfold vi_rel, set_ded, init_vi; cbn. repeat split; assumption.
Qed.

Lemma val_rel_ids scdels1 scdels2 vals1 vals2 :
  Forall2 (val_rel scdels1 scdels2) vals1 vals2 -> map v_id vals1 = map v_id vals2.
Proof. induction 1 as [|v1 v2 l1 l2 (h1 & _) H IH]; cbn; congruence. Qed.

Theorem nonvoting_adds_nothing sc vals1 scdels1 vals2 scdels2 bs t1 o1 nb1 t2 o2 nb2 :
  vals_ok vals1 ->
  Forall2 (val_rel scdels1 scdels2) vals1 vals2 ->
  tally_core sc vals1 scdels1 bs = Some (t1, o1, nb1) ->
  tally_core sc vals2 scdels2 bs = Some (t2, o2, nb2) ->
  t1 = t2 /\ o1 = o2.
Proof.
  intros Hok Hrel H1 H2.
  assert (Hok2 : vals_ok vals2) by (unfold vals_ok; rewrite <- (val_rel_ids _ _ _ _ Hrel); exact Hok).
  apply tally_core_inv in H1; [|assumption]. apply tally_core_inv in H2; [|assumption].
  destruct H1 as (_ & r1 & v1 & C1 & ->), H2 as (_ & r2 & v2 & C2 & ->).
  destruct (core_sim _ _ _ _ _ _ _ _ _ _ (prededucted_rel _ _ _ _ Hrel) C1 C2) as [-> ->]. auto.
Qed.

(* ---- options_equal_reference ---- *)
(* the reference: the SDK's default function on the graph in which the share-class account holds
   no delegation (its ballot, if any, has no delegations) and every validator has lost the
   share-class shares at its exchange rate *)

Lemma deleg_step_ids w st d st' : deleg_step w st d = Some st' -> ids (st_vis st') = ids (st_vis st).
Proof.
  destruct st as [[vis res] tot], d as [vid sh]. unfold deleg_step.
  destruct (find_vi vid vis) as [vi|]; intros H.
  - inv_obind. injection H as <-. cbn. apply upd_vi_ids.
  - injection H as <-. reflexivity.
Qed.
Lemma ballot_step_ids st b st' : ballot_step st b = Some st' -> ids (st_vis st') = ids (st_vis st).
Proof.
  destruct st as [[vis res] tot]. unfold ballot_step. intros H.
  assert (Hi : ids (st_vis (match find_vi (b_voter b) vis with
                    | Some vi => upd_vi (set_vote vi (b_w b)) vis | None => vis end, res, tot)) = ids vis).
  { cbn. destruct (find_vi (b_voter b) vis); [apply upd_vi_ids|reflexivity]. }
  revert H. generalize dependent (match find_vi (b_voter b) vis with
                    | Some vi => upd_vi (set_vote vi (b_w b)) vis | None => vis end).
  intros vis1 Hi H.
  eapply (ofold_inv (deleg_step (b_w b)) (fun s => ids (st_vis s) = ids vis)); [|exact Hi|exact H].
  intros a x a' Ha Hs. rewrite (deleg_step_ids _ _ _ _ Hs). exact Ha.
Qed.

Lemma phase1_ref sc bs : forall st, ~ In sc (ids (st_vis st)) ->
  phase1 (ref_ballots sc bs) st = phase1 (drop_sc sc bs) st.
Proof.
  unfold phase1. induction bs as [|b tl IH]; intros st Hsc; cbn; [reflexivity|].
  destruct (Z.eqb_spec (b_voter b) sc) as [e|ne]; cbn.
  - (* the share-class ballot: no validator entry, no delegations: nothing happens *)
    destruct st as [[vis res] tot]. unfold ballot_step at 1. cbn [b_voter b_w b_dels].
    rewrite e. cbn [st_vis fst] in Hsc. rewrite <- find_vi_none in Hsc. rewrite Hsc. cbn.
    apply IH. cbn. rewrite <- find_vi_none. exact Hsc.
  - destruct (ballot_step st b) as [st1|] eqn:E; cbn; [|reflexivity].
    apply IH. rewrite (ballot_step_ids _ _ _ E). exact Hsc.
Qed.

Theorem options_equal_reference sc vals scdels bs vals' voted opts nb t' o' :
  vals_ok vals -> ~ In sc (map v_id vals) ->
  Forall2 (val_rel scdels []) vals vals' ->
  tally_core sc vals scdels bs = Some (voted, opts, nb) ->
  std_tally vals' (ref_ballots sc bs) = Some (t', o') ->
  opts = o' /\ voted = t'.
Proof.
  intros Hok Hsc Hrel H1 H2.
  pose proof (val_rel_ids _ _ _ _ Hrel) as Hids.
  apply tally_core_inv in H1; [|assumption]. destruct H1 as (_ & r1 & v1 & C1 & ->).
  unfold std_tally in H2.
  destruct (core (map init_vi vals') gov_res0 (ref_ballots sc bs)) as [[[t r] v]|] eqn:C2; cbn in H2; [|discriminate].
  injection H2 as <- <-.
  assert (C2' : core (prededucted [] vals') gov_res0 (drop_sc sc bs) = Some (t, r, v)).
  { assert (Hp : prededucted [] vals' = map init_vi vals').
    { unfold prededucted. apply map_ext. intros x. unfold set_ded, init_vi; cbn. reflexivity. }
    rewrite Hp. unfold core in *. rewrite <- phase1_ref; [exact C2|].
    cbn. rewrite ids_init, <- Hids. exact Hsc. }
  destruct (core_sim _ _ _ _ _ _ _ _ _ _ (prededucted_rel _ _ _ _ Hrel) C1 C2') as [-> ->]. auto.
Qed.

(* ---- turnout_formula ---- *)
Theorem turnout_formula sc vals scdels bs bonded t opts :
  vals_ok vals ->
  tally sc vals scdels bs bonded = Some (t, opts) ->
  exists voted nb,
    tally_core sc vals scdels bs = Some (voted, opts, nb) /\
    nb = nb_sum vals scdels /\
    let vb := bonded * P - nb in       (* bonded power that can vote, as a raw Dec *)
    (0 < vb -> Z.abs (t * vb * P - voted * bonded * P * P) <= (HALF + 1) * vb) /\
    (vb <= 0 -> t = voted).
Proof.
  intros Hok H. unfold tally in H.
  destruct (tally_core sc vals scdels bs) as [[[voted o] nb]|] eqn:E; cbn in H; [|discriminate].
  destruct (rescale voted bonded nb) as [t0|] eqn:R; cbn in H; [|discriminate].
  injection H as <- <-. exists voted, nb. split; [reflexivity|].
  destruct (tally_core_inv _ _ _ _ _ _ _ Hok E) as (Hnb & _). split; [exact Hnb|].
  unfold rescale in R. destruct (dsub (bonded * P) nb) as [vb|] eqn:Ev; cbn in R; [|discriminate].
  apply dsub_some in Ev. subst vb. cbn zeta.
  destruct (Z.ltb_spec 0 (bonded * P - nb)) as [Hp|Hp].
  - split; [intros _|lia]. inv_obind. apply dmul_int_some in E0. subst z.
    apply dquo_bracket in R; [|exact Hp]. exact R.
  - injection R as <-. split; [lia|reflexivity].
Qed.

(* the rescale itself never divides by zero and leaves "nobody can vote" alone *)
Lemma rescale_no_div_zero voted bonded nb :
  Z.abs (bonded * P - nb) <= DEC_LIM -> Z.abs (voted * bonded) <= DEC_LIM ->
  Z.abs voted * Z.abs bonded * P * P <= DEC_LIM ->
  rescale voted bonded nb <> None.
Proof.
  intros H1 H2 H3. unfold rescale, dsub, chk, in_range.
  destruct (Z.leb_spec (Z.abs (bonded * P - nb)) DEC_LIM); [|lia]. cbn.
  destruct (Z.ltb_spec 0 (bonded * P - nb)) as [Hp|Hp]; [|discriminate].
  unfold dmul_int, chk, in_range. destruct (Z.leb_spec (Z.abs (voted * bonded)) DEC_LIM); [|lia]. cbn.
  unfold dquo. destruct (Z.eqb_spec (bonded * P - nb) 0); [lia|].
  unfold chk, in_range.
  set (q := Z.quot (voted * bonded * (P * P)) (bonded * P - nb)).
  assert (Hq : Z.abs q <= Z.abs (voted * bonded * (P * P))).
  { unfold q. rewrite <- (Z.abs_eq (bonded * P - nb)) at 1 by lia.
    rewrite <- Z.quot_abs by lia.
    apply Z.quot_le_upper_bound; [lia|]. rewrite (Z.abs_eq (bonded * P - nb)) by lia.
    pose proof (Z.abs_nonneg (voted * bonded * (P * P))). nia. }
  pose proof (chop_round_bracket q) as Hc.
  assert (Z.abs (chop_round q) <= Z.abs q).
  { unfold P, HALF in *. lia. }
  assert (Z.abs (voted * bonded * (P * P)) = Z.abs voted * Z.abs bonded * P * P).
  { rewrite !Z.abs_mul. unfold P. lia. }
  destruct (Z.leb_spec (Z.abs (chop_round q)) DEC_LIM); [discriminate|lia].
Qed.

(* ------------------------------------------------------------------------------------------
   The pinned commit: the three turnout defects, as computed witnesses of the faithful model
   (each is reproduced on the real application by the harness corpus)
   ------------------------------------------------------------------------------------------ *)
Definition D (n : Z) : Z := n * P.
Definition yes : list (Z * Z) := [(1, P)].

(* (a) one validator with 60 voting + 40 non-voting tokens (tokens = shares) votes yes with its own
   delegation; a second validator holds 1 token per 10^-6 share. 60 of the 61 voting tokens voted,
   yet the reported turnout is (60 - 40) * 101 / 61 instead of 60 * 101 / 61 *)
Definition wa_vals := [ {| v_id := 1; v_tok := 100000000; v_sh := D 100000000 |};
                        {| v_id := 2; v_tok := 1000000; v_sh := D 1 |} ].
Definition wa_scdels := [(1, D 40000000)].
Definition wa_ballots := [ {| b_voter := 1; b_w := yes; b_dels := [(1, D 60000000)] |} ].

Theorem orig_turnout_subtracts_shares_again :
  delegator_bonded [(D 40000000, 100000000, D 100000000)] = Some 40000000 /\
  tally_orig 9 wa_vals wa_scdels wa_ballots 101000000 40000000
    = Some (33114754098360655737704918, [D 60000000; 0; 0; 0; 0]) /\
  tally 9 wa_vals wa_scdels wa_ballots 101000000
    = Some (99344262295081967213114754, [D 60000000; 0; 0; 0; 0]).
Proof. vm_compute. repeat split; reflexivity. Qed.

(* with fewer voters than non-voting shares the reported turnout is negative *)
Theorem orig_turnout_negative :
  exists t o,
    tally_orig 9 wa_vals wa_scdels [ {| b_voter := 7; b_w := yes; b_dels := [(1, D 10000000)] |} ] 101000000 40000000
      = Some (t, o) /\ t < 0.
Proof. eexists. eexists. split; [vm_compute; reflexivity|vm_compute; reflexivity]. Qed.

(* (b) all bonded stake is non-voting: division by zero (a panic in the gov EndBlocker) *)
Theorem orig_turnout_div_zero :
  delegator_bonded [(D 5, 5000000, D 5)] = Some 5000000 /\
  tally_orig 9 [ {| v_id := 1; v_tok := 5000000; v_sh := D 5 |} ] [(1, D 5)]
             [ {| b_voter := 2; b_w := yes; b_dels := [] |} ] 5000000 5000000 = None /\
  tally 9 [ {| v_id := 1; v_tok := 5000000; v_sh := D 5 |} ] [(1, D 5)]
        [ {| b_voter := 2; b_w := yes; b_dels := [] |} ] 5000000 = Some (0, [0; 0; 0; 0; 0]).
Proof. vm_compute. repeat split; reflexivity. Qed.

(* (c) GetDelegatorBonded also counts the share-class delegation on a jailed (unbonded) validator:
   bonded = 6, of which 3 non-voting; staking reports 6 non-voting -> division by zero, although
   all 3 voting tokens voted *)
Theorem orig_turnout_counts_unbonded :
  delegator_bonded [(D 3, 4000000, D 4); (D 3, 6000000, D 6)] = Some 6000000 /\
  tally_orig 9 [ {| v_id := 1; v_tok := 6000000; v_sh := D 6 |} ] [(2, D 3); (1, D 3)]
             [ {| b_voter := 3; b_w := yes; b_dels := [(2, D 1); (1, D 1)] |};
               {| b_voter := 4; b_w := yes; b_dels := [(1, D 2)] |} ] 6000000 6000000 = None /\
  tally 9 [ {| v_id := 1; v_tok := 6000000; v_sh := D 6 |} ] [(2, D 3); (1, D 3)]
        [ {| b_voter := 3; b_w := yes; b_dels := [(2, D 1); (1, D 1)] |};
          {| b_voter := 4; b_w := yes; b_dels := [(1, D 2)] |} ] 6000000
    = Some (D 6000000, [D 3000000; 0; 0; 0; 0]).
Proof. vm_compute. repeat split; reflexivity. Qed.
