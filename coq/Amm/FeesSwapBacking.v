(* C06 proofs, part 6: a swap is fully backed.  With the liquidity bookkeeping of C04 (active liquidity
   = sum of the in-range positions, tick net liquidity = sums over bounded positions) the liquidity
   the loop divides each step's fee by is the liquidity of the positions in range at that step, so
   the sum over all positions of  liquidity x (rise of growth inside the position's range)  is
   sum(growth_k x liquidity_k) <= 10^18 x sum(fees charged) <= 10^36 x coins sent to the fee account. *)
From Coq Require Import ZArith Bool List Lia ZifyBool Sorted.
Import ListNotations.
From Sunrise Require Import Base.Outcome Base.Dec Base.DecLemmas Amm.Math Amm.Pool Amm.LiqDefs Amm.LiqLists Amm.LiqInv
  Amm.Fees Amm.FeesVec Amm.FeesProofs Amm.FeesLoop Amm.FeesFlow Amm.FeesSwap Amm.FeesAccrual Amm.FeesBacking.
Local Open Scope Z_scope.
Ltac Zify.zify_post_hook ::= Z.div_mod_to_equations.

Definition pos_ok (p : position) : Prop := 0 <= pos_liq p /\ pos_lower p < pos_upper p.
Definition bounds_stored (ps : list position) (ts : list tick) : Prop :=
  Forall (fun p => stored ts (pos_lower p) /\ stored ts (pos_upper p)) ps.

(* the liquidity side of the loop state *)
Record LiqOK (ps : list position) (st : swap_state) : Prop := {
  lq_active : ss_liq st = active ps (ss_tick st);
  lq_net : forall t, stored_net (ss_ticks st) t = net_at ps t;
  lq_bounds : bounds_stored ps (ss_ticks st);
  lq_pos : Forall pos_ok ps
}.

Lemma active_same ps c c' :
  Forall (fun p => forall b, (b = pos_lower p \/ b = pos_upper p) -> ~ (Z.min c c' < b <= Z.max c c')) ps ->
  active ps c' = active ps c.
Proof.
  intros H. induction H as [|p r Hp _ IH]; cbn [active]; [reflexivity|]. rewrite IH. f_equal.
  pose proof (Hp _ (or_introl eq_refl)) as H1. pose proof (Hp _ (or_intror eq_refl)) as H2. unfold covers.
  destruct (Z.leb_spec (pos_lower p) c); destruct (Z.ltb_spec c (pos_upper p));
  destruct (Z.leb_spec (pos_lower p) c'); destruct (Z.ltb_spec c' (pos_upper p)); cbn [andb]; try reflexivity; lia.
Qed.

Lemma active_nonneg ps c : Forall pos_ok ps -> 0 <= active ps c.
Proof. intros H. induction H as [|p r [Hp _] _ IH]; cbn [active]; [lia|]. destruct (covers p c); lia. Qed.

Lemma stored_net_put ts x t : stored_net (put_tick ts x) t = if t =? t_index x then t_net x else stored_net ts t.
Proof. unfold stored_net. rewrite find_put_tick. destruct (t =? t_index x); reflexivity. Qed.

Section LiqIteration.
  Variables (ei b4q : bool) (fee limit : Z) (tp : tick_params) (accv : vec) (din : Z) (ps : list position).

  Lemma iter_liq iter st iter' st' c r fc per :
    IterOK b4q iter st -> LiqOK ps st ->
    loop_iter ei b4q true fee limit tp accv din iter st = Ok (ItNext iter' st' c r fc per) ->
    (r = true -> in_bucket b4q (ss_tick st) iter (ss_tick st')) ->
    LiqOK ps st'.
  Proof.
    intros Hio [Ha Hn Hb Hp] E Hbucket. unfold bounds_stored in Hb.
    destruct (loop_iter_inv _ _ _ _ _ _ _ _ _ _ _ _ _ _ _ _ E) as (nt & tl & nsp & spec & other & F).
    destruct F as [Fi _ _ _ _ _ _ Fcur]. subst iter.
    pose proof Hio as [Hs Hbd Hc Hst].
    inversion Hbd as [|? ? Hb_nt _]; subst. inversion Hst as [|? ? Hst_nt _]; subst.
    set (n := t_index nt) in *. set (cur := ss_tick st) in *.
    (* every bound of a position is a stored tick, hence not strictly inside the bucket *)
    assert (Hnear : forall t, stored (ss_ticks st) t -> beyond b4q cur t ->
                      t = n \/ beyond b4q (if b4q then n - 1 else n) t)
      by (intros t H1 H2; eapply iter_head_nearest; eassumption).
    destruct Fcur as [(_ & _ & _ & _ & Htick & Hl & Hu)|(_ & _ & _ & Hl & Hticks & Hrc)].
    - (* crossing *)
      unfold stored in Hst_nt. fold n in Hst_nt.
      assert (Hcc : exists x0, find_tick (ss_ticks st) n = Some x0 /\ cross_cur st nt = x0).
      { unfold cross_cur. fold n. destruct (find_tick (ss_ticks st) n) as [x0|]; [exists x0; split; reflexivity|contradiction]. }
      destruct Hcc as (x0 & Hx0 & Hcc). rewrite Hcc in *.
      destruct Hu as (g1 & g2 & _ & _ & Hticks).
      assert (Hnet0 : t_net x0 = net_at ps n) by (rewrite <- Hn; unfold stored_net; rewrite Hx0; reflexivity).
      constructor.
      + rewrite Hl, Htick, Ha, Hnet0. fold cur. unfold beyond in Hb_nt. fold n cur in Hb_nt.
        destruct b4q.
        * symmetry. replace (active ps cur + - net_at ps n) with (active ps cur - net_at ps n) by lia.
          apply active_cross_down; [lia|].
          apply Forall_forall. intros p Hp_in. rewrite Forall_forall in Hp, Hb. destruct (Hp _ Hp_in) as [_ Hlt]. destruct (Hb _ Hp_in) as [Hsl Hsu].
          split; [exact Hlt|]. split; intros Hx.
          -- destruct (Hnear _ Hsl ltac:(unfold beyond; lia)) as [E1|E1]; [lia|unfold beyond in E1; lia].
          -- destruct (Hnear _ Hsu ltac:(unfold beyond; lia)) as [E1|E1]; [lia|unfold beyond in E1; lia].
        * symmetry. apply active_cross_up; [lia|].
          apply Forall_forall. intros p Hp_in. rewrite Forall_forall in Hp, Hb. destruct (Hp _ Hp_in) as [_ Hlt]. destruct (Hb _ Hp_in) as [Hsl Hsu].
          split; [exact Hlt|]. split; intros Hx.
          -- destruct (Hnear _ Hsl ltac:(unfold beyond; lia)) as [E1|E1]; [lia|unfold beyond in E1; lia].
          -- destruct (Hnear _ Hsu ltac:(unfold beyond; lia)) as [E1|E1]; [lia|unfold beyond in E1; lia].
      + intros t. rewrite Hticks, stored_net_put. cbn [t_index t_net].
        destruct (Z.eqb_spec t n) as [->|]; [exact Hnet0|apply Hn].
      + unfold bounds_stored in *. eapply Forall_impl; [|exact Hb]. intros p [A B]. rewrite Hticks.
        split; apply stored_put; right; assumption.
      + exact Hp.
    - (* inside the bucket *)
      assert (Hcur' : in_bucket b4q cur (nt :: tl) (ss_tick st')).
      { destruct Hrc as [(-> & _ & _)|(_ & -> & _)]; [apply Hbucket; reflexivity|].
        unfold in_bucket. fold n. unfold beyond in Hb_nt. fold n cur in Hb_nt. destruct b4q; fold cur; lia. }
      unfold in_bucket in Hcur'. fold n in Hcur'.
      constructor.
      + rewrite Hl, Ha. fold cur. symmetry. apply active_same.
        apply Forall_forall. intros p Hp_in b Hbb Hx. rewrite Forall_forall in Hb. destruct (Hb _ Hp_in) as [Hsl Hsu].
        assert (Hsb : stored (ss_ticks st) b) by (destruct Hbb as [->| ->]; assumption).
        destruct b4q.
        * (* n <= tick' <= cur; a stored b with tick' < b <= cur is impossible *)
          destruct (Hnear _ Hsb ltac:(unfold beyond; lia)) as [E1|E1]; [lia|unfold beyond in E1; lia].
        * destruct (Hnear _ Hsb ltac:(unfold beyond; lia)) as [E1|E1]; [lia|unfold beyond in E1; lia].
      + rewrite Hticks. exact Hn.
      + rewrite Hticks. exact Hb.
      + exact Hp.
  Qed.
End LiqIteration.

(* the loop with both sides: accrual events whose liquidity is the in-range liquidity at their cursor *)
Theorem swap_loop_accrual_liq ei b4q fee limit tp accv din ps fuel iter st0 st' :
  len4 accv -> 0 <= din < 4 -> Forall tick_wf (ss_ticks st0) -> IterOK b4q iter st0 -> LiqOK ps st0 ->
  cursor_ok fuel ei b4q true fee limit tp accv din iter st0 ->
  swap_loop fuel ei b4q true fee limit tp accv din iter st0 = Ok st' ->
  LiqOK ps st' /\ exists evs, LoopRel accv din b4q st0 st' evs /\
    Forall (fun e : ev => let '(c, _, _, liq) := e in liq = active ps c) evs.
Proof.
  intros La Hd Ht0 Hio Hl0 Hc H.
  destruct (swap_loop_inv (fun it st => IterOK b4q it st /\ Forall tick_wf (ss_ticks st) /\ LiqOK ps st /\
              exists evs, LoopRel accv din b4q st0 st evs /\ Forall (fun e : ev => let '(c, _, _, liq) := e in liq = active ps c) evs)
              ei b4q true fee limit tp accv din) with (fuel := fuel) (iter := iter) (st := st0) (st' := st')
    as (it' & _ & _ & R1 & R2); [| |exact Hc|exact H|split; assumption].
  - clear Hio Hc H. intros it st it' st1 c r fc per (Hio & Ht & Hl & evs & [Rb Rg Rf Rd Re Rs] & Hev) E Hb.
    destruct (iter_step ei b4q fee limit tp accv din La Hd it st it' st1 c r fc per Ht Hio E Hb)
      as (Hio' & Ht' & Hsame & Hdir & Hg & Hf & Hq & Hbel).
    pose proof (iter_liq ei b4q fee limit tp accv din ps it st it' st1 c r fc per Hio Hl E Hb) as Hl'.
    split; [exact Hio'|]. split; [exact Ht'|]. split; [exact Hl'|].
    exists ((ss_tick st, per, fc, ss_liq st) :: evs). split.
    + constructor.
      * intros t Hs i Hi. rewrite Hbel by (first [apply Rs; exact Hs|exact Hi]). rewrite Rb by assumption.
        cbn [sum_below]. destruct (Z.ltb_spec (ss_tick st) t); destruct (Nat.eqb i (Z.to_nat din)); cbn [andb]; lia.
      * cbn [sum_per]. lia.
      * cbn [sum_fc]. apply dadd_some in Hf. lia.
      * destruct b4q; lia.
      * constructor.
        -- unfold ev_ok. split; [destruct b4q; lia|exact Hq].
        -- eapply Forall_impl; [|exact Re]. intros e. apply ev_ok_mono. exact Hdir.
      * intros t. rewrite Hsame. apply Rs.
    + constructor; [apply (lq_active _ _ Hl)|exact Hev].
  - split; [exact Hio|]. split; [exact Ht0|]. split; [exact Hl0|]. exists []. split; [|constructor]. constructor.
    + intros t _ i _. cbn [sum_below]. destruct (Nat.eqb i (Z.to_nat din)); lia.
    + cbn. lia.
    + cbn. lia.
    + destruct b4q; lia.
    + constructor.
    + tauto.
Qed.

(* ---------- exchanging the sums ---------- *)
Fixpoint sum_pos (f : position -> Z) (ps : list position) : Z :=
  match ps with [] => 0 | p :: r => f p + sum_pos f r end.

Lemma sum_pos_sum_in evs ps :
  Forall (fun e : ev => let '(c, _, _, liq) := e in liq = active ps c) evs ->
  sum_pos (fun p => pos_liq p * sum_in evs (pos_lower p) (pos_upper p)) ps = sum_pl evs.
Proof.
  intros H. induction H as [|e r He _ IH]; cbn [sum_in sum_pl].
  - induction ps as [|p ps IHp]; cbn [sum_pos sum_in]; lia.
  - destruct e as [[[c per] fc] liq]. subst liq. rewrite <- IH. clear.
    induction ps as [|p ps IHp]; cbn [sum_pos active sum_in]; [lia|].
    replace (per * ((if covers p c then pos_liq p else 0) + active ps c)) with
      (per * (if covers p c then pos_liq p else 0) + per * active ps c) by lia.
    rewrite IHp. unfold covers. destruct ((pos_lower p <=? c) && (c <? pos_upper p)); lia.
Qed.

(* ---------- the swap ---------- *)
Lemma inv_bounds_stored s : Inv s -> bounds_stored (a_positions s) (a_ticks s) /\ Forall pos_ok (a_positions s).
Proof.
  intros [[[H1 H2 H3 H4 H5 H6 H7 H8 H9 H10] Hpr] Hst]. split; [|exact H1].
  apply Forall_forall. intros p Hin. unfold StrictPos in Hst. rewrite Forall_forall in Hst. specialize (Hst _ Hin).
  assert (Hl : gross_at (a_positions s) (pos_lower p) <> 0).
  { pose proof (gross_at_ge _ (pos_lower p) p H1 Hin) as Hge. unfold bnd in Hge. rewrite Z.eqb_refl in Hge. specialize (Hge eq_refl). lia. }
  assert (Hu : gross_at (a_positions s) (pos_upper p) <> 0).
  { pose proof (gross_at_ge _ (pos_upper p) p H1 Hin) as Hge. unfold bnd in Hge. rewrite Z.eqb_refl, orb_true_r in Hge. specialize (Hge eq_refl). lia. }
  rewrite <- H5 in Hl, Hu. unfold stored_gross in Hl, Hu. unfold stored.
  destruct (find_tick (a_ticks s) (pos_lower p)); [|contradiction].
  destruct (find_tick (a_ticks s) (pos_upper p)); [split; discriminate|contradiction].
Qed.

(* swap_backed: over a swap, sum over all open positions of
     liquidity x (rise of the growth inside the position's range, input denom)
   is at most 10^36 x the coins the swap sent to the fee account (raw decimals: liquidity and growth
   are scaled by 10^18 each), provided no step charged a negative fee *)
Theorem swap_backed s ei din dout specified s' i o :
  Inv s -> FeeWF s -> swap_cursor_ok s ei din specified ->
  swap s ei din dout specified true = Ok (s', i, o) ->
  exists evs,
    Forall (ev_ok (din =? 0) (p_tick (a_pool s)) (p_tick (a_pool s'))) evs /\
    Forall (fun e : ev => let '(c, _, _, liq) := e in liq = active (a_positions s) c /\ 0 <= liq) evs /\
    (forall p, In p (a_positions s) -> forall j, (j < 4)%nat ->
       vn (below_of s' (pos_upper p)) j - vn (below_of s' (pos_lower p)) j =
       vn (below_of s (pos_upper p)) j - vn (below_of s (pos_lower p)) j
         + (if Nat.eqb j (Z.to_nat din) then sum_in evs (pos_lower p) (pos_upper p) else 0)) /\
    p_liq (a_pool s') = active (a_positions s') (p_tick (a_pool s')) /\
    (Forall (fun e : ev => let '(_, _, fc, _) := e in 0 <= fc) evs ->
     sum_pos (fun p => pos_liq p * sum_in evs (pos_lower p) (pos_upper p)) (a_positions s)
       <= vn (swap_fee_coins s ei din dout specified) (Z.to_nat din) * P * P).
Proof.
  intros HI W Hcur H.
  pose proof HI as [[Hcore Hpr] Hstrict]. pose proof Hcore as [H1 H2 H3 H4 H5 H6 H7 H8 H9 H10].
  destruct (inv_bounds_stored _ HI) as [Hbs Hpok].
  destruct (swap_fields _ _ _ _ _ _ _ _ H) as (r & accv & Ec & Ea & T' & V' & K' & Ps' & _ & _ & L' & _ & _ & (fc0 & Efc0)).
  destruct (compute_swap_inv _ _ _ _ _ _ _ _ _ Ec) as (_ & Hd & limit & st & Elim & El & R1 & R2 & R3 & R4 & R5 & _).
  assert (Hd4 : 0 <= din < 4) by lia. pose proof (fw_acc _ W) as La.
  assert (Hl0 : LiqOK (a_positions s) (swap_st0 s specified)).
  { constructor; cbn [swap_st0 ss_liq ss_tick ss_ticks]; assumption. }
  destruct (swap_loop_accrual_liq ei (din =? 0) (p_fee (a_pool s)) limit (p_tp (a_pool s)) (a_acc_value s) din (a_positions s) _ _
              (swap_st0 s specified) st La Hd4 (fw_ticks _ W) (iter_ticks_ok _ _ _ H4) Hl0 (Hcur limit Elim) El)
    as (Hlq & evs & [Rb Rg Rf Rd Re Rs] & Hev).
  cbn [swap_st0 ss_growth ss_fees ss_tick ss_ticks] in *.
  assert (Hacc : accv = vglobal (a_acc_value s) din (ss_growth st)).
  { rewrite R3 in Ea. pose proof (vsingle_length din (ss_growth st) Hd4) as Ls.
    destruct (vadd_nth _ _ _ Ea ltac:(unfold len4 in *; congruence)) as [L1 N1].
    apply vec_ext4; [unfold len4 in *; congruence|apply vglobal_len4; assumption|]. intros j Hj.
    rewrite N1 by (unfold len4 in *; lia). unfold vglobal. rewrite vplus_nth4; [reflexivity|exact La|exact Ls|exact Hj]. }
  exists evs. split; [rewrite K', R4; exact Re|]. split; [|split; [|split]].
  - eapply Forall_impl; [|exact Hev]. intros [[[c per] fc] liq] ->. split; [reflexivity|apply active_nonneg; exact Hpok].
  - intros p Hin j Hj. unfold bounds_stored in Hbs. rewrite Forall_forall in Hbs. destruct (Hbs _ Hin) as [Hsl Hsu].
    assert (Hb : forall t, stored (a_ticks s) t -> vn (below_of s' t) j = vn (below_of s t) j + (if Nat.eqb j (Z.to_nat din) then sum_below evs t else 0)).
    { intros t Ht. specialize (Rb t Ht j Hj). unfold Bel in Rb. cbn [swap_st0 ss_growth ss_tick ss_ticks] in Rb.
      rewrite (vglobal_zero _ _ La Hd4) in Rb. unfold below_of. rewrite T', V', K', R1, R4, Hacc. exact Rb. }
    rewrite (Hb _ Hsl), (Hb _ Hsu).
    rewrite Forall_forall in Hpok. destruct (Hpok _ Hin) as [_ Hlt].
    assert (Hle : pos_lower p <= pos_upper p) by lia.
    rewrite (sum_in_below evs _ _ Hle). destruct (Nat.eqb j (Z.to_nat din)); lia.
  - rewrite L', K', Ps', R5, R4. apply (lq_active _ _ Hlq).
  - intros Hfc.
    rewrite (sum_pos_sum_in evs (a_positions s) Hev).
    assert (Hfl : Forall (fun e : ev => let '(_, _, fc, liq) := e in 0 <= fc /\ 0 <= liq) evs).
    { rewrite Forall_forall in Hfc, Hev |- *. intros [[[c per] fc] liq] Hin. specialize (Hfc _ Hin). specialize (Hev _ Hin). cbn in Hfc, Hev.
      split; [exact Hfc|]. subst liq. apply active_nonneg. exact Hpok. }
    destruct (swap_events_backed _ _ _ _ Re Hfl) as [Hsum Hper].
    assert (H0f : 0 <= ss_fees st).
    { rewrite Rf. clear -Hfc. induction Hfc as [|[[[c per] fc] liq] l Hx _ IH]; cbn [sum_fc]; lia. }
    rewrite R2 in Efc0. pose proof (swap_fee_coins_cover _ _ H0f Efc0) as Hcover.
    assert (Hv : vn (swap_fee_coins s ei din dout specified) (Z.to_nat din) = dtrunc_int fc0).
    { unfold swap_fee_coins. rewrite Ec, R2, Efc0.
      destruct (Z.eqb_spec (dtrunc_int fc0) 0) as [E0|E0]; [rewrite vzero_nth; lia|].
      rewrite vsingle_nth by lia. rewrite Nat.eqb_refl. reflexivity. }
    rewrite Hv. assert (HP : 0 < P) by reflexivity. rewrite Rf in Hcover. nia.
Qed.
