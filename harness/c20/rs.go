package c20

import (
	"errors"
	"fmt"

	"github.com/klauspost/reedsolomon"

	ec "github.com/sunriselayer/sunrise/x/da/erasurecoding"

	"verifharness/emit"
)

// error classes of Da/RS.v
func rsErrClass(err error) int64 {
	switch {
	case errors.Is(err, reedsolomon.ErrInvShardNum):
		return 1
	case errors.Is(err, reedsolomon.ErrShardNoData):
		return 2
	case errors.Is(err, reedsolomon.ErrShardSize):
		return 3
	case errors.Is(err, reedsolomon.ErrTooFewShards):
		return 4
	case errors.Is(err, reedsolomon.ErrReconstructRequired):
		return 5
	case errors.Is(err, reedsolomon.ErrShortData):
		return 6
	}
	return 9
}

type encObs struct {
	panicked bool
	err      error
	size     uint64
	count    int
	shards   [][]byte
}

func realEncode(blob []byte, k, m int) (o encObs) {
	defer func() {
		if r := recover(); r != nil {
			o = encObs{panicked: true}
		}
	}()
	size, count, shards, err := ec.ErasureCode(blob, k, m)
	return encObs{err: err, size: size, count: count, shards: shards}
}

func (o encObs) coq() string {
	if o.panicked {
		return "Panic"
	}
	if o.err != nil {
		return fmt.Sprintf("(Err %d)", rsErrClass(o.err))
	}
	return fmt.Sprintf("(Ok (%d, %d, %s))", o.size, o.count, coqRows(o.shards))
}

type recObs struct {
	panicked bool
	err      error
	blob     []byte
}

func realReconstruct(shards [][]byte, k, out int, joinOnly bool) (o recObs) {
	defer func() {
		if r := recover(); r != nil {
			o = recObs{panicked: true}
		}
	}()
	var b []byte
	var err error
	if joinOnly {
		b, err = ec.JoinShards(shards, k, out)
	} else {
		b, err = ec.ReconstructAndJoinShards(shards, k, out)
	}
	return recObs{err: err, blob: b}
}

func (o recObs) coq() string {
	if o.panicked {
		return "Panic"
	}
	if o.err != nil {
		return fmt.Sprintf("(Err %d)", rsErrClass(o.err))
	}
	return "(Ok " + coqBytes(o.blob) + ")"
}

func (o recObs) class() string {
	if o.panicked {
		return "panic"
	}
	if o.err != nil {
		return fmt.Sprintf("err%d", rsErrClass(o.err))
	}
	return "ok"
}

func cloneShards(sh [][]byte) [][]byte {
	out := make([][]byte, len(sh))
	for i, s := range sh {
		if s != nil {
			out[i] = append([]byte{}, s...)
		}
	}
	return out
}

type roundCase struct {
	Blob   []byte
	K, M   int
	Erased []int
	// Empty lists the lost shards that are handed over as []byte{} instead of nil
	// (klauspost treats both as missing)
	Empty   []int
	Pattern string
}

// lossEncoding decides, for a set of lost shards, which ones are given as an empty slice
func (c *ctxRun) lossEncoding(erased []int) []int {
	var empty []int
	switch c.r.Intn(5) {
	case 0: // all of them
		empty = append(empty, erased...)
	case 1: // some of them
		for _, i := range erased {
			if c.r.Bool() {
				empty = append(empty, i)
			}
		}
	}
	return empty
}

// cost bound for the Coq evaluation: about size * k^2 field multiplications per interpolation
func maxShardSize(k int) int {
	s := 5000 / (k*k + 1)
	if s < 1 {
		s = 1
	}
	if s > 120 {
		s = 120
	}
	return s
}

func (c *ctxRun) genBlob(n int) []byte {
	b := make([]byte, n)
	switch c.r.Intn(10) {
	case 0: // all zero
	case 1:
		for i := range b {
			b[i] = 0xff
		}
	case 2: // few distinct values
		for i := range b {
			b[i] = byte(c.r.Intn(3))
		}
	default:
		for i := range b {
			b[i] = byte(c.r.U64())
		}
	}
	return b
}

func (c *ctxRun) genRound() roundCase {
	r := c.r
	var k, m int
	switch r.Intn(12) {
	case 0:
		k = 1
	case 1, 2, 3, 4:
		k = 2 + r.Intn(7)
	case 5, 6, 7:
		k = 9 + r.Intn(24)
	case 8:
		k = 33 + r.Intn(60)
	case 9: // the chain's allowed shard counts: 10..255 in total
		k = 5 + r.Intn(120)
	default:
		k = 1 + r.Intn(16)
	}
	switch r.Intn(10) {
	case 0:
		m = 0
	case 1:
		m = 1
	case 2, 3: // as the repository's tests: half / half
		m = k
	case 4: // as many as fit
		m = 256 - k
	case 5:
		m = r.Intn(256 - k + 1)
	default:
		m = r.Intn(k + 3)
	}
	if k+m > 256 {
		m = 256 - k
	}
	// keep the evaluation cost bounded when many shards must be recomputed
	if k > 60 && m > 40 && r.Chance(3, 4) {
		m = r.Intn(40)
	}
	ms := maxShardSize(k)
	if v := 3000 / (k + m); v < ms { // bound the volume of emitted shard bytes as well
		ms = v
	}
	if ms < 1 {
		ms = 1
	}
	var ln int
	switch r.Intn(10) {
	case 0:
		ln = 1
	case 1:
		ln = k - 1
	case 2:
		ln = k
	case 3:
		ln = k + 1
	case 4: // exact multiple
		ln = k * (1 + r.Intn(ms))
	case 5: // one short of a multiple
		ln = k*(1+r.Intn(ms)) - 1
	default:
		ln = 1 + r.Intn(k*ms)
	}
	if ln < 1 {
		ln = 1
	}
	if ln > k*ms {
		ln = k * ms
	}
	if r.Chance(1, 60) {
		ln = 0
	}
	n := k + m
	var e int
	switch r.Intn(12) {
	case 0:
		e = 0
	case 1:
		e = 1
	case 2, 3, 4:
		e = m
	case 5, 6, 7:
		e = m + 1
	case 8:
		e = m - 1
	case 9:
		e = n
	case 10:
		e = m + 1 + r.Intn(k)
	default:
		e = r.Intn(m + 1)
	}
	if e < 0 {
		e = 0
	}
	if e > n {
		e = n
	}
	var erased []int
	pattern := "random"
	switch r.Intn(6) {
	case 0: // the first e shards (data first)
		pattern = "first"
		for i := 0; i < e; i++ {
			erased = append(erased, i)
		}
	case 1: // the last e shards (parity first)
		pattern = "last"
		for i := 0; i < e; i++ {
			erased = append(erased, n-1-i)
		}
	default:
		perm := make([]int, n)
		for i := range perm {
			perm[i] = i
		}
		for i := n - 1; i > 0; i-- {
			j := r.Intn(i + 1)
			perm[i], perm[j] = perm[j], perm[i]
		}
		erased = append(erased, perm[:e]...)
	}
	return roundCase{Blob: c.genBlob(ln), K: k, M: m, Erased: erased, Empty: c.lossEncoding(erased), Pattern: pattern}
}

func (c *ctxRun) rsRound(rc roundCase, tag string) {
	c.roundFinish(c.roundEncode(rc, tag))
}

// a round trip whose ErasureCode call has been made and whose ReconstructAndJoinShards call
// is still to come (other calls may be interleaved in between)
type pendingRound struct {
	rc  roundCase
	tag string
	enc encObs
}

func (c *ctxRun) roundEncode(rc roundCase, tag string) *pendingRound {
	return &pendingRound{rc: rc, tag: tag, enc: realEncode(rc.Blob, rc.K, rc.M)}
}

func (c *ctxRun) roundFinish(p *pendingRound) {
	rc, tag, enc := p.rc, p.tag, p.enc
	info := map[string]any{"kind": "round", "tag": tag, "k": rc.K, "m": rc.M, "blob_len": len(rc.Blob),
		"blob_hex": fmt.Sprintf("%x", rc.Blob), "erased": rc.Erased, "erased_given_as_empty_slice": rc.Empty, "pattern": rc.Pattern}
	recS, postS := "Panic", "[]"
	if !enc.panicked && enc.err == nil {
		in := cloneShards(enc.shards)
		for _, i := range rc.Erased {
			if i >= 0 && i < len(in) {
				in[i] = nil
			}
		}
		for _, i := range rc.Empty {
			if i >= 0 && i < len(in) && in[i] == nil {
				in[i] = []byte{}
			}
		}
		if len(rc.Empty) > 0 {
			c.st.Count("round:some-lost-shards-as-empty-slice")
		}
		rec := realReconstruct(in, rc.K, len(rc.Blob), false)
		recS, postS = rec.coq(), coqShards(in)
		info["reconstruct"] = rec.class()
		if rec.err != nil {
			info["reconstruct_err"] = rec.err.Error()
		}
		c.st.Count("round:" + rec.class())
		e := len(rc.Erased)
		if e == rc.M || e == rc.M+1 || len(rc.Blob)%rc.K != 0 {
			c.st.Nontriv(fmt.Sprintf("round/%d/%d/%d/%d/%s", rc.K, rc.M, len(rc.Blob), e, rc.Pattern))
		}
		switch {
		case e == rc.M:
			c.st.Count("round:erased=m")
		case e == rc.M+1:
			c.st.Count("round:erased=m+1")
		case e < rc.M:
			c.st.Count("round:erased<m")
		default:
			c.st.Count("round:erased>m+1")
		}
		if len(rc.Blob)%rc.K != 0 {
			c.st.Count("round:len-not-multiple-of-k")
		}
		if rec.err == nil && !rec.panicked {
			c.st.Sample(map[string]any{"k": rc.K, "m": rc.M, "blob_len": len(rc.Blob), "erased": rc.Erased, "result": "blob recovered"})
		}
	} else {
		if enc.panicked {
			c.st.Count("round:encode-panic")
		} else {
			c.st.Count(fmt.Sprintf("round:encode-err%d", rsErrClass(enc.err)))
			info["encode_err"] = enc.err.Error()
		}
	}
	term := fmt.Sprintf("CRound {| rc_blob := %s; rc_k := %s; rc_m := %s; rc_enc := %s; rc_erased := %s; rc_empty := %s; rc_rec := %s; rc_post := %s |}",
		coqBytes(rc.Blob), emit.ZI(int64(rc.K)), emit.ZI(int64(rc.M)), enc.coq(), coqNats(rc.Erased), coqNats(rc.Empty), recS, postS)
	c.cf.Add(term)
	c.st.Info(info)
	c.st.Evaluations++
}

// fixed regression cases
func (c *ctxRun) rsCorpus() error {
	seq := func(n int) []byte {
		b := make([]byte, n)
		for i := range b {
			b[i] = byte(i*7 + 1)
		}
		return b
	}
	cases := []roundCase{
		{Blob: []byte{}, K: 3, M: 2, Erased: nil, Pattern: "empty-blob"},                     // ErrShardNoData
		{Blob: []byte{}, K: 1, M: 0, Erased: nil, Pattern: "empty-blob"},                     //
		{Blob: []byte{1, 2, 3, 4, 5, 6, 7}, K: 3, M: 2, Erased: []int{0, 3}},                 // Coq non-vacuity example
		{Blob: []byte{1, 2, 3, 4, 5, 6, 7}, K: 3, M: 2, Erased: []int{0, 1, 3}},              // one too many
		{Blob: []byte{9}, K: 1, M: 0, Erased: nil},                                           // no parity at all
		{Blob: []byte{9}, K: 1, M: 0, Erased: []int{0}},                                      // everything lost
		{Blob: []byte{9}, K: 1, M: 255, Erased: nil},                                         // 256 shards, replicate
		{Blob: seq(256), K: 128, M: 128, Erased: nil},                                        // 256 shards
		{Blob: seq(20), K: 10, M: 0, Erased: []int{4}},                                       // m = 0, one lost
		{Blob: seq(25), K: 10, M: 10, Erased: []int{0, 1, 2, 3, 4, 5, 6, 7, 8, 9}},           // all data lost
		{Blob: seq(25), K: 10, M: 10, Erased: []int{10, 11, 12, 13, 14, 15, 16, 17, 18, 19}}, // all parity lost
		// short blob in many shards (padding longer than a shard), a data shard lost as []byte{}
		{Blob: seq(32), K: 10, M: 5, Erased: []int{2}, Empty: []int{2}},
		{Blob: seq(32), K: 10, M: 5, Erased: []int{0, 1, 2, 3, 4, 5}, Empty: []int{0, 1, 2, 3, 4, 5}}, // one too many, all empty
		{Blob: seq(40), K: 10, M: 5, Erased: []int{9, 3, 12}, Empty: []int{3}},                        // mixed nil / empty
		{Blob: seq(5), K: 0, M: 2, Erased: nil},                                                       // invalid counts
		{Blob: seq(5), K: -1, M: 2, Erased: nil},
		{Blob: seq(5), K: 3, M: -1, Erased: nil},
		{Blob: seq(5), K: 300, M: 0, Erased: nil}, // > 256 with no parity
		{Blob: seq(5), K: 300, M: -3, Erased: nil},
	}
	for i := range cases {
		if cases[i].Pattern == "" {
			cases[i].Pattern = "corpus"
		}
		c.rsRound(cases[i], "corpus")
	}
	// the test of the repository: 64 shards, half parity
	c.rsRound(roundCase{Blob: seq(130), K: 32, M: 32, Erased: []int{0, 5, 33, 63}, Pattern: "corpus"}, "corpus")
	return nil
}

// malformed / adversarial inputs to ReconstructAndJoinShards and JoinShards
func (c *ctxRun) rsMalformed() {
	r := c.r
	k := 1 + r.Intn(8)
	m := r.Intn(6)
	ln := 1 + r.Intn(k*12)
	blob := c.genBlob(ln)
	enc := realEncode(blob, k, m)
	if enc.panicked || enc.err != nil {
		// a valid configuration failed to encode: record it as a round-trip case (monitor 3)
		c.rsRound(roundCase{Blob: blob, K: k, M: m, Pattern: "malformed-setup"}, "gen")
		return
	}
	in := cloneShards(enc.shards)
	n := k + m
	kArg, out, joinOnly := k, ln, false
	kind := ""
	// start from some erasures
	ne := r.Intn(m + 1)
	for i := 0; i < ne; i++ {
		in[r.Intn(n)] = nil
	}
	switch r.Intn(14) {
	case 0: // a present shard silently corrupted: no integrity check, the model must agree on the bytes
		kind = "corrupt-byte"
		for try := 0; try < 10; try++ {
			i := r.Intn(n)
			if len(in[i]) > 0 {
				in[i][r.Intn(len(in[i]))] ^= byte(1 + r.Intn(255))
				break
			}
		}
	case 1:
		kind = "wrong-shard-size"
		i := r.Intn(n)
		in[i] = append(in[i], 7)
	case 2:
		kind = "shorter-shard"
		i := r.Intn(n)
		if len(in[i]) > 1 {
			in[i] = in[i][:len(in[i])-1]
		} else {
			in[i] = []byte{1, 2}
		}
	case 3:
		kind = "empty-non-nil-shard"
		in[r.Intn(n)] = []byte{}
	case 4:
		kind = "k-too-large"
		kArg = n + 1 + r.Intn(3)
	case 5:
		kind = "k-nonpositive"
		kArg = -r.Intn(3)
	case 6:
		kind = "k-different"
		kArg = 1 + r.Intn(n)
	case 7:
		kind = "out-too-large"
		out = k*int(enc.size) + 1 + r.Intn(5)
	case 8:
		kind = "out-smaller"
		out = r.Intn(ln + 1)
	case 9:
		kind = "out-negative"
		out = -1 - r.Intn(3)
	case 10:
		kind = "all-nil"
		for i := range in {
			in[i] = nil
		}
	case 11:
		kind = "join-only"
		joinOnly = true
		out = r.Intn(k*int(enc.size) + 2)
	case 12:
		kind = "join-only-out-edge"
		joinOnly = true
		in = cloneShards(enc.shards)
		in[r.Intn(n)] = nil
		out = (1 + r.Intn(k)) * int(enc.size)
	default:
		kind = "no-shards"
		in = [][]byte{}
	}
	before := cloneShards(in)
	// keep empty-non-nil shards distinguishable in the emitted input
	for i := range in {
		if in[i] != nil && len(in[i]) == 0 {
			before[i] = []byte{}
		}
	}
	rec := realReconstruct(in, kArg, out, joinOnly)
	// loss-only inputs: the harness knows the original blob and the parity count (ghost values
	// for the monitors: <= m lost => blob, > m lost => error, never other bytes without error)
	ghost := "None"
	if kind == "empty-non-nil-shard" || kind == "all-nil" {
		ghost = fmt.Sprintf("(Some (%s, %s))", coqBytes(blob), emit.ZI(int64(m)))
	}
	term := fmt.Sprintf("CRec {| rj_in := %s; rj_k := %s; rj_out := %s; rj_join_only := %s; rj_res := %s; rj_post := %s; rj_ghost := %s |}",
		coqShards(before), emit.ZI(int64(kArg)), emit.ZI(int64(out)), emit.Bool(joinOnly), rec.coq(), coqShards(in), ghost)
	c.cf.Add(term)
	info := map[string]any{"kind": "malformed:" + kind, "k": k, "m": m, "k_arg": kArg, "out": out, "blob_len": ln, "result": rec.class()}
	if rec.err != nil {
		info["err"] = rec.err.Error()
	}
	c.st.Info(info)
	c.st.Count("malformed:" + kind + ":" + rec.class())
	c.st.Evaluations++
}
