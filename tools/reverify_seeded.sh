#!/bin/sh
# reverify_seeded.sh [-j N] [seeded-dir-name ...]
# For each seeded change (seeded/<name>/patch.diff, <name> = C07 or C07-r2 ...): a fresh scratch
# worktree of /repo's HEAD under /tmp/reverify, `git apply --3way patch.diff`, the property's quick
# check against that worktree (VERIF_REPO), the outcome written to seeded/<name>/reverify.json,
# the worktree removed. Nothing is applied to /repo itself; evidence/ is not touched (scratch-tree
# runs write build/evidence-scratch). No git stash (shared between worktrees).
cd "$(dirname "$0")/.." || exit 2
J=3
if [ "$1" = "-j" ]; then J=$2; shift 2; fi
names=${@:-$(ls seeded | grep '^C[0-9][0-9]' )}
mkdir -p /tmp/reverify/logs
one() {
  name=$1; id=$(echo $name | cut -c1-3); lc=$(echo $id | tr A-Z a-z)
  wt=/tmp/reverify/$name; log=/tmp/reverify/logs/$name.log
  git -C /repo worktree remove --force $wt >/dev/null 2>&1
  git -C /repo worktree add -q --detach $wt HEAD || { echo "$name: worktree failed"; return; }
  head=$(git -C /repo rev-parse --short HEAD)
  if ! git -C $wt apply --3way /verif/seeded/$name/patch.diff >$log 2>&1; then
    python3 - "$name" "$head" <<'PY'
import json,sys
json.dump({"seeded": sys.argv[1], "repo_head": sys.argv[2], "applies": False, "result": "patch no longer applies to HEAD (the code it changed was repaired or rewritten since)"}, open(f"/verif/seeded/{sys.argv[1]}/reverify.json","w"), indent=1)
PY
    echo "$name: patch does not apply"
  else
    git -C $wt reset -q
    t0=$(date +%s)
    VERIF_HARNESS_CMD=dev_$lc VERIF_REPO=$wt timeout 3000 ./check $id --tier quick >>$log 2>&1
    ec=$?
    python3 - "$name" "$head" "$ec" "$log" "$(( $(date +%s) - t0 ))" <<'PY'
import json,sys,re
name,head,ec,log,secs=sys.argv[1:6]
lines=[l.rstrip() for l in open(log, errors="replace") if not l.startswith("WARNING conda")]
summ=[l for l in lines if re.match(r"C\d\d tier=", l)]
viol=[l for l in lines if l.startswith("VIOLATION")]
res="caught" if (ec!="0" and viol) else ("missed" if ec=="0" else "check-error")
if viol and viol[-1].endswith("no-failing-input-found"): res="caught (correspondence/proof break, no failing input found)"
json.dump({"seeded": name, "repo_head": head, "applies": True, "exit": int(ec), "result": res,
           "summary": summ[-1] if summ else "", "violation": viol[-1] if viol else "", "wall_s": int(secs),
           "command": f"git worktree add /tmp/reverify/{name} HEAD; git apply --3way seeded/{name}/patch.diff; VERIF_REPO=/tmp/reverify/{name} ./check {name[:3]} --tier quick"},
          open(f"/verif/seeded/{name}/reverify.json","w"), indent=1)
print(f"{name}: {res} :: {summ[-1] if summ else ''}")
PY
  fi
  git -C /repo worktree remove --force $wt >/dev/null 2>&1
}
# lanes
i=0
for n in $names; do
  one $n &
  i=$((i+1))
  if [ $((i % J)) -eq 0 ]; then wait; fi
done
wait
git -C /repo worktree prune
