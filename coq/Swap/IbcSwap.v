(* C11 — model of the IBC swap middleware (x/swap/module/ibc_middleware.go, x/swap/keeper/ibc.go and
   the two in-flight packet stores) as a state machine.

   State: the bank balances of the accounts involved, the incoming / outgoing in-flight stores,
   and the part of IBC core this code talks to: live packet commitments of the outgoing legs,
   acknowledgements written for incoming packets, packet receipts, next send sequences.
   Events: Recv (an incoming ICS-20 packet reaches OnRecvPacket through MsgRecvPacket),
   Ack (MsgAcknowledgement for an outgoing leg), Timeout (MsgTimeout for an outgoing leg).

   Oracles (values read from the observation, never axioms): the route execution (amount consumed,
   amount produced: [r_quote]); the classification of the memo by the real decoder ([r_class]); whether
   the transfer module accepts the metadata of a leg ([f_ok]); whether the receiver string is a usable
   local address ([r_rcv_ok]).  IBC core / transfer contract (DESIGN.md section 6): an error
   acknowledgement (or a failed / panicking message) discards every write; Transfer moves the coins
   from the named sender into escrow and returns the channel's next sequence; an error acknowledgement
   or a timeout of a transfer refunds its sender; WriteAcknowledgement succeeds once per packet;
   acknowledgements / timeouts are only accepted for packets whose commitment is still live.

   The virtual account ESC is "escrowed or burned by an outgoing transfer minus minted or unescrowed by
   an incoming one"; POOL is the counterparty of the route execution.

   [cfg] selects the code as found (all fixes off) or with the repairs of notes/patches/C11-*.patch. *)
From Coq Require Import ZArith List Bool.
Import ListNotations.
From Sunrise Require Import Base.Outcome Base.Dec.
Local Open Scope Z_scope.
Local Open Scope res_scope.

(* ---------- identifiers ---------- *)
Definition idx := (Z * Z)%type.                      (* (channel number, sequence); the port is "transfer" *)
Definition idx_eqb (a b : idx) : bool := (fst a =? fst b) && (snd a =? snd b).
Definition upd {A} (f : idx -> A) (i : idx) (v : A) : idx -> A := fun j => if idx_eqb j i then v else f j.
Definition updz (f : Z -> Z) (k v : Z) : Z -> Z := fun j => if j =? k then v else f j.
Definition updl {A} (f : idx -> bool -> A) (k : idx) (b : bool) (v : A) : idx -> bool -> A :=
  fun k' b' => if idx_eqb k' k && Bool.eqb b' b then v else f k' b'.

Definition MOD : Z := 0.      (* the swap module account *)
Definition PROV : Z := 1.     (* the interface provider named in the memo *)
Definition ESC : Z := 2.      (* virtual: locked by outgoing transfers - released to incoming ones *)
Definition POOL : Z := 3.     (* virtual: counterparty of the route execution *)

(* ---------- bank ---------- *)
Definition bank := Z -> Z -> Z.
Definition badd (b : bank) (a d v : Z) : bank :=
  fun a' d' => if (a' =? a) && (d' =? d) then b a' d' + v else b a' d'.
Definition bmove (b : bank) (from to d v : Z) : bank := badd (badd b from d (- v)) to d v.
(* SendCoins: fails on a negative amount or insufficient funds, no change then *)
Definition bsend (b : bank) (from to d v : Z) : option bank :=
  if (v <? 0) || (b from d <? v) then None else Some (bmove b from to d v).

(* ---------- acknowledgement values ---------- *)
(* leg acknowledgements as codes: 0 = none (empty bytes), 1 = the ICS-20 success acknowledgement,
   2 = an error acknowledgement written by the far end, 3 = the "retry count exceeded" error
   acknowledgement made up by the timeout handler *)
Definition ACK_NONE : Z := 0.
Definition ACK_OK : Z := 1.
Definition ACK_TIMEOUT : Z := 3.
Definition is_err_ack (a : Z) : bool := negb (a =? ACK_OK).

Inductive ack :=
| AErr                                        (* error acknowledgement: the receive was refused *)
| APlain                                      (* not a swap packet: the transfer module's own acknowledgement *)
| ASwap (tin tout a0 ca fa : Z).              (* SwapAcknowledgement{result, ibc_ack, change_ack, forward_ack} *)

(* ---------- stores ---------- *)
Inductive slot := SIdx (i : idx) | SAck (a : Z).
Record inc := { i_ack0 : Z; i_tin : Z; i_tout : Z; i_fee : Z; i_change : slot; i_forward : slot }.
Record outr := { o_wait : idx; o_retries : Z }.
(* a live commitment of an outgoing leg; [p_owner] is ghost: the incoming packet it was sent for and
   whether it is the forward (true) or the change (false) leg *)
Record pkt := { p_sender : Z; p_denom : Z; p_amt : Z; p_owner : option (idx * bool) }.

Record st := {
  bal : bank;
  incs : idx -> option inc;
  outs : idx -> option outr;
  coms : idx -> option pkt;
  acks : idx -> option ack;
  rcpt : idx -> bool;
  nseq : Z -> Z;
  (* ghost *)
  g_recv : Z -> Z;                 (* accepted incoming amounts, per denom *)
  g_sent : Z -> Z;                 (* amounts of legs acknowledged with success, per denom *)
  g_lock : Z -> Z;                 (* amounts of live leg commitments, per denom *)
  g_out : idx -> bool -> option Z  (* final outcome delivered for leg (incoming key, is-forward) *)
}.

Definition set_bal (s : st) (b : bank) : st :=
  {| bal := b; incs := incs s; outs := outs s; coms := coms s; acks := acks s; rcpt := rcpt s; nseq := nseq s;
     g_recv := g_recv s; g_sent := g_sent s; g_lock := g_lock s; g_out := g_out s |}.
Definition set_incs (s : st) (x : idx -> option inc) : st :=
  {| bal := bal s; incs := x; outs := outs s; coms := coms s; acks := acks s; rcpt := rcpt s; nseq := nseq s;
     g_recv := g_recv s; g_sent := g_sent s; g_lock := g_lock s; g_out := g_out s |}.
Definition set_outs (s : st) (x : idx -> option outr) : st :=
  {| bal := bal s; incs := incs s; outs := x; coms := coms s; acks := acks s; rcpt := rcpt s; nseq := nseq s;
     g_recv := g_recv s; g_sent := g_sent s; g_lock := g_lock s; g_out := g_out s |}.
Definition set_coms (s : st) (x : idx -> option pkt) : st :=
  {| bal := bal s; incs := incs s; outs := outs s; coms := x; acks := acks s; rcpt := rcpt s; nseq := nseq s;
     g_recv := g_recv s; g_sent := g_sent s; g_lock := g_lock s; g_out := g_out s |}.
Definition set_acks (s : st) (x : idx -> option ack) : st :=
  {| bal := bal s; incs := incs s; outs := outs s; coms := coms s; acks := x; rcpt := rcpt s; nseq := nseq s;
     g_recv := g_recv s; g_sent := g_sent s; g_lock := g_lock s; g_out := g_out s |}.
Definition set_rcpt (s : st) (x : idx -> bool) : st :=
  {| bal := bal s; incs := incs s; outs := outs s; coms := coms s; acks := acks s; rcpt := x; nseq := nseq s;
     g_recv := g_recv s; g_sent := g_sent s; g_lock := g_lock s; g_out := g_out s |}.
Definition set_nseq (s : st) (x : Z -> Z) : st :=
  {| bal := bal s; incs := incs s; outs := outs s; coms := coms s; acks := acks s; rcpt := rcpt s; nseq := x;
     g_recv := g_recv s; g_sent := g_sent s; g_lock := g_lock s; g_out := g_out s |}.
Definition set_grecv (s : st) (x : Z -> Z) : st :=
  {| bal := bal s; incs := incs s; outs := outs s; coms := coms s; acks := acks s; rcpt := rcpt s; nseq := nseq s;
     g_recv := x; g_sent := g_sent s; g_lock := g_lock s; g_out := g_out s |}.
Definition set_gsent (s : st) (x : Z -> Z) : st :=
  {| bal := bal s; incs := incs s; outs := outs s; coms := coms s; acks := acks s; rcpt := rcpt s; nseq := nseq s;
     g_recv := g_recv s; g_sent := x; g_lock := g_lock s; g_out := g_out s |}.
Definition set_glock (s : st) (x : Z -> Z) : st :=
  {| bal := bal s; incs := incs s; outs := outs s; coms := coms s; acks := acks s; rcpt := rcpt s; nseq := nseq s;
     g_recv := g_recv s; g_sent := g_sent s; g_lock := x; g_out := g_out s |}.
Definition set_gout (s : st) (x : idx -> bool -> option Z) : st :=
  {| bal := bal s; incs := incs s; outs := outs s; coms := coms s; acks := acks s; rcpt := rcpt s; nseq := nseq s;
     g_recv := g_recv s; g_sent := g_sent s; g_lock := g_lock s; g_out := x |}.

(* ---------- configuration: code as found / repaired ---------- *)
Record cfg := {
  c_unblocked : bool;   (* C11-1: the swap module account may receive funds *)
  c_wired : bool;       (* C11-2: IbcKeeperFn is provided *)
  c_fix_rem : bool;     (* C11-3: the unspent input is handed to the receiver *)
  c_fix_idx : bool;     (* C11-4: a leg slot is resolved only by its own packet; slots follow re-sent packets *)
  c_fix_refund : bool   (* C11-5: no refund when the packet is sent again *)
}.
Definition fixed : cfg := {| c_unblocked := true; c_wired := true; c_fix_rem := true; c_fix_idx := true; c_fix_refund := true |}.
Definition as_found : cfg := {| c_unblocked := false; c_wired := false; c_fix_rem := false; c_fix_idx := false; c_fix_refund := false |}.

(* ---------- events ---------- *)
Record fwd := {
  f_chan : Z;
  f_retries : Z;       (* metadata.Retries (uint32) *)
  f_ok : bool          (* oracle: the transfer module accepts port/channel/receiver/timeout of this metadata *)
}.
Inductive strat := ExIn (min_out : Z) | ExOut (amount_out : Z) (change : option fwd).
Record memo := {
  m_prov : Z;          (* 0: no interface provider, 1: a valid address, 2: a string that is not an address *)
  m_strat : strat;
  m_fwd : option fwd
}.
Inductive mclass :=
| MPass                 (* DecodeSwapMetadata returned an error: handled by the transfer module alone *)
| MInvalid              (* metadata.Validate() returned an error *)
| MPanic                (* decoding / validation panicked *)
| MSwap (m : memo).

Record recv := {
  r_key : idx;          (* destination channel and sequence of the incoming packet *)
  r_rcv : Z;            (* account named as receiver *)
  r_rcv_ok : bool;      (* oracle: the receiver string is a local address that may receive funds *)
  r_in : Z; r_out : Z;  (* denoms of the route *)
  r_amt : Z;
  r_class : mclass;
  r_denom_ok : bool;    (* route.denom_in is the denom of the packet on this chain *)
  r_quote : res (Z * Z);(* oracle: route execution = (amount in consumed, gross amount out), an error, or a panic *)
  r_rate : Z            (* params.InterfaceFeeRate, raw LegacyDec *)
}.

Inductive event := ERecv (r : recv) | EAck (i : idx) (a : Z) | ETimeout (i : idx).

Definition E_REFUSED : Z := 1.
Definition E_ACK_EXISTS : Z := 2.
Definition E_SEND : Z := 3.

(* ---------- interface fee (keeper_swap_exact_amount_{in,out}.go) ---------- *)
(* net = Dec(gross).Mul(1 - rate).TruncateInt(); fee = gross - net *)
Definition fee_exact_in (prov : bool) (rate gross : Z) : option (Z * Z) :=
  if prov then
    let? om := dsub P rate in
    let? x := dmul (dec_of_int gross) om in
    let net := dtrunc_int x in Some (net, gross - net)
  else Some (gross, 0).
(* gross = Dec(net).Quo(1 - rate).TruncateInt(); fee = gross - net *)
Definition fee_exact_out (prov : bool) (rate net : Z) : option (Z * Z) :=
  if prov then
    let? om := dsub P rate in
    let? x := dquo (dec_of_int net) om in
    let gross := dtrunc_int x in Some (gross, gross - net)
  else Some (net, 0).

(* ---------- TransferAndCreateOutgoingInFlightPacket ---------- *)
(* retries == 0 -> DefaultRetryCount (3), else uint8(retries) *)
Definition norm_retries (r : Z) : Z := if r =? 0 then 3 else r mod 256.

Definition transfer (s : st) (key : idx) (isf : bool) (sender d amt : Z) (f : fwd) : res (st * idx) :=
  if negb (f_ok f) || (amt <=? 0) then Err E_REFUSED else
  match bsend (bal s) sender ESC d amt with
  | None => Err E_REFUSED
  | Some b =>
      let i := (f_chan f, nseq s (f_chan f)) in
      let s1 := set_bal s b in
      let s2 := set_nseq s1 (updz (nseq s) (f_chan f) (nseq s (f_chan f) + 1)) in
      let s3 := set_coms s2 (upd (coms s) i (Some {| p_sender := sender; p_denom := d; p_amt := amt; p_owner := Some (key, isf) |})) in
      let s4 := set_glock s3 (updz (g_lock s) d (g_lock s d + amt)) in
      let s5 := set_outs s4 (upd (outs s) i (Some {| o_wait := key; o_retries := norm_retries (f_retries f) |})) in
      Ok (s5, i)
  end.

(* ---------- OnRecvPacket for a swap memo (after decode + Validate) ---------- *)
(* Err _ = an error acknowledgement is returned (refused); Panic = the callback panicked *)

(* receiveFunds + SwapIncomingFund + the hand-over of the remainder: the bank after them and
   (amount in consumed, gross amount out, interface fee) *)
Definition recv_funds (c : cfg) (s : st) (r : recv) (m : memo) : res (bank * (Z * Z * Z)) :=
  let R := r_rcv r in let A := r_amt r in
  if negb (r_denom_ok r) then Err E_REFUSED else
  (* receiveFunds: the transfer module credits the module account *)
  if negb (c_unblocked c) || (A <=? 0) then Err E_REFUSED else
  let b0 := bmove (bal s) ESC MOD (r_in r) A in
  if negb (r_rcv_ok r) then Err E_REFUSED else
  match r_quote r with
  | Panic => Panic
  | Err _ => Err E_REFUSED
  | Ok (tin, tout) =>
      (* the route moves tin from the module account to the pools and tout back *)
      match bsend b0 MOD POOL (r_in r) tin with
      | None => Err E_REFUSED
      | Some b1 =>
          let b2 := bmove b1 POOL MOD (r_out r) tout in
          let hasfee := negb (m_prov m =? 0) in
          let! fee := (match m_strat m with
                       | ExIn min_out =>
                           let! (net, fee) := of_opt (fee_exact_in hasfee (r_rate r) tout) in
                           if net <? min_out then Err E_REFUSED else Ok fee
                       | ExOut aout _ =>
                           let! (_, fee) := of_opt (fee_exact_out hasfee (r_rate r) aout) in
                           if A <? tin then Err E_REFUSED else Ok fee
                       end) in
          if hasfee && negb (m_prov m =? 1) then Err E_REFUSED else
          let! b3 := (if hasfee && (0 <? fee) then
                        match bsend b2 MOD PROV (r_out r) fee with Some b => Ok b | None => Err E_REFUSED end
                      else Ok b2) in
          let net := tout - fee in
          if net <? 0 then Panic else            (* sdk.NewCoin panics on a negative amount *)
          let! b4 := (match bsend b3 MOD R (r_out r) net with Some b => Ok b | None => Err E_REFUSED end) in
          (* ProcessSwappedFund: the remainder *)
          let rem := A - tin in
          let! b5 := (if (0 <? rem) && c_fix_rem c then
                        match bsend b4 MOD R (r_in r) rem with Some b => Ok b | None => Err E_REFUSED end
                      else Ok b4) in
          Ok (b5, (tin, tout, fee))
      end
  end.

Definition send_change (s : st) (k : idx) (R din rem : Z) (m : memo) : res (st * slot) :=
  match m_strat m with
  | ExOut _ (Some ch) =>
      if 0 <? rem then let! (s', i) := transfer s k false R din rem ch in Ok (s', SIdx i)
      else Ok (s, SAck ACK_NONE)
  | _ => Ok (s, SAck ACK_NONE)
  end.
Definition send_forward (s : st) (k : idx) (R dout net : Z) (m : memo) : res (st * slot) :=
  match m_fwd m with
  | Some f => let! (s', i) := transfer s k true R dout net f in Ok (s', SIdx i)
  | None => Ok (s, SAck ACK_NONE)
  end.
Definition finish (s : st) (k : idx) (tin tout fee : Z) (chg fw : slot) : st :=
  match chg, fw with
  | SAck _, SAck _ =>
      (* nothing to wait for: the acknowledgement is returned to IBC core, which writes it *)
      set_acks s (upd (acks s) k (Some (ASwap tin tout ACK_OK ACK_NONE ACK_NONE)))
  | _, _ =>
      set_incs s (upd (incs s) k (Some {| i_ack0 := ACK_OK; i_tin := tin; i_tout := tout; i_fee := fee;
                                          i_change := chg; i_forward := fw |}))
  end.

Definition recv_swap (c : cfg) (s : st) (r : recv) (m : memo) : res st :=
  let k := r_key r in let R := r_rcv r in
  let! (b5, (tin, tout, fee)) := recv_funds c s r m in
  let s1 := set_grecv (set_bal s b5) (updz (g_recv s) (r_in r) (g_recv s (r_in r) + r_amt r)) in
  let! (s2, chg) := send_change s1 k R (r_in r) (r_amt r - tin) m in
  let! (s3, fw) := send_forward s2 k R (r_out r) (tout - fee) m in
  Ok (finish s3 k tin tout fee chg fw).

(* MsgRecvPacket: a redundant relay is a no-op; a panic fails the message (nothing is written, not
   even the receipt); an error acknowledgement discards the callback's writes *)
Definition step_recv (c : cfg) (s : st) (r : recv) : res st :=
  let k := r_key r in
  if rcpt s k then Ok s else
  let s0 := set_rcpt s (upd (rcpt s) k true) in
  let refused := Ok (set_acks s0 (upd (acks s0) k (Some AErr))) in
  match r_class r with
  | MPanic => Panic
  | MInvalid => refused
  | MPass =>
      (* the transfer module credits the receiver *)
      if negb (r_rcv_ok r) || (r_amt r <=? 0) then refused else
      Ok (set_acks (set_grecv (set_bal s0 (bmove (bal s0) ESC (r_rcv r) (r_in r) (r_amt r)))
                              (updz (g_recv s0) (r_in r) (g_recv s0 (r_in r) + r_amt r)))
                   (upd (acks s0) k (Some APlain)))
  | MSwap m =>
      match recv_swap c s0 r m with
      | Ok s' => Ok s'
      | Err _ => refused
      | Panic => Panic
      end
  end.

(* ---------- ShouldDeleteCompletedWaitingPacket ---------- *)
Definition complete (c : cfg) (s : st) (k : idx) (r : inc) : res st :=
  match i_change r, i_forward r with
  | SAck ca, SAck fa =>
      if negb (c_wired c) then Panic else                       (* k.IbcKeeperFn() on a nil func *)
      match acks s k with
      | Some _ => Err E_ACK_EXISTS                               (* WriteAcknowledgement refuses a second write *)
      | None =>
          Ok (set_incs (set_acks s (upd (acks s) k (Some (ASwap (i_tin r) (i_tout r) (i_ack0 r) ca fa))))
                       (upd (incs s) k None))
      end
  | _, _ => Ok (set_incs s (upd (incs s) k (Some r)))
  end.

Definition fill_slot (only_own : bool) (i : idx) (a : Z) (x : slot) : slot :=
  match x with
  | SIdx j => if only_own then (if idx_eqb j i then SAck a else x) else SAck a
  | SAck _ => x
  end.
Definition move_slot (old new : idx) (x : slot) : slot :=
  match x with
  | SIdx j => if idx_eqb j old then SIdx new else x
  | SAck _ => x
  end.

(* the transfer module's refund of an outgoing packet (refundPacketTokens) *)
Definition refund (s : st) (p : pkt) : st :=
  set_bal s (bmove (bal s) ESC (p_sender p) (p_denom p) (p_amt p)).

Definition note_outcome (s : st) (p : pkt) (a : Z) : st :=
  match p_owner p with
  | Some (k, b) => set_gout s (updl (g_out s) k b (Some a))
  | None => s
  end.

(* ---------- MsgAcknowledgement for an outgoing packet ---------- *)
Definition step_ack (c : cfg) (s : st) (i : idx) (a : Z) : res st :=
  match coms s i with
  | None => Ok s                                                  (* no live commitment: no-op *)
  | Some p =>
      (* IBC core deletes the commitment, then calls the middleware stack *)
      let s0 := set_glock (set_coms s (upd (coms s) i None)) (updz (g_lock s) (p_denom p) (g_lock s (p_denom p) - p_amt p)) in
      let! s1 := (match outs s0 i with
                  | None => Ok s0
                  | Some o =>
                      match incs s0 (o_wait o) with
                      | None => Ok s0                             (* returns nil, the outgoing record stays *)
                      | Some r =>
                          let s' := note_outcome (set_outs s0 (upd (outs s0) i None)) p a in
                          let r' := {| i_ack0 := i_ack0 r; i_tin := i_tin r; i_tout := i_tout r; i_fee := i_fee r;
                                       i_change := fill_slot (c_fix_idx c) i a (i_change r);
                                       i_forward := fill_slot (c_fix_idx c) i a (i_forward r) |} in
                          complete c s' (o_wait o) r'
                      end
                  end) in
      (* underlying transfer module: refund on an error acknowledgement *)
      if is_err_ack a then Ok (refund s1 p)
      else Ok (set_gsent s1 (updz (g_sent s1) (p_denom p) (g_sent s1 (p_denom p) + p_amt p)))
  end.

(* ---------- MsgTimeout for an outgoing packet ---------- *)
Definition step_timeout (c : cfg) (s : st) (i : idx) : res st :=
  match coms s i with
  | None => Ok s
  | Some p =>
      let s0 := set_glock (set_coms s (upd (coms s) i None)) (updz (g_lock s) (p_denom p) (g_lock s (p_denom p) - p_amt p)) in
      match outs s0 i with
      | None => Ok (refund s0 p)
      | Some o =>
          let s1 := set_outs s0 (upd (outs s0) i None) in
          let left := o_retries o - 1 in
          if 0 <? left then
            (* send the same packet data again under the channel's next sequence *)
            if negb (c_wired c) then Panic else
            let ch := fst i in
            let j := (ch, nseq s1 ch) in
            let s2 := set_nseq s1 (updz (nseq s1) ch (nseq s1 ch + 1)) in
            let s3 := set_glock (set_coms s2 (upd (coms s2) j (Some p))) (updz (g_lock s2) (p_denom p) (g_lock s2 (p_denom p) + p_amt p)) in
            let s4 := set_outs s3 (upd (outs s3) j (Some {| o_wait := o_wait o; o_retries := left |})) in
            let s5 := if c_fix_idx c then
                        match incs s4 (o_wait o) with
                        | Some r => set_incs s4 (upd (incs s4) (o_wait o)
                                      (Some {| i_ack0 := i_ack0 r; i_tin := i_tin r; i_tout := i_tout r; i_fee := i_fee r;
                                               i_change := move_slot i j (i_change r); i_forward := move_slot i j (i_forward r) |}))
                        | None => s4
                        end
                      else s4 in
            if c_fix_refund c then Ok s5 else Ok (refund s5 p)
          else
            let! s2 := (match incs s1 (o_wait o) with
                        | None => Ok s1
                        | Some r =>
                            let s' := note_outcome s1 p ACK_TIMEOUT in
                            let r' := {| i_ack0 := i_ack0 r; i_tin := i_tin r; i_tout := i_tout r; i_fee := i_fee r;
                                         i_change := fill_slot true i ACK_TIMEOUT (i_change r);
                                         i_forward := fill_slot true i ACK_TIMEOUT (i_forward r) |} in
                            complete c s' (o_wait o) r'
                        end) in
            Ok (refund s2 p)
      end
  end.

Definition step (c : cfg) (s : st) (e : event) : res st :=
  match e with
  | ERecv r => step_recv c s r
  | EAck i a => step_ack c s i a
  | ETimeout i => step_timeout c s i
  end.

(* a message that fails or panics leaves the state as it was (baseapp) *)
Definition apply (c : cfg) (s : st) (e : event) : st :=
  match step c s e with Ok s' => s' | _ => s end.

Fixpoint run (c : cfg) (s : st) (es : list event) : st :=
  match es with
  | [] => s
  | e :: tl => run c (apply c s e) tl
  end.

(* a state with empty stores *)
Definition clean (b : bank) (n : Z -> Z) : st :=
  {| bal := b; incs := fun _ => None; outs := fun _ => None; coms := fun _ => None; acks := fun _ => None;
     rcpt := fun _ => false; nseq := n; g_recv := fun _ => 0; g_sent := fun _ => 0; g_lock := fun _ => 0;
     g_out := fun _ _ => None |}.
