(* C06 — placeholder while the proofs are being built *)
From Coq Require Import ZArith.
Theorem C06_placeholder : True. Proof. exact I. Qed.
Print Assumptions C06_placeholder.
