package c19

import (
	"fmt"
	"math"
	"time"

	sdkmath "cosmossdk.io/math"
	sdk "github.com/cosmos/cosmos-sdk/types"

	datypes "github.com/sunriselayer/sunrise/x/da/types"
	likeeper "github.com/sunriselayer/sunrise/x/liquidityincentive/keeper"
	litypes "github.com/sunriselayer/sunrise/x/liquidityincentive/types"
	lptypes "github.com/sunriselayer/sunrise/x/liquiditypool/types"
	sckeeper "github.com/sunriselayer/sunrise/x/shareclass/keeper"
	sctypes "github.com/sunriselayer/sunrise/x/shareclass/types"
	swaptypes "github.com/sunriselayer/sunrise/x/swap/types"

	"verifharness/apph"
)

// degenerateMsgs sends the degenerate-but-valid messages the handlers may accept: a gauge vote
// without pool weights, one with weight 0, a zero-amount undelegation.  Whatever a handler
// rejects is only logged; whatever it accepts becomes a record an export/import must keep.
func degenerateMsgs(h *apph.H, note func(string, error)) {
	liSrv := likeeper.NewMsgServerImpl(h.App.LiquidityincentiveKeeper)
	scSrv := sckeeper.NewMsgServerImpl(h.App.ShareclassKeeper)
	n := len(h.Accts)
	note("degenerate: vote gauge with no pool weights", apph.Tx(h.Ctx(), func(ctx sdk.Context) error {
		_, e := liSrv.VoteGauge(ctx, &litypes.MsgVoteGauge{Sender: h.Accts[n-1].Addr.String(), PoolWeights: nil})
		return e
	}))
	pools, _ := h.App.LiquiditypoolKeeper.GetAllPools(h.Ctx())
	if len(pools) > 0 {
		note("degenerate: vote gauge with weight 0", apph.Tx(h.Ctx(), func(ctx sdk.Context) error {
			_, e := liSrv.VoteGauge(ctx, &litypes.MsgVoteGauge{Sender: h.Accts[n-2].Addr.String(), PoolWeights: []litypes.PoolWeight{{PoolId: pools[0].Id, Weight: "0"}}})
			return e
		}))
	}
	if vals, e := h.App.StakingKeeper.GetAllValidators(h.Ctx()); e == nil && len(vals) > 0 {
		note("degenerate: non-voting undelegate of 0", apph.Tx(h.Ctx(), func(ctx sdk.Context) error {
			_, e := scSrv.NonVotingUndelegate(ctx, &sctypes.MsgNonVotingUndelegate{Sender: h.Accts[0].Addr.String(), ValidatorAddress: vals[0].OperatorAddress,
				Amount: sdk.NewCoin("urise", sdkmath.ZeroInt()), Recipient: h.Accts[0].Addr.String()})
			return e
		}))
	}
}

// degenerateRecords writes, through the keepers' setters, one or more degenerate-but-valid
// records into every collection of every module: empty lists, zero amounts and counts, empty
// strings where the key codec allows them, zero-valued sub-messages, smallest and largest ids.
// An export or import that filters "useless" entries then shows up as a store difference.
// A setter that refuses a record is logged (the record is then not part of the state).
func degenerateRecords(h *apph.H, ctx sdk.Context, note func(string, error)) {
	tag := func(s string) string { return "degenerate: " + s }
	mk := func(s string) sdk.AccAddress {
		b := make([]byte, 20)
		copy(b, []byte(s))
		return sdk.AccAddress(b)
	}
	zeroDec := sdkmath.LegacyZeroDec()

	// liquiditypool
	lp := h.App.LiquiditypoolKeeper
	note(tag("pool with only an id (largest id, empty denoms and rates)"), lp.SetPool(ctx, lptypes.Pool{Id: math.MaxUint64}))
	note(tag("pool with zero liquidity, zero price, tick 0"), lp.SetPool(ctx, lptypes.Pool{Id: math.MaxUint64 - 1, DenomBase: "uatom", DenomQuote: "uusdc", FeeRate: zeroDec.String(),
		TickParams: lptypes.TickParams{PriceRatio: "1.000100000000000000", BaseOffset: zeroDec.String()}, CurrentTickLiquidity: zeroDec.String(), CurrentSqrtPrice: zeroDec.String()}))
	note(tag("position with zero liquidity and an empty range (largest id)"), lp.SetPosition(ctx, lptypes.Position{Id: math.MaxUint64, Address: mk("zero-liquidity").String(), PoolId: math.MaxUint64 - 1, Liquidity: zeroDec.String()}))
	note(tag("position with extreme ticks"), lp.SetPosition(ctx, lptypes.Position{Id: math.MaxUint64 - 1, Address: mk("extreme-ticks").String(), PoolId: 0, LowerTick: math.MinInt64, UpperTick: math.MaxInt64, Liquidity: "0.000000000000000001"}))
	lp.SetTickInfo(ctx, lptypes.TickInfo{PoolId: math.MaxUint64 - 1, TickIndex: 0, LiquidityGross: zeroDec.String(), LiquidityNet: zeroDec.String()})
	lp.SetTickInfo(ctx, lptypes.TickInfo{PoolId: 0, TickIndex: math.MinInt64, LiquidityGross: zeroDec.String(), LiquidityNet: zeroDec.String()})
	note(tag("tick infos with zero liquidity, no fee growth, extreme index"), nil)
	note(tag("accumulator with no value and zero shares"), lp.SetAccumulator(ctx, lptypes.AccumulatorObject{Name: lptypes.KeyFeePoolAccumulator(math.MaxUint64 - 1), AccumValue: sdk.NewDecCoins(), TotalShares: zeroDec.String()}))
	note(tag("accumulator with an empty name"), lp.SetAccumulator(ctx, lptypes.AccumulatorObject{Name: "", AccumValue: nil, TotalShares: zeroDec.String()}))
	note(tag("accumulator position with zero shares and no coins"), lp.SetAccumulatorPosition(ctx, lptypes.KeyFeePoolAccumulator(math.MaxUint64-1), sdk.NewDecCoins(), lptypes.KeyFeePositionAccumulator(math.MaxUint64), zeroDec, sdk.NewDecCoins()))
	note(tag("accumulator position with empty names"), lp.SetAccumulatorPosition(ctx, "", nil, "", zeroDec, nil))

	// liquidityincentive
	li := h.App.LiquidityincentiveKeeper
	note(tag("epoch without gauges, blocks 0..0 (largest id)"), li.SetEpoch(ctx, litypes.Epoch{Id: math.MaxUint64}))
	note(tag("epoch with an empty gauge list"), li.SetEpoch(ctx, litypes.Epoch{Id: math.MaxUint64 - 1, StartBlock: 5, EndBlock: 5, Gauges: []litypes.Gauge{}}))
	note(tag("gauge with count 0"), li.SetGauge(ctx, litypes.Gauge{PreviousEpochId: math.MaxUint64, PoolId: math.MaxUint64, Count: sdkmath.ZeroInt()}))
	note(tag("gauge (0,0) with count 0"), li.SetGauge(ctx, litypes.Gauge{PreviousEpochId: 0, PoolId: 0, Count: sdkmath.ZeroInt()}))
	note(tag("vote without pool weights"), li.SetVote(ctx, litypes.Vote{Sender: mk("empty-vote").String()}))
	note(tag("vote with an empty weight list"), li.SetVote(ctx, litypes.Vote{Sender: mk("empty-list-vote").String(), PoolWeights: []litypes.PoolWeight{}}))
	note(tag("vote with weight 0"), li.SetVote(ctx, litypes.Vote{Sender: mk("zero-weight-vote").String(), PoolWeights: []litypes.PoolWeight{{PoolId: 0, Weight: "0.000000000000000000"}}}))

	// swap
	sw := h.App.SwapKeeper
	note(tag("incoming packet with a zero index, no data, zero fee"), sw.SetIncomingInFlightPacket(ctx, swaptypes.IncomingInFlightPacket{InterfaceFee: sdkmath.ZeroInt()}))
	note(tag("incoming packet with empty acks"), sw.SetIncomingInFlightPacket(ctx, swaptypes.IncomingInFlightPacket{Index: swaptypes.PacketIndex{PortId: "transfer", ChannelId: "channel-0", Sequence: math.MaxUint64},
		InterfaceFee: sdkmath.ZeroInt(), Ack: []byte{}, Change: &swaptypes.IncomingInFlightPacket_AckChange{AckChange: []byte{}}, Forward: &swaptypes.IncomingInFlightPacket_AckForward{AckForward: []byte{}}}))
	note(tag("outgoing packet, all zero"), sw.SetOutgoingInFlightPacket(ctx, swaptypes.OutgoingInFlightPacket{}))
	note(tag("outgoing packet with no retries left (largest sequence)"), sw.SetOutgoingInFlightPacket(ctx, swaptypes.OutgoingInFlightPacket{Index: swaptypes.PacketIndex{PortId: "transfer", ChannelId: "channel-0", Sequence: math.MaxUint64}, RetriesRemaining: 0}))

	// da
	da := h.App.DaKeeper
	far := h.Time.Add(300000 * time.Second)
	note(tag("published data without shards, collateral or parties"), da.SetPublishedData(ctx, datypes.PublishedData{MetadataUri: "ipfs://empty-item", Timestamp: far, PublishedTimestamp: far, Status: datypes.Status_STATUS_VERIFIED}))
	note(tag("published data with unspecified status and empty uri"), da.SetPublishedData(ctx, datypes.PublishedData{MetadataUri: "", Timestamp: far, PublishedTimestamp: far}))
	note(tag("proof with no indices and no proofs"), da.SetProof(ctx, datypes.Proof{MetadataUri: "ipfs://empty-item", Sender: mk("empty-proof").String()}))
	note(tag("proof with empty lists and empty uri"), da.SetProof(ctx, datypes.Proof{MetadataUri: "", Sender: mk("empty-proof-2").String(), Indices: []int64{}, Proofs: [][]byte{}}))
	note(tag("invalidity with no indices"), da.SetInvalidity(ctx, datypes.Invalidity{MetadataUri: "ipfs://empty-item", Sender: mk("empty-invalidity").String()}))
	note(tag("fault counter 0"), da.SetFaultCounter(ctx, sdk.ValAddress(mk("zero-faults")), 0))
	note(tag("deputy equal to the validator"), da.SetProofDeputy(ctx, sdk.ValAddress(mk("self-deputy")), mk("self-deputy")))

	// shareclass
	sc := h.App.ShareclassKeeper
	_, e := sc.AppendUnbonding(ctx, sctypes.Unbonding{Address: mk("zero-unbonding").String(), CompletionTime: far, Amount: sdk.NewCoin("urise", sdkmath.ZeroInt())})
	note(tag("unbonding of amount 0"), e)
	zd, _ := sdkmath.NewDecFromString("0")
	note(tag("reward multiplier 0"), sc.SetRewardMultiplier(ctx, sdk.ValAddress(mk("zero-multiplier")), "urise", zd))
	note(tag("user's last reward multiplier 0"), sc.SetUserLastRewardMultiplier(ctx, mk("zero-user"), sdk.ValAddress(mk("zero-multiplier")), "urise", zd))
	note(tag("last reward handling time at the epoch"), sc.SetLastRewardHandlingTime(ctx, sdk.ValAddress(mk("zero-multiplier")), time.Unix(0, 0).UTC()))

	// selfdelegation
	sd := h.App.SelfdelegationKeeper
	note(tag("lockup account registered to itself"), sd.LockupAccounts.Set(ctx, mk("self-owned-lockup"), mk("self-owned-lockup")))
	note(tag("proxy equal to the owner"), sd.SelfDelegationProxies.Set(ctx, mk("self-proxy"), mk("self-proxy")))
	_ = fmt.Sprint
}
