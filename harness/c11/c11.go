// Package c11: harness for property C11 (IBC swap middleware: funds conserved, one acknowledgement,
// only after every leg resolves). See env.go (application + loop-back channels + relayer), gen.go
// (execution of one history, observation, Coq terms), run.go (corpus, generator, statistics).
package c11

// Run generates n histories from seed (after the fixed corpus), runs them on the real application and
// writes cases_*.v and stats.json into outDir.
func Run(seed int64, n int, outDir string) error {
	return runAll(seed, n, outDir)
}
