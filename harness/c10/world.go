package c10

import (
	"fmt"
	"sort"
	"time"

	"cosmossdk.io/collections"
	"cosmossdk.io/core/header"
	sdkmath "cosmossdk.io/math"
	slashingtypes "cosmossdk.io/x/slashing/types"
	abci "github.com/cometbft/cometbft/abci/types"
	cmtproto "github.com/cometbft/cometbft/api/cometbft/types/v1"
	cmttypes "github.com/cometbft/cometbft/api/cometbft/types/v1"
	sdk "github.com/cosmos/cosmos-sdk/types"
	authtypes "github.com/cosmos/cosmos-sdk/x/auth/types"

	sctypes "github.com/sunriselayer/sunrise/x/shareclass/types"

	"verifharness/apph"
)

// world is a running application with several validators; blocks carry the validators'
// votes so that x/distribution allocates the fee collector's balance to them.
type world struct {
	h      *apph.H
	vals   []string         // operator addresses (bech32), sorted by address bytes
	valb   []sdk.ValAddress // same, bytes
	cons   [][]byte         // consensus addresses
	mod    sdk.AccAddress   // shareclass module account
	savers []sdk.AccAddress
	shares []string // share denom per validator
}

func collJoin(a []byte, b string) collections.Pair[[]byte, string] { return collections.Join(a, b) }

func newWorld(nVals, nAccts int) *world {
	big, _ := sdkmath.NewIntFromString("1000000000000000000000000000000000000000")
	bal := sdk.NewCoins(sdk.NewCoin("urise", big), sdk.NewCoin("uusdc", big), sdk.NewCoin("uatom", big))
	h := apph.New(apph.Options{NumAccounts: nAccts, NumValidators: nVals, Balances: bal})
	w := &world{h: h, mod: authtypes.NewModuleAddress(sctypes.ModuleName)}
	vs, err := h.App.StakingKeeper.GetAllValidators(h.Ctx())
	if err != nil {
		panic(err)
	}
	type ve struct {
		op   string
		b    sdk.ValAddress
		cons []byte
	}
	var l []ve
	for _, v := range vs {
		b, err := h.App.StakingKeeper.ValidatorAddressCodec().StringToBytes(v.OperatorAddress)
		if err != nil {
			panic(err)
		}
		c, err := v.GetConsAddr()
		if err != nil {
			panic(err)
		}
		l = append(l, ve{v.OperatorAddress, b, c})
	}
	sort.Slice(l, func(i, j int) bool { return string(l[i].b) < string(l[j].b) })
	for _, e := range l {
		// x/slashing's BeginBlocker needs a signing info for every voting validator
		cs, err := h.App.StakingKeeper.ConsensusAddressCodec().BytesToString(e.cons)
		if err != nil {
			panic(err)
		}
		if err := h.App.SlashingKeeper.ValidatorSigningInfo.Set(h.Ctx(), sdk.ConsAddress(e.cons),
			slashingtypes.NewValidatorSigningInfo(cs, 0, time.Unix(0, 0).UTC(), false, 0)); err != nil {
			panic(err)
		}
		w.vals = append(w.vals, e.op)
		w.valb = append(w.valb, e.b)
		w.cons = append(w.cons, e.cons)
		w.savers = append(w.savers, sctypes.RewardSaverAddress(e.op))
		w.shares = append(w.shares, sctypes.NonVotingShareTokenDenom(e.op))
	}
	return w
}

// block runs one block with every validator voting; on failure the height/time of the
// handle are restored (nothing was committed) and the error is returned.
func (w *world) block(dt time.Duration) error {
	_, err := w.blockResp(dt)
	return err
}

func (w *world) blockResp(dt time.Duration) (resp *abci.FinalizeBlockResponse, err error) {
	h := w.h
	h.Height++
	h.Time = h.Time.Add(dt)
	defer func() {
		if r := recover(); r != nil {
			err = fmt.Errorf("panic: %v", r)
		}
		if err != nil {
			h.Height--
			h.Time = h.Time.Add(-dt)
		}
	}()
	var votes []abci.VoteInfo
	for _, c := range w.cons {
		votes = append(votes, abci.VoteInfo{Validator: abci.Validator{Address: c, Power: 1}, BlockIdFlag: cmttypes.BlockIDFlagCommit})
	}
	resp, err = h.App.FinalizeBlock(&abci.FinalizeBlockRequest{
		Height: h.Height, Time: h.Time,
		DecidedLastCommit: abci.CommitInfo{Votes: votes},
	})
	if err != nil {
		return nil, err
	}
	_, err = h.App.Commit()
	return resp, err
}

// delegated returns the module's delegation balance at validator v (nil = no delegation).
func (w *world) delegated(ctx sdk.Context, v int) *sdkmath.Int {
	d, err := w.h.App.StakingKeeper.Delegations.Get(ctx, collections.Join(w.mod, w.valb[v]))
	if err != nil {
		return nil
	}
	val, err := w.h.App.StakingKeeper.GetValidator(ctx, w.valb[v])
	if err != nil {
		panic(err)
	}
	t := val.TokensFromShares(d.Shares).TruncateInt()
	return &t
}

// entries returns the number of unbonding-delegation entries of the module at validator v.
func (w *world) entries(ctx sdk.Context, v int) int {
	ubd, err := w.h.App.StakingKeeper.GetUnbondingDelegation(ctx, w.mod, w.valb[v])
	if err != nil {
		return 0
	}
	return len(ubd.Entries)
}

// msgCtx is the context messages run in: the committed state, at the height of the next block
// (as a transaction of that block would see it; x/distribution treats a delegation touched at
// the current height as having no rewards yet, so the height matters) and the last block time.
func (w *world) msgCtx() sdk.Context {
	h := w.h
	return h.App.NewUncachedContext(false, cmtproto.Header{Height: h.Height + 1, Time: h.Time, ChainID: apph.ChainID}).
		WithHeaderInfo(header.Info{Height: h.Height + 1, Time: h.Time, ChainID: apph.ChainID})
}
