(* List polynomials over an abstract field (coefficients low order first, Horner evaluation).
   Library file for C20 (Reed-Solomon): definitions used by the executable model Da/RS.v and
   the algebra the recovery theorem rests on:
     poly_roots     a polynomial with at most k coefficients that vanishes at k distinct
                    points vanishes everywhere;
     interp_unique  two polynomials with at most k coefficients that agree on k distinct
                    points agree everywhere;
     interp_correct Newton interpolation passes through the given points and has at most
                    k coefficients.
   Everything is inside one Section over a [field_theory]; nothing is assumed globally. *)
From Coq Require Import List Arith Lia Field.
Import ListNotations.

Section Poly.
Variable F : Type.
Variables (f0 f1 : F) (fadd fmul fsub : F -> F -> F) (fopp : F -> F)
          (fdiv : F -> F -> F) (finv : F -> F).

(* ---------- definitions (use only the operations) ---------- *)

Fixpoint eval (p : list F) (x : F) : F :=
  match p with
  | [] => f0
  | c :: p' => fadd c (fmul x (eval p' x))
  end.

Fixpoint padd (p q : list F) : list F :=
  match p, q with
  | [], _ => q
  | _, [] => p
  | a :: p', b :: q' => fadd a b :: padd p' q'
  end.

Definition pscale (c : F) (p : list F) : list F := map (fmul c) p.

Definition psub (p q : list F) : list F := padd p (pscale (fopp f1) q).

(* (X - a) * p *)
Definition mul_lin (a : F) (p : list F) : list F := padd (pscale (fopp a) p) (f0 :: p).

(* prod over xs of (X - a) *)
Fixpoint prod_lin (xs : list F) : list F :=
  match xs with
  | [] => [f1]
  | a :: xs' => mul_lin a (prod_lin xs')
  end.

(* Newton interpolation: the polynomial with at most [length xs] coefficients through
   the points (xs_i, ys_i). *)
Fixpoint interp (xs ys : list F) : list F :=
  match xs, ys with
  | x :: xs', y :: ys' =>
      let q := interp xs' ys' in
      let w := prod_lin xs' in
      padd q (pscale (fdiv (fsub y (eval q x)) (eval w x)) w)
  | _, _ => []
  end.

(* the same polynomial, computed with the running product prod_lin xs' carried along
   (quadratic instead of cubic); this is what the executable model calls *)
Fixpoint interpw (xs ys : list F) : list F * list F :=
  match xs, ys with
  | x :: xs', y :: ys' =>
      let '(q, w) := interpw xs' ys' in
      (padd q (pscale (fdiv (fsub y (eval q x)) (eval w x)) w), mul_lin x w)
  | _, _ => ([], [f1])
  end.
Definition interp_fast (xs ys : list F) : list F := fst (interpw xs ys).

(* quotient of p by (X - a) (synthetic division, remainder eval p a dropped) *)
Fixpoint divl (p : list F) (a : F) : list F :=
  match p with
  | [] => []
  | _ :: p' => match p' with [] => [] | _ => eval p' a :: divl p' a end
  end.

(* ---------- algebra ---------- *)

Lemma interpw_eq : forall xs ys, length xs = length ys ->
  interpw xs ys = (interp xs ys, prod_lin xs).
Proof.
  induction xs as [|x xs IH]; intros ys Hlen; destruct ys as [|y ys]; simpl in *; try discriminate.
  - reflexivity.
  - rewrite (IH ys) by (injection Hlen; auto). reflexivity.
Qed.

Lemma interp_fast_eq : forall xs ys, length xs = length ys -> interp_fast xs ys = interp xs ys.
Proof. intros xs ys H. unfold interp_fast. rewrite (interpw_eq xs ys H). reflexivity. Qed.

Hypothesis Fth : field_theory f0 f1 fadd fmul fsub fopp fdiv finv eq.
Add Field Ff : Fth.

Local Notation "0" := f0.
Local Notation "1" := f1.
Local Infix "+" := fadd.
Local Infix "*" := fmul.
Local Infix "-" := fsub.

Lemma fmul_nonzero : forall a b, a <> 0 -> b <> 0 -> a * b <> 0.
Proof.
  intros a b Ha Hb H. apply Hb.
  assert (E : b = finv a * (a * b)) by (field; exact Ha).
  rewrite E, H. ring.
Qed.

Lemma fsub_nonzero : forall a b, a <> b -> a - b <> 0.
Proof.
  intros a b Hab H. apply Hab.
  assert (E : a = (a - b) + b) by ring. rewrite E, H. ring.
Qed.

Lemma fmul_zero_r : forall a b, a <> 0 -> a * b = 0 -> b = 0.
Proof.
  intros a b Ha H.
  assert (E : b = finv a * (a * b)) by (field; exact Ha).
  rewrite E, H. ring.
Qed.

Lemma eval_padd : forall p q x, eval (padd p q) x = eval p x + eval q x.
Proof.
  induction p as [|a p IH]; intros q x; simpl.
  - ring.
  - destruct q as [|b q]; simpl.
    + ring.
    + rewrite IH. ring.
Qed.

Lemma eval_pscale : forall c p x, eval (pscale c p) x = c * eval p x.
Proof.
  intros c p x. induction p as [|a p IH].
  - simpl. ring.
  - change (pscale c (a :: p)) with (c * a :: pscale c p).
    simpl eval. rewrite IH. ring.
Qed.

Lemma eval_psub : forall p q x, eval (psub p q) x = eval p x - eval q x.
Proof. intros. unfold psub. rewrite eval_padd, eval_pscale. ring. Qed.

Lemma eval_mul_lin : forall a p x, eval (mul_lin a p) x = (x - a) * eval p x.
Proof.
  intros. unfold mul_lin. rewrite eval_padd, eval_pscale. simpl. ring.
Qed.

Lemma length_padd : forall p q, length (padd p q) = Nat.max (length p) (length q).
Proof.
  induction p as [|a p IH]; intros q; simpl; [reflexivity|].
  destruct q as [|b q]; simpl; [reflexivity|]. rewrite IH. reflexivity.
Qed.

Lemma length_pscale : forall c p, length (pscale c p) = length p.
Proof. intros. unfold pscale. apply map_length. Qed.

Lemma length_psub : forall p q, length (psub p q) = Nat.max (length p) (length q).
Proof. intros. unfold psub. rewrite length_padd, length_pscale. reflexivity. Qed.

Lemma length_mul_lin : forall a p, length (mul_lin a p) = S (length p).
Proof.
  intros. unfold mul_lin. rewrite length_padd, length_pscale. simpl. lia.
Qed.

Lemma length_prod_lin : forall xs, length (prod_lin xs) = S (length xs).
Proof.
  induction xs as [|a xs IH]; simpl; [reflexivity|].
  rewrite length_mul_lin, IH. reflexivity.
Qed.

Lemma eval_prod_lin_root : forall xs x, In x xs -> eval (prod_lin xs) x = 0.
Proof.
  induction xs as [|a xs IH]; intros x Hin; simpl in *; [contradiction|].
  rewrite eval_mul_lin. destruct Hin as [->|Hin].
  - ring.
  - rewrite (IH _ Hin). ring.
Qed.

Lemma eval_prod_lin_nonzero : forall xs x, ~ In x xs -> eval (prod_lin xs) x <> 0.
Proof.
  induction xs as [|a xs IH]; intros x Hnin; simpl in *.
  - intro H. apply (F_1_neq_0 Fth). rewrite <- H. ring.
  - rewrite eval_mul_lin. apply fmul_nonzero.
    + apply fsub_nonzero. intro E. apply Hnin. left. symmetry. exact E.
    + apply IH. intro Hin. apply Hnin. right. exact Hin.
Qed.

Lemma length_interp : forall xs ys, length (interp xs ys) <= length xs.
Proof.
  induction xs as [|x xs IH]; intros ys; simpl; [lia|].
  destruct ys as [|y ys]; simpl; [lia|].
  rewrite length_padd, length_pscale, length_prod_lin.
  specialize (IH ys). lia.
Qed.

(* interpolation passes through the points *)
Lemma interp_correct : forall xs ys,
  NoDup xs -> length xs = length ys ->
  map (eval (interp xs ys)) xs = ys.
Proof.
  induction xs as [|x xs IH]; intros ys Hnd Hlen; destruct ys as [|y ys]; simpl in *; try discriminate.
  - reflexivity.
  - inversion Hnd as [|? ? Hnin Hnd']; subst.
    assert (Hw : eval (prod_lin xs) x <> 0) by (apply eval_prod_lin_nonzero; exact Hnin).
    f_equal.
    + rewrite eval_padd, eval_pscale. field. exact Hw.
    + transitivity (map (eval (interp xs ys)) xs); [|apply IH; [exact Hnd'|lia]].
      apply map_ext_in. intros z Hz.
      rewrite eval_padd, eval_pscale, (eval_prod_lin_root _ _ Hz). ring.
Qed.

Lemma divl_length : forall p a, length (divl p a) = pred (length p).
Proof.
  induction p as [|c p IH]; intros a; simpl; [reflexivity|].
  destruct p as [|d p]; [reflexivity|].
  change (S (length (divl (d :: p) a)) = length (d :: p)).
  rewrite IH. reflexivity.
Qed.

Lemma divl_spec : forall p a x, eval p x = (x - a) * eval (divl p a) x + eval p a.
Proof.
  induction p as [|c p IH]; intros a x.
  - simpl. ring.
  - destruct p as [|d p].
    + simpl. ring.
    + change (eval (c :: d :: p) x) with (c + x * eval (d :: p) x).
      change (eval (c :: d :: p) a) with (c + a * eval (d :: p) a).
      change (divl (c :: d :: p) a) with (eval (d :: p) a :: divl (d :: p) a).
      change (eval (eval (d :: p) a :: divl (d :: p) a) x)
        with (eval (d :: p) a + x * eval (divl (d :: p) a) x).
      rewrite (IH a x) at 1. ring.
Qed.

(* a polynomial with at most k coefficients vanishing at k distinct points is zero everywhere *)
Theorem poly_roots : forall rs p,
  NoDup rs -> length p <= length rs -> (forall r, In r rs -> eval p r = 0) ->
  forall x, eval p x = 0.
Proof.
  induction rs as [|r rs IH]; intros p Hnd Hlen Hroots x.
  - destruct p; simpl in *; [reflexivity|lia].
  - inversion Hnd as [|? ? Hnin Hnd']; subst.
    rewrite (divl_spec p r x), (Hroots r (or_introl eq_refl)).
    assert (Hq : eval (divl p r) x = 0).
    { apply IH.
      - exact Hnd'.
      - rewrite divl_length. simpl in Hlen. lia.
      - intros r' Hr'.
        apply fmul_zero_r with (a := r' - r).
        + apply fsub_nonzero. intro E. subst. contradiction.
        + assert (E := divl_spec p r r').
          rewrite (Hroots r' (or_intror Hr')), (Hroots r (or_introl eq_refl)) in E.
          transitivity ((r' - r) * eval (divl p r) r' + 0); [ring|symmetry; exact E]. }
    rewrite Hq. ring.
Qed.

(* two polynomials with at most k coefficients agreeing on k distinct points agree everywhere *)
Theorem interp_unique : forall xs p q,
  NoDup xs -> length p <= length xs -> length q <= length xs ->
  (forall x, In x xs -> eval p x = eval q x) ->
  forall x, eval p x = eval q x.
Proof.
  intros xs p q Hnd Hp Hq Hag x.
  assert (H : eval (psub p q) x = 0).
  { apply poly_roots with (rs := xs).
    - exact Hnd.
    - rewrite length_psub. lia.
    - intros r Hr. rewrite eval_psub, (Hag r Hr). ring. }
  rewrite eval_psub in H.
  assert (E : eval p x = (eval p x - eval q x) + eval q x) by ring.
  rewrite E, H. ring.
Qed.

(* interpolating the values of a short polynomial gives back (a polynomial equal to) it *)
Theorem interp_eval_id : forall xs p,
  NoDup xs -> length p <= length xs ->
  forall x, eval (interp xs (map (eval p) xs)) x = eval p x.
Proof.
  intros xs p Hnd Hp x.
  apply interp_unique with (xs := xs).
  - exact Hnd.
  - apply length_interp.
  - exact Hp.
  - assert (E := interp_correct xs (map (eval p) xs) Hnd (eq_sym (map_length _ _))).
    apply map_ext_in_iff. exact E.
Qed.

End Poly.
