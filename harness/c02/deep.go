package c02

import (
	"math/big"

	sdk "github.com/cosmos/cosmos-sdk/types"

	"verifharness/amm"
)

// scenarioDeepIncentive (seeded C02-r8): a pool of 18-decimals-token depth (in-range liquidity far
// above 1e18) receives incentive allocations whose exact growth per unit of liquidity, coins / L, has
// a fraction of 0.5 .. 0.99 of the last (18th) decimal. One unit of that decimal is worth L * 1e-18
// coins to the in-range positions - thousands of coins here - so a growth rounded up credits more
// than the fee account received, and the claims and exits that follow (every owner, in several
// orders) must still all be paid. In all four denoms, with one and with two in-range positions, and
// after a swap.
func (r *runner) scenarioDeepIncentive(ctx sdk.Context, maxOrders int) error {
	p, err := r.w.CreatePool("urise", "uatom", "0.003", "1.0001", "0")
	if err != nil {
		return err
	}
	e21 := new(big.Int).Exp(big.NewInt(10), big.NewInt(21), nil)
	e38 := new(big.Int).Exp(big.NewInt(10), big.NewInt(38), nil)
	units := func(k int64) *big.Int { return new(big.Int).Mul(big.NewInt(k), e21) }
	// coins = floor(L * (k + frac/100) * 1e-18): the exact quotient coins / L then has (almost) that fraction
	sensitive := func(k, frac int64) *big.Int {
		pool, _, _ := r.w.K.GetPool(ctx, p.ID)
		n := new(big.Int).Mul(amm.Raw(pool.CurrentTickLiquidity), big.NewInt(100*k+frac))
		n.Div(n, e38)
		if n.Sign() <= 0 {
			return big.NewInt(1)
		}
		return n
	}
	alloc := func(tag string, spec ...int64) {
		cs := make([]*big.Int, 4)
		for i := range cs {
			cs[i] = sensitive(spec[2*i], spec[2*i+1])
		}
		r.commit(ctx, p, amm.Op{Kind: "allocate", Sender: 3, Coins: cs, Tag: "deep/alloc/" + tag})
	}
	r.commit(ctx, p, create(0, -20, 20, units(3), units(3), "deep/first"))
	alloc("0.75-of-the-last-decimal", 0, 75, 0, 75, 0, 75, 0, 75)
	alloc("1.5-and-0.51", 1, 50, 0, 51, 1, 50, 0, 51)
	r.commit(ctx, p, create(1, -5, 7, units(2), units(2), "deep/narrow"))
	alloc("two-positions-0.99-and-2.5", 0, 99, 2, 50, 2, 50, 0, 99)
	alloc("two-positions-0.5", 0, 50, 0, 50, 0, 50, 0, 50)
	r.commit(ctx, p, swapOp(2, true, 1, new(big.Int).Mul(big.NewInt(7), new(big.Int).Exp(big.NewInt(10), big.NewInt(18), nil)), "deep/swap-up-a-little"))
	alloc("after-a-swap-0.75", 0, 75, 1, 75, 0, 75, 3, 75)
	r.drainPool(ctx, p, 4, maxOrders, "deep")
	return nil
}
