(* Independent reference for C05: exact rational concentrated-liquidity arithmetic on the same
   tick grid (the decimal tick prices sp(t) are the bucket boundaries), after the pool fee.
   No rounding anywhere; QArith rationals. Used only by monitors, never by the model. *)
From Coq Require Import ZArith QArith List Bool.
Import ListNotations.
From Sunrise Require Import Base.Outcome Base.Dec Amm.Math Amm.Pool.
Local Open Scope Q_scope.

Definition qdec (raw : Z) : Q := Qred (raw # 1000000000000000000).
Definition qnorm (x : Q) : Q := Qred x.

(* iter: (tick sqrt price raw, liquidity net raw) in visiting order *)
Fixpoint ex_in_loop (b4q : bool) (iter : list (Z * Z)) (x s L out : Q) : Q * Q * Q :=
  match iter with
  | [] => (out, x, s)
  | (tsp, net) :: tl =>
    let t := qdec tsp in
    let need := qnorm (if b4q then L * (s - t) / (s * t) else L * (t - s)) in
    if Qle_bool need x then
      let got := qnorm (if b4q then L * (s - t) else L * (t - s) / (s * t)) in
      ex_in_loop b4q tl (qnorm (x - need)) t (qnorm (L + (if b4q then - qdec net else qdec net))) (qnorm (out + got))
    else
      let s' := qnorm (if b4q then L * s / (L + x * s) else s + x / L) in
      let got := qnorm (if b4q then L * (s - s') else L * (s' - s) / (s * s')) in
      (qnorm (out + got), 0, s')
  end.

Fixpoint ex_out_loop (b4q : bool) (iter : list (Z * Z)) (y s L inp : Q) : Q * Q * Q :=
  (* y: output still wanted; inp: input (before fee) accumulated *)
  match iter with
  | [] => (inp, y, s)
  | (tsp, net) :: tl =>
    let t := qdec tsp in
    let avail := qnorm (if b4q then L * (s - t) else L * (t - s) / (s * t)) in
    if Qle_bool avail y then
      let need := qnorm (if b4q then L * (s - t) / (s * t) else L * (t - s)) in
      ex_out_loop b4q tl (qnorm (y - avail)) t (qnorm (L + (if b4q then - qdec net else qdec net))) (qnorm (inp + need))
    else
      (* b4q: quote out y = L (s - s')  =>  s' = s - y/L ;  q4b: base out y = L (1/s - 1/s') => s' = L s / (L - y s) *)
      let s' := qnorm (if b4q then s - y / L else L * s / (L - y * s)) in
      let need := qnorm (if b4q then L * (s - s') / (s * s') else L * (s' - s)) in
      (qnorm (inp + need), 0, s')
  end.

(* the iterator of the model, with each tick's decimal sqrt price; None if a price fails *)
Fixpoint iter_prices (tp : tick_params) (l : list tick) : option (list (Z * Z)) :=
  match l with
  | [] => Some []
  | t :: tl =>
    match tick_to_sqrt_price (t_index t) tp, iter_prices tp tl with
    | Ok spv, Some r => Some ((spv, t_net t) :: r)
    | _, _ => None
    end
  end.

Definition floorQ (x : Q) : Z := (Qnum x / Zpos (Qden x))%Z.
Definition ceilQ (x : Q) : Z := (- ((- Qnum x) / Zpos (Qden x)))%Z.

(* the liquidity the exact curve has at the pool's cursor: the sum over the OPEN POSITIONS whose range
   contains the current tick - not the pool's cached active liquidity, which is itself part of what
   the properties are about (C04) *)
Definition positions_liq_at (s : amm) : Z :=
  let t := p_tick (a_pool s) in
  fold_right (fun p acc => if ((pos_lower p <=? t) && (t <? pos_upper p))%Z then (pos_liq p + acc)%Z else acc) 0%Z (a_positions s).

(* exact output (as a rational) of an exact-input swap of [amount] on state s, fee applied exactly *)
Definition exact_out_given_in (s : amm) (denom_in amount : Z) : option (Q * Q) :=
  let p := a_pool s in
  let b4q := (denom_in =? 0)%Z in
  match iter_prices (p_tp p) (iter_ticks b4q (a_ticks s) (p_tick p)) with
  | None => None
  | Some it =>
    let x := qnorm ((amount # 1) * (1 - qdec (p_fee p))) in
    let '(out, rem, _) := ex_in_loop b4q it x (qdec (p_sqrt p)) (qdec (positions_liq_at s)) 0 in
    Some (out, rem)
  end.

(* exact input (before fee gross-up) needed for an exact-output swap *)
Definition exact_in_given_out (s : amm) (denom_in amount_out : Z) : option (Q * Q) :=
  let p := a_pool s in
  let b4q := (denom_in =? 0)%Z in
  match iter_prices (p_tp p) (iter_ticks b4q (a_ticks s) (p_tick p)) with
  | None => None
  | Some it =>
    let '(inp, rem, _) := ex_out_loop b4q it (amount_out # 1) (qdec (p_sqrt p)) (qdec (positions_liq_at s)) 0 in
    (* gross input including the fee: inp / (1 - fee) *)
    Some (qnorm (inp / (1 - qdec (p_fee p))), rem)
  end.
