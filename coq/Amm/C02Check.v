(* C02: correspondence with the real module + monitors for custody / exit liveness.
   A case is an AMM step (pre-state, op, result, post-state as dumped from the implementation)
   plus what the harness observed around it:
     k_nops        messages attempted on this pool so far, this one included
     k_others_same no balance outside {acting user, pool account, fee account} and no supply changed
     k_in / k_out  cumulative amounts that entered / left the pool's two accounts (from bank deltas)
     k_sp_min      smallest non-zero sqrt price (raw, 10^-18 units) the pool has had so far (0 = none)
     k_owners_canonical  the owner string stored with every open position of the pool (post-state) is the
                   canonical encoding of the address it decodes to.  The owner checks of DecreaseLiquidity /
                   ClaimRewards / IncreaseLiquidity compare the stored string with the canonical encoding of
                   the sender, so a position stored under any other spelling (bech32 also decodes the
                   all-upper-case form) can be reduced or claimed by nobody: its provider cannot exit.
                   (The dump maps owners to account ids by string equality, so such a position also shows
                   up as owned by the unknown id 99 and the creating step disagrees with the model.) *)
From Coq Require Import ZArith List Bool.
Import ListNotations.
From Sunrise Require Export Amm.AmmCheck Amm.LiqDefs Amm.Custody.
Local Open Scope Z_scope.

Record c02_case := { k_case : amm_case; k_nops : Z; k_others_same : bool; k_in : vec; k_out : vec; k_sp_min : Z;
                     k_owners_canonical : bool }.

Definition denoms : list Z := [0; 1; 2; 3].

(* (a) exit liveness: a drain step must succeed *)
Definition mon_exit (c : amm_case) : bool := negb (c_must_ok c) || is_ok (c_res c).

(* (b) once everybody has left, what remains in the two accounts is non-negative dust.
   Bound checked for the pool's two trading denoms (d = 0, 1), pool + fee account:
       dust_d <= nops * (DUST_PER_OP + in_d * DUST_CONC / sp_min)
   nops = messages attempted on this pool, in_d = everything ever paid in of that denom,
   sp_min = smallest sqrt price of the pool's history in units of 10^-18 (one unit in the last
   place of a sqrt price is a relative error 1/sp_min of the virtual reserves, and the reserves
   of a position are at most DUST_CONC times what was paid in for the tick spacings the harness
   uses).  For sqrt prices around 1 this is 2 units per message plus 10^-13 of the turnover.
   The incentive denoms (2, 3) only have to be non-negative. *)
Definition DUST_PER_OP : Z := 2.
Definition DUST_CONC : Z := 10 ^ 5.
Definition emptied (c : amm_case) : bool :=
  match a_positions (c_pre c), a_positions (c_post c) with
  | _ :: _, [] => true
  | _, _ => false
  end.
Definition dust_bound (k : c02_case) (d : Z) : Z :=
  k_nops k * (DUST_PER_OP + (if k_sp_min k <=? 0 then 0 else vget (k_in k) d * DUST_CONC / k_sp_min k + 1)).
Definition mon_dust (k : c02_case) : bool :=
  let c := k_case k in
  negb (emptied c) ||
  (bal_nonneg_b (c_post c) &&
   forallb (fun d => custody2 (c_post c) d <=? dust_bound k d) [0; 1]).

(* (c) only the owner can reduce a position or claim for it: a non-owner attempt fails and changes nothing *)
Definition mon_owner (c : amm_case) : bool :=
  negb (non_owner_op (c_pre c) (c_op c)) ||
  (negb (is_ok (c_res c)) && amm_eqb (c_pre c) (c_post c)).

(* (d) every step conserves pool + fee + user per denom and touches nothing else;
   the cumulative flows explain the custody balances and paid out <= paid in *)
Definition mon_conserve (k : c02_case) : bool :=
  let c := k_case k in
  wf_b (c_pre c) && wf_b (c_post c) &&
  forallb (fun d => total3 (c_pre c) d =? total3 (c_post c) d) denoms &&
  k_others_same k.
Definition mon_flows (k : c02_case) : bool :=
  let c := k_case k in
  forallb (fun d => (vget (k_in k) d - vget (k_out k) d =? custody2 (c_post c) d) &&
                    (vget (k_out k) d <=? vget (k_in k) d)) denoms.

(* (e) custody on the implementation's state: the pool account covers what all open positions can
   withdraw (the module's own payout function at the current price; every payout computable), and
   the fee account covers what all open positions can claim.
   The pool-account clause costs two tick->price evaluations per open position, so it is evaluated
   where it is not already implied: Custody proofs show that creations, complete withdrawals,
   increases, claims and incentive allocations of the model preserve [Solvent]; when the step agrees
   with the model ([corr]) and is one of those, solvency of the post-state follows from solvency of
   the pre-state (the previous post-state of the same pool).  It is evaluated after every swap, after
   every partial withdrawal, whenever the step disagrees with the model, and on every drain step. *)
Definition needs_solvency_check (c : amm_case) : bool :=
  match c_op c with
  | OSwap _ _ _ _ => true
  | ODecrease _ pid l =>
      match find_pos (a_positions (c_pre c)) pid with
      | Some pos => negb (l =? pos_liq pos)
      | None => false
      end
  | _ => false
  end.
Definition mon_solvent (c : amm_case) : bool :=
  if needs_solvency_check c || c_must_ok c || negb (corr c) then solvent_b (c_post c) else true.
Definition mon_fee_solvent (c : amm_case) : bool := fee_solvent_b (c_post c).
(* balances never negative *)
Definition mon_nonneg (c : amm_case) : bool := bal_nonneg_b (c_post c).
(* the custody theorems (C02_exit_pays_owed, C02_exit_never_short, C02_custody_partial) assume the
   bookkeeping invariant [Inv] of C04 on the state they start from: every bound of an open position is
   an initialised tick whose gross/net liquidity are the sums over the positions it bounds, no other
   tick is stored, active liquidity = sum of in-range positions.  A tick record removed or kept for
   the wrong bound makes later swaps trade with liquidity nobody provides (or miss liquidity that is
   there), which is how a bookkeeping fault becomes a custody fault; [liq_inv_b] is the decision
   procedure proved complete for [Inv] (C04_monitor_complete), evaluated here on every post-state. *)
Definition mon_bookkeeping (c : amm_case) : bool := liq_inv_b (c_post c).
(* "withdrawing every position and claiming every fee always succeeds": whatever else may make a
   mid-history message fail (amount checks, slippage limits), a claim / withdrawal / increase sent by the
   owner of existing positions never ends in a run-time panic *)
Definition owned_by (s : amm) (sender pid : Z) : bool :=
  match find_pos (a_positions s) pid with Some pos => pos_owner pos =? sender | None => false end.
Definition owner_exit_op (s : amm) (o : op) : bool :=
  match o with
  | ODecrease sender pid _ => owned_by s sender pid
  | OIncrease sender pid _ _ _ _ => owned_by s sender pid
  | OClaim sender ids => match ids with [] => false | _ => forallb (owned_by s sender) ids end
  | _ => false
  end.
Definition mon_owner_no_panic (c : amm_case) : bool :=
  negb (owner_exit_op (c_pre c) (c_op c)) || negb (is_panic (c_res c)).
(* every open position is stored under an owner string its owner's messages can match *)
Definition mon_owner_string (k : c02_case) : bool := k_owners_canonical k.

(* ---- known finding C02-F1: half-even intermediate rounding in CalcAmountBaseDelta ----
   CalcAmountBaseDelta = ((sb - sa) * liq / sb / sa) rounds the product and both quotients to the
   nearest 10^-18 and only the final result in the stated direction; an intermediate error of half a
   unit in the last place is multiplied by 1/(sa*sb).  Once a pool's sqrt price is below 10^-9 that
   is more than one whole base unit per evaluation, so swaps can leave the pool account short of what
   the positions are owed and the last provider cannot withdraw.
   Trigger 1 (attributed to monitor 5): the pool's history reached a sqrt price below 10^-9, the base
   side is short by no more than nops * (10^36 / sp_min^2 + 1) units (the accumulated error bound:
   sp_min in units of 10^-18), the quote side is covered and every payout is computable.
   Trigger 2 (attributed to monitor 1): trigger 1 on a drain step on which the model itself predicts
   "insufficient funds" while the fee account can pay the position's claim. *)
Definition F1_SP_LIMIT : Z := 10 ^ 9.
Definition f1_budget (k : c02_case) : Z := k_nops k * (10 ^ 36 / (k_sp_min k * k_sp_min k) + 1).
Definition trig_f1 (k : c02_case) : bool :=
  (0 <? k_sp_min k) && (k_sp_min k <? F1_SP_LIMIT) &&
  (let '(sb, sq) := slack (c_post (k_case k)) in (sb <? 0) && (- sb <=? f1_budget k) && (0 <=? sq)).
Definition trig_f1_exit (k : c02_case) : bool :=
  let c := k_case k in
  c_must_ok c && trig_f1 k && fee_solvent_b (c_pre c) &&
  match snd (step (c_pre c) (c_op c)) with Err e => e =? E_INSUFFICIENT_FUNDS | _ => false end.

(* one evaluation of every expensive piece per case ([corr], [solvent_b]); the solvency verdict is
   [mon_solvent c] *)
Definition c02_check (k : c02_case) : list Z :=
  let c := k_case k in
  let ok := corr c in
  let need := if ok then needs_solvency_check c || c_must_ok c else true in
  let solv := if need then solvent_b (c_post c) else true in
  let ex := mon_exit c in
  flag 0 ok ++
  flag 1 ex ++
  flag 2 (mon_dust k) ++
  flag 3 (mon_owner c) ++
  flag 4 (mon_conserve k) ++
  flag 5 solv ++
  flag 6 (mon_fee_solvent c) ++
  flag 7 (mon_flows k) ++
  flag 8 (mon_nonneg c) ++
  flag 9 (mon_bookkeeping c) ++
  flag 10 (mon_owner_string k) ++
  flag 11 (mon_owner_no_panic c) ++
  (if solv && ex then []
   else (if trig_f1 k then [101] else []) ++ (if trig_f1_exit k then [102] else [])).

Definition run := run_cases c02_check.

(* measurement aid (not a monitor): slack of the pool account and dust after emptying *)
Definition probe (k : c02_case) : list Z :=
  let c := k_case k in
  let '(sb, sq) := slack (c_post c) in
  [k_nops k; Z.of_nat (length (a_positions (c_post c))); sb; sq; custody2 (c_post c) 0; custody2 (c_post c) 1].
