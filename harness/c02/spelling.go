package c02

// Sender spellings.  Bech32 decodes the all-lower-case and the all-upper-case form of an address
// to the same bytes; the module's owner checks compare strings.  The harness therefore
//   - maps a position's stored owner string to the account by DECODING it (ownerIndex),
//   - observes whether every stored owner string is the canonical encoding (ownersCanonical),
//   - can send every message of the module that carries a sender string (CreatePosition,
//     IncreaseLiquidity, DecreaseLiquidity, ClaimRewards) under a non-canonical but decodable spelling
//     (stepSpelled); the exit monitors decide.

import (
	"fmt"
	"strings"

	sdkmath "cosmossdk.io/math"
	sdk "github.com/cosmos/cosmos-sdk/types"

	lptypes "github.com/sunriselayer/sunrise/x/liquiditypool/types"

	"verifharness/amm"
	"verifharness/apph"
	"verifharness/emit"
)

// ownerIndex: the genesis account whose address the stored owner string decodes to (99 = none).
func (r *runner) ownerIndex(stored string) int {
	addr, err := sdk.AccAddressFromBech32(stored)
	if err != nil {
		return 99
	}
	for i, a := range r.w.H.Accts {
		if a.Addr.Equals(addr) {
			return i
		}
	}
	return 99
}

func canonical(stored string) bool {
	addr, err := sdk.AccAddressFromBech32(stored)
	return err == nil && addr.String() == stored
}

func (r *runner) ownersCanonical(ctx sdk.Context, p amm.PoolInfo) bool {
	for _, q := range r.w.C02Positions(ctx, p) {
		if !canonical(q.Address) {
			return false
		}
	}
	return true
}

func spell(addr sdk.AccAddress, how string) string {
	switch how {
	case "upper":
		return strings.ToUpper(addr.String())
	case "mixed": // not a valid bech32 string: must be rejected
		s := addr.String()
		return strings.ToUpper(s[:len(s)/2]) + s[len(s)/2:]
	}
	return addr.String()
}

func spellable(kind string) bool {
	return kind == "create" || kind == "increase" || kind == "decrease" || kind == "claim"
}

// execSpelled: amm.Exec for the four messages that carry a sender string, with the sender spelled `how`.
func (r *runner) execSpelled(ctx sdk.Context, p amm.PoolInfo, o amm.Op, how string) (string, error) {
	w := r.w
	sender := spell(w.H.Accts[o.Sender%len(w.H.Accts)].Addr, how)
	var vals []string
	err := apph.Tx(ctx, func(ctx sdk.Context) error {
		switch o.Kind {
		case "create":
			res, err := w.Srv.CreatePosition(ctx, &lptypes.MsgCreatePosition{Sender: sender, PoolId: p.ID, LowerTick: o.Lower, UpperTick: o.Upper,
				TokenBase: sdk.Coin{Denom: p.Denoms[0], Amount: sdkmath.NewIntFromBigInt(o.Base)}, TokenQuote: sdk.Coin{Denom: p.Denoms[1], Amount: sdkmath.NewIntFromBigInt(o.Quote)},
				MinAmountBase: sdkmath.NewIntFromBigInt(o.MinBase), MinAmountQuote: sdkmath.NewIntFromBigInt(o.MinQuote)})
			if err != nil {
				return err
			}
			vals = []string{fmt.Sprint(res.Id), emit.Z(res.AmountBase.BigInt()), emit.Z(res.AmountQuote.BigInt()), emit.Z(amm.C02Raw(res.Liquidity))}
		case "increase":
			res, err := w.Srv.IncreaseLiquidity(ctx, &lptypes.MsgIncreaseLiquidity{Sender: sender, Id: o.Pid,
				AmountBase: sdkmath.NewIntFromBigInt(o.Base), AmountQuote: sdkmath.NewIntFromBigInt(o.Quote),
				MinAmountBase: sdkmath.NewIntFromBigInt(o.MinBase), MinAmountQuote: sdkmath.NewIntFromBigInt(o.MinQuote)})
			if err != nil {
				return err
			}
			vals = []string{fmt.Sprint(res.PositionId), emit.Z(res.AmountBase.BigInt()), emit.Z(res.AmountQuote.BigInt())}
		case "decrease":
			res, err := w.Srv.DecreaseLiquidity(ctx, &lptypes.MsgDecreaseLiquidity{Sender: sender, Id: o.Pid,
				Liquidity: sdkmath.LegacyNewDecFromBigIntWithPrec(o.Liq, 18).String()})
			if err != nil {
				return err
			}
			vals = []string{emit.Z(res.AmountBase.BigInt()), emit.Z(res.AmountQuote.BigInt())}
		case "claim":
			res, err := w.Srv.ClaimRewards(ctx, &lptypes.MsgClaimRewards{Sender: sender, PositionIds: o.Pids})
			if err != nil {
				return err
			}
			vals = p.C02CoinVec(res.CollectedFees)
		default:
			return fmt.Errorf("message kind %s has no sender string", o.Kind)
		}
		return nil
	})
	if err != nil {
		return amm.ErrClass(err), err
	}
	return "(Ok " + emit.List(vals) + ")", nil
}

// stepSpelled: amm.Step with the sender spelled `how` (same dumps, same case term).
func (r *runner) stepSpelled(ctx sdk.Context, p amm.PoolInfo, o amm.Op, mustOK bool, how string) (string, error) {
	user := r.w.H.Accts[o.Sender%len(r.w.H.Accts)].Addr
	pre := r.w.Dump(ctx, p, user)
	res, err := r.execSpelled(ctx, p, o, how)
	post := r.w.Dump(ctx, p, user)
	return fmt.Sprintf("{| c_pre := %s; c_op := %s; c_res := %s; c_post := %s; c_must_ok := %s |}", pre, o.Coq(), res, post, emit.Bool(mustOK)), err
}

// commitSpelled executes o with the given sender spelling as an observed case.
func (r *runner) commitSpelled(ctx sdk.Context, p amm.PoolInfo, o amm.Op, how string) error {
	r.spelling = how
	defer func() { r.spelling = "" }()
	o.Tag += "/sender:" + how
	r.st.Count("sender-spelling:" + how + ":" + o.Kind)
	r.st.Nontriv(fmt.Sprintf("spelling/%d/%s/%s", p.ID, how, o.Kind))
	return r.commit(ctx, p, o)
}

// rejectsMixedCase: a mixed-case sender is not a bech32 string; every message must refuse it (not a
// case for the model, which has no notion of an undecodable sender: counted in the stats only).
func (r *runner) rejectsMixedCase(ctx sdk.Context, p amm.PoolInfo, o amm.Op) {
	c, _ := ctx.CacheContext()
	if _, err := r.execSpelled(c, p, o, "mixed"); err == nil {
		r.st.Count("sender-spelling:mixed:ACCEPTED")
	} else {
		r.st.Count("sender-spelling:mixed:rejected")
	}
}

// scenarioSpelling: providers who spell their own address in upper case, for every message of the
// module that carries a sender string; strangers doing the same against other people's positions;
// then everybody exits, each provider using the canonical spelling in one order and the spelling of
// the creation in another.
func (r *runner) scenarioSpelling(ctx sdk.Context, maxOrders int) error {
	p, err := r.w.CreatePool("uosmo", "uatom", "0.003", "1.0001", "0")
	if err != nil {
		return err
	}
	r.commit(ctx, p, create(0, -300, 300, bi("10000000"), bi("10000000"), "spelling/honest-wide"))
	// witness of the stuck deposit: position created under the upper-case spelling of the sender
	r.commitSpelled(ctx, p, create(1, -100, 100, bi("2000000"), bi("2000000"), "spelling/create"), "upper")
	r.rejectsMixedCase(ctx, p, create(1, -100, 100, bi("2000000"), bi("2000000"), ""))
	r.commit(ctx, p, create(2, -60, 140, bi("1500000"), bi("1500000"), "spelling/create-canonical"))
	r.commit(ctx, p, swapOp(3, true, 0, bi("900000"), "spelling/swap"))
	r.commit(ctx, p, swapOp(3, true, 1, bi("1200000"), "spelling/swap"))
	for _, q := range r.w.C02Positions(ctx, p) {
		owner := r.ownerIndex(q.Address)
		liq := amm.C02Raw(q.Liquidity)
		switch owner {
		case 1: // created in upper case: claim canonically, reduce in upper case
			r.commit(ctx, p, amm.Op{Kind: "claim", Sender: 1, Pids: []uint64{q.Id}, Tag: "spelling/claim-canonical-on-upper-created"})
			r.commitSpelled(ctx, p, amm.Op{Kind: "decrease", Sender: 1, Pid: q.Id, Liq: liq.Div(liq, bi("3")), Tag: "spelling/decrease-part"}, "upper")
		case 2: // created canonically: claim and increase in upper case
			r.commitSpelled(ctx, p, amm.Op{Kind: "claim", Sender: 2, Pids: []uint64{q.Id}, Tag: "spelling/claim"}, "upper")
			r.commitSpelled(ctx, p, amm.Op{Kind: "increase", Sender: 2, Pid: q.Id, Base: bi("1000"), Quote: bi("1000"), MinBase: bi("0"), MinQuote: bi("0"), Tag: "spelling/increase"}, "upper")
		case 0: // a stranger spelling himself in upper case gains nothing
			r.commitSpelled(ctx, p, amm.Op{Kind: "decrease", Sender: 3, Pid: q.Id, Liq: liq, Tag: "stranger/decrease-all"}, "upper")
			r.commitSpelled(ctx, p, amm.Op{Kind: "claim", Sender: 3, Pids: []uint64{q.Id}, Tag: "stranger/claim"}, "upper")
		}
	}
	r.drainSpelling = "upper"
	r.drainPool(ctx, p, 4, maxOrders, "spelling")
	r.drainSpelling = ""
	return nil
}
