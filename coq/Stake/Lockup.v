(* C12 model: the sunrise lockup accounts and the self-delegation proxy.

   Sources modelled (as written, same order of checks, same error / panic points):
     x/accounts/non_voting_delegatable_lockup/{lockup.go,continuous_locking_account.go}
     x/accounts/self_delegatable_lockup/{lockup.go,continuous_locking_account.go}
     x/accounts/self_delegation_proxy/msg.go
     x/selfdelegation/keeper/msg_server_{self_delegate,withdraw_self_delegation_unbonded}.go
   Oracles (values read from the running application at every compared step, never axioms):
     staking (delegate / undelegate results, completion times), distribution and share-class
     reward payments, the share-class module's delegate / undelegate results, x/accounts
     dispatch, and the bank parameter "is the bond denom send-enabled".

   Denominations are integers ordered like the denom strings:
     1 = uatom, 2 = urise (fee denom; the lockup calls it its "bond denom"), 3 = uusdc,
     4 = uvrise (staking bond denom).  Times are nanoseconds (Z); Go's Time.Unix() is floor. *)
From Coq Require Import ZArith List Bool.
Import ListNotations.
From Sunrise Require Import Base.Outcome Base.Dec.
Local Open Scope Z_scope.
Local Open Scope res_scope.

Definition FEE : Z := 2.
Definition BOND : Z := 4.

(* ---------- balances: fee and bond denoms explicit, the others in a fixed-key list ---------- *)
Fixpoint get (d : Z) (l : list (Z * Z)) : Z :=
  match l with [] => 0 | (k, v) :: tl => if k =? d then v else get d tl end.
Fixpoint addl (d x : Z) (l : list (Z * Z)) : list (Z * Z) :=
  match l with
  | [] => [(d, x)]
  | (k, v) :: tl => if k =? d then (k, v + x) :: tl else (k, v) :: addl d x tl
  end.
Fixpoint find (d : Z) (l : list (Z * Z)) : option Z :=
  match l with [] => None | (k, v) :: tl => if k =? d then Some v else find d tl end.

Record bals := { b_fee : Z; b_bond : Z; b_oth : list (Z * Z) }.
Definition bget (b : bals) (d : Z) : Z :=
  if d =? FEE then b_fee b else if d =? BOND then b_bond b else get d (b_oth b).
Definition badd (b : bals) (d x : Z) : bals :=
  if d =? FEE then {| b_fee := b_fee b + x; b_bond := b_bond b; b_oth := b_oth b |}
  else if d =? BOND then {| b_fee := b_fee b; b_bond := b_bond b + x; b_oth := b_oth b |}
  else {| b_fee := b_fee b; b_bond := b_bond b; b_oth := addl d x (b_oth b) |}.
Definition bval (b : bals) : Z := b_fee b + b_bond b.     (* 1:1 across urise / uvrise (C13) *)
Fixpoint badd_coins (b : bals) (cs : list (Z * Z)) : bals :=
  match cs with [] => b | (d, a) :: tl => badd_coins (badd b d a) tl end.
Fixpoint bsub_coins (b : bals) (cs : list (Z * Z)) : bals :=
  match cs with [] => b | (d, a) :: tl => bsub_coins (badd b d (- a)) tl end.
Fixpoint covers (b : bals) (cs : list (Z * Z)) : bool :=   (* distinct denoms: no running balance needed *)
  match cs with [] => true | (d, a) :: tl => (a <=? bget b d) && covers b tl end.

(* ---------- the continuous schedule, as written ---------- *)
Definition unix (ns : Z) : Z := ns / 1000000000.

(* GetLockCoinInfoWithDenom: locked amount of one denom; None = run-time panic
   (LegacyDec.Quo by zero when start and end fall into the same Unix second). *)
Definition locked_raw (orig start_ns end_ns now : Z) : option Z :=
  if now <? start_ns then Some orig
  else if end_ns <? now then Some 0
  else
    let x := unix now - unix start_ns in
    let y := unix end_ns - unix start_ns in
    let? s := dquo (x * P) (y * P) in
    let? m := dmul (orig * P) s in
    let? u := chk_int (dround_int m) in
    if (u <? 0) || (orig <? u) then None else Some (orig - u).

(* ---------- lockup store ---------- *)
Record entry := { e_end : Z; e_amt : Z; e_h : Z }.
Definition store := list (Z * list entry).      (* validator id (ordered like the address string) -> entries *)

Record world := {
  w_sd : bool;                 (* true: self-delegatable variant; false: non-voting-delegatable *)
  w_owner : Z;
  w_start : Z; w_end : Z;
  w_orig : list (Z * Z);       (* OriginalLocking: present denoms, ascending *)
  w_now : Z; w_height : Z;
  w_DL : Z; w_DF : Z; w_ent : store;
  w_ab : bals;                 (* bank balances of the lockup account *)
  w_has_proxy : bool;
  w_pb : bals;                 (* bank balances of its self-delegation proxy *)
  w_stk_del : Z;               (* tokens the proxy has delegated (staking oracle) *)
  w_stk_unb : list (Z * Z);    (* the proxy's staking unbonding entries: completion ns, amount *)
  w_sc_del : Z;                (* principal delegated through x/shareclass and not yet undelegated *)
  w_sc_unb : list (Z * Z);     (* pending share-class unbondings paid to the account *)
  w_out : bals; w_rew : bals; w_dep : bals   (* ghosts: cumulative outflow, rewards, third-party deposits *)
}.

Definition set_lk (w : world) (dl df : Z) (st : store) : world :=
  {| w_sd := w_sd w; w_owner := w_owner w; w_start := w_start w; w_end := w_end w; w_orig := w_orig w;
     w_now := w_now w; w_height := w_height w; w_DL := dl; w_DF := df; w_ent := st;
     w_ab := w_ab w; w_has_proxy := w_has_proxy w; w_pb := w_pb w;
     w_stk_del := w_stk_del w; w_stk_unb := w_stk_unb w; w_sc_del := w_sc_del w; w_sc_unb := w_sc_unb w;
     w_out := w_out w; w_rew := w_rew w; w_dep := w_dep w |}.
Definition set_bk (w : world) (ab : bals) (hp : bool) (pb : bals) : world :=
  {| w_sd := w_sd w; w_owner := w_owner w; w_start := w_start w; w_end := w_end w; w_orig := w_orig w;
     w_now := w_now w; w_height := w_height w; w_DL := w_DL w; w_DF := w_DF w; w_ent := w_ent w;
     w_ab := ab; w_has_proxy := hp; w_pb := pb;
     w_stk_del := w_stk_del w; w_stk_unb := w_stk_unb w; w_sc_del := w_sc_del w; w_sc_unb := w_sc_unb w;
     w_out := w_out w; w_rew := w_rew w; w_dep := w_dep w |}.
Definition set_cust (w : world) (sd : Z) (su : list (Z * Z)) (cd : Z) (cu : list (Z * Z)) : world :=
  {| w_sd := w_sd w; w_owner := w_owner w; w_start := w_start w; w_end := w_end w; w_orig := w_orig w;
     w_now := w_now w; w_height := w_height w; w_DL := w_DL w; w_DF := w_DF w; w_ent := w_ent w;
     w_ab := w_ab w; w_has_proxy := w_has_proxy w; w_pb := w_pb w;
     w_stk_del := sd; w_stk_unb := su; w_sc_del := cd; w_sc_unb := cu;
     w_out := w_out w; w_rew := w_rew w; w_dep := w_dep w |}.
Definition set_gh (w : world) (o r d : bals) : world :=
  {| w_sd := w_sd w; w_owner := w_owner w; w_start := w_start w; w_end := w_end w; w_orig := w_orig w;
     w_now := w_now w; w_height := w_height w; w_DL := w_DL w; w_DF := w_DF w; w_ent := w_ent w;
     w_ab := w_ab w; w_has_proxy := w_has_proxy w; w_pb := w_pb w;
     w_stk_del := w_stk_del w; w_stk_unb := w_stk_unb w; w_sc_del := w_sc_del w; w_sc_unb := w_sc_unb w;
     w_out := o; w_rew := r; w_dep := d |}.
Definition set_clk (w : world) (t h : Z) : world :=
  {| w_sd := w_sd w; w_owner := w_owner w; w_start := w_start w; w_end := w_end w; w_orig := w_orig w;
     w_now := t; w_height := h; w_DL := w_DL w; w_DF := w_DF w; w_ent := w_ent w;
     w_ab := w_ab w; w_has_proxy := w_has_proxy w; w_pb := w_pb w;
     w_stk_del := w_stk_del w; w_stk_unb := w_stk_unb w; w_sc_del := w_sc_del w; w_sc_unb := w_sc_unb w;
     w_out := w_out w; w_rew := w_rew w; w_dep := w_dep w |}.

Definition orig_fee (w : world) : Z := get FEE (w_orig w).
Definition locked_of (w : world) (d : Z) : option Z :=
  locked_raw (get d (w_orig w)) (w_start w) (w_end w) (w_now w).

(* ---------- TrackDelegation / TrackUndelegation (amounts of the lockup's "bond denom" = fee denom) ---------- *)
Definition track_delegation (bal locked amt dl df : Z) : res (Z * Z) :=
  if (amt =? 0) || (bal <? amt) then Err 1 else
  let x := Z.min (Z.max (locked - dl) 0) amt in
  let y := amt - x in
  if (x <? 0) || (y <? 0) then Panic        (* sdk.NewCoin on a negative amount *)
  else Ok (dl + x, df + y).

Definition track_undelegation (amt dl df : Z) : res (Z * Z) :=
  if amt =? 0 then Err 1 else
  let x := Z.min df amt in
  let y := Z.min dl (amt - x) in
  if (x <? 0) || (y <? 0) then Panic
  else Ok (dl - y, df - x).

(* ---------- checkUnbondingEntriesMature ---------- *)
Inductive sw := SwDone | SwEarly | SwErr | SwPanic.

(* entries of one validator.  The staking query for the account's own unbonding delegations
   finds nothing (the account never delegates through staking itself), so a matured entry is
   always "being handled".  The entry amount is tracked 1:1 whatever denom it was recorded in
   (repair C12-unbond-entry-denom; the pinned tree read AmountOf(fee denom) of a bond-denom coin,
   i.e. zero, and failed forever). *)
Fixpoint sweep_list (now : Z) (l : list entry) (dl df : Z) : list entry * Z * Z * sw :=
  match l with
  | [] => ([], dl, df, SwDone)
  | e :: tl =>
      if now <? e_end e then (l, dl, df, SwEarly)          (* entry.EndTime.After(currentTime): return false, nil *)
      else match track_undelegation (e_amt e) dl df with
           | Ok (dl', df') => sweep_list now tl dl' df'
           | Err _ => (l, dl, df, SwErr)
           | Panic => (l, dl, df, SwPanic)
           end
  end.

(* the Walk over all validators: a key whose entries were all swept is removed after the walk;
   an early return leaves the stored value of that key untouched (the in-memory removals are
   lost, the DL/DF updates are not); an error stops the walk *)
Fixpoint sweep_walk (now : Z) (st : store) (dl df : Z) : store * Z * Z * bool * sw :=
  match st with
  | [] => ([], dl, df, false, SwDone)
  | (k, l) :: tl =>
      match sweep_list now l dl df with
      | (_, dl', df', SwDone) =>
          let '(tl', dl'', df'', _, s) := sweep_walk now tl dl' df' in (tl', dl'', df'', true, s)
      | (_, dl', df', SwEarly) =>
          let '(tl', dl'', df'', rm, s) := sweep_walk now tl dl' df' in ((k, l) :: tl', dl'', df'', rm, s)
      | (_, dl', df', SwErr) => ((k, l) :: tl, dl', df', false, SwErr)
      | (_, _, _, SwPanic) => (st, dl, df, false, SwPanic)
      end
  end.

(* after the walk: "for key in removeKeys { err = Remove(key) }; return err" -- a walk error is
   overwritten by the nil of a successful Remove when at least one key was queued *)
Definition sweep (now : Z) (st : store) (dl df : Z) : res (store * Z * Z) :=
  match sweep_walk now st dl df with
  | (_, _, _, _, SwPanic) => Panic
  | (st', dl', df', rm, SwErr) => if rm then Ok (st', dl', df') else Err 1
  | (st', dl', df', _, _) => Ok (st', dl', df')
  end.

(* ---------- coins ---------- *)
(* sdk.Coins.Validate: strictly ascending denoms, positive amounts; the empty list is valid *)
Fixpoint coins_sorted (lo : Z) (cs : list (Z * Z)) : bool :=
  match cs with [] => true | (d, a) :: tl => (lo <? d) && (0 <? a) && coins_sorted d tl end.
Definition coins_valid (cs : list (Z * Z)) : bool := coins_sorted 0 cs.
Fixpoint has_denom (d : Z) (cs : list (Z * Z)) : bool :=
  match cs with [] => false | (k, _) :: tl => (k =? d) || has_denom d tl end.
Fixpoint coins_val (cs : list (Z * Z)) : Z :=       (* fee + bond value of a coin list *)
  match cs with [] => 0 | (d, a) :: tl => (if (d =? FEE) || (d =? BOND) then a else 0) + coins_val tl end.

(* GetLockedCoinsWithDenoms *)
Fixpoint locked_list (w : world) (cs : list (Z * Z)) : res (list (Z * Z)) :=
  match cs with
  | [] => Ok []
  | (d, _) :: tl =>
      match find d (w_orig w) with
      | None => Err 1                                     (* OriginalLocking.Get: not found *)
      | Some o =>
          match locked_raw o (w_start w) (w_end w) (w_now w) with
          | None => Panic
          | Some L => let! r := locked_list w tl in Ok ((d, L) :: r)
          end
      end
  end.

(* checkTokensSendable: per coin, refresh the unbond entries, then
   balance - (locked - min(locked, DL)) >= amount   (DL only for the fee denom) *)
Fixpoint sendable (w : world) (lks cs : list (Z * Z)) (st : store) (dl df : Z) : res (store * Z * Z) :=
  match cs with
  | [] => Ok (st, dl, df)
  | (d, a) :: tl =>
      let bal := bget (w_ab w) d in
      let L := get d lks in
      let! (st', dl', df') := sweep (w_now w) st dl df in
      let nb := if d =? FEE then L - Z.min L dl' else L in
      if bal <? nb then Err 1
      else if bal - nb <? a then Err 1
      else sendable w lks tl st' dl' df'
  end.

Inductive target := TAcct | TProxy | TOut | TBlocked.

Record conf := { fixed_sender : bool;     (* false: checkSender as in the pinned tree (msg.Sender only) *)
                 bond_sendable : bool }.  (* bank: is uvrise send-enabled (production genesis: false) *)

(* bank Msg/Send issued by an account through x/accounts (from = acct or proxy) *)
Definition bank_msg_send (c : conf) (w : world) (from_proxy : bool) (to : target) (cs : list (Z * Z)) : res world :=
  if negb (coins_valid cs) then Err 1
  else match cs with [] => Err 1 | _ =>                    (* !IsAllPositive on an empty list *)
  if has_denom BOND cs && negb (bond_sendable c) then Err 1
  else match to with TBlocked => Err 1 | _ =>
  let src := if from_proxy then w_pb w else w_ab w in
  if negb (covers src cs) then Err 1
  else
    let ab1 := if from_proxy then w_ab w else bsub_coins (w_ab w) cs in
    let pb1 := if from_proxy then bsub_coins (w_pb w) cs else w_pb w in
    match to with
    | TAcct => Ok (set_bk w (badd_coins ab1 cs) (w_has_proxy w) pb1)
    | TProxy => if w_has_proxy w then Ok (set_bk w ab1 true (badd_coins pb1 cs)) else Err 1
    | _ => let w1 := set_bk w ab1 (w_has_proxy w) pb1 in
           Ok (set_gh w1 (badd_coins (w_out w) cs) (w_rew w) (w_dep w))
    end
  end end.

Definition auth (c : conf) (w : world) (es ms : Z) : bool :=
  (ms =? w_owner w) && (if fixed_sender c then es =? w_owner w else true).

Definition add_rew (w : world) (to_proxy : bool) (rf rb : Z) : world :=
  let w1 := if to_proxy then set_bk w (w_ab w) (w_has_proxy w) (badd (badd (w_pb w) FEE rf) BOND rb)
            else set_bk w (badd (badd (w_ab w) FEE rf) BOND rb) (w_has_proxy w) (w_pb w) in
  set_gh w1 (w_out w) (badd (badd (w_rew w) FEE rf) BOND rb) (w_dep w).

(* ---------- operations ---------- *)
Inductive op :=
| OSend (es ms : Z) (to : target) (cs : list (Z * Z))
| ODelegate (es ms val d amt : Z) (orc : res (Z * Z))                    (* share-class result: rewards paid (fee, bond) *)
| OUndelegate (es ms val d amt : Z) (orc : res (Z * Z * Z * Z))          (* completion, amount, rewards *)
| OWithdrawReward (es ms val : Z) (orc : res (Z * Z))
| OSelfDelegate (es ms amt : Z) (orc : res (Z * Z))                      (* staking delegate: auto-withdrawn rewards *)
| OWithdrawUnbonded (es ms amt : Z)
| OPUndelegate (es ms amt : Z) (orc : res (Z * Z * Z))                   (* completion, rewards *)
| OPWithdrawReward (es ms val : Z) (orc : res (Z * Z))
| OPSend (es ms : Z) (to : target) (cs : list (Z * Z))
| ODeposit (to_proxy : bool) (cs : list (Z * Z))
| OAdvance (t h : Z)
| OSettle
| OBlock (t h : Z).

Definition do_send (c : conf) (w : world) (es ms : Z) (to : target) (cs : list (Z * Z)) : res world :=
  if negb (auth c w es ms) then Err 1 else
  if negb (coins_valid cs) then Err 1 else
  let! lks := locked_list w cs in
  let! (st, dl, df) := sendable w lks cs (w_ent w) (w_DL w) (w_DF w) in
  bank_msg_send c (set_lk w dl df st) false to cs.

(* non-voting variant *)
Definition do_delegate (c : conf) (w : world) (es ms val d amt : Z) (orc : res (Z * Z)) : res world :=
  if w_sd w then Err 1 else                                  (* no handler for this message *)
  if negb (auth c w es ms) then Err 1 else
  let bal := bget (w_ab w) d in
  match find d (w_orig w) with None => Err 1 | Some o =>
  match locked_raw o (w_start w) (w_end w) (w_now w) with None => Panic | Some L =>
  let! (st, dl, df) := sweep (w_now w) (w_ent w) (w_DL w) (w_DF w) in
  let delamt := if d =? FEE then amt else 0 in
  let! (dl', df') := track_delegation (if d =? FEE then bal else 0) (if d =? FEE then L else 0) delamt dl df in
  let! (rf, rb) := orc in
  let w1 := set_lk w dl' df' st in
  let w2 := set_bk w1 (badd (w_ab w1) FEE (- amt)) (w_has_proxy w1) (w_pb w1) in
  let w3 := set_cust w2 (w_stk_del w2) (w_stk_unb w2) (w_sc_del w2 + amt) (w_sc_unb w2) in
  Ok (add_rew w3 false rf rb)
  end end.

Fixpoint merge_entry (h t amt : Z) (l : list entry) : option (list entry) :=
  match l with
  | [] => None
  | e :: tl => if (e_h e =? h) && (e_end e =? t)
               then Some ({| e_end := e_end e; e_amt := e_amt e + amt; e_h := e_h e |} :: tl)
               else match merge_entry h t amt tl with Some tl' => Some (e :: tl') | None => None end
  end.
Definition add_entry (h t amt : Z) (l : list entry) : list entry :=
  match merge_entry h t amt l with
  | Some l' => l'
  | None => l ++ [{| e_end := t; e_amt := amt; e_h := h |}]
  end.
Fixpoint store_add (val h t amt : Z) (st : store) : store :=
  match st with
  | [] => [(val, add_entry h t amt [])]
  | (k, l) :: tl =>
      if k =? val then (k, add_entry h t amt l) :: tl
      else if val <? k then (val, add_entry h t amt []) :: st
      else (k, l) :: store_add val h t amt tl
  end.

Definition do_undelegate (c : conf) (w : world) (es ms val d amt : Z) (orc : res (Z * Z * Z * Z)) : res world :=
  if w_sd w then Err 1 else
  if negb (auth c w es ms) then Err 1 else
  let! (t, ramt, rf, rb) := orc in
  let w1 := set_lk w (w_DL w) (w_DF w) (store_add val (w_height w) t ramt (w_ent w)) in
  (* the share-class module undelegates from a pooled delegation and rounds the burned shares down
     (C10): what it hands out beyond the principal this account put in is other delegators'
     money -- it is booked as a third-party deposit, never as the account's own principal *)
  let over := Z.max 0 (ramt - w_sc_del w1) in
  let w2 := set_cust w1 (w_stk_del w1) (w_stk_unb w1) (w_sc_del w1 - ramt + over) (w_sc_unb w1 ++ [(t, ramt)]) in
  let w3 := set_gh w2 (w_out w2) (w_rew w2) (badd (w_dep w2) FEE over) in
  Ok (add_rew w3 false rf rb).

Definition do_withdraw_reward (c : conf) (w : world) (es ms val : Z) (orc : res (Z * Z)) : res world :=
  if w_sd w then Err 1 else
  if negb (auth c w es ms) then Err 1 else
  let! (rf, rb) := orc in Ok (add_rew w false rf rb).

(* self-delegatable variant: lockup handler, then x/selfdelegation Msg/SelfDelegate *)
Definition do_self_delegate (c : conf) (w : world) (es ms amt : Z) (orc : res (Z * Z)) : res world :=
  if negb (w_sd w) then Err 1 else
  if negb (auth c w es ms) then Err 1 else
  if amt <? 0 then Panic else                                (* sdk.NewCoin(feeDenom, msg.Amount) *)
  let bal := b_fee (w_ab w) in
  match find FEE (w_orig w) with None => Err 1 | Some o =>
  match locked_raw o (w_start w) (w_end w) (w_now w) with None => Panic | Some L =>
  let! (st, dl, df) := sweep (w_now w) (w_ent w) (w_DL w) (w_DF w) in
  let! (dl', df') := track_delegation bal L amt dl df in
  (* Msg/SelfDelegate: root owner lookup, proxy creation on first use, SendCoins lockup -> proxy,
     ConvertReverse at the proxy, staking Delegate from the proxy to the root owner's validator *)
  if bal <? amt then Err 1 else
  let! (rf, rb) := orc in
  let w1 := set_lk w dl' df' st in
  let w2 := set_bk w1 (badd (w_ab w1) FEE (- amt)) true (w_pb w1) in
  let w3 := set_cust w2 (w_stk_del w2 + amt) (w_stk_unb w2) (w_sc_del w2) (w_sc_unb w2) in
  Ok (add_rew w3 true rf rb)
  end end.

Definition do_withdraw_unbonded (c : conf) (w : world) (es ms amt : Z) : res world :=
  if negb (w_sd w) then Err 1 else
  if negb (auth c w es ms) then Err 1 else
  if amt <? 0 then Panic else
  let! (st, dl, df) := sweep (w_now w) (w_ent w) (w_DL w) (w_DF w) in
  let! (dl', df') := track_undelegation amt dl df in
  (* Msg/WithdrawSelfDelegationUnbonded: proxy lookup, Convert at the proxy, SendCoins proxy -> lockup *)
  if negb (w_has_proxy w) then Err 1 else
  if b_bond (w_pb w) <? amt then Err 1 else
  let w1 := set_lk w dl' df' st in
  Ok (set_bk w1 (badd (w_ab w1) FEE amt) true (badd (w_pb w1) BOND (- amt))).

(* proxy handlers (sender must be the root owner = the lockup's owner) *)
Definition do_p_undelegate (c : conf) (w : world) (es ms amt : Z) (orc : res (Z * Z * Z)) : res world :=
  if negb (w_has_proxy w) then Err 1 else
  if negb (auth c w es ms) then Err 1 else
  if amt <? 0 then Panic else                                (* sdk.NewCoin(bondDenom, msg.Amount) *)
  let! (t, rf, rb) := orc in
  let w1 := set_cust w (w_stk_del w - amt) (w_stk_unb w ++ [(t, amt)]) (w_sc_del w) (w_sc_unb w) in
  Ok (add_rew w1 true rf rb).

Definition do_p_withdraw_reward (c : conf) (w : world) (es ms val : Z) (orc : res (Z * Z)) : res world :=
  if negb (w_has_proxy w) then Err 1 else
  if negb (auth c w es ms) then Err 1 else
  let! (rf, rb) := orc in Ok (add_rew w true rf rb).

Definition do_p_send (c : conf) (w : world) (es ms : Z) (to : target) (cs : list (Z * Z)) : res world :=
  if negb (w_has_proxy w) then Err 1 else
  if negb (auth c w es ms) then Err 1 else
  bank_msg_send c w true to cs.

(* a third party sends coins with bank Msg/Send *)
Definition do_deposit (c : conf) (w : world) (to_proxy : bool) (cs : list (Z * Z)) : res world :=
  if negb (coins_valid cs) then Err 1 else
  match cs with [] => Err 1 | _ =>
  if has_denom BOND cs && negb (bond_sendable c) then Err 1 else
  if to_proxy && negb (w_has_proxy w) then Err 1 else
  let w1 := if to_proxy then set_bk w (w_ab w) true (badd_coins (w_pb w) cs)
            else set_bk w (badd_coins (w_ab w) cs) (w_has_proxy w) (w_pb w) in
  Ok (set_gh w1 (w_out w) (w_rew w) (badd_coins (w_dep w) cs))
  end.

(* time and end-of-block settlement *)
Fixpoint due_sum (now : Z) (l : list (Z * Z)) : Z :=
  match l with [] => 0 | (t, a) :: tl => (if t <=? now then a else 0) + due_sum now tl end.
Fixpoint not_due (now : Z) (l : list (Z * Z)) : list (Z * Z) :=
  match l with [] => [] | (t, a) :: tl => if t <=? now then not_due now tl else (t, a) :: not_due now tl end.

Definition do_advance (w : world) (t h : Z) : world :=
  if t <? w_now w then w else set_clk w t h.
(* staking EndBlock: matured unbondings of the proxy are paid to it in the bond denom;
   share-class EndBlock (runs after staking): matured unbondings are converted and paid to the account *)
Definition do_settle (w : world) : world :=
  let now := w_now w in
  let w1 := set_bk w (badd (w_ab w) FEE (due_sum now (w_sc_unb w))) (w_has_proxy w)
                     (badd (w_pb w) BOND (due_sum now (w_stk_unb w))) in
  set_cust w1 (w_stk_del w1) (not_due now (w_stk_unb w1)) (w_sc_del w1) (not_due now (w_sc_unb w1)).

Definition exec (c : conf) (w : world) (o : op) : res world :=
  match o with
  | OSend es ms to cs => do_send c w es ms to cs
  | ODelegate es ms val d amt orc => do_delegate c w es ms val d amt orc
  | OUndelegate es ms val d amt orc => do_undelegate c w es ms val d amt orc
  | OWithdrawReward es ms val orc => do_withdraw_reward c w es ms val orc
  | OSelfDelegate es ms amt orc => do_self_delegate c w es ms amt orc
  | OWithdrawUnbonded es ms amt => do_withdraw_unbonded c w es ms amt
  | OPUndelegate es ms amt orc => do_p_undelegate c w es ms amt orc
  | OPWithdrawReward es ms val orc => do_p_withdraw_reward c w es ms val orc
  | OPSend es ms to cs => do_p_send c w es ms to cs
  | ODeposit tp cs => do_deposit c w tp cs
  | OAdvance t h => Ok (do_advance w t h)
  | OSettle => Ok (do_settle w)
  | OBlock t h => Ok (do_settle (do_advance w t h))
  end.

(* a message is a transaction: an error or a panic leaves the state unchanged *)
Definition step (c : conf) (w : world) (o : op) : world * Z :=
  match exec c w o with
  | Ok w' => (w', 0)
  | Err _ => (w, 1)
  | Panic => (w, 2)
  end.

Fixpoint run (c : conf) (w : world) (os : list op) : world :=
  match os with [] => w | o :: tl => run c (fst (step c w o)) tl end.

(* ---------- Init of a continuous locking account ---------- *)
(* start / end: None = Go's zero time.  Returns (start, end) as stored. *)
Definition init_times (start endt : option Z) (now : Z) : res (Z * Z) :=
  match endt with
  | None => Err 1                                            (* EndTime.IsZero *)
  | Some e =>
      match start with
      | None => Ok (now, e)                                  (* end is after the zero time; start := block time *)
      | Some s => if s <? e then Ok (s, e) else Err 1
      end
  end.

(* ---------- observables the property statements (and the monitors) are phrased with ---------- *)
Fixpoint sum2 (l : list (Z * Z)) : Z := match l with [] => 0 | (_, a) :: tl => a + sum2 tl end.

(* what is actually delegated or unbonding: bond tokens held by the proxy, the proxy's stake and
   its staking unbondings, the share-class principal and the pending share-class unbondings *)
Definition custody_b (w : world) : Z :=
  b_bond (w_pb w) + w_stk_del w + sum2 (w_stk_unb w) + w_sc_del w + sum2 (w_sc_unb w).

(* amounts of the unbond entries the account has recorded itself that are mature but not yet
   swept (the refresh is lazy: every handler that uses DL / DF runs it first) *)
Fixpoint matured (now : Z) (l : list entry) : Z :=
  match l with [] => 0 | e :: tl => (if e_end e <=? now then e_amt e else 0) + matured now tl end.
Fixpoint matured_st (now : Z) (st : store) : Z :=
  match st with [] => 0 | (_, l) :: tl => matured now l + matured_st now tl end.

(* the real sender and the msg.Sender field of an execute message *)
Definition op_senders (o : op) : option (Z * Z) :=
  match o with
  | OSend es ms _ _ | ODelegate es ms _ _ _ _ | OUndelegate es ms _ _ _ _ | OWithdrawReward es ms _ _
  | OSelfDelegate es ms _ _ | OWithdrawUnbonded es ms _ | OPUndelegate es ms _ _
  | OPWithdrawReward es ms _ _ | OPSend es ms _ _ => Some (es, ms)
  | _ => None
  end.
