(* C06: claim-once at the level of the message: Msg/ClaimRewards for one position, executed twice in
   a row, pays nothing the second time. *)
From Coq Require Import ZArith Bool List Lia ZifyBool.
Import ListNotations.
From Sunrise Require Import Base.Outcome Base.Dec Base.DecLemmas Amm.Math Amm.Pool Amm.LiqDefs Amm.LiqLists Amm.LiqInv
  Amm.Fees Amm.FeesVec Amm.FeesProofs Amm.FeesLoop Amm.FeesFlow.
Local Open Scope Z_scope.

(* prepare_claim does not read the bank balances *)
Lemma prepare_claim_set_bals s bp bf bu pid :
  prepare_claim (set_bals s bp bf bu) pid =
  match prepare_claim s pid with
  | Ok (s1, c) => Ok (set_bals s1 bp bf bu, c)
  | Err e => Err e
  | Panic => Panic
  end.
Proof.
  unfold prepare_claim. cbn [a_positions a_acc_pos a_acc_value set_bals].
  destruct (find_pos (a_positions s) pid) as [pos|]; [|reflexivity].
  destruct (find_ap (a_acc_pos s) pid) as [ap0|]; [|reflexivity].
  change (fee_growth_outside (set_bals s bp bf bu) (pos_lower pos) (pos_upper pos))
    with (fee_growth_outside s (pos_lower pos) (pos_upper pos)).
  destruct (fee_growth_outside s (pos_lower pos) (pos_upper pos)) as [o|]; cbn [of_opt rbind]; [|reflexivity].
  destruct (vadd (ap_value ap0) o) as [v1|]; cbn [of_opt rbind]; [|reflexivity].
  destruct (total_rewards (a_acc_value s) _) as [tot|]; cbn [of_opt rbind]; [|reflexivity].
  destruct (vtrunc tot) as [claimed dust].
  destruct (vsafe_sub (a_acc_value s) o) as [inside|]; cbn [of_opt rbind]; [|reflexivity].
  cbn [ap_shares].
  destruct (ap_shares ap0 =? 0); cbn [a_acc_shares a_acc_value set_acc_pos set_bals];
    (destruct (vis_zero dust); [reflexivity|]);
    (destruct (a_acc_shares s =? 0); [reflexivity|]);
    (destruct (vquo_dec_trunc dust (a_acc_shares s)) as [per|]; cbn [of_opt rbind]; [|reflexivity]);
    (destruct (vadd (a_acc_value s) per) as [v|]; cbn [of_opt rbind]; reflexivity).
Qed.

Lemma amm_eta s : s = set_bals s (a_bal_pool s) (a_bal_fee s) (a_bal_user s).
Proof. destruct s; reflexivity. Qed.
Lemma same_fee_state_set_bals s t : same_fee_state s t -> t = set_bals s (a_bal_pool t) (a_bal_fee t) (a_bal_user t).
Proof. destruct s, t. unfold same_fee_state. cbn. intros (A&B&C&D&E&F&G). subst. reflexivity. Qed.

(* second_claim_zero for the message: the same single-position claim, twice in a row *)
Theorem second_claim_msg_zero s sender pid s1 c s2 c2 :
  FeeWF s ->
  (forall ap, find_ap (a_acc_pos s) pid = Some ap -> 0 < ap_shares ap <= a_acc_shares s) ->
  step s (OClaim sender [pid]) = (s1, Ok c) -> step s1 (OClaim sender [pid]) = (s2, Ok c2) -> c2 = vzero.
Proof.
  intros W Hsh H1 H2. unfold step, msg_claim_rewards in H1, H2. cbn [claim_rewards_loop] in H1, H2.
  destruct (collect_fees s sender pid) as [[sa ca]| |] eqn:E1; cbn [rbind] in H1; try discriminate.
  injection H1 as <- <-.
  destruct (collect_fees sa sender pid) as [[sb cb]| |] eqn:E2; cbn [rbind] in H2; try discriminate.
  injection H2 as _ <-.
  (* first collect: prepare on s, then a send that only changes balances *)
  unfold collect_fees in E1.
  destruct (find_pos (a_positions s) pid) as [pos|] eqn:Ep; [|discriminate].
  destruct (negb (pos_owner pos =? sender)); [discriminate|].
  destruct (prepare_claim s pid) as [[sp cp]| |] eqn:Ec1; cbn [rbind] in E1; try discriminate.
  assert (Hsame : same_fee_state sp sa).
  { destruct (vis_zero cp); [injection E1 as <- _; apply same_fee_state_refl|].
    destruct (send sp AFee AUser cp) as [sx| |] eqn:Es; cbn [rbind] in E1; try discriminate. injection E1 as <- _.
    apply (send_spec _ _ _ _ _ Es). }
  (* second collect on sa = sp with other balances *)
  unfold collect_fees in E2.
  destruct (find_pos (a_positions sa) pid) as [pos'|]; [|discriminate].
  destruct (negb (pos_owner pos' =? sender)); [discriminate|].
  rewrite (same_fee_state_set_bals _ _ Hsame), prepare_claim_set_bals in E2.
  destruct (prepare_claim sp pid) as [[sq cq]| |] eqn:Ec2; cbn [rbind] in E2; try discriminate.
  assert (Hz : cq = vzero).
  { eapply second_claim_zero; [apply (fw_acc _ W)|apply (fw_ticks _ W)|apply (fw_aps _ W)|exact Hsh|exact Ec1|exact Ec2]. }
  subst cq. cbn [vis_zero vzero forallb Z.eqb andb] in E2. injection E2 as _ <-.
  cbn. reflexivity.
Qed.
