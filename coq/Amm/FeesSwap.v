(* C06 proofs, part 3: fee growth through the swap loop.
   Reading the tick store as "growth below a tick" (Fees.below), one iteration of the loop adds the
   step's growth per unit of liquidity to below(t) exactly for the initialised ticks t above the
   cursor, and crossing a tick (the flip  growth := global - growth) changes no below(t).
   Hence growth inside [lo,up) = below(up) - below(lo) rises by the step's growth exactly when
   lo <= cursor < up: fees accrue only to positions in range at the moment of each trade step. *)
From Coq Require Import ZArith Bool List Lia ZifyBool Sorted.
Import ListNotations.
From Sunrise Require Import Base.Outcome Base.Dec Base.DecLemmas Amm.Math Amm.Pool Amm.LiqDefs Amm.LiqLists
  Amm.Fees Amm.FeesVec Amm.FeesProofs Amm.FeesLoop Amm.FeesFlow.
Local Open Scope Z_scope.
Ltac Zify.zify_post_hook ::= Z.div_mod_to_equations.

Definition stored (ts : list tick) (t : Z) : Prop := find_tick ts t <> None.
Definition beyond (b4q : bool) (cur t : Z) : Prop := if b4q then t <= cur else cur < t.
Definition vis_lt (b4q : bool) (a b : tick) : Prop := if b4q then t_index b < t_index a else t_index a < t_index b.

(* the iterator holds exactly the initialised ticks beyond the cursor, nearest first *)
Record IterOK (b4q : bool) (iter : list tick) (st : swap_state) : Prop := {
  io_sorted : StronglySorted (vis_lt b4q) iter;
  io_beyond : Forall (fun x => beyond b4q (ss_tick st) (t_index x)) iter;
  io_complete : forall t, stored (ss_ticks st) t -> beyond b4q (ss_tick st) t -> exists x, In x iter /\ t_index x = t;
  io_stored : Forall (fun x => stored (ss_ticks st) (t_index x)) iter
}.

(* the global growth as the loop sees it: accumulator value + growth of this swap so far *)
Definition vglobal (accv : vec) (din g : Z) : vec := vplus accv (vsingle din g).
Definition Bel (accv : vec) (din : Z) (st : swap_state) (t : Z) : vec :=
  below (ss_ticks st) (ss_tick st) (vglobal accv din (ss_growth st)) t.

Lemma vglobal_len4 accv din g : len4 accv -> 0 <= din < 4 -> len4 (vglobal accv din g).
Proof. intros La Hd. apply vplus_len4; [exact La|apply vsingle_length; exact Hd]. Qed.
Lemma vglobal_nth accv din g i : len4 accv -> 0 <= din < 4 -> (i < 4)%nat ->
  vn (vglobal accv din g) i = vn accv i + (if Nat.eqb i (Z.to_nat din) then g else 0).
Proof.
  intros La Hd Hi. unfold vglobal. rewrite vplus_nth4; [|exact La|apply vsingle_length; exact Hd|exact Hi].
  rewrite vsingle_nth by exact Hd. reflexivity.
Qed.

Lemma below_nth ts cur G t i : len4 G -> Forall tick_wf ts -> (i < 4)%nat ->
  vn (below ts cur G t) i =
  match find_tick ts t with
  | Some x => if t <=? cur then vn (t_growth x) i else vn G i - vn (t_growth x) i
  | None => vn G i
  end.
Proof.
  intros LG Ht Hi. unfold below. destruct (find_tick ts t) as [x|] eqn:E; [|reflexivity].
  destruct (t <=? cur); [reflexivity|]. apply vminus_nth4; [exact LG| |exact Hi].
  rewrite Forall_forall in Ht. apply Ht. apply (find_tick_in _ _ _ E).
Qed.

Lemma stored_put ts x t : stored (put_tick ts x) t <-> (t = t_index x \/ stored ts t).
Proof.
  unfold stored. rewrite find_put_tick. destruct (Z.eqb_spec t (t_index x)) as [E|E].
  - split; [intros _; left; exact E|intros _; discriminate].
  - split; [intros H; right; exact H|intros [H|H]; [contradiction|exact H]].
Qed.

(* the head of the iterator is the nearest initialised tick beyond the cursor *)
Lemma iter_head_nearest b4q nt tl st t : IterOK b4q (nt :: tl) st -> stored (ss_ticks st) t -> beyond b4q (ss_tick st) t ->
  t = t_index nt \/ beyond b4q (if b4q then t_index nt - 1 else t_index nt) t.
Proof.
  intros [Hs Hb Hc Hst] Ht Hbt. destruct (Hc t Ht Hbt) as (x & [<-|Hin] & Hx); [left; symmetry; exact Hx|].
  right. inversion Hs as [|? ? _ Hall]; subst. rewrite Forall_forall in Hall. specialize (Hall _ Hin).
  unfold vis_lt, beyond in *. destruct b4q; lia.
Qed.

Section OneIteration.
  Variables (ei b4q : bool) (fee limit : Z) (tp : tick_params) (accv : vec) (din : Z).
  Hypothesis La : len4 accv.
  Hypothesis Hd : 0 <= din < 4.

  Lemma iter_step iter st iter' st' c r fc per :
    Forall tick_wf (ss_ticks st) -> IterOK b4q iter st ->
    loop_iter ei b4q true fee limit tp accv din iter st = Ok (ItNext iter' st' c r fc per) ->
    (r = true -> in_bucket b4q (ss_tick st) iter (ss_tick st')) ->
    IterOK b4q iter' st' /\ Forall tick_wf (ss_ticks st') /\
    (forall t, stored (ss_ticks st') t <-> stored (ss_ticks st) t) /\
    (if b4q then ss_tick st' <= ss_tick st else ss_tick st <= ss_tick st') /\
    ss_growth st' = ss_growth st + per /\
    dadd (ss_fees st) fc = Some (ss_fees st') /\
    ((ss_liq st = 0 /\ per = 0) \/ (ss_liq st <> 0 /\ dquoT fc (ss_liq st) = Some per)) /\
    forall t, stored (ss_ticks st) t -> forall i, (i < 4)%nat ->
      vn (Bel accv din st' t) i = vn (Bel accv din st t) i
        + (if (ss_tick st <? t) && Nat.eqb i (Z.to_nat din) then per else 0).
  Proof.
    intros Ht Hio E Hbucket.
    destruct (loop_iter_inv _ _ _ _ _ _ _ _ _ _ _ _ _ _ _ _ E) as (nt & tl & nsp & spec & other & F).
    destruct F as [Fi Fcond Fsp Fstep Ffees Frem Fcalc Fcur]. subst iter.
    destruct Ffees as [Ff Fg].
    assert (Hg : ss_growth st' = ss_growth st + per) by (destruct Fg as [(_ & -> & ->)|(_ & _ & ->)]; lia).
    assert (Hliq : (ss_liq st = 0 /\ per = 0) \/ (ss_liq st <> 0 /\ dquoT fc (ss_liq st) = Some per)) by (destruct Fg as [(A & B & _)|(A & B & _)]; tauto).
    pose proof Hio as [Hs Hb Hc Hst].
    inversion Hs as [|? ? Hs_tl Hs_hd]; subst. inversion Hb as [|? ? Hb_nt Hb_tl]; subst. inversion Hst as [|? ? Hst_nt Hst_tl]; subst.
    set (n := t_index nt) in *. set (cur := ss_tick st) in *.
    assert (LG : len4 (vglobal accv din (ss_growth st))) by (apply vglobal_len4; assumption).
    assert (LG' : len4 (vglobal accv din (ss_growth st'))) by (apply vglobal_len4; assumption).
    assert (HG : forall i, (i < 4)%nat -> vn (vglobal accv din (ss_growth st')) i =
                   vn (vglobal accv din (ss_growth st)) i + (if Nat.eqb i (Z.to_nat din) then per else 0)).
    { intros i Hi. rewrite !vglobal_nth by assumption. rewrite Hg. destruct (Nat.eqb i (Z.to_nat din)); lia. }
    destruct Fcur as [(-> & -> & Hsp & -> & Htick & Hl & Hu)|(-> & Hsp & -> & Hl & Hticks & Hrc)].
    - (* the step reached the next initialised tick and crossed it *)
      destruct Hu as (g1 & g2 & E1 & E2 & Hticks).
      unfold stored in Hst_nt. fold n in Hst_nt.
      assert (Hcc : exists x0, find_tick (ss_ticks st) n = Some x0 /\ cross_cur st nt = x0).
      { unfold cross_cur. fold n. destruct (find_tick (ss_ticks st) n) as [x0|]; [exists x0; split; reflexivity|contradiction]. }
      destruct Hcc as (x0 & Hx0 & Hcc). rewrite Hcc in *.
      assert (Lx0 : len4 (t_growth x0)) by (rewrite Forall_forall in Ht; apply Ht; apply (find_tick_in _ _ _ Hx0)).
      fold (vglobal accv din (ss_growth st')) in E1.
      assert (E1' : g1 = vglobal accv din (ss_growth st')).
      { destruct (vadd_nth _ _ _ E1 ltac:(pose proof (vsingle_length din (ss_growth st') Hd); unfold len4 in *; congruence)) as [L1 N1].
        apply vec_ext4; [unfold len4 in *; congruence|exact LG'|]. intros i Hi.
        rewrite N1 by (unfold len4 in *; lia). unfold vglobal. rewrite vplus_nth4; [reflexivity|exact La|apply vsingle_length; exact Hd|exact Hi]. }
      subst g1.
      destruct (vsub_nth _ _ _ E2 ltac:(unfold len4 in *; congruence)) as [L2 N2].
      assert (Lg2 : len4 g2) by (unfold len4 in *; congruence).
      set (newt := {| t_index := n; t_gross := t_gross x0; t_net := t_net x0; t_growth := g2 |}) in *.
      assert (Ht' : Forall tick_wf (ss_ticks st')) by (rewrite Hticks; apply put_tick_wf; [exact Ht|exact Lg2]).
      assert (Hsame : forall t, stored (ss_ticks st') t <-> stored (ss_ticks st) t).
      { intros t. rewrite Hticks, stored_put. cbn [t_index newt]. split; [intros [->|X]; [unfold stored; rewrite Hx0; discriminate|exact X]|tauto]. }
      assert (Hnear : forall t, stored (ss_ticks st) t -> beyond b4q cur t -> t = n \/ beyond b4q (ss_tick st') t).
      { intros t H1 H2. rewrite Htick. eapply iter_head_nearest; eassumption. }
      split; [|split; [exact Ht'|split; [exact Hsame|split; [|split; [exact Hg|split; [exact Ff|split; [exact Hliq|]]]]]]].
      + constructor.
        * exact Hs_tl.
        * rewrite Htick. apply Forall_forall. intros x Hx. rewrite Forall_forall in Hs_hd. specialize (Hs_hd _ Hx).
          unfold vis_lt, beyond in *. fold n in Hs_hd. destruct b4q; lia.
        * intros t H1 H2. apply Hsame in H1.
          assert (H2' : beyond b4q cur t) by (rewrite Htick in H2; unfold beyond in *; fold n in H2; destruct b4q; lia).
          destruct (Hc t H1 H2') as (x & [<-|Hin] & Hx); [|exists x; split; assumption].
          exfalso. rewrite Htick in H2. unfold beyond in H2. fold n in Hx. destruct b4q; lia.
        * apply Forall_forall. intros x Hx. apply Hsame. rewrite Forall_forall in Hst_tl. apply Hst_tl. exact Hx.
      + rewrite Htick. unfold beyond in Hb_nt. fold n cur in Hb_nt. destruct b4q; lia.
      + intros t Hst_t i Hi. unfold Bel. rewrite !below_nth by assumption. fold cur. rewrite Htick, Hticks, find_put_tick. cbn [t_index newt].
        specialize (HG i Hi). destruct (N2 i ltac:(unfold len4 in *; lia)) as [N2a _].
        destruct (Z.eqb_spec t n) as [->|Hne].
        * rewrite Hx0. cbn [t_growth newt]. unfold beyond in Hb_nt. fold n cur in Hb_nt.
          destruct b4q.
          -- destruct (Z.leb_spec n (n - 1)); [lia|]. destruct (Z.leb_spec n cur); [|lia]. destruct (Z.ltb_spec cur n); [lia|].
             cbn [andb]. rewrite N2a. lia.
          -- destruct (Z.leb_spec n n); [|lia]. destruct (Z.leb_spec n cur); [lia|]. destruct (Z.ltb_spec cur n); [|lia].
             cbn [andb]. rewrite N2a. destruct (Nat.eqb i (Z.to_nat din)); lia.
        * unfold stored in Hst_t. destruct (find_tick (ss_ticks st) t) as [x|] eqn:Ex; [|contradiction].
          assert (Hiff : (t <=? (if b4q then n - 1 else n)) = (t <=? cur)).
          { unfold beyond in Hb_nt. fold n cur in Hb_nt.
            destruct b4q.
            - destruct (Z.leb_spec t cur) as [Hle|Hgt].
              + destruct (Hnear t ltac:(unfold stored; rewrite Ex; discriminate) Hle) as [->|Hb2]; [contradiction|].
                rewrite Htick in Hb2. unfold beyond in Hb2. lia.
              + lia.
            - destruct (Z.leb_spec t cur) as [Hle|Hgt]; [lia|].
              destruct (Hnear t ltac:(unfold stored; rewrite Ex; discriminate) Hgt) as [->|Hb2]; [contradiction|].
              rewrite Htick in Hb2. unfold beyond in Hb2. lia. }
          rewrite Hiff. destruct (Z.leb_spec t cur); destruct (Z.ltb_spec cur t); try lia; cbn [andb]; [lia|].
          destruct (Nat.eqb i (Z.to_nat din)); lia.
    - (* the step stopped inside the bucket *)
      assert (Hcur' : in_bucket b4q cur (nt :: tl) (ss_tick st')).
      { destruct Hrc as [(-> & _ & _)|(_ & -> & _)]; [apply Hbucket; reflexivity|].
        unfold in_bucket. fold n. unfold beyond in Hb_nt. fold n cur in Hb_nt. destruct b4q; fold cur; lia. }
      unfold in_bucket in Hcur'. fold n in Hcur'.
      assert (Hsame : forall t, stored (ss_ticks st') t <-> stored (ss_ticks st) t) by (intros t; rewrite Hticks; tauto).
      assert (Hiff : forall t, stored (ss_ticks st) t -> (t <=? ss_tick st') = (t <=? cur)).
      { intros t Hs_t. destruct b4q.
        - destruct (Z.leb_spec t cur) as [Hle|Hgt]; [|lia].
          destruct (iter_head_nearest true nt tl st t Hio Hs_t Hle) as [->|Hb2]; [fold n; lia|].
          unfold beyond in Hb2. fold n in Hb2. lia.
        - destruct (Z.leb_spec t cur) as [Hle|Hgt]; [lia|].
          destruct (iter_head_nearest false nt tl st t Hio Hs_t Hgt) as [->|Hb2]; [fold n; lia|].
          unfold beyond in Hb2. fold n in Hb2. lia. }
      split; [|split; [rewrite Hticks; exact Ht|split; [exact Hsame|split; [destruct b4q; lia|split; [exact Hg|split; [exact Ff|split; [exact Hliq|]]]]]]].
      + constructor.
        * exact Hs.
        * apply Forall_forall. intros x [<-|Hx]; unfold beyond; fold n.
          -- destruct b4q; lia.
          -- rewrite Forall_forall in Hs_hd. specialize (Hs_hd _ Hx). unfold vis_lt in Hs_hd. fold n in Hs_hd. destruct b4q; lia.
        * intros t H1 H2. rewrite Hticks in H1. apply Hc; [exact H1|]. fold cur. unfold beyond in *. destruct b4q; lia.
        * rewrite Hticks. exact Hst.
      + intros t Hst_t i Hi. unfold Bel. rewrite !below_nth by (rewrite ?Hticks; assumption). rewrite Hticks. fold cur.
        rewrite (Hiff t Hst_t). specialize (HG i Hi).
        unfold stored in Hst_t. destruct (find_tick (ss_ticks st) t) as [x|]; [|contradiction].
        destruct (Z.leb_spec t cur); destruct (Z.ltb_spec cur t); try lia; cbn [andb]; [lia|].
        destruct (Nat.eqb i (Z.to_nat din)); lia.
  Qed.
End OneIteration.

(* ---------- the whole loop: accrual events ---------- *)
(* one event per iteration: (cursor, growth per unit of liquidity, fee charged, active liquidity) *)
Definition ev := (Z * Z * Z * Z)%type.
Fixpoint sum_below (evs : list ev) (t : Z) : Z :=
  match evs with [] => 0 | (c, per, _, _) :: r => (if c <? t then per else 0) + sum_below r t end.
Fixpoint sum_in (evs : list ev) (lo up : Z) : Z :=
  match evs with [] => 0 | (c, per, _, _) :: r => (if (lo <=? c) && (c <? up) then per else 0) + sum_in r lo up end.
Fixpoint sum_per (evs : list ev) : Z := match evs with [] => 0 | (_, per, _, _) :: r => per + sum_per r end.
Fixpoint sum_fc (evs : list ev) : Z := match evs with [] => 0 | (_, _, fc, _) :: r => fc + sum_fc r end.
Definition ev_ok (b4q : bool) (t0 t1 : Z) (e : ev) : Prop :=
  let '(c, per, fc, liq) := e in
  (if b4q then t1 <= c <= t0 else t0 <= c <= t1) /\
  ((liq = 0 /\ per = 0) \/ (liq <> 0 /\ dquoT fc liq = Some per)).

Lemma sum_in_below evs lo up : lo <= up -> sum_in evs lo up = sum_below evs up - sum_below evs lo.
Proof.
  intros H. induction evs as [|[[[c per] fc] liq] r IH]; cbn [sum_in sum_below]; [reflexivity|]. rewrite IH.
  destruct (Z.leb_spec lo c); destruct (Z.ltb_spec c up); destruct (Z.ltb_spec c lo); cbn [andb]; lia.
Qed.

Record LoopRel (accv : vec) (din : Z) (b4q : bool) (st0 st : swap_state) (evs : list ev) : Prop := {
  lr_below : forall t, stored (ss_ticks st0) t -> forall i, (i < 4)%nat ->
     vn (Bel accv din st t) i = vn (Bel accv din st0 t) i + (if Nat.eqb i (Z.to_nat din) then sum_below evs t else 0);
  lr_growth : ss_growth st = ss_growth st0 + sum_per evs;
  lr_fees : ss_fees st = ss_fees st0 + sum_fc evs;
  lr_dir : if b4q then ss_tick st <= ss_tick st0 else ss_tick st0 <= ss_tick st;
  lr_evs : Forall (ev_ok b4q (ss_tick st0) (ss_tick st)) evs;
  lr_stored : forall t, stored (ss_ticks st) t <-> stored (ss_ticks st0) t
}.

Lemma ev_ok_mono (b4q : bool) (t0 t1 t1' : Z) (e : ev) : (if b4q then t1' <= t1 else t1 <= t1') -> ev_ok b4q t0 t1 e -> ev_ok b4q t0 t1' e.
Proof. destruct e as [[[c per] fc] liq]. unfold ev_ok. intros H [H1 H2]. split; [destruct b4q; lia|exact H2]. Qed.

Theorem swap_loop_accrual ei b4q fee limit tp accv din fuel iter st0 st' :
  len4 accv -> 0 <= din < 4 -> Forall tick_wf (ss_ticks st0) -> IterOK b4q iter st0 ->
  cursor_ok fuel ei b4q true fee limit tp accv din iter st0 ->
  swap_loop fuel ei b4q true fee limit tp accv din iter st0 = Ok st' ->
  Forall tick_wf (ss_ticks st') /\ exists evs, LoopRel accv din b4q st0 st' evs.
Proof.
  intros La Hd Ht0 Hio Hc H.
  destruct (swap_loop_inv (fun it st => IterOK b4q it st /\ Forall tick_wf (ss_ticks st) /\ exists evs, LoopRel accv din b4q st0 st evs)
              ei b4q true fee limit tp accv din) with (fuel := fuel) (iter := iter) (st := st0) (st' := st')
    as (it' & _ & R1 & R2); [| |exact Hc|exact H|split; assumption].
  - clear Hio Hc H. intros it st it' st1 c r fc per (Hio & Ht & evs & [Rb Rg Rf Rd Re Rs]) E Hb.
    destruct (iter_step ei b4q fee limit tp accv din La Hd it st it' st1 c r fc per Ht Hio E Hb)
      as (Hio' & Ht' & Hsame & Hdir & Hg & Hf & Hl & Hbel).
    split; [exact Hio'|]. split; [exact Ht'|].
    exists ((ss_tick st, per, fc, ss_liq st) :: evs). constructor.
    + intros t Hs i Hi. rewrite Hbel by (first [apply Rs; exact Hs|exact Hi]). rewrite Rb by assumption.
      cbn [sum_below]. destruct (Z.ltb_spec (ss_tick st) t); destruct (Nat.eqb i (Z.to_nat din)); cbn [andb]; lia.
    + cbn [sum_per]. lia.
    + cbn [sum_fc]. apply dadd_some in Hf. lia.
    + destruct b4q; lia.
    + constructor.
      * unfold ev_ok. split; [destruct b4q; lia|exact Hl].
      * eapply Forall_impl; [|exact Re]. intros e. apply ev_ok_mono. exact Hdir.
    + intros t. rewrite Hsame. apply Rs.
  - split; [exact Hio|]. split; [exact Ht0|]. exists []. constructor.
    + intros t _ i _. cbn [sum_below]. destruct (Nat.eqb i (Z.to_nat din)); lia.
    + cbn. lia.
    + cbn. lia.
    + destruct b4q; lia.
    + constructor.
    + tauto.
Qed.

(* ---------- the iterator of a fresh swap ---------- *)
Lemma sorted_filter {A} (R : A -> A -> Prop) f l : StronglySorted R l -> StronglySorted R (filter f l).
Proof.
  intros H. induction H as [|x l Hs IH Hall]; cbn [filter]; [constructor|].
  destruct (f x); [|exact IH]. constructor; [exact IH|].
  apply Forall_forall. intros y Hy. apply filter_In in Hy. rewrite Forall_forall in Hall. apply Hall. tauto.
Qed.
Lemma sorted_rev {A} (R : A -> A -> Prop) l : StronglySorted R l -> StronglySorted (fun a b => R b a) (rev l).
Proof.
  intros H. induction H as [|x l Hs IH Hall]; cbn [rev]; [constructor|].
  assert (G : forall l1, StronglySorted (fun a b => R b a) l1 -> Forall (fun y => R x y) l1 -> StronglySorted (fun a b => R b a) (l1 ++ [x])).
  { induction l1 as [|y l1 IH1]; intros H1 H2; cbn [app]; [constructor; constructor|].
    inversion H1; subst. inversion H2; subst. constructor; [apply IH1; assumption|].
    apply Forall_app. split; [assumption|constructor; [assumption|constructor]]. }
  apply G; [exact IH|]. apply Forall_forall. intros y Hy. apply in_rev in Hy. rewrite Forall_forall in Hall. apply Hall. exact Hy.
Qed.

Lemma in_sorted_find l x : StronglySorted tick_lt l -> In x l -> find_tick l (t_index x) = Some x.
Proof.
  intros H. induction H as [|y l Hs IH Hall]; [intros []|]. cbn [find_tick]. intros [->|Hin].
  - rewrite Z.eqb_refl. reflexivity.
  - rewrite Forall_forall in Hall. specialize (Hall _ Hin). unfold tick_lt in Hall.
    destruct (Z.eqb_spec (t_index y) (t_index x)); [lia|]. apply IH. exact Hin.
Qed.

Lemma iter_ticks_ok b4q (s : amm) specified : StronglySorted tick_lt (a_ticks s) ->
  IterOK b4q (iter_ticks b4q (a_ticks s) (p_tick (a_pool s))) (swap_st0 s specified).
Proof.
  intros Hs. unfold iter_ticks. constructor; cbn [ss_tick ss_ticks swap_st0].
  - destruct b4q.
    + apply (sorted_rev tick_lt). apply sorted_filter. exact Hs.
    + apply (sorted_filter tick_lt). exact Hs.
  - apply Forall_forall. intros x Hx. unfold beyond. destruct b4q.
    + apply in_rev in Hx. apply filter_In in Hx. lia.
    + apply filter_In in Hx. lia.
  - intros t Hst Hb. unfold stored in Hst. destruct (find_tick (a_ticks s) t) as [x|] eqn:E; [|contradiction].
    destruct (find_tick_in _ _ _ E) as [Hin Hidx]. exists x. split; [|exact Hidx]. unfold beyond in Hb.
    destruct b4q.
    + apply in_rev. rewrite rev_involutive. apply filter_In. split; [exact Hin|lia].
    + apply filter_In. split; [exact Hin|lia].
  - apply Forall_forall. intros x Hx. unfold stored.
    assert (Hin : In x (a_ticks s)).
    { destruct b4q; [apply in_rev in Hx|]; apply filter_In in Hx; tauto. }
    rewrite (in_sorted_find _ _ Hs Hin). discriminate.
Qed.

(* ---------- a whole swap ---------- *)
(* every tick the loop recomputes from the price lies in the bucket it was walking *)
Definition swap_cursor_ok (s : amm) (ei : bool) (din specified : Z) : Prop :=
  forall limit, sqrt_price_limit (if din =? 0 then MIN_MULT_SPOT else MAX_MULT_SPOT) (din =? 0) = Ok limit ->
    cursor_ok (length (iter_ticks (din =? 0) (a_ticks s) (p_tick (a_pool s))) + 300) ei (din =? 0) true
      (p_fee (a_pool s)) limit (p_tp (a_pool s)) (a_acc_value s) din
      (iter_ticks (din =? 0) (a_ticks s) (p_tick (a_pool s))) (swap_st0 s specified).

Definition below_of (s : amm) (t : Z) : vec := below (a_ticks s) (p_tick (a_pool s)) (a_acc_value s) t.

Lemma swap_fields s ei din dout specified s' i o :
  swap s ei din dout specified true = Ok (s', i, o) ->
  exists r accv,
    compute_swap s ei din dout specified (p_fee (a_pool s)) (if din =? 0 then MIN_MULT_SPOT else MAX_MULT_SPOT) true = Ok r /\
    vadd (a_acc_value s) (vsingle din (sr_growth r)) = Some accv /\
    a_ticks s' = sr_ticks r /\ a_acc_value s' = accv /\ p_tick (a_pool s') = sr_tick r /\
    a_positions s' = a_positions s /\ a_acc_pos s' = a_acc_pos s /\ a_acc_shares s' = a_acc_shares s /\
    p_liq (a_pool s') = sr_liq r /\ i = sr_in r /\ o = sr_out r /\ (exists fc, dceil (sr_fees r) = Some fc).
Proof.
  intros H. unfold swap in H.
  destruct (din =? dout); [discriminate|].
  destruct (compute_swap s ei din dout specified (p_fee (a_pool s)) (if din =? 0 then MIN_MULT_SPOT else MAX_MULT_SPOT) true)
    as [r| |] eqn:Ec; cbn [rbind] in H; try discriminate.
  match type of H with (if ?c then _ else _) = _ => destruct c; [discriminate|] end.
  destruct (vadd (a_acc_value s) (vsingle din (sr_growth r))) as [accv|] eqn:Ea; cbn [of_opt rbind] in H; [|discriminate].
  destruct (dceil (sr_fees r)) as [fc|] eqn:Efc; cbn [of_opt rbind] in H; [|discriminate].
  destruct (send_one_raw _ AUser APool din (sr_in r - dtrunc_int fc)) as [s2| |] eqn:E2; cbn [rbind] in H; try discriminate.
  match type of H with rbind ?c _ = _ => destruct c as [s3| |] eqn:E3; cbn [rbind] in H; try discriminate end.
  destruct (send_one_raw s3 APool AUser dout (sr_out r)) as [s4| |] eqn:E4; cbn [rbind] in H; try discriminate.
  repeat (match type of H with (if ?c then _ else _) = _ => destruct c; [discriminate|] end).
  injection H as <- <- <-.
  destruct (send_one_raw_spec _ _ _ _ _ _ E2) as ((Q2&P2&T2&V2&S2&A2&N2) & _ & _).
  assert (F3 : same_fee_state s2 s3).
  { destruct (dtrunc_int fc =? 0); [injection E3 as <-; apply same_fee_state_refl|apply (send_one_raw_spec _ _ _ _ _ _ E3)]. }
  destruct F3 as (Q3&P3&T3&V3&S3&A3&N3).
  destruct (send_one_raw_spec _ _ _ _ _ _ E4) as ((Q4&P4&T4&V4&S4&A4&N4) & _ & _).
  exists r, accv. split; [reflexivity|]. split; [exact Ea|]. cbn.
  rewrite T4, T3, T2, V4, V3, V2, P4, P3, P2, A4, A3, A2, S4, S3, S2. cbn. repeat split. exists fc. exact Efc.
Qed.

Lemma vglobal_zero accv din : len4 accv -> 0 <= din < 4 -> vglobal accv din 0 = accv.
Proof.
  intros La Hd. apply vec_ext4; [apply vglobal_len4; assumption|exact La|]. intros i Hi.
  rewrite vglobal_nth by assumption. destruct (Nat.eqb i (Z.to_nat din)); lia.
Qed.

Theorem swap_accrual s ei din dout specified s' i o :
  FeeWF s -> StronglySorted tick_lt (a_ticks s) -> swap_cursor_ok s ei din specified ->
  swap s ei din dout specified true = Ok (s', i, o) ->
  0 <= din < 2 /\ Forall tick_wf (a_ticks s') /\ len4 (a_acc_value s') /\
  (forall t, stored (a_ticks s') t <-> stored (a_ticks s) t) /\
  exists evs,
    Forall (ev_ok (din =? 0) (p_tick (a_pool s)) (p_tick (a_pool s'))) evs /\
    (forall t, stored (a_ticks s) t -> forall j, (j < 4)%nat ->
       vn (below_of s' t) j = vn (below_of s t) j + (if Nat.eqb j (Z.to_nat din) then sum_below evs t else 0)) /\
    (forall j, (j < 4)%nat -> vn (a_acc_value s') j = vn (a_acc_value s) j + (if Nat.eqb j (Z.to_nat din) then sum_per evs else 0)) /\
    exists fees, sum_fc evs = fees /\
      swap_fee_coins s ei din dout specified =
        match dceil fees with Some fc => if dtrunc_int fc =? 0 then vzero else vsingle din (dtrunc_int fc) | None => vzero end.
Proof.
  intros W Hs Hcur H.
  destruct (swap_fields _ _ _ _ _ _ _ _ H) as (r & accv & Ec & Ea & T' & V' & K' & _).
  destruct (compute_swap_inv _ _ _ _ _ _ _ _ _ Ec) as (_ & Hd & limit & st & Elim & El & R1 & R2 & R3 & R4 & _).
  assert (Hd4 : 0 <= din < 4) by lia.
  pose proof (fw_acc _ W) as La.
  destruct (swap_loop_accrual ei (din =? 0) (p_fee (a_pool s)) limit (p_tp (a_pool s)) (a_acc_value s) din _ _ (swap_st0 s specified) st
              La Hd4 (fw_ticks _ W) (iter_ticks_ok _ _ _ Hs) (Hcur limit Elim) El) as (Tw & evs & [Rb Rg Rf Rd Re Rs]).
  cbn [swap_st0 ss_growth ss_fees ss_tick ss_ticks] in *.
  assert (Hacc : accv = vglobal (a_acc_value s) din (ss_growth st)).
  { rewrite R3 in Ea. pose proof (vsingle_length din (ss_growth st) Hd4) as Ls.
    destruct (vadd_nth _ _ _ Ea ltac:(unfold len4 in *; congruence)) as [L1 N1].
    apply vec_ext4; [unfold len4 in *; congruence|apply vglobal_len4; assumption|]. intros j Hj.
    rewrite N1 by (unfold len4 in *; lia). unfold vglobal. rewrite vplus_nth4; [reflexivity|exact La|exact Ls|exact Hj]. }
  split; [lia|]. split; [rewrite T', R1; exact Tw|]. split; [rewrite V', Hacc; apply vglobal_len4; assumption|].
  split; [intros t; rewrite T', R1; apply Rs|].
  exists evs. split; [rewrite K', R4; exact Re|]. split; [|split].
  - intros t Ht j Hj. specialize (Rb t Ht j Hj). unfold Bel in Rb. cbn [swap_st0 ss_growth ss_tick ss_ticks] in Rb.
    rewrite (vglobal_zero _ _ La Hd4) in Rb. unfold below_of. rewrite T', V', K', R1, R4, Hacc. exact Rb.
  - intros j Hj. rewrite V', Hacc, vglobal_nth by assumption. rewrite Rg. destruct (Nat.eqb j (Z.to_nat din)); lia.
  - exists (ss_fees st). split; [lia|]. unfold swap_fee_coins. rewrite Ec, R2. reflexivity.
Qed.

(* growth inside a range, read through [below] *)
Lemma growth_inside_below s lo up ins : FeeWF s -> stored (a_ticks s) lo -> stored (a_ticks s) up ->
  growth_inside s lo up = Some ins ->
  len4 ins /\ forall j, (j < 4)%nat -> vn ins j = vn (below_of s up) j - vn (below_of s lo) j.
Proof.
  intros W Hlo Hup H. unfold growth_inside in H.
  destruct (fee_growth_outside s lo up) as [o|] eqn:Eo; cbn [obind] in H; [|discriminate].
  pose proof (fw_acc _ W) as La. pose proof (fw_ticks _ W) as Ht.
  destruct (fgo_nth _ _ _ _ Eo La (tgrowth_len4 _ _ La Ht) (tgrowth_len4 _ _ La Ht)) as [Lo No].
  destruct (vsafe_sub_nth _ _ _ H ltac:(unfold len4 in *; congruence)) as [Li Ni].
  split; [unfold len4 in *; congruence|]. intros j Hj.
  rewrite Ni by (unfold len4 in *; lia). rewrite No by exact Hj. unfold below_of. rewrite !below_nth by assumption.
  unfold tgrowth, get_tick. unfold stored in Hlo, Hup.
  destruct (find_tick (a_ticks s) lo) as [tl|]; [|contradiction]. destruct (find_tick (a_ticks s) up) as [tu|]; [|contradiction].
  destruct (Z.leb_spec up (p_tick (a_pool s))); destruct (Z.ltb_spec (p_tick (a_pool s)) lo); destruct (Z.leb_spec lo (p_tick (a_pool s))); lia.
Qed.

(* growth inside [lo,up) rises by exactly the growth of the steps taken while lo <= cursor < up *)
Theorem swap_inside_growth s ei din dout specified s' i o lo up a b :
  FeeWF s -> StronglySorted tick_lt (a_ticks s) -> swap_cursor_ok s ei din specified ->
  swap s ei din dout specified true = Ok (s', i, o) ->
  stored (a_ticks s) lo -> stored (a_ticks s) up -> lo <= up ->
  growth_inside s lo up = Some a -> growth_inside s' lo up = Some b ->
  exists evs, Forall (ev_ok (din =? 0) (p_tick (a_pool s)) (p_tick (a_pool s'))) evs /\
    forall j, (j < 4)%nat -> vn b j = vn a j + (if Nat.eqb j (Z.to_nat din) then sum_in evs lo up else 0).
Proof.
  intros W Hs Hc H Hlo Hup Hle Ha Hb.
  destruct (swap_accrual _ _ _ _ _ _ _ _ W Hs Hc H) as (_ & Tw & La' & Hst & evs & He & Hbel & _).
  destruct (swap_flow _ _ _ _ _ _ _ _ W H) as (W' & _ & _).
  destruct (growth_inside_below _ _ _ _ W Hlo Hup Ha) as [_ Na].
  destruct (growth_inside_below _ _ _ _ W' (proj2 (Hst lo) Hlo) (proj2 (Hst up) Hup) Hb) as [_ Nb].
  exists evs. split; [exact He|]. intros j Hj. rewrite Na, Nb by exact Hj. rewrite !Hbel by assumption.
  rewrite (sum_in_below evs lo up Hle). destruct (Nat.eqb j (Z.to_nat din)); lia.
Qed.

Lemma sum_in_zero b4q t0 t1 evs lo up : Forall (ev_ok b4q t0 t1) evs ->
  up <= Z.min t0 t1 \/ Z.max t0 t1 < lo -> sum_in evs lo up = 0.
Proof.
  intros H Hout. induction H as [|[[[c per] fc] liq] r [Hc _] Hr IH]; cbn [sum_in]; [reflexivity|]. rewrite IH.
  destruct (Z.leb_spec lo c); destruct (Z.ltb_spec c up); cbn [andb]; try lia. destruct b4q; lia.
Qed.

(* accrues_only_in_range, for swaps: a range that the price never enters during the swap keeps its
   growth inside *)
Theorem swap_out_of_range s ei din dout specified s' i o lo up a b :
  FeeWF s -> StronglySorted tick_lt (a_ticks s) -> swap_cursor_ok s ei din specified ->
  swap s ei din dout specified true = Ok (s', i, o) ->
  stored (a_ticks s) lo -> stored (a_ticks s) up -> lo <= up ->
  up <= Z.min (p_tick (a_pool s)) (p_tick (a_pool s')) \/ Z.max (p_tick (a_pool s)) (p_tick (a_pool s')) < lo ->
  growth_inside s lo up = Some a -> growth_inside s' lo up = Some b -> b = a.
Proof.
  intros W Hs Hc H Hlo Hup Hle Hout Ha Hb.
  destruct (swap_inside_growth _ _ _ _ _ _ _ _ _ _ _ _ W Hs Hc H Hlo Hup Hle Ha Hb) as (evs & He & N).
  destruct (swap_flow _ _ _ _ _ _ _ _ W H) as (W' & _ & _).
  destruct (swap_accrual _ _ _ _ _ _ _ _ W Hs Hc H) as (_ & _ & _ & Hst & _).
  destruct (growth_inside_below _ _ _ _ W Hlo Hup Ha) as [La _].
  destruct (growth_inside_below _ _ _ _ W' (proj2 (Hst lo) Hlo) (proj2 (Hst up) Hup) Hb) as [Lb _].
  apply vec_ext4; [exact Lb|exact La|]. intros j Hj. rewrite N by exact Hj.
  rewrite (sum_in_zero _ _ _ _ _ _ He Hout). destruct (Nat.eqb j (Z.to_nat din)); lia.
Qed.
